(* C12, part 5: iterators of projected views (leading and flat), projections of views with non-zero index
   bases, and the based form of conversion-construction. *)
From BM Require Import Base.Tactics Model.Layout Model.View Model.Spec Model.Iter Model.Rebase Model.ProjectC12Based Model.ProjectC12
  Model.ProjectC12Walk
  Proofs.LayoutProofs Proofs.ViewProofs Proofs.ViewProofs2 Proofs.IterProofs Proofs.ElemProofs Proofs.C01Main
  Proofs.C02Main Proofs.RebaseProofs Proofs.ProjectC12Scale Proofs.ProjectC12Compose Proofs.ProjectC12Convert
  Proofs.ProjectC12ConvertBased.
Local Open Scope Z_scope.

(* ---- which projections: the assertion of layout_t::scale, nothing more ---- *)
Definition proj_ok (p : proj) (x : pview) : Prop :=
  match p with
  | PMember szU _ | PReinterpret szU | PReinterpretN szU _ =>
      0 < szU /\ 0 < p_esz x /\ dom_scale (p_esz x) szU (lay (p_view x)) = true
  | PIdentity => True
  end.
Definition proj_sizes (p : proj) (sz : list Z) : list Z :=
  match p with PReinterpretN _ n => sz ++ [n] | _ => sz end.
Definition proj_count_ok (p : proj) : Prop := match p with PReinterpretN _ n => 0 <= n | _ => True end.

Lemma pv_same_refl a : pv_same a a.
Proof. repeat split. Qed.
Lemma pv_same_trans a b c : pv_same a b -> pv_same b c -> pv_same a c.
Proof. intros (A1 & A2 & A3) (B1 & B2 & B3). repeat split; congruence. Qed.
(* the same layout, element size and byte pointer: every element is at the same byte address *)
Lemma pv_same_addr a b : pv_same a b -> forall idx, p_addr a idx = p_addr b idx.
Proof. intros (E1 & E2 & E3) idx. rewrite !p_addr_ptr, E1, E2, E3. reflexivity. Qed.
Lemma pv_same_addr_brackets a b : pv_same a b -> forall idx, p_addr_brackets a idx = p_addr_brackets b idx.
Proof. intros H idx. rewrite !p_addr_brackets_eq. apply pv_same_addr. exact H. Qed.
Lemma pv_same_extensions a b : pv_same a b -> l_extensions (lay (p_view a)) = l_extensions (lay (p_view b)).
Proof. intros (E & _). rewrite E. reflexivity. Qed.

(* ---- a projected view is again a well-formed zero-based view ---- *)
Lemma proj_lay_ok p x sz : lay_ok (lay (p_view x)) sz -> proj_ok p x -> proj_count_ok p ->
  lay_ok (lay (p_view (p_exec_proj p x))) (proj_sizes p sz).
Proof.
  intros Hok Hp Hc. destruct p as [szU moff|szU|szU n|]; cbn [proj_ok proj_sizes proj_count_ok p_exec_proj] in *.
  - destruct Hp as (HU & HT & Hd). apply member_cast_ok; assumption.
  - destruct Hp as (HU & HT & Hd). apply reinterpret_ok; assumption.
  - destruct Hp as (HU & HT & Hd). apply reinterpret_n_ok; assumption.
  - exact Hok.
Qed.

(* ---- projection of the r-th sub-view = r-th sub-view of the projection ---- *)
Lemma p_ptr_index r x d l : lay (p_view x) = d :: l ->
  p_ptr (p_index r x) = p_ptr x + p_esz x * (r * d_stride d - d_offset d).
Proof.
  intros E. unfold p_index, p_exec_op, p_ptr; cbn [p_view p_org p_esz exec_op]. unfold v_index, hd_dim.
  rewrite E. cbn [hd base]. lia.
Qed.
Lemma lay_index r x : lay (p_view (p_index r x)) = tl (lay (p_view x)).
Proof. reflexivity. Qed.
Lemma esz_index r x : p_esz (p_index r x) = p_esz x.
Proof. reflexivity. Qed.

Lemma member_index_commute x n sz szU moff r :
  lay_ok (lay (p_view x)) (n :: sz) -> 0 < szU -> 0 < p_esz x -> dom_scale (p_esz x) szU (lay (p_view x)) = true ->
  pv_same (p_index r (p_member_cast szU moff x)) (p_member_cast szU moff (p_index r x)).
Proof.
  intros Hok HU HT Hd. destruct (lay (p_view x)) as [|d l] eqn:E; [inv Hok|].
  rewrite dom_scale_cons in Hd. apply andb_true_iff in Hd. destruct Hd as [H Hd2]. apply Z.eqb_eq in H.
  inversion Hok as [|? ? ? ? Hdim Hrest]; subst. destruct Hdim as (Ho & _).
  assert (EM : lay (p_view (p_member_cast szU moff x)) = d_scale_b (p_esz x) szU d :: l_scale_b (p_esz x) szU l).
  { unfold p_member_cast, p_rebase; cbn [p_view lay]. rewrite E. reflexivity. }
  split; [|split].
  - rewrite lay_index, EM. unfold p_member_cast, p_rebase; cbn [p_view lay tl]. rewrite lay_index, E. reflexivity.
  - reflexivity.
  - rewrite (p_ptr_index r _ _ _ EM).
    unfold p_member_cast at 1 2 3. unfold p_rebase, p_ptr at 1 3; cbn [p_view p_org p_esz base d_scale_b d_stride d_offset].
    rewrite esz_index, (p_ptr_index r x d l E), Ho.
    replace (Z.quot (0 * p_esz x) szU) with 0 by (rewrite Z.mul_0_l; symmetry; apply Z.quot_0_l; lia).
    pose proof (quot_exact (d_stride d) (p_esz x) szU ltac:(lia) H) as Q.
    unfold p_ptr; cbn [p_view p_org p_esz base].
    set (q := Z.quot (d_stride d * p_esz x) szU) in *. clearbody q.
    replace (szU * (r * q - 0)) with (r * (q * szU)) by ring. rewrite Q. ring.
Qed.

Lemma reinterpret_n_index_commute x n sz szU cnt r :
  lay_ok (lay (p_view x)) (n :: sz) -> 0 < szU -> 0 < p_esz x -> dom_scale (p_esz x) szU (lay (p_view x)) = true ->
  pv_same (p_index r (p_reinterpret_n szU cnt x)) (p_reinterpret_n szU cnt (p_index r x)).
Proof.
  intros Hok HU HT Hd. destruct (lay (p_view x)) as [|d l] eqn:E; [inv Hok|].
  rewrite dom_scale_cons in Hd. apply andb_true_iff in Hd. destruct Hd as [H Hd2]. apply Z.eqb_eq in H.
  inversion Hok as [|? ? ? ? Hdim Hrest]; subst. destruct Hdim as (Ho & _).
  destruct (p_reinterpret_n_lay szU cnt x) as (L1 & B1 & O1 & S1).
  destruct (p_reinterpret_n_lay szU cnt (p_index r x)) as (L2 & B2 & O2 & S2).
  unfold pv_same. rewrite lay_index, esz_index, L1, L2, S1, S2, lay_index, esz_index, E.
  cbn [l_scale_b map app tl]. split; [reflexivity|]. split; [reflexivity|].
  rewrite (p_ptr_index r _ (d_scale_b (p_esz x) szU d) (l_scale_b (p_esz x) szU l ++ [mkdim 1 0 cnt])).
  2:{ rewrite L1, E. reflexivity. }
  unfold p_ptr at 1 2. rewrite B1, O1, S1, B2, O2, S2. cbn [d_scale_b d_stride d_offset].
  rewrite (p_ptr_index r x d l E), Ho.
  replace (Z.quot (0 * p_esz x) szU) with 0 by (rewrite Z.mul_0_l; symmetry; apply Z.quot_0_l; lia).
  pose proof (quot_exact (d_stride d) (p_esz x) szU ltac:(lia) H) as Q.
  set (q := Z.quot (d_stride d * p_esz x) szU) in *. clearbody q.
  replace (szU * (r * q - 0)) with (r * (q * szU)) by ring. rewrite Q. ring.
Qed.

Lemma tl_lay_ok l n sz : lay_ok l (n :: sz) -> lay_ok (tl l) sz.
Proof. intros H. inv H. assumption. Qed.

Lemma proj_index_commute p x n sz r :
  lay_ok (lay (p_view x)) (n :: sz) -> proj_ok p x ->
  pv_same (p_index r (p_exec_proj p x)) (p_exec_proj p (p_index r x)).
Proof.
  intros Hok Hp. destruct p as [szU moff|szU|szU cnt|]; cbn [proj_ok p_exec_proj] in *.
  - destruct Hp as (HU & HT & Hd). eapply member_index_commute; eassumption.
  - destruct Hp as (HU & HT & Hd).
    rewrite (reinterpret_is_member0 x _ szU Hok).
    rewrite (reinterpret_is_member0 (p_index r x) sz szU).
    2:{ rewrite lay_index. eapply tl_lay_ok; eassumption. }
    eapply member_index_commute; eassumption.
  - destruct Hp as (HU & HT & Hd). eapply reinterpret_n_index_commute; eassumption.
  - change (pv_same (p_index r (p_exec_proj PIdentity x)) (p_exec_proj PIdentity (p_index r x))).
    rewrite !p_identity_eq. apply pv_same_refl.
Qed.

(* ---- the leading iterator of any projected view with a well-formed leading dimension (any index base) ---- *)
Section Lead.
  Variable M : pview.
  Variables (d : dim) (l : layout) (f n : Z).
  Hypothesis Hlay : lay (p_view M) = d :: l.
  Hypothesis Hd : dim_okg d f n.
  Hypothesis Hs : d_stride d <> 0.
  Let b := p_it_begin M.

  Lemma lead_pos tr : run_a tr b = it_add b (run_pos tr 0).
  Proof.
    destruct (C02_array_iterator_laws_proved (p_view M) d l f n Hlay Hd Hs) as (_ & _ & _ & _ & _ & _ & H).
    apply H.
  Qed.
  Lemma lead_deref r : 0 <= r < n -> p_it_deref M (it_add b r) = p_index (f + r) M.
  Proof.
    intros Hr.
    destruct (C02_array_iterator_laws_proved (p_view M) d l f n Hlay Hd Hs) as (_ & _ & _ & _ & _ & H & _).
    unfold p_it_deref, p_index, p_exec_op, b, p_it_begin. cbn [exec_op]. rewrite (H r Hr). reflexivity.
  Qed.
  Lemma lead_laws q k :
       it_diff (it_add b q) b = q /\ it_diff (p_it_end M) (it_add b q) = n - q
    /\ it_inc (it_add b q) = it_add b (q + 1) /\ it_dec (it_add b q) = it_add b (q - 1)
    /\ it_add (it_add b q) k = it_add b (q + k) /\ it_sub (it_add b q) k = it_add b (q - k)
    /\ it_index (it_add b q) k = it_deref (it_add b (q + k)).
  Proof.
    destruct (C02_array_iterator_laws_proved (p_view M) d l f n Hlay Hd Hs) as (Hsz & Hend & H0 & Hid & Hk & _ & _).
    cbv zeta in Hsz, Hend, H0, Hid, Hk. unfold b, p_it_begin, p_it_end.
    destruct (Hk 0 q) as (_ & _ & A3 & _). rewrite H0 in A3.
    split; [exact A3|].
    split.
    { destruct (Hk q (n - q)) as (B1 & _ & B3 & _). rewrite B1 in B3.
      replace (q + (n - q)) with n in B3 by lia. rewrite Hend in B3. exact B3. }
    repeat split; unfold it_inc, it_dec, it_sub, it_index, it_deref, it_add; cbn [ibase istride isub]; f_equal; try lia; try ring.
  Qed.
End Lead.

(* the p-th sub-view (p-th element for rank 1) of a projected view M of a zero-based source x *)
Theorem C12_projected_iterator_lead_proved :
  forall (x : pview) (n : Z) (sz : list Z) (p : proj),
    lay_ok (lay (p_view x)) (n :: sz) -> 0 < n -> proj_ok p x -> proj_count_ok p ->
    let M := p_exec_proj p x in
    let b := p_it_begin M in
    forall tr : list iop,
      let q := run_pos tr 0 in
      let it := run_a tr b in
         it = it_add b q                                            (* any ++ -- += -= trace is plain arithmetic *)
      /\ it_diff it b = q /\ it_diff (p_it_end M) it = n - q
      /\ (forall r, 0 <= r < n ->                                     (* every dereferenceable position r *)
              p_it_deref M (it_add b r) = p_index r M                 (* the iterator designates what indexing designates *)
           /\ pv_same (p_it_deref M (it_add b r)) (p_exec_proj p (p_index r x))   (* = the projection of the source's r-th sub-view *)
           /\ lay_ok (lay (p_view (p_it_deref M (it_add b r)))) (proj_sizes p sz))
      /\ (0 <= q < n -> p_it_deref M it = p_it_deref M (it_add b q))                       (* *it *)
      /\ (forall k, p_it_index M it k = p_it_deref M (it_add b (q + k)))                  (* it[k] *)
      /\ p_rit_deref M it = p_it_deref M (it_add b (q - 1))                                (* *reverse_iterator(it) *)
      /\ (forall k, p_rit_index M it k = p_it_deref M (it_add b (q - 1 - k))).             (* reverse_iterator(it)[k] *)
Proof.
  intros x n sz p Hok Hn Hp Hc M b tr q it.
  pose proof (proj_lay_ok p x (n :: sz) Hok Hp Hc) as HM. fold M in HM.
  assert (HM' : exists d l, lay (p_view M) = d :: l /\ dim_ok d n /\ lay_ok l (proj_sizes p sz)).
  { destruct p; cbn [proj_sizes app] in HM |- *; inv HM; eauto. }
  destruct HM' as (d & l & El & Hd & Hl).
  assert (Hg : dim_okg d 0 n) by (apply dim_ok_g; exact Hd).
  assert (Hs : d_stride d <> 0) by (destruct Hd as (_ & _ & _ & H); specialize (H Hn); lia).
  pose proof (lead_pos M d l 0 n El Hg Hs tr) as Epos. fold b in Epos. fold it q in Epos.
  split; [exact Epos|].
  destruct (lead_laws M d l 0 n El Hg Hs q 0) as (L1 & L2 & _). fold b in L1, L2.
  rewrite Epos. split; [exact L1|]. split; [exact L2|].
  split.
  { intros r Hr. pose proof (lead_deref M d l 0 n El Hg Hs r Hr) as E. fold b in E. rewrite Z.add_0_l in E.
    split; [exact E|]. rewrite E. split; [eapply proj_index_commute; eassumption|].
    rewrite lay_index, El. exact Hl. }
  split; [reflexivity|].
  split.
  { intros k. destruct (lead_laws M d l 0 n El Hg Hs q k) as (_ & _ & _ & _ & _ & _ & L7). fold b in L7.
    unfold p_it_index, p_it_deref. rewrite L7. reflexivity. }
  split.
  { destruct (lead_laws M d l 0 n El Hg Hs q 0) as (_ & _ & _ & L4 & _). fold b in L4.
    unfold p_rit_deref. rewrite L4. reflexivity. }
  intros k. destruct (lead_laws M d l 0 n El Hg Hs q k) as (_ & _ & _ & _ & _ & L6 & _). fold b in L6.
  destruct (lead_laws M d l 0 n El Hg Hs (q - k) 0) as (_ & _ & _ & L4 & _). fold b in L4.
  unfold p_rit_index. rewrite L6, L4. f_equal. f_equal. lia.
Qed.

(* ---- any index base: the casts that keep layout and base pointer, and element_transformed ---- *)
Definition same_view_cast (c : view -> view) : Prop :=
  c = v_static_array_cast \/ c = v_const_array_cast \/ c = v_as_const \/ c = v_element_transformed.

Lemma same_view_cast_id c v : same_view_cast c -> c v = v.
Proof. intros [-> | [-> | [-> | ->]]]; destruct v; reflexivity. Qed.

Theorem C12_projected_iterator_any_base_proved :
  forall (v : view) (d : dim) (l : layout) (f n : Z) (c : view -> view),
    lay v = d :: l -> dim_okg d f n -> d_stride d <> 0 -> same_view_cast c ->
    forall tr : list iop,
      let q := run_pos tr 0 in
      let it := run_a tr (it_begin (c v)) in
         it = it_add (it_begin (c v)) q
      /\ it_diff it (it_begin (c v)) = q /\ it_diff (it_end (c v)) it = n - q
      /\ (forall r, 0 <= r < n -> it_deref (it_add (it_begin (c v)) r) = c (v_index (f + r) v))
      /\ (forall k, it_index it k = it_deref (it_add (it_begin (c v)) (q + k)))
      /\ it_deref (it_dec it) = it_deref (it_add (it_begin (c v)) (q - 1))
      /\ (forall (A B : Type) (g : A -> B) (s : Z -> A) r idx, 0 <= r < n ->
            t_read g s (it_deref (it_add (it_begin (v_element_transformed v)) r)) idx = g (v_read s (v_index (f + r) v) idx)).
Proof.
  intros v d l f n c Hl Hd Hs Hc tr q it.
  subst it. rewrite !(same_view_cast_id c v Hc).
  set (M := p_embed 1 v).
  pose proof (lead_pos M d l f n Hl Hd Hs tr) as Epos. unfold p_it_begin, M in Epos; cbn [p_embed p_view] in Epos.
  fold q in Epos. split; [exact Epos|]. rewrite Epos.
  destruct (lead_laws M d l f n Hl Hd Hs q 0) as (L1 & L2 & _ & L4 & _).
  unfold p_it_begin, p_it_end, M in L1, L2, L4; cbn [p_embed p_view] in L1, L2, L4.
  split; [exact L1|]. split; [exact L2|].
  destruct (C02_array_iterator_laws_proved v d l f n Hl Hd Hs) as (_ & _ & _ & _ & _ & Hder & _).
  split.
  { intros r Hr. rewrite (Hder r Hr). symmetry. apply same_view_cast_id. exact Hc. }
  split.
  { intros k. destruct (lead_laws M d l f n Hl Hd Hs q k) as (_ & _ & _ & _ & _ & _ & L7).
    unfold p_it_begin, M in L7; cbn [p_embed p_view] in L7. exact L7. }
  split; [rewrite L4; reflexivity|].
  intros A B g s r idx Hr. rewrite (transformed_same_view v), (Hder r Hr). apply t_read_lazy.
Qed.

(* ---- the flat iterators (elements()) of a projected view ---- *)
Lemma rowmajor_to_linear sz0 idx0 : valid_idx sz0 idx0 -> rowmajor sz0 idx0 = x_to_linear (zb sz0) idx0.
Proof.
  induction 1 as [|n0 i0 sz1 idx1 Hi Hv IH]; [reflexivity|].
  cbn [zb map]. fold (zb sz1).
  rewrite TL_cons by (rewrite (valid_idx_length _ _ Hv); unfold zb; rewrite map_length; reflexivity).
  cbn [rowmajor fst]. fold (prod sz1). rewrite IH, x_num_elements_zb. lia.
Qed.

Definition proj_off (p : proj) : Z := match p with PMember _ moff => moff | _ => 0 end.

Theorem C12_projected_iterator_flat_proved :
  forall (x : pview) (sz : list Z) (p : proj),
    lay_ok (lay (p_view x)) sz -> proj_ok p x -> proj_count_ok p ->
    Forall (fun n => 0 < n) (proj_sizes p sz) ->                        (* the range has elements *)
    let M := p_exec_proj p x in
    let N := er_size (p_view M) in
    forall tr : list iop, trace_ok N 0 tr = true ->                     (* any ++ -- += -= staying in [begin, end] *)
      let q := run_pos tr 0 in
      let it := run_e tr (p_e_begin M) in
         en it = q /\ 0 <= q <= N /\ N = prod (proj_sizes p sz)
      /\ e_diff it (p_e_begin M) = q /\ e_diff (p_e_end M) it = N - q
      /\ (q < N -> valid_idx (proj_sizes p sz) (canon (p_view M) q)
                /\ p_e_deref M it = p_addr_brackets M (canon (p_view M) q))            (* *it *)
      /\ (forall k, p_e_index M it k = p_addr_brackets M (canon (p_view M) (q + k)))  (* it[k] *)
      /\ (forall k, 0 <= k < N ->                                                      (* canon k is the k-th index tuple, last index fastest *)
            valid_idx (proj_sizes p sz) (canon (p_view M) k)
         /\ rowmajor (proj_sizes p sz) (canon (p_view M) k) = k)
      /\ (forall idx,                                                                  (* ... of the projection of the source element *)
            match p with
            | PReinterpretN _ _ => True
            | _ => p_addr_brackets M idx = p_addr_brackets x idx + proj_off p
            end).
Proof.
  intros x sz p Hok Hp Hc Hpos M N tr Htr q it.
  pose proof (proj_lay_ok p x sz Hok Hp Hc) as HM. fold M in HM.
  set (szM := proj_sizes p sz) in *.
  pose proof (lay_ok_okg _ _ HM) as Hg.
  assert (Hp' : Forall (fun pr : Z * Z => 0 < snd pr) (map (fun n => (0, n)) szM)).
  { rewrite Forall_map. exact Hpos. }
  pose proof (C02_elements_iterator_laws_proved (p_view M) _ Hg Hp' tr Htr) as H. cbv zeta in H.
  fold (p_e_begin M) in H. fold (p_e_end M) in H. fold it q N in H.
  destruct H as (H1 & H2 & H3 & H4 & _ & _ & _ & H8 & H9 & _ & _ & _ & H13 & _).
  assert (EX : l_extensions (lay (p_view M)) = zb szM) by (apply lay_ok_extensions; exact HM).
  split; [exact H1|]. split; [exact H2|].
  split; [unfold N, er_size; apply lay_ok_num_elements; exact HM|].
  split; [exact H3|]. split; [exact H4|].
  split.
  { intros Hq. destruct (H13 q ltac:(lia)) as [Hin _]. rewrite EX in Hin. split; [apply in_ext_zb; exact Hin|].
    unfold p_e_deref. rewrite (H8 Hq), p_addr_brackets_eq. reflexivity. }
  split.
  { intros k. unfold p_e_index. rewrite (H9 k), p_addr_brackets_eq. reflexivity. }
  split.
  { intros k Hk. destruct (H13 k Hk) as [Hin Etl]. rewrite EX in Hin, Etl.
    pose proof (proj1 (in_ext_zb _ _) Hin) as Hv. split; [exact Hv|].
    rewrite <- Etl at 2. apply rowmajor_to_linear. exact Hv. }
  intros idx. destruct p as [szU moff|szU|szU cnt|]; cbn [proj_ok proj_off p_exec_proj] in *; [| |exact I|].
  - destruct Hp as (HU & HT & Hd). subst M. rewrite !p_addr_brackets_eq. eapply member_cast_addr; eassumption.
  - destruct Hp as (HU & HT & Hd). subst M. rewrite !p_addr_brackets_eq, Z.add_0_r. eapply reinterpret_addr; eassumption.
  - subst M. change (mkpview (v_static_array_cast (p_view x)) (p_org x) (p_esz x)) with (p_exec_proj PIdentity x).
    rewrite p_identity_eq. lia.
Qed.

(* ---- index bases: reinterpret_array_cast<U>() of a const rank-1 view (its own code scales the offset) ---- *)
Theorem C12_reinterpret_rank1_any_base_proved :
  forall (x : pview) (d : dim) (f n szU : Z),
    lay (p_view x) = [d] -> dim_okg d f n -> 0 < p_esz x -> 0 < szU ->
    Z.rem (d_stride d * p_esz x) szU = 0 ->                       (* BOOST_MULTI_ASSERT of array_ref.hpp:3244 *)
    let m := p_reinterpret szU x in
    exists d', lay (p_view m) = [d'] /\ dim_okg d' f n /\ p_esz m = szU
      /\ l_extensions (lay (p_view m)) = l_extensions (lay (p_view x))
      /\ forall i, p_addr_brackets m [i] = p_addr_brackets x [i].
Proof.
  intros x d f n szU El Hd HT HU Hr m.
  pose proof (quot_exact (d_stride d) (p_esz x) szU ltac:(lia) Hr) as Q.
  destruct Hd as (Ho & Hn & Hn0 & Hs).
  set (q := Z.quot (d_stride d * p_esz x) szU) in *.
  assert (Eo : Z.quot (d_offset d * p_esz x) szU = f * q).
  { rewrite Ho. unfold q. apply quot_scale_mul; [lia|exact Hr]. }
  assert (En : Z.quot (d_nelems d * p_esz x) szU = n * q).
  { rewrite Hn. unfold q. apply quot_scale_mul; [lia|exact Hr]. }
  assert (Hd' : dim_okg (d_rescale1 (p_esz x) szU d) f n).
  { unfold dim_okg, d_rescale1; cbn [d_stride d_offset d_nelems]. fold q. rewrite Eo, En.
    repeat split; try lia; intros Hpos; specialize (Hs Hpos); clearbody q; nia. }
  exists (d_rescale1 (p_esz x) szU d).
  assert (Elm : lay (p_view m) = [d_rescale1 (p_esz x) szU d]).
  { unfold m, p_reinterpret, p_rebase; cbn [p_view lay]. rewrite El. reflexivity. }
  split; [exact Elm|]. split; [exact Hd'|]. split; [reflexivity|].
  split.
  { rewrite Elm, El. cbn [l_extensions map]. f_equal.
    rewrite (dim_okg_extension _ _ _ Hd'), (dim_okg_extension d f n); [reflexivity|].
    unfold dim_okg. repeat split; assumption. }
  intros i. rewrite !p_addr_brackets_eq, (p_addr_ptr m), (p_addr_ptr x), Elm, El.
  unfold m, p_reinterpret, p_rebase, p_ptr at 1; cbn [p_view p_org p_esz base l_addr d_rescale1 d_stride d_offset].
  fold q. rewrite Eo, Ho. clearbody q.
  replace (szU * (i * q - f * q + 0)) with ((i - f) * (q * szU)) by ring. rewrite Q. ring.
Qed.

(* ---- index bases: the casts that keep (layout, base) and element_transformed, on every re-based reachable view ---- *)
Lemma lok_okg l : lok l -> exists fn, lay_okg l fn.
Proof.
  induction 1 as [|d l (f & n & Hd) _ (fn & IH)]; [exists nil; constructor|].
  exists ((f, n) :: fn). constructor; assumption.
Qed.

Theorem C12_identity_any_base_proved :
  forall (A B : Type) (g : A -> B) (exts : list range) (ops : list op) (w : view),
    Forall (fun r => fst r <= snd r) exts ->
    run_safe ops (root_view exts) = true -> run_ops ops (root_view exts) = Some w ->
    let sz := map r_size exts in
    let a := run_spec (twin_ops ops (root_view exts)) (root_spec sz) in
       v_static_array_cast w = w /\ v_const_array_cast w = w /\ v_as_const w = w /\ v_element_transformed w = w
    /\ forall (s : Z -> A) idx, in_extl (lay w) idx ->
            t_read g s w idx = g (v_read s w idx)
         /\ v_read s w idx = s (rowmajor (collapse sz) (amap a (vsubz idx (firsts_of w))))
         /\ 0 <= rowmajor (collapse sz) (amap a (vsubz idx (firsts_of w))) < prod sz.
Proof.
  intros A B g exts ops w Hex Hsafe Hrun sz a.
  destruct (cast_identity w) as (E1 & E2 & E3 & _).
  split; [exact E1|]. split; [exact E2|]. split; [exact E3|]. split; [apply transformed_same_view|].
  intros s idx Hi. split; [apply t_read_lazy|].
  destruct (C19_rebase_transparent_proved exts ops w Hex Hsafe Hrun) as (Hrun0 & Hc01 & Hsz & _ & _ & _ & Hadr).
  cbv zeta in Hrun0, Hc01, Hsz, Hadr. destruct (Hadr idx Hi) as [Ea Hv].
  assert (Hnn : Forall (fun n => 0 <= n) sz).
  { unfold sz. rewrite Forall_map. eapply Forall_impl; [|exact Hex]. unfold r_size. intros; lia. }
  pose proof (represents_run _ _ _ _ _ Hc01 (represents_root sz Hnn) Hrun0) as [Hok Ha]. fold a in Hok, Ha.
  rewrite (lay_ok_sizes _ _ Hok) in Hv. destruct (Ha _ Hv) as [Hvr Er].
  pose proof (rowmajor_bounds _ _ Hvr) as Hb. rewrite prod_collapse in Hb.
  split; [|exact Hb]. unfold v_read. rewrite addr_brackets_eq. fold (v_addr w idx). rewrite Ea, Er. reflexivity.
Qed.

(* ---- conversion-construction from every re-based reachable view ---- *)
Theorem C12_convert_construct_any_base_proved :
  forall (A B : Type) (conv : A -> B) (rd : Z -> A) (exts : list range) (ops : list op) (w : view),
    Forall (fun r => fst r <= snd r) exts ->
    run_safe ops (root_view exts) = true -> run_ops ops (root_view exts) = Some w ->
    exists c, convert_construct conv rd (lay w) = Some c                       (* always defined *)
      /\ (Forall (fun n => 0 < n) (l_sizes (lay w)) ->                           (* the view has elements: *)
             l_extensions (c_lay c) = l_extensions (lay w)                      (*   the same extensions, first indices included *)
          /\ l_sizes (c_lay c) = l_sizes (lay w)
          /\ length (c_data c) = Z.to_nat (l_num_elements (lay w))
          /\ forall idx, in_ext (l_extensions (lay w)) idx ->
               c_at c idx = Some (conv (rd (l_addr (lay w) idx))))              (*   element idx = conv (source element idx) *)
      /\ (l_num_elements (lay w) = 0 ->                                          (* no elements: an empty array *)
             c_data c = [] /\ l_num_elements (c_lay c) = 0 /\ c_lay c = mk_layout (l_extensions (lay w))).
Proof.
  intros A B conv rd exts ops w Hex Hsafe Hrun.
  destruct (rebase_run ops (root_view exts) w (mk_lok exts Hex) Hsafe Hrun) as [_ Hl].
  destruct (lok_okg _ Hl) as [fn Hg].
  pose proof (okg_sizes _ _ Hg) as Esz.
  destruct (Z.eq_dec (l_num_elements (lay w)) 0) as [E0|Ene].
  - destruct (convert_construct_based_empty conv rd _ fn Hg E0) as (c & Hc & Hd & Hn & Hlc).
    exists c. split; [exact Hc|]. split.
    + intros Hpos. exfalso. rewrite Esz in Hpos.
      assert (Hp' : Forall (fun pr : Z * Z => 0 < snd pr) fn) by (rewrite Forall_map in Hpos; exact Hpos).
      pose proof (lay_okg_numel _ _ Hg Hp') as EN. pose proof (numel_pos _ (lay_okg_xpos _ _ Hg Hp')). lia.
    + intros _. repeat split; assumption.
  - assert (Hp' : Forall (fun pr : Z * Z => 0 < snd pr) fn).
    { clear -Hg Ene. set (L := lay w) in *. clearbody L. induction Hg as [|d p l fn Hd _ IH]; [constructor|].
      cbn [l_num_elements] in Ene. rewrite (dim_okg_size _ _ _ Hd) in Ene. destruct Hd as (_ & _ & Hn & _).
      constructor.
      - destruct (Z.eq_dec (snd p) 0) as [E|E]; [rewrite E in Ene; lia|lia].
      - apply IH. intro E. rewrite E in Ene. lia. }
    destruct (convert_construct_based conv rd _ fn Hg Hp') as (c & Hc & He & Hs & Hlen & Hat).
    exists c. split; [exact Hc|]. split; [|intros E; contradiction].
    intros _. split; [exact He|]. split; [rewrite Hs, Esz; reflexivity|]. split; [exact Hlen|exact Hat].
Qed.

Theorem C12_convert_construct_based_proved :
  forall (A B : Type) (conv : A -> B) (rd : Z -> A) (l : layout) (fn : list (Z * Z)),
    lay_okg l fn -> Forall (fun p => 0 < snd p) fn ->
    exists c, convert_construct conv rd l = Some c
      /\ convert_assign conv rd l = Some c
      /\ l_extensions (c_lay c) = l_extensions l
      /\ l_sizes (c_lay c) = map snd fn
      /\ length (c_data c) = Z.to_nat (l_num_elements l)
      /\ forall idx, in_ext (l_extensions l) idx -> c_at c idx = Some (conv (rd (l_addr l idx))).
Proof.
  intros A B conv rd l fn H1 H2. destruct (convert_construct_based conv rd l fn H1 H2) as (c & Hc & H).
  exists c. split; [exact Hc|]. split; [exact Hc|exact H].
Qed.

Theorem C12_convert_iter_pair_proved :
  forall (A B : Type) (conv : A -> B) (rd : Z -> A) (l : layout) (fn : list (Z * Z)) (r : range) (X : list range),
    lay_okg l fn -> Forall (fun p => 0 < snd p) fn -> l_extensions l = r :: X ->
    exists c, convert_iter_pair conv rd l = Some c
      /\ l_extensions (c_lay c) = (0, r_size r) :: X
      /\ length (c_data c) = Z.to_nat (l_num_elements l)
      /\ forall i idx, in_ext (r :: X) (i :: idx) -> c_at c ((i - fst r) :: idx) = Some (conv (rd (l_addr l (i :: idx)))).
Proof. exact @convert_iter_pair_based. Qed.

Theorem C12_convert_flat_proved :
  forall (A B : Type) (conv : A -> B) (rd : Z -> A) (l : layout) (fn : list (Z * Z)),
    lay_okg l fn -> Forall (fun p => 0 < snd p) fn ->
    exists c, convert_flat conv rd l = Some c
      /\ l_extensions (c_lay c) = [(0, l_num_elements l)]
      /\ forall k, 0 <= k < l_num_elements l ->
           c_at c [k] = Some (conv (rd (l_addr l (x_from_linear (l_extensions l) k)))).
Proof. exact @convert_flat_based. Qed.

(* the hypotheses are satisfiable: a 16-byte struct array indexed [1,4) x [-2,2), rotated, member b *)
Example C12_example_walk_member :
  exists v, run_ops [ORotated] (root_view (zb [3; 4])) = Some v
    /\ proj_ok (PMember 4 4) (p_embed 16 v)
    /\ let M := p_member_cast 4 4 (p_embed 16 v) in
       let it := run_a [IAdd 3; IDec; ISub 1] (p_it_begin M) in
          it_diff it (p_it_begin M) = 1
       /\ p_addr_brackets (p_it_deref M it) [2] = 16 * 9 + 4
       /\ p_addr_brackets (p_rit_deref M it) [0] = 16 * 0 + 4.
Proof. eexists. vm_compute. repeat split. Qed.

Example C12_example_convert_based :
  exists v c, run_ops [OTransposed; OSliced (-2) 0] (root_view [(1, 4); (-2, 2)]) = Some v
    /\ l_extensions (lay v) = [(-2, 0); (1, 4)]
    /\ convert_construct (fun k => 2 * k) (fun k => base v + k) (lay v) = Some c
    /\ l_extensions (c_lay c) = [(-2, 0); (1, 4)]
    /\ c_data c = [0; 8; 16; 2; 10; 18]
    /\ c_at c [-1; 3] = Some 18.
Proof. eexists. eexists. vm_compute. repeat split. Qed.

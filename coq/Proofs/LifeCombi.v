(* Triples of the building blocks of the array.hpp entry points: alloc, the constructor pattern (p_build),
   release / clear / destructor, element assignment into an owned block. *)
From BM Require Import Base.Tactics Model.Life Proofs.LifeBase Proofs.LifeMonad Proofs.LifeInv Proofs.LifeCells Proofs.LifeSteps.
Local Open Scope Z_scope.

Section Combi.
Variable cfg : config.
Hypothesis rank_pos : (1 <= c_rank cfg)%nat.      (* rank 0 arrays are a separate class specialisation *)

Notation cinit := (cinit cfg).
Notation cells_ok := (cells_ok cfg).
Notation st_le := (st_le cfg).
Notation Inv := (Inv cfg).
Notation src_ok := (src_ok cfg).

Definition thrown (w : site) (s : state) : Prop := In (EvThrow w) (s_ledger s).

Lemma construct_loop_spec' w B s0 b start N srcs i :
  In b B -> Forall (src_ok s0 B) srcs -> (start <= i)%nat -> (i + length srcs <= N)%nat ->
  triple (fun s => st_le B s0 s /\ shape s b i N)
         (construct_loop cfg w b start i srcs)
         (fun _ s' => st_le B s0 s' /\ shape s' b (i + length srcs) N)
         (fun s' => st_le B s0 s' /\ thrown w s').
Proof.
  intros HB F H1 H2. eapply triple_conseq; [apply (construct_loop_spec cfg w B s0 b start N HB srcs i H1 H2)| | |].
  - intros s [L Sh]. auto.
  - auto.
  - intros s (L & _ & T). split; auto.
Qed.

(* ---- rows ---- *)
Lemma construct_rows_spec w B s0 b N rowlen : In b B -> forall fuel srcs i,
  Forall (src_ok s0 B) srcs -> (length srcs < fuel)%nat -> (i + length srcs <= N)%nat ->
  triple (fun s => st_le B s0 s /\ shape s b i N)
         (construct_rows cfg w b i rowlen fuel srcs)
         (fun _ s' => st_le B s0 s' /\ shape s' b (i + length srcs) N)
         (fun s' => st_le B s0 s' /\ thrown w s').
Proof.
  intros HB. induction fuel as [|fuel IH]; intros srcs i F Hf HiN; [lia|].
  cbn [construct_rows]. destruct srcs as [|x srcs].
  - intros s (L & Sh). cbn. rewrite Nat.add_0_r. auto.
  - set (l := x :: srcs) in *.
    set (row := if (rowlen =? 0)%nat then l else firstn rowlen l).
    set (rest := if (rowlen =? 0)%nat then [] else skipn rowlen l).
    assert (Hsplit : l = row ++ rest).
    { unfold row, rest. destruct (rowlen =? 0)%nat; [rewrite app_nil_r; auto|symmetry; apply firstn_skipn]. }
    assert (Hrow : (1 <= length row)%nat).
    { unfold row. destruct (rowlen =? 0)%nat eqn:E; [cbn; lia|]. apply Nat.eqb_neq in E.
      rewrite firstn_length. unfold l; cbn [length]. lia. }
    assert (Hlen : length l = (length row + length rest)%nat) by (rewrite Hsplit at 1; apply app_length).
    rewrite Hsplit in F. apply Forall_app in F. destruct F as [Frow Frest].
    eapply triple_bind with (Q := fun _ s => st_le B s0 s /\ shape s b (i + length row) N).
    + apply construct_loop_spec'; auto; lia.
    + intros _. eapply triple_post.
      * apply IH; auto; lia.
      * intros _ s (L & Sh). split; auto. replace (i + length l)%nat with (i + length row + length rest)%nat by lia. exact Sh.
Qed.

(* default construction in place (no fallible event) *)
Lemma default_construct_n_spec B s0 b N : In b B -> forall n i, (i + n <= N)%nat ->
  triple (fun s => st_le B s0 s /\ shape s b i N)
         (default_construct_n b i n)
         (fun _ s' => st_le B s0 s' /\ shape s' b (i + n) N)
         (fun _ => False).
Proof.
  intros HB. induction n as [|n IH]; intros i Hi.
  - intros s [L Sh]. cbn. rewrite Nat.add_0_r. auto.
  - cbn [default_construct_n].
    eapply triple_bind with (Q := fun _ s => st_le B s0 s /\ shape s b (S i) N).
    + intros s [L Sh]. destruct (construct1_spec cfg B s0 s b i N 0 HB L Sh) as (s1 & E & L1 & S1); [lia|].
      rewrite E. auto.
    + intros _. eapply triple_post; [apply IH; lia|]. intros _ s [L Sh]. split; auto.
      replace (i + S n)%nat with (S i + n)%nat by lia. exact Sh.
Qed.

(* ---- element assignment into a fully constructed block ---- *)
Definition allinit (s : state) (b : nat) (N : nat) : Prop :=
  exists blk, get_blk s b = Some blk /\ b_live blk = true /\ length (b_cells blk) = N /\ cells_ok (b_cells blk).

Lemma cells_ok_upd cs i v : cells_ok cs -> cells_ok (upd_nth cs i (Alive v)).
Proof.
  unfold cells_ok. intros H. revert i. induction H; intros [|i]; cbn; constructor; auto; reflexivity.
Qed.

Lemma assign1_spec B s0 s b N o v :
  In b B -> st_le B s0 s -> allinit s b N -> (o < N)%nat ->
  exists s', assign1 cfg b o v s = Ok tt s' /\ st_le B s0 s' /\ allinit s' b N.
Proof.
  intros HB L (blk & Hb & Hl & HN & Hok) Ho.
  destruct (nth_error_lt_some (b_cells blk) o) as [c Hc]; [lia|].
  assert (Hi : cinit c). { eapply Forall_forall; [exact Hok|]. eapply nth_error_In; eauto. }
  set (s' := upd_blk s b (with_cells blk (upd_nth (b_cells blk) o (Alive v)))).
  assert (E : assign1 cfg b o v s = Ok tt s').
  { unfold assign1, bind. rewrite (get_cell_ok _ _ _ _ _ Hb Hl Hc).
    destruct c; try apply (set_cell_ok _ _ _ _ _ Hb Hl).
    unfold LifeInv.cinit, cell_init in Hi. rewrite Hi. apply (set_cell_ok _ _ _ _ _ Hb Hl). }
  exists s'. split; auto. split.
  - eapply st_le_trans; [exact L|]. apply st_le_upd_cells; auto. apply upd_nth_length.
  - exists (with_cells blk (upd_nth (b_cells blk) o (Alive v))). unfold s'.
    rewrite get_blk_upd_same by (eapply get_blk_lt; eauto). unfold with_cells; cbn.
    repeat split; auto. + rewrite upd_nth_length; auto. + apply cells_ok_upd; auto.
Qed.

Lemma allinit_frame s s' b N : get_blk s' b = get_blk s b -> allinit s b N -> allinit s' b N.
Proof. intros E (blk & H). exists blk. rewrite E. auto. Qed.

Lemma after_src_blk B s0 s s' x b : st_le B s0 s -> src_ok s0 B x -> In b B -> after_src cfg x s = Ok tt s' ->
  get_blk s' b = get_blk s b.
Proof.
  intros L H HB E. destruct x as [v|b' i|b' i]; cbn in E.
  - inv E. reflexivity.
  - inv E. reflexivity.
  - destruct H as [Hn _]. assert (b' <> b) by (intro; subst; contradiction).
    unfold mark_moved in E. destruct (c_quiet cfg); [inv E; reflexivity|].
    unfold bind in E. destruct (get_cell b' i s) as [c sx|sx|e] eqn:G; try discriminate.
    assert (sx = s).
    { unfold get_cell, bind, get_block in G. destruct (nth_error (s_blocks s) b') as [bk|]; try discriminate.
      destruct (b_live bk); try discriminate. destruct (nth_error (b_cells bk) i); inv G; reflexivity. }
    subst sx.
    destruct c; [inv E; reflexivity| |];
      unfold set_cell, bind, get_block in E;
      (destruct (nth_error (s_blocks s) b') as [bk|] eqn:Eb; try discriminate);
      (destruct (b_live bk); try discriminate); inv E;
      unfold put_block; apply (get_blk_upd_other s b' b); auto.
Qed.

Lemma assign_loop_spec w B s0 b N : In b B -> forall offs srcs,
  Forall (src_ok s0 B) srcs -> Forall (fun o => (o < N)%nat) offs ->
  triple (fun s => st_le B s0 s /\ allinit s b N)
         (assign_loop cfg w b offs srcs)
         (fun _ s' => st_le B s0 s' /\ allinit s' b N)
         (fun s' => st_le B s0 s' /\ allinit s' b N /\ thrown w s').
Proof.
  intros HB. induction offs as [|o offs IH]; intros srcs F Fo.
  - intros s H. cbn. auto.
  - destruct srcs as [|x srcs]; [intros s H; cbn; auto|]. inv F. inv Fo.
    cbn [assign_loop].
    eapply triple_bind with (Q := fun _ s => st_le B s0 s /\ allinit s b N).
    { assert (T : triple (fun s => st_le B s0 s /\ allinit s b N) (tick_elem cfg w)
                         (fun _ s' => st_le B s0 s' /\ allinit s' b N)
                         (fun s' => c_quiet cfg = false /\ (st_le B s0 s' /\ allinit s' b N) /\ In (EvThrow w) (s_ledger s'))).
      { apply tick_elem_spec.
        - intros s f [L A]. split; [apply st_le_set_fault; auto|exact A].
        - intros s e [L A]. split; [apply st_le_emit; auto|exact A]. }
      eapply triple_conseq; [exact T| | |]; auto.
      intros s (_ & [L A] & T'). auto. }
    intros _ s [L A].
    destruct (read_src_ok _ _ _ _ _ L H1) as [v Hv]. unfold bind at 1. rewrite Hv.
    destruct (assign1_spec B s0 s b N o v HB L A H3) as (s1 & E1 & L1 & A1).
    unfold bind at 1. rewrite E1.
    destruct (after_src_le _ _ _ _ _ L1 H1) as (s2 & E2 & L2).
    unfold bind at 1. rewrite E2.
    assert (A2 : allinit s2 b N).
    { apply (allinit_frame s1 s2 b N); [apply (after_src_blk B s0 s1 s2 x b L1 H1 HB E2)|exact A1]. }
    exact (IH srcs H2 H4 s2 (conj (st_le_trans _ _ _ _ _ L1 L2) A2)).
Qed.

(* ---- allocation ---- *)
Lemma alloc_spec X a n A :
  triple (fun s => Inv X s /\ s_arrs s = A)
         (alloc a n)
         (fun p s' => s_arrs s' = A /\
            match p with
            | PNull => n <= 0 /\ Inv X s'
            | PBlk b => 0 < n /\ Inv (b :: X) s' /\ shape s' b 0 (Z.to_nat n)
                        /\ exists blk, get_blk s' b = Some blk /\ b_owner blk = a /\ b_size blk = n
            end)
         (fun s' => Inv X s' /\ s_arrs s' = A /\ thrown SAlloc s').
Proof.
  intros s [I HA]. unfold alloc. destruct (n <=? 0) eqn:En; bprop.
  - cbn. auto.
  - assert (Hpush : forall s1, s_arrs s1 = s_arrs s -> s_blocks s1 = s_blocks s ->
      match (s0 <- get_state ;;
             put_state (add_allocs (if a =? std_alloc then 0 else 1)
               (emit (EvAlloc a (length (s_blocks s0)) n)
                  (set_blocks s0 (s_blocks s0 ++ [mkblock a n (repeat Raw (Z.to_nat n)) true])))) ;;;
             ret (PBlk (length (s_blocks s0)))) s1 with
      | Ok p s' => s_arrs s' = A /\
            match p with
            | PNull => n <= 0 /\ Inv X s'
            | PBlk b => 0 < n /\ Inv (b :: X) s' /\ shape s' b 0 (Z.to_nat n)
                        /\ exists blk, get_blk s' b = Some blk /\ b_owner blk = a /\ b_size blk = n
            end
      | Threw s' => Inv X s' /\ s_arrs s' = A /\ thrown SAlloc s'
      | Err _ => False
      end).
    { intros s1 H1 H2. cbn. split; [congruence|]. split; [lia|].
      set (blk := mkblock a n (repeat Raw (Z.to_nat n)) true).
      assert (I1 : Inv X s1) by (eapply Inv_ext; eauto).
      assert (Ip := Inv_push cfg X s1 a n I1 ltac:(lia)). fold blk in Ip.
      split; [eapply Inv_ext; [| |exact Ip]; reflexivity|].
      assert (Hg : nth_error (s_blocks s1 ++ [blk]) (length (s_blocks s1)) = Some blk).
      { rewrite nth_error_app2 by lia. rewrite Nat.sub_diag. reflexivity. }
      split.
      - exists blk. unfold get_blk; cbn. split; [exact Hg|]. repeat split; auto.
        + apply repeat_length.
        + lia.
        + intros j c Hj. lia.
        + intros j c _ Hn. apply nth_error_In in Hn. apply repeat_spec in Hn. auto.
      - exists blk. unfold get_blk; cbn. auto. }
    unfold bind at 1. destruct (a =? std_alloc).
    + cbn [ret]. apply Hpush; auto.
    + unfold tick. destruct (s_fault s) as [[|[|k]]|]; try (apply Hpush; reflexivity).
      split; [eapply Inv_ext; [| |exact I]; reflexivity|]. split; [exact HA|]. left. reflexivity.
Qed.

(* all cells of a block under construction are constructed: it can be handed to an array object *)
Lemma shape_full_ok s b N : shape s b N N -> exists blk, get_blk s b = Some blk /\ b_live blk = true /\ length (b_cells blk) = N /\ cells_ok (b_cells blk).
Proof.
  intros (blk & Hb & Hl & HN & _ & Hc & _). exists blk. repeat split; auto.
  apply Forall_forall. intros c Hin. apply In_nth_error in Hin. destruct Hin as [j Hj].
  assert (j < N)%nat by (rewrite <- HN; apply nth_error_Some; congruence).
  specialize (Hc j c H Hj). destruct c; try congruence; reflexivity.
Qed.

(* in the trivial configuration every cell counts as constructed *)
Lemma trivial_cells_ok cs : c_tdc cfg = true -> cells_ok cs.
Proof. intros Ht. apply Forall_forall. intros c _. unfold LifeInv.cinit, cell_init. destruct c; auto. Qed.

(* ---- sources that are cells of live array objects ---- *)
Definition src_in (A : list (option arr)) (x : src) : Prop :=
  match x with
  | SVal _ => True
  | SCell b i | SMoveCell b i =>
      exists r a, nth_error A r = Some (Some a) /\ a_base a = PBlk b /\ Z.of_nat i < nel a
  end.

Lemma src_in_ok X B s A x :
  Inv X s -> s_arrs s = A -> src_in A x -> (forall b, In b B -> In b X) -> src_ok s B x.
Proof.
  intros I HA H HB. destruct x as [v|b i|b i]; cbn in *; auto.
  all: destruct H as (r & a & Hr & Hb & Hi);
    assert (Hs : get_slot s r = Some a) by (unfold get_slot; rewrite HA, Hr; reflexivity);
    assert (Hp : 0 < nel a) by lia;
    destruct (inv_arr _ _ _ I r a Hs Hp) as (b0 & blk & Hb0 & Hblk & Hlv & Hsz & _ & Hok);
    assert (b0 = b) by congruence; subst b0;
    destruct (inv_blk _ _ _ I b blk Hblk) as [[_ Hlen] _];
    (split; [intros Hin; destruct (inv_held _ _ _ I b (HB b Hin)) as [_ Hno]; apply (Hno r); exists a; auto|]);
    destruct (nth_error_lt_some (b_cells blk) i) as [c Hc]; [rewrite Hlen, Hsz; lia|];
    exists blk, c; repeat split; auto;
    eapply Forall_forall; [exact Hok|eapply nth_error_In; eauto].
Qed.

(* ---- the constructor pattern: allocate, then construct ---- *)
Definition built (s : state) (b : nat) (a n : Z) : Prop :=
  exists blk, get_blk s b = Some blk /\ b_live blk = true /\ b_owner blk = a /\ b_size blk = n /\ cells_ok (b_cells blk).

(* constructed blocks still held by the operation, carried across steps that work on other blocks *)
Definition held_built (H : list (nat * Z * Z)) (s : state) : Prop :=
  forall b a n, In (b, a, n) H -> built s b a n.

Lemma built_st_le B s s' b a n : st_le B s s' -> ~ In b B -> built s b a n -> built s' b a n.
Proof.
  intros (_ & _ & _ & HL) Hn (blk & Hb & Hl & Ho & Hs & Hok).
  destruct (HL b blk Hb) as (blk' & Hb' & O & Sz & Lv & _ & _ & C). exists blk'. repeat split; try congruence.
  eapply Forall2_cell_le_ok; eauto.
Qed.

Lemma p_build_spec X a n rowlen srcs A :
  Forall (src_in A) srcs -> (0 < n -> length srcs = Z.to_nat n) ->
  triple (fun s => Inv X s /\ s_arrs s = A)
         (p_build cfg a n rowlen srcs)
         (fun p s' => s_arrs s' = A /\
            match p with
            | PNull => n <= 0 /\ Inv X s'
            | PBlk b => 0 < n /\ Inv (b :: X) s' /\ built s' b a n
            end)
         (fun s' => s_arrs s' = A /\ ((Inv X s' /\ thrown SAlloc s') \/ thrown SCtorElem s')).
Proof.
  intros F Hlen. unfold p_build.
  eapply triple_bind.
  { eapply triple_conseq; [apply (alloc_spec X a n A)| | |].
    - auto.
    - intros p s H; exact H.
    - intros s (I & HA & T). split; auto. }
  intros [|b].
  - intros s [HA [Hn I]]. cbn. auto.
  - intros s1 (HA & Hn & I1 & Sh & blk1 & Hb1 & Ho1 & Hs1).
    assert (Fok : Forall (src_ok s1 [b]) srcs).
    { eapply Forall_impl; [|exact F]. intros x Hx. eapply src_in_ok; eauto. intros b' [<-|[]]. left; auto. }
    assert (T := construct_rows_spec SCtorElem [b] s1 b (Z.to_nat n) rowlen (or_introl eq_refl) (S (length srcs)) srcs 0
                   Fok ltac:(lia) ltac:(rewrite (Hlen Hn); lia) s1 (conj (st_le_refl cfg [b] s1) Sh)).
    unfold bind. destruct (construct_rows cfg SCtorElem b 0 rowlen (S (length srcs)) srcs s1) as [[] s2|s2|e]; try contradiction.
    + destruct T as [L Sh2]. cbn. split; [destruct L as (E & _); congruence|]. split; auto. split.
      * eapply Inv_st_le; eauto. intros b' [<-|[]]. left; left; auto.
      * rewrite (Hlen Hn) in Sh2. cbn in Sh2. destruct (shape_full_ok _ _ _ Sh2) as (blk2 & Hb2 & Hl2 & _ & Hok2).
        destruct L as (_ & _ & _ & HL). destruct (HL b blk1 Hb1) as (blk2' & Hb2' & O & Sz & _).
        assert (blk2' = blk2) by congruence. subst blk2'. exists blk2. repeat split; auto; congruence.
    + destruct T as [L T]. split; [destruct L as (E & _); congruence|]. right. exact T.
Qed.

(* ---- setting array objects ---- *)
Lemma set_arr_eq r a s : set_arr r a s = Ok tt (set_slot s r (Some a)).
Proof. reflexivity. Qed.
Lemma del_arr_eq r s : del_arr r s = Ok tt (set_slot s r None).
Proof. reflexivity. Qed.

Lemma upd_nth_twice {A} (l : list A) n x y : upd_nth (upd_nth l n x) n y = upd_nth l n y.
Proof. revert n; induction l; intros [|n]; cbn; auto. rewrite IHl; auto. Qed.

Lemma set_slot_twice s r o o' : set_slot (set_slot s r o) r o' = set_slot s r o'.
Proof. unfold set_slot; cbn. rewrite upd_nth_twice. reflexivity. Qed.

Lemma st_le_set_slot B s s1 r o : st_le B s s1 -> st_le B (set_slot s r o) (set_slot s1 r o).
Proof.
  intros (E & L & G & H). repeat split; auto. cbn. rewrite E. reflexivity.
Qed.

(* ---- release: destroy the elements, give the block back; afterwards the array object must stop claiming it ---- *)
Lemma release_spec X r a A H :
  (forall b a' n, In (b, a', n) H -> In b X) ->
  triple (fun s => Inv X s /\ s_arrs s = A /\ get_slot s r = Some a /\ held_built H s)
         (release cfg a)
         (fun _ s' => s_arrs s' = A /\ held_built H s' /\ forall o', nonowning o' -> Inv X (set_slot s' r o'))
         (fun _ => False).
Proof.
  intros HX s (I & HA & Hs & HB). unfold release.
  assert (Hr : (r < NSLOTS)%nat) by (rewrite <- (inv_nslots _ _ _ I); eapply get_slot_lt; eauto).
  destruct (Z.leb_spec (nel a) 0) as [Hn|Hp].
  - (* nothing to release *)
    rewrite orb_true_r. unfold bind; cbn [ret]. unfold dealloc. destruct (nel a <=? 0) eqn:E; [|bprop; lia].
    cbn. split; auto. split; auto. intros o' Ho'. apply Inv_set_nonowning; auto. rewrite Hs. exact Hn.
  - destruct (inv_arr _ _ _ I r a Hs Hp) as (b & blk & Hb & Hblk & Hlv & Hsz & Hal & Hok).
    destruct (inv_blk _ _ _ I b blk Hblk) as [[_ Hlen] _].
    assert (HbX : ~ In b X).
    { intros Hin. destruct (inv_held _ _ _ I b Hin) as [_ Hno]. apply (Hno r). exists a. auto. }
    rewrite orb_false_r.
    assert (Hdealloc : forall s1 blk1, st_le [b] s s1 -> get_blk s1 b = Some blk1 ->
              (c_tdtor cfg = false -> all_raw (b_cells blk1) = true) ->
              match dealloc cfg (a_alloc a) (a_base a) (nel a) s1 with
              | Ok _ s' => s_arrs s' = A /\ held_built H s' /\ forall o', nonowning o' -> Inv X (set_slot s' r o')
              | _ => False end).
    { intros s1 blk1 L Hb1 Hraw. unfold dealloc. destruct (nel a <=? 0) eqn:E; [bprop; lia|]. rewrite Hb.
      unfold get_blk in Hb1. rewrite Hb1.
      pose proof L as (EA & _ & _ & HL). destruct (HL b blk Hblk) as (blk1' & Hb1' & O & Sz & Lv & _).
      assert (blk1' = blk1) by (unfold get_blk in Hb1'; congruence). subst blk1'.
      assert (Eq3 : b_live blk1 = true) by congruence.
      assert (Eq1 : (b_size blk1 =? nel a) = true) by (apply Z.eqb_eq; congruence).
      assert (Eq2 : alloc_eq cfg (b_owner blk1) (a_alloc a) = true) by (rewrite O; exact Hal).
      rewrite Eq3. cbn [negb]. rewrite Eq1. cbn [negb]. rewrite Eq2. cbn [negb].
      assert (HB1 : forall sx, s_blocks sx = upd_nth (s_blocks s1) b (mkblock (b_owner blk1) (b_size blk1) (b_cells blk1) false) ->
                    held_built H sx).
      { intros sx Esx b' a' n' Hin. assert (b' <> b) by (intro; subst; apply HbX; eapply HX; eauto).
        pose proof (built_st_le [b] s s1 b' a' n' L ltac:(intros [->|[]]; congruence) (HB b' a' n' Hin)) as (bk & Hk & Hrest).
        exists bk. split; auto. unfold get_blk in *. rewrite Esx. rewrite nth_upd_other; auto. }
      destruct (c_tdtor cfg) eqn:Ht; cbn [negb andb].
      - split; [cbn; congruence|]. split; [apply HB1; reflexivity|]. intros o' Ho'.
        eapply Inv_ext with (s := kill_blk (set_slot s1 r o') b blk1); [reflexivity|reflexivity|].
        apply Inv_free_held; [|exact Hb1|intros; congruence].
        eapply Inv_st_le; [apply (Inv_unown cfg X s r a b o' I Hs Hp Hb Ho')|apply st_le_set_slot; exact L|].
        intros b' [<-|[]]. left; left; auto.
      - rewrite (Hraw eq_refl). cbn [negb]. split; [cbn; congruence|]. split; [apply HB1; reflexivity|]. intros o' Ho'.
        eapply Inv_ext with (s := kill_blk (set_slot s1 r o') b blk1); [reflexivity|reflexivity|].
        apply Inv_free_held; [|exact Hb1|auto].
        eapply Inv_st_le; [apply (Inv_unown cfg X s r a b o' I Hs Hp Hb Ho')|apply st_le_set_slot; exact L|].
        intros b' [<-|[]]. left; left; auto. }
    destruct (c_tdtor cfg) eqn:Ht; cbn [orb].
    + unfold bind; cbn [ret]. apply (Hdealloc s blk); auto. apply st_le_refl. intros; congruence.
    + unfold bind at 1. unfold base_blk. rewrite Hb. unfold bind at 1; cbn [ret].
      assert (Sh : shape s b (0 + nnel a) (nnel a)).
      { exists blk. repeat split; auto.
        - unfold nnel. rewrite Hlen, Hsz. reflexivity.
        - intros j c _ Hj. assert (Hc : cinit c) by (eapply Forall_forall; [exact Hok|eapply nth_error_In; eauto]).
          intros ->. unfold LifeInv.cinit, cell_init in Hc. unfold c_tdtor in Ht. apply orb_false_iff in Ht.
          destruct Ht as [Ht1 Ht2]. congruence.
        - intros j c Hj Hn. exfalso. assert (j < length (b_cells blk))%nat by (apply nth_error_Some; congruence).
          unfold nnel in Hj. rewrite Hlen, Hsz in H0. lia. }
      assert (T := destroy_range_spec cfg [b] s b 0 (nnel a) (or_introl eq_refl) (nnel a) s (conj (st_le_refl cfg [b] s) Sh)).
      destruct (destroy_range b 0 (nnel a) s) as [[] s1|s1|e]; try contradiction.
      destruct T as [L (blk1 & Hb1 & Hl1 & HN1 & _ & _ & Hraw)].
      rewrite <- Hb. apply (Hdealloc s1 blk1 L Hb1). intros _.
      unfold all_raw. apply forallb_forall. intros c Hin. apply In_nth_error in Hin. destruct Hin as [j Hj].
      rewrite (Hraw j c ltac:(lia) Hj). reflexivity.
Qed.

Lemma numel_zeros d : (1 <= d)%nat -> numel (zeros d) = 0.
Proof. destruct d; [lia|]. intros _. reflexivity. Qed.

Lemma nel_empty al p : nel (empty_arr cfg al p) = 0.
Proof. unfold nel, empty_arr; cbn. apply numel_zeros; auto. Qed.

Lemma held_built_set_slot H s r o : held_built H s -> held_built H (set_slot s r o).
Proof. intros HB b a n Hin. exact (HB b a n Hin). Qed.

Lemma p_clear_spec X r a A H :
  (forall b a' n, In (b, a', n) H -> In b X) ->
  triple (fun s => Inv X s /\ s_arrs s = A /\ get_slot s r = Some a /\ held_built H s)
         (p_clear cfg r)
         (fun _ s' => Inv X s' /\ s_arrs s' = upd_nth A r (Some (empty_arr cfg (a_alloc a) (a_base a))) /\ held_built H s')
         (fun _ => False).
Proof.
  intros HX. unfold p_clear.
  eapply triple_bind with (Q := fun x s => x = a /\ get_slot s r = Some a /\ (Inv X s /\ s_arrs s = A /\ held_built H s)).
  { eapply triple_pre; [apply get_arr_spec|]. intros s (I & HA & Hs & HB). auto. }
  intros x. apply triple_assume with (P := fun s => get_slot s r = Some a /\ (Inv X s /\ s_arrs s = A /\ held_built H s)). intros ->.
  eapply triple_bind with (Q := fun _ s' => s_arrs s' = A /\ held_built H s' /\ forall o', nonowning o' -> Inv X (set_slot s' r o')).
  { eapply triple_pre; [apply (release_spec X r a A H HX)|]. intros s (Hs & I & HA & HB). auto. }
  intros _ s (HA & HB & Hi). rewrite set_arr_eq. split; [|split].
  - apply Hi. unfold nonowning. rewrite nel_empty. lia.
  - cbn. rewrite HA. reflexivity.
  - apply held_built_set_slot; auto.
Qed.

Lemma p_dtor_spec X r a A H :
  (forall b a' n, In (b, a', n) H -> In b X) ->
  triple (fun s => Inv X s /\ s_arrs s = A /\ get_slot s r = Some a /\ held_built H s)
         (p_dtor cfg r)
         (fun _ s' => Inv X s' /\ s_arrs s' = upd_nth A r None /\ held_built H s')
         (fun _ => False).
Proof.
  intros HX. unfold p_dtor.
  eapply triple_bind with (Q := fun x s => x = a /\ get_slot s r = Some a /\ (Inv X s /\ s_arrs s = A /\ held_built H s)).
  { eapply triple_pre; [apply get_arr_spec|]. intros s (I & HA & Hs & HB). auto. }
  intros x. apply triple_assume with (P := fun s => get_slot s r = Some a /\ (Inv X s /\ s_arrs s = A /\ held_built H s)). intros ->.
  eapply triple_bind with (Q := fun _ s' => s_arrs s' = A /\ held_built H s' /\ forall o', nonowning o' -> Inv X (set_slot s' r o')).
  { eapply triple_pre; [apply (release_spec X r a A H HX)|]. intros s (Hs & I & HA & HB). auto. }
  intros _ s (HA & HB & Hi). rewrite del_arr_eq. split; [|split].
  - apply Hi. exact I.
  - cbn. rewrite HA. reflexivity.
  - apply held_built_set_slot; auto.
Qed.

End Combi.

(* C20, part 1: on well-formed views (lok: every dimension has offset = first*stride, nelems = size*stride,
   size >= 0, stride > 0 when non-empty -- the invariant of every view reachable from a constructed array, C19) no
   modelled assertion of an in-domain view operation is false and no divisor is zero; lok is preserved; hence no
   assertion is false along any valid program. *)
From BM Require Import Base.Tactics Model.Layout Model.View Model.Spec Model.Iter Model.Rebase Model.Assign Model.Asserts
  Proofs.LayoutProofs Proofs.ViewProofs Proofs.ViewProofs2 Proofs.IterProofs Proofs.RebaseProofs.
Local Open Scope Z_scope.

(* ---------------- a well-formed dimension passes extension()'s assertions ---------------- *)
Lemma dok_stride_nz d : dok d -> d_nelems d <> 0 -> 0 < d_stride d.
Proof.
  intros (f & n & (Ho & Hn & H0 & Hs)) Hne. apply Hs. destruct (Z.eq_dec n 0); [subst; lia|lia].
Qed.

Lemma dok_a_ext d : dok d -> a_ext d = true.
Proof.
  intros H. unfold a_ext. destruct (d_nelems d =? 0) eqn:E; [reflexivity|]. bprop. cbn [orb].
  pose proof (dok_stride_nz _ H E) as Hs. destruct H as (f & n & (Ho & Hn & _)).
  rewrite Ho, Hn, !Z.rem_mul by lia. reflexivity.
Qed.

Lemma dok_nz d : dok d -> nz_dim d = true.
Proof.
  intros H. unfold nz_dim. destruct (d_nelems d =? 0) eqn:E; [reflexivity|]. bprop. cbn [orb].
  pose proof (dok_stride_nz _ H E). apply negb_true_iff. apply Z.eqb_neq. lia.
Qed.

Lemma lok_observe v : lok (lay v) -> asrt_observe v = true /\ nz_observe v = true.
Proof.
  unfold asrt_observe, nz_observe. intros H. split; apply forallb_forall; intros d Hd;
    [apply dok_a_ext|apply dok_nz]; eapply Forall_forall; eassumption.
Qed.

Lemma lay_ok_lok l sz : lay_ok l sz -> lok l.
Proof. induction 1; constructor; [|assumption]. eexists 0, _. apply dim_ok_g. eassumption. Qed.

Lemma lay_ok_diag_safe v sz : lay_ok (lay v) sz -> diag_safe v = true.
Proof.
  unfold diag_safe. intros H. destruct (lay v) as [|d0 [|d1 l]]; try reflexivity.
  inversion H as [|? ? ? ? Hd0 Hr]; subst. inversion Hr as [|? ? ? ? Hd1 _]; subst.
  destruct Hd0 as (-> & _). destruct Hd1 as (-> & _). reflexivity.
Qed.

(* ---------------- lok is preserved by every in-domain operation ---------------- *)
Lemma lok_index v i : lok (lay v) -> lok (lay (v_index i v)).
Proof. destruct v as [[|d sub] b]; cbn; intros H; [assumption|]. inv H. assumption. Qed.

Lemma lok_sliced v a b : lok (lay v) -> (1 <=? Z.of_nat (v_rank v)) = true ->
  in_slice (v_extension v) a b = true -> lok (lay (v_sliced a b v)).
Proof.
  destruct v as [[|d sub] bs]; intros Hl Hr Hin; [cbn in Hr; discriminate|]. inv Hl.
  assert (Hab : a <= b) by (unfold in_slice in Hin; bprop; lia).
  destruct sub as [|d1 sub'].
  - cbn. constructor; [apply dok_slice; assumption|constructor].
  - cbn. constructor; [|assumption].
    destruct H1 as (f0 & n & (Ho & Hn & H0 & Hs)).
    destruct (Z.eq_dec a b) as [->|Hne].
    + exists f0, 0. unfold dim_okg; cbn. repeat split; try lia; try assumption.
    + assert (Hpos : 0 < n).
      { pose proof (dim_okg_extension d f0 n (conj Ho (conj Hn (conj H0 Hs)))) as He.
        unfold v_extension in Hin; cbn in Hin. rewrite He in Hin. unfold in_slice, ext_of in Hin.
        destruct (n =? 0) eqn:E; bprop; cbn in *; lia. }
      exists f0, (b - a). unfold dim_okg; cbn. repeat split; try lia; try assumption; intros _; apply Hs; exact Hpos.
Qed.

Lemma lok_paren args : forall v, lok (lay v) -> dom_paren args v = true -> lok (lay (v_paren args v)).
Proof.
  induction args as [|[i|a b|] rest IH]; intros v Hl Hd; cbn [dom_paren v_paren] in *.
  - assumption.
  - apply andb_prop in Hd as [Hd Hrest]. apply IH; [apply lok_index; assumption|assumption].
  - apply andb_prop in Hd as [Hd Hrest]. apply andb_prop in Hd as [Hr Hin].
    apply lok_unrotated. apply IH; [|assumption]. apply lok_rotated. apply lok_sliced; assumption.
  - apply andb_prop in Hd as [Hr Hrest]. destruct (all_range_g v Hl Hr) as [Ea Hin]. rewrite Ea in *.
    apply lok_unrotated. apply IH; [|assumption]. apply lok_rotated. apply lok_sliced; assumption.
Qed.

(* the one excluded site: diagonal() on a view whose first two index bases are not 0 (array_ref.hpp:1380 takes its
   block from index 0; C19's known finding) *)
Definition c20_ok (o : op) (v : view) : bool :=
  match o with ODiagonal => diag_safe v | _ => true end.

Lemma lok_step v o : lok (lay v) -> c20_ok o v = true -> dom_op o v = true -> lok (lay (exec_op o v)).
Proof.
  intros Hl Hs Hd. destruct o; cbn [c20_ok] in Hs.
  - apply lok_index; assumption.
  - cbn [dom_op] in Hd. apply andb_prop in Hd as [Hr Hin]. apply lok_sliced; assumption.
  - cbn [dom_op exec_op] in *. apply andb_prop in Hd as [Hd Hrem]. apply andb_prop in Hd as [Hd H1s].
    apply andb_prop in Hd as [Hr Hin]. pose proof (lok_sliced v a b Hl Hr Hin) as Hls.
    pose proof (size_sliced v a b Hl Hr Hin) as Hsz. bprop. apply lok_strided; [assumption|assumption|].
    rewrite Hsz; assumption.
  - exact (proj2 (tw_strided v s Hl Hd)).
  - exact (proj2 (tw_dropped v n Hl Hd)).
  - exact (proj2 (tw_taked v n Hl Hd)).
  - exact (proj2 (tw_rotated v Hl Hd)).
  - exact (proj2 (tw_unrotated v Hl Hd)).
  - exact (proj2 (tw_transposed v Hl Hd)).
  - exact (proj2 (tw_reversed v Hl Hd)).
  - exact (proj2 (tw_diagonal v Hl Hs Hd)).
  - exact (proj2 (tw_partitioned v n Hl Hd)).
  - exact (proj2 (tw_chunked v c Hl Hd)).
  - exact (proj2 (tw_halved v Hl Hd)).
  - exact (proj2 (tw_flatted v Hl Hd)).
  - cbn [dom_op exec_op] in *. apply andb_prop in Hd as [_ Hd]. apply lok_paren; assumption.
  - exact (proj2 (tw_reindexed v i Hl)).
  - cbn [dom_op exec_op] in *. apply andb_prop in Hd as [Hr Hin]. unfold v_blocked.
    apply lok_reindexed. apply lok_sliced; assumption.
  - exact (proj2 (tw_reindexedL v is Hl)).
Qed.

(* ---------------- every assertion of an in-domain operation holds ---------------- *)
Lemma in_slice_contains e a b : in_slice e a b = true -> a <> b ->
  r_contains e a = true /\ r_contains e (b - 1) = true.
Proof. unfold in_slice, r_contains. intros H Hne. bprop. split; bsolve. Qed.

Lemma lok_head d sub : lok (d :: sub) -> dok d.
Proof. intros H. inv H. assumption. Qed.

Lemma asrt_index_ok v i : lok (lay v) -> dom_op (OIndex i) v = true ->
  asrt_index i v = true /\ nz_index v = true.
Proof.
  intros Hl Hd. cbn [dom_op] in Hd. apply andb_prop in Hd as [Hr Hc].
  unfold asrt_index, nz_index. destruct (lay v) as [|d sub] eqn:E; [split; reflexivity|].
  pose proof (lok_head _ _ Hl) as Hdk.
  unfold v_extension in Hc. rewrite E in Hc. cbn [l_extension] in Hc.
  rewrite (dok_a_ext _ Hdk), Hc, (dok_nz _ Hdk). split; apply orb_true_r.
Qed.

Lemma asrt_sliced_ok v a b : lok (lay v) -> (1 <=? Z.of_nat (v_rank v)) = true ->
  in_slice (v_extension v) a b = true -> asrt_sliced a b v = true /\ nz_sliced a b v = true.
Proof.
  intros Hl Hr Hin. unfold asrt_sliced, nz_sliced.
  destruct (lay v) as [|d [|d1 sub]] eqn:E; [split; reflexivity| |].
  - split; [reflexivity|]. pose proof (lok_head _ _ Hl) as Hdk.
    destruct (d_nelems d =? 0) eqn:En; [reflexivity|]. bprop. cbn [orb].
    pose proof (dok_stride_nz _ Hdk En) as Hs. destruct Hdk as (f & n & Hk).
    rewrite (dim_okg_size _ _ _ Hk). destruct Hk as (_ & Hn & H0 & _).
    assert (n <> 0) by (intro; subst; lia).
    apply andb_true_intro. split; apply negb_true_iff; apply Z.eqb_neq; lia.
  - pose proof (lok_head _ _ Hl) as Hdk.
    unfold v_extension in Hin. rewrite E in Hin. cbn [l_extension] in Hin.
    rewrite (dok_a_ext _ Hdk), (dok_nz _ Hdk). cbn [andb].
    destruct (a =? b) eqn:Eab; [split; reflexivity|]. bprop. cbn [orb].
    destruct (in_slice_contains _ _ _ Hin Eab) as [-> ->]. split; reflexivity.
Qed.

Lemma asrt_paren_ok args : forall v, lok (lay v) -> dom_paren args v = true ->
  asrt_paren_bm args v = true /\ asrt_paren_plain args v = true /\ nz_paren args v = true.
Proof.
  induction args as [|[i|a b|] rest IH]; intros v Hl Hd;
    cbn [dom_paren asrt_paren_bm asrt_paren_plain nz_paren] in *.
  - repeat split.
  - apply andb_prop in Hd as [Hd Hrest]. apply andb_prop in Hd as [Hr Hc].
    assert (Hdi : dom_op (OIndex i) v = true) by (cbn [dom_op]; rewrite Hr, Hc; reflexivity).
    destruct (asrt_index_ok v i Hl Hdi) as [-> ->].
    destruct (IH _ (lok_index v i Hl) Hrest) as (-> & -> & ->). repeat split.
  - apply andb_prop in Hd as [Hd Hrest]. apply andb_prop in Hd as [Hr Hin].
    destruct (asrt_sliced_ok v a b Hl Hr Hin) as [-> ->].
    destruct (IH _ (lok_rotated _ (lok_sliced v a b Hl Hr Hin)) Hrest) as (-> & -> & ->). repeat split.
  - apply andb_prop in Hd as [Hr Hrest]. destruct (all_range_g v Hl Hr) as [Ea Hin]. rewrite Ea in *.
    destruct (asrt_sliced_ok v _ _ Hl Hr Hin) as [-> ->].
    destruct (IH _ (lok_rotated _ (lok_sliced v _ _ Hl Hr Hin)) Hrest) as (-> & -> & ->).
    assert (Hh : a_ext_head v = true /\ nz_head v = true).
    { unfold a_ext_head, nz_head. destruct (lay v) as [|d sub] eqn:E; [split; reflexivity|].
      pose proof (lok_head _ _ Hl) as Hdk.
      split; [apply dok_a_ext|apply dok_nz]; assumption. }
    destruct Hh as [-> ->]. repeat split.
Qed.

Lemma nz_head_ok v : lok (lay v) -> nz_head v = true.
Proof.
  unfold nz_head. intros Hl. destruct (lay v) as [|d sub]; [reflexivity|]. inv Hl. apply dok_nz; assumption.
Qed.

(* the block diagonal() takes, (0,sq)x(0,sq), is inside the extensions when the first two index bases are 0 *)
Lemma diag_dom v : lok (lay v) -> diag_safe v = true -> dom_op ODiagonal v = true ->
  dom_paren (diag_args v) v = true.
Proof.
  intros Hl Hs Hd. cbn [dom_op] in Hd.
  destruct v as [[|d0 [|d1 sub]] bs]; try (cbn in Hd; discriminate).
  unfold diag_safe in Hs; cbn [lay] in Hs. apply andb_prop in Hs as [Ho0 Ho1]. bprop.
  inversion Hl as [|? ? Hd0 Hl']; subst. inversion Hl' as [|? ? Hd1 Hl'']; subst.
  assert (Hext : forall d, dok d -> d_offset d = 0 -> d_extension d = (0, d_size d) /\ 0 <= d_size d).
  { intros d (f & n & K) Hoff. rewrite (dim_okg_extension _ _ _ K), (dim_okg_size _ _ _ K).
    destruct K as (Ho & Hn & Hn0 & Hst). unfold ext_of. destruct (n =? 0) eqn:E; bprop.
    - subst. split; [reflexivity|lia].
    - assert (0 < d_stride d) by lia. assert (f = 0) by nia. subst. split; [reflexivity|lia]. }
  destruct (Hext _ Hd0 Ho0) as [E0 P0]. destruct (Hext _ Hd1 Ho1) as [E1 P1].
  unfold diag_args. cbn [lay]. set (sq := Z.min (d_size d0) (d_size d1)).
  cbn [dom_paren]. unfold v_rank, v_extension. cbn [lay length l_extension].
  rewrite v_sliced_cons2. unfold v_rotated. cbn [lay base]. rewrite l_rotate_cons. cbn [app length l_extension].
  rewrite E0, E1. unfold in_slice; cbn [fst snd].
  repeat (apply andb_true_intro; split); try reflexivity; try (apply Z.leb_le; unfold sq; lia).
Qed.

Lemma asrt_step v o : lok (lay v) -> c20_ok o v = true -> dom_op o v = true ->
  asrt_op o v = true /\ nz_op o v = true.
Proof.
  intros Hl Hs Hd. unfold asrt_op.
  destruct o; cbn [asrt_bm asrt_plain nz_op c20_ok] in *.
  - destruct (asrt_index_ok v i Hl Hd) as [-> ->]. split; reflexivity.
  - cbn [dom_op] in Hd. apply andb_prop in Hd as [Hr Hin].
    destruct (asrt_sliced_ok v a b Hl Hr Hin) as [-> ->]. split; reflexivity.
  - cbn [dom_op] in Hd. apply andb_prop in Hd as [Hd _]. apply andb_prop in Hd as [Hd _].
    apply andb_prop in Hd as [Hr Hin].
    destruct (asrt_sliced_ok v a b Hl Hr Hin) as [-> ->]. split; reflexivity.
  - split; reflexivity.
  - cbn [dom_op] in Hd. apply andb_prop in Hd as [_ Hle]. rewrite (nz_head_ok v Hl).
    unfold asrt_dropped_bm, asrt_dropped_plain. rewrite Hle. destruct (lay v) as [|d [|d1 sub]]; split; reflexivity.
  - cbn [dom_op] in Hd. apply andb_prop in Hd as [_ Hle]. rewrite (nz_head_ok v Hl).
    unfold asrt_taked. rewrite Hle. destruct (lay v) as [|d sub]; split; reflexivity.
  - split; reflexivity.
  - split; reflexivity.
  - split; reflexivity.
  - split; reflexivity.
  - (* diagonal *)
    pose proof (diag_dom v Hl Hs Hd) as Hdp.
    destruct (asrt_paren_ok _ v Hl Hdp) as (-> & _ & ->).
    rewrite (nz_head_ok v Hl), (nz_head_ok _ (lok_rotated v Hl)). split; reflexivity.
  - (* partitioned *)
    cbn [dom_op] in Hd. destruct v as [[|d sub] bs]; [cbn in Hd; discriminate|]. bprop.
    unfold v_size in *; cbn [lay l_size] in *. inv Hl. destruct H5 as (f & k & K).
    rewrite (dim_okg_size _ _ _ K) in *. destruct K as (_ & Hn & _ & _).
    unfold asrt_partitioned; cbn [lay]. exactq k n q.
    assert (Hr : Z.rem (d_nelems d) n = 0).
    { rewrite Hn, Hq. replace (q * n * d_stride d) with (q * d_stride d * n) by ring. apply Z.rem_mul. lia. }
    rewrite Hr. replace (n =? 0) with false by (symmetry; apply Z.eqb_neq; lia). split; reflexivity.
  - (* chunked *)
    cbn [dom_op] in Hd. destruct v as [[|d sub] bs]; [cbn in Hd; discriminate|]. bprop.
    pose proof (nz_head_ok _ Hl) as Hnz. rewrite Hnz.
    unfold asrt_chunked, asrt_partitioned. cbn [lay].
    unfold v_size in *; cbn [lay l_size] in *. inv Hl. destruct H5 as (f & k & K).
    rewrite (dim_okg_size _ _ _ K) in *. destruct K as (_ & Hn & _ & _).
    exactq k c q. assert (1 <= q) by nia.
    assert (Hr : Z.rem (d_nelems d) q = 0).
    { rewrite Hn, Hq. replace (q * c * d_stride d) with (c * d_stride d * q) by ring. apply Z.rem_mul. lia. }
    assert (Hrc : Z.rem k c = 0) by (rewrite Hq; apply Z.rem_mul; lia).
    rewrite Hr, Hrc.
    replace (q =? 0) with false by (symmetry; apply Z.eqb_neq; lia).
    replace (c =? 0) with false by (symmetry; apply Z.eqb_neq; lia). split; reflexivity.
  - (* halved *)
    cbn [dom_op] in Hd. apply andb_prop in Hd as [_ Hle]. rewrite (nz_head_ok v Hl). unfold asrt_halved_plain.
    rewrite Hle. destruct (lay v); split; reflexivity.
  - rewrite (nz_head_ok v Hl). split; reflexivity.
  - cbn [dom_op] in Hd. apply andb_prop in Hd as [_ Hd].
    destruct (asrt_paren_ok _ v Hl Hd) as (-> & -> & ->). split; reflexivity.
  - split; reflexivity.
  - cbn [dom_op] in Hd. apply andb_prop in Hd as [Hr Hin].
    destruct (asrt_sliced_ok v a b Hl Hr Hin) as [-> ->]. split; reflexivity.
  - split; reflexivity.
Qed.

(* ---------------- whole programs ---------------- *)
Fixpoint run_ok (ops : list op) (v : view) : bool :=
  match ops with [] => true | o :: rest => c20_ok o v && run_ok rest (exec_op o v) end.

Lemma asserts_run ops : forall v w, lok (lay v) -> run_ok ops v = true -> run_ops ops v = Some w ->
  asserts_along ops v = true /\ lok (lay w).
Proof.
  induction ops as [|o ops IH]; intros v w Hl Hs Hrun; cbn [run_ops run_ok asserts_along] in *.
  - apply Some_inj in Hrun. subst. destruct (lok_observe _ Hl) as [-> ->]. split; [reflexivity|assumption].
  - apply andb_prop in Hs as [Hs Hsr]. unfold apply_op in Hrun. destruct (dom_op o v) eqn:Hd; [|discriminate].
    destruct (lok_observe _ Hl) as [-> ->]. destruct (asrt_step v o Hl Hs Hd) as [-> ->]. cbn [andb].
    apply IH; [apply lok_step; assumption|assumption|assumption].
Qed.

(* zero-based programs of C01 operations never meet the excluded site *)
Lemma run_ok_zero ops : forall v sz w, Forall c01_op ops -> lay_ok (lay v) sz -> run_ops ops v = Some w ->
  run_ok ops v = true.
Proof.
  induction ops as [|o ops IH]; intros v sz w Hc Hok Hrun; cbn [run_ops run_ok] in *; [reflexivity|].
  inv Hc. unfold apply_op in Hrun. destruct (dom_op o v) eqn:Hd; [|discriminate].
  destruct (step_op v sz o H1 Hok Hd) as [Hok' _].
  rewrite (IH _ _ _ H2 Hok' Hrun), andb_true_r.
  destruct o; try reflexivity. cbn [c20_ok]. eapply lay_ok_diag_safe; eassumption.
Qed.

Theorem C20_asserts_silent_on_valid_proved :
  forall (sz : list Z) (ops : list op) (w : view),
    Forall (fun n => 0 <= n) sz -> Forall c01_op ops ->
    run_ops ops (root_view (zb sz)) = Some w ->
    asserts_along ops (root_view (zb sz)) = true.
Proof.
  intros sz ops w Hsz Hc Hrun.
  pose proof (mk_layout_ok sz Hsz) as Hok.
  refine (proj1 (asserts_run ops _ w _ _ Hrun)).
  - cbn [root_view lay]. eapply lay_ok_lok; eassumption.
  - eapply run_ok_zero; [eassumption| |eassumption]. cbn [root_view lay]. eassumption.
Qed.

Theorem C20_asserts_silent_rebased_partial_proved :
  forall (exts : list range) (ops : list op) (w : view),
    Forall (fun r => fst r <= snd r) exts ->
    run_ok ops (root_view exts) = true ->
    run_ops ops (root_view exts) = Some w ->
    asserts_along ops (root_view exts) = true.
Proof.
  intros exts ops w Hx Hs Hrun.
  exact (proj1 (asserts_run ops (root_view exts) w (mk_lok _ Hx) Hs Hrun)).
Qed.

(* the full statement (any index bases, every operation) is false of the faithful model *)
Definition C20_silent_full : Prop :=
  forall (exts : list range) (ops : list op) (w : view),
    Forall (fun r => fst r <= snd r) exts ->
    run_ops ops (root_view exts) = Some w ->
    asserts_along ops (root_view exts) = true.

Theorem C20_silent_refuted_proved : ~ C20_silent_full.
Proof.
  intros H. specialize (H [(1, 4); (2, 5)] [ODiagonal] (v_diagonal (root_view [(1, 4); (2, 5)]))).
  assert (Hx : Forall (fun r : range => fst r <= snd r) [(1, 4); (2, 5)]) by (repeat constructor; cbn; lia).
  specialize (H Hx eq_refl). vm_compute in H. discriminate.
Qed.

(* C03, groundwork: the nested value of a zero-based view (Compare.v_tree) is determined by, and determines, the
   cells elements() visits in canonical order (Assign.e_addr); lists indexed by integer positions. *)
From BM Require Import Base.Tactics Model.Layout Model.View Model.Spec Model.Iter Model.Assign Model.Compare Model.C03Prog
  Proofs.LayoutProofs Proofs.IterProofs Proofs.ElemProofs Proofs.CompareProofs Proofs.C07Main.
Local Open Scope Z_scope.

(* ---------------- iota ---------------- *)
Lemma iotaz_iota n : iotaz n = iota n.
Proof. induction n as [|n IH]; cbn; [reflexivity|]. rewrite IH. reflexivity. Qed.
Lemma iota_length n : length (iota n) = n.
Proof. induction n; cbn; [reflexivity|]. rewrite app_length. cbn. lia. Qed.
Lemma nth_iota n : forall i d, (i < n)%nat -> nth i (iota n) d = Z.of_nat i.
Proof.
  induction n as [|n IH]; intros i d Hi; [lia|]. cbn [iota].
  destruct (Nat.eq_dec i n) as [->|Hne].
  - rewrite app_nth2 by (rewrite iota_length; lia). rewrite iota_length, Nat.sub_diag. reflexivity.
  - rewrite app_nth1 by (rewrite iota_length; lia). apply IH. lia.
Qed.
Lemma In_iota n k : In k (iota n) <-> 0 <= k < Z.of_nat n.
Proof.
  induction n as [|n IH]; cbn [iota].
  - split; [intros []|lia].
  - rewrite in_app_iff, IH. cbn. lia.
Qed.
Lemma iota_add a b : iota (a + b) = iota a ++ map (fun k => Z.of_nat a + k) (iota b).
Proof.
  induction b as [|b IH]; [rewrite Nat.add_0_r, app_nil_r; reflexivity|].
  rewrite Nat.add_succ_r. cbn [iota]. rewrite IH, map_app, app_assoc. cbn. do 2 f_equal. lia.
Qed.
Lemma map_iota_ext {A} (f g : Z -> A) n :
  (forall k, 0 <= k < Z.of_nat n -> f k = g k) -> map f (iota n) = map g (iota n).
Proof. intros H. apply map_ext_in. intros k Hk. apply H, In_iota. exact Hk. Qed.

(* a * b positions, split into a blocks of b *)
Lemma iota_blocks {A} (g : Z -> A) a b :
  map g (iota (a * b)) = concat (map (fun i => map (fun k => g (i * Z.of_nat b + k)) (iota b)) (iota a)).
Proof.
  induction a as [|a IH]; [reflexivity|].
  replace (S a * b)%nat with (a * b + b)%nat by lia. rewrite iota_add, map_app, IH. cbn [iota].
  rewrite map_app, concat_app. cbn [map concat]. rewrite app_nil_r, map_map. f_equal.
  apply map_ext. intros k. f_equal. lia.
Qed.

Lemma nth_map_iota {A} (f : Z -> A) n i d : (i < n)%nat -> nth i (map f (iota n)) d = f (Z.of_nat i).
Proof. intros Hi. rewrite (nth_indep _ d (f 0)) by (rewrite map_length, iota_length; lia). rewrite (map_nth f), nth_iota by lia. reflexivity. Qed.

Lemma list_as_nth (l : list Z) : l = map (fun k => nth (Z.to_nat k) l 0) (iota (length l)).
Proof.
  apply (nth_ext _ _ 0 0); [rewrite map_length, iota_length; reflexivity|].
  intros i Hi. rewrite nth_map_iota by assumption. rewrite Nat2Z.id. reflexivity.
Qed.

(* ---------------- lists of values addressed by integer positions ---------------- *)
Lemma lset_length {A} (l : list A) : forall n x, length (lset l n x) = length l.
Proof. induction l as [|y l IH]; intros [|n] x; cbn; try reflexivity. rewrite IH. reflexivity. Qed.
Lemma nth_lset {A} (l : list A) : forall n i x d, (n < length l)%nat ->
  nth i (lset l n x) d = if Nat.eqb i n then x else nth i l d.
Proof.
  induction l as [|y l IH]; intros [|n] [|i] x d Hn; cbn in *; try lia; try reflexivity.
  apply IH. lia.
Qed.

Lemma vget_map (f : Z -> value) n p : 0 <= p < Z.of_nat n -> vget (map f (iota n)) p = f p.
Proof. intros Hp. unfold vget. rewrite nth_map_iota by lia. rewrite Z2Nat.id by lia. reflexivity. Qed.
Lemma vset_map (f : Z -> value) n p x : 0 <= p < Z.of_nat n ->
  vset (map f (iota n)) p x = map (fun r => if r =? p then x else f r) (iota n).
Proof.
  intros Hp. unfold vset. apply (nth_ext _ _ (Leaf 0) (Leaf 0)).
  - rewrite lset_length, !map_length. reflexivity.
  - intros i Hi. rewrite lset_length, map_length, iota_length in Hi.
    rewrite nth_lset by (rewrite map_length, iota_length; lia). rewrite !nth_map_iota by assumption.
    destruct (Nat.eqb i (Z.to_nat p)) eqn:E.
    + apply Nat.eqb_eq in E. replace (Z.of_nat i =? p) with true by (symmetry; apply Z.eqb_eq; lia). reflexivity.
    + apply Nat.eqb_neq in E. replace (Z.of_nat i =? p) with false by (symmetry; apply Z.eqb_neq; lia). reflexivity.
Qed.

(* ---------------- the flat reading of a nested value ---------------- *)
Lemma flat_list_map {A} (g : A -> tree) (xs : list A) : flat_list (map g xs) = concat (map (fun i => flat_t (g i)) xs).
Proof. induction xs as [|x xs IH]; cbn; [reflexivity|]. rewrite IH. reflexivity. Qed.

Lemma numel_zb_prod sz : x_num_elements (zb sz) = prod sz.
Proof. unfold zb, prod. induction sz as [|n sz IH]; cbn; [reflexivity|]. rewrite IH. unfold r_size; cbn. lia. Qed.

Lemma prod_nonneg sz : Forall (fun n => 0 <= n) sz -> 0 <= prod sz.
Proof. unfold prod. induction 1 as [|n sz Hn _ IH]; cbn; [lia|]. nia. Qed.

Lemma flat_abs l sz : lay_ok l sz -> forall b (f : Z -> Z),
  flat_t (abs_l l b f) = map (fun k => f (b + l_call l (x_from_linear (l_extensions l) k))) (iota (Z.to_nat (prod sz))).
Proof.
  induction 1 as [|d n l sz Hd Hok IH]; intros b f.
  - cbn. rewrite Z.add_0_r. reflexivity.
  - pose proof (lay_ok_nonneg _ _ Hok) as Hnn. pose proof (prod_nonneg _ Hnn) as HN.
    pose proof (dim_ok_size _ _ Hd) as Hsz. pose proof (dim_ok_extension _ _ Hd) as Hex.
    destruct Hd as (Ho & Hne & Hn0 & Hst).
    cbn [abs_l]. rewrite flat_node, flat_list_map, Hex, Hsz, iotaz_iota. cbn [fst].
    change (prod (n :: sz)) with (n * prod sz). rewrite Z2Nat.inj_mul by lia.
    rewrite iota_blocks. f_equal. apply map_iota_ext. intros i Hi. rewrite Z2Nat.id in Hi by lia.
    rewrite IH. apply map_iota_ext. intros k Hk. rewrite !Z2Nat.id in * by lia. f_equal.
    cbn [l_extensions map]. rewrite Hex, FL_cons. cbn [fst l_call].
    change (map d_extension l) with (l_extensions l).
    rewrite (lay_ok_extensions l sz Hok). fold (zb sz). rewrite numel_zb_prod.
    destruct (qr_unique i k (prod sz) ltac:(lia) ltac:(lia)) as [-> ->]. rewrite Ho. lia.
Qed.

Lemma flat_rd w sz m : lay_ok (lay w) sz ->
  flat_t (rd0 w m) = map (fun k => vals m (e_addr w k)) (iota (Z.to_nat (prod sz))).
Proof. intros H. unfold rd0, v_tree. rewrite (flat_abs _ _ H). reflexivity. Qed.

Lemma rd_reg w sz m : lay_ok (lay w) sz -> reg sz (rd0 w m).
Proof. apply tree_reg. Qed.

Lemma rd_flat_nth w sz m k : lay_ok (lay w) sz -> 0 <= k < prod sz ->
  nth (Z.to_nat k) (flat_t (rd0 w m)) 0 = vals m (e_addr w k).
Proof. intros H Hk. rewrite (flat_rd _ _ _ H), nth_map_iota by lia. rewrite Z2Nat.id by lia. reflexivity. Qed.

(* two views of the same sizes carry the same value iff their cells agree position by position *)
Lemma rd_ext w w' sz m m' : lay_ok (lay w) sz -> lay_ok (lay w') sz ->
  (forall k, 0 <= k < prod sz -> vals m (e_addr w k) = vals m' (e_addr w' k)) -> rd0 w m = rd0 w' m'.
Proof.
  intros H H' E. apply (reg_flat_inj sz (lay_ok_nonneg _ _ H)); try (apply rd_reg; assumption).
  rewrite (flat_rd _ _ _ H), (flat_rd _ _ _ H'). apply map_iota_ext. intros k Hk. apply E.
  pose proof (prod_nonneg _ (lay_ok_nonneg _ _ H)). lia.
Qed.

Lemma rd_is w sz m x : lay_ok (lay w) sz -> reg sz x ->
  (forall k, 0 <= k < prod sz -> vals m (e_addr w k) = nth (Z.to_nat k) (flat_t x) 0) -> rd0 w m = x.
Proof.
  intros H Hx E. pose proof (lay_ok_nonneg _ _ H) as Hnn. pose proof (prod_nonneg _ Hnn) as HN.
  apply (reg_flat_inj sz Hnn); [apply rd_reg; assumption|assumption|].
  assert (HL : length (flat_t x) = Z.to_nat (prod sz)).
  { pose proof (reg_flat_length sz x Hx Hnn). lia. }
  rewrite (flat_rd _ _ _ H). rewrite (list_as_nth (flat_t x)), HL. apply map_iota_ext. intros k Hk. apply E. lia.
Qed.

Lemma collapses_false sz : collapse sz = sz -> collapses sz = false.
Proof. intros E. unfold collapses. rewrite E. replace (list_eqb sz sz) with true; [reflexivity|]. symmetry. apply list_eqb_spec. reflexivity. Qed.
Lemma rd_rd0 w sz m : lay_ok (lay w) sz -> collapse sz = sz -> rd w m = rd0 w m.
Proof. intros H E. unfold rd. rewrite (lay_ok_sizes _ _ H), (collapses_false _ E). reflexivity. Qed.

Lemma er_size_ok w sz : lay_ok (lay w) sz -> er_size w = prod sz.
Proof. apply lay_ok_num_elements. Qed.

(* ---------------- structural equality of values ---------------- *)
Fixpoint tree_ind2 (P : tree -> Prop) (HL : forall x, P (Leaf x)) (HN : forall ts, Forall P ts -> P (Node ts)) (t : tree) : P t :=
  match t with
  | Leaf x => HL x
  | Node ts => HN ts ((fix go (l : list tree) : Forall P l :=
                         match l with [] => Forall_nil P | t' :: r => Forall_cons t' (tree_ind2 P HL HN t') (go r) end) ts)
  end.

Lemma tree_eqb_spec a : forall b, tree_eqb a b = true <-> a = b.
Proof.
  induction a as [x|ts IH] using tree_ind2; intros [y|us]; cbn [tree_eqb]; try (split; discriminate).
  - split; intros H; [bprop; subst; reflexivity|inv H; apply Z.eqb_refl].
  - revert us. induction IH as [|t ts Ht _ IHl]; intros [|u us]; try (split; [discriminate|intros H; inv H]); [split; reflexivity|].
    split.
    + intros H. apply andb_prop in H as [H1 H2]. apply Ht in H1. apply IHl in H2. inv H2. reflexivity.
    + intros H. inv H. apply andb_true_intro. split; [apply Ht; reflexivity|apply IHl; reflexivity].
Qed.

Lemma eqb_flat sz t1 t2 : Forall (fun n => 0 <= n) sz -> reg sz t1 -> reg sz t2 ->
  list_eqb (flat_t t1) (flat_t t2) = tree_eqb t1 t2.
Proof.
  intros Hnn H1 H2. destruct (tree_eqb t1 t2) eqn:E.
  - apply tree_eqb_spec in E. subst. apply list_eqb_spec. reflexivity.
  - destruct (list_eqb (flat_t t1) (flat_t t2)) eqn:F; [|reflexivity].
    apply list_eqb_spec in F. apply (reg_flat_inj sz Hnn t1 t2 H1 H2) in F. subst.
    assert (tree_eqb t2 t2 = true) by (apply tree_eqb_spec; reflexivity). congruence.
Qed.

(* Rank 0: the configuration field c_rank (the rank D >= 1 of the arrays of Model/Life.v, read only by empty_arr) plays no part
   in the rank-0 machine.  The lemmas of Proofs/Life*.v are stated under 1 <= c_rank cfg; the rank-0 theorems are transported
   to every configuration through rk1 cfg (the same configuration with c_rank = 1): the two run the same programs, state by
   state, and satisfy the same invariant. *)
From BM Require Import Base.Tactics Model.Life Model.LifeRank0 Proofs.LifeBase Proofs.LifeMonad Proofs.LifeInv Proofs.LifeOps.
Local Open Scope Z_scope.

Definition rk1 (cfg : config) : config :=
  mkcfg 1 (c_tdc cfg) (c_tdx cfg) (c_quiet cfg) (c_pocca cfg) (c_pocma cfg) (c_pocs cfg) (c_ae cfg) (c_socc cfg).

Lemma rk1_rank cfg : (1 <= c_rank (rk1 cfg))%nat.
Proof. cbn. lia. Qed.

Definition ext {A} (m m' : M A) : Prop := forall s, m s = m' s.

Lemma ext_refl {A} (m : M A) : ext m m.
Proof. intros s; reflexivity. Qed.

Lemma ext_bind {A B} (m m' : M A) (f f' : A -> M B) : ext m m' -> (forall x, ext (f x) (f' x)) -> ext (bind m f) (bind m' f').
Proof. intros Hm Hf s. unfold bind. rewrite Hm. destruct (m' s); auto. apply Hf. Qed.

Lemma ext_on_throw {A} (m m' : M A) (c c' : M unit) : ext m m' -> ext c c' -> ext (on_throw m c) (on_throw m' c').
Proof. intros Hm Hc s. unfold on_throw. rewrite Hm. destruct (m' s); auto. rewrite Hc. reflexivity. Qed.

Section Rk.
Variable cfg : config.

Lemma construct_loop_rk1 w b start : forall srcs i, ext (construct_loop (rk1 cfg) w b start i srcs) (construct_loop cfg w b start i srcs).
Proof.
  induction srcs as [|x rest IH]; intros i; cbn [construct_loop]; [apply ext_refl|].
  apply ext_bind; [apply ext_refl|]. intros ?. apply ext_bind; [apply ext_refl|]. intros v.
  apply ext_bind; [apply ext_refl|]. intros ?. apply ext_bind; [apply ext_refl|]. intros ?. apply IH.
Qed.

Lemma construct_rows_rk1 w b rowlen : forall fuel srcs i,
  ext (construct_rows (rk1 cfg) w b i rowlen fuel srcs) (construct_rows cfg w b i rowlen fuel srcs).
Proof.
  induction fuel as [|fuel IH]; intros srcs i; cbn [construct_rows]; [apply ext_refl|].
  destruct srcs as [|x rest]; [apply ext_refl|].
  apply ext_bind; [apply construct_loop_rk1|]. intros ?. apply IH.
Qed.

Lemma assign_loop_rk1 w b : forall offs srcs, ext (assign_loop (rk1 cfg) w b offs srcs) (assign_loop cfg w b offs srcs).
Proof.
  induction offs as [|o offs IH]; intros srcs; destruct srcs as [|x rest]; cbn [assign_loop]; try apply ext_refl.
  apply ext_bind; [apply ext_refl|]. intros ?. apply ext_bind; [apply ext_refl|]. intros v.
  apply ext_bind; [apply ext_refl|]. intros ?. apply ext_bind; [apply ext_refl|]. intros ?. apply IH.
Qed.

Lemma p_build_rk1 a n rowlen srcs : ext (p_build (rk1 cfg) a n rowlen srcs) (p_build cfg a n rowlen srcs).
Proof.
  unfold p_build. apply ext_bind; [apply ext_refl|]. intros [|b]; [apply ext_refl|].
  apply ext_bind; [apply construct_rows_rk1|]. intros ?. apply ext_refl.
Qed.

Lemma assign_all_rk1 ar srcs : ext (assign_all (rk1 cfg) ar srcs) (assign_all cfg ar srcs).
Proof.
  unfold assign_all. destruct (nel ar <=? 0); [apply ext_refl|].
  apply ext_bind; [apply ext_refl|]. intros b. apply assign_loop_rk1.
Qed.

Lemma p_dtor_rk1 r : ext (p_dtor (rk1 cfg) r) (p_dtor cfg r).
Proof. intros s. reflexivity. Qed.

Lemma swap_cells_rk1 b i b' i' : ext (swap_cells (rk1 cfg) b i b' i') (swap_cells cfg b i b' i').
Proof. intros s. reflexivity. Qed.

Ltac ext_go :=
  repeat first
    [ apply p_build_rk1 | apply assign_all_rk1 | apply assign_loop_rk1 | apply p_dtor_rk1 | apply swap_cells_rk1
    | match goal with |- ext (if ?c then _ else _) (if ?c then _ else _) => destruct c end
    | match goal with |- ext (match ?p with PNull => _ | PBlk _ => _ end) _ => destruct p end
    | (apply ext_bind; [|intros ?])
    | apply ext_refl ].

Lemma assign0_rk1 prop mk tmp r t : ext (assign0 (rk1 cfg) prop mk tmp r t) (assign0 cfg prop mk tmp r t).
Proof.
  unfold assign0. apply ext_bind; [apply ext_refl|]. intros ar. apply ext_bind; [apply ext_refl|]. intros at_.
  change (alloc_eq (rk1 cfg) (a_alloc ar) (a_alloc at_)) with (alloc_eq cfg (a_alloc ar) (a_alloc at_)).
  ext_go.
Qed.

Ltac ext_go0 :=
  repeat first
    [ apply assign0_rk1 | apply p_build_rk1 | apply assign_all_rk1 | apply assign_loop_rk1 | apply p_dtor_rk1 | apply swap_cells_rk1
    | match goal with |- ext (if ?c then _ else _) (if ?c then _ else _) => destruct c end
    | match goal with |- ext (match ?p with PNull => _ | PBlk _ => _ end) _ => destruct p end
    | (apply ext_bind; [|intros ?])
    | apply ext_refl ].

Lemma step0_rk1 o : ext (step0 (rk1 cfg) o) (step0 cfg o).
Proof.
  destruct o; cbn [step0]; cbv zeta;
    change (c_pocs (rk1 cfg)) with (c_pocs cfg); change (c_pocca (rk1 cfg)) with (c_pocca cfg);
    change (c_pocma (rk1 cfg)) with (c_pocma cfg); ext_go0.
Qed.

Lemma unwind_rk1 : ext (unwind (rk1 cfg)) (unwind cfg).
Proof. intros s. reflexivity. Qed.

Lemma run_op0_rk1 o s : run_op0 (rk1 cfg) o s = run_op0 cfg o s.
Proof. unfold run_op0. rewrite step0_rk1. destruct (step0 cfg o (reset_counts s)); auto. Qed.

Lemma run_rank0_rk1 h : forall s, run_rank0 (rk1 cfg) h s = run_rank0 cfg h s.
Proof.
  induction h as [|o h IH]; intros s; cbn [run_rank0]; auto. rewrite run_op0_rk1.
  destruct (run_op0 cfg o s) as [out s1]. destruct out; auto; rewrite IH; reflexivity.
Qed.

Lemma cmp0_rk1 o l r : ext (cmp0 (rk1 cfg) o l r) (cmp0 cfg o l r).
Proof. intros s. reflexivity. Qed.

Lemma Inv_rk1 X s : Inv (rk1 cfg) X s <-> Inv cfg X s.
Proof. split; intros [H1 H2 H3 H4 H5 H6 H7]; constructor; auto. Qed.

Lemma Good_rk1 s : Good (rk1 cfg) s <-> Good cfg s.
Proof. unfold Good. rewrite Inv_rk1. tauto. Qed.

End Rk.

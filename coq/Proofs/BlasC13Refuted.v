(* C13 -- refutations.  The full statement (Model/BlasC13Spec.v: gemm_site_full s, C13_gemm_full) is false of the
   faithful model at the call sites below; each witness is a concrete pair of operand descriptors taken from a failing
   case of the correspondence run (where the real library shows the same failure), evaluated by vm_compute over the
   carrier Z (conjugation = identity) with the memory  mem p = p,  alpha = 1, beta = 0. *)
From BM Require Import Base.Tactics Model.BlasC13 Model.BlasC13Ref Model.BlasC13Crit Model.BlasC13Spec Proofs.BlasC13RefProofs.
Local Open Scope Z_scope.

Definition zrange (n : Z) : list Z := map Z.of_nat (seq 0 (Z.to_nat n)).

Lemma in_zrange n i : 0 <= i < n -> In i (zrange n).
Proof.
  intros H. unfold zrange. apply in_map_iff. exists (Z.to_nat i). split; [lia|]. apply in_seq. lia.
Qed.

Definition zid (x : Z) : Z := x.
Definition gemm_refZ := gemm_ref Z 0 Z.add Z.mul zid.
Definition gemm_mathZ := gemm_math Z 0 Z.add Z.mul zid.

Definition gemm_resultb (a b c : mat) (k : gemm_call) : bool :=
  forallb (fun i => forallb (fun j => gemm_refZ 1 0 k zid (maddr c i j) =? gemm_mathZ 1 0 a b c zid i j) (zrange (cols c))) (zrange (rows c)).

Lemma gemm_correct_resultb a b c k :
  gemm_correct_at Z 0 Z.add Z.mul zid 1 0 a b c k zid -> gemm_legal k = true /\ gemm_resultb a b c k = true.
Proof.
  intros (L & Rr & _). split; [assumption|].
  unfold gemm_resultb. apply forallb_forall. intros i Hi. apply forallb_forall. intros j Hj.
  apply Z.eqb_eq. apply Rr.
  - unfold zrange in Hi. apply in_map_iff in Hi. destruct Hi as (n & <- & Hn). apply in_seq in Hn. lia.
  - unfold zrange in Hj. apply in_map_iff in Hj. destruct Hj as (n & <- & Hn). apply in_seq in Hn. lia.
Qed.

Ltac refute a b c :=
  let H := fresh "H" in
  intro H;
  let o := eval vm_compute in (gemm_n a b c) in
  lazymatch o with
  | OCall ?k =>
      specialize (H Z 0 Z.add Z.mul zid Z.mul_comm 1 0 a b c k zid);
      let W := fresh "W" in
      assert (W : gemm_legal k = true /\ gemm_resultb a b c k = true);
      [ apply gemm_correct_resultb; apply H;
        [ apply wf_matb_spec; vm_compute; reflexivity | apply wf_matb_spec; vm_compute; reflexivity | apply wf_matb_spec; vm_compute; reflexivity
        | repeat split; reflexivity | reflexivity | vm_compute; reflexivity | reflexivity ]
      | destruct W as [W1 W2]; vm_compute in W1; vm_compute in W2; first [discriminate W1 | discriminate W2] ]
  end.

(* site 101 (after fix 3d271a4, which made it right for every non-empty inner dimension): an empty inner dimension
   still passes ldb = ( *a_first).size() = 0, illegal for xGEMM *)
Theorem gemm_site_101_refuted : ~ gemm_site_full 101.
Proof. refute (mk_mat 1000000 1 1 1 0 false) (mk_mat 2000000 1 1 0 1 false) (mk_mat 3000000 1 1 1 1 false). Qed.

(* site 102: case gs268 of the correspondence run: call illegal for reference BLAS (XERBLA parameter 8): nothing is computed, no diagnostic *)
Theorem gemm_site_102_refuted : ~ gemm_site_full 102.
Proof. refute (mk_mat 1000000 1 1 1 1 false) (mk_mat 2000000 1 1 1 2 false) (mk_mat 3000000 2 1 1 2 false). Qed.

(* site 103: case gs277 of the correspondence run: call illegal for reference BLAS (XERBLA parameter 8): nothing is computed, no diagnostic *)
Theorem gemm_site_103_refuted : ~ gemm_site_full 103.
Proof. refute (mk_mat 1000000 1 1 2 1 false) (mk_mat 2000000 1 1 1 2 false) (mk_mat 3000000 2 1 2 2 false). Qed.

(* site 104: case gs205 of the correspondence run: result=bad:[0][1]=3,0!=8,0 guards=ok inputs=ok frame=bad:cell10 *)
Theorem gemm_site_104_refuted : ~ gemm_site_full 104.
Proof. refute (mk_mat 1000000 1 1 1 1 false) (mk_mat 2000000 2 1 1 2 false) (mk_mat 3000009 1 4 1 2 false). Qed.

(* site 105: case gs340 of the correspondence run: call illegal for reference BLAS (XERBLA parameter 10): nothing is computed, no diagnostic *)
Theorem gemm_site_105_refuted : ~ gemm_site_full 105.
Proof. refute (mk_mat 1000000 1 1 2 1 false) (mk_mat 2000000 1 1 1 2 false) (mk_mat 3000000 1 2 2 2 false). Qed.

(* site 106: case gs3040 of the correspondence run: expressible product rejected by the wrapper's ldc check *)
Theorem gemm_site_106_refuted : ~ gemm_site_full 106.
Proof. refute (mk_mat 1000005 1 4 1 1 false) (mk_mat 2000000 2 1 1 2 false) (mk_mat 3000000 2 1 1 2 false). Qed.

(* site 107: case gs1285 of the correspondence run: call illegal for reference BLAS (XERBLA parameter 8): nothing is computed, no diagnostic *)
Theorem gemm_site_107_refuted : ~ gemm_site_full 107.
Proof. refute (mk_mat 1000000 1 2 2 1 false) (mk_mat 2000000 1 1 1 2 false) (mk_mat 3000000 2 1 2 2 false). Qed.

(* site 108: case gz3220 of the correspondence run: result=bad:[0][0]=-3111,1552!=9,2 guards=ok inputs=ok frame=ok *)
Theorem gemm_site_108_refuted : ~ gemm_site_full 108.
Proof. refute (mk_mat 1000006 1 4 1 2 false) (mk_mat 2000000 1 1 2 1 false) (mk_mat 3000006 1 4 1 1 false). Qed.

(* site 109: case gs1348 of the correspondence run: call illegal for reference BLAS (XERBLA parameter 10): nothing is computed, no diagnostic *)
Theorem gemm_site_109_refuted : ~ gemm_site_full 109.
Proof. refute (mk_mat 1000000 1 2 2 1 false) (mk_mat 2000000 1 1 1 2 false) (mk_mat 3000000 1 2 2 2 false). Qed.

(* site 110: case gr4291 of the correspondence run: call illegal for reference BLAS (XERBLA parameter 10): nothing is computed, no diagnostic *)
Theorem gemm_site_110_refuted : ~ gemm_site_full 110.
Proof. refute (mk_mat 1000000 1 1 1 0 false) (mk_mat 2000000 1 2 0 1 false) (mk_mat 3000002 1 4 1 1 false). Qed.

(* site 111: case gs835 of the correspondence run: expressible product rejected by the wrapper's ldc check *)
Theorem gemm_site_111_refuted : ~ gemm_site_full 111.
Proof. refute (mk_mat 1000000 1 1 1 1 false) (mk_mat 2000010 1 4 1 2 false) (mk_mat 3000000 1 1 1 2 false). Qed.

(* site 112: case gs841 of the correspondence run: result=bad:[1][0]=3,0!=9,0 guards=bad inputs=ok frame=ok *)
Theorem gemm_site_112_refuted : ~ gemm_site_full 112.
Proof. refute (mk_mat 1000000 1 1 2 1 false) (mk_mat 2000010 1 4 1 1 false) (mk_mat 3000000 1 2 2 1 false). Qed.

(* site 113: case gs275 of the correspondence run: result=bad:[0][0]=6,0!=3,0 guards=ok inputs=ok frame=ok *)
Theorem gemm_site_113_refuted : ~ gemm_site_full 113.
Proof. refute (mk_mat 1000000 2 1 2 2 false) (mk_mat 2000000 1 2 2 1 false) (mk_mat 3000000 1 1 2 1 false). Qed.

(* site 114: case gs772 of the correspondence run: result=bad:[0][1]=2,0!=8,0 guards=bad inputs=ok frame=ok *)
Theorem gemm_site_114_refuted : ~ gemm_site_full 114.
Proof. refute (mk_mat 1000000 1 1 1 1 false) (mk_mat 2000004 1 3 1 2 false) (mk_mat 3000000 2 1 1 2 false). Qed.

(* site 117: case gr8604 of the correspondence run: expressible product rejected by the wrapper's ldc check *)
Theorem gemm_site_117_refuted : ~ gemm_site_full 117.
Proof. refute (mk_mat 1000001 1 8 3 0 false) (mk_mat 2000001 1 4 0 0 false) (mk_mat 3000000 1 1 3 0 false). Qed.

(* site 201: case gz9 of the correspondence run: call illegal for reference BLAS (XERBLA parameter 8): nothing is computed, no diagnostic *)
Theorem gemm_site_201_refuted : ~ gemm_site_full 201.
Proof. refute (mk_mat 1000000 2 1 1 2 false) (mk_mat 2000000 1 1 2 1 true) (mk_mat 3000000 1 1 1 1 false). Qed.

(* site 202: case gr4877 of the correspondence run: result=bad:[0][1]=778,-1553!=-3,4 guards=ok inputs=ok frame=ok *)
Theorem gemm_site_202_refuted : ~ gemm_site_full 202.
Proof. refute (mk_mat 1000000 1 1 1 1 false) (mk_mat 2000012 1 5 1 2 true) (mk_mat 3000000 1 1 1 2 false). Qed.

(* site 204: case gz198 of the correspondence run: call illegal for reference BLAS (XERBLA parameter 8): nothing is computed, no diagnostic *)
Theorem gemm_site_204_refuted : ~ gemm_site_full 204.
Proof. refute (mk_mat 1000000 2 1 1 2 false) (mk_mat 2000000 1 1 2 1 true) (mk_mat 3000006 1 5 1 1 false). Qed.

(* site 205: case gz3033 of the correspondence run: call illegal for reference BLAS (XERBLA parameter 8): nothing is computed, no diagnostic *)
Theorem gemm_site_205_refuted : ~ gemm_site_full 205.
Proof. refute (mk_mat 1000012 1 5 1 2 false) (mk_mat 2000000 1 1 2 1 true) (mk_mat 3000000 1 1 1 1 false). Qed.

(* site 206: case gz3159 of the correspondence run: call illegal for reference BLAS (XERBLA parameter 8): nothing is computed, no diagnostic *)
Theorem gemm_site_206_refuted : ~ gemm_site_full 206.
Proof. refute (mk_mat 1000006 1 4 1 2 false) (mk_mat 2000000 1 1 2 1 true) (mk_mat 3000012 5 1 1 1 false). Qed.

(* site 301: case gr7537 of the correspondence run: expressible product rejected by the wrapper's ldc check *)
Theorem gemm_site_301_refuted : ~ gemm_site_full 301.
Proof. refute (mk_mat 1000000 1 1 1 1 true) (mk_mat 2000000 2 1 1 2 false) (mk_mat 3000005 4 1 1 2 false). Qed.

(* site 302: case gz27 of the correspondence run: call illegal for reference BLAS (XERBLA parameter 10): nothing is computed, no diagnostic *)
Theorem gemm_site_302_refuted : ~ gemm_site_full 302.
Proof. refute (mk_mat 1000000 1 1 2 1 true) (mk_mat 2000000 2 1 1 2 false) (mk_mat 3000000 2 1 2 2 false). Qed.

(* site 401: case gz1018 of the correspondence run: call illegal for reference BLAS (XERBLA parameter 8): nothing is computed, no diagnostic *)
Theorem gemm_site_401_refuted : ~ gemm_site_full 401.
Proof. refute (mk_mat 1000000 1 1 1 2 true) (mk_mat 2000000 1 1 2 1 true) (mk_mat 3000000 1 1 1 1 false). Qed.


(* hence the full gemm statement is false of the pinned code *)
Theorem gemm_full_refuted : ~ C13_gemm_full.
Proof. intro H. exact (gemm_site_113_refuted (H 113)). Qed.

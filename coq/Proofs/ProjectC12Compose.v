(* C12, part 2: projections commute with the view algebra of C01. *)
From BM Require Import Base.Tactics Model.Layout Model.View Model.Spec Model.ProjectC12Based Model.ProjectC12
  Proofs.LayoutProofs Proofs.ViewProofs Proofs.ViewProofs2 Proofs.ProjectC12Scale.
Local Open Scope Z_scope.

(* what dom_op looks at is determined by the sizes *)
Lemma lay_ok_same_obs v v' sz : lay_ok (lay v) sz -> lay_ok (lay v') sz ->
  v_rank v = v_rank v' /\ v_extension v = v_extension v' /\ v_size v = v_size v'.
Proof.
  intros H H'. unfold v_rank, v_extension, v_size.
  rewrite (lay_ok_length _ _ H), (lay_ok_length _ _ H').
  destruct H; inv H'; [auto|]. cbn [l_extension l_size].
  rewrite !(dim_ok_extension _ _ H), !(dim_ok_size _ _ H).
  match goal with H3 : dim_ok _ _ |- _ => rewrite !(dim_ok_extension _ _ H3), !(dim_ok_size _ _ H3) end.
  auto.
Qed.

Lemma all_range_same v v' : v_extension v = v_extension v' -> all_range v = all_range v'.
Proof. unfold all_range. intros ->. reflexivity. Qed.

Lemma dom_paren_transfer args : forall v v' sz, lay_ok (lay v) sz -> lay_ok (lay v') sz ->
  dom_paren args v = true -> dom_paren args v' = true.
Proof.
  induction args as [|[i|a b|] rest IH]; intros v v' sz Hok Hok' Hd; cbn [dom_paren] in *; [reflexivity| | |];
    destruct (lay_ok_same_obs _ _ _ Hok Hok') as (Er & Ee & Es); bprop.
  - assert (Hd1 : dom_op (OIndex i) v = true) by (cbn [dom_op]; bsolve).
    assert (Hd1' : dom_op (OIndex i) v' = true) by (cbn [dom_op]; rewrite <- Er, <- Ee; bsolve).
    rewrite <- Er, <- Ee. rewrite H1. replace (1 <=? Z.of_nat (v_rank v)) with true by (symmetry; bsolve).
    cbn [andb]. eapply IH; [exact (proj1 (step_index v sz Hok i Hd1))|exact (proj1 (step_index v' sz Hok' i Hd1'))|assumption].
  - assert (Hd1 : dom_op (OSliced a b) v = true) by (cbn [dom_op]; bsolve).
    assert (Hd1' : dom_op (OSliced a b) v' = true) by (cbn [dom_op]; rewrite <- Er, <- Ee; bsolve).
    rewrite <- Er, <- Ee. rewrite H1. replace (1 <=? Z.of_nat (v_rank v)) with true by (symmetry; bsolve).
    cbn [andb].
    pose proof (step_sliced v sz Hok a b Hd1) as S1. pose proof (step_sliced v' sz Hok' a b Hd1') as S1'.
    eapply IH; [exact (proj1 (step_rotated _ _ (proj1 S1)))|exact (proj1 (step_rotated _ _ (proj1 S1')))|assumption].
  - rewrite <- (all_range_same v v' Ee). rewrite <- Er.
    replace (1 <=? Z.of_nat (v_rank v)) with true by (symmetry; bsolve). cbn [andb].
    destruct (lay v) as [|d l] eqn:E; [unfold v_rank in H; rewrite E in H; cbn in H; lia|].
    destruct sz as [|n sz]; [inv Hok|].
    pose proof (all_range_ok _ _ _ _ _ E Hok) as Ea. rewrite Ea in *. cbn [fst snd] in *.
    assert (Hn : 0 <= n).
    { inv Hok. match goal with H : dim_ok _ _ |- _ => destruct H as (_&_&?&_) end. lia. }
    destruct (v_extension_ok _ _ _ _ _ E Hok) as [He _].
    assert (Hd1 : dom_op (OSliced 0 n) v = true).
    { cbn [dom_op]. rewrite He. unfold in_slice; cbn [fst snd]. bsolve. }
    assert (Hd1' : dom_op (OSliced 0 n) v' = true).
    { cbn [dom_op]. rewrite <- Er, <- Ee, He. unfold in_slice; cbn [fst snd]. bsolve. }
    rewrite <- E in Hok.
    pose proof (step_sliced v _ Hok 0 n Hd1) as S1. pose proof (step_sliced v' _ Hok' 0 n Hd1') as S1'.
    eapply IH; [exact (proj1 (step_rotated _ _ (proj1 S1)))|exact (proj1 (step_rotated _ _ (proj1 S1')))|assumption].
Qed.

Lemma dom_op_transfer o v v' sz : lay_ok (lay v) sz -> lay_ok (lay v') sz ->
  (o = OFlatted -> v_is_flattable v' = true) ->
  dom_op o v = true -> dom_op o v' = true.
Proof.
  intros Hok Hok' Hfl Hd. destruct (lay_ok_same_obs _ _ _ Hok Hok') as (Er & Ee & Es).
  destruct o; cbn [dom_op] in *; rewrite <- ?Er, <- ?Ee, <- ?Es; try assumption.
  - bprop. rewrite Hfl by reflexivity. bsolve.
  - bprop. rewrite (dom_paren_transfer args v v' sz Hok Hok') by assumption. bsolve.
Qed.

Lemma is_flattable_scale num den l b b' sz : 0 < num -> 0 < den -> dom_scale num den l = true -> lay_ok l sz ->
  v_is_flattable (mkview l b) = true -> v_is_flattable (mkview (l_scale_b num den l) b') = true.
Proof.
  intros Hn Hd Hdom Hok. unfold v_is_flattable; cbn [lay].
  destruct l as [|d0 [|d1 l]]; cbn [l_scale_b map]; try discriminate.
  inv Hok. inv H3. rewrite !dom_scale_cons in Hdom. bprop.
  rewrite (dim_ok_size _ _ (dim_ok_scale _ _ _ _ Hn Hd H H1)), (dim_ok_size _ _ H1).
  intros Hf. apply orb_prop in Hf. apply orb_true_iff. destruct Hf as [Hf|Hf]; [left; assumption|right].
  bprop. unfold d_scale_b; cbn [d_stride d_nelems]. rewrite Hf. apply Z.eqb_refl.
Qed.

Lemma p_addr_exec_op o x idx :
  p_addr (p_exec_op o x) idx = p_org x + p_esz x * v_addr (exec_op o (p_view x)) idx.
Proof. reflexivity. Qed.

Section ComposeMember.
  Variable x : pview.
  Variable sz : list Z.
  Variable o : op.
  Variables szU moff : Z.
  Hypothesis Hok : lay_ok (lay (p_view x)) sz.
  Hypothesis Hc : c01_op o.
  Hypothesis Hd : p_dom_op o x = true.
  Hypothesis HszT : 0 < p_esz x.
  Hypothesis HszU : 0 < szU.
  Hypothesis Hdom : dom_scale (p_esz x) szU (lay (p_view x)) = true.
  Hypothesis Hdom' : dom_scale (p_esz x) szU (lay (exec_op o (p_view x))) = true.

  Lemma compose_member_dom : p_dom_op o (p_member_cast szU moff x) = true.
  Proof.
    unfold p_dom_op in *.
    eapply dom_op_transfer; [exact Hok|apply member_cast_ok; assumption| |exact Hd].
    intros ->. cbn [dom_op] in Hd. bprop.
    unfold p_member_cast, p_rebase; cbn [p_view]. destruct (p_view x) as [l b] eqn:E. cbn [lay] in *.
    eapply is_flattable_scale; eassumption.
  Qed.

  Lemma compose_member_ok1 : lay_ok (lay (p_view (p_exec_op o (p_member_cast szU moff x)))) (spec_sz o sz).
  Proof.
    cbn [p_exec_op p_view].
    exact (proj1 (step_op _ sz o Hc (member_cast_ok x sz Hok szU HszT HszU Hdom moff) compose_member_dom)).
  Qed.

  Lemma compose_member_ok2 : lay_ok (lay (p_view (p_member_cast szU moff (p_exec_op o x)))) (spec_sz o sz).
  Proof.
    apply member_cast_ok; cbn [p_exec_op p_view p_esz]; try assumption.
    exact (proj1 (step_op _ sz o Hc Hok Hd)).
  Qed.

  Lemma compose_member_addr idx : valid_idx (spec_sz o sz) idx ->
    p_addr (p_exec_op o (p_member_cast szU moff x)) idx = p_addr (p_member_cast szU moff (p_exec_op o x)) idx.
  Proof.
    intros Hv.
    pose proof (step_op _ sz o Hc Hok Hd) as [Hok2 S2].
    pose proof (step_op _ sz o Hc (member_cast_ok x sz Hok szU HszT HszU Hdom moff) compose_member_dom) as [_ S1].
    destruct (S1 idx Hv) as [_ E1]. destruct (S2 idx Hv) as [_ E2].
    rewrite p_addr_exec_op, E1.
    change (p_org (p_member_cast szU moff x) + p_esz (p_member_cast szU moff x)
            * v_addr (p_view (p_member_cast szU moff x)) (spec_map o sz idx))
      with (p_addr (p_member_cast szU moff x) (spec_map o sz idx)).
    rewrite (member_cast_addr x sz Hok szU HszU Hdom).
    rewrite (member_cast_addr (p_exec_op o x) (spec_sz o sz)); cbn [p_exec_op p_view p_esz]; try assumption.
    rewrite p_addr_exec_op, E2. reflexivity.
  Qed.
End ComposeMember.

(* on zero-based views reinterpret_array_cast<U>() is member_cast at offset 0 *)
Lemma reinterpret_is_member0 x sz szU : lay_ok (lay (p_view x)) sz -> p_reinterpret szU x = p_member_cast szU 0 x.
Proof.
  intros Hok. unfold p_reinterpret, p_member_cast. rewrite (l_reinterpret_zero_based _ _ _ _ Hok), Z.add_0_r.
  reflexivity.
Qed.

(* the casts that only change the pointer type are the identity on (layout, base) *)
Lemma cast_identity v :
  v_static_array_cast v = v /\ v_const_array_cast v = v /\ v_as_const v = v /\ v_element_transformed v = v.
Proof. destruct v. repeat split. Qed.

Lemma p_identity_eq x : p_exec_proj PIdentity x = x.
Proof. destruct x as [[l b] o e]. reflexivity. Qed.

(* ---- one statement for all rank-preserving projections ---- *)
Definition proj_admissible (p : proj) (x : pview) : Prop :=
  match p with
  | PMember szU _ | PReinterpret szU => 0 < szU /\ 0 < p_esz x /\ Z.rem (p_esz x) szU = 0
  | PReinterpretN _ _ => False
  | PIdentity => True
  end.

Theorem compose_proj x sz o p :
  lay_ok (lay (p_view x)) sz -> c01_op o -> p_dom_op o x = true -> proj_admissible p x ->
     p_dom_op o (p_exec_proj p x) = true
  /\ lay_ok (lay (p_view (p_exec_op o (p_exec_proj p x)))) (spec_sz o sz)
  /\ lay_ok (lay (p_view (p_exec_proj p (p_exec_op o x)))) (spec_sz o sz)
  /\ p_esz (p_exec_op o (p_exec_proj p x)) = p_esz (p_exec_proj p (p_exec_op o x))
  /\ forall idx, valid_idx (spec_sz o sz) idx ->
       p_addr_brackets (p_exec_op o (p_exec_proj p x)) idx = p_addr_brackets (p_exec_proj p (p_exec_op o x)) idx.
Proof.
  intros Hok Hc Hd Ha.
  assert (Hok2 : lay_ok (lay (p_view (p_exec_op o x))) (spec_sz o sz)) by exact (proj1 (step_op _ sz o Hc Hok Hd)).
  destruct p as [szU moff|szU|szU n|]; cbn [proj_admissible] in Ha; [| |contradiction|].
  - destruct Ha as (HU & HT & Hr).
    assert (D1 : dom_scale (p_esz x) szU (lay (p_view x)) = true) by (apply dom_scale_divides; [lia|assumption]).
    assert (D2 : dom_scale (p_esz x) szU (lay (exec_op o (p_view x))) = true) by (apply dom_scale_divides; [lia|assumption]).
    cbn [p_exec_proj]. repeat split.
    + eapply compose_member_dom; eassumption.
    + eapply compose_member_ok1; eassumption.
    + eapply compose_member_ok2; eassumption.
    + intros idx Hv. rewrite !p_addr_brackets_eq. eapply compose_member_addr; eassumption.
  - destruct Ha as (HU & HT & Hr).
    assert (D1 : dom_scale (p_esz x) szU (lay (p_view x)) = true) by (apply dom_scale_divides; [lia|assumption]).
    assert (D2 : dom_scale (p_esz x) szU (lay (exec_op o (p_view x))) = true) by (apply dom_scale_divides; [lia|assumption]).
    cbn [p_exec_proj]. rewrite (reinterpret_is_member0 x sz szU Hok).
    rewrite (reinterpret_is_member0 (p_exec_op o x) _ szU Hok2). repeat split.
    + eapply compose_member_dom; eassumption.
    + eapply compose_member_ok1; eassumption.
    + eapply compose_member_ok2; eassumption.
    + intros idx Hv. rewrite !p_addr_brackets_eq. eapply compose_member_addr; eassumption.
  - rewrite !p_identity_eq. repeat split; assumption.
Qed.

(* Rank 0: the machine refines the reference interpreter over values along every fault-free history; what that says about
   copies, moves, swap, assignment from elements and through references (frame included), comparisons; and the one place
   where the rank-0 code does not do what C05 says (element_moved() is copied from). *)
From BM Require Import Base.Tactics Model.Life Model.LifeRank0 Proofs.LifeBase Proofs.LifeMonad Proofs.LifeInv Proofs.LifeCells
  Proofs.LifeSteps Proofs.LifeCombi Proofs.LifeOps Proofs.LifeOps2 Proofs.LifeOps3 Proofs.LifeDisc Proofs.LifeMain Proofs.LifeFacts
  Proofs.LifeVal1 Proofs.LifeVal2 Proofs.LifeVal3 Proofs.LifeVal4 Proofs.LifeVal5 Proofs.LifeVal10
  Proofs.LifeRank0Cells Proofs.LifeRank0Inv Proofs.LifeRank0Main Proofs.LifeRank0Val Proofs.LifeRank0Sq Proofs.LifeRank0Copies.
Local Open Scope Z_scope.

Section R0Sem.
Variable cfg : config.
Hypothesis rank_pos : (1 <= c_rank cfg)%nat.

Notation Inv := (Inv cfg).
Notation Good := (Good cfg).

(* one commuting square per entry point *)
Theorem step0_abs o s s' : Good s -> dom_op0 (s_arrs s) o -> step0 cfg o s = Ok tt s' ->
  abs_state s' = vstep0 cfg o (abs_state s).
Proof.
  intros G D H. destruct o.
  - eapply sq_ZBuf; eauto. - eapply sq_ZCtorValue; eauto. - eapply sq_ZCtorElem; eauto. - eapply sq_ZCtorSingleton; eauto.
  - eapply sq_ZCtorCopy; eauto. - eapply sq_ZCtorCopyAlloc; eauto. - eapply sq_ZCtorMove; eauto. - eapply sq_ZCtorMoveAlloc; eauto.
  - eapply sq_ZCtorRef; eauto. - eapply sq_ZCtorMovedRef; eauto. - eapply sq_ZCtorConv; eauto. - eapply sq_ZAssignCopy; eauto.
  - eapply sq_ZAssignMove; eauto. - eapply sq_ZAssignElem; eauto. - eapply sq_ZAssignRef; eauto. - eapply sq_ZAssignMovedRef; eauto.
  - eapply sq_ZAssignConv; eauto. - eapply sq_ZSwap; eauto. - eapply sq_ZSwapMember; eauto. - eapply sq_ZWrite; eauto.
  - eapply sq_ZMoveOut; eauto. - eapply sq_ZDestroy; eauto. - eapply sq_ZRefAssignRef; eauto. - eapply sq_ZRefAssignElem; eauto.
  - eapply sq_ZRefAssignMoved; eauto. - eapply sq_ZRefSwap; eauto. - eapply sq_ZRefWrite; eauto.
Qed.

Lemma step0_good o s s' : Good s -> dom_op0 (s_arrs s) o -> step0 cfg o s = Ok tt s' -> Good s'.
Proof.
  intros (I & W & T) D H.
  pose proof (step0_ok cfg rank_pos o (s_arrs s) W T D s (conj I eq_refl)) as Tr. rewrite H in Tr. exact Tr.
Qed.

Lemma run_op0_nofault o s : Good s -> s_fault s = None -> nothrown s -> dom_op0 (s_arrs s) o ->
  exists s', run_op0 cfg o s = (OutOk, s') /\ step0 cfg o (reset_counts s) = Ok tt s' /\
             Good s' /\ s_fault s' = None /\ nothrown s'.
Proof.
  intros G Hf Hn D.
  pose proof (run_op0_good cfg rank_pos o s G D) as Hg. pose proof (run_op0_quiet cfg o s Hf) as Hq.
  unfold run_op0 in *. destruct (step0 cfg o (reset_counts s)) as [[] s1|s1|e].
  - destruct Hq as [Q _]. destruct (Q Hf) as [Hf1 Hev]. destruct Hg as [_ [[G1 _]|B]].
    + exists s1. split; [reflexivity|]. split; [reflexivity|]. split; [exact G1|]. split; [exact Hf1|].
      intros w Hw. apply (Hn w). apply Hev. exact Hw.
    + exfalso. destruct B as [B|[B|B]]; apply Hev in B; apply (Hn _ B).
  - exfalso. destruct (unwind cfg s1) as [[] s2|s2|e].
    + destruct Hq as [_ [Ho|[e' Ho]]]; discriminate.
    + destruct Hq as [_ [Ho|[e' Ho]]]; discriminate.
    + destruct Hq as [Q _]. destruct (Q Hf) as [_ Hev]. destruct Hg as [_ [[_ Ne]|B]]; [exact Ne|].
      destruct B as [B|[B|B]]; apply Hev in B; apply (Hn _ B).
  - exfalso. destruct Hg as [_ [[_ Ne]|B]]; [exact Ne|]. destruct B as [B|[B|B]]; apply (Hn _ B).
Qed.

Lemma run_values0_sim h : forall s, Good s -> s_fault s = None -> nothrown s -> hist_dom0 cfg h s ->
  abs_state (snd (run_rank0 cfg h s)) = run_values0 cfg h (abs_state s).
Proof.
  induction h as [|o h IH]; intros s G Hf Hn D; [reflexivity|].
  destruct D as [Do Dr].
  destruct (run_op0_nofault o s G Hf Hn Do) as (s1 & Er & Es & G1 & Hf1 & Hn1).
  cbn [run_rank0]. rewrite Er in *. cbn [snd] in Dr.
  assert (Ea : abs_state s1 = vstep0 cfg o (abs_state s)).
  { change (abs_state s) with (abs_state (reset_counts s)). apply step0_abs; auto. apply (Good_reset cfg); auto. }
  specialize (IH s1 G1 Hf1 Hn1 Dr).
  destruct (run_rank0 cfg h s1) as [outs s2]. cbn [snd] in *. cbn [run_values0 fold_left]. rewrite IH, Ea. reflexivity.
Qed.

(* the machine refines the reference interpreter over values *)
Theorem rank0_value_semantics h : hist_dom0 cfg h (st0 None) ->
  abs_state (snd (run_rank0 cfg h (st0 None))) = run_values0 cfg h (abs_state (st0 None)).
Proof. intros D. apply run_values0_sim; auto. - apply (Good_st0 cfg). - intros w []. Qed.

(* ---- reading the pool ---- *)
Lemma vget_vset_same P r v : (r < length P)%nat -> vget (vset P r (Some v)) r = v.
Proof. intros H. unfold vget, vset. rewrite nth_upd_same; auto. Qed.
Lemma vget_vset_other P r q v : r <> q -> vget (vset P r v) q = vget P q.
Proof. intros H. unfold vget, vset. rewrite nth_upd_other; auto. Qed.
Lemma nth_vset_other P r q v : r <> q -> nth_error (vset P r v) q = nth_error P q.
Proof. intros H. unfold vset. apply nth_upd_other; auto. Qed.

Lemma free_lt_abs0 s r : Good s -> free (s_arrs s) r -> (r < length (abs_state s))%nat.
Proof. intros (I & _) [_ F]. rewrite abs_state_length. apply nth_error_Some. congruence. Qed.
Lemma live_lt_abs0 s r a : live (s_arrs s) r a -> (r < length (abs_state s))%nat.
Proof. intros [_ L]. rewrite abs_state_length. apply nth_error_Some. congruence. Qed.
Lemma free_live_ne0 A r t a : free A r -> live A t a -> r <> t.
Proof. intros [_ F] [_ L] ->. congruence. Qed.

(* ---- C04: copies are independent ---- *)
Theorem copy_then_write_copy0 r t v s s1 s2 : Good s ->
  dom_op0 (s_arrs s) (ZCtorCopy r t) -> step0 cfg (ZCtorCopy r t) s = Ok tt s1 ->
  dom_op0 (s_arrs s1) (ZWrite r v) -> step0 cfg (ZWrite r v) s1 = Ok tt s2 ->
  vget (abs_state s2) t = vget (abs_state s) t /\ vget (abs_state s2) r = (X0, [v]).
Proof.
  intros G D1 H1 D2 H2. pose proof (step0_good _ _ _ G D1 H1) as G1.
  rewrite (step0_abs _ _ _ G1 D2 H2), (step0_abs _ _ _ G D1 H1). cbn [vstep0].
  destruct D1 as [Df (as_ & [Dl _])]. pose proof (free_live_ne0 _ _ _ _ Df Dl) as Hne.
  split.
  - rewrite !vget_vset_other by auto. reflexivity.
  - unfold v0. rewrite vget_vset_same; auto. unfold vset. rewrite upd_nth_length. eapply free_lt_abs0; eauto.
Qed.

Theorem copy_then_write_source0 r t v s s1 s2 : Good s ->
  dom_op0 (s_arrs s) (ZCtorCopy r t) -> step0 cfg (ZCtorCopy r t) s = Ok tt s1 ->
  dom_op0 (s_arrs s1) (ZWrite t v) -> step0 cfg (ZWrite t v) s1 = Ok tt s2 ->
  vget (abs_state s2) r = vget (abs_state s) t.
Proof.
  intros G D1 H1 D2 H2. pose proof (step0_good _ _ _ G D1 H1) as G1.
  rewrite (step0_abs _ _ _ G1 D2 H2), (step0_abs _ _ _ G D1 H1). cbn [vstep0].
  destruct D1 as [Df (as_ & [Dl _])]. pose proof (free_live_ne0 _ _ _ _ Df Dl) as Hne.
  rewrite vget_vset_other by auto. apply vget_vset_same. eapply free_lt_abs0; eauto.
Qed.

(* copy assignment: the target takes the source's value, the source and every other array object keep theirs *)
Theorem assign_copy_value0 r t s s' : Good s -> dom_op0 (s_arrs s) (ZAssignCopy r t) -> step0 cfg (ZAssignCopy r t) s = Ok tt s' ->
  vget (abs_state s') r = vget (abs_state s) t /\ forall q, q <> r -> nth_error (abs_state s') q = nth_error (abs_state s) q.
Proof.
  intros G D H. rewrite (step0_abs _ _ _ G D H). cbn [vstep0]. destruct D as ((ar & [Dr _]) & _). split.
  - apply vget_vset_same. eapply live_lt_abs0; eauto.
  - intros q Hq. apply nth_vset_other; auto.
Qed.

(* a pool entry with no extensions is a rank-0 array object *)
Lemma abs_live0 s t v : Good s -> (t < NP)%nat -> nth_error (abs_state s) t = Some (Some (X0, v)) -> exists a, live0 (s_arrs s) t a.
Proof.
  intros (I & W & T) Ht H. rewrite abs_nth in H.
  destruct (nth_error (s_arrs s) t) as [[a|]|] eqn:E; try discriminate. cbn in H.
  exists a. split; [split; auto|]. assert (Hx : arr_bx a = X0) by (rewrite abs_arr_alt in H; congruence).
  pose proof (W t a E) as Wf. unfold wf_arr in Wf. unfold arr_bx in Hx.
  unfold is0. destruct (a_first a) as [|f fs]; destruct (a_exts a) as [|e es]; try discriminate; split; reflexivity.
Qed.

(* ---- C04: a move transfers the value and copies nothing; every other array object, the source included, is still there
        with a valid element (the abstraction keeps the moved-from element's old value; C++ leaves it unspecified) ---- *)
Theorem move_ctor_transfers0 r t s s' : Good s -> dom_op0 (s_arrs s) (ZCtorMove r t) ->
  step0 cfg (ZCtorMove r t) (reset_counts s) = Ok tt s' ->
  vget (abs_state s') r = vget (abs_state s) t /\ s_copies s' = 0 /\ Good s' /\
  (forall q, q <> r -> nth_error (abs_state s') q = nth_error (abs_state s) q) /\ exists at_, live0 (s_arrs s') t at_.
Proof.
  intros G D H. pose proof (Good_reset cfg s G) as G0.
  assert (D0 : dom_op0 (s_arrs (reset_counts s)) (ZCtorMove r t)) by exact D.
  pose proof (step0_abs _ _ _ G0 D0 H) as Ea. change (abs_state (reset_counts s)) with (abs_state s) in Ea.
  pose proof (step0_good _ _ _ G0 D0 H) as G'.
  destruct D as [Df (as_ & Dl)]. pose proof (free_live_ne0 _ _ _ _ Df (proj1 Dl)) as Hne.
  assert (Hq : forall q, q <> r -> nth_error (abs_state s') q = nth_error (abs_state s) q).
  { intros q Hq. rewrite Ea. cbn [vstep0]. apply nth_vset_other; auto. }
  split; [rewrite Ea; cbn [vstep0]; apply vget_vset_same; eapply free_lt_abs0; eauto|].
  split. { pose proof (moving_ncp cfg (ZCtorMove r t) Logic.I (reset_counts s)) as N. rewrite H in N. exact N. }
  split; auto. split; auto.
  destruct G as (I & W & T). destruct Dl as [[Ht Ln] Z0].
  destruct (arr0_vals cfg rank_pos s t as_ I Ln Z0) as (b & v & _ & _ & _ & Hg).
  apply (abs_live0 s' t [v] G' Ht). rewrite Hq by auto. rewrite abs_nth, Ln. cbn.
  rewrite <- (vget_abs cfg rank_pos s t as_ Ln), Hg. reflexivity.
Qed.

Theorem move_assign_transfers0 r t s s' : Good s -> dom_op0 (s_arrs s) (ZAssignMove r t) ->
  step0 cfg (ZAssignMove r t) (reset_counts s) = Ok tt s' ->
  vget (abs_state s') r = vget (abs_state s) t /\ s_copies s' = 0 /\ Good s' /\
  (forall q, q <> r -> nth_error (abs_state s') q = nth_error (abs_state s) q) /\
  (c_pocma cfg = false -> length (s_blocks s') = length (s_blocks s)).
Proof.
  intros G D H. pose proof (Good_reset cfg s G) as G0.
  assert (D0 : dom_op0 (s_arrs (reset_counts s)) (ZAssignMove r t)) by exact D.
  pose proof (step0_abs _ _ _ G0 D0 H) as Ea. change (abs_state (reset_counts s)) with (abs_state s) in Ea.
  split; [rewrite Ea; cbn [vstep0]; apply vget_vset_same; destruct D as ((ar & [Dr _]) & _); eapply live_lt_abs0; eauto|].
  split. { pose proof (moving_ncp cfg (ZAssignMove r t) Logic.I (reset_counts s)) as N. rewrite H in N. exact N. }
  split; [eapply step0_good; eauto|]. split.
  - intros q Hq. rewrite Ea. cbn [vstep0]. apply nth_vset_other; auto.
  - (* without allocator propagation no storage is acquired or released (with it: C10_rank0_move_assign_follows_pocma) *)
    intros Hp. destruct D as ((ar & Dr) & (at_ & Dt)). destruct G0 as (I & W & T).
    destruct (live0_nth _ _ _ Dr) as [Nr Zr]. destruct (live0_nth _ _ _ Dt) as [Nt Zt].
    cbn [step0] in H.
    destruct (Nat.eqb_spec r t) as [->|Hne].
    + open_get H. inv H. reflexivity.
    + unfold assign0 in H. rewrite Hp in H. open_get H. open_get H.
      rewrite (get_live0 _ _ _ _ Hg Dr), (get_live0 _ _ _ _ Hg0 Dt) in *.
      destruct (arr0_vals cfg rank_pos _ r ar I Nr Zr) as (b & c & Hb & _ & _ & _).
      destruct (arr0_vals cfg rank_pos _ t at_ I Nt Zt) as (b' & c' & Hb' & _ & _ & _).
      change (cells_of SMoveCell at_) with (one_cell at_ SMoveCell) in H.
      rewrite (assign_all_eq cfg ar b _ Zr Hb), (one_cell_eq at_ SMoveCell b' Zt Hb') in H.
      apply assign_one_inv in H. destruct H as ((_ & L & _) & _). exact L.
Qed.

(* ---- C04: swap exchanges the values (both forms), copies nothing ---- *)
Theorem swap_exchanges0 o r t s s' : (o = ZSwap r t \/ o = ZSwapMember r t) -> Good s -> dom_op0 (s_arrs s) o ->
  step0 cfg o (reset_counts s) = Ok tt s' ->
  vget (abs_state s') r = vget (abs_state s) t /\ vget (abs_state s') t = vget (abs_state s) r /\ s_copies s' = 0 /\
  forall q, q <> r -> q <> t -> nth_error (abs_state s') q = nth_error (abs_state s) q.
Proof.
  intros Ho G D H. pose proof (Good_reset cfg s G) as G0.
  assert (D0 : dom_op0 (s_arrs (reset_counts s)) o) by exact D.
  pose proof (step0_abs _ _ _ G0 D0 H) as Ea. change (abs_state (reset_counts s)) with (abs_state s) in Ea.
  assert (Hm : moving o) by (destruct Ho as [-> | ->]; exact Logic.I).
  pose proof (moving_ncp cfg o Hm (reset_counts s)) as N. rewrite H in N.
  assert (Ev : vstep0 cfg o (abs_state s) = vset (vset (abs_state s) r (Some (vget (abs_state s) t))) t (Some (vget (abs_state s) r)))
    by (destruct Ho as [-> | ->]; reflexivity).
  assert (Dd : r <> t /\ (exists ar, live0 (s_arrs s) r ar) /\ exists at_, live0 (s_arrs s) t at_)
    by (destruct Ho as [-> | ->]; exact D).
  destruct Dd as (Hne & (ar & [Dr _]) & (at_ & [Dt _])).
  rewrite Ea, Ev. split; [|split; [|split; [exact N|]]].
  - rewrite vget_vset_other by auto. apply vget_vset_same. eapply live_lt_abs0; eauto.
  - apply vget_vset_same. unfold vset. rewrite upd_nth_length. eapply live_lt_abs0; eauto.
  - intros q Hq Hq'. rewrite !nth_vset_other by auto. reflexivity.
Qed.

(* ---- C04: self assignment changes nothing (copy: not even a step of the machine; move: the element is move-assigned to itself) ---- *)
Theorem self_copy_assign_noop0 r s s' : step0 cfg (ZAssignCopy r r) s = Ok tt s' -> s' = s.
Proof.
  cbn [step0]. rewrite Nat.eqb_refl. intros H. unfold bind in H. destruct (get_arr r s) as [a s1|?|?] eqn:E; try discriminate.
  apply get_arr_inv in E. destruct E as [-> _]. inv H. reflexivity.
Qed.

Theorem self_move_assign_noop0 r s s' : step0 cfg (ZAssignMove r r) s = Ok tt s' -> s' = s.
Proof.
  cbn [step0]. rewrite Nat.eqb_refl. intros H.
  unfold bind at 1 in H. destruct (get_arr r s) as [a s1|?|?] eqn:E; try discriminate.
  apply get_arr_inv in E. destruct E as [-> _]. inv H. reflexivity.
Qed.

(* ---- C04 / C05: assignment from an element or from a reference stores exactly that value and touches nothing else ---- *)
Theorem assign_elem_exact0 r v s s' : Good s -> dom_op0 (s_arrs s) (ZAssignElem r v) -> step0 cfg (ZAssignElem r v) s = Ok tt s' ->
  vget (abs_state s') r = (X0, [v]) /\ forall q, q <> r -> nth_error (abs_state s') q = nth_error (abs_state s) q.
Proof.
  intros G D H. rewrite (step0_abs _ _ _ G D H). cbn [vstep0]. destruct D as (ar & [Dr _]). split.
  - apply vget_vset_same. eapply live_lt_abs0; eauto.
  - intros q Hq. apply nth_vset_other; auto.
Qed.

Theorem assign_ref_exact0 r q s s' : Good s -> dom_op0 (s_arrs s) (ZAssignRef r q) -> step0 cfg (ZAssignRef r q) s = Ok tt s' ->
  vget (abs_state s') r = (X0, [rval (abs_state s) q]) /\ forall t, t <> r -> nth_error (abs_state s') t = nth_error (abs_state s) t.
Proof.
  intros G D H. rewrite (step0_abs _ _ _ G D H). cbn [vstep0]. destruct D as ((ar & [Dr _]) & _). split.
  - apply vget_vset_same. eapply live_lt_abs0; eauto.
  - intros t Ht. apply nth_vset_other; auto.
Qed.

(* what vput does: one value of one pool entry *)
Lemma vput_other P q v t : t <> rf_slot q -> nth_error (vput P q v) t = nth_error P t.
Proof. intros H. unfold vput. destruct (vget P (rf_slot q)) as [e vals]. apply nth_vset_other. auto. Qed.
Lemma vput_same P q v : (rf_slot q < length P)%nat ->
  vget (vput P q v) (rf_slot q) = (fst (vget P (rf_slot q)), upd_nth (snd (vget P (rf_slot q))) (rf_idx q) v).
Proof. intros H. unfold vput. destruct (vget P (rf_slot q)) as [e vals]. cbn [fst snd]. apply vget_vset_same. auto. Qed.

Lemma nth_upd_nth_Z (l : list Z) i j x : nth j (upd_nth l i x) 0 = if (i =? j)%nat then (if (i <? length l)%nat then x else 0) else nth j l 0.
Proof.
  revert i j. induction l as [|a l IH]; intros [|i] [|j]; cbn; auto.
  - destruct (i =? j)%nat; auto.
  - rewrite IH. destruct (i =? j)%nat; auto.
Qed.

(* the operations that go through references: no array object is rebound, resized, created or destroyed, no storage is
   acquired or released *)
Definition through_refs (o : lop0) : Prop :=
  match o with
  | ZRefAssignRef _ _ | ZRefAssignElem _ _ | ZRefAssignMoved _ _ | ZRefSwap _ _ | ZRefWrite _ _ => True
  | _ => False
  end.

Theorem through_refs_keep o s s' : through_refs o -> step0 cfg o s = Ok tt s' -> mem_same s s'.
Proof.
  intros Ho H. destruct o; try contradiction; cbn [step0] in H.
  - unfold bind at 1 in H. destruct (ref_cell q s) as [c s1|?|?] eqn:E; try discriminate. apply ref_cell_inv in E. destruct E as [-> _].
    unfold bind at 1 in H. destruct (ref_cell p s) as [d s1|?|?] eqn:E; try discriminate. apply ref_cell_inv in E. destruct E as [-> _].
    apply assign_one_inv in H. apply H.
  - unfold bind at 1 in H. destruct (ref_cell q s) as [c s1|?|?] eqn:E; try discriminate. apply ref_cell_inv in E. destruct E as [-> _].
    apply assign_one_inv in H. apply H.
  - unfold bind at 1 in H. destruct (ref_cell q s) as [c s1|?|?] eqn:E; try discriminate. apply ref_cell_inv in E. destruct E as [-> _].
    unfold bind at 1 in H. destruct (ref_cell p s) as [d s1|?|?] eqn:E; try discriminate. apply ref_cell_inv in E. destruct E as [-> _].
    apply assign_one_inv in H. apply H.
  - unfold bind at 1 in H. destruct (ref_cell q s) as [c s1|?|?] eqn:E; try discriminate. apply ref_cell_inv in E. destruct E as [-> _].
    unfold bind at 1 in H. destruct (ref_cell p s) as [d s1|?|?] eqn:E; try discriminate. apply ref_cell_inv in E. destruct E as [-> _].
    destruct ((fst c =? fst d)%nat && (snd c =? snd d)%nat); [discriminate|]. apply swap_cells_inv in H. apply H.
  - unfold bind at 1 in H. destruct (ref_cell q s) as [c s1|?|?] eqn:E; try discriminate. apply ref_cell_inv in E. destruct E as [-> _].
    apply assign1_mem in H. apply H.
Qed.

(* C05 at rank 0: q = p (and q = element, q.fill(element)) sets exactly the element q designates to the source's value and
   leaves every other element of every array object and buffer as it was *)
Theorem ref_assign_exact0 o q v s s' : Good s -> dom_op0 (s_arrs s) o -> step0 cfg o s = Ok tt s' ->
  (exists p, (o = ZRefAssignRef q p \/ o = ZRefAssignMoved q p) /\ v = rval (abs_state s) p) \/ o = ZRefAssignElem q v \/ o = ZRefWrite q v ->
  rval (abs_state s') q = v /\
  (forall t k, (t <> rf_slot q \/ k <> rf_idx q) -> rval (abs_state s') (mkref0 t k) = rval (abs_state s) (mkref0 t k)) /\
  (forall t, fst (vget (abs_state s') t) = fst (vget (abs_state s) t)) /\ mem_same s s'.
Proof.
  intros G D H Ho.
  assert (Ev : vstep0 cfg o (abs_state s) = vput (abs_state s) q v).
  { destruct Ho as [(p & [-> | ->] & ->)|[-> | ->]]; reflexivity. }
  assert (Dq : ref_dom (s_arrs s) q).
  { destruct Ho as [(p & [-> | ->] & _)|[-> | ->]]; cbn [dom_op0] in D; try apply D. }
  assert (Ht : through_refs o) by (destruct Ho as [(p & [-> | ->] & _)|[-> | ->]]; exact Logic.I).
  pose proof (through_refs_keep o s s' Ht H) as M.
  rewrite (step0_abs _ _ _ G D H), Ev.
  destruct Dq as (aq & Lq & Hi). pose proof (live_lt_abs0 _ _ _ Lq) as Hl.
  destruct G as (I & W & T). destruct Lq as [_ Ln].
  destruct (ref_vals cfg rank_pos s q aq) with (b := match a_base aq with PBlk b => b | PNull => 0%nat end) as (So & Hlt & _); auto.
  { destruct (arr_facts cfg s _ aq I (nth_slot _ _ _ Ln) ltac:(lia)) as (b0 & -> & _). reflexivity. }
  assert (Hlen : (rf_idx q < length (snd (vget (abs_state s) (rf_slot q))))%nat).
  { rewrite (vget_abs cfg rank_pos s _ aq Ln), abs_arr_alt. cbn [snd]. unfold avals.
    destruct So as (_ & Hp & Hb & Lv & _). destruct (Z.leb_spec (nel aq) 0); [lia|]. rewrite Hb, Lv. exact Hlt. }
  split; [|split; [|split; [|exact M]]].
  - unfold rval. rewrite (vput_same _ q v Hl). cbn [snd]. rewrite nth_upd_nth_Z, Nat.eqb_refl.
    apply Nat.ltb_lt in Hlen. rewrite Hlen. reflexivity.
  - intros t k Hd. unfold rval. cbn [rf_slot rf_idx]. destruct (Nat.eq_dec t (rf_slot q)) as [->|Hne].
    + rewrite (vput_same _ q v Hl). cbn [snd]. rewrite nth_upd_nth_Z.
      destruct (Nat.eqb_spec (rf_idx q) k) as [<-|]; auto. destruct Hd; contradiction.
    + unfold vget. rewrite vput_other by auto. reflexivity.
  - intros t. destruct (Nat.eq_dec t (rf_slot q)) as [->|Hne].
    + rewrite (vput_same _ q v Hl). reflexivity.
    + unfold vget. rewrite vput_other by auto. reflexivity.
Qed.

End R0Sem.

From Coq Require Import ZArith List Bool Lia.
From BM Require Import Base.Tactics Model.Layout Model.View Model.Compare Model.CompareBy Proofs.CompareProofs.
Import ListNotations.
Local Open Scope Z_scope.

Lemma list_eqb_by_spec eqe a : forall b,
  list_eqb_by eqe a b = true <-> Forall2 (fun x y => eqe x y = true) a b.
Proof.
  induction a as [|x a IH]; intros [|y b]; cbn; split; intros H; try discriminate; try constructor;
    try (inversion H; fail).
  - apply andb_true_iff in H. tauto.
  - apply IH. apply andb_true_iff in H. tauto.
  - inversion H; subst. apply andb_true_iff. split; [assumption|apply IH; assumption].
Qed.

Lemma list_eqb_by_Zeqb a b : list_eqb_by Z.eqb a b = list_eqb a b.
Proof. revert b; induction a as [|x a IH]; intros [|y b]; cbn; try reflexivity. rewrite IH. reflexivity. Qed.

Lemma Forall2_diag {A} (P : A -> A -> Prop) (l : list A) : Forall2 P l l <-> Forall (fun x => P x x) l.
Proof.
  induction l as [|x l IH]; split; intros H; try constructor; inversion H; subst; try assumption; apply IH; assumption.
Qed.

Theorem eq_by_iff_proved : forall eqe a b ma mb,
  v_eq_by eqe a b ma mb = true <->
    x_eq (l_extensions (lay a)) (l_extensions (lay b)) = true
    /\ Forall2 (fun x y => eqe x y = true) (flat_t (v_tree a ma)) (flat_t (v_tree b mb)).
Proof.
  intros. unfold v_eq_by, eq_flat_by. rewrite andb_true_iff, list_eqb_by_spec. reflexivity.
Qed.

Theorem eq_by_Zeqb_proved : forall a b m, v_eq_by Z.eqb a b m m = v_eq a b m.
Proof. intros. unfold v_eq_by, eq_flat_by, v_eq. rewrite list_eqb_by_Zeqb. reflexivity. Qed.

Lemma x_eq_refl x : x_eq x x = true.
Proof.
  induction x as [|r x IH]; cbn; [reflexivity|]. rewrite IH, andb_true_r.
  unfold r_eq. destruct r as [f l]. cbn. rewrite !Z.eqb_refl. destruct (_ && _); reflexivity.
Qed.

(* a view compared with ITSELF (same base, same layout, same projection) is equal exactly when every element is equal
   to itself: no shortcut on the identity of the operands is sound for element types with a non-reflexive == *)
Theorem self_eq_iff_proved : forall eqe a m,
  v_eq_by eqe a a m m = true <-> Forall (fun x => eqe x x = true) (flat_t (v_tree a m)).
Proof.
  intros. rewrite eq_by_iff_proved, x_eq_refl, Forall2_diag. tauto.
Qed.

Theorem self_eq_nan_proved : forall nan a m,
  v_eq_by (nan_eqb nan) a a m m = negb (existsb (Z.eqb nan) (flat_t (v_tree a m))).
Proof.
  intros. apply eq_true_iff_eq. rewrite self_eq_iff_proved, negb_true_iff.
  rewrite <- not_true_iff_false, existsb_exists, Forall_forall. split.
  - intros H (x & Hin & E). apply Z.eqb_eq in E. subst x. specialize (H _ Hin).
    unfold nan_eqb in H. rewrite Z.eqb_refl in H. discriminate.
  - intros H x Hin. unfold nan_eqb. rewrite Z.eqb_refl, andb_true_r, andb_diag, negb_true_iff.
    apply Z.eqb_neq. intros ->. apply H. exists nan. split; [assumption|apply Z.eqb_refl].
Qed.

Theorem ne_by_negation_proved : forall eqe a b ma mb, v_ne_by eqe a b ma mb = negb (v_eq_by eqe a b ma mb).
Proof. reflexivity. Qed.

(* non-vacuity: a 2x2 view holding one NaN (code 9) is not equal to itself; without the NaN it is *)
Example self_eq_example :
  let v := root_view [(0, 2); (0, 2)] in
  v_eq_by (nan_eqb 9) v v (fun k => if k =? 3 then 9 else k) (fun k => if k =? 3 then 9 else k) = false
  /\ v_eq_by (nan_eqb 9) v v (fun k => k) (fun k => k) = true.
Proof. split; reflexivity. Qed.

(* C03: a program that never uses an unspecified (moved-from) position computes the same results, and the same
   values at every specified position, whatever the moved-from state of independent values is. *)
From BM Require Import Base.Tactics Model.Layout Model.View Model.Spec Model.Iter Model.Assign Model.Compare Model.C03Prog Model.C03Moved
  Proofs.LayoutProofs Proofs.CompareProofs Proofs.C03Flat Proofs.C03Prims Proofs.C03Main.
Local Open Scope Z_scope.

Lemma lset_oob {A} (l : list A) : forall n x, (length l <= n)%nat -> lset l n x = l.
Proof. induction l as [|y l IH]; intros [|n] x H; cbn in *; try reflexivity; try lia. rewrite IH by lia. reflexivity. Qed.
Lemma lset_same {A} (l : list A) : forall n d, lset l n (nth n l d) = l.
Proof. induction l as [|y l IH]; intros [|n] d; cbn; try reflexivity. rewrite IH. reflexivity. Qed.
Lemma vset_vget l p : vset l p (vget l p) = l.
Proof. apply lset_same. Qed.

Lemma nth_lset_self {A} (l : list A) : forall n i d, nth i (lset l n (nth i l d)) d = nth i l d.
Proof. induction l as [|y l IH]; intros [|n] [|i] d; cbn; auto. Qed.
Lemma lset_nth_eq {A} (l : list A) n x d : nth n l d = x -> lset l n x = l.
Proof. intros <-. apply lset_same. Qed.

Lemma run_junk_id {A} D (pr : prog A) : forall l, run_junk (fun x => x) D pr l = run_on_values D pr l.
Proof.
  induction pr as [a|p k IH|p k IH|p x k IH|p q k IH|p q k IH|p q k IH|p q k IH|p x k IH|x p k IH|p q k IH|p x k IH];
    intros l; cbn [run_junk run_on_values]; try apply IH; try reflexivity.
  - rewrite vset_vget. apply IH.
  - rewrite IH. f_equal. unfold vset, vget. apply (lset_nth_eq _ _ _ (Leaf 0)). apply nth_lset_self.
Qed.

Lemma agrees_get l lo p x : agrees l lo -> oget lo p = Some x -> vget l p = x.
Proof. intros [_ H] E. apply H. exact E. Qed.

Lemma agrees_set l lo p y o : agrees l lo -> (forall x, o = Some x -> y = x) -> agrees (vset l p y) (oset lo p o).
Proof.
  intros [Hl H] Ho. unfold vset, oset. split; [rewrite !lset_length; exact Hl|].
  intros i x E. destruct (Nat.lt_ge_cases (Z.to_nat p) (length lo)) as [Hp|Hp].
  - rewrite nth_lset in E by assumption. rewrite nth_lset by lia.
    destruct (Nat.eqb i (Z.to_nat p)); [apply Ho; exact E|apply H; exact E].
  - rewrite lset_oob in E by assumption. rewrite lset_oob by lia. apply H. exact E.
Qed.

Theorem C03_moved_from_irrelevant_values : forall (junk : value -> value) A D (pr : prog A) l lo lo' r,
  agrees l lo -> run_tracked D pr lo = Some (lo', r) ->
  snd (run_junk junk D pr l) = r /\ agrees (fst (run_junk junk D pr l)) lo'.
Proof.
  intros junk A D pr.
  induction pr as [a|p k IH|p k IH|p x k IH|p q k IH|p q k IH|p q k IH|p q k IH|p x k IH|x p k IH|p q k IH|p x k IH];
    intros l lo lo' r Ha Hr; cbn [run_tracked run_junk] in *.
  - inv Hr. split; [reflexivity|exact Ha].
  - destruct (oget lo p) as [x|] eqn:E; [|discriminate]. rewrite (agrees_get _ _ _ _ Ha E). eapply IH; eassumption.
  - destruct (oget lo p) as [x|] eqn:E; [|discriminate]. rewrite (agrees_get _ _ _ _ Ha E).
    eapply IH; [|eassumption]. apply agrees_set; [assumption|intros ? ?; discriminate].
  - eapply IH; [|eassumption]. apply agrees_set; [assumption|intros ? E; inv E; reflexivity].
  - destruct (oget lo q) as [x|] eqn:E; [|discriminate]. rewrite (agrees_get _ _ _ _ Ha E).
    eapply IH; [|eassumption]. apply agrees_set; [assumption|intros ? E'; inv E'; reflexivity].
  - destruct (oget lo q) as [x|] eqn:E; [|discriminate]. rewrite (agrees_get _ _ _ _ Ha E).
    eapply IH; [|eassumption]. apply agrees_set; [|intros ? ?; discriminate].
    apply agrees_set; [assumption|intros ? E'; inv E'; reflexivity].
  - destruct (oget lo p) as [x|] eqn:E1; [|discriminate]. destruct (oget lo q) as [y|] eqn:E2; [|discriminate].
    rewrite (agrees_get _ _ _ _ Ha E1), (agrees_get _ _ _ _ Ha E2).
    eapply IH; [|eassumption]. apply agrees_set; [|intros ? E'; inv E'; reflexivity].
    apply agrees_set; [assumption|intros ? E'; inv E'; reflexivity].
  - destruct (oget lo p) as [x|] eqn:E1; [|discriminate]. destruct (oget lo q) as [y|] eqn:E2; [|discriminate].
    rewrite (agrees_get _ _ _ _ Ha E1), (agrees_get _ _ _ _ Ha E2). eapply IH; eassumption.
  - destruct (oget lo p) as [y|] eqn:E; [|discriminate]. rewrite (agrees_get _ _ _ _ Ha E). eapply IH; eassumption.
  - destruct (oget lo p) as [y|] eqn:E; [|discriminate]. rewrite (agrees_get _ _ _ _ Ha E). eapply IH; eassumption.
  - destruct (oget lo p) as [x|] eqn:E1; [|discriminate]. destruct (oget lo q) as [y|] eqn:E2; [|discriminate].
    rewrite (agrees_get _ _ _ _ Ha E1), (agrees_get _ _ _ _ Ha E2). eapply IH; eassumption.
  - destruct (oget lo p) as [y|] eqn:E; [|discriminate]. rewrite (agrees_get _ _ _ _ Ha E). eapply IH; eassumption.
Qed.

Lemma agrees_map_some l : agrees l (map Some l).
Proof.
  split; [rewrite map_length; reflexivity|]. intros i x E.
  destruct (Nat.lt_ge_cases i (length l)) as [Hi|Hi].
  - rewrite (nth_indep _ None (Some (Leaf 0))) in E by (rewrite map_length; assumption). rewrite map_nth in E. inv E. reflexivity.
  - rewrite nth_overflow in E by (rewrite map_length; assumption). discriminate.
Qed.

(* the view against independent values with ANY moved-from behaviour *)
Theorem C03_moved_from_proved :
  forall (row : Z -> view) (n : Z) (sz : list Z), rows_ok row n sz ->
  forall (A : Type) (pr : prog A), prog_ok n sz pr ->
  forall (m : mem) lo' r,
    run_tracked (length sz) pr (map Some (abs_rows row n m)) = Some (lo', r) ->     (* the program respects the contract *)
    forall (junk : value -> value),
      let rv := run_on_view row pr m in
      let rj := run_junk junk (length sz) pr (abs_rows row n m) in
         snd rv = r /\ snd rj = r
      /\ agrees (abs_rows row n (fst rv)) lo' /\ agrees (fst rj) lo'
      /\ (forall a, outside_rows row n sz a -> fst rv a = m a).
Proof.
  intros row n sz HR A pr Hok m lo' r Htr junk rv rj.
  destruct (C03_representation_independence_proved row n sz HR A pr Hok m) as (H1 & H2 & H3). fold rv in H1, H2, H3.
  destruct (C03_moved_from_irrelevant_values (fun x => x) A (length sz) pr _ _ _ _ (agrees_map_some _) Htr) as [I1 I2].
  rewrite run_junk_id in I1, I2.
  destruct (C03_moved_from_irrelevant_values junk A (length sz) pr _ _ _ _ (agrees_map_some _) Htr) as [J1 J2].
  split; [rewrite H1; exact I1|]. split; [exact J1|]. split; [rewrite H2; exact I2|]. split; [exact J2|exact H3].
Qed.

(* non-vacuity: the sort / rotate / unique / remove programs never touch an unspecified position (here on 5 values),
   and leave every position they are responsible for specified *)
Example C03_tracked_example :
  let l := map Some [Leaf 3; Leaf 1; Leaf 2; Leaf 1; Leaf 0] in
     run_tracked 0 (p_sort 5) l = Some (map Some [Leaf 0; Leaf 1; Leaf 1; Leaf 2; Leaf 3], tt)
  /\ run_tracked 0 (p_rotate 5 2) l = Some (map Some [Leaf 2; Leaf 1; Leaf 0; Leaf 3; Leaf 1], 3)
  /\ run_tracked 0 (p_unique 5) (map Some [Leaf 3; Leaf 3; Leaf 2; Leaf 1; Leaf 1])
       = Some ([Some (Leaf 3); Some (Leaf 2); Some (Leaf 1); None; Some (Leaf 1)], 3)
  /\ run_tracked 0 (p_remove 5 (Leaf 1)) l = Some ([Some (Leaf 3); Some (Leaf 2); Some (Leaf 0); Some (Leaf 1); None], 3).
Proof. vm_compute. repeat split. Qed.

(* C03: the algorithms written as programs in Model/C03Prog.v stay inside the range and only handle values of the rows'
   shape (prog_ok), for every range size n -- so C03_representation_independence applies to each of them. *)
From BM Require Import Base.Tactics Model.Layout Model.View Model.Spec Model.Iter Model.Assign Model.Compare Model.C03Prog
  Proofs.LayoutProofs Proofs.CompareProofs Proofs.C03Flat Proofs.C03Prims Proofs.C03Main.
Local Open Scope Z_scope.

Section Ok.
  Variables (n : Z) (sz : list Z).

  Lemma ok_bind {A B} (m : prog A) (f : A -> prog B) :
    prog_ok n sz m -> (forall a, prog_ok n sz (f a)) -> prog_ok n sz (bind m f).
  Proof.
    intros Hm Hf. induction m as [a|p k IH|p k IH|p x k IH|p q k IH|p q k IH|p q k IH|p q k IH|p x k IH|x p k IH|p q k IH|p x k IH];
      cbn [bind prog_ok] in *; try (apply Hf); intuition auto.
  Qed.
  Lemma ok_pmap {A B} (g : A -> B) (m : prog A) : prog_ok n sz m -> prog_ok n sz (pmap g m).
  Proof. intros H. apply ok_bind; [assumption|]. intros a. exact I. Qed.

  Lemma ok_reverse_from cnt : forall i j, 0 <= i -> j < n -> prog_ok n sz (reverse_from cnt i j).
  Proof.
    induction cnt as [|c IH]; intros i j Hi Hj; cbn [reverse_from]; [exact I|].
    destruct (i <? j) eqn:E; bprop; [|exact I]. cbn [prog_ok]. repeat split; try lia. apply IH; lia.
  Qed.
  Lemma ok_reverse : prog_ok n sz (p_reverse n).
  Proof. apply ok_reverse_from; lia. Qed.

  Lemma ok_fold_iota (g : Z -> prog unit -> prog unit) c :
    (forall p k, 0 <= p < Z.of_nat c -> prog_ok n sz k -> prog_ok n sz (g p k)) ->
    prog_ok n sz (fold_right g (Ret tt) (iota c)).
  Proof.
    intros H. assert (G : forall l, (forall p, In p l -> 0 <= p < Z.of_nat c) -> prog_ok n sz (fold_right g (Ret tt) l)).
    { induction l as [|p l IH]; intros Hl; cbn [fold_right]; [exact I|]. apply H; [apply Hl; left; reflexivity|].
      apply IH. intros q Hq. apply Hl. right. exact Hq. }
    apply G. intros p Hp. apply In_iota. exact Hp.
  Qed.
  Lemma ok_fill x : 0 <= n -> reg sz x -> prog_ok n sz (p_fill n x).
  Proof. intros Hn Hx. apply ok_fold_iota. intros p k Hp Hk. cbn [prog_ok]. repeat split; try lia; assumption. Qed.

  Lemma ok_find_from x cnt : reg sz x -> forall i, 0 <= i -> i + Z.of_nat cnt <= n -> prog_ok n sz (find_from cnt i x).
  Proof.
    intros Hx. induction cnt as [|c IH]; intros i Hi Hn; cbn [find_from prog_ok]; [exact I|].
    repeat split; try lia; try assumption. intros [|]; [exact I|]. apply IH; lia.
  Qed.
  Lemma ok_find x : 0 <= n -> reg sz x -> prog_ok n sz (p_find n x).
  Proof. intros Hn Hx. apply ok_find_from; try assumption; lia. Qed.

  Lemma ok_sorted_from cnt : forall i, 1 <= i -> i + Z.of_nat cnt <= n -> prog_ok n sz (sorted_from cnt i).
  Proof.
    induction cnt as [|c IH]; intros i Hi Hn; cbn [sorted_from prog_ok]; [exact I|].
    repeat split; try lia. intros [|]; [exact I|]. apply IH; lia.
  Qed.
  Lemma ok_is_sorted_until : prog_ok n sz (p_is_sorted_until n).
  Proof. unfold p_is_sorted_until. destruct (n <=? 1) eqn:E; bprop; [exact I|]. apply ok_sorted_from; lia. Qed.

  Lemma ok_insert_shift x cnt : reg sz x -> forall j, 0 <= j < n -> prog_ok n sz (insert_shift cnt j x).
  Proof.
    intros Hx. induction cnt as [|c IH]; intros j Hj; cbn [insert_shift prog_ok]; [repeat split; try lia; assumption|].
    destruct (j <=? 0) eqn:E; bprop; cbn [prog_ok]; [repeat split; try lia; assumption|].
    repeat split; try lia; try assumption. intros [|]; cbn [prog_ok]; repeat split; try lia; try assumption. apply IH. lia.
  Qed.
  Lemma ok_isort_from cnt : forall i, 1 <= i -> i + Z.of_nat cnt <= n -> prog_ok n sz (isort_from cnt i).
  Proof.
    induction cnt as [|c IH]; intros i Hi Hn; cbn [isort_from prog_ok]; [exact I|].
    split; [lia|]. intros x Hx. apply ok_bind; [apply ok_insert_shift; [assumption|lia]|]. intros _. apply IH; lia.
  Qed.
  Lemma ok_sort : prog_ok n sz (p_sort n).
  Proof. unfold p_sort. destruct (n <=? 1) eqn:E; bprop; [exact I|]. apply ok_isort_from; lia. Qed.

  Lemma ok_shift_down cnt : forall i, 0 <= i -> i + Z.of_nat cnt < n -> prog_ok n sz (shift_down cnt i).
  Proof.
    induction cnt as [|c IH]; intros i Hi Hn; cbn [shift_down prog_ok]; [exact I|]. repeat split; try lia. apply IH; lia.
  Qed.
  Lemma ok_rotate1 : prog_ok n sz (p_rotate1 n).
  Proof.
    unfold p_rotate1. destruct (n <=? 1) eqn:E; bprop; [exact I|]. cbn [prog_ok]. split; [lia|]. intros x Hx.
    apply ok_bind; [apply ok_shift_down; lia|]. intros _. cbn [prog_ok]. repeat split; try lia; assumption.
  Qed.
  Lemma ok_repeat c (p : prog unit) : prog_ok n sz p -> prog_ok n sz (repeat_prog c p).
  Proof. intros Hp. induction c as [|c IH]; cbn [repeat_prog]; [exact I|]. apply ok_bind; [assumption|]. intros _. exact IH. Qed.
  Lemma ok_rotate k : prog_ok n sz (p_rotate n k).
  Proof. unfold p_rotate. apply ok_bind; [apply ok_repeat, ok_rotate1|]. intros _. exact I. Qed.

  Lemma ok_unique_from cnt : forall dest i, 0 <= dest < i -> i + Z.of_nat cnt <= n -> prog_ok n sz (unique_from cnt dest i).
  Proof.
    induction cnt as [|c IH]; intros dest i Hd Hn; cbn [unique_from prog_ok]; [exact I|].
    repeat split; try lia. intros [|]; [apply IH; lia|].
    destruct (dest + 1 =? i) eqn:E; bprop; [apply IH; lia|]. cbn [prog_ok]. repeat split; try lia. apply IH; lia.
  Qed.
  Lemma ok_unique : prog_ok n sz (p_unique n).
  Proof. unfold p_unique. destruct (n <=? 0) eqn:E; bprop; [exact I|]. apply ok_unique_from; lia. Qed.

  Lemma ok_remove_from x cnt : reg sz x -> forall dest i, 0 <= dest <= i -> i + Z.of_nat cnt <= n -> prog_ok n sz (remove_from cnt dest i x).
  Proof.
    intros Hx. induction cnt as [|c IH]; intros dest i Hd Hn; cbn [remove_from prog_ok]; [exact I|].
    repeat split; try lia; try assumption. intros [|]; [apply IH; lia|].
    destruct (dest =? i) eqn:E; bprop; [apply IH; lia|]. cbn [prog_ok]. repeat split; try lia. apply IH; lia.
  Qed.
  Lemma ok_remove x : 0 <= n -> reg sz x -> prog_ok n sz (p_remove n x).
  Proof. intros Hn Hx. apply ok_remove_from; try assumption; lia. Qed.
End Ok.

(* two-range programs live on a range of 2k positions (cat_rows) *)
Lemma ok_swap_ranges k sz : 0 <= k -> prog_ok (k + k) sz (p_swap_ranges k).
Proof. intros Hk. apply ok_fold_iota. intros p c Hp Hc. cbn [prog_ok]. repeat split; try lia; assumption. Qed.
Lemma ok_copy k sz : 0 <= k -> prog_ok (k + k) sz (p_copy k).
Proof. intros Hk. apply ok_fold_iota. intros p c Hp Hc. cbn [prog_ok]. repeat split; try lia; assumption. Qed.
Lemma ok_equal_from sz cnt : forall i k, 0 <= i -> i + Z.of_nat cnt <= k -> prog_ok (k + k) sz (equal_from cnt i k).
Proof.
  induction cnt as [|c IH]; intros i k Hi Hk; cbn [equal_from prog_ok]; [exact I|].
  repeat split; try lia. intros [|]; [|exact I]. apply IH; lia.
Qed.
Lemma ok_equal k sz : 0 <= k -> prog_ok (k + k) sz (p_equal k).
Proof. intros Hk. apply ok_equal_from; lia. Qed.

Lemma ok_script n sz : forall (is : list instr),
  Forall (fun i => match i with
                   | IRead p | ITake p => 0 <= p < n
                   | IWrite p x | ILessV p x | IVLess x p | IEqV p x => 0 <= p < n /\ reg sz x
                   | ICopy p q | IMove p q | ISwap p q | ILess p q | IEq p q => 0 <= p < n /\ 0 <= q < n
                   end) is -> prog_ok n sz (script is).
Proof.
  induction 1 as [|i is Hi _ IH]; cbn [script]; [exact I|].
  destruct i; cbn [prog_ok]; repeat split; try tauto; intros; apply ok_pmap; exact IH.
Qed.

Theorem C03_algorithms_in_range_proved :
  forall (n : Z) (sz : list Z) (x : value) (k : Z), 0 <= n -> reg sz x ->
     prog_ok n sz (p_sort n) /\ prog_ok n sz (p_reverse n) /\ prog_ok n sz (p_rotate n k) /\ prog_ok n sz (p_unique n)
  /\ prog_ok n sz (p_remove n x) /\ prog_ok n sz (p_fill n x) /\ prog_ok n sz (p_find n x) /\ prog_ok n sz (p_is_sorted_until n)
  /\ prog_ok (n + n) sz (p_swap_ranges n) /\ prog_ok (n + n) sz (p_copy n) /\ prog_ok (n + n) sz (p_equal n).
Proof.
  intros n sz x k Hn Hx.
  split; [apply ok_sort|]. split; [apply ok_reverse|]. split; [apply ok_rotate|]. split; [apply ok_unique|].
  split; [apply ok_remove; assumption|]. split; [apply ok_fill; assumption|]. split; [apply ok_find; assumption|].
  split; [apply ok_is_sorted_until|]. split; [apply ok_swap_ranges; assumption|]. split; [apply ok_copy; assumption|].
  apply ok_equal; assumption.
Qed.

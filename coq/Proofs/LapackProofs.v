(* Structural lemmas about the LAPACK marshalling model (Model/Lapack.v): legality of every call,
   which matrix LAPACK sees, which triangle, which addresses are designated, which view is returned,
   and the workspace protocol.  No values are involved here. *)
From BM Require Import Base.Tactics Model.Lapack.
Local Open Scope Z_scope.

(* ------------------------------------------------------------------------------------------ *)
(* iterators                                                                                    *)
(* ------------------------------------------------------------------------------------------ *)
Lemma quot_mul_cancel : forall b k s, s <> 0 -> Z.quot (b + k * s - b) s = k.
Proof. intros b k s Hs. replace (b + k * s - b) with (k * s) by ring. apply Z.quot_mul; exact Hs. Qed.

Lemma distance_begin_end : forall v, m_s0 v <> 0 -> it_distance (m_begin v) (m_end v) = m_n0 v.
Proof. intros v H. unfold it_distance, m_begin, m_end. cbn [it_ptr it_stride]. apply quot_mul_cancel; exact H. Qed.

Lemma distance_begin_ret : forall v info, m_s0 v <> 0 ->
  it_distance (m_begin v) (potrf_it_ret (m_begin v) (m_end v) info) = potrf_order (m_n0 v) info.
Proof.
  intros v info H. unfold potrf_it_ret, potrf_order.
  destruct (info =? 0) eqn:E.
  - apply distance_begin_end; exact H.
  - unfold it_distance, it_plus, m_begin. cbn [it_ptr it_stride it_inner].
    replace (m_base v + info * m_s0 v + -1 * m_s0 v - m_base v) with ((info - 1) * m_s0 v) by ring.
    apply Z.quot_mul; exact H.
Qed.

(* ------------------------------------------------------------------------------------------ *)
(* views of the property's quantifier satisfy the domains                                       *)
(* ------------------------------------------------------------------------------------------ *)
(* a square block of a contiguous row-major array with C columns, as is or transposed *)
Lemma operand_potrf_dom : forall C r0 c0 n t, 0 <= n -> 0 <= c0 -> c0 + n <= C -> 1 <= C ->
  potrf_dom (mk_operand C r0 c0 n n t) = true.
Proof.
  intros C r0 c0 n t Hn Hc Hfit HC. unfold potrf_dom, mk_operand, root_block, m_rotated.
  destruct t; cbn [m_n0 m_n1 m_s0 m_s1 m_base].
  - (* transposed: strides (1, C) *)
    replace (n =? n) with true by (symmetry; apply Z.eqb_refl).
    replace (0 <=? n) with true by (symmetry; apply Z.leb_le; lia).
    replace (1 =? 1) with true by reflexivity.
    replace (Z.max 1 n <=? C) with true by (symmetry; apply Z.leb_le; lia).
    reflexivity.
  - replace (n =? n) with true by (symmetry; apply Z.eqb_refl).
    replace (0 <=? n) with true by (symmetry; apply Z.leb_le; lia).
    replace (1 =? 1) with true by reflexivity.
    replace (Z.max 1 n <=? C) with true by (symmetry; apply Z.leb_le; lia).
    cbn. apply orb_true_r.
Qed.

(* ------------------------------------------------------------------------------------------ *)
(* potrf                                                                                        *)
(* ------------------------------------------------------------------------------------------ *)
Section Potrf.
  Variable uplo : filling.
  Variable v : mat.
  Hypothesis Hdom : potrf_dom v = true.

  Let c := potrf_call_of uplo v.

  Lemma potrf_dom_facts :
    0 <= m_n0 v /\ m_n1 v = m_n0 v /\
    ((m_s0 v = 1 /\ Z.max 1 (m_n0 v) <= m_s1 v) \/ (m_s0 v <> 1 /\ m_s1 v = 1 /\ Z.max 1 (m_n0 v) <= m_s0 v)).
  Proof.
    pose proof Hdom as H. unfold potrf_dom in H. lia.
  Qed.

  Lemma potrf_asrt_holds : potrf_asrt v = true.
  Proof.
    destruct potrf_dom_facts as (Hn & Hsq & [[Hs0 Hs1]|[Hs0 [Hs1 Hld]]]);
      unfold potrf_asrt, potrf_colbranch, potrf_it_asrt, m_begin, m_end, m_rotated;
      cbn [it_stride it_inner m_s0 m_s1 m_n0 m_n1 m_base].
    - rewrite Hs0. cbn. rewrite Z.eqb_refl. reflexivity.
    - replace (m_s0 v =? 1) with false by (symmetry; apply Z.eqb_neq; exact Hs0).
      rewrite Z.eqb_refl, Hs1. reflexivity.
  Qed.

  (* what the call is, branch by branch *)
  Lemma potrf_call_col : m_s0 v = 1 ->
    c = mkpc (filling_char (flip uplo)) (m_n0 v) (m_base v) (m_s1 v).
  Proof.
    intros Hs0. destruct potrf_dom_facts as (Hn & Hsq & [[_ Hs1]|[Hs0' _]]); [|contradiction].
    unfold c, potrf_call_of, potrf_colbranch. rewrite Hs0. cbn [Z.eqb Pos.eqb].
    unfold potrf_it_call. f_equal.
    rewrite distance_begin_end; cbn [m_rotated m_s0 m_n0]; lia.
  Qed.

  Lemma potrf_call_row : m_s0 v <> 1 ->
    c = mkpc (filling_char uplo) (m_n0 v) (m_base v) (m_s0 v).
  Proof.
    intros Hs0. destruct potrf_dom_facts as (Hn & Hsq & [[Hs0' _]|[_ [Hs1 Hld]]]); [contradiction|].
    unfold c, potrf_call_of, potrf_colbranch.
    replace (m_s0 v =? 1) with false by (symmetry; apply Z.eqb_neq; exact Hs0).
    unfold potrf_it_call. f_equal.
    rewrite distance_begin_end; lia.
  Qed.

  Lemma potrf_call_legal : potrf_legal c = true /\ pc_n c = m_n0 v.
  Proof.
    destruct potrf_dom_facts as (Hn & Hsq & [[Hs0 Hs1]|[Hs0 [Hs1 Hld]]]).
    - rewrite (potrf_call_col Hs0). unfold potrf_legal. cbn [pc_n pc_lda]. split; [bsolve|reflexivity].
    - rewrite (potrf_call_row Hs0). unfold potrf_legal. cbn [pc_n pc_lda]. split; [bsolve|reflexivity].
  Qed.

  (* the column-major matrix LAPACK sees is the view's matrix (column-major branch) or its
     transpose (row-major branch) *)
  Lemma potrf_matrix_seen : forall i j,
    pc_a c + i + j * pc_lda c = if potrf_colbranch v then maddr v i j else maddr v j i.
  Proof.
    intros i j. destruct potrf_dom_facts as (Hn & Hsq & [[Hs0 Hs1]|[Hs0 [Hs1 Hld]]]).
    - rewrite (potrf_call_col Hs0). unfold potrf_colbranch, maddr. rewrite Hs0. cbn [Z.eqb Pos.eqb pc_a pc_lda]. ring.
    - rewrite (potrf_call_row Hs0). unfold potrf_colbranch, maddr.
      replace (m_s0 v =? 1) with false by (symmetry; apply Z.eqb_neq; exact Hs0).
      cbn [pc_a pc_lda]. rewrite Hs1. ring.
  Qed.

  (* the triangle flag is the filling's character, flipped exactly in the column-major branch ... *)
  Lemma potrf_flag :
    pc_uplo c = if potrf_colbranch v then filling_char (flip uplo) else filling_char uplo.
  Proof.
    destruct potrf_dom_facts as (Hn & Hsq & [[Hs0 Hs1]|[Hs0 [Hs1 Hld]]]).
    - rewrite (potrf_call_col Hs0). unfold potrf_colbranch. rewrite Hs0. reflexivity.
    - rewrite (potrf_call_row Hs0). unfold potrf_colbranch.
      replace (m_s0 v =? 1) with false by (symmetry; apply Z.eqb_neq; exact Hs0). reflexivity.
  Qed.

  (* ... so that the positions LAPACK's triangle designates are the view's selected triangle *)
  Lemma potrf_triangle : forall i j,
    ftri (pc_uplo c) i j = if potrf_colbranch v then vtri uplo i j else vtri uplo j i.
  Proof.
    intros i j. rewrite potrf_flag. destruct (potrf_colbranch v); destruct uplo; reflexivity.
  Qed.

  Lemma potrf_footprint : forall p,
    in_coltri (pc_uplo c) (pc_a c) (pc_lda c) (pc_n c) p <-> in_mattri uplo v p.
  Proof.
    intros p. destruct potrf_call_legal as [_ Hn]. destruct potrf_dom_facts as (_ & Hsq & _).
    unfold in_coltri, in_mattri. rewrite Hn, Hsq.
    split; intros (i & j & Hi & Hj & Ht & Hp).
    - rewrite potrf_triangle in Ht. rewrite potrf_matrix_seen in Hp.
      destruct (potrf_colbranch v).
      + exists i, j. auto.
      + exists j, i. auto.
    - destruct (potrf_colbranch v) eqn:B.
      + exists i, j. rewrite potrf_triangle, potrf_matrix_seen, B. auto.
      + exists j, i. rewrite potrf_triangle, potrf_matrix_seen, B. auto.
  Qed.

  Lemma in_mattri_in_mat : forall p, in_mattri uplo v p -> in_mat v p.
  Proof. intros p (i & j & Hi & Hj & _ & Hp). exists i, j. auto. Qed.

  (* nothing outside the view's footprint is designated *)
  Lemma potrf_designates_inside : forall p,
    in_coltri (pc_uplo c) (pc_a c) (pc_lda c) (pc_n c) p -> in_mat v p.
  Proof. intros p H. apply in_mattri_in_mat. apply potrf_footprint. exact H. Qed.

  (* the returned view: the leading k x k block, in both branches *)
  Lemma potrf_ret_spec : forall info,
    potrf_ret v info = let k := potrf_order (m_n0 v) info in m_block v k k.
  Proof.
    intros info. destruct potrf_dom_facts as (Hn & Hsq & [[Hs0 Hs1]|[Hs0 [Hs1 Hld]]]).
    - unfold potrf_ret, potrf_colbranch. rewrite Hs0. cbn [Z.eqb Pos.eqb].
      rewrite distance_begin_ret by (cbn [m_rotated m_s0]; lia).
      cbn [m_rotated m_n0]. rewrite Hsq. reflexivity.
    - unfold potrf_ret, potrf_colbranch.
      replace (m_s0 v =? 1) with false by (symmetry; apply Z.eqb_neq; exact Hs0).
      rewrite distance_begin_ret by lia. reflexivity.
  Qed.

  Lemma potrf_ret_rows : forall info, m_n0 (potrf_ret v info) = potrf_order (m_n0 v) info.
  Proof. intros info. rewrite potrf_ret_spec. reflexivity. Qed.
End Potrf.

(* the returned view is the leading k x k block of the view, k = n or info - 1, at the same place
   (same base, same strides), for every accepted view and every info *)
Lemma potrf_leading_block :
  forall v info, potrf_dom v = true ->
    let k := potrf_order (m_n0 v) info in
       potrf_ret v info = m_block v k k
    /\ m_base (potrf_ret v info) = m_base v /\ m_s0 (potrf_ret v info) = m_s0 v /\ m_s1 (potrf_ret v info) = m_s1 v
    /\ m_n0 (potrf_ret v info) = k /\ m_n1 (potrf_ret v info) = k.
Proof.
  intros v info Hdom k. pose proof (potrf_ret_spec v Hdom info) as R. cbv zeta in R. fold k in R.
  rewrite R. repeat split; reflexivity.
Qed.

(* ------------------------------------------------------------------------------------------ *)
(* workspace protocol (geqrf, gesvd)                                                            *)
(* ------------------------------------------------------------------------------------------ *)
Section Workspace.
  Context {call : Type}.
  Variable work_of : call -> workp.
  Variable lwork_of : call -> Z.

  (* a trace is well-formed from a given list of outstanding blocks when: a call that uses the
     allocated workspace happens only while exactly one block of its lwork is outstanding, a query
     call (local workspace, lwork = -1) needs none, every deallocation returns the outstanding
     block with its size, a throw is the last event, and nothing is outstanding at the end *)
  Fixpoint ws_ok (out : list Z) (t : list (event call)) : bool :=
    match t with
    | [] => match out with [] => true | _ => false end
    | EvCall c :: t' =>
        (match work_of c with
         | WLocal => lwork_of c =? -1
         | WAlloc => match out with [n] => lwork_of c =? n | _ => false end
         end) && ws_ok out t'
    | EvAlloc n :: t' => match out with [] => ws_ok [n] t' | _ => false end
    | EvDealloc n :: t' => match out with [k] => (n =? k) && ws_ok [] t' | _ => false end
    | EvThrow :: t' => match t', out with [], [] => true | _, _ => false end
    end.

  Fixpoint calls_of (t : list (event call)) : list call :=
    match t with [] => [] | EvCall c :: t' => c :: calls_of t' | _ :: t' => calls_of t' end.
  Fixpoint allocs_of (t : list (event call)) : list Z :=
    match t with [] => [] | EvAlloc n :: t' => n :: allocs_of t' | _ :: t' => allocs_of t' end.
  Definition throws (t : list (event call)) : bool := existsb (fun e => match e with EvThrow => true | _ => false end) t.

  Variable mk : workp -> Z -> call.
  Hypothesis mk_work : forall w l, work_of (mk w l) = w.
  Hypothesis mk_lwork : forall w l, lwork_of (mk w l) = l.

  Lemma ws_trace_ok : forall qinfo lwork rinfo, ws_ok [] (ws_trace mk qinfo lwork rinfo) = true.
  Proof.
    intros. unfold ws_trace. destruct (qinfo =? 0); destruct (rinfo =? 0);
      cbn [ws_ok]; rewrite ?mk_work, ?mk_lwork, ?Z.eqb_refl; reflexivity.
  Qed.

  Lemma ws_trace_calls : forall qinfo lwork rinfo,
    calls_of (ws_trace mk qinfo lwork rinfo) =
      if qinfo =? 0 then [mk WLocal (-1); mk WAlloc lwork] else [mk WLocal (-1)].
  Proof. intros. unfold ws_trace. destruct (qinfo =? 0); destruct (rinfo =? 0); reflexivity. Qed.

  Lemma ws_trace_allocs : forall qinfo lwork rinfo,
    allocs_of (ws_trace mk qinfo lwork rinfo) = if qinfo =? 0 then [lwork] else [].
  Proof. intros. unfold ws_trace. destruct (qinfo =? 0); destruct (rinfo =? 0); reflexivity. Qed.

  Lemma ws_trace_throws : forall qinfo lwork rinfo,
    throws (ws_trace mk qinfo lwork rinfo) = negb ((qinfo =? 0) && (rinfo =? 0)).
  Proof. intros. unfold ws_trace, throws. destruct (qinfo =? 0); destruct (rinfo =? 0); reflexivity. Qed.
End Workspace.

(* ------------------------------------------------------------------------------------------ *)
(* geqrf                                                                                        *)
(* ------------------------------------------------------------------------------------------ *)
Section Geqrf.
  Variable aa : mat.
  Variable tau : vec.
  Hypothesis Hdom : geqrf_dom aa tau = true.

  Lemma geqrf_dom_facts :
    vc_n tau = Z.min (m_n1 aa) (m_n0 aa) /\ 0 <= m_n0 aa /\ 0 <= m_n1 aa /\ m_s1 aa = 1 /\
    Z.max 1 (m_n1 aa) <= m_s0 aa /\ vc_s tau = 1.
  Proof. pose proof Hdom as H. unfold geqrf_dom, geqrf_asrt in H. cbn [m_rotated m_n0 m_s0] in H. lia. Qed.

  Lemma geqrf_call_legal : forall w lwork, (lwork = -1 \/ Z.max 1 (m_n0 aa) <= lwork) ->
    geqrf_legal (geqrf_mk aa tau w lwork) = true.
  Proof.
    intros w lwork Hl. destruct geqrf_dom_facts as (Ht & Hn0 & Hn1 & Hs1 & Hld & Hts).
    unfold geqrf_legal, geqrf_mk. cbn [gq_m gq_n gq_lda gq_lwork m_rotated m_n0].
    apply andb_true_intro; split; [bsolve|].
    apply orb_true_iff. destruct Hl as [Hl|Hl]; [left|right]; bsolve.
  Qed.

  (* LAPACK sees the transpose of the view's matrix: M = columns of aa, N = rows of aa *)
  Lemma geqrf_matrix_seen : forall w lwork i j,
    let c := geqrf_mk aa tau w lwork in
    gq_m c = m_n1 aa /\ gq_n c = m_n0 aa /\ gq_a c + i + j * gq_lda c = maddr aa j i.
  Proof.
    intros w lwork i j. destruct geqrf_dom_facts as (Ht & Hn0 & Hn1 & Hs1 & Hld & Hts).
    cbn. unfold maddr. rewrite Hs1. repeat split; ring.
  Qed.

  Lemma geqrf_footprint_a : forall w lwork p,
    let c := geqrf_mk aa tau w lwork in
    in_colmajor (gq_a c) (gq_lda c) (gq_m c) (gq_n c) p <-> in_mat aa p.
  Proof.
    intros w lwork p c. destruct geqrf_dom_facts as (Ht & Hn0 & Hn1 & Hs1 & Hld & Hts).
    unfold in_colmajor, in_mat. subst c. cbn [geqrf_mk gq_a gq_lda gq_m gq_n m_rotated m_n0].
    split; intros (i & j & Hi & Hj & Hp); exists j, i; repeat split; try lia;
      rewrite Hp; unfold maddr; rewrite Hs1; ring.
  Qed.

  Lemma geqrf_footprint_tau : forall w lwork p,
    let c := geqrf_mk aa tau w lwork in
    in_run (gq_tau c) (Z.min (gq_m c) (gq_n c)) p <-> in_vec tau p.
  Proof.
    intros w lwork p c. destruct geqrf_dom_facts as (Ht & Hn0 & Hn1 & Hs1 & Hld & Hts).
    unfold in_run, in_vec, vaddr. subst c. cbn [geqrf_mk gq_tau gq_m gq_n m_rotated m_n0].
    rewrite Hts, Ht. split.
    - intros H. exists (p - vc_base tau). lia.
    - intros (i & Hi & Hp). lia.
  Qed.
End Geqrf.

(* ------------------------------------------------------------------------------------------ *)
(* geqrf: the checks the code evaluates (:40-42) together with DGEQRF's own argument checks are  *)
(* sufficient: whatever passes them is in the documented domain and designates only the view     *)
(* ------------------------------------------------------------------------------------------ *)
Lemma geqrf_checks_suffice :
  forall aa tau w lwork,
    geqrf_asrt aa tau = true -> 0 <= m_n0 aa -> 0 <= m_n1 aa ->
    let c := geqrf_mk aa tau w lwork in
    geqrf_legal c = true ->
       geqrf_dom aa tau = true
    /\ (forall p, in_colmajor (gq_a c) (gq_lda c) (gq_m c) (gq_n c) p <-> in_mat aa p)
    /\ (forall p, in_run (gq_tau c) (Z.min (gq_m c) (gq_n c)) p <-> in_vec tau p).
Proof.
  intros aa tau w lwork Ha Hn0 Hn1 c Hlegal.
  assert (Hdom : geqrf_dom aa tau = true).
  { unfold geqrf_dom. subst c. unfold geqrf_legal, geqrf_mk in Hlegal.
    cbn [gq_m gq_n gq_lda gq_lwork m_rotated m_n0] in Hlegal. rewrite Ha. lia. }
  split; [exact Hdom|]. split.
  - intros p. apply (geqrf_footprint_a aa tau Hdom w lwork p).
  - intros p. apply (geqrf_footprint_tau aa tau Hdom w lwork p).
Qed.

(* ------------------------------------------------------------------------------------------ *)
(* blocks of row-major arrays (the views of the property's quantifier) are in the domains       *)
(* ------------------------------------------------------------------------------------------ *)
Lemma operand_geqrf_dom : forall C r0 c0 nr nc off, 0 <= nr -> 0 <= nc -> 0 <= c0 -> c0 + nc <= C -> 1 <= C ->
  geqrf_dom (root_block C r0 c0 nr nc) (mkvec off 1 (Z.min nc nr)) = true.
Proof.
  intros. unfold geqrf_dom, geqrf_asrt, root_block. cbn [m_rotated m_n0 m_n1 m_s0 m_s1 vc_n vc_s]. lia.
Qed.

Lemma operand_gesvd_dom : forall CA ra ca CU ru cu CV rv cv r c off,
  0 <= r -> 0 <= c -> 0 <= ca -> ca + c <= CA -> 1 <= CA -> 0 <= cu -> cu + r <= CU -> 1 <= CU ->
  0 <= cv -> cv + c <= CV -> 1 <= CV ->
  gesvd_dom (root_block CA ra ca r c) (root_block CU ru cu r r) (mkvec off 1 (Z.min r c)) (root_block CV rv cv c c) = true.
Proof.
  intros. unfold gesvd_dom, gesvd_asrt, root_block. cbn [m_rotated m_n0 m_n1 m_s0 m_s1 vc_n vc_s]. lia.
Qed.

Lemma operand_syev_dom : forall C r0 c0 n t woff koff kn, 0 <= n -> 0 <= c0 -> c0 + n <= C -> 1 <= C ->
  Z.max 1 (3 * n - 1) <= kn ->
  syev_dom (mk_operand C r0 c0 n n t) (mkvec woff 1 n) (mkvec koff 1 kn) = true.
Proof.
  intros. unfold syev_dom, syev_asrt, mk_operand, root_block, m_rotated.
  destruct t; cbn [m_n0 m_n1 m_s0 m_s1 vc_n vc_s]; lia.
Qed.

(* ------------------------------------------------------------------------------------------ *)
(* gesvd                                                                                        *)
(* ------------------------------------------------------------------------------------------ *)
Section Gesvd.
  Variables aa uu vv : mat.
  Variable ss : vec.
  Hypothesis Hdom : gesvd_dom aa uu ss vv = true.

  Lemma gesvd_dom_facts :
    m_n0 uu = m_n0 aa /\ m_n1 uu = m_n0 aa /\ m_n0 vv = m_n1 aa /\ m_n1 vv = m_n1 aa /\
    vc_n ss = Z.min (m_n0 aa) (m_n1 aa) /\ vc_s ss = 1 /\
    m_s1 aa = 1 /\ m_s1 uu = 1 /\ m_s1 vv = 1 /\ 0 <= m_n0 aa /\ 0 <= m_n1 aa /\
    Z.max 1 (m_n1 aa) <= m_s0 aa /\ Z.max 1 (m_n0 aa) <= m_s0 uu /\ Z.max 1 (m_n1 aa) <= m_s0 vv.
  Proof.
    pose proof Hdom as H. unfold gesvd_dom, gesvd_asrt in H. cbn [m_rotated m_n0 m_s0] in H. lia.
  Qed.

  Lemma gesvd_call_legal : forall w lwork,
    (lwork = -1 \/ gesvd_minwork (m_n1 aa) (m_n0 aa) <= lwork) ->
    gesvd_legal (gesvd_mk aa uu ss vv w lwork) = true.
  Proof.
    intros w lwork Hl.
    destruct gesvd_dom_facts as (Hu0 & Hu1 & Hv0 & Hv1 & Hsn & Hss & Ha1 & Hus & Hvs & Hr & Hc & Hla & Hlu & Hlv).
    unfold gesvd_legal, gesvd_mk. cbn [gs_jobu_all gs_jobvt_all gs_m gs_n gs_lda gs_ldu gs_ldvt gs_lwork].
    rewrite Hu0, Hv0.
    apply andb_true_intro; split; [cbn [andb]; bsolve|].
    apply orb_true_iff. destruct Hl as [Hl|Hl]; [left|right]; bsolve.
  Qed.

  (* A_f = AA^T (M = columns of AA, N = rows of AA), U_f = VV^T, VT_f = UU^T, S = ss *)
  Lemma gesvd_matrices_seen : forall w lwork,
    let c := gesvd_mk aa uu ss vv w lwork in
       gs_m c = m_n1 aa /\ gs_n c = m_n0 aa
    /\ (forall i j, gs_a c + i + j * gs_lda c = maddr aa j i)
    /\ (forall i j, gs_u c + i + j * gs_ldu c = maddr vv j i)
    /\ (forall i j, gs_vt c + i + j * gs_ldvt c = maddr uu j i)
    /\ (forall l, gs_s c + l = vaddr ss l).
  Proof.
    intros w lwork.
    destruct gesvd_dom_facts as (Hu0 & Hu1 & Hv0 & Hv1 & Hsn & Hss & Ha1 & Hus & Hvs & Hr & Hc & Hla & Hlu & Hlv).
    cbn. unfold maddr, vaddr. rewrite Ha1, Hus, Hvs, Hss. repeat split; try lia; intros; ring.
  Qed.

  Lemma gesvd_footprints : forall w lwork p,
    let c := gesvd_mk aa uu ss vv w lwork in
       (in_colmajor (gs_a c) (gs_lda c) (gs_m c) (gs_n c) p <-> in_mat aa p)
    /\ (in_colmajor (gs_u c) (gs_ldu c) (gs_m c) (gs_m c) p <-> in_mat vv p)
    /\ (in_colmajor (gs_vt c) (gs_ldvt c) (gs_n c) (gs_n c) p <-> in_mat uu p)
    /\ (in_run (gs_s c) (Z.min (gs_m c) (gs_n c)) p <-> in_vec ss p).
  Proof.
    intros w lwork p c.
    destruct gesvd_dom_facts as (Hu0 & Hu1 & Hv0 & Hv1 & Hsn & Hss & Ha1 & Hus & Hvs & Hr & Hc & Hla & Hlu & Hlv).
    unfold in_colmajor, in_mat, in_run, in_vec, vaddr. subst c.
    cbn [gesvd_mk gs_a gs_lda gs_m gs_n gs_u gs_ldu gs_vt gs_ldvt gs_s].
    rewrite Hu0, Hv0, Hu1, Hv1, Hsn, Hss.
    split; [|split; [|split]].
    - split; intros (i & j & Hi & Hj & Hp); exists j, i; repeat split; try lia;
        rewrite Hp; unfold maddr; rewrite Ha1; ring.
    - split; intros (i & j & Hi & Hj & Hp); exists j, i; repeat split; try lia;
        rewrite Hp; unfold maddr; rewrite Hvs; ring.
    - split; intros (i & j & Hi & Hj & Hp); exists j, i; repeat split; try lia;
        rewrite Hp; unfold maddr; rewrite Hus; ring.
    - split.
      + intros H. exists (p - vc_base ss). lia.
      + intros (i & Hi & Hp). lia.
  Qed.
End Gesvd.

(* the by-value form gesvd(AA) builds operands that are in the domain *)
Lemma gesvd_value_operands_dom : forall r c, 1 <= r -> 1 <= c ->
  let '(aa, uu, ss, vv) := gesvd_value_operands r c in gesvd_dom aa uu ss vv = true.
Proof.
  intros r c Hr Hc. unfold gesvd_value_operands, gesvd_dom, gesvd_asrt, root_stride.
  replace (c =? 0) with false by (symmetry; apply Z.eqb_neq; lia).
  replace (r =? 0) with false by (symmetry; apply Z.eqb_neq; lia).
  cbn [m_rotated m_n0 m_n1 m_s0 m_s1 vc_n vc_s].
  rewrite !Z.eqb_refl. cbn [andb].
  repeat (apply andb_true_intro; split); bsolve.
Qed.

(* ------------------------------------------------------------------------------------------ *)
(* syev                                                                                         *)
(* ------------------------------------------------------------------------------------------ *)
Section Syev.
  Variable uplo : filling.
  Variable a : mat.
  Variables w work : vec.
  Hypothesis Hdom : syev_dom a w work = true.

  Lemma syev_dom_facts :
    Z.max 1 (3 * m_n0 a - 1) <= vc_n work /\ vc_n w = m_n0 a /\ vc_s w = 1 /\ vc_s work = 1 /\
    0 <= m_n0 a /\ m_n1 a = m_n0 a /\
    ((m_s1 a = 1 /\ Z.max 1 (m_n0 a) <= m_s0 a) \/ (m_s1 a <> 1 /\ m_s0 a = 1 /\ Z.max 1 (m_n0 a) <= m_s1 a)).
  Proof.
    pose proof Hdom as H. unfold syev_dom, syev_asrt in H. lia.
  Qed.

  Lemma syev_step_spec :
    syev_step_of uplo a w work =
      if m_n0 a =? 0 then SyNoCall
      else if m_s1 a =? 1
      then SyCall (mksy true (filling_char uplo) (m_n0 a) (m_base a) (m_s0 a) (vc_base w) (vc_base work) (vc_n work))
      else SyCall (mksy true (filling_char (flip uplo)) (m_n0 a) (m_base a) (m_s1 a) (vc_base w) (vc_base work) (vc_n work)).
  Proof.
    destruct syev_dom_facts as (Hw & Hwn & Hws & Hks & Hn & Hsq & [[Hs1 Hld]|[Hs1 [Hs0 Hld]]]);
      unfold syev_step_of, syev_rowbranch; cbn [m_rotated m_s0].
    - rewrite Hs1. cbn [Z.eqb Pos.eqb]. destruct (m_n0 a =? 0); [reflexivity|]. destruct uplo; reflexivity.
    - replace (m_s1 a =? 1) with false by (symmetry; apply Z.eqb_neq; exact Hs1).
      rewrite Hs0. cbn [Z.eqb Pos.eqb]. destruct (m_n0 a =? 0); [reflexivity|]. destruct uplo; reflexivity.
  Qed.

  (* no assertion of the code fails on the domain, and the call (when there is one) is legal *)
  Lemma syev_call_legal :
    syev_asrt a w work = true /\
    match syev_step_of uplo a w work with
    | SyNoCall => m_n0 a = 0
    | SyAssertFails => False
    | SyCall c => syev_legal c = true /\ sy_n c = m_n0 a /\ 0 < m_n0 a
    end.
  Proof.
    split; [pose proof Hdom as H; unfold syev_dom in H; unfold syev_asrt in *; lia|].
    destruct syev_dom_facts as (Hw & Hwn & Hws & Hks & Hn & Hsq & Hor).
    rewrite syev_step_spec.
    destruct (m_n0 a =? 0) eqn:E0; [bprop; exact E0|]. bprop.
    destruct Hor as [[Hs1 Hld]|[Hs1 [Hs0 Hld]]].
    - rewrite Hs1. cbn [Z.eqb Pos.eqb]. unfold syev_legal. cbn [sy_jobz_v sy_n sy_lda sy_lwork andb].
      repeat split; try lia; bsolve.
    - replace (m_s1 a =? 1) with false by (symmetry; apply Z.eqb_neq; exact Hs1).
      unfold syev_legal. cbn [sy_jobz_v sy_n sy_lda sy_lwork andb].
      repeat split; try lia; bsolve.
  Qed.

  (* matrix seen, triangle, footprint: transpose + same character in the row-major branch,
     the matrix itself + ... the character of the other filling in the column-major branch *)
  Lemma syev_matrix_seen : forall c, syev_step_of uplo a w work = SyCall c ->
    forall i j, sy_a c + i + j * sy_lda c = if syev_rowbranch a then maddr a j i else maddr a i j.
  Proof.
    intros c Hc i j. rewrite syev_step_spec in Hc.
    destruct syev_dom_facts as (Hw & Hwn & Hws & Hks & Hn & Hsq & Hor).
    unfold syev_rowbranch. cbn [m_rotated m_s0].
    destruct (m_n0 a =? 0); [discriminate|].
    destruct Hor as [[Hs1 Hld]|[Hs1 [Hs0 Hld]]].
    - rewrite Hs1 in *. cbn [Z.eqb Pos.eqb] in *. inv Hc. cbn [sy_a sy_lda]. unfold maddr. rewrite Hs1. ring.
    - replace (m_s1 a =? 1) with false in * by (symmetry; apply Z.eqb_neq; exact Hs1).
      inv Hc. cbn [sy_a sy_lda]. unfold maddr. rewrite Hs0. ring.
  Qed.

  Lemma syev_triangle : forall c, syev_step_of uplo a w work = SyCall c ->
    forall i j, ftri (sy_uplo c) i j = if syev_rowbranch a then vtri uplo j i else vtri uplo i j.
  Proof.
    intros c Hc i j. rewrite syev_step_spec in Hc.
    unfold syev_rowbranch. cbn [m_rotated m_s0].
    destruct (m_n0 a =? 0); [discriminate|].
    destruct (m_s1 a =? 1); inv Hc; cbn [sy_uplo]; destruct uplo; reflexivity.
  Qed.

  Lemma syev_footprint : forall c, syev_step_of uplo a w work = SyCall c -> forall p,
       (in_colmajor (sy_a c) (sy_lda c) (sy_n c) (sy_n c) p <-> in_mat a p)
    /\ (in_run (sy_w c) (sy_n c) p <-> in_vec w p)
    /\ (in_run (sy_work c) (sy_lwork c) p <-> in_vec work p).
  Proof.
    intros c Hc p. pose proof (syev_matrix_seen c Hc) as Hseen.
    destruct syev_dom_facts as (Hw & Hwn & Hws & Hks & Hn & Hsq & Hor).
    assert (Hcn : sy_n c = m_n0 a /\ sy_w c = vc_base w /\ sy_work c = vc_base work /\ sy_lwork c = vc_n work).
    { rewrite syev_step_spec in Hc. destruct (m_n0 a =? 0); [discriminate|].
      destruct (m_s1 a =? 1); inv Hc; cbn; auto. }
    destruct Hcn as (Hcn & Hcw & Hck & Hcl).
    unfold in_colmajor, in_mat, in_run, in_vec, vaddr. rewrite Hcn, Hcw, Hck, Hcl, Hsq, Hws, Hks, Hwn.
    split; [|split].
    - split; intros (i & j & Hi & Hj & Hp).
      + rewrite Hseen in Hp. destruct (syev_rowbranch a); [exists j, i|exists i, j]; auto.
      + destruct (syev_rowbranch a) eqn:B; [exists j, i|exists i, j]; rewrite Hseen; auto.
    - split; [intros H; exists (p - vc_base w); lia | intros (i & Hi & Hp); lia].
    - split; [intros H; exists (p - vc_base work); lia | intros (i & Hi & Hp); lia].
  Qed.

  (* returned view: the leading (n - info) x (n - info) block, at the same place *)
  Lemma syev_ret_spec : forall info,
    syev_ret a info = if m_n0 a =? 0 then a else m_block a (m_n0 a - info) (m_n0 a - info).
  Proof. reflexivity. Qed.
End Syev.

(* the three-argument form's own workspace is large enough *)
Lemma syev_work_size_ok : forall n, Z.max 1 (3 * n - 1) <= syev_work_size n.
Proof. intros. unfold syev_work_size. lia. Qed.

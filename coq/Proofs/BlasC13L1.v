(* C13 -- dot: the routine selected by conjugation computes sum_i x_i * y_i of the logical contents, for every length
   and increments, except that nothing is stored for empty real / unconjugated vectors (refuted below). *)
From BM Require Import Base.Tactics Model.BlasC13 Model.BlasC13Ref Model.BlasC13L1 Proofs.BlasC13RefProofs.
Local Open Scope Z_scope.

Section Carrier.
  Variable R : Type.
  Variable rzero : R.
  Variables radd rmul : R -> R -> R.
  Variable cj : R -> R.
  Hypothesis rmul_comm : forall x y, rmul x y = rmul y x.

  Theorem dot_selection_correct (e : etype) (x y : vec) (c : dot_call) (mem : Z -> R) :
    len y = len x ->
    (is_complex_et e = false -> vconj x = false /\ vconj y = false) ->
    dot_n_model e x y = Some c ->
    (d_routine c = DViaGemv -> 0 < len x) ->
    dot_ref R rzero radd rmul cj c mem = Some (dot_math R rzero radd rmul cj x y mem).
  Proof.
    intros Hlen Hreal D Hne. unfold dot_n_model in D.
    destruct (is_complex_et e) eqn:Ec; cbn [negb] in D.
    - destruct (vconj x) eqn:Cx, (vconj y) eqn:Cy; try discriminate D; inversion D; subst c; clear D;
        unfold dot_ref, dot_math; cbn [d_routine d_n d_p1 d_inc1 d_p2 d_inc2] in *.
      + f_equal. apply (zsum_ext R rzero radd rmul cj). intros l Hl.
        unfold vval, vaddr. rewrite Cx, Cy. reflexivity.
      + f_equal. apply (zsum_ext R rzero radd rmul cj). intros l Hl.
        unfold vval, vaddr. rewrite Cx, Cy. cbn [cjif]. apply rmul_comm.
      + specialize (Hne eq_refl). replace (len x =? 0) with false by (symmetry; lia).
        f_equal. apply (zsum_ext R rzero radd rmul cj). intros l Hl.
        unfold vval, vaddr. rewrite Cx, Cy. reflexivity.
    - destruct (Hreal eq_refl) as [Cx Cy]. inversion D; subst c; clear D.
      unfold dot_ref, dot_math; destruct e; try discriminate Ec; cbn [d_routine d_n d_p1 d_inc1 d_p2 d_inc2] in *.
      + specialize (Hne eq_refl). replace (len x =? 0) with false by (symmetry; lia).
        f_equal. apply (zsum_ext R rzero radd rmul cj). intros l Hl.
        unfold vval, vaddr. rewrite Cx, Cy. reflexivity.
      + f_equal. apply (zsum_ext R rzero radd rmul cj). intros l Hl.
        unfold vval, vaddr. rewrite Cx, Cy. reflexivity.
  Qed.
End Carrier.

(* the full statement (no restriction on the length) is false: for empty vectors the result cell is not written *)
Definition dot_full : Prop :=
  forall (R : Type) (rzero : R) (radd rmul : R -> R -> R) (cj : R -> R),
    (forall x y, rmul x y = rmul y x) ->
    forall (e : etype) (x y : vec) (c : dot_call) (mem : Z -> R),
      len y = len x -> 0 <= len x -> (is_complex_et e = false -> vconj x = false /\ vconj y = false) ->
      dot_n_model e x y = Some c ->
      dot_ref R rzero radd rmul cj c mem = Some (dot_math R rzero radd rmul cj x y mem).

Theorem dot_full_refuted : ~ dot_full.
Proof.
  intro H.
  specialize (H Z 0 Z.add Z.mul (fun v => v) Z.mul_comm ES (mk_vec 0 1 0 false) (mk_vec 100 1 0 false)
                (mk_dot_call DViaGemv 0 0 1 100 1) (fun p => p) eq_refl ltac:(cbn; lia) ltac:(intros _; split; reflexivity) eq_refl).
  vm_compute in H. discriminate H.
Qed.

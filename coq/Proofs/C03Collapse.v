(* C03: the full statement (no exclusion on the rows' shape) is false of the faithful model, hence of the pinned code:
   when a row has a zero extent under a non-zero one -- a view of sizes (2,3,0), e.g. A({0,2},{0,3},{1,1}) of a
   2x3x2 array -- iterator::value_type (multi::array<T,2>) cannot hold the row's shape: layout_t(extensions) makes it
   (0,0).  The copy then compares as a proper prefix of the very row it was read from ( x < *it  is true), which
   independent values never do ( x < x is false ).  On the real library std::sort(V.begin(), V.end()) on such a V
   does not terminate (libstdc++'s unguarded insertion walks off the front because val < *next is always true). *)
From BM Require Import Base.Tactics Model.Layout Model.View Model.Spec Model.Iter Model.Assign Model.Compare Model.C03Prog
  Proofs.LayoutProofs Proofs.CompareProofs Proofs.C03Flat Proofs.C03Prims Proofs.C03Main.
Local Open Scope Z_scope.

(* rows_ok without its third clause *)
Definition rows_ok_full (row : Z -> view) (n : Z) (sz : list Z) : Prop :=
  (forall p, 0 <= p < n -> lay_ok (lay (row p)) sz) /\
  (forall p q j k, 0 <= p < n -> 0 <= q < n -> 0 <= j < prod sz -> 0 <= k < prod sz ->
     e_addr (row p) j = e_addr (row q) k -> p = q /\ j = k).

Definition C03_full : Prop :=
  forall (row : Z -> view) (n : Z) (sz : list Z), rows_ok_full row n sz ->
  forall (A : Type) (pr : prog A), prog_ok n sz pr ->
  forall (m : mem),
    let rv := run_on_view row pr m in
    let rl := run_on_values (length sz) pr (abs_rows row n m) in
       snd rv = snd rl
    /\ abs_rows row n (fst rv) = fst rl
    /\ (forall a, outside_rows row n sz a -> fst rv a = m a).

(* the witness: V = A.rotated().rotated().sliced(1,1).rotated() of a 2x3x2 array A: sizes (2,3,0) *)
Definition collapse_witness : view :=
  exec_op ORotated (exec_op (OSliced 1 1) (exec_op ORotated (exec_op ORotated (root_view (zb [2; 3; 2]))))).
Definition collapse_prog : prog bool := Take 0 (fun x => VLess x 0 (fun b => Ret b)).   (* value_type x = *first;  x < *first *)

Lemma collapse_witness_reachable :
  run_ops [ORotated; ORotated; OSliced 1 1; ORotated] (root_view (zb [2; 3; 2])) = Some collapse_witness
  /\ l_sizes (lay collapse_witness) = [2; 3; 0].
Proof. vm_compute. split; reflexivity. Qed.

Theorem C03_full_refuted_proved : ~ C03_full.
Proof.
  intros H.
  assert (HR : rows_ok_full (rows_of collapse_witness) 2 [3; 0]).
  { split.
    - intros p _. unfold rows_of, it_deref, it_add, it_begin, collapse_witness. cbn.
      repeat constructor; cbn; lia.
    - intros p q j k _ _ Hj. cbn in Hj. lia. }
  assert (Hp : prog_ok 2 [3; 0] collapse_prog).
  { cbn. split; [lia|]. intros x Hx. split; [lia|]. split; [exact Hx|]. intros; exact I. }
  destruct (H _ _ _ HR _ _ Hp (fun _ => mkcell 0 false)) as (E & _).
  vm_compute in E. discriminate.
Qed.

(* the exclusion is exactly the third clause of rows_ok *)
Lemma rows_ok_iff row n sz : rows_ok row n sz <-> rows_ok_full row n sz /\ collapse sz = sz.
Proof. unfold rows_ok, rows_ok_full. tauto. Qed.

Theorem C03_partial_proved :
  forall (row : Z -> view) (n : Z) (sz : list Z), rows_ok_full row n sz -> collapse sz = sz ->
  forall (A : Type) (pr : prog A), prog_ok n sz pr ->
  forall (m : mem),
    let rv := run_on_view row pr m in
    let rl := run_on_values (length sz) pr (abs_rows row n m) in
       snd rv = snd rl
    /\ abs_rows row n (fst rv) = fst rl
    /\ (forall a, outside_rows row n sz a -> fst rv a = m a).
Proof.
  intros row n sz HR Hc A pr Hp m. apply C03_representation_independence_proved; [|assumption].
  apply rows_ok_iff. split; assumption.
Qed.

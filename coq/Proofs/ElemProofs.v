(* C02, second half: the flat element range.  Mixed-radix facts about extensions_t
   (from_linear / to_linear / next_canonical / prev_canonical) and the invariant that keeps the
   flat position n_ and the index tuple ns_ of elements_iterator_t in step. *)
From BM Require Import Base.Tactics Model.Layout Model.View Model.Spec Model.Iter Proofs.LayoutProofs
  Proofs.IterProofs.
Local Open Scope Z_scope.

Definition xpos (X : list range) : Prop := Forall (fun r => fst r < snd r) X.
Definition in_ext (X : list range) (idx : list Z) : Prop := Forall2 (fun r i => fst r <= i < snd r) X idx.
Definition firsts (X : list range) : list Z := map fst X.
Definition lasts (X : list range) : list Z := map (fun r => snd r - 1) X.

Lemma Forall2_length {A B} (R : A -> B -> Prop) l l' : Forall2 R l l' -> length l = length l'.
Proof. induction 1; cbn; congruence. Qed.

Lemma numel_pos X : xpos X -> 0 < x_num_elements X.
Proof. induction 1 as [|r X Hr _ IH]; cbn; [lia|]. unfold r_size. nia. Qed.

(* ---- quotient / remainder of non-negative numbers ---- *)
Lemma qr_decomp k s : 0 <= k -> 0 < s ->
  k = Z.quot k s * s + Z.rem k s /\ 0 <= Z.rem k s < s /\ 0 <= Z.quot k s.
Proof.
  intros Hk Hs. pose proof (Z.quot_rem' k s). pose proof (Z.rem_bound_pos k s Hk Hs).
  pose proof (Z.quot_pos k s Hk Hs). lia.
Qed.
Lemma qr_unique q r s : 0 <= q -> 0 <= r < s -> Z.quot (q * s + r) s = q /\ Z.rem (q * s + r) s = r.
Proof.
  intros Hq Hr. assert (0 <= q * s + r) by nia. split; symmetry.
  - apply (Z.quot_unique _ s q r); lia.
  - apply (Z.rem_unique _ s q r); lia.
Qed.

(* ---- the four functions, one equation per cons (the D = 1 specialisations agree with it) ---- *)
Lemma FL_cons r rest n :
  x_from_linear (r :: rest) n
  = (Z.quot n (x_num_elements rest) + fst r) :: x_from_linear rest (Z.rem n (x_num_elements rest)).
Proof. destruct rest; cbn [x_from_linear x_num_elements]; [rewrite Z.quot_1_r|]; reflexivity. Qed.
Lemma TL_cons r rest i idx : length idx = length rest ->
  x_to_linear (r :: rest) (i :: idx) = (i - fst r) * x_num_elements rest + x_to_linear rest idx.
Proof. destruct rest, idx; cbn [x_to_linear x_num_elements length]; intros; try discriminate; lia. Qed.
Lemma next_cons r rest i idx : length idx = length rest ->
  x_next_canonical (r :: rest) (i :: idx) =
  let '(c, idx'') := x_next_canonical rest idx in
  let i1 := if c then i + 1 else i in
  if i1 =? snd r then (true, fst r :: idx'') else (false, i1 :: idx'').
Proof.
  destruct rest, idx; cbn [x_next_canonical length]; intros; try discriminate; [|reflexivity].
  destruct (i =? snd r - 1) eqn:E, (i + 1 =? snd r) eqn:E'; bprop; try reflexivity; lia.
Qed.
Lemma prev_cons r rest i idx : length idx = length rest -> fst r <= i ->
  x_prev_canonical (r :: rest) (i :: idx) =
  let '(c, idx'') := x_prev_canonical rest idx in
  let i1 := if c then i - 1 else i in
  if i1 <? fst r then (true, snd r - 1 :: idx'') else (false, i1 :: idx'').
Proof.
  destruct rest, idx; cbn [x_prev_canonical length]; intros; try discriminate; [|reflexivity].
  destruct (i =? fst r) eqn:E, (i - 1 <? fst r) eqn:E'; bprop; try reflexivity; lia.
Qed.

Lemma FL_length X : forall n, length (x_from_linear X n) = length X.
Proof. induction X as [|r X IH]; intros n; [reflexivity|]. rewrite FL_cons. cbn. f_equal. apply IH. Qed.

Lemma FL_0 X : xpos X -> x_from_linear X 0 = firsts X.
Proof.
  induction 1 as [|r X Hr HX IH]; [reflexivity|]. rewrite FL_cons. pose proof (numel_pos _ HX).
  rewrite Z.quot_0_l, Z.rem_0_l by lia. rewrite IH. reflexivity.
Qed.

Lemma FL_last X : xpos X -> x_from_linear X (x_num_elements X - 1) = lasts X.
Proof.
  induction 1 as [|r X Hr HX IH]; [reflexivity|]. rewrite FL_cons. pose proof (numel_pos _ HX) as Hp.
  cbn [x_num_elements lasts map]. unfold r_size.
  set (s := x_num_elements X) in *.
  replace ((snd r - fst r) * s - 1) with ((snd r - fst r - 1) * s + (s - 1)) by lia.
  destruct (qr_unique (snd r - fst r - 1) (s - 1) s) as [-> ->]; try lia.
  rewrite IH. f_equal. lia.
Qed.

(* from_linear k is a valid index tuple of the extensions and its rank is k *)
Lemma FL_in X : xpos X -> forall k, 0 <= k < x_num_elements X -> in_ext X (x_from_linear X k).
Proof.
  induction 1 as [|r X Hr HX IH]; intros k Hk; [constructor|]. rewrite FL_cons.
  pose proof (numel_pos _ HX) as Hp. cbn [x_num_elements] in Hk. unfold r_size in Hk.
  set (s := x_num_elements X) in *.
  destruct (qr_decomp k s) as (E & Hr' & Hq); try lia.
  constructor; [|apply IH; lia].
  assert (Z.quot k s < snd r - fst r) by nia. lia.
Qed.

Lemma TL_FL X : xpos X -> forall k, 0 <= k < x_num_elements X -> x_to_linear X (x_from_linear X k) = k.
Proof.
  induction 1 as [|r X Hr HX IH]; intros k Hk; [cbn in *; lia|]. rewrite FL_cons.
  pose proof (numel_pos _ HX) as Hp. cbn [x_num_elements] in Hk. unfold r_size in Hk.
  set (s := x_num_elements X) in *.
  destruct (qr_decomp k s) as (E & Hr' & Hq); try lia.
  rewrite TL_cons by apply FL_length. fold s. rewrite IH by lia. lia.
Qed.

Lemma TL_bounds X : xpos X -> forall idx, in_ext X idx -> 0 <= x_to_linear X idx < x_num_elements X.
Proof.
  induction 1 as [|r X Hr HX IH]; intros idx Hi; inv Hi; [cbn; lia|].
  rewrite TL_cons by (symmetry; eapply Forall2_length; eassumption).
  specialize (IH _ H3). cbn [x_num_elements]. unfold r_size. nia.
Qed.

Lemma FL_TL X : xpos X -> forall idx, in_ext X idx -> x_from_linear X (x_to_linear X idx) = idx.
Proof.
  induction 1 as [|r X Hr HX IH]; intros idx Hi; inv Hi; [reflexivity|].
  rewrite TL_cons by (symmetry; eapply Forall2_length; eassumption). rewrite FL_cons.
  pose proof (TL_bounds _ HX _ H3) as Hb.
  destruct (qr_unique (y - fst r) (x_to_linear X l') (x_num_elements X)) as [-> ->]; try lia.
  rewrite IH by assumption. f_equal. lia.
Qed.

(* canonical order is lexicographic order: the rank is strictly monotone in the first differing index *)
Lemma TL_lex_head X r i j idx idx' : xpos X -> in_ext X idx -> in_ext X idx' -> i < j ->
  x_to_linear (r :: X) (i :: idx) < x_to_linear (r :: X) (j :: idx').
Proof.
  intros HX Hi Hi' Hij.
  rewrite !TL_cons by (symmetry; eapply Forall2_length; eassumption).
  pose proof (TL_bounds _ HX _ Hi). pose proof (TL_bounds _ HX _ Hi'). nia.
Qed.
Lemma TL_lex_tail X r i idx idx' : in_ext X idx -> in_ext X idx' ->
  x_to_linear X idx < x_to_linear X idx' ->
  x_to_linear (r :: X) (i :: idx) < x_to_linear (r :: X) (i :: idx').
Proof.
  intros Hi Hi' Hlt. rewrite !TL_cons by (symmetry; eapply Forall2_length; eassumption). lia.
Qed.

(* ---- next / prev in mixed radix ---- *)
Lemma next_FL X : xpos X -> forall k, 0 <= k < x_num_elements X ->
  x_next_canonical X (x_from_linear X k) =
  if k + 1 =? x_num_elements X then (true, firsts X) else (false, x_from_linear X (k + 1)).
Proof.
  induction 1 as [|r X Hr HX IH]; intros k Hk.
  - cbn in *. assert (k = 0) by lia. subst. reflexivity.
  - pose proof (numel_pos _ HX) as Hp. change (x_num_elements (r :: X)) with ((snd r - fst r) * x_num_elements X) in *.
    set (s := x_num_elements X) in *.
    destruct (qr_decomp k s) as (E & Hr' & Hq); try lia.
    set (q := Z.quot k s) in *. set (m := Z.rem k s) in *.
    assert (Hqn : q < snd r - fst r) by nia.
    rewrite FL_cons. fold s q m. rewrite next_cons by apply FL_length.
    rewrite IH by lia. fold s.
    destruct (m + 1 =? s) eqn:Em; bprop.
    + (* carry out of the tail *)
      cbv beta iota zeta. destruct (q + fst r + 1 =? snd r) eqn:Eq; bprop.
      * replace (k + 1 =? (snd r - fst r) * s) with true by (symmetry; apply Z.eqb_eq; nia). reflexivity.
      * replace (k + 1 =? (snd r - fst r) * s) with false by (symmetry; apply Z.eqb_neq; nia).
        rewrite FL_cons. fold s. replace (k + 1) with ((q + 1) * s + 0) by lia.
        destruct (qr_unique (q + 1) 0 s) as [-> ->]; try lia. rewrite FL_0 by assumption.
        f_equal. f_equal. lia.
    + cbv beta iota zeta. replace (q + fst r =? snd r) with false by (symmetry; apply Z.eqb_neq; lia).
      replace (k + 1 =? (snd r - fst r) * s) with false by (symmetry; apply Z.eqb_neq; nia).
      rewrite FL_cons. fold s. replace (k + 1) with (q * s + (m + 1)) by lia.
      destruct (qr_unique q (m + 1) s) as [-> ->]; try lia. reflexivity.
Qed.

Lemma prev_FL X : xpos X -> forall k, 0 <= k < x_num_elements X ->
  x_prev_canonical X (x_from_linear X k) =
  if k =? 0 then (true, lasts X) else (false, x_from_linear X (k - 1)).
Proof.
  induction 1 as [|r X Hr HX IH]; intros k Hk.
  - cbn in *. assert (k = 0) by lia. subst. reflexivity.
  - pose proof (numel_pos _ HX) as Hp. change (x_num_elements (r :: X)) with ((snd r - fst r) * x_num_elements X) in *.
    set (s := x_num_elements X) in *.
    destruct (qr_decomp k s) as (E & Hr' & Hq); try lia.
    set (q := Z.quot k s) in *. set (m := Z.rem k s) in *.
    assert (Hqn : q < snd r - fst r) by nia.
    rewrite FL_cons. fold s q m. rewrite prev_cons by (try apply FL_length; lia).
    rewrite IH by lia.
    destruct (m =? 0) eqn:Em; bprop.
    + cbv beta iota zeta. destruct (q + fst r - 1 <? fst r) eqn:Eq; bprop.
      * replace (k =? 0) with true by (symmetry; apply Z.eqb_eq; nia). reflexivity.
      * replace (k =? 0) with false by (symmetry; apply Z.eqb_neq; nia).
        rewrite FL_cons. fold s. replace (k - 1) with ((q - 1) * s + (s - 1)) by lia.
        destruct (qr_unique (q - 1) (s - 1) s) as [-> ->]; try lia.
        unfold s. rewrite FL_last by assumption. f_equal. f_equal. lia.
    + cbv beta iota zeta. replace (q + fst r <? fst r) with false by (symmetry; apply Z.ltb_ge; lia).
      replace (k =? 0) with false by (symmetry; apply Z.eqb_neq; nia).
      rewrite FL_cons. fold s. replace (k - 1) with (q * s + (m - 1)) by lia.
      destruct (qr_unique q (m - 1) s) as [-> ->]; try lia. reflexivity.
Qed.

(* the two representations of the end position both step back to the last element *)
Lemma prev_firsts X : xpos X -> x_prev_canonical X (firsts X) = (true, lasts X).
Proof. intros H. rewrite <- FL_0 by assumption. rewrite prev_FL by (try assumption; pose proof (numel_pos _ H); lia). reflexivity. Qed.

Lemma prev_FL_end r X : xpos (r :: X) ->
  snd (x_prev_canonical (r :: X) (x_from_linear (r :: X) (x_num_elements (r :: X)))) = lasts (r :: X).
Proof.
  intros H. inv H. pose proof (numel_pos _ H3) as Hp. rewrite FL_cons. cbn [x_num_elements]. unfold r_size.
  set (s := x_num_elements X) in *.
  replace ((snd r - fst r) * s) with ((snd r - fst r) * s + 0) by lia.
  destruct (qr_unique (snd r - fst r) 0 s) as [-> ->]; try lia.
  rewrite prev_cons by (try apply FL_length; lia). rewrite FL_0, prev_firsts by assumption.
  cbv beta iota zeta. replace (snd r - fst r + fst r - 1 <? fst r) with false by (symmetry; apply Z.ltb_ge; lia).
  cbn. f_equal. lia.
Qed.

Lemma prev_FL_end' X : xpos X ->
  snd (x_prev_canonical X (x_from_linear X (x_num_elements X))) = x_from_linear X (x_num_elements X - 1).
Proof.
  intros H. destruct X as [|r X']; [reflexivity|].
  rewrite prev_FL_end by assumption. rewrite FL_last by assumption. reflexivity.
Qed.

Lemma l_call_addr l : forall idx, l_call l idx = l_addr l idx.
Proof. induction l as [|d l IH]; intros [|i idx]; cbn; try reflexivity; try (f_equal; apply IH). Qed.

(* ---- the iterator invariant ---- *)
Section Elements.
  Variable v : view.
  Let X := l_extensions (lay v).
  Let N := x_num_elements X.
  Hypothesis HX : xpos X.                                  (* every dimension has at least one index *)
  Hypothesis HN : l_num_elements (lay v) = N.               (* holds for every well-formed view *)

  Definition canon (p : Z) : list Z := x_from_linear X p.   (* the p-th index tuple in canonical order *)

  Definition Inv_e (it : eit) (p : Z) : Prop :=
       ebase it = base v /\ elay it = lay v /\ exs it = X /\ en it = p /\ 0 <= p <= N
    /\ (p < N -> ens it = canon p)
    /\ (p = N -> snd (x_prev_canonical X (ens it)) = canon (N - 1)).

  Lemma Npos : 0 < N. Proof. apply numel_pos; assumption. Qed.

  Lemma make_inv p : 0 <= p <= N -> Inv_e (e_make (base v) (lay v) p) p.
  Proof.
    intros Hp. pose proof Npos as HNp. unfold e_make. rewrite HN.
    replace (N =? 0) with false by (symmetry; apply Z.eqb_neq; lia).
    repeat split; cbn; try reflexivity; try lia.
    intros ->. fold X. unfold canon, N. apply prev_FL_end'. assumption.
  Qed.

  Lemma begin_inv : Inv_e (er_begin v) 0.
  Proof. apply make_inv. pose proof Npos. lia. Qed.
  Lemma end_inv : Inv_e (er_end v) N.
  Proof. unfold er_end. rewrite HN. apply make_inv. pose proof Npos. lia. Qed.

  Lemma inc_inv it p : Inv_e it p -> p < N -> Inv_e (e_inc it) (p + 1).
  Proof.
    intros (Hb & Hl & Hx & Hn & Hp & Hlt & _) HpN. unfold e_inc. rewrite Hx, Hn, (Hlt HpN).
    unfold canon. rewrite next_FL by (try assumption; fold N; lia). fold N.
    repeat split; cbn; try assumption; try lia.
    - intros H. replace (p + 1 =? N) with false by (symmetry; apply Z.eqb_neq; lia). reflexivity.
    - intros H. replace (p + 1 =? N) with true by (symmetry; apply Z.eqb_eq; lia). cbn.
      rewrite prev_firsts by assumption. unfold canon, N. rewrite FL_last by assumption. reflexivity.
  Qed.

  Lemma dec_inv it p : Inv_e it p -> 0 < p -> Inv_e (e_dec it) (p - 1).
  Proof.
    intros (Hb & Hl & Hx & Hn & Hp & Hlt & Heq) Hp0. unfold e_dec. rewrite Hx, Hn.
    repeat split; cbn; try assumption; try lia. intros _.
    destruct (Z.eq_dec p N) as [E|E].
    - rewrite (Heq E), E. reflexivity.
    - rewrite (Hlt ltac:(lia)). unfold canon. rewrite prev_FL by (try assumption; fold N; lia).
      replace (p =? 0) with false by (symmetry; apply Z.eqb_neq; lia). reflexivity.
  Qed.

  Lemma add_inv it p k : Inv_e it p -> 0 <= p + k <= N -> Inv_e (e_add it k) (p + k).
  Proof.
    intros Hi Hk. unfold e_add. destruct (k =? 0) eqn:E; bprop.
    - subst k. replace (p + 0) with p by lia. assumption.
    - destruct Hi as (Hb & Hl & Hx & Hn & Hp & Hlt & Heq). rewrite Hx, Hn.
      repeat split; cbn; try assumption; try lia. intros HpN. rewrite HpN.
      unfold canon, N. apply prev_FL_end'. assumption.
  Qed.

  Lemma step_inv o it p : Inv_e it p -> 0 <= pos_after o p <= N -> Inv_e (e_step o it) (pos_after o p).
  Proof.
    intros Hi Hp. destruct o; cbn [e_step pos_after] in *.
    - apply inc_inv; [assumption|lia].
    - apply dec_inv; [assumption|lia].
    - apply add_inv; assumption.
    - unfold e_sub. replace (p - k) with (p + - k) by lia. apply add_inv; [assumption|lia].
  Qed.

  Lemma run_inv tr : forall it p, Inv_e it p -> trace_ok N p tr = true ->
    Inv_e (run_e tr it) (run_pos tr p).
  Proof.
    induction tr as [|o tr IH]; intros it p Hi Ht; cbn [run_e run_pos fold_left trace_ok] in *; [assumption|].
    bprop. apply IH; [|assumption]. apply step_inv; [assumption|lia].
  Qed.

  (* what an iterator in the invariant dereferences to, and how it compares *)
  Lemma inv_deref it p : Inv_e it p -> p < N -> e_deref it = v_addr v (canon p).
  Proof.
    intros (Hb & Hl & Hx & Hn & Hp & Hlt & _) HpN. unfold e_deref, v_addr.
    rewrite Hb, Hl, (Hlt HpN), l_call_addr. reflexivity.
  Qed.
  Lemma inv_index it p k : Inv_e it p -> e_index it k = v_addr v (canon (p + k)).
  Proof.
    intros (Hb & Hl & Hx & Hn & _). unfold e_index, v_addr, canon. rewrite Hb, Hl, Hx, Hn, l_call_addr. reflexivity.
  Qed.
  Lemma er_at_canon k : er_at v k = v_addr v (canon k).
  Proof. unfold er_at, v_addr, canon. rewrite l_call_addr. reflexivity. Qed.
  Lemma er_front_canon : er_front v = v_addr v (canon 0).
  Proof. unfold er_front. apply inv_deref; [apply begin_inv|apply Npos]. Qed.
  Lemma er_back_canon : er_back v = v_addr v (canon (N - 1)).
  Proof.
    unfold er_back. pose proof Npos.
    replace (N - 1) with (N + -1) by lia. apply inv_deref; [|lia]. apply add_inv; [apply end_inv|lia].
  Qed.
End Elements.

(* The extensions of a well-formed view (any index bases) with no empty dimension *)
Definition lay_okg (l : layout) (fn : list (Z * Z)) : Prop := Forall2 (fun d p => dim_okg d (fst p) (snd p)) l fn.

Lemma lay_okg_ext l fn : lay_okg l fn -> Forall (fun p => 0 < snd p) fn ->
  l_extensions l = map (fun p => (fst p, fst p + snd p)) fn.
Proof.
  induction 1 as [|d p l fn Hd _ IH]; intros Hp; [reflexivity|]. inv Hp. cbn. f_equal; [|apply IH; assumption].
  rewrite (dim_okg_extension _ _ _ Hd). unfold ext_of.
  replace (snd p =? 0) with false by (symmetry; apply Z.eqb_neq; lia). reflexivity.
Qed.
Lemma lay_okg_xpos l fn : lay_okg l fn -> Forall (fun p => 0 < snd p) fn -> xpos (l_extensions l).
Proof.
  intros H Hp. rewrite (lay_okg_ext _ _ H Hp). unfold xpos. rewrite Forall_map.
  eapply Forall_impl; [|exact Hp]. cbn. intros; lia.
Qed.
Lemma lay_okg_numel l fn : lay_okg l fn -> Forall (fun p => 0 < snd p) fn ->
  l_num_elements l = x_num_elements (l_extensions l).
Proof.
  intros H Hp. rewrite (lay_okg_ext _ _ H Hp). clear Hp.
  induction H as [|d p l fn Hd _ IH]; [reflexivity|]. cbn. rewrite IH, (dim_okg_size _ _ _ Hd).
  unfold r_size. cbn. f_equal. lia.
Qed.
Lemma lay_ok_okg l sz : lay_ok l sz -> lay_okg l (map (fun n => (0, n)) sz).
Proof. induction 1; constructor; [apply dim_ok_g; assumption|assumption]. Qed.

Theorem C02_elements_iterator_laws_proved :
  forall (v : view) (fn : list (Z * Z)),
    lay_okg (lay v) fn -> Forall (fun p => 0 < snd p) fn ->     (* well-formed, num_elements > 0 *)
    let X := l_extensions (lay v) in let N := er_size v in
    forall (tr : list iop), trace_ok N 0 tr = true ->           (* any ++ -- += -= staying in [begin,end] *)
      let it := run_e tr (er_begin v) in let p := run_pos tr 0 in
         en it = p /\ 0 <= p <= N
      /\ e_diff it (er_begin v) = p /\ e_diff (er_end v) it = N - p
      /\ e_eq it (er_begin v) = (p =? 0) /\ e_lt (er_begin v) it = (0 <? p) /\ e_lt it (er_end v) = (p <? N)
      /\ (p < N -> e_deref it = v_addr v (canon v p))
      /\ (forall k, e_index it k = v_addr v (canon v (p + k)))
      /\ (forall k, er_at v k = v_addr v (canon v k))
      /\ er_front v = v_addr v (canon v 0) /\ er_back v = v_addr v (canon v (N - 1))
      (* canon p is the p-th valid index tuple in canonical (lexicographic, last index fastest) order *)
      /\ (forall k, 0 <= k < N -> in_ext X (canon v k) /\ x_to_linear X (canon v k) = k)
      /\ (forall idx, in_ext X idx -> 0 <= x_to_linear X idx < N /\ canon v (x_to_linear X idx) = idx).
Proof.
  intros v fn Hok Hp X N tr Htr it p.
  pose proof (lay_okg_xpos _ _ Hok Hp) as HX. pose proof (lay_okg_numel _ _ Hok Hp) as HN.
  assert (EN : N = x_num_elements X) by (unfold N, er_size; exact HN).
  rewrite EN in Htr.
  pose proof (run_inv v HX tr _ _ (begin_inv v HX HN) Htr) as Hi. fold it p in Hi.
  pose proof Hi as (Hb & Hl & Hx & Hn & Hpp & _).
  pose proof (begin_inv v HX HN) as (_ & _ & _ & Hn0 & _).
  pose proof (end_inv v HX HN) as (_ & _ & _ & HnN & _).
  fold X in Hpp, HnN. rewrite <- EN in Hpp, HnN.
  unfold e_diff, e_eq, e_lt. rewrite Hn, Hn0, HnN.
  split; [reflexivity|]. split; [lia|]. split; [lia|]. split; [lia|].
  split; [reflexivity|]. split; [reflexivity|]. split; [reflexivity|].
  split; [intros H; apply inv_deref; [assumption|fold X; rewrite <- EN; exact H]|].
  split; [intros k; eapply inv_index; eassumption|].
  split; [intros k; apply er_at_canon|].
  split; [apply er_front_canon; assumption|].
  split; [rewrite EN; apply er_back_canon; assumption|].
  split.
  - intros k Hk. rewrite EN in Hk. split; [apply FL_in|apply TL_FL]; assumption.
  - intros idx Hidx. rewrite EN. split; [apply TL_bounds|apply FL_TL]; assumption.
Qed.

(* an empty range (some dimension of size 0): begin = end and nothing moves *)
Lemma trace0 tr : trace_ok 0 0 tr = true -> forall it, en (run_e tr it) = en it /\ run_pos tr 0 = 0.
Proof.
  induction tr as [|o tr IH]; intros H it; [split; reflexivity|].
  cbn [trace_ok] in H. bprop. assert (E : pos_after o 0 = 0) by lia.
  change (run_e (o :: tr) it) with (run_e tr (e_step o it)).
  change (run_pos (o :: tr) 0) with (run_pos tr (pos_after o 0)). rewrite E in *.
  destruct (IH H0 (e_step o it)) as [-> ->]. split; [|reflexivity].
  destruct o; cbn [e_step pos_after] in *; try lia.
  - assert (k = 0) by lia. subst. reflexivity.
  - assert (k = 0) by lia. subst. reflexivity.
Qed.

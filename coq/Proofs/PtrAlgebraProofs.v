(* C11, first half: the pointer-typed model (Model/PtrAlgebra.v) simulates the integer model step by step for
   EVERY pointer type that satisfies the torsor laws.  pv_of root v is the pointer-typed view that corresponds to the
   integer view v of a root at `root`: same layout, base = padd root (base v). *)
From BM Require Import Base.Tactics Model.Layout Model.View Model.Iter Model.Assign Model.Compare Model.PtrAlgebra.
Local Open Scope Z_scope.

Section PtrLaws.
  Variable ptr : Type.
  Variable padd : ptr -> Z -> ptr.
  Variable pdiff : ptr -> ptr -> Z.
  Variable peq : ptr -> ptr -> bool.
  (* what a random-access pointer-like type offers: a torsor over Z with a decidable equality *)
  Hypothesis padd_0 : forall p, padd p 0 = p.
  Hypothesis padd_add : forall p a b, padd (padd p a) b = padd p (a + b).
  Hypothesis pdiff_padd : forall p a, pdiff (padd p a) p = a.
  Hypothesis peq_spec : forall p q, peq p q = true <-> p = q.

  Notation pview := (pview ptr).
  Notation pait := (pait ptr).
  Notation peit := (peit ptr).

  Lemma pdiff_gen r a b : pdiff (padd r a) (padd r b) = a - b.
  Proof.
    replace (padd r a) with (padd (padd r b) (a - b)) by (rewrite padd_add; f_equal; lia).
    apply pdiff_padd.
  Qed.
  Lemma padd_inj r a b : padd r a = padd r b -> a = b.
  Proof. intros H. pose proof (pdiff_gen r a b) as E. rewrite H in E. rewrite (pdiff_gen r b b) in E. lia. Qed.
  Lemma peq_padd r a b : peq (padd r a) (padd r b) = (a =? b).
  Proof.
    destruct (a =? b) eqn:E; bprop.
    - subst. apply peq_spec. reflexivity.
    - destruct (peq (padd r a) (padd r b)) eqn:E'; [|reflexivity].
      apply peq_spec, padd_inj in E'. contradiction.
  Qed.

  Variable root : ptr.
  Definition pv_of (v : view) : pview := mkpview (lay v) (padd root (base v)).
  Definition pa_of (a : ait) : pait := mkpait (padd root (ibase a)) (istride a) (isub a).
  Definition pe_of (e : eit) : peit := mkpeit (padd root (ebase e)) (elay e) (en e) (exs e) (ens e).

  Ltac padd_norm := repeat rewrite padd_add.

  (* ---------------- views ---------------- *)
  Lemma sim_index i v : p_index ptr padd i (pv_of v) = pv_of (v_index i v).
  Proof. unfold p_index, pv_of, v_index. cbn [play pbase lay base]. rewrite padd_add. reflexivity. Qed.

  Lemma sim_sliced a b v : p_sliced ptr padd a b (pv_of v) = pv_of (v_sliced a b v).
  Proof.
    destruct v as [[|d [|d' l]] bs]; unfold p_sliced, pv_of, v_sliced; cbn [play pbase lay base];
      try rewrite padd_add; reflexivity.
  Qed.
  Lemma sim_strided s v : p_strided ptr s (pv_of v) = pv_of (v_strided s v).
  Proof. destruct v as [[|d l] bs]; reflexivity. Qed.
  Lemma sim_dropped n v : p_dropped ptr padd n (pv_of v) = pv_of (v_dropped n v).
  Proof.
    destruct v as [[|d l] bs]; unfold p_dropped, pv_of, v_dropped; cbn [play pbase lay base]; try rewrite padd_add; reflexivity.
  Qed.
  Lemma sim_taked n v : p_taked ptr n (pv_of v) = pv_of (v_taked n v).
  Proof. destruct v as [[|d l] bs]; reflexivity. Qed.
  Lemma sim_rotated v : p_rotated ptr (pv_of v) = pv_of (v_rotated v).
  Proof. reflexivity. Qed.
  Lemma sim_unrotated v : p_unrotated ptr (pv_of v) = pv_of (v_unrotated v).
  Proof. reflexivity. Qed.
  Lemma sim_transposed v : p_transposed ptr (pv_of v) = pv_of (v_transposed v).
  Proof. reflexivity. Qed.
  Lemma sim_reversed v : p_reversed ptr (pv_of v) = pv_of (v_reversed v).
  Proof. reflexivity. Qed.
  Lemma sim_reindexed i v : p_reindexed ptr i (pv_of v) = pv_of (v_reindexed i v).
  Proof. destruct v as [[|d l] bs]; reflexivity. Qed.
  Lemma sim_blocked a b v : p_blocked ptr padd a b (pv_of v) = pv_of (v_blocked a b v).
  Proof. unfold p_blocked, v_blocked. rewrite sim_sliced, sim_reindexed. reflexivity. Qed.
  Lemma sim_reindexedL is : forall v, p_reindexedL ptr is (pv_of v) = pv_of (v_reindexedL is v).
  Proof.
    induction is as [|i [|j rest] IH]; intros v; [reflexivity|apply sim_reindexed|].
    change (p_reindexedL ptr (i :: j :: rest) (pv_of v)) with
      (p_unrotated ptr (p_reindexedL ptr (j :: rest) (p_rotated ptr (p_reindexed ptr i (pv_of v))))).
    change (v_reindexedL (i :: j :: rest) v) with (v_unrotated (v_reindexedL (j :: rest) (v_rotated (v_reindexed i v)))).
    rewrite sim_reindexed, sim_rotated, IH, sim_unrotated. reflexivity.
  Qed.
  Lemma sim_partitioned n v : p_partitioned ptr n (pv_of v) = pv_of (v_partitioned n v).
  Proof. destruct v as [[|d l] bs]; reflexivity. Qed.
  Lemma sim_chunked c v : p_chunked ptr c (pv_of v) = pv_of (v_chunked c v).
  Proof. unfold p_chunked, v_chunked. rewrite <- sim_partitioned. reflexivity. Qed.
  Lemma sim_halved v : p_halved ptr (pv_of v) = pv_of (v_halved v).
  Proof. destruct v as [[|d l] bs]; reflexivity. Qed.
  Lemma sim_flatted v : p_flatted ptr (pv_of v) = pv_of (v_flatted v).
  Proof. destruct v as [[|d [|d' l]] bs]; reflexivity. Qed.

  Lemma sim_paren args : forall v, p_paren ptr padd args (pv_of v) = pv_of (v_paren args v).
  Proof.
    induction args as [|[i|a b|] args IH]; intros v; cbn [p_paren v_paren].
    - reflexivity.
    - rewrite sim_index. apply IH.
    - rewrite sim_sliced, sim_rotated, IH, sim_unrotated. reflexivity.
    - change (p_all_range ptr (pv_of v)) with (all_range v).
      rewrite sim_sliced, sim_rotated, IH, sim_unrotated. reflexivity.
  Qed.

  Lemma sim_diagonal v : p_diagonal ptr padd (pv_of v) = pv_of (v_diagonal v).
  Proof.
    unfold p_diagonal, v_diagonal. change (play (pv_of v)) with (lay v).
    destruct (lay v) as [|d0 [|d1 l]]; try reflexivity.
    rewrite sim_paren.
    match goal with |- context [play (pv_of ?w)] => change (play (pv_of w)) with (lay w) end.
    destruct (lay (v_paren _ v)) as [|e0 [|e1 sub]]; reflexivity.
  Qed.

  Lemma sim_exec o v : p_exec_op ptr padd o (pv_of v) = pv_of (exec_op o v).
  Proof.
    destruct o; cbn [p_exec_op exec_op];
      auto using sim_index, sim_sliced, sim_strided, sim_dropped, sim_taked, sim_rotated, sim_unrotated,
        sim_transposed, sim_reversed, sim_diagonal, sim_partitioned, sim_chunked, sim_halved, sim_flatted,
        sim_paren, sim_reindexed, sim_blocked, sim_reindexedL.
    rewrite sim_sliced, sim_strided. reflexivity.
  Qed.

  Lemma sim_dom_paren args : forall v, p_dom_paren ptr padd args (pv_of v) = dom_paren args v.
  Proof.
    induction args as [|[i|a b|] args IH]; intros v; cbn [p_dom_paren dom_paren].
    - reflexivity.
    - rewrite sim_index, IH. reflexivity.
    - rewrite sim_sliced, sim_rotated, IH. reflexivity.
    - change (p_all_range ptr (pv_of v)) with (all_range v). rewrite sim_sliced, sim_rotated, IH. reflexivity.
  Qed.
  Lemma sim_dom o v : p_dom_op ptr padd o (pv_of v) = dom_op o v.
  Proof. destruct o; try reflexivity. unfold p_dom_op, dom_op. rewrite sim_dom_paren. reflexivity. Qed.

  Lemma sim_apply o v : p_apply_op ptr padd o (pv_of v) = option_map pv_of (apply_op o v).
  Proof. unfold p_apply_op, apply_op. rewrite sim_dom, sim_exec. destruct (dom_op o v); reflexivity. Qed.

  Lemma sim_brackets idx : forall v, p_addr_brackets ptr padd (pv_of v) idx = padd root (addr_brackets v idx).
  Proof.
    unfold p_addr_brackets, addr_brackets. induction idx as [|i idx IH]; intros v; cbn [fold_left].
    - reflexivity.
    - rewrite sim_index. apply IH.
  Qed.
  Lemma sim_addr_paren idx v : p_addr_paren ptr padd (pv_of v) idx = padd root (addr_paren v idx).
  Proof. unfold p_addr_paren, addr_paren. rewrite sim_paren. reflexivity. Qed.
  Lemma fold_padd l : forall b, fold_left padd l (padd root b) = padd root (fold_left Z.add l b).
  Proof. induction l as [|x l IH]; intros b; cbn [fold_left]; [reflexivity|]. rewrite padd_add. apply IH. Qed.
  Lemma sim_cursor idx v : p_addr_cursor ptr padd (pv_of v) idx = padd root (addr_cursor v idx).
  Proof. unfold p_addr_cursor, addr_cursor, pv_of. cbn [play pbase]. apply fold_padd. Qed.

  (* ---------------- iterators ---------------- *)
  Lemma sim_it_begin v : p_it_begin ptr (pv_of v) = pa_of (it_begin v).
  Proof. reflexivity. Qed.
  Lemma sim_it_end v : p_it_end ptr padd (pv_of v) = pa_of (it_end v).
  Proof. unfold p_it_end, pa_of, it_end, pv_of. cbn [play pbase ibase istride isub]. rewrite padd_add. reflexivity. Qed.
  Lemma sim_a_step o a : p_a_step ptr padd o (pa_of a) = pa_of (a_step o a).
  Proof.
    destruct o; cbn [p_a_step a_step]; unfold p_it_inc, p_it_dec, p_it_add, p_it_sub, pa_of, it_inc, it_dec, it_add, it_sub;
      cbn [pibase pistride pisub ibase istride isub]; rewrite padd_add; repeat f_equal; lia.
  Qed.
  Lemma sim_it_add a n : p_it_add ptr padd (pa_of a) n = pa_of (it_add a n).
  Proof. unfold p_it_add, pa_of, it_add. cbn [pibase pistride pisub ibase istride isub]. rewrite padd_add. reflexivity. Qed.
  Lemma sim_it_diff a b : p_it_diff ptr pdiff (pa_of a) (pa_of b) = it_diff a b.
  Proof. unfold p_it_diff, it_diff, pa_of. cbn [pibase pistride]. rewrite pdiff_gen. reflexivity. Qed.
  Lemma sim_it_eq a b : p_it_eq ptr peq (pa_of a) (pa_of b) = it_eq a b.
  Proof. unfold p_it_eq, it_eq, pa_of. cbn [pibase]. apply peq_padd. Qed.
  Lemma sim_it_lt a b : p_it_lt ptr pdiff (pa_of a) (pa_of b) = it_lt a b.
  Proof. unfold p_it_lt, it_lt. rewrite sim_it_diff. reflexivity. Qed.
  Lemma sim_it_deref a : p_it_deref ptr (pa_of a) = pv_of (it_deref a).
  Proof. reflexivity. Qed.
  Lemma sim_it_index a n : p_it_index ptr padd (pa_of a) n = pv_of (it_index a n).
  Proof. unfold p_it_index, it_index. rewrite sim_it_add. reflexivity. Qed.

  Lemma sim_e_make b l n : p_e_make ptr (padd root b) l n = pe_of (e_make b l n).
  Proof. reflexivity. Qed.
  Lemma sim_er_begin v : p_er_begin ptr (pv_of v) = pe_of (er_begin v).
  Proof. reflexivity. Qed.
  Lemma sim_er_end v : p_er_end ptr (pv_of v) = pe_of (er_end v).
  Proof. reflexivity. Qed.
  Lemma sim_e_add e n : p_e_add ptr (pe_of e) n = pe_of (e_add e n).
  Proof. unfold p_e_add, e_add. destruct (n =? 0); reflexivity. Qed.
  Lemma sim_e_step o e : p_e_step ptr o (pe_of e) = pe_of (e_step o e).
  Proof.
    destruct o; cbn [p_e_step e_step]; try reflexivity; [apply sim_e_add|].
    unfold p_e_sub, e_sub. apply sim_e_add.
  Qed.
  Lemma sim_e_deref e : p_e_deref ptr padd (pe_of e) = padd root (e_deref e).
  Proof. unfold p_e_deref, e_deref, pe_of. cbn [pebase pelay pens]. apply padd_add. Qed.
  Lemma sim_e_index e n : p_e_index ptr padd (pe_of e) n = padd root (e_index e n).
  Proof. unfold p_e_index, e_index, pe_of. cbn [pebase pelay pexs pen]. apply padd_add. Qed.
  Lemma sim_er_at v k : p_er_at ptr padd (pv_of v) k = padd root (er_at v k).
  Proof. unfold p_er_at, er_at, pv_of. cbn [play pbase]. apply padd_add. Qed.

  (* ---------------- observations ---------------- *)
  Lemma sim_walk_a tr : forall b e it,
    p_walk_a ptr padd pdiff peq (pa_of b) (pa_of e) (pa_of it) tr = map (obs_map (padd root)) (walk_a b e it tr).
  Proof.
    induction tr as [|o tr IH]; intros b e it; cbn [p_walk_a walk_a map]; [reflexivity|].
    rewrite sim_a_step, !sim_it_diff, !sim_it_eq, !sim_it_lt, sim_it_deref, sim_it_index, IH. reflexivity.
  Qed.
  Lemma sim_walk_e tr : forall b e it,
    p_walk_e ptr padd (pe_of b) (pe_of e) (pe_of it) tr = map (obs_map (padd root)) (walk_e b e it tr).
  Proof.
    induction tr as [|o tr IH]; intros b e it; cbn [p_walk_e walk_e map]; [reflexivity|].
    rewrite sim_e_step, sim_e_deref, sim_e_index, IH. reflexivity.
  Qed.

  Lemma sim_observe_from prog : forall v,
    p_observe_from ptr padd pdiff peq (pv_of v) prog = map (obs_map (padd root)) (observe_from v prog).
  Proof.
    induction prog as [|[o|idx|tr|tr] prog IH]; intros v; cbn [p_observe_from observe_from map].
    - reflexivity.
    - rewrite sim_apply. destruct (apply_op o v) as [v'|]; cbn [option_map map]; [|reflexivity].
      rewrite IH. reflexivity.
    - rewrite sim_brackets, sim_addr_paren, sim_cursor, IH. reflexivity.
    - rewrite sim_it_begin, sim_it_end, sim_walk_a, IH, map_app. reflexivity.
    - rewrite sim_er_begin, sim_er_end, sim_walk_e, sim_e_add, !sim_e_deref, IH. cbn [map]. rewrite map_app. reflexivity.
  Qed.

  Theorem pointer_parametric_proved : forall (x : list range) (prog : list item),
    observe_ptr ptr padd pdiff peq root x prog = map (obs_map (padd root)) (observe_Z x prog).
  Proof.
    intros x prog. unfold observe_ptr, observe_Z. cbn [map]. f_equal.
    rewrite <- sim_observe_from. unfold pv_of, root_view. cbn [lay base]. rewrite padd_0. reflexivity.
  Qed.

  Theorem pointer_parametric_full_proved : forall (x : list range) (prog : list item),
       observe_ptr ptr padd pdiff peq root x prog = map (obs_map (padd root)) (observe_Z x prog)
    /\ map obs_ints (observe_ptr ptr padd pdiff peq root x prog) = map obs_ints (observe_Z x prog)
    /\ (forall k a, nth_error (observe_Z x prog) k = Some a ->
          nth_error (observe_ptr ptr padd pdiff peq root x prog) k = Some (obs_map (padd root) a)).
  Proof.
    intros x prog. rewrite pointer_parametric_proved. split; [reflexivity|]. split.
    - rewrite map_map. apply map_ext. intros [ | | | | ]; reflexivity.
    - intros k a H. rewrite nth_error_map, H. reflexivity.
  Qed.

  (* each single step too, for use outside whole programs *)
  Theorem pointer_step_parametric_proved :
       (forall o v, p_apply_op ptr padd o (pv_of v) = option_map pv_of (apply_op o v))
    /\ (forall v idx, p_addr_brackets ptr padd (pv_of v) idx = padd root (addr_brackets v idx)
                   /\ p_addr_paren ptr padd (pv_of v) idx = padd root (addr_paren v idx)
                   /\ p_addr_cursor ptr padd (pv_of v) idx = padd root (addr_cursor v idx))
    /\ (forall a b, p_it_diff ptr pdiff (pa_of a) (pa_of b) = it_diff a b
                 /\ p_it_eq ptr peq (pa_of a) (pa_of b) = it_eq a b
                 /\ p_it_lt ptr pdiff (pa_of a) (pa_of b) = it_lt a b)
    /\ (forall o a, p_a_step ptr padd o (pa_of a) = pa_of (a_step o a))
    /\ (forall o e, p_e_step ptr o (pe_of e) = pe_of (e_step o e))
    /\ (forall e k, p_e_deref ptr padd (pe_of e) = padd root (e_deref e)
                 /\ p_e_index ptr padd (pe_of e) k = padd root (e_index e k)).
  Proof.
    repeat split; auto using sim_apply, sim_brackets, sim_addr_paren, sim_cursor, sim_it_diff, sim_it_eq, sim_it_lt,
      sim_a_step, sim_e_step, sim_e_deref, sim_e_index.
  Qed.

  (* ---------------- storage ---------------- *)
  (* the integer storage seen through the root: cell a of m is the cell the pointer padd root a designates *)
  Definition seen (pm : pmem ptr) : mem := fun a => pm (padd root a).
  Definition off_orbit (p : ptr) : Prop := forall a, p <> padd root a.

  Lemma seen_upd pm a c : forall b, seen (p_upd ptr peq pm (padd root a) c) b = upd (seen pm) a c b.
  Proof. intros b. unfold seen, p_upd, upd. rewrite peq_padd. reflexivity. Qed.
  Lemma off_upd pm a c p : off_orbit p -> p_upd ptr peq pm (padd root a) c p = pm p.
  Proof.
    intros H. unfold p_upd. destruct (peq p (padd root a)) eqn:E; [|reflexivity].
    apply peq_spec in E. exfalso. exact (H a E).
  Qed.

  Definition rel (pm : pmem ptr) (m : mem) : Prop := forall a, pm (padd root a) = m a.
  Lemma rel_upd pm m a c : rel pm m -> rel (p_upd ptr peq pm (padd root a) c) (upd m a c).
  Proof. intros H b. unfold p_upd, upd. rewrite peq_padd. destruct (b =? a); [reflexivity|apply H]. Qed.

  Lemma rel_fold (pstep : pmem ptr -> Z -> pmem ptr) (step : mem -> Z -> mem) :
    (forall pm m k, rel pm m -> rel (pstep pm k) (step m k)) ->
    forall l pm m, rel pm m -> rel (fold_left pstep l pm) (fold_left step l m).
  Proof. intros Hs l. induction l as [|k l IH]; intros pm m H; cbn [fold_left]; [exact H|]. apply IH, Hs, H. Qed.
  Lemma off_fold (pstep : pmem ptr -> Z -> pmem ptr) p :
    (forall pm k, pstep pm k p = pm p) -> forall l pm, fold_left pstep l pm p = pm p.
  Proof. intros Hs l. induction l as [|k l IH]; intros pm; cbn [fold_left]; [reflexivity|]. rewrite IH. apply Hs. Qed.

  Section Loops.
    Variables dst src : view.
    Let D := p_er_at ptr padd (pv_of dst).
    Let S := p_er_at ptr padd (pv_of src).
    Lemma D_eq k : D k = padd root (e_addr dst k). Proof. apply sim_er_at. Qed.
    Lemma S_eq k : S k = padd root (e_addr src k). Proof. apply sim_er_at. Qed.

    Lemma rel_copy1 conv pm m k : rel pm m ->
      rel (p_copy1 ptr peq conv D S pm k) (copy1 conv (e_addr dst) (e_addr src) m k).
    Proof. intros H. unfold p_copy1, copy1. rewrite D_eq, S_eq, (H (e_addr src k)). apply rel_upd, H. Qed.
    Lemma rel_move1 pm m k : rel pm m ->
      rel (p_move1 ptr peq D S pm k) (move1 (e_addr dst) (e_addr src) m k).
    Proof. intros H. unfold p_move1, move1. rewrite D_eq, S_eq, (H (e_addr src k)). apply rel_upd, rel_upd, H. Qed.
    Lemma rel_fill1 x pm m k : rel pm m -> rel (p_fill1 ptr peq x D pm k) (fill1 x (e_addr dst) m k).
    Proof. intros H. unfold p_fill1, fill1. rewrite D_eq. apply rel_upd, H. Qed.
    Lemma rel_swap1 pm m k : rel pm m ->
      rel (p_swap1 ptr peq D S pm k) (swap1 (e_addr dst) (e_addr src) m k).
    Proof.
      intros H. unfold p_swap1, swap1. rewrite D_eq, S_eq, (H (e_addr src k)), (H (e_addr dst k)).
      apply rel_upd, rel_upd, H.
    Qed.
    Lemma rel_put1 vals pm m k : rel pm m -> rel (p_put1 ptr peq vals D pm k) (put1 vals (e_addr dst) m k).
    Proof. intros H. unfold p_put1, put1. rewrite D_eq. apply rel_upd, H. Qed.

    Lemma off_copy1 conv pm k p : off_orbit p -> p_copy1 ptr peq conv D S pm k p = pm p.
    Proof. intros H. unfold p_copy1. rewrite D_eq. apply off_upd, H. Qed.
    Lemma off_move1 pm k p : off_orbit p -> p_move1 ptr peq D S pm k p = pm p.
    Proof. intros H. unfold p_move1. rewrite D_eq, S_eq, !off_upd by exact H. reflexivity. Qed.
    Lemma off_fill1 x pm k p : off_orbit p -> p_fill1 ptr peq x D pm k p = pm p.
    Proof. intros H. unfold p_fill1. rewrite D_eq. apply off_upd, H. Qed.
    Lemma off_swap1 pm k p : off_orbit p -> p_swap1 ptr peq D S pm k p = pm p.
    Proof. intros H. unfold p_swap1. rewrite D_eq, S_eq, !off_upd by exact H. reflexivity. Qed.
    Lemma off_put1 vals pm k p : off_orbit p -> p_put1 ptr peq vals D pm k p = pm p.
    Proof. intros H. unfold p_put1. rewrite D_eq. apply off_upd, H. Qed.
  End Loops.

  Lemma rel_seen pm : rel pm (seen pm).
  Proof. intros a. reflexivity. Qed.

  Theorem storage_parametric_proved : forall (conv : Z -> Z) (x : Z) (vals : list Z) (dst src : view) (pm : pmem ptr),
    let m := seen pm in
       (forall a, p_assign_view ptr padd peq conv (pv_of dst) (pv_of src) pm (padd root a) = assign_view conv dst src m a)
    /\ (forall a, p_move_view ptr padd peq (pv_of dst) (pv_of src) pm (padd root a) = move_view dst src m a)
    /\ (forall a, p_fill_view ptr padd peq x (pv_of dst) pm (padd root a) = fill_view x dst m a)
    /\ (forall a, p_swap_views ptr padd peq (pv_of dst) (pv_of src) pm (padd root a) = swap_views dst src m a)
    /\ (forall a, p_assign_vals ptr padd peq vals (pv_of dst) pm (padd root a) = assign_vals vals dst m a)
    /\ (forall p, off_orbit p ->
            p_assign_view ptr padd peq conv (pv_of dst) (pv_of src) pm p = pm p
         /\ p_move_view ptr padd peq (pv_of dst) (pv_of src) pm p = pm p
         /\ p_fill_view ptr padd peq x (pv_of dst) pm p = pm p
         /\ p_swap_views ptr padd peq (pv_of dst) (pv_of src) pm p = pm p
         /\ p_assign_vals ptr padd peq vals (pv_of dst) pm p = pm p).
  Proof.
    intros conv x vals dst src pm m.
    assert (R : rel pm m) by apply rel_seen.
    unfold p_assign_view, assign_view, p_move_view, move_view, p_fill_view, fill_view, p_swap_views, swap_views,
      p_assign_vals, assign_vals, p_loop, loop, p_er_size, er_size, pv_of. cbn [play].
    repeat split.
    - intros a. destruct (l_num_elements (lay dst) =? 0); [apply R|].
      apply (rel_fold _ _ (fun pm m k => rel_copy1 dst src conv pm m k)), R.
    - intros a. destruct (l_num_elements (lay dst) =? 0); [apply R|].
      apply (rel_fold _ _ (fun pm m k => rel_move1 dst src pm m k)), R.
    - intros a. apply (rel_fold _ _ (fun pm m k => rel_fill1 dst x pm m k)), R.
    - intros a. apply (rel_fold _ _ (fun pm m k => rel_swap1 dst src pm m k)), R.
    - intros a. apply (rel_fold _ _ (fun pm m k => rel_put1 dst vals pm m k)), R.
    - destruct (l_num_elements (lay dst) =? 0); [reflexivity|].
      apply off_fold. intros. apply (off_copy1 dst src); assumption.
    - destruct (l_num_elements (lay dst) =? 0); [reflexivity|].
      apply off_fold. intros. apply (off_move1 dst src); assumption.
    - apply off_fold. intros. apply (off_fill1 dst); assumption.
    - apply off_fold. intros. apply (off_swap1 dst src); assumption.
    - apply off_fold. intros. apply (off_put1 dst); assumption.
  Qed.

  (* ---------------- comparison ---------------- *)
  Lemma sim_abs_l l : forall b (pm : ptr -> Z) (m : Z -> Z), (forall a, pm (padd root a) = m a) ->
    p_abs_l ptr padd l (padd root b) pm = abs_l l b m.
  Proof.
    induction l as [|d l IH]; intros b pm m H; cbn [p_abs_l abs_l].
    - rewrite H. reflexivity.
    - f_equal. apply map_ext. intros i. rewrite padd_add. apply IH, H.
  Qed.

  Theorem compare_parametric_proved : forall (a b : view) (pm : ptr -> Z),
    let m := fun x => pm (padd root x) in
       p_v_tree ptr padd (pv_of a) pm = v_tree a m
    /\ p_v_eq ptr padd (pv_of a) (pv_of b) pm = v_eq a b m
    /\ p_v_ne ptr padd (pv_of a) (pv_of b) pm = v_ne a b m
    /\ p_v_lt ptr padd (pv_of a) (pv_of b) pm = v_lt a b m
    /\ p_v_le ptr padd (pv_of a) (pv_of b) pm = v_le a b m
    /\ p_v_gt ptr padd (pv_of a) (pv_of b) pm = v_gt a b m
    /\ p_v_ge ptr padd (pv_of a) (pv_of b) pm = v_ge a b m.
  Proof.
    intros a b pm m.
    assert (T : forall v, p_v_tree ptr padd (pv_of v) pm = v_tree v m).
    { intros v. unfold p_v_tree, v_tree, pv_of. cbn [play pbase]. apply sim_abs_l. reflexivity. }
    assert (Elt : forall u w, p_v_lt ptr padd (pv_of u) (pv_of w) pm = v_lt u w m).
    { intros u w. unfold p_v_lt, v_lt. rewrite !T. reflexivity. }
    assert (Eeq : forall u w, p_v_eq ptr padd (pv_of u) (pv_of w) pm = v_eq u w m).
    { intros u w. unfold p_v_eq, v_eq. rewrite !T. reflexivity. }
    repeat split.
    - apply T.
    - apply Eeq.
    - unfold p_v_ne, v_ne. rewrite !T. reflexivity.
    - apply Elt.
    - unfold p_v_le, v_le. rewrite Eeq, Elt. reflexivity.
    - unfold p_v_gt, v_gt. apply Elt.
    - unfold p_v_ge, v_ge. rewrite Eeq, Elt. reflexivity.
  Qed.
End PtrLaws.

(* the hypotheses are satisfiable, and by something that is not Z: a pointer that is a pair (segment, offset) *)
Lemma seg_laws :
     (forall p, seg_add p 0 = p)
  /\ (forall p a b, seg_add (seg_add p a) b = seg_add p (a + b))
  /\ (forall p a, seg_diff (seg_add p a) p = a)
  /\ (forall p q, seg_eq p q = true <-> p = q).
Proof.
  unfold seg_add, seg_diff, seg_eq. repeat split.
  - intros [s o]. cbn. f_equal. lia.
  - intros [s o] a b. cbn. f_equal. lia.
  - intros [s o] a. cbn. lia.
  - intros H. destruct p as [s o], q as [s' o']. cbn in H. apply andb_prop in H as [H1 H2].
    apply Nat.eqb_eq in H1. apply Z.eqb_eq in H2. subst. reflexivity.
  - intros ->. destruct q as [s o]. cbn. rewrite Nat.eqb_refl, Z.eqb_refl. reflexivity.
Qed.

Example C11_example :
  observe_ptr seg_ptr seg_add seg_diff seg_eq (7%nat, 1000) [(0, 3); (0, 4)]
    [IOp OTransposed; IProbe [2; 1]; IWalkA [IAdd 3; IDec]; IWalkE [IAdd 5]]
  = map (obs_map (seg_add (7%nat, 1000))) (observe_Z [(0, 3); (0, 4)]
    [IOp OTransposed; IProbe [2; 1]; IWalkA [IAdd 3; IDec]; IWalkE [IAdd 5]])
  /\ nth 2 (observe_Z [(0, 3); (0, 4)] [IOp OTransposed; IProbe [2; 1]]) OStop = OAddr 6 6 6.
Proof. vm_compute. split; reflexivity. Qed.

(* Values: the squares of operator=(array const&), assignment from a view, assign(first,last) / = {nested list},
   assign(extensions, value) and the converting assignment. *)
From BM Require Import Base.Tactics Model.Life Proofs.LifeBase Proofs.LifeMonad Proofs.LifeInv Proofs.LifeCells
  Proofs.LifeSteps Proofs.LifeCombi Proofs.LifeOps Proofs.LifeOps2 Proofs.LifeDisc Proofs.LifeFacts Proofs.LifeAlloc
  Proofs.LifeVal1 Proofs.LifeVal2 Proofs.LifeVal3 Proofs.LifeVal4 Proofs.LifeVal5 Proofs.LifeVal6 Proofs.LifeVal7.
Local Open Scope Z_scope.

Section Val8.
Variable cfg : config.
Hypothesis rank_pos : (1 <= c_rank cfg)%nat.
Notation Inv := (Inv cfg).
Notation Good := (Good cfg).
Set Default Proof Using "cfg rank_pos".
(* BEGIN-NOTATIONS *)
Notation vget_abs := (LifeVal4.vget_abs cfg rank_pos). Notation slot_ok := (LifeVal4.slot_ok cfg rank_pos). Notation nth_get_slot := (LifeVal4.nth_get_slot cfg rank_pos). Notation abs_arr_blocks_eq := (LifeVal4.abs_arr_blocks_eq cfg rank_pos). Notation abs_arr_realloc := (LifeVal4.abs_arr_realloc cfg rank_pos). Notation abs_empty := (LifeVal4.abs_empty cfg rank_pos). Notation own_empty := (LifeVal4.own_empty cfg rank_pos). Notation avals_built := (LifeVal4.avals_built cfg rank_pos). Notation keeps_blk_eq := (LifeVal4.keeps_blk_eq cfg rank_pos). Notation built_step := (LifeVal4.built_step cfg rank_pos). Notation built_bsame := (LifeVal4.built_bsame cfg rank_pos). Notation build_install_abs := (LifeVal4.build_install_abs cfg rank_pos). Notation map_nth_seq := (LifeVal4.map_nth_seq cfg rank_pos). Notation cells_of_nil := (LifeVal4.cells_of_nil cfg rank_pos). Notation cells_of_length := (LifeVal4.cells_of_length cfg rank_pos). Notation cells_of_vals := (LifeVal4.cells_of_vals cfg rank_pos). Notation cells_of_blk := (LifeVal4.cells_of_blk cfg rank_pos). Notation cells_facts := (LifeVal4.cells_facts cfg rank_pos). Notation sq_CtorDefault := (LifeVal4.sq_CtorDefault cfg rank_pos). Notation dflt_fill := (LifeVal4.dflt_fill cfg rank_pos). Notation sq_CtorSized := (LifeVal4.sq_CtorSized cfg rank_pos). Notation map_src_val_SVal := (LifeVal4.map_src_val_SVal cfg rank_pos). Notation srcs_old_SVal := (LifeVal4.srcs_old_SVal cfg rank_pos). Notation repeat_SVal := (LifeVal4.repeat_SVal cfg rank_pos). Notation sq_CtorFill := (LifeVal4.sq_CtorFill cfg rank_pos). Notation copy_square := (LifeVal4.copy_square cfg rank_pos). Notation sq_CtorCopy := (LifeVal4.sq_CtorCopy cfg rank_pos). Notation sq_CtorCopyAlloc := (LifeVal4.sq_CtorCopyAlloc cfg rank_pos). Notation move_square := (LifeVal4.move_square cfg rank_pos). Notation free_live_ne := (LifeVal4.free_live_ne cfg rank_pos). Notation live_lt_len := (LifeVal4.live_lt_len cfg rank_pos). Notation sq_CtorMove := (LifeVal4.sq_CtorMove cfg rank_pos). Notation bvals_blocks_eq := (LifeVal4.bvals_blocks_eq cfg rank_pos). Notation bsame_blocks_eq := (LifeVal4.bsame_blocks_eq cfg rank_pos). Notation bsame_nil_own := (LifeVal4.bsame_nil_own cfg rank_pos). Notation sq_CtorMoveAlloc := (LifeVal4.sq_CtorMoveAlloc cfg rank_pos). Notation view_facts := (LifeVal4.view_facts cfg rank_pos). Notation sq_CtorView := (LifeVal4.sq_CtorView cfg rank_pos). Notation sq_CtorRange := (LifeVal4.sq_CtorRange cfg rank_pos). Notation sq_CtorConv := (LifeVal4.sq_CtorConv cfg rank_pos). Notation own_with_bx := (LifeVal4.own_with_bx cfg rank_pos). Notation upd_tmp_cancel := (LifeVal4.upd_tmp_cancel cfg rank_pos). Notation sq_CtorIl := (LifeVal4.sq_CtorIl cfg rank_pos).
Notation avals_direct := (LifeVal5.avals_direct cfg rank_pos). Notation frame_own := (LifeVal5.frame_own cfg rank_pos). Notation live_get := (LifeVal5.live_get cfg rank_pos). Notation sq_clear := (LifeVal5.sq_clear cfg rank_pos). Notation sq_Clear := (LifeVal5.sq_Clear cfg rank_pos). Notation sq_AssignIlEmpty := (LifeVal5.sq_AssignIlEmpty cfg rank_pos). Notation sq_Destroy := (LifeVal5.sq_Destroy cfg rank_pos). Notation vset_same_get := (LifeVal5.vset_same_get cfg rank_pos). Notation sq_Swap := (LifeVal5.sq_Swap cfg rank_pos). Notation sq_Reshape := (LifeVal5.sq_Reshape cfg rank_pos). Notation cell_step_bsame := (LifeVal5.cell_step_bsame cfg rank_pos). Notation sq_Write := (LifeVal5.sq_Write cfg rank_pos). Notation assign_all_square := (LifeVal5.assign_all_square cfg rank_pos).
Notation blk_step_bsame := (LifeVal6.blk_step_bsame cfg rank_pos). Notation dflt_after := (LifeVal6.dflt_after cfg rank_pos). Notation p_dtor_empty := (LifeVal6.p_dtor_empty cfg rank_pos). Notation sq_ReextentMove := (LifeVal6.sq_ReextentMove cfg rank_pos). Notation arr_live_inv := (LifeVal6.arr_live_inv cfg rank_pos). Notation own_live_lt := (LifeVal6.own_live_lt cfg rank_pos). Notation cells_live := (LifeVal6.cells_live cfg rank_pos). Notation own_cases := (LifeVal6.own_cases cfg rank_pos). Notation move_assign_eff := (LifeVal6.move_assign_eff cfg rank_pos).
Notation disj_slots := (LifeVal7.disj_slots cfg rank_pos). Notation slots9 := (LifeVal7.slots9 cfg rank_pos). Notation sq_AssignMove := (LifeVal7.sq_AssignMove cfg rank_pos). Notation tmp2_route := (LifeVal7.tmp2_route cfg rank_pos). Notation tmp1_route := (LifeVal7.tmp1_route cfg rank_pos).
(* END-NOTATIONS *)
Notation val_dom := (val_dom cfg).
Notation pool_ok := (pool_ok cfg).

Lemma nel_bx a : wf_arr a -> bnumel (arr_bx a) = nel a.
Proof. apply (bnumel_arr_bx cfg rank_pos). Qed.

Lemma bx_eq_normal a b : normal a -> normal b -> bx_eq a b = true -> a = b.
Proof. intros Ha Hb. apply bx_eq_eq; apply normal_dims; auto. Qed.

Lemma sq_AssignCopy r t s s' : Good s -> pool_ok (abs_state s) -> dom_op cfg (s_arrs s) (OAssignCopy r t) ->
  step cfg (OAssignCopy r t) s = Ok tt s' -> abs_state s' = vstep cfg (OAssignCopy r t) (abs_state s).
Proof.
  intros G P ((ar & Lr) & (at_ & Lt)) H. pose proof G as (I & W & (T1 & T2 & T3)).
  destruct (live_get s r ar Lr) as (Gr & Hr & Hr6). destruct (live_get s t at_ Lt) as (Gt & Ht & Ht6).
  pose proof Lr as [_ Nr]. pose proof Lt as [_ Nt].
  cbn [step] in H. cbn [vstep]. unfold vset.
  destruct (Nat.eqb_spec r t) as [->|Hne].
  - open_get H. inv H. rewrite (vset_same_get s' t at_ Nt). auto.
  - open_get H. open_get H. assert (a = ar) by congruence. assert (a0 = at_) by congruence. subst a a0. cbv zeta in H.
    destruct (slot_ok s t at_ P Nt) as [Nmt _]. destruct (slot_ok s r ar P Nr) as [Nmr _].
    destruct (cells_facts s t at_ SCell I Gt (or_introl eq_refl)) as (So & Sl & Sv & Sb).
    rewrite (vget_abs s t at_ Nt), abs_arr_alt.
    destruct (bx_eq (arr_bx ar) (arr_bx at_) && (negb (c_pocca cfg) || alloc_eq cfg (a_alloc ar) (a_alloc at_))) eqn:Ek.
    + apply andb_prop in Ek. destruct Ek as [Eq _].
      pose proof (bx_eq_normal _ _ Nmr Nmt Eq) as Ebx.
      binv H u s0 E0. destruct u.
      assert (S0 : s_blocks s0 = s_blocks s /\ exists ar', s_arrs s0 = upd_nth (s_arrs s) r (Some ar') /\
                     a_base ar' = a_base ar /\ a_exts ar' = a_exts ar /\ a_first ar' = a_first ar).
      { destruct (c_pocca cfg).
        - apply p_set_alloc_inv in E0. destruct E0 as (a & G0 & A0 & K0). assert (a = ar) by congruence. subst a.
          split; auto. eexists. split; [exact A0|]. cbn. auto.
        - inv E0. split; auto. exists ar. split; auto. symmetry. apply upd_nth_same_val. auto. }
      destruct S0 as (K0 & ar' & A0 & Eb' & Ee' & Ef').
      replace (arr_bx at_) with (arr_bx ar') by (rewrite <- Ebx; unfold arr_bx; rewrite Ee', Ef'; auto).
      eapply assign_all_square with (ar := ar) (arp := ar);
        [exact I|exact Gr|exact Hr|exact K0|exact A0|exact Eb'|unfold nel; rewrite Ee'; auto|reflexivity|reflexivity| | |exact Sv|exact H].
      * eapply Forall_impl; [|exact Sb]. cbn. intros y Hy b Hb Hin. eapply (disj_slots s r t ar at_ I Hne Gr Gt b); auto.
      * rewrite Sl. unfold nnel. f_equal. rewrite <- (nel_bx at_ (W t at_ Nt)), <- (nel_bx ar (W r ar Nr)), Ebx. auto.
    + binv H p s1 E1. apply p_build_built in E1; auto. rewrite Sv in E1.
      binv H u s2 E2. destruct u. binv H u s3 E3. destruct u. binv H u s4 E4. destruct u. binv H u s5 E5. destruct u.
      unfold normal in Nmt. rewrite <- Nmt.
      eapply tmp1_route with (s4 := s4); [exact G|exact Lr|exact E1|symmetry; apply nel_bx; apply (W t at_ Nt)| |exact E2|exact E3| |exact E5|exact H].
      * rewrite <- Sv, map_length. exact Sl.
      * destruct (c_pocca cfg); [right; eexists; exact E4|left; inv E4; auto].
Qed.

Lemma sq_AssignView r t v mut s s' : Good s -> pool_ok (abs_state s) -> dom_op cfg (s_arrs s) (OAssignView r t v mut) ->
  val_dom (OAssignView r t v mut) ->
  step cfg (OAssignView r t v mut) s = Ok tt s' -> abs_state s' = vstep cfg (OAssignView r t v mut) (abs_state s).
Proof.
  intros G P (Hne & (ar & Lr) & (at_ & Lt & Dv)) [_ Vd] H. pose proof G as (I & W & (T1 & T2 & T3)).
  destruct (live_get s r ar Lr) as (Gr & Hr & Hr6). destruct (live_get s t at_ Lt) as (Gt & Ht & Ht6).
  pose proof Lr as [_ Nr]. pose proof Lt as [_ Nt]. destruct Dv as [Dv _].
  cbn [step] in H. open_get H. open_get H. assert (a = ar) by congruence. assert (a0 = at_) by congruence. subst a a0.
  cbn [vstep]. rewrite (vget_abs s r ar Nr), (vget_abs s t at_ Nt), !abs_arr_alt. cbn [snd]. unfold vset.
  destruct (view_facts s t at_ v I Gt Dv) as (So & Sl & Sv & Sb).
  assert (Hs : Forall (fun x => forall b, src_blk x = Some b -> ~ In b (own ar)) (vsrc_cells at_ v)).
  { eapply Forall_impl; [|exact Sb]. cbn. intros y Hy b Hb Hin. eapply (disj_slots s r t ar at_ I Hne Gr Gt b); auto. }
  destruct (bx_eq (arr_bx ar) (vs_exts v)) eqn:Eq.
  - eapply assign_all_square with (ar := ar) (arp := ar) (ar' := ar);
      [exact I|exact Gr|exact Hr|reflexivity|symmetry; apply upd_nth_same_val; auto|reflexivity|reflexivity|reflexivity|reflexivity
      |exact Hs| |exact Sv|exact H].
    rewrite Sl, Vd. unfold nnel. f_equal. rewrite <- (nel_bx ar (W r ar Nr)). symmetry. apply bx_eq_numel; auto.
  - destruct (mut && (nel ar =? bnumel (vs_exts v))) eqn:Em.
    + apply andb_prop in Em. destruct Em as [_ Em]. apply Z.eqb_eq in Em.
      binv H u s0 E0. destruct u. apply set_arr_inv in E0. destruct E0 as [A0 K0].
      rewrite <- (arr_bx_with (a_alloc ar) (a_base ar) (vs_exts v)).
      eapply assign_all_square with (ar := ar) (arp := with_bx (a_alloc ar) (a_base ar) (vs_exts v))
                                    (ar' := with_bx (a_alloc ar) (a_base ar) (vs_exts v));
        [exact I|exact Gr|exact Hr|exact K0|exact A0|reflexivity|rewrite nel_with_bx; auto|reflexivity|rewrite nel_with_bx; auto
        |exact Hs| |exact Sv|exact H].
      rewrite Sl, Vd. unfold nnel. congruence.
    + binv H p s1 E1. apply p_build_built in E1; auto; [|congruence]. rewrite Sv in E1.
      eapply tmp2_route; [exact G|exact Lr|exact E1|reflexivity| |exact H].
      unfold at_offs. rewrite map_length. auto.
Qed.

(* bx_sizes / length of the extensions of a well-formed array *)
Lemma bx_sizes_arr a : wf_arr a -> bx_sizes (arr_bx a) = a_exts a /\ length (arr_bx a) = length (a_exts a).
Proof.
  intros Wf. unfold wf_arr in Wf. unfold arr_bx. split; [apply (bx_sizes_combine cfg rank_pos); auto|].
  rewrite combine_length. lia.
Qed.

Lemma bx_sizes_zb l : bx_sizes (zb l) = l.
Proof. unfold bx_sizes, zb. rewrite map_map. cbn. apply map_id. Qed.

Lemma tl_combine {A B} (l : list A) (l' : list B) : tl (combine l l') = combine (tl l) (tl l').
Proof. destruct l, l'; cbn; auto. destruct l; auto. Qed.

Lemma same_shape_numel ar w : wf_arr ar -> length (a_exts ar) = c_rank cfg -> S (length (rw_ie w)) = c_rank cfg ->
  same_shape_rows ar w = true -> bnumel (rows_exts w) = nel ar.
Proof.
  intros Wf Hd Hw H. unfold same_shape_rows in H. apply andb_prop in H. destruct H as [Hk H]. apply Z.eqb_eq in Hk.
  unfold rows_exts, bnumel, nel. rewrite bx_sizes_zb.
  destruct (a_exts ar) as [|h tl_] eqn:Ee; [cbn in Hd; lia|]. cbn [hd] in *. cbn [numel fold_right]. rewrite Hk.
  change (fold_right Z.mul 1 (rw_ie w)) with (numel (rw_ie w)). change (fold_right Z.mul 1 tl_) with (numel tl_).
  apply orb_prop in H. destruct H as [H|H]; [apply orb_prop in H; destruct H as [H|H]|].
  - apply Nat.leb_le in H. cbn in H. destruct tl_; [|cbn in H; lia]. destruct (rw_ie w); [auto|cbn in *; lia].
  - apply Z.eqb_eq in H. subst h. lia.
  - apply bx_eq_numel in H. unfold bnumel in H. rewrite bx_sizes_zb in H. rewrite H. f_equal.
    unfold arr_bx. rewrite tl_combine, Ee. cbn [tl]. unfold wf_arr in Wf. rewrite Ee in Wf.
    destruct (a_first ar) as [|f fs]; [cbn in Wf; lia|]. cbn [tl]. f_equal. apply (bx_sizes_combine cfg rank_pos). cbn in Wf. lia.
Qed.

Lemma sq_AssignRange r w s s' : Good s -> pool_ok (abs_state s) -> dom_op cfg (s_arrs s) (OAssignRange r w) ->
  val_dom (OAssignRange r w) ->
  step cfg (OAssignRange r w) s = Ok tt s' -> abs_state s' = vstep cfg (OAssignRange r w) (abs_state s).
Proof.
  intros G P ((ar & Lr) & Dw) [Vr Vd] H. pose proof G as (I & W & (T1 & T2 & T3)).
  destruct (live_get s r ar Lr) as (Gr & Hr & Hr6). pose proof Lr as [_ Nr].
  cbn [step] in H. open_get H. assert (a = ar) by congruence. subst a.
  cbn [vstep]. rewrite (vget_abs s r ar Nr), !abs_arr_alt. unfold vset.
  destruct (bx_sizes_arr ar (W r ar Nr)) as [Es El]. rewrite Es, El.
  change ((rw_k w =? hd 0 (a_exts ar)) && ((length (a_exts ar) <=? 1)%nat || (hd 0 (a_exts ar) =? 0) || bx_eq (zb (rw_ie w)) (tl (arr_bx ar))))
    with (same_shape_rows ar w).
  destruct (slot_ok s r ar P Nr) as [_ Ld]. rewrite El in Ld.
  destruct (same_shape_rows ar w) eqn:Eq.
  - eapply assign_all_square with (ar := ar) (arp := ar) (ar' := ar);
      [exact I|exact Gr|exact Hr|reflexivity|symmetry; apply upd_nth_same_val; auto|reflexivity|reflexivity|reflexivity|reflexivity
      | | |apply map_src_val_SVal|exact H].
    + apply Forall_forall. intros y Hy. apply in_map_iff in Hy. destruct Hy as (z & <- & _). cbn. discriminate.
    + rewrite map_length, Vd. unfold nnel. f_equal. apply same_shape_numel; auto. apply (W r ar Nr).
  - binv H p s1 E1. apply p_build_built in E1; [|apply srcs_old_SVal|rewrite map_length; auto].
    rewrite map_src_val_SVal in E1.
    eapply tmp2_route; [exact G|exact Lr|exact E1|reflexivity|exact Vd|exact H].
Qed.

Lemma sq_AssignFill r x v s s' : Good s -> pool_ok (abs_state s) -> dom_op cfg (s_arrs s) (OAssignFill r x v) ->
  step cfg (OAssignFill r x v) s = Ok tt s' -> abs_state s' = vstep cfg (OAssignFill r x v) (abs_state s).
Proof.
  intros G P (ar & Lr) H. pose proof G as (I & W & (T1 & T2 & T3)).
  destruct (live_get s r ar Lr) as (Gr & Hr & Hr6). pose proof Lr as [_ Nr].
  cbn [step] in H. open_get H. assert (a = ar) by congruence. subst a.
  cbn [vstep]. rewrite (vget_abs s r ar Nr), !abs_arr_alt. unfold vset.
  destruct (bx_eq (arr_bx ar) x) eqn:Eq.
  - rewrite repeat_SVal in H.
    eapply assign_all_square with (ar := ar) (arp := ar) (ar' := ar);
      [exact I|exact Gr|exact Hr|reflexivity|symmetry; apply upd_nth_same_val; auto|reflexivity|reflexivity|reflexivity|reflexivity
      | | | |exact H].
    + apply Forall_forall. intros y Hy. apply in_map_iff in Hy. destruct Hy as (z & <- & _). cbn. discriminate.
    + rewrite map_length, repeat_length. auto.
    + rewrite map_src_val_SVal. f_equal. unfold nnel. f_equal. rewrite <- (nel_bx ar (W r ar Nr)). apply bx_eq_numel; auto.
  - binv H p s1 E1. rewrite repeat_SVal in E1.
    apply p_build_built in E1; [|apply srcs_old_SVal|rewrite map_length, repeat_length; auto].
    rewrite map_src_val_SVal in E1.
    binv H u s2 E2. destruct u. binv H u s3 E3. destruct u. binv H u s5 E5. destruct u.
    eapply tmp1_route with (s4 := s3); [exact G|exact Lr|exact E1|reflexivity|apply repeat_length|exact E2|exact E3|left; auto|exact E5|exact H].
Qed.

Lemma sq_AssignConv r x vals s s' : Good s -> pool_ok (abs_state s) -> dom_op cfg (s_arrs s) (OAssignConv r x vals) ->
  val_dom (OAssignConv r x vals) ->
  step cfg (OAssignConv r x vals) s = Ok tt s' -> abs_state s' = vstep cfg (OAssignConv r x vals) (abs_state s).
Proof.
  intros G P ((ar & Lr) & Dw) [_ Vd] H. pose proof G as (I & W & (T1 & T2 & T3)).
  destruct (live_get s r ar Lr) as (Gr & Hr & Hr6). pose proof Lr as [_ Nr].
  cbn [step] in H. open_get H. assert (a = ar) by congruence. subst a.
  cbn [vstep]. rewrite (vget_abs s r ar Nr), !abs_arr_alt. unfold vset.
  assert (Hs : Forall (fun y => forall b, src_blk y = Some b -> ~ In b (own ar)) (map SVal vals)).
  { apply Forall_forall. intros y Hy. apply in_map_iff in Hy. destruct Hy as (z & <- & _). cbn. discriminate. }
  destruct (bx_eq (arr_bx ar) (norm_bx x)) eqn:Eq.
  - eapply assign_all_square with (ar := ar) (arp := ar) (ar' := ar);
      [exact I|exact Gr|exact Hr|reflexivity|symmetry; apply upd_nth_same_val; auto|reflexivity|reflexivity|reflexivity|reflexivity
      |exact Hs| |apply map_src_val_SVal|exact H].
    rewrite map_length, Vd. unfold nnel. f_equal. rewrite <- (nel_bx ar (W r ar Nr)), <- (bnumel_norm_bx x).
    symmetry. apply bx_eq_numel; auto.
  - destruct (Z.eqb_spec (nel ar) (bnumel x)) as [Em|Em].
    + binv H u s0 E0. destruct u. apply set_arr_inv in E0. destruct E0 as [A0 K0].
      rewrite <- (norm_bx_idem x). rewrite <- (arr_bx_with (a_alloc ar) (a_base ar) (norm_bx x)).
      eapply assign_all_square with (ar := ar) (arp := with_bx (a_alloc ar) (a_base ar) (norm_bx x))
                                    (ar' := with_bx (a_alloc ar) (a_base ar) (norm_bx x));
        [exact I|exact Gr|exact Hr|exact K0|exact A0|reflexivity|rewrite nel_with_bx, bnumel_norm_bx; auto|reflexivity
        |rewrite nel_with_bx, bnumel_norm_bx; auto|exact Hs| |apply map_src_val_SVal|exact H].
      rewrite map_length, Vd. unfold nnel. congruence.
    + binv H p s1 E1. apply p_build_built in E1; [|apply srcs_old_SVal|rewrite map_length; auto].
      rewrite map_src_val_SVal in E1.
      eapply tmp2_route; [exact G|exact Lr|exact E1|reflexivity|exact Vd|exact H].
Qed.

Lemma sq_ViewAssign r t vr vt s s' : Good s -> dom_op cfg (s_arrs s) (OViewAssign r t vr vt) ->
  step cfg (OViewAssign r t vr vt) s = Ok tt s' -> abs_state s' = vstep cfg (OViewAssign r t vr vt) (abs_state s).
Proof.
  intros G (Hne & (ar & Lr & Dvr) & (at_ & Lt & Dvt) & Hx) H. pose proof G as (I & W & (T1 & T2 & T3)).
  destruct (live_get s r ar Lr) as (Gr & Hr & Hr6). destruct (live_get s t at_ Lt) as (Gt & Ht & Ht6).
  pose proof Lr as [_ Nr]. pose proof Lt as [_ Nt]. destruct Dvt as [Dvt _]. destruct Dvr as [Dvr _].
  cbn [step] in H. open_get H. open_get H. assert (a = ar) by congruence. assert (a0 = at_) by congruence. subst a a0.
  cbn [vstep]. rewrite (vget_abs s r ar Nr), (vget_abs s t at_ Nt), !abs_arr_alt. cbn [snd]. unfold vset.
  destruct (view_facts s t at_ vt I Gt Dvt) as (So & Sl & Sv & Sb).
  destruct (Z.leb_spec (nel ar) 0) as [Hn|Hn].
  - inv H. assert (E0 : vs_offs vr = []).
    { destruct (vs_offs vr) as [|o l]; auto. apply Forall_cons_iff in Dvr. destruct Dvr as [Ho _]. lia. }
    rewrite E0. cbn [put_list]. symmetry. apply upd_nth_same_val. rewrite abs_nth, Nr. cbn. rewrite abs_arr_alt. auto.
  - destruct (arr_facts cfg s r ar I Gr Hn) as (b & Eb & Ltb & Lv & Len & Ow).
    unfold base_blk in H. rewrite Eb in H. cbn [bind ret] in H. unfold bind, ret in H.
    apply assign_loop_vals in H.
    2:{ eapply Forall_impl; [|exact Sb]. cbn. intros y Hy E. apply (disj_slots s r t ar at_ I Hne Gr Gt b); [rewrite Ow; left; auto|].
        apply Hy. exact E. }
    rewrite Sv in H. pose proof (blk_step_bsame _ _ _ _ H) as B. destruct H as [A L Lv' Oth Here].
    eapply abs_upd1 with (a' := Some ar); [exact Hr|rewrite A; symmetry; apply upd_nth_same_val; auto| |].
    + cbn [option_map]. f_equal. rewrite abs_arr_alt. f_equal. unfold avals. rewrite Eb, Lv', Lv.
      destruct (Z.leb_spec (nel ar) 0); [lia|]. exact Here.
    + intros q a Hq Hnq. apply (frame_own s s' r ar q a I Gr); [rewrite Ow; exact B|exact Hq|exact Hnq].
Qed.

End Val8.

(* Values: the refinement theorem.  Every operation of the lifecycle machine commutes with the reference interpreter
   over values (step_abs: one square per operation, LifeVal4..9); the pool invariant (normal extensions of D
   dimensions) is kept by the reference interpreter; hence every fault-free history in its documented domain leaves the
   machine in a state whose abstraction is run_values of the history.  Corollaries for C04 and C06. *)
From BM Require Import Base.Tactics Model.Life Proofs.LifeBase Proofs.LifeMonad Proofs.LifeInv Proofs.LifeCells
  Proofs.LifeSteps Proofs.LifeCombi Proofs.LifeOps Proofs.LifeOps2 Proofs.LifeOffsets Proofs.LifeRefSpec Proofs.LifeDisc
  Proofs.LifeMain Proofs.LifeFacts Proofs.LifeAlloc
  Proofs.LifeVal1 Proofs.LifeVal2 Proofs.LifeVal3 Proofs.LifeVal4 Proofs.LifeVal5 Proofs.LifeVal6 Proofs.LifeVal7
  Proofs.LifeVal8 Proofs.LifeVal9.
Local Open Scope Z_scope.

Definition hist_vdom (cfg : config) (h : list lop) : Prop := Forall (val_dom cfg) h.

Section Val10.
Variable cfg : config.
Hypothesis rank_pos : (1 <= c_rank cfg)%nat.
Notation Inv := (Inv cfg).
Notation Good := (Good cfg).
Set Default Proof Using "cfg rank_pos".
(* BEGIN-NOTATIONS *)
Notation vget_abs := (LifeVal4.vget_abs cfg rank_pos). Notation slot_ok := (LifeVal4.slot_ok cfg rank_pos). Notation nth_get_slot := (LifeVal4.nth_get_slot cfg rank_pos). Notation abs_arr_blocks_eq := (LifeVal4.abs_arr_blocks_eq cfg rank_pos). Notation abs_arr_realloc := (LifeVal4.abs_arr_realloc cfg rank_pos). Notation abs_empty := (LifeVal4.abs_empty cfg rank_pos). Notation own_empty := (LifeVal4.own_empty cfg rank_pos). Notation avals_built := (LifeVal4.avals_built cfg rank_pos). Notation keeps_blk_eq := (LifeVal4.keeps_blk_eq cfg rank_pos). Notation built_step := (LifeVal4.built_step cfg rank_pos). Notation built_bsame := (LifeVal4.built_bsame cfg rank_pos). Notation build_install_abs := (LifeVal4.build_install_abs cfg rank_pos). Notation map_nth_seq := (LifeVal4.map_nth_seq cfg rank_pos). Notation cells_of_nil := (LifeVal4.cells_of_nil cfg rank_pos). Notation cells_of_length := (LifeVal4.cells_of_length cfg rank_pos). Notation cells_of_vals := (LifeVal4.cells_of_vals cfg rank_pos). Notation cells_of_blk := (LifeVal4.cells_of_blk cfg rank_pos). Notation cells_facts := (LifeVal4.cells_facts cfg rank_pos). Notation sq_CtorDefault := (LifeVal4.sq_CtorDefault cfg rank_pos). Notation dflt_fill := (LifeVal4.dflt_fill cfg rank_pos). Notation sq_CtorSized := (LifeVal4.sq_CtorSized cfg rank_pos). Notation map_src_val_SVal := (LifeVal4.map_src_val_SVal cfg rank_pos). Notation srcs_old_SVal := (LifeVal4.srcs_old_SVal cfg rank_pos). Notation repeat_SVal := (LifeVal4.repeat_SVal cfg rank_pos). Notation sq_CtorFill := (LifeVal4.sq_CtorFill cfg rank_pos). Notation copy_square := (LifeVal4.copy_square cfg rank_pos). Notation sq_CtorCopy := (LifeVal4.sq_CtorCopy cfg rank_pos). Notation sq_CtorCopyAlloc := (LifeVal4.sq_CtorCopyAlloc cfg rank_pos). Notation move_square := (LifeVal4.move_square cfg rank_pos). Notation free_live_ne := (LifeVal4.free_live_ne cfg rank_pos). Notation live_lt_len := (LifeVal4.live_lt_len cfg rank_pos). Notation sq_CtorMove := (LifeVal4.sq_CtorMove cfg rank_pos). Notation bvals_blocks_eq := (LifeVal4.bvals_blocks_eq cfg rank_pos). Notation bsame_blocks_eq := (LifeVal4.bsame_blocks_eq cfg rank_pos). Notation bsame_nil_own := (LifeVal4.bsame_nil_own cfg rank_pos). Notation sq_CtorMoveAlloc := (LifeVal4.sq_CtorMoveAlloc cfg rank_pos). Notation view_facts := (LifeVal4.view_facts cfg rank_pos). Notation sq_CtorView := (LifeVal4.sq_CtorView cfg rank_pos). Notation sq_CtorRange := (LifeVal4.sq_CtorRange cfg rank_pos). Notation sq_CtorConv := (LifeVal4.sq_CtorConv cfg rank_pos). Notation own_with_bx := (LifeVal4.own_with_bx cfg rank_pos). Notation upd_tmp_cancel := (LifeVal4.upd_tmp_cancel cfg rank_pos). Notation sq_CtorIl := (LifeVal4.sq_CtorIl cfg rank_pos).
Notation avals_direct := (LifeVal5.avals_direct cfg rank_pos). Notation frame_own := (LifeVal5.frame_own cfg rank_pos). Notation live_get := (LifeVal5.live_get cfg rank_pos). Notation sq_clear := (LifeVal5.sq_clear cfg rank_pos). Notation sq_Clear := (LifeVal5.sq_Clear cfg rank_pos). Notation sq_AssignIlEmpty := (LifeVal5.sq_AssignIlEmpty cfg rank_pos). Notation sq_Destroy := (LifeVal5.sq_Destroy cfg rank_pos). Notation vset_same_get := (LifeVal5.vset_same_get cfg rank_pos). Notation sq_Swap := (LifeVal5.sq_Swap cfg rank_pos). Notation sq_Reshape := (LifeVal5.sq_Reshape cfg rank_pos). Notation cell_step_bsame := (LifeVal5.cell_step_bsame cfg rank_pos). Notation sq_Write := (LifeVal5.sq_Write cfg rank_pos). Notation assign_all_square := (LifeVal5.assign_all_square cfg rank_pos).
Notation blk_step_bsame := (LifeVal6.blk_step_bsame cfg rank_pos). Notation dflt_after := (LifeVal6.dflt_after cfg rank_pos). Notation p_dtor_empty := (LifeVal6.p_dtor_empty cfg rank_pos). Notation sq_ReextentMove := (LifeVal6.sq_ReextentMove cfg rank_pos). Notation arr_live_inv := (LifeVal6.arr_live_inv cfg rank_pos). Notation own_live_lt := (LifeVal6.own_live_lt cfg rank_pos). Notation cells_live := (LifeVal6.cells_live cfg rank_pos). Notation own_cases := (LifeVal6.own_cases cfg rank_pos). Notation move_assign_eff := (LifeVal6.move_assign_eff cfg rank_pos).
Notation disj_slots := (LifeVal7.disj_slots cfg rank_pos). Notation slots9 := (LifeVal7.slots9 cfg rank_pos). Notation sq_AssignMove := (LifeVal7.sq_AssignMove cfg rank_pos). Notation tmp2_route := (LifeVal7.tmp2_route cfg rank_pos). Notation tmp1_route := (LifeVal7.tmp1_route cfg rank_pos).
Notation nel_bx := (LifeVal8.nel_bx cfg rank_pos). Notation bx_eq_normal := (LifeVal8.bx_eq_normal cfg rank_pos). Notation sq_AssignCopy := (LifeVal8.sq_AssignCopy cfg rank_pos). Notation sq_AssignView := (LifeVal8.sq_AssignView cfg rank_pos). Notation bx_sizes_arr := (LifeVal8.bx_sizes_arr cfg rank_pos). Notation bx_sizes_zb := (LifeVal8.bx_sizes_zb cfg rank_pos). Notation tl_combine := (LifeVal8.tl_combine cfg rank_pos). Notation same_shape_numel := (LifeVal8.same_shape_numel cfg rank_pos). Notation sq_AssignRange := (LifeVal8.sq_AssignRange cfg rank_pos). Notation sq_AssignFill := (LifeVal8.sq_AssignFill cfg rank_pos). Notation sq_AssignConv := (LifeVal8.sq_AssignConv cfg rank_pos). Notation sq_ViewAssign := (LifeVal8.sq_ViewAssign cfg rank_pos).
Notation blk_step_trans := (LifeVal9.blk_step_trans cfg rank_pos). Notation sq_Reextent := (LifeVal9.sq_Reextent cfg rank_pos).
(* END-NOTATIONS *)
Notation val_dom := (val_dom cfg).
Notation pool_ok := (pool_ok cfg).

(* ---- one square per operation ---- *)
Theorem step_abs o s s' : Good s -> pool_ok (abs_state s) -> dom_op cfg (s_arrs s) o -> val_dom o ->
  step cfg o s = Ok tt s' -> abs_state s' = vstep cfg o (abs_state s).
Proof.
  intros G P D V H. destruct o.
  - eapply sq_CtorDefault; eauto. - eapply sq_CtorSized; eauto. - eapply sq_CtorFill; eauto.
  - eapply sq_CtorCopy; eauto. - eapply sq_CtorCopyAlloc; eauto. - eapply sq_CtorMove; eauto.
  - eapply sq_CtorMoveAlloc; eauto. - eapply sq_CtorView; eauto. - eapply sq_CtorRange; eauto.
  - eapply sq_CtorIl; eauto. - eapply sq_CtorConv; eauto. - eapply sq_AssignCopy; eauto.
  - eapply sq_AssignMove; eauto. - eapply sq_AssignView; eauto. - eapply sq_AssignRange; eauto.
  - eapply sq_AssignIlEmpty; eauto. - eapply sq_AssignFill; eauto. - eapply sq_AssignConv; eauto.
  - eapply sq_Swap; eauto. - eapply sq_Clear; eauto. - eapply sq_Reextent; eauto.
  - eapply sq_ReextentMove; eauto. - eapply sq_Reshape; eauto. - eapply sq_Write; eauto.
  - eapply sq_Destroy; eauto. - eapply sq_ViewAssign; eauto.
Qed.

(* ---- the pool invariant ---- *)
Lemma pool_ok_upd P r v : pool_ok P ->
  (match v with Some w => normal (fst w) /\ length (fst w) = c_rank cfg | None => True end) -> pool_ok (upd_nth P r v).
Proof.
  intros HP Hv q w Hq. destruct (Nat.eq_dec r q) as [<-|Hne].
  - destruct (Nat.lt_ge_cases r (length P)) as [Hl|Hl].
    + rewrite nth_upd_same in Hq by auto. inv Hq. exact Hv.
    + assert (nth_error (upd_nth P r v) r = None) by (apply nth_error_None; rewrite upd_nth_length; lia). congruence.
  - rewrite nth_upd_other in Hq by auto. eapply HP; eauto.
Qed.

Lemma norm_ok x : length x = c_rank cfg -> normal (norm_bx x) /\ length (norm_bx x) = c_rank cfg.
Proof.
  intros H. split; [apply norm_bx_idem|]. unfold norm_bx. destruct (mk_lengths x). rewrite combine_length. lia.
Qed.

Lemma collapse_zeros d : collapse (zeros d) = zeros d.
Proof.
  unfold zeros. induction d as [|d IH]; cbn; auto. rewrite IH.
  destruct (numel (repeat 0 d) =? 0); reflexivity.
Qed.

Lemma map_zero_combine d : map (fun p : Z * Z => if snd p =? 0 then 0 else fst p) (combine (zeros d) (zeros d)) = zeros d.
Proof. unfold zeros. induction d as [|d IH]; cbn; auto. f_equal. exact IH. Qed.

Lemma vempty_ok : normal (fst (vempty cfg)) /\ length (fst (vempty cfg)) = c_rank cfg.
Proof.
  cbn [vempty fst]. split.
  - unfold normal. rewrite <- zeros_combine. unfold norm_bx.
    destruct (combine_sizes (zeros (c_rank cfg)) (zeros (c_rank cfg)) eq_refl) as [Hs Hf].
    assert (Es : mk_sizes (combine (zeros (c_rank cfg)) (zeros (c_rank cfg))) = zeros (c_rank cfg)).
    { unfold mk_sizes. rewrite Hs. apply collapse_zeros. }
    unfold mk_firsts. rewrite Es, Hf. rewrite map_zero_combine. reflexivity.
  - unfold zb, zeros. rewrite map_length, repeat_length. auto.
Qed.

Lemma slot_pool s q a : pool_ok (abs_state s) -> nth_error (s_arrs s) q = Some (Some a) ->
  normal (fst (abs_arr s a)) /\ length (fst (abs_arr s a)) = c_rank cfg.
Proof. intros P H. apply (P q). rewrite abs_nth, H. reflexivity. Qed.

Lemma rows_exts_length w : length (rows_exts w) = S (length (rw_ie w)).
Proof. unfold rows_exts, zb. rewrite map_length. reflexivity. Qed.

Lemma pool_ok_step s o : pool_ok (abs_state s) -> dom_op cfg (s_arrs s) o -> val_dom o ->
  pool_ok (vstep cfg o (abs_state s)).
Proof.
  intros P D V.
  assert (Pe : forall r, pool_ok (upd_nth (abs_state s) r (Some (vempty cfg)))).
  { intros r. apply pool_ok_upd; auto. apply vempty_ok. }
  assert (Pn : forall r x vals, length x = c_rank cfg -> pool_ok (upd_nth (abs_state s) r (Some (norm_bx x, vals)))).
  { intros r x vals Hx. apply pool_ok_upd; auto. cbn [fst]. apply norm_ok; auto. }
  assert (Pg : forall r t a, nth_error (s_arrs s) t = Some (Some a) -> pool_ok (upd_nth (abs_state s) r (Some (vget (abs_state s) t)))).
  { intros r t a Ht. apply pool_ok_upd; auto. rewrite (vget_abs s t a Ht). eapply slot_pool; eauto. }
  destruct o; cbn [vstep val_dom dom_op] in *; unfold vset.
  - apply Pe. - apply Pn; auto. - apply Pn; auto.
  - destruct D as (_ & src_ & _ & Ha). eapply Pg; eauto.
  - destruct D as (_ & src_ & _ & Ha). eapply Pg; eauto.
  - destruct D as (_ & src_ & _ & Ha). apply pool_ok_upd; [eapply Pg; eauto|apply vempty_ok].
  - destruct D as (_ & src_ & _ & Ha). apply pool_ok_upd; [eapply Pg; eauto|apply vempty_ok].
  - apply Pn. apply V. - apply Pn. rewrite rows_exts_length. apply V.
  - destruct (rw_k w =? 0); [apply Pe|apply Pn; rewrite rows_exts_length; apply V].
  - apply Pn. apply V.
  - destruct D as (_ & src_ & _ & Ha). eapply Pg; eauto.
  - destruct (r =? s0)%nat; auto. destruct D as (_ & src_ & _ & Ha). apply pool_ok_upd; [eapply Pg; eauto|apply vempty_ok].
  - destruct D as (_ & (ar & _ & Hr) & _). rewrite (vget_abs s r ar Hr), abs_arr_alt.
    apply pool_ok_upd; auto. cbn [fst]. destruct (bx_eq _ _); [|apply norm_ok; apply V].
    eapply slot_ok; eauto.
  - destruct D as ((ar & _ & Hr) & _). rewrite (vget_abs s r ar Hr), abs_arr_alt.
    apply pool_ok_upd; auto. cbn [fst]. destruct (_ && _); [|apply norm_ok; rewrite rows_exts_length; apply V].
    eapply slot_ok; eauto.
  - apply Pe.
  - destruct D as (ar & _ & Hr). rewrite (vget_abs s r ar Hr), abs_arr_alt.
    apply pool_ok_upd; auto. cbn [fst]. destruct (bx_eq _ _); [|apply norm_ok; apply V].
    eapply slot_ok; eauto.
  - destruct D as ((ar & _ & Hr) & _). rewrite (vget_abs s r ar Hr), abs_arr_alt.
    apply pool_ok_upd; auto. cbn [fst]. destruct (bx_eq _ _); [|apply norm_ok; apply V].
    eapply slot_ok; eauto.
  - destruct D as (ar & at_ & (_ & Hr) & (_ & Ht) & _). apply pool_ok_upd; [eapply Pg; eauto|].
    rewrite (vget_abs s r ar Hr). eapply slot_pool; eauto.
  - apply Pe.
  - destruct D as (ar & (_ & Hr) & _). rewrite (vget_abs s r ar Hr), abs_arr_alt. destruct (bx_eq _ _); auto; apply Pn; apply V.
  - destruct D as (ar & _ & Hr). rewrite (vget_abs s r ar Hr), abs_arr_alt. destruct (bx_eq _ _); auto; apply Pn; apply V.
  - apply Pn. apply V.
  - destruct D as (ar & (_ & Hr) & _). rewrite (vget_abs s r ar Hr), abs_arr_alt. apply pool_ok_upd; auto. cbn [fst].
    eapply slot_ok; eauto.
  - apply pool_ok_upd; auto.
  - destruct D as (_ & (ar & (_ & Hr) & _) & _). rewrite (vget_abs s r ar Hr), abs_arr_alt. apply pool_ok_upd; auto. cbn [fst].
    eapply slot_ok; eauto.
Qed.

(* ---- histories ---- *)
Definition nothrown (s : state) : Prop := forall w, ~ In (EvThrow w) (s_ledger s).

Lemma run_op_nofault o s : Good s -> s_fault s = None -> nothrown s -> dom_op cfg (s_arrs s) o ->
  exists s', run_op cfg o s = (OutOk, s') /\ step cfg o (reset_counts s) = Ok tt s' /\
             Good s' /\ s_fault s' = None /\ nothrown s'.
Proof.
  intros G Hf Hn D.
  pose proof (run_op_good cfg rank_pos o s G D) as Hg. pose proof (run_op_quiet cfg o s Hf) as Hq.
  unfold run_op in *. destruct (step cfg o (reset_counts s)) as [[] s1|s1|e].
  - destruct Hq as [Q _]. destruct (Q Hf) as [Hf1 Hev]. destruct Hg as [_ [[G1 _]|B]].
    + exists s1. split; [reflexivity|]. split; [reflexivity|]. split; [exact G1|]. split; [exact Hf1|].
      intros w Hw. apply (Hn w). apply Hev. exact Hw.
    + exfalso. destruct B as [B|[B|B]]; apply Hev in B; apply (Hn _ B).
  - exfalso. destruct (unwind cfg s1) as [[] s2|s2|e].
    + destruct Hq as [_ [Ho|[e' Ho]]]; discriminate.
    + destruct Hq as [_ [Ho|[e' Ho]]]; discriminate.
    + destruct Hq as [Q _]. destruct (Q Hf) as [_ Hev]. destruct Hg as [_ [[_ Ne]|B]]; [exact Ne|].
      destruct B as [B|[B|B]]; apply Hev in B; apply (Hn _ B).
  - exfalso. destruct Hg as [_ [[_ Ne]|B]]; [exact Ne|]. destruct B as [B|[B|B]]; apply (Hn _ B).
Qed.

Lemma abs_reset s : abs_state (reset_counts s) = abs_state s.
Proof. reflexivity. Qed.

Lemma run_values_sim h : forall s, Good s -> s_fault s = None -> nothrown s -> pool_ok (abs_state s) ->
  hist_dom cfg h s -> hist_vdom cfg h ->
  abs_state (snd (run_life cfg h s)) = run_values cfg h (abs_state s).
Proof.
  induction h as [|o h IH]; intros s G Hf Hn P D V; [reflexivity|].
  destruct D as [Do Dr]. apply Forall_cons_iff in V. destruct V as [Vo Vr].
  destruct (run_op_nofault o s G Hf Hn Do) as (s1 & Er & Es & G1 & Hf1 & Hn1).
  cbn [run_life]. rewrite Er in *. cbn [snd] in Dr.
  assert (Ea : abs_state s1 = vstep cfg o (abs_state s)).
  { rewrite <- (abs_reset s). apply step_abs; auto.
    - apply (Good_reset cfg); auto. }
  assert (P1 : pool_ok (abs_state s1)) by (rewrite Ea; apply pool_ok_step; auto).
  specialize (IH s1 G1 Hf1 Hn1 P1 Dr Vr).
  destruct (run_life cfg h s1) as [outs s2]. cbn [snd] in *. rewrite IH, Ea. reflexivity.
Qed.

Lemma pool_ok_st0 f : pool_ok (abs_state (st0 f)).
Proof.
  intros q v H. unfold abs_state, st0 in H. cbn in H. do 9 (destruct q as [|q]; [discriminate|]). destruct q; discriminate.
Qed.

(* the machine refines the reference interpreter over values *)
Theorem value_semantics h : hist_dom cfg h (st0 None) -> hist_vdom cfg h ->
  abs_state (snd (run_life cfg h (st0 None))) = run_values cfg h (abs_state (st0 None)).
Proof.
  intros D V. apply run_values_sim; auto.
  - apply (Good_st0 cfg).
  - intros w [].
  - apply pool_ok_st0.
Qed.

(* ---- corollaries on single operations of the machine ---- *)
Lemma vget_upd_same P r v : (r < length P)%nat -> vget (upd_nth P r (Some v)) r = v.
Proof. intros H. unfold vget. rewrite nth_upd_same; auto. Qed.
Lemma vget_upd_other P r q v : r <> q -> vget (upd_nth P r v) q = vget P q.
Proof. intros H. unfold vget. rewrite nth_upd_other; auto. Qed.

Lemma live_lt_abs s r ar : live (s_arrs s) r ar -> (r < length (abs_state s))%nat.
Proof. intros [_ H]. rewrite abs_state_length. apply nth_error_Some. congruence. Qed.
Lemma free_lt_abs s r : free (s_arrs s) r -> (r < length (abs_state s))%nat.
Proof. intros [_ H]. rewrite abs_state_length. apply nth_error_Some. congruence. Qed.

Lemma step_good o s s' : Good s -> dom_op cfg (s_arrs s) o -> step cfg o s = Ok tt s' -> Good s'.
Proof.
  intros (I & W & T) D H. pose proof (step_ok cfg rank_pos o (s_arrs s) W T D s (conj I eq_refl)) as Tr.
  rewrite H in Tr. exact Tr.
Qed.

(* a copy is independent of its source: a later write to either leaves the other's value alone *)
Theorem copy_then_write_copy r t k v s s1 s2 : Good s -> pool_ok (abs_state s) ->
  dom_op cfg (s_arrs s) (OCtorCopy r t) -> step cfg (OCtorCopy r t) s = Ok tt s1 ->
  dom_op cfg (s_arrs s1) (OWrite r k v) -> step cfg (OWrite r k v) s1 = Ok tt s2 ->
  vget (abs_state s2) t = vget (abs_state s) t /\
  vget (abs_state s2) r = (fst (vget (abs_state s) t), upd_nth (snd (vget (abs_state s) t)) k v).
Proof.
  intros G P D1 H1 D2 H2.
  pose proof (step_abs _ _ _ G P D1 Logic.I H1) as E1.
  pose proof (step_good _ _ _ G D1 H1) as G1.
  assert (P1 : pool_ok (abs_state s1)) by (rewrite E1; apply pool_ok_step; auto; exact Logic.I).
  pose proof (step_abs _ _ _ G1 P1 D2 Logic.I H2) as E2.
  destruct D1 as (Df & at_ & Lt). pose proof (free_live_ne _ _ _ _ Df Lt) as Hne.
  pose proof (free_lt_abs s r Df) as Lr.
  rewrite E2, E1. cbn [vstep]. unfold vset. rewrite vget_upd_same by auto.
  destruct (vget (abs_state s) t) as [e vals] eqn:Et. cbn [fst snd]. split.
  - rewrite vget_upd_other by auto. rewrite vget_upd_other by auto. exact Et.
  - rewrite vget_upd_same by (rewrite upd_nth_length; auto). reflexivity.
Qed.

Theorem copy_then_write_source r t k v s s1 s2 : Good s -> pool_ok (abs_state s) ->
  dom_op cfg (s_arrs s) (OCtorCopy r t) -> step cfg (OCtorCopy r t) s = Ok tt s1 ->
  dom_op cfg (s_arrs s1) (OWrite t k v) -> step cfg (OWrite t k v) s1 = Ok tt s2 ->
  vget (abs_state s2) r = vget (abs_state s) t.
Proof.
  intros G P D1 H1 D2 H2.
  pose proof (step_abs _ _ _ G P D1 Logic.I H1) as E1.
  pose proof (step_good _ _ _ G D1 H1) as G1.
  assert (P1 : pool_ok (abs_state s1)) by (rewrite E1; apply pool_ok_step; auto; exact Logic.I).
  pose proof (step_abs _ _ _ G1 P1 D2 Logic.I H2) as E2.
  destruct D1 as (Df & at_ & Lt). pose proof (free_live_ne _ _ _ _ Df Lt) as Hne.
  pose proof (free_lt_abs s r Df) as Lr.
  rewrite E2, E1. cbn [vstep]. unfold vset.
  destruct (vget (upd_nth (abs_state s) r (Some (vget (abs_state s) t))) t) as [e vals].
  rewrite vget_upd_other by auto. apply vget_upd_same; auto.
Qed.

(* array = view of another live array: the view's extensions (the own ones when they are equal) and the elements at the
   offsets of the view *)
Theorem assign_view_value r t v mut s s' : Good s -> pool_ok (abs_state s) ->
  dom_op cfg (s_arrs s) (OAssignView r t v mut) -> val_dom (OAssignView r t v mut) ->
  step cfg (OAssignView r t v mut) s = Ok tt s' ->
  vget (abs_state s') r =
    ((if bx_eq (fst (vget (abs_state s) r)) (vs_exts v) then fst (vget (abs_state s) r) else norm_bx (vs_exts v)),
     at_offs (snd (vget (abs_state s) t)) (vs_offs v)).
Proof.
  intros G P D V H. rewrite (step_abs _ _ _ G P D V H). cbn [vstep].
  destruct D as (_ & (ar & Lr) & _). pose proof (live_lt_abs s r ar Lr) as L.
  destruct (vget (abs_state s) r) as [e vals]. unfold vset. rewrite vget_upd_same by auto. reflexivity.
Qed.

(* reextent on the machine: the new extensions; common index tuples keep their value; the others read the fill value
   or the value-initialised element (the allocator's paint for trivially default constructible element types) *)
Theorem reextent_spec r x fv s s' : Good s -> pool_ok (abs_state s) ->
  dom_op cfg (s_arrs s) (OReextent r x fv) -> val_dom (OReextent r x fv) ->
  step cfg (OReextent r x fv) s = Ok tt s' ->
  bx_eq x (fst (vget (abs_state s) r)) = false ->
  let d := match fv with Some v => v | None => dflt_val cfg end in
  fst (vget (abs_state s') r) = norm_bx x /\
  forall idx, in_bx (norm_bx x) idx = true ->
    nth (Z.to_nat (rowmajor (norm_bx x) idx)) (snd (vget (abs_state s') r)) d =
    if in_bx (fst (vget (abs_state s) r)) idx
    then nth (Z.to_nat (rowmajor (fst (vget (abs_state s) r)) idx)) (snd (vget (abs_state s) r)) d else d.
Proof.
  intros G P D V H Hne d. rewrite (step_abs _ _ _ G P D V H). cbn [vstep].
  destruct D as (ar & Lr & _). pose proof (live_lt_abs s r ar Lr) as L.
  destruct (vget (abs_state s) r) as [e vals]. cbn [fst snd] in *. rewrite Hne. unfold vset. rewrite vget_upd_same by auto.
  cbn [fst snd]. split; auto. intros idx Hi. apply reext_vals_spec. exact Hi.
Qed.

(* the new elements of reextent(x) without a fill value, by the trait the code branches on *)
Theorem reextent_new_value_initialised r x s s' idx : c_tdc cfg = false -> Good s -> pool_ok (abs_state s) ->
  dom_op cfg (s_arrs s) (OReextent r x None) -> val_dom (OReextent r x None) ->
  step cfg (OReextent r x None) s = Ok tt s' -> bx_eq x (fst (vget (abs_state s) r)) = false ->
  in_bx (norm_bx x) idx = true -> in_bx (fst (vget (abs_state s) r)) idx = false ->
  nth (Z.to_nat (rowmajor (norm_bx x) idx)) (snd (vget (abs_state s') r)) 0 = 0.
Proof.
  intros Ht G P D V H Hne Hi Ho. destruct (reextent_spec r x None s s' G P D V H Hne) as [_ Sp].
  specialize (Sp idx Hi). rewrite Ho in Sp. unfold dflt_val in Sp. rewrite Ht in Sp. exact Sp.
Qed.

Theorem reextent_new_not_written r x s s' idx : c_tdc cfg = true -> Good s -> pool_ok (abs_state s) ->
  dom_op cfg (s_arrs s) (OReextent r x None) -> val_dom (OReextent r x None) ->
  step cfg (OReextent r x None) s = Ok tt s' -> bx_eq x (fst (vget (abs_state s) r)) = false ->
  in_bx (norm_bx x) idx = true -> in_bx (fst (vget (abs_state s) r)) idx = false ->
  nth (Z.to_nat (rowmajor (norm_bx x) idx)) (snd (vget (abs_state s') r)) pat = pat.
Proof.
  intros Ht G P D V H Hne Hi Ho. destruct (reextent_spec r x None s s' G P D V H Hne) as [_ Sp].
  specialize (Sp idx Hi). rewrite Ho in Sp. unfold dflt_val in Sp. rewrite Ht in Sp. exact Sp.
Qed.

Theorem reshape_flat_values r x s s' : Good s -> pool_ok (abs_state s) ->
  dom_op cfg (s_arrs s) (OReshape r x) -> val_dom (OReshape r x) -> step cfg (OReshape r x) s = Ok tt s' ->
  vget (abs_state s') r = (norm_bx x, snd (vget (abs_state s) r)).
Proof.
  intros G P D V H. rewrite (step_abs _ _ _ G P D V H). cbn [vstep].
  destruct D as (ar & Lr & _). pose proof (live_lt_abs s r ar Lr) as L. unfold vset. apply vget_upd_same; auto.
Qed.

Theorem assign_range_contents r w s s' : Good s -> pool_ok (abs_state s) ->
  dom_op cfg (s_arrs s) (OAssignRange r w) -> val_dom (OAssignRange r w) -> step cfg (OAssignRange r w) s = Ok tt s' ->
  snd (vget (abs_state s') r) = rw_vals w /\
  (fst (vget (abs_state s') r) = fst (vget (abs_state s) r) \/ fst (vget (abs_state s') r) = norm_bx (rows_exts w)).
Proof.
  intros G P D V H. rewrite (step_abs _ _ _ G P D V H). cbn [vstep].
  destruct D as ((ar & Lr) & _). pose proof (live_lt_abs s r ar Lr) as L.
  destruct (vget (abs_state s) r) as [e vals]. unfold vset. rewrite vget_upd_same by auto. cbn [fst snd]. split; auto.
  destruct (_ && _); auto.
Qed.

Theorem assign_fill_contents r x v s s' : Good s -> pool_ok (abs_state s) ->
  dom_op cfg (s_arrs s) (OAssignFill r x v) -> val_dom (OAssignFill r x v) -> step cfg (OAssignFill r x v) s = Ok tt s' ->
  snd (vget (abs_state s') r) = repeat v (Z.to_nat (bnumel x)).
Proof.
  intros G P D V H. rewrite (step_abs _ _ _ G P D V H). cbn [vstep].
  destruct D as (ar & Lr). pose proof (live_lt_abs s r ar Lr) as L.
  destruct (vget (abs_state s) r) as [e vals]. unfold vset. rewrite vget_upd_same by auto. reflexivity.
Qed.

(* assignment through views replaces no array object (extents, storage, allocator), whether it succeeds or throws *)
Theorem view_assign_keeps_arrays r t vr vt : keeps (step cfg (OViewAssign r t vr vt)).
Proof.
  cbn [step]. apply keeps_bind; [intros s; unfold get_arr; destruct (nth_error (s_arrs s) r) as [[a|]|]; cbn; auto|].
  intros ar. apply keeps_bind; [intros s; unfold get_arr; destruct (nth_error (s_arrs s) t) as [[a|]|]; cbn; auto|].
  intros at_. destruct (nel ar <=? 0); [apply keeps_ret|].
  apply keeps_bind; [apply keeps_base_blk|]. intros b. apply keeps_assign_loop.
Qed.

End Val10.

(* C12, part 6: arrays constructed from views with ANY index bases (array.hpp converting constructors over
   other.extensions()), from an iterator pair and from the flat range.  Built on the mixed-radix lemmas of
   ElemProofs.v (from_linear / to_linear / next_canonical for extensions with arbitrary first indices). *)
From BM Require Import Base.Tactics Model.Layout Model.View Model.Spec Model.Iter Model.ProjectC12 Model.ProjectC12Walk
  Proofs.LayoutProofs Proofs.IterProofs Proofs.ElemProofs Proofs.ProjectC12Convert.
Local Open Scope Z_scope.

(* ---- the successor iterated from from_linear ---- *)
Lemma iter_FL X : xpos X -> forall k j, 0 <= j -> j + Z.of_nat k < x_num_elements X ->
  iter_next X k (x_from_linear X j) = x_from_linear X (j + Z.of_nat k).
Proof.
  intros HX. induction k as [|k IH]; intros j Hj Hlt; cbn [iter_next].
  - f_equal. lia.
  - rewrite next_FL by (assumption || lia).
    replace (j + 1 =? x_num_elements X) with false by (symmetry; apply Z.eqb_neq; lia). cbn [snd].
    rewrite IH by lia. f_equal. lia.
Qed.

Lemma x_inner_nonzero_pos X : xpos X -> x_inner_nonzero X = true.
Proof.
  induction 1 as [|r X Hr HX IH]; [reflexivity|]. destruct X as [|r' X]; [reflexivity|].
  change (x_inner_nonzero (r :: r' :: X)) with (negb (x_num_elements (r' :: X) =? 0) && x_inner_nonzero (r' :: X)).
  rewrite IH. pose proof (numel_pos _ HX).
  replace (x_num_elements (r' :: X) =? 0) with false by (symmetry; apply Z.eqb_neq; lia). reflexivity.
Qed.

(* ---- layout_t(extensions) for extensions with arbitrary first indices ---- *)
Lemma mk_numel X : Forall (fun r => fst r <= snd r) X -> l_num_elements (mk_layout X) = x_num_elements X.
Proof.
  induction 1 as [|r X Hr HX IH]; [reflexivity|].
  assert (Hnn : 0 <= x_num_elements X).
  { clear -HX. induction HX as [|r X Hr _ IH]; cbn; [lia|]. unfold r_size. nia. }
  cbn [mk_layout l_num_elements x_num_elements]. rewrite IH. unfold d_size; cbn [d_nelems d_stride].
  set (N := x_num_elements X) in *. unfold r_size.
  destruct (N =? 0) eqn:EN; bprop.
  - rewrite EN. rewrite Z.mul_0_r. cbn. lia.
  - destruct ((snd r - fst r) * N =? 0) eqn:E; bprop; [nia|]. rewrite Z.quot_mul by lia. reflexivity.
Qed.

Lemma xpos_le X : xpos X -> Forall (fun r => fst r <= snd r) X.
Proof. intros H. eapply Forall_impl; [|exact H]. cbn. intros; lia. Qed.

Lemma mk_okg X : xpos X -> lay_okg (mk_layout X) (map (fun r => (fst r, r_size r)) X).
Proof.
  induction 1 as [|r X Hr HX IH]; [constructor|]. cbn [mk_layout map]. constructor; [|exact IH].
  rewrite (mk_numel X (xpos_le _ HX)). pose proof (numel_pos _ HX) as Hp.
  replace (x_num_elements X =? 0) with false by (symmetry; apply Z.eqb_neq; lia).
  unfold dim_okg, r_size; cbn. repeat split; lia.
Qed.

Lemma mk_ext X : xpos X -> l_extensions (mk_layout X) = X.
Proof.
  intros HX. rewrite (lay_okg_ext _ _ (mk_okg X HX)).
  - rewrite map_map. rewrite <- (map_id X) at 2. apply map_ext. intros [a b]. unfold r_size; cbn. f_equal. lia.
  - rewrite Forall_map. eapply Forall_impl; [|exact HX]. unfold r_size; cbn. intros; lia.
Qed.

Lemma mk_addr X : xpos X -> forall idx, in_ext X idx -> l_addr (mk_layout X) idx = x_to_linear X idx.
Proof.
  induction 1 as [|r X Hr HX IH]; intros idx Hi; inv Hi; [reflexivity|].
  rewrite TL_cons by (symmetry; eapply Forall2_length; eassumption).
  cbn [mk_layout l_addr d_stride d_offset]. rewrite (IH _ H3), (mk_numel X (xpos_le _ HX)).
  pose proof (numel_pos _ HX) as Hp.
  replace (x_num_elements X =? 0) with false by (symmetry; apply Z.eqb_neq; lia). ring.
Qed.

(* extensions of a well-formed layout, sizes 0 included *)
Lemma okg_ext_numel l fn : lay_okg l fn ->
  x_num_elements (l_extensions l) = l_num_elements l /\ Forall (fun r => fst r <= snd r) (l_extensions l).
Proof.
  induction 1 as [|d p l fn Hd _ (IH1 & IH2)]; [split; [reflexivity|constructor]|].
  cbn [l_extensions map x_num_elements l_num_elements]. fold (l_extensions l).
  rewrite (dim_okg_extension _ _ _ Hd), (dim_okg_size _ _ _ Hd), IH1. destruct Hd as (_ & _ & Hn & _).
  unfold ext_of. destruct (snd p =? 0) eqn:E; bprop; unfold r_size; cbn [fst snd].
  - split; [rewrite E; lia|constructor; [cbn; lia|exact IH2]].
  - split; [f_equal; lia|constructor; [cbn; lia|exact IH2]].
Qed.

Lemma okg_sizes l fn : lay_okg l fn -> l_sizes l = map snd fn.
Proof. induction 1 as [|d p l fn Hd _ IH]; [reflexivity|]. cbn. rewrite (dim_okg_size _ _ _ Hd). f_equal. exact IH. Qed.

Section ConvertBased.
  Context {A B : Type}.
  Variable conv : A -> B.
  Variable rd : Z -> A.

  Let g (l : layout) := fun ns => conv (rd (l_call l ns)).

  (* the copy loop: element k of the new block is the conversion of the k-th element in canonical order *)
  Lemma copy_nth l X k : xpos X -> 0 <= k < x_num_elements X ->
    nth_error (e_copy_n (Z.to_nat (x_num_elements X)) X (x_from_linear X 0) (g l)) (Z.to_nat k)
    = Some (conv (rd (l_addr l (x_from_linear X k)))).
  Proof.
    intros HX Hk. rewrite e_copy_n_nth by lia. rewrite (iter_FL X HX) by lia.
    rewrite Z2Nat.id, Z.add_0_l by lia. unfold g. rewrite l_call_addr. reflexivity.
  Qed.

  Lemma e_begin_pos l fn : lay_okg l fn -> Forall (fun p => 0 < snd p) fn ->
    e_begin l = Some (x_from_linear (l_extensions l) 0).
  Proof.
    intros Hok Hp. unfold e_begin. pose proof (lay_okg_xpos _ _ Hok Hp) as HX.
    rewrite (lay_okg_numel _ _ Hok Hp). pose proof (numel_pos _ HX).
    replace (x_num_elements (l_extensions l) =? 0) with false by (symmetry; apply Z.eqb_neq; lia).
    rewrite (x_inner_nonzero_pos _ HX). reflexivity.
  Qed.

  (* array(view): every dimension non-empty, any index bases *)
  Theorem convert_construct_based l fn : lay_okg l fn -> Forall (fun p => 0 < snd p) fn ->
    exists c, convert_construct conv rd l = Some c
      /\ l_extensions (c_lay c) = l_extensions l
      /\ l_sizes (c_lay c) = map snd fn
      /\ length (c_data c) = Z.to_nat (l_num_elements l)
      /\ forall idx, in_ext (l_extensions l) idx -> c_at c idx = Some (conv (rd (l_addr l idx))).
  Proof.
    intros Hok Hp. pose proof (lay_okg_xpos _ _ Hok Hp) as HX. pose proof (lay_okg_numel _ _ Hok Hp) as HN.
    unfold convert_construct. rewrite (e_begin_pos l fn Hok Hp). eexists. split; [reflexivity|].
    cbn [c_lay c_data]. set (X := l_extensions l) in *.
    rewrite (mk_numel X (xpos_le _ HX)), (mk_ext X HX).
    split; [reflexivity|]. split.
    { rewrite (okg_sizes _ _ (mk_okg X HX)), map_map. unfold X. rewrite (lay_okg_ext _ _ Hok Hp), map_map.
      apply map_ext. intros [a b]. unfold r_size; cbn. lia. }
    split; [rewrite e_copy_n_length, HN; reflexivity|].
    intros idx Hi. unfold c_at; cbn [c_lay c_data]. rewrite (mk_addr X HX idx Hi).
    pose proof (TL_bounds X HX idx Hi) as Hb. fold (g l).
    rewrite (copy_nth l X _ HX Hb), (FL_TL X HX idx Hi). reflexivity.
  Qed.

  (* array(view) of a view without elements: an empty array (its extensions are those layout_t reports for
     other.extensions(): size 0 in every dimension outside an empty one) *)
  Theorem convert_construct_based_empty l fn : lay_okg l fn -> l_num_elements l = 0 ->
    exists c, convert_construct conv rd l = Some c /\ c_data c = [] /\ l_num_elements (c_lay c) = 0
      /\ c_lay c = mk_layout (l_extensions l).
  Proof.
    intros Hok H0. unfold convert_construct, e_begin. rewrite H0. cbn [Z.eqb]. eexists. split; [reflexivity|].
    cbn [c_lay c_data]. destruct (okg_ext_numel l fn Hok) as (E1 & E2).
    rewrite (mk_numel _ E2), E1, H0. repeat split.
  Qed.

  (* array(first, last): the leading index range restarts at 0 *)
  Theorem convert_iter_pair_based l fn r X : lay_okg l fn -> Forall (fun p => 0 < snd p) fn ->
    l_extensions l = r :: X ->
    exists c, convert_iter_pair conv rd l = Some c
      /\ l_extensions (c_lay c) = (0, r_size r) :: X
      /\ length (c_data c) = Z.to_nat (l_num_elements l)
      /\ forall i idx, in_ext (r :: X) (i :: idx) -> c_at c ((i - fst r) :: idx) = Some (conv (rd (l_addr l (i :: idx)))).
  Proof.
    intros Hok Hp EX. pose proof (lay_okg_xpos _ _ Hok Hp) as HX. pose proof (lay_okg_numel _ _ Hok Hp) as HN.
    unfold convert_iter_pair. rewrite (e_begin_pos l fn Hok Hp), EX in *. eexists. split; [reflexivity|].
    cbn [c_lay c_data]. inversion HX as [|? ? Hr HX']; subst.
    assert (HX2 : xpos ((0, r_size r) :: X)) by (constructor; [unfold r_size; cbn; lia|exact HX']).
    assert (EN : x_num_elements ((0, r_size r) :: X) = x_num_elements (r :: X)).
    { cbn [x_num_elements]. unfold r_size; cbn. f_equal. lia. }
    rewrite (mk_numel _ (xpos_le _ HX2)), (mk_ext _ HX2), EN.
    split; [reflexivity|]. split; [rewrite e_copy_n_length, HN; reflexivity|].
    intros i idx Hi. unfold c_at; cbn [c_lay c_data]. inversion Hi as [|? ? ? ? Hi0 Hi']; subst.
    assert (Hi2 : in_ext ((0, r_size r) :: X) ((i - fst r) :: idx)).
    { constructor; [unfold r_size; cbn; lia|exact Hi']. }
    rewrite (mk_addr _ HX2 _ Hi2).
    assert (ET : x_to_linear ((0, r_size r) :: X) ((i - fst r) :: idx) = x_to_linear (r :: X) (i :: idx)).
    { rewrite !TL_cons by (symmetry; eapply Forall2_length; eassumption). cbn [fst]. ring. }
    rewrite ET. pose proof (TL_bounds _ HX _ Hi) as Hb. fold (g l).
    rewrite (copy_nth l (r :: X) _ HX Hb), (FL_TL _ HX _ Hi). reflexivity.
  Qed.

  (* array<T2,1>(view.elements()): element k is the conversion of the k-th element in canonical order *)
  Theorem convert_flat_based l fn : lay_okg l fn -> Forall (fun p => 0 < snd p) fn ->
    exists c, convert_flat conv rd l = Some c
      /\ l_extensions (c_lay c) = [(0, l_num_elements l)]
      /\ forall k, 0 <= k < l_num_elements l ->
           c_at c [k] = Some (conv (rd (l_addr l (x_from_linear (l_extensions l) k)))).
  Proof.
    intros Hok Hp. pose proof (lay_okg_xpos _ _ Hok Hp) as HX. pose proof (lay_okg_numel _ _ Hok Hp) as HN.
    pose proof (numel_pos _ HX) as Hpos. rewrite <- HN in Hpos.
    unfold convert_flat. rewrite (e_begin_pos l fn Hok Hp). eexists. split; [reflexivity|].
    cbn [c_lay c_data].
    assert (H1 : xpos [(0, l_num_elements l)]) by (constructor; [cbn; lia|constructor]).
    rewrite (mk_numel _ (xpos_le _ H1)), (mk_ext _ H1). split; [reflexivity|].
    intros k Hk. unfold c_at; cbn [c_lay c_data].
    assert (Hi : in_ext [(0, l_num_elements l)] [k]) by (constructor; [cbn; lia|constructor]).
    rewrite (mk_addr _ H1 _ Hi). cbn [x_to_linear x_num_elements fst]. unfold r_size; cbn [fst snd].
    replace ((l_num_elements l - 0) * 1) with (x_num_elements (l_extensions l)) by lia.
    replace (k - 0) with k by lia. fold (g l). apply copy_nth; [exact HX|lia].
  Qed.
End ConvertBased.

(* The hypotheses of the lifecycle theorems are satisfiable: a concrete non-trivial history in its domain. *)
From BM Require Import Base.Tactics Model.Life Proofs.LifeBase Proofs.LifeMonad Proofs.LifeInv Proofs.LifeOps Proofs.LifeMain.
Local Open Scope Z_scope.

Definition cfg_ex : config := mkcfg 2 false false false true false false false SoccChild.

(* a 2x3 array filled with 5 on allocator 1; a copy; a transposed copy on allocator 2; copy assignment to other extents;
   move assignment between unequal allocators; reextent; swap of equal-allocator arrays; destruction *)
Definition h_ex : list lop :=
  [ OCtorFill 0 1 [(0, 2); (0, 3)] 5;
    OCtorCopy 1 0;
    OCtorView 2 2 0 (mkvsrc [(0, 3); (0, 2)] [0; 3; 1; 4; 2; 5]%nat);
    OAssignCopy 2 1;
    OAssignMove 1 2;
    OReextent 0 [(1, 3); (0, 2)] (Some 9);
    OCtorSized 3 1 [(0, 2); (0, 0)];
    OSwap 0 3;
    ODestroy 0; ODestroy 1; ODestroy 2; ODestroy 3 ].

Example hist_dom_example : hist_dom cfg_ex h_ex (st0 None).
Proof.
  cbn [hist_dom h_ex]. unfold dom_op, live, free, vsrc_dom, NP.
  repeat match goal with
  | |- _ /\ _ => split
  | |- True => exact I
  | |- exists _, _ => eexists
  | |- (_ < _)%nat => lia
  | |- nth_error _ _ = _ => vm_compute; reflexivity
  | |- _ <> _ => discriminate
  | |- Forall _ _ => repeat constructor; vm_compute; reflexivity
  | |- _ -> _ => intros _; vm_compute; reflexivity
  | |- _ = _ => vm_compute; reflexivity
  | |- _ \/ _ => right; vm_compute; reflexivity
  end.
Qed.

Example run_example : snd (run_life cfg_ex h_ex (st0 None)) =
  mkst (snd (run_life cfg_ex h_ex (st0 None))).(s_blocks) (repeat None NSLOTS) (snd (run_life cfg_ex h_ex (st0 None))).(s_ledger) None 0 0
       (snd (run_life cfg_ex h_ex (st0 None))).(s_fallible)
  /\ live_blocks (snd (run_life cfg_ex h_ex (st0 None))) = [].
Proof. vm_compute. split; reflexivity. Qed.

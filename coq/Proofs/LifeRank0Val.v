(* Rank 0, values: what the element-level programs of the rank-0 entry points do to the values of the blocks (inversion
   style, as Proofs/LifeVal1.v), and the abstraction of a state as a function of the block values, so that an operation that
   writes one or two cells is read off as one or two updates of the reference interpreter's pool. *)
From BM Require Import Base.Tactics Model.Life Model.LifeRank0 Proofs.LifeBase Proofs.LifeMonad Proofs.LifeInv Proofs.LifeCells
  Proofs.LifeSteps Proofs.LifeCombi Proofs.LifeOps Proofs.LifeFacts Proofs.LifeVal1 Proofs.LifeVal2 Proofs.LifeVal3.
Local Open Scope Z_scope.

(* block values after writing v at (b, k) *)
Definition wr (bv : nat -> list Z) (b k : nat) (v : Z) : nat -> list Z :=
  fun b' => if (b' =? b)%nat then upd_nth (bv b) k v else bv b'.

(* the array objects, the number of blocks and their liveness are untouched *)
Definition mem_same (s s' : state) : Prop :=
  s_arrs s' = s_arrs s /\ length (s_blocks s') = length (s_blocks s) /\ forall b, blive s' b = blive s b.

Lemma mem_same_refl s : mem_same s s.
Proof. repeat split; auto. Qed.
Lemma mem_same_trans s1 s2 s3 : mem_same s1 s2 -> mem_same s2 s3 -> mem_same s1 s3.
Proof. intros (A1 & L1 & V1) (A2 & L2 & V2). split; [congruence|]. split; [congruence|]. intros b. rewrite V2, V1. auto. Qed.

Lemma mem_same_of_same s s' : same_mem s s' -> mem_same s s' /\ forall b, bvals s' b = bvals s b.
Proof. intros [B A]. repeat split; auto; try (rewrite B; auto); intros b; unfold blive, bvals; rewrite B; auto. Qed.

Section R0Val.
Variable cfg : config.

(* ---- inversion of the one-cell programs ---- *)
Lemma tick_elem_mem w s s' : tick_elem cfg w s = Ok tt s' -> mem_same s s' /\ forall b, bvals s' b = bvals s b.
Proof. intros H. apply tick_elem_inv in H. apply mem_same_of_same; auto. Qed.

Lemma assign1_mem b k v s s' : assign1 cfg b k v s = Ok tt s' ->
  mem_same s s' /\ (forall b', bvals s' b' = wr (bvals s) b k v b') /\ (k < length (bvals s b))%nat.
Proof.
  intros H. apply assign1_inv in H. destruct H as [A L Lv O Hh I]. repeat split; auto.
  intros b'. unfold wr. destruct (Nat.eqb_spec b' b) as [->|Hne]; auto.
Qed.

Lemma mark_moved_mem b k s s' : mark_moved cfg b k s = Ok tt s' -> mem_same s s' /\ forall b', bvals s' b' = bvals s b'.
Proof. intros H. apply mark_moved_inv in H. destruct H as (A & L & Lv & V). repeat split; auto. Qed.

Lemma after_src_mem x s s' : after_src cfg x s = Ok tt s' -> mem_same s s' /\ forall b', bvals s' b' = bvals s b'.
Proof. intros H. apply after_src_inv in H. destruct H as (A & L & Lv & V). repeat split; auto. Qed.

Lemma wr_ext bv bv' b k v : (forall b', bv' b' = bv b') -> forall b', wr bv' b k v b' = wr bv b k v b'.
Proof. intros H b'. unfold wr. rewrite !H. reflexivity. Qed.

Lemma src_val_ext s s' x : (forall b, bvals s' b = bvals s b) -> src_val s' x = src_val s x.
Proof. intros H. destruct x; cbn; auto; rewrite H; auto. Qed.

(* one element assigned: adl_copy_n / adl_move / std::fill_n of one element, from a value or from ANY cell (the same block
   included: the source is read before the destination is written) *)
Lemma assign_one_inv w b k x s s' : assign_loop cfg w b [k] [x] s = Ok tt s' ->
  mem_same s s' /\ (forall b', bvals s' b' = wr (bvals s) b k (src_val s x) b') /\ (k < length (bvals s b))%nat.
Proof.
  intros H. cbn [assign_loop] in H.
  unfold bind at 1 in H. destruct (tick_elem cfg w s) as [[] s1|s1|e] eqn:E1; try discriminate.
  apply tick_elem_mem in E1. destruct E1 as [M1 V1].
  unfold bind at 1 in H. destruct (read_src cfg x s1) as [v s1'|?|?] eqn:E2; try discriminate.
  apply read_src_inv in E2. destruct E2 as [-> Hv].
  unfold bind at 1 in H. destruct (assign1 cfg b k v s1) as [[] s2|?|?] eqn:E3; try discriminate.
  apply assign1_mem in E3. destruct E3 as (M3 & V3 & I3).
  unfold bind at 1 in H. destruct (after_src cfg x s2) as [[] s3|?|?] eqn:E4; try discriminate.
  apply after_src_mem in E4. destruct E4 as [M4 V4]. inv H.
  split; [eapply mem_same_trans; [exact M1|eapply mem_same_trans; eauto]|]. split.
  - intros b'. rewrite V4, V3. rewrite (src_val_ext s s1 x V1). apply wr_ext. exact V1.
  - rewrite <- V1. exact I3.
Qed.

Lemma read1_val b k s v s' : read1 cfg b k s = Ok v s' -> s' = s /\ v = nth k (bvals s b) pat.
Proof. apply read1_inv. Qed.

Lemma swap_cells_inv b i b' i' s s' : swap_cells cfg b i b' i' s = Ok tt s' ->
  mem_same s s' /\
  (forall b'', bvals s' b'' = wr (wr (bvals s) b i (nth i' (bvals s b') pat)) b' i' (nth i (bvals s b) pat) b'') /\
  (i < length (bvals s b))%nat /\ (i' < length (wr (bvals s) b i (nth i' (bvals s b') pat) b'))%nat.
Proof.
  intros H. unfold swap_cells in H.
  unfold bind at 1 in H. destruct (tick_elem cfg SAssignElem s) as [[] s1|?|?] eqn:E1; try discriminate.
  apply tick_elem_mem in E1. destruct E1 as [M1 V1].
  unfold bind at 1 in H. destruct (read1 cfg b i s1) as [v s1'|?|?] eqn:E2; try discriminate.
  apply read1_val in E2. destruct E2 as [-> Hv].
  unfold bind at 1 in H. destruct (mark_moved cfg b i s1) as [[] s2|?|?] eqn:E3; try discriminate.
  apply mark_moved_mem in E3. destruct E3 as [M3 V3].
  unfold bind at 1 in H. destruct (tick_elem cfg SAssignElem s2) as [[] s3|?|?] eqn:E4; try discriminate.
  apply tick_elem_mem in E4. destruct E4 as [M4 V4].
  unfold bind at 1 in H. destruct (read1 cfg b' i' s3) as [w s3'|?|?] eqn:E5; try discriminate.
  apply read1_val in E5. destruct E5 as [-> Hw].
  unfold bind at 1 in H. destruct (assign1 cfg b i w s3) as [[] s4|?|?] eqn:E6; try discriminate.
  apply assign1_mem in E6. destruct E6 as (M6 & V6 & I6).
  unfold bind at 1 in H. destruct (mark_moved cfg b' i' s4) as [[] s5|?|?] eqn:E7; try discriminate.
  apply mark_moved_mem in E7. destruct E7 as [M7 V7].
  unfold bind at 1 in H. destruct (tick_elem cfg SAssignElem s5) as [[] s6|?|?] eqn:E8; try discriminate.
  apply tick_elem_mem in E8. destruct E8 as [M8 V8].
  apply assign1_mem in H. destruct H as (M9 & V9 & I9).
  assert (V3s : forall b0, bvals s3 b0 = bvals s b0) by (intros; rewrite V4, V3, V1; auto).
  assert (V6s : forall b0, bvals s6 b0 = wr (bvals s) b i w b0).
  { intros b0. rewrite V8, V7, V6. apply wr_ext. exact V3s. }
  assert (Hv' : v = nth i (bvals s b) pat) by (rewrite Hv, V1; auto).
  assert (Hw' : w = nth i' (bvals s b') pat) by (rewrite Hw, V3s; auto).
  split.
  { eapply mem_same_trans; [exact M1|]. eapply mem_same_trans; [exact M3|]. eapply mem_same_trans; [exact M4|].
    eapply mem_same_trans; [exact M6|]. eapply mem_same_trans; [exact M7|]. eapply mem_same_trans; [exact M8|exact M9]. }
  split; [|split].
  - intros b0. rewrite V9, <- Hv', <- Hw'. apply wr_ext. exact V6s.
  - rewrite <- V3s. exact I6.
  - rewrite <- Hw', <- V6s. exact I9.
Qed.

(* ---- the abstraction as a function of the block values ---- *)
Definition avalsf (s : state) (bv : nat -> list Z) (a : arr) : list Z :=
  if nel a <=? 0 then [] else match a_base a with PBlk b => if blive s b then bv b else [] | PNull => [] end.
Definition absf (s : state) (bv : nat -> list Z) : vpool :=
  map (option_map (fun a => (arr_bx a, avalsf s bv a))) (s_arrs s).

Lemma absf_bvals s : absf s (bvals s) = abs_state s.
Proof.
  unfold absf, abs_state. apply map_ext. intros [a|]; cbn; auto. rewrite abs_arr_alt. reflexivity.
Qed.

Lemma absf_ext s bv bv' : (forall b, bv' b = bv b) -> absf s bv' = absf s bv.
Proof.
  intros H. unfold absf. apply map_ext. intros [a|]; cbn; auto. unfold avalsf. destruct (nel a <=? 0); auto.
  destruct (a_base a); auto. rewrite H. auto.
Qed.

Lemma absf_mem s s' bv : mem_same s s' -> absf s' bv = absf s bv.
Proof.
  intros (A & _ & Lv). unfold absf. rewrite A. apply map_ext. intros [a|]; cbn; auto. unfold avalsf.
  destruct (nel a <=? 0); auto. destruct (a_base a); auto. rewrite Lv. auto.
Qed.

(* a cells-only step, seen from outside *)
Lemma abs_of_cells s s' bv : mem_same s s' -> (forall b, bvals s' b = bv b) -> abs_state s' = absf s bv.
Proof. intros M V. rewrite <- absf_bvals, (absf_mem s s' _ M). apply absf_ext. exact V. Qed.

Lemma absf_nth s bv q : nth_error (absf s bv) q = option_map (option_map (fun a => (arr_bx a, avalsf s bv a))) (nth_error (s_arrs s) q).
Proof. unfold absf. apply nth_error_map. Qed.

Lemma absf_length s bv : length (absf s bv) = length (s_arrs s).
Proof. unfold absf. apply map_length. Qed.

(* the array object at slot t owns block b alone *)
Definition sole_owner (s : state) (t : nat) (at_ : arr) (b : nat) : Prop :=
  nth_error (s_arrs s) t = Some (Some at_) /\ 0 < nel at_ /\ a_base at_ = PBlk b /\ blive s b = true /\
  forall q a, q <> t -> nth_error (s_arrs s) q = Some (Some a) -> 0 < nel a -> a_base a <> PBlk b.

Lemma sole_owner_Inv s t at_ b : Inv cfg [] s -> nth_error (s_arrs s) t = Some (Some at_) -> 0 < nel at_ -> a_base at_ = PBlk b ->
  sole_owner s t at_ b.
Proof.
  intros I Hn Hp Hb. assert (Hg : get_slot s t = Some at_) by (unfold get_slot; rewrite Hn; auto).
  destruct (arr_facts cfg s t at_ I Hg Hp) as (b0 & Eb & _ & Lv & _). assert (b0 = b) by congruence. subst b0.
  repeat split; auto. intros q a Hq Hnq Hpq Hbq. apply Hq.
  eapply (inv_disj _ _ _ I q t b); [exists a|exists at_]; repeat split; auto. unfold get_slot; rewrite Hnq; auto.
Qed.

(* writing one cell of the block of slot t = updating one value of slot t *)
Lemma absf_put s bv t at_ b k v : sole_owner s t at_ b ->
  absf s (wr bv b k v) = vput (absf s bv) (mkref0 t k) v.
Proof.
  intros (Hn & Hp & Hb & Lv & Hso).
  assert (Ht : (t < length (s_arrs s))%nat) by (apply nth_error_Some; congruence).
  assert (Hget : vget (absf s bv) t = (arr_bx at_, bv b)).
  { unfold vget. rewrite absf_nth, Hn. cbn. unfold avalsf. destruct (Z.leb_spec (nel at_) 0); [lia|]. rewrite Hb, Lv. auto. }
  unfold vput. cbn [rf_slot rf_idx]. rewrite Hget. unfold vset.
  apply list_ext.
  - rewrite upd_nth_length, !absf_length. auto.
  - intros q. destruct (Nat.eq_dec t q) as [<-|Hne].
    + rewrite nth_upd_same by (rewrite absf_length; auto). rewrite absf_nth, Hn. cbn. f_equal. f_equal. f_equal.
      unfold avalsf. destruct (Z.leb_spec (nel at_) 0); [lia|]. rewrite Hb, Lv. unfold wr. rewrite Nat.eqb_refl. auto.
    + rewrite nth_upd_other by auto. rewrite !absf_nth.
      destruct (nth_error (s_arrs s) q) as [[a|]|] eqn:E; cbn; auto. f_equal. f_equal. f_equal.
      unfold avalsf. destruct (Z.leb_spec (nel a) 0); auto. destruct (a_base a) as [|b2] eqn:Eb2; auto.
      destruct (blive s b2); auto. unfold wr. destruct (Nat.eqb_spec b2 b) as [->|]; auto.
      exfalso. apply (Hso q a); auto.
Qed.

(* the value a reference designates, in terms of the block values *)
Lemma rval_absf s bv t at_ b k : sole_owner s t at_ b -> rval (absf s bv) (mkref0 t k) = nth k (bv b) 0.
Proof.
  intros (Hn & Hp & Hb & Lv & _). unfold rval, vget. cbn [rf_slot rf_idx]. rewrite absf_nth, Hn. cbn.
  unfold avalsf. destruct (Z.leb_spec (nel at_) 0); [lia|]. rewrite Hb, Lv. auto.
Qed.

Lemma nth_default_irrelevant (l : list Z) k d d' : (k < length l)%nat -> nth k l d = nth k l d'.
Proof. intros H. apply nth_indep. exact H. Qed.

End R0Val.

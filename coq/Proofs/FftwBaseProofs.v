(* C15 for views with ANY index base (extensions that do not start at 0: arrays over based extensions,
   reindexed views, blocked sub-blocks).
   The plan tensor depends on sizes and strides only; the pointers handed to the planning call AND to the
   execute call are base(), the address of the view's first element -- not origin().  Every theorem of
   Proofs/FftwDftProofs.v (stated there for offsets 0) is carried over to well-formed layouts with any
   offsets through the zero-based twin `norm` (Model/Rebase.v: same base, strides, nelems; offsets 0):
   the adaptor makes literally the same FFTW calls for a view and for its twin, and the element at index
   tuple idx of the view is the element at idx - firsts of the twin. *)
From Coq Require Import Permutation Ring Zquot.
From BM Require Import Base.Tactics Model.Layout Model.View Model.Spec Model.Rebase Model.FftwPlan Model.FftwDft
  Proofs.LayoutProofs Proofs.IterProofs Proofs.RebaseProofs
  Proofs.FftwPlanProofs Proofs.FftwViewProofs Proofs.FftwDftProofs.
Local Open Scope Z_scope.

(* ---------- well-formed dimensions, any offset ---------- *)
(* What the theorems need of a dimension: a non-empty dimension has offset = first index * stride (so that
   brackets at the first index add nothing to base()), and the extension has as many indices as size()
   says.  Holds for every dimension the library builds (dok of RebaseProofs: offset = f*stride, nelems =
   n*stride, 0 < stride when 0 < n) and for every zero-based dimension whatever its stride and nelems
   (negative strides included). *)
Definition dwf (d : dim) : Prop :=
  (0 < d_size d -> d_offset d = fst (d_extension d) * d_stride d)
  /\ r_size (d_extension d) = d_size d.
Definition lwf (l : layout) : Prop := Forall dwf l.

Lemma dok_dwf d : dok d -> dwf d.
Proof. intros H. split; [apply dok_offset; exact H|apply dok_ext_size; exact H]. Qed.
Lemma lok_lwf l : lok l -> lwf l.
Proof. unfold lok, lwf. apply Forall_impl. exact dok_dwf. Qed.

Lemma zero_based_dwf d : d_offset d = 0 -> dwf d.
Proof.
  intros H0. unfold dwf, d_extension, d_size, r_size. rewrite H0.
  destruct (d_nelems d =? 0) eqn:E; cbn [fst snd].
  - split; [lia|reflexivity].
  - rewrite Z.add_0_l. split; [intros _|].
    + destruct (Z.eq_dec (d_stride d) 0) as [->|Hs]; [lia|]. rewrite Z.quot_0_l by exact Hs. lia.
    + destruct (Z.eq_dec (d_stride d) 0) as [->|Hs].
      * rewrite !Zquot_0_r. reflexivity.
      * rewrite Z.quot_0_l by exact Hs. lia.
Qed.
Lemma zero_based_lwf l : zero_based l -> lwf l.
Proof. unfold zero_based, lwf. apply Forall_impl. exact zero_based_dwf. Qed.

(* ---------- the twin ---------- *)
Lemma sizes_norm l : l_sizes (map norm_d l) = l_sizes l.
Proof. unfold l_sizes. rewrite map_map. apply map_ext. reflexivity. Qed.
Lemma strides_norm l : l_strides (map norm_d l) = l_strides l.
Proof. unfold l_strides. rewrite map_map. apply map_ext. reflexivity. Qed.
Lemma zero_based_norm l : zero_based (map norm_d l).
Proof. unfold zero_based. apply Forall_forall. intros d Hd. apply in_map_iff in Hd. destruct Hd as (x & <- & _). reflexivity. Qed.
Lemma lay_norm v : lay (norm v) = map norm_d (lay v).
Proof. reflexivity. Qed.
Lemma base_norm v : base (norm v) = base v.
Proof. reflexivity. Qed.
Lemma length_norm l : length (map norm_d l) = length l.
Proof. apply map_length. Qed.
Lemma firsts_length l : length (firsts l) = length l.
Proof. unfold firsts. apply map_length. Qed.
Lemma firsts_ext l : firsts l = map fst (l_extensions l).
Proof. unfold firsts, l_extensions. rewrite map_map. reflexivity. Qed.

Lemma vaddz_vsubz idx f : length idx = length f -> vaddz (vsubz idx f) f = idx.
Proof.
  revert f. induction idx as [|i idx IH]; intros f H; destruct f as [|x f]; try discriminate; cbn; [reflexivity|].
  rewrite IH by (cbn in H; lia). f_equal. lia.
Qed.
Lemma vsubz_vaddz k f : length k = length f -> vsubz (vaddz k f) f = k.
Proof.
  revert f. induction k as [|i k IH]; intros f H; destruct f as [|x f]; try discriminate; cbn; [reflexivity|].
  rewrite IH by (cbn in H; lia). f_equal. lia.
Qed.

(* position k of the view <-> index tuple k + firsts: inside the extensions, and at the same address as
   position k of the twin *)
Lemma firsts_cons d l : firsts (d :: l) = fst (d_extension d) :: firsts l.
Proof. reflexivity. Qed.
Lemma pos_to_idx l : lwf l -> forall k, valid_idx (l_sizes l) k ->
  in_extl l (vaddz k (firsts l)) /\ l_addr l (vaddz k (firsts l)) = l_addr (map norm_d l) k.
Proof.
  unfold valid_idx, in_extl. induction 1 as [|d l (Ho & Hs) _ IH]; intros k Hv; inv Hv.
  - split; [constructor|reflexivity].
  - destruct (IH _ H3) as (A & B). unfold r_size in Hs. rewrite firsts_cons.
    cbn [vaddz map l_addr norm_d d_stride d_offset]. split.
    + constructor; [lia|exact A].
    + rewrite B. rewrite Ho by lia. ring.
Qed.
Lemma idx_to_pos l : lwf l -> forall idx, in_extl l idx ->
  valid_idx (l_sizes l) (vsubz idx (firsts l)) /\ l_addr l idx = l_addr (map norm_d l) (vsubz idx (firsts l)).
Proof.
  unfold valid_idx, in_extl. induction 1 as [|d l (Ho & Hs) _ IH]; intros idx Hi; inv Hi.
  - split; [constructor|reflexivity].
  - destruct (IH _ H3) as (A & B). unfold r_size in Hs. rewrite firsts_cons.
    cbn [vsubz map l_addr norm_d d_stride d_offset l_sizes]. split.
    + constructor; [lia|exact A].
    + rewrite B. rewrite Ho by lia. ring.
Qed.
Lemma in_extl_length l idx : in_extl l idx -> length idx = length l.
Proof. unfold in_extl. intros H. induction H; cbn; auto. Qed.

(* brackets at the first index of every dimension add nothing: base() is the address of the first element
   (for a view that has one) *)
Lemma first_element_offset l : lwf l -> Forall (fun n => 0 < n) (l_sizes l) -> l_addr l (firsts l) = 0.
Proof.
  induction 1 as [|d l (Ho & _) _ IH]; intros Hp; [reflexivity|]. rewrite firsts_cons. cbn [l_addr].
  cbn [l_sizes map] in Hp. inv Hp. rewrite IH by assumption. rewrite Ho by assumption. lia.
Qed.
Lemma valid_idx_sizes_pos ns k : valid_idx ns k -> Forall (fun n => 0 < n) ns.
Proof. unfold valid_idx. induction 1; constructor; [lia|assumption]. Qed.

Lemma l_origin_firsts l : lwf l -> Forall (fun n => 0 < n) (l_sizes l) ->
  l_origin l = - dotp (firsts l) (l_strides l).
Proof.
  induction 1 as [|d l (Ho & _) _ IH]; intros Hp; [reflexivity|].
  rewrite firsts_cons. cbn [l_origin l_strides map dotp]. cbn [l_sizes map] in Hp.
  inv Hp. fold (l_strides l). rewrite IH by assumption. rewrite Ho by assumption. lia.
Qed.

Theorem C15_base_is_first_element_proved :
  forall v, lwf (lay v) -> Forall (fun n => 0 < n) (l_sizes (lay v)) ->
       v_addr v (firsts (lay v)) = base v
    /\ v_origin v = v_addr v (firsts (lay v)) - dotp (firsts (lay v)) (l_strides (lay v)).
Proof.
  intros v Hw Hp. unfold v_addr, v_origin. rewrite first_element_offset, l_origin_firsts by assumption. lia.
Qed.

(* origin() is a different address as soon as an index base is not 0: the 3x5 block [4,7)x[2,7) of a 9x10
   array, reindexed to [2,5)x[3,8) (the views of the seeded change s5) *)
Example C15_origin_is_not_base :
  let v := v_reindexedL [2; 3] (v_paren [PRange 4 7; PRange 2 7] (root_view [(0,9);(0,10)])) in
  l_extensions (lay v) = [(2,5);(3,8)] /\ base v = 42 /\ v_addr v [2;3] = 42 /\ v_origin v = 19.
Proof. vm_compute. auto. Qed.

(* ---------- the adaptor makes the same calls for a view and for its twin ---------- *)
Lemma numel_norm' l : l_num_elements (map norm_d l) = l_num_elements l.
Proof. apply numel_norm. Qed.

Lemma plan_ctor_norm which vin vout s :
  plan_ctor which (base (norm vin)) (lay (norm vin)) (base (norm vout)) (lay (norm vout)) s
  = plan_ctor which (base vin) (lay vin) (base vout) (lay vout) s.
Proof. unfold plan_ctor, fftw_plan_dft, norm. cbn [lay base]. rewrite sizes_norm, !strides_norm. reflexivity. Qed.
Lemma fe_plan_execute_norm which vin vout s :
  fe_plan_execute which (norm vin) (norm vout) s = fe_plan_execute which vin vout s.
Proof. unfold fe_plan_execute. rewrite plan_ctor_norm. reflexivity. Qed.
Lemma fe_dft_norm which vin vout s : fe_dft which (norm vin) (norm vout) s = fe_dft which vin vout s.
Proof. unfold fe_dft. rewrite fe_plan_execute_norm. unfold norm at 1. cbn [lay]. rewrite numel_norm. reflexivity. Qed.

(* ---------- footprints ---------- *)
Lemma footprint_norm v : lwf (lay v) -> footprint (norm v) = footprint_x v.
Proof.
  intros Hw. unfold footprint, footprint_x, ext_tuples, norm. cbn [lay base]. rewrite sizes_norm, map_map.
  apply map_ext_in. intros k Hk. apply In_tuples in Hk. unfold v_addr. cbn [lay base].
  destruct (pos_to_idx _ Hw k Hk) as (_ & E). rewrite E. reflexivity.
Qed.

Lemma in_footprint_x v a : lwf (lay v) ->
  (In a (footprint_x v) <-> exists idx, in_extl (lay v) idx /\ a = v_addr v idx).
Proof.
  intros Hw. unfold footprint_x, ext_tuples. rewrite map_map, in_map_iff. split.
  - intros (k & <- & Hk). apply In_tuples in Hk. destruct (pos_to_idx _ Hw k Hk) as (A & _).
    exists (vaddz k (firsts (lay v))). split; [exact A|reflexivity].
  - intros (idx & Hi & ->). destruct (idx_to_pos _ Hw idx Hi) as (A & _).
    exists (vsubz idx (firsts (lay v))). split.
    + rewrite vaddz_vsubz; [reflexivity|]. rewrite firsts_length. apply in_extl_length. exact Hi.
    + apply In_tuples. exact A.
Qed.

Lemma extensions_sizes l1 l2 : lwf l1 -> lwf l2 -> l_extensions l1 = l_extensions l2 -> l_sizes l1 = l_sizes l2.
Proof.
  intros H1. revert l2. induction H1 as [|d l (_ & Hs) _ IH]; intros l2 H2 E; destruct l2 as [|d2 l2]; try discriminate; [reflexivity|].
  inv H2. destruct H1 as (_ & Hs2). cbn in E. injection E as E1 E2. cbn. rewrite <- Hs, <- Hs2, E1.
  f_equal. apply IH; assumption.
Qed.

(* ---------- the plan visits the view's index set, any index base ---------- *)
Theorem C15_plan_denotes_view_dft_x_proved :
  forall (which : list bool) (vin vout : view),
    length which = length (lay vin) -> length (lay vout) = length (lay vin) ->
    lwf (lay vin) -> lwf (lay vout) -> l_sizes (lay vout) = l_sizes (lay vin) ->
    let '(dims, hdims) := plan_of which (l_sizes (lay vin)) (l_strides (lay vin)) (l_strides (lay vout)) in
       Permutation (guru_cells dims hdims) (view_cells_x which vin vout)
    /\ map io_n dims = select which (l_sizes (lay vin))
    /\ map io_n hdims = select (map negb which) (l_sizes (lay vin))
    /\ length dims = count_occ bool_dec which true.
Proof.
  intros which vin vout Hw Hl Wi Wo Hs.
  pose proof (C15_plan_denotes_view_dft_proved which (norm vin) (norm vout)) as P.
  rewrite !lay_norm, !length_norm, sizes_norm, !strides_norm in P.
  specialize (P Hw Hl (zero_based_norm _) (zero_based_norm _)).
  destruct (plan_of which (l_sizes (lay vin)) (l_strides (lay vin)) (l_strides (lay vout))) as [d h].
  destruct P as (P & R). split; [|exact R].
  eapply Permutation_trans; [exact P|]. unfold view_cells, view_cells_x. rewrite lay_norm, sizes_norm.
  erewrite map_ext_in; [apply Permutation_refl|]. intros k Hk. apply In_tuples in Hk.
  pose proof (valid_idx_sizes_pos _ _ Hk) as Hp.
  unfold view_cell, view_cell_x, v_addr. rewrite !lay_norm, !base_norm.
  destruct (pos_to_idx _ Wi k Hk) as (_ & Ei). rewrite <- Hs in Hk. destruct (pos_to_idx _ Wo k Hk) as (_ & Eo).
  rewrite Ei, Eo, !first_element_offset; try assumption; [|rewrite Hs; assumption].
  f_equal; [f_equal|]; lia.
Qed.

Theorem C15_output_frame_x_proved :
  forall (which : list bool) (vin vout : view) (s : Z),
    length which = length (lay vin) -> length (lay vout) = length (lay vin) ->
    lwf (lay vin) -> lwf (lay vout) -> l_sizes (lay vout) = l_sizes (lay vin) ->
    let g := plan_ctor which (base vin) (lay vin) (base vout) (lay vout) s in
       Permutation (plan_out_addresses g) (footprint_x vout)
    /\ Permutation (plan_in_addresses g) (footprint_x vin)
    /\ (forall a, In a (plan_out_addresses g) <-> exists idx, in_extl (lay vout) idx /\ a = v_addr vout idx).
Proof.
  intros which vin vout s Hw Hl Wi Wo Hs g.
  pose proof (C15_output_frame_proved which (norm vin) (norm vout) s) as F.
  rewrite plan_ctor_norm in F. fold g in F. rewrite !lay_norm, !length_norm, !sizes_norm in F.
  specialize (F Hw Hl (zero_based_norm _) (zero_based_norm _) Hs). cbv zeta in F. destruct F as (Fo & Fi & _).
  rewrite (footprint_norm vout Wo) in Fo. rewrite (footprint_norm vin Wi) in Fi.
  split; [exact Fo|split; [exact Fi|]]. intros a. rewrite <- (in_footprint_x vout a Wo). split; intros H.
  - apply (Permutation_in _ Fo). exact H.
  - apply (Permutation_in _ (Permutation_sym Fo)). exact H.
Qed.

(* ---------- the calls: the pointers of BOTH the planning call and the execute call are the addresses of
   the first elements of the views ---------- *)
Theorem C15_call_pointers_proved :
  forall which vin vout s,
    lwf (lay vin) -> lwf (lay vout) ->
    Forall (fun n => 0 < n) (l_sizes (lay vin)) -> l_sizes (lay vout) = l_sizes (lay vin) ->
    exists g, fe_dft which vin vout s = [EvPlan g; EvExecute (g_in g) (g_out g); EvDestroy]
      /\ fe_plan_execute which vin vout s = fe_dft which vin vout s
      /\ g_in g = v_addr vin (firsts (lay vin)) /\ g_out g = v_addr vout (firsts (lay vout))
      /\ (g_dims g, g_hdims g) = plan_of which (l_sizes (lay vin)) (l_strides (lay vin)) (l_strides (lay vout))
      /\ g_sign g = s /\ g_flags g = Z.lor FFTW_ESTIMATE FFTW_PRESERVE_INPUT.
Proof.
  intros which vin vout s Wi Wo Hp Hs.
  destruct (C15_base_is_first_element_proved vin Wi Hp) as (Bi & _).
  assert (Hpo : Forall (fun n => 0 < n) (l_sizes (lay vout))) by (rewrite Hs; exact Hp).
  destruct (C15_base_is_first_element_proved vout Wo Hpo) as (Bo & _).
  assert (Hne : l_num_elements (lay vin) =? 0 = false).
  { apply Z.eqb_neq. clear -Hp. induction (lay vin) as [|d l IH]; cbn; [lia|]. inv Hp. specialize (IH H2). nia. }
  destruct (fe_plan_execute_call which vin vout s) as (g & E & Ed & Ei & Eo & Es & Ef & _).
  exists g. unfold fe_dft. rewrite Hne, E, Ei, Eo, Bi, Bo. repeat split; auto.
Qed.

(* ---------- reachable views ---------- *)
Definition c15_op_x (o : op) : Prop :=
  match o with
  | OSliced _ _ | OStrided _ | ORotated | OUnrotated | OTransposed | OReversed
  | OReindexed _ | OReindexedL _ | OBlocked _ _ => True
  | _ => False
  end.

Lemma length_rot_ins a r : length (rot_ins a r) = S (length r).
Proof. rewrite rot_ins_app, app_length. cbn. lia. Qed.
Lemma length_v_rotated v : length (lay (v_rotated v)) = length (lay v).
Proof. unfold v_rotated, l_rotate. cbn. destruct (lay v); [reflexivity|apply length_rot_ins]. Qed.
Lemma length_v_reindexed i v : length (lay (v_reindexed i v)) = length (lay v).
Proof. unfold v_reindexed. destruct (lay v) eqn:E; cbn; rewrite ?E; reflexivity. Qed.
Lemma length_v_sliced a b v : length (lay (v_sliced a b v)) = length (lay v).
Proof. unfold v_sliced. destruct (lay v) as [|d [|d1 sub]] eqn:E; cbn; rewrite ?E; reflexivity. Qed.
Lemma length_v_reindexedL is : forall v, length (lay (v_reindexedL is v)) = length (lay v).
Proof.
  induction is as [|i rest IH]; intros v; [reflexivity|].
  destruct rest as [|j rest]; [apply length_v_reindexed|].
  change (v_reindexedL (i :: j :: rest) v) with (v_unrotated (v_reindexedL (j :: rest) (v_rotated (v_reindexed i v)))).
  unfold v_unrotated. cbn [lay]. rewrite length_l_unrotate, IH, length_v_rotated, length_v_reindexed. reflexivity.
Qed.

Lemma exec_c15_op_x_length o v : c15_op_x o -> length (lay (exec_op o v)) = length (lay v).
Proof.
  destruct o; cbn; try contradiction; intros _.
  - apply length_v_sliced.
  - unfold v_strided. destruct (lay v) eqn:E; cbn; rewrite ?E; reflexivity.
  - apply length_v_rotated.
  - apply length_l_unrotate.
  - unfold l_transpose. destruct (lay v) as [|a [|b r]]; reflexivity.
  - apply rev_length.
  - apply length_v_reindexed.
  - unfold v_blocked. rewrite length_v_reindexed. apply length_v_sliced.
  - apply length_v_reindexedL.
Qed.

Lemma run_c15_ops_x_length ops : forall v v', Forall c15_op_x ops -> run_ops ops v = Some v' ->
  length (lay v') = length (lay v).
Proof.
  induction ops as [|o ops IH]; intros v v' Ho Hr; cbn in Hr.
  - inv Hr. reflexivity.
  - inv Ho. unfold apply_op in Hr. destruct (dom_op o v); [|discriminate].
    rewrite (IH _ _ H2 Hr). apply exec_c15_op_x_length. exact H1.
Qed.

Lemma length_mk_layout x : length (mk_layout x) = length x.
Proof. induction x as [|r x IH]; cbn; [reflexivity|]. rewrite IH. reflexivity. Qed.

(* every view reached from an array over ANY index extensions by sub-blocks (sliced, blocked), strides,
   rotations, transpositions, reversals and re-indexing is well-formed and has the rank of its root
   (run_safe: RebaseProofs -- it only excludes slicing an EMPTY dimension whose offset is not 0) *)
Theorem C15_reachable_views_x_proved :
  forall exts ops v, Forall (fun r => fst r <= snd r) exts -> Forall c15_op_x ops ->
    run_safe ops (root_view exts) = true -> run_ops ops (root_view exts) = Some v ->
    lwf (lay v) /\ length (lay v) = length exts.
Proof.
  intros exts ops v He Ho Hs Hr. split.
  - apply lok_lwf. assert (H0 : lok (lay (root_view exts))) by (apply mk_lok; exact He).
    exact (proj2 (rebase_run ops _ _ H0 Hs Hr)).
  - rewrite (run_c15_ops_x_length ops _ _ Ho Hr). unfold root_view. cbn [lay]. apply length_mk_layout.
Qed.

(* ---------- the lazy range form, any index base ---------- *)
Lemma norm_from_iterators count v : iter_pair_sizeb count v = true -> norm (v_from_iterators count v) = norm v.
Proof.
  unfold iter_pair_sizeb, v_from_iterators, norm. destruct v as [l b]. cbn [lay base].
  destruct l as [|d sub]; [reflexivity|]. intros H. apply Z.eqb_eq in H. cbn [lay base map]. f_equal. f_equal.
  unfold norm_d. cbn. rewrite H. reflexivity.
Qed.

Theorem C15_lazy_range_x_proved :
  forall which vin vout s,
    iter_pair_sizeb (l_size (lay vin)) vin = true -> iter_pair_sizeb (l_size (lay vin)) vout = true ->
    fe_fft_range which vin vout s = fe_dft which vin vout s.
Proof.
  intros which vin vout s Hi Ho. unfold fe_fft_range.
  rewrite <- (fe_dft_norm which (v_from_iterators _ vin)), (norm_from_iterators _ _ Hi), (norm_from_iterators _ _ Ho).
  apply fe_dft_norm.
Qed.

Lemma iter_pair_sizeb_norm count v : iter_pair_sizeb count (norm v) = iter_pair_sizeb count v.
Proof. unfold iter_pair_sizeb, norm. cbn [lay]. destruct (lay v); reflexivity. Qed.

(* arrays over ANY index extensions with positive sizes (the output of the lazy form is a fresh array) *)
Theorem C15_lazy_range_arrays_x_proved :
  forall xi xo which s bi bo,
    Forall (fun r => fst r < snd r) xi -> map r_size xo = map r_size xi ->
    let vin := mkview (mk_layout xi) bi in
    let vout := mkview (mk_layout xo) bo in
    fe_fft_range which vin vout s = fe_dft which vin vout s.
Proof.
  intros xi xo which s bi bo Hp Hs. cbv zeta.
  assert (Hsz : Forall (fun n => 0 < n) (map r_size xi)).
  { clear -Hp. induction Hp; constructor; [unfold r_size; lia|assumption]. }
  assert (K : forall x b, map r_size x = map r_size xi ->
            iter_pair_sizeb (l_size (mk_layout xi)) (mkview (mk_layout x) b) = true).
  { intros x b Hx.
    replace (l_size (mk_layout xi)) with (l_size (mk_layout (zb (map r_size xi)))).
    2:{ rewrite <- mk_norm. destruct (mk_layout xi); reflexivity. }
    rewrite <- iter_pair_sizeb_norm. unfold norm. cbn [lay base]. rewrite mk_norm, Hx.
    pose proof (iter_pair_ok_arrays (map r_size xi) b Hsz) as H. cbv zeta in H.
    unfold iter_pair_okb in H. unfold iter_pair_sizeb. cbn [lay] in *.
    destruct (mk_layout (zb (map r_size xi))); [reflexivity|]. bprop. apply Z.eqb_eq. tauto. }
  apply C15_lazy_range_x_proved; [apply K; reflexivity|apply K; exact Hs].
Qed.

(* ---------- what is computed, any index base ---------- *)
Section DFTX.
  Variable C : Type.
  Variables (c0 c1 : C) (cadd cmul csub : C -> C -> C) (copp : C -> C).
  Hypothesis Cring : ring_theory c0 c1 cadd cmul csub copp eq.
  Variable tw : Z -> Z -> Z -> C.
  Variable fftw_exec : guru_call -> Z -> Z -> mem C -> mem C.
  Variable fftw_plan_effect : guru_call -> mem C -> mem C.
  Notation DftN := (dftN C c0 cadd cmul tw).
  Notation Zc := (zc C c0 c1 cadd).
  Notation Dft_mem := (dft_mem C fftw_exec fftw_plan_effect).
  Notation Plan_mem := (plan_mem C fftw_exec fftw_plan_effect).
  Notation Fft_range_mem := (fft_range_mem C fftw_exec fftw_plan_effect).
  Notation Guru_contract := (guru_contract C c0 cadd cmul tw fftw_exec).
  Notation Plan_contract := (plan_contract C fftw_plan_effect).

  (* the domain of the property, any index base: equal extensions *)
  Definition c15_domain_x (which : list bool) (vin vout : view) (s : Z) : Prop :=
       length which = length (lay vin) /\ length (lay vout) = length (lay vin)
    /\ lwf (lay vin) /\ lwf (lay vout)
    /\ l_extensions (lay vout) = l_extensions (lay vin)             (* equal extents, incl. the index bases *)
    /\ Forall (fun n => 0 <= n) (l_sizes (lay vin))
    /\ (s = -1 \/ s = 1)
    /\ NoDup (footprint_x vout)
    /\ (   (forall a b, In a (footprint_x vin) -> In b (footprint_x vout) -> a <> b)
        \/ (base vout = base vin /\ l_strides (lay vout) = l_strides (lay vin))).

  (* the input view read as a function of the POSITION (zero-based) *)
  Definition view_read_x (m : mem C) (v : view) (k : list Z) : C := m (v_addr v (vaddz k (firsts (lay v)))).

  Definition c15_result_x (which : list bool) (vin vout : view) (s : Z) (m : mem C) (r : option (mem C)) : Prop :=
    exists m', r = Some m'
      /\ (forall idx, in_extl (lay vout) idx ->
             m' (v_addr vout idx)
             = DftN s which (l_sizes (lay vin)) (view_read_x m vin) (vsubz idx (firsts (lay vout))))
      /\ (forall a, ~ In a (footprint_x vout) -> m' a = m a).

  Lemma domain_x_norm which vin vout s :
    c15_domain_x which vin vout s -> c15_domain which (norm vin) (norm vout) s.
  Proof.
    intros (Hw & Hl & Wi & Wo & He & Hnn & Hsg & Hnd & Hio).
    pose proof (extensions_sizes _ _ Wo Wi He) as Hs.
    unfold c15_domain, norm. cbn [lay base]. rewrite !length_norm, !sizes_norm, !strides_norm.
    fold (norm vin) (norm vout). rewrite (footprint_norm vin Wi), (footprint_norm vout Wo).
    repeat split; auto using zero_based_norm.
  Qed.

  Lemma view_read_norm m vin k : lwf (lay vin) -> valid_idx (l_sizes (lay vin)) k ->
    view_read C m (norm vin) k = view_read_x m vin k.
  Proof.
    intros Wi Hk. unfold view_read, view_read_x, v_addr. rewrite lay_norm, base_norm.
    destruct (pos_to_idx _ Wi k Hk) as (_ & Ek). rewrite Ek. reflexivity.
  Qed.

  Lemma result_norm_x which vin vout s m r :
    lwf (lay vin) -> lwf (lay vout) -> length which = length (lay vin) ->
    l_sizes (lay vout) = l_sizes (lay vin) ->
    c15_result C c0 cadd cmul tw which (norm vin) (norm vout) s m r -> c15_result_x which vin vout s m r.
  Proof.
    intros Wi Wo Hw Hs (m' & E & V & F). exists m'. split; [exact E|split].
    - intros idx Hi. destruct (idx_to_pos _ Wo idx Hi) as (Hv & Ea).
      rewrite !lay_norm, !sizes_norm in V. specialize (V _ Hv).
      assert (Eaddr : v_addr (norm vout) (vsubz idx (firsts (lay vout))) = v_addr vout idx).
      { unfold v_addr. rewrite lay_norm, base_norm, <- Ea. reflexivity. }
      rewrite Eaddr in V. rewrite V.
      apply (dftN_ext C c0 cadd cmul tw).
      + rewrite l_sizes_length. lia.
      + rewrite <- Hs. exact Hv.
      + intros k Hk. apply view_read_norm; assumption.
    - intros a Ha. apply F. rewrite (footprint_norm vout Wo). exact Ha.
  Qed.

  Lemma dft_mem_norm which vin vout s m : Dft_mem which (norm vin) (norm vout) s m = Dft_mem which vin vout s m.
  Proof. unfold dft_mem. rewrite fe_dft_norm. reflexivity. Qed.
  Lemma plan_mem_norm which vin vout s m : Plan_mem which (norm vin) (norm vout) s m = Plan_mem which vin vout s m.
  Proof. unfold plan_mem. rewrite fe_plan_execute_norm. reflexivity. Qed.

  Lemma domain_x_facts which vin vout s : c15_domain_x which vin vout s ->
    lwf (lay vin) /\ lwf (lay vout) /\ length which = length (lay vin) /\ l_sizes (lay vout) = l_sizes (lay vin)
    /\ firsts (lay vout) = firsts (lay vin).
  Proof.
    intros (Hw & Hl & Wi & Wo & He & _). repeat split; auto.
    - apply extensions_sizes; assumption.
    - rewrite !firsts_ext, He. reflexivity.
  Qed.

  (* fftw::dft and every front end built on it, any index base, all extents >= 0 *)
  Theorem C15_equals_direct_dft_x_proved :
    Guru_contract -> Plan_contract ->
    forall which vin vout s m,
      c15_domain_x which vin vout s ->
      c15_result_x which vin vout s m (Dft_mem which vin vout s m).
  Proof.
    intros Hc Hp which vin vout s m D. destruct (domain_x_facts _ _ _ _ D) as (Wi & Wo & Hw & Hs & _).
    apply result_norm_x; try assumption. rewrite <- dft_mem_norm.
    apply (C15_equals_direct_dft_proved C c0 cadd cmul tw fftw_exec fftw_plan_effect Hc Hp). apply domain_x_norm. exact D.
  Qed.

  (* explicit plan objects, any index base *)
  Theorem C15_plan_object_x_proved :
    Guru_contract -> Plan_contract ->
    forall which vin vout s m,
      c15_domain_x which vin vout s -> no_empty_transform which vin ->
      c15_result_x which vin vout s m (Plan_mem which vin vout s m).
  Proof.
    intros Hc Hp which vin vout s m D Hne. destruct (domain_x_facts _ _ _ _ D) as (Wi & Wo & Hw & Hs & _).
    apply result_norm_x; try assumption. rewrite <- plan_mem_norm.
    apply (C15_plan_object_proved C c0 cadd cmul tw fftw_exec fftw_plan_effect Hc Hp); [apply domain_x_norm; exact D|].
    unfold no_empty_transform in *. rewrite lay_norm, sizes_norm. exact Hne.
  Qed.

  (* the lazy range form, any index base *)
  Theorem C15_lazy_range_equals_direct_dft_x_proved :
    Guru_contract -> Plan_contract ->
    forall which vin vout s m,
      c15_domain_x which vin vout s ->
      iter_pair_sizeb (l_size (lay vin)) vin = true -> iter_pair_sizeb (l_size (lay vin)) vout = true ->
      c15_result_x which vin vout s m (Fft_range_mem which vin vout s m).
  Proof.
    intros Hc Hp which vin vout s m D Hi Ho. unfold fft_range_mem.
    rewrite (C15_lazy_range_x_proved which vin vout s Hi Ho).
    apply (C15_equals_direct_dft_x_proved Hc Hp which vin vout s m D).
  Qed.

  (* "A distinct input is left unchanged." *)
  Corollary C15_input_unchanged_x_proved :
    Guru_contract -> Plan_contract ->
    forall which vin vout s m,
      c15_domain_x which vin vout s ->
      (forall a b, In a (footprint_x vin) -> In b (footprint_x vout) -> a <> b) ->
      exists m', Dft_mem which vin vout s m = Some m' /\
        forall idx, in_extl (lay vin) idx -> m' (v_addr vin idx) = m (v_addr vin idx).
  Proof.
    intros Hc Hp which vin vout s m D Hdis. destruct (domain_x_facts _ _ _ _ D) as (Wi & _).
    destruct (C15_equals_direct_dft_x_proved Hc Hp which vin vout s m D) as (m' & E & _ & Hfr).
    exists m'. split; [exact E|]. intros idx Hv. apply Hfr. intros Hin.
    apply (Hdis (v_addr vin idx) (v_addr vin idx)); auto.
    apply in_footprint_x; [exact Wi|]. exists idx. split; [exact Hv|reflexivity].
  Qed.

  (* "Forward followed by backward multiplies every element by the number of transformed points." *)
  Theorem C15_forward_backward_x_proved :
    Guru_contract -> Plan_contract ->
    forall which vin vout v3 s m,
      c15_domain_x which vin vout s -> c15_domain_x which vout v3 (- s) ->
      Forall (tw_orthogonal_at C c0 c1 cadd cmul tw s) (select which (l_sizes (lay vin))) ->
      exists m1 m2, Dft_mem which vin vout s m = Some m1 /\ Dft_mem which vout v3 (- s) m1 = Some m2 /\
        forall idx, in_extl (lay vin) idx ->
          m2 (v_addr v3 idx) = cmul (Zc (npoints which (l_sizes (lay vin)))) (m (v_addr vin idx)).
  Proof.
    intros Hc Hp which vin vout v3 s m D1 D2 Ho.
    destruct (domain_x_facts _ _ _ _ D1) as (Wi & Wo & Hw & Hs & Hf).
    destruct (domain_x_facts _ _ _ _ D2) as (_ & W3 & _ & Hs3 & Hf3).
    pose proof (domain_x_norm _ _ _ _ D1) as N1. pose proof (domain_x_norm _ _ _ _ D2) as N2.
    assert (Ho' : Forall (tw_orthogonal_at C c0 c1 cadd cmul tw s) (select which (l_sizes (lay (norm vin)))))
      by (rewrite lay_norm, sizes_norm; exact Ho).
    destruct (C15_forward_backward_proved C c0 c1 cadd cmul csub copp Cring tw fftw_exec fftw_plan_effect Hc Hp
                which (norm vin) (norm vout) (norm v3) s m N1 N2 Ho') as (m1 & m2 & E1 & E2 & V).
    rewrite dft_mem_norm in E1, E2. exists m1, m2. split; [exact E1|split; [exact E2|]].
    intros idx Hi. destruct (idx_to_pos _ Wi idx Hi) as (Hv & Ea).
    rewrite lay_norm, sizes_norm in V. specialize (V _ Hv).
    assert (A1 : v_addr (norm vin) (vsubz idx (firsts (lay vin))) = v_addr vin idx).
    { unfold v_addr. rewrite lay_norm, base_norm, <- Ea. reflexivity. }
    assert (A3 : v_addr (norm v3) (vsubz idx (firsts (lay vin))) = v_addr v3 idx).
    { assert (Hv3 : valid_idx (l_sizes (lay v3)) (vsubz idx (firsts (lay vin)))) by (rewrite Hs3, Hs; exact Hv).
      destruct (pos_to_idx _ W3 _ Hv3) as (_ & E3). unfold v_addr. rewrite lay_norm, base_norm, <- E3.
      rewrite Hf3, Hf, vaddz_vsubz; [reflexivity|]. rewrite firsts_length. apply in_extl_length. exact Hi. }
    rewrite A1, A3 in V. exact V.
  Qed.
End DFTX.

(* ---------- the planner flag matters: a flag set without FFTW_ESTIMATE breaks the property ---------- *)
(* Over the ring Z with w = -1: a planner/executor pair that meets BOTH contracts (the reference executor, and
   the reference planner, which clears the arrays exactly when the flags do not promise otherwise).  The calls
   the adaptor makes give the DFT; the same calls with FFTW_MEASURE | FFTW_PRESERVE_INPUT in place of
   FFTW_ESTIMATE | FFTW_PRESERVE_INPUT do not -- for a 2-point transform, so at every size. *)
Definition with_flags (f : Z) (evs : list fftw_event) : list fftw_event :=
  map (fun e => match e with
                | EvPlan g => EvPlan (mkguru (g_rank g) (g_dims g) (g_hrank g) (g_hdims g) (g_in g) (g_out g) (g_sign g) f)
                | _ => e end) evs.

Lemma ref_plan_meets_contract (C : Type) (c0 : C) : plan_contract C (ref_plan_effect C c0).
Proof. intros g m H. unfold ref_plan_effect. rewrite H. reflexivity. Qed.

Theorem C15_planner_flag_needed_proved :
  let exec := ref_exec Z 0 Z.add Z.mul tw_pm in
  let planner := ref_plan_effect Z 0 in
  let vin := root_view [(0,2)] in
  let vout := mkview (mk_layout [(0,2)]) 10 in
  let m : mem Z := fun a => if a =? 0 then 3 else if a =? 1 then 5 else 0 in
     guru_contract Z 0 Z.add Z.mul tw_pm exec /\ plan_contract Z planner
  /\ (exists m', run_events Z exec planner (fe_dft [true] vin vout (-1)) None m = Some m'
                 /\ m' 10 = 8 /\ m' 11 = -2 /\ m' 0 = 3 /\ m' 1 = 5)
  /\ (exists m', run_events Z exec planner
                   (with_flags (Z.lor FFTW_MEASURE FFTW_PRESERVE_INPUT) (fe_dft [true] vin vout (-1))) None m = Some m'
                 /\ m' 10 = 0 /\ m' 11 = 0 /\ m' 0 = 0 /\ m' 1 = 0).
Proof.
  cbv zeta. split; [apply ref_exec_meets_contract|]. split; [apply ref_plan_meets_contract|].
  split; eexists; (split; [reflexivity|]); vm_compute; auto.
Qed.

(* ---------- explicit plan objects: the remaining exclusion, restated on the general domain ---------- *)
Theorem C15_plan_object_needs_nonempty_transform_x_proved :
  forall (C : Type) (fftw_exec : guru_call -> Z -> Z -> mem C -> mem C) (fftw_plan_effect : guru_call -> mem C -> mem C),
    exists which v, c15_domain_x which v v (-1) /\ ~ no_empty_transform which v
                    /\ forall m, plan_mem C fftw_exec fftw_plan_effect which v v (-1) m = None.
Proof.
  intros C fe fp. exists [true], (mkview [mkdim 1 0 0] 0). split; [|split].
  - unfold c15_domain_x. cbn [lay base]. repeat split; auto.
    + apply zero_based_lwf. repeat constructor.
    + apply zero_based_lwf. repeat constructor.
    + repeat constructor. cbn. lia.
    + constructor.
  - unfold no_empty_transform. cbn. intro H. inv H. lia.
  - intros m. reflexivity.
Qed.

(* ---------- non-vacuity: a concrete instance of the general domain with index bases 2 and 3 ---------- *)
(* input: the 3x5 block [4,7)x[2,7) of a 9x10 array at offset 0, re-indexed to [2,5)x[3,8);
   output: the 3x5 block [5,8)x[6,11) of an 11x12 array at offset 200, re-indexed to [2,5)x[3,8); mask (F,T) *)
Example C15_domain_x_example :
  let vin := v_reindexedL [2; 3] (v_paren [PRange 4 7; PRange 2 7] (root_view [(0,9);(0,10)])) in
  let vout := v_reindexedL [2; 3] (v_paren [PRange 5 8; PRange 6 11] (mkview (mk_layout [(0,11);(0,12)]) 200)) in
  c15_domain_x [false; true] vin vout (-1) /\ firsts (lay vin) = [2; 3] /\ base vin <> v_origin vin.
Proof.
  cbv zeta. split; [|split; [reflexivity|vm_compute; discriminate]].
  unfold c15_domain_x.
  split; [reflexivity|]. split; [reflexivity|].
  split; [unfold lwf; repeat constructor; vm_compute; intuition congruence|].
  split; [unfold lwf; repeat constructor; vm_compute; intuition congruence|].
  split; [reflexivity|]. split; [vm_compute; repeat constructor; discriminate|].
  split; [left; reflexivity|]. split.
  - match goal with |- NoDup ?l => let l' := eval vm_compute in l in change (NoDup l') end.
    repeat (constructor; [cbn; intuition lia|]). constructor.
  - left. intros a b Ha Hb.
    match type of Ha with In _ ?l =>
      assert (Fa : forallb (fun a => a <? 90) l = true) by (vm_compute; reflexivity) end.
    match type of Hb with In _ ?l =>
      assert (Fb : forallb (fun b => 200 <=? b) l = true) by (vm_compute; reflexivity) end.
    rewrite forallb_forall in Fa, Fb. apply Fa in Ha. apply Fb in Hb. lia.
Qed.

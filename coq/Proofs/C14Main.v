(* C14: the statements of Properties_C14.v, assembled from LapackProofs.v / LapackSemProofs.v, and
   Examples showing that the hypotheses are satisfiable. *)
From BM Require Import Base.Tactics Model.Lapack Model.LapackSem Proofs.LapackProofs Proofs.LapackSemProofs.
Local Open Scope Z_scope.

(* ------------------------------------------------------------------------------------------ *)
(* potrf                                                                                        *)
(* ------------------------------------------------------------------------------------------ *)
Lemma C14_potrf_marshalling_proved :
  forall (uplo : filling) (v : mat), potrf_dom v = true ->
    let c := potrf_call_of uplo v in
       potrf_asrt v = true
    /\ potrf_legal c = true
    /\ pc_n c = m_n0 v
    /\ (forall i j, pc_a c + i + j * pc_lda c = if potrf_colbranch v then maddr v i j else maddr v j i)
    /\ pc_uplo c = (if potrf_colbranch v then filling_char (flip uplo) else filling_char uplo)
    /\ (forall i j, ftri (pc_uplo c) i j = if potrf_colbranch v then vtri uplo i j else vtri uplo j i)
    /\ (forall p, in_coltri (pc_uplo c) (pc_a c) (pc_lda c) (pc_n c) p <-> in_mattri uplo v p)
    /\ (forall p, in_coltri (pc_uplo c) (pc_a c) (pc_lda c) (pc_n c) p -> in_mat v p).
Proof.
  intros uplo v Hdom c. subst c.
  destruct (potrf_call_legal uplo v Hdom) as [Hl Hn].
  split; [apply potrf_asrt_holds; exact Hdom|].
  split; [exact Hl|]. split; [exact Hn|].
  split; [apply potrf_matrix_seen; exact Hdom|].
  split; [apply potrf_flag; exact Hdom|].
  split; [apply potrf_triangle; exact Hdom|].
  split; [apply potrf_footprint; exact Hdom|].
  apply potrf_designates_inside; exact Hdom.
Qed.

Lemma C14_potrf_leading_block_proved :
  forall v info, potrf_dom v = true ->
    let k := potrf_order (m_n0 v) info in
       potrf_ret v info = m_block v k k
    /\ m_base (potrf_ret v info) = m_base v /\ m_s0 (potrf_ret v info) = m_s0 v /\ m_s1 (potrf_ret v info) = m_s1 v
    /\ m_n0 (potrf_ret v info) = k /\ m_n1 (potrf_ret v info) = k.
Proof. exact potrf_leading_block. Qed.

Definition C14_potrf_factorization_statement : Prop :=
  forall (V : Type) (vzero : V) (vadd vmul : V -> V -> V)
         (potrf_f : fchar -> Z -> Z -> Z -> mem V -> mem V * Z),
    potrf_contract V vzero vadd vmul potrf_f ->
    forall uplo v m, potrf_dom v = true ->
      let (m', r) := potrf_run V potrf_f uplo v m in
      let k := m_n0 r in
         0 <= k <= m_n0 v
      /\ (exists info, 0 <= info <= m_n0 v /\ r = potrf_ret v info /\ k = potrf_order (m_n0 v) info)
      /\ (forall p, ~ in_mattri uplo v p -> m' p = m p)
      /\ (forall a b, 0 <= a < k -> 0 <= b < k ->
            symv V uplo (vmat V m v) a b
            = vsumZ V vzero vadd k
                (fun l => vmul (facv V vzero uplo (vmat V m' v) a l) (facv V vzero uplo (vmat V m' v) b l))).
Lemma C14_potrf_factorization_proved : C14_potrf_factorization_statement.
Proof.
  unfold C14_potrf_factorization_statement. intros V vzero vadd vmul potrf_f Hc uplo v m Hdom.
  exact (potrf_sem V vzero vadd vmul potrf_f Hc uplo v m Hdom).
Qed.

(* ------------------------------------------------------------------------------------------ *)
(* workspace                                                                                    *)
(* ------------------------------------------------------------------------------------------ *)
Lemma C14_workspace_proved :
     (forall aa tau qinfo lwork rinfo,
        let t := geqrf_trace aa tau qinfo lwork rinfo in
           ws_ok gq_work gq_lwork [] t = true
        /\ calls_of t = (if qinfo =? 0 then [geqrf_mk aa tau WLocal (-1); geqrf_mk aa tau WAlloc lwork]
                         else [geqrf_mk aa tau WLocal (-1)])
        /\ allocs_of t = (if qinfo =? 0 then [lwork] else [])
        /\ throws t = negb ((qinfo =? 0) && (rinfo =? 0)))
  /\ (forall aa uu ss vv qinfo lwork rinfo,
        let t := gesvd_trace aa uu ss vv qinfo lwork rinfo in
           ws_ok gs_work gs_lwork [] t = true
        /\ calls_of t = (if qinfo =? 0 then [gesvd_mk aa uu ss vv WLocal (-1); gesvd_mk aa uu ss vv WAlloc lwork]
                         else [gesvd_mk aa uu ss vv WLocal (-1)])
        /\ allocs_of t = (if qinfo =? 0 then [lwork] else [])
        /\ throws t = negb ((qinfo =? 0) && (rinfo =? 0))).
Proof.
  split; intros; subst t; unfold geqrf_trace, gesvd_trace.
  - split; [apply ws_trace_ok; reflexivity|]. split; [apply ws_trace_calls|].
    split; [apply ws_trace_allocs|apply ws_trace_throws].
  - split; [apply ws_trace_ok; reflexivity|]. split; [apply ws_trace_calls|].
    split; [apply ws_trace_allocs|apply ws_trace_throws].
Qed.

(* ------------------------------------------------------------------------------------------ *)
(* geqrf                                                                                        *)
(* ------------------------------------------------------------------------------------------ *)
Lemma C14_geqrf_marshalling_proved :
  forall aa tau, geqrf_dom aa tau = true ->
    forall w lwork, let c := geqrf_mk aa tau w lwork in
       geqrf_asrt aa tau = true
    /\ ((lwork = -1 \/ Z.max 1 (m_n0 aa) <= lwork) -> geqrf_legal c = true)
    /\ gq_m c = m_n1 aa /\ gq_n c = m_n0 aa
    /\ (forall i j, gq_a c + i + j * gq_lda c = maddr aa j i)
    /\ (forall p, in_colmajor (gq_a c) (gq_lda c) (gq_m c) (gq_n c) p <-> in_mat aa p)
    /\ (forall p, in_run (gq_tau c) (Z.min (gq_m c) (gq_n c)) p <-> in_vec tau p)
    /\ geqrf_ret aa = aa.
Proof.
  intros aa tau Hdom w lwork c. subst c.
  split. { unfold geqrf_dom in Hdom. destruct (geqrf_asrt aa tau); [reflexivity|discriminate Hdom]. }
  split; [apply geqrf_call_legal; exact Hdom|].
  split; [reflexivity|]. split; [reflexivity|].
  split; [intros i j; apply (geqrf_matrix_seen aa tau Hdom w lwork i j)|].
  split; [intros p; apply (geqrf_footprint_a aa tau Hdom w lwork p)|].
  split; [intros p; apply (geqrf_footprint_tau aa tau Hdom w lwork p)|reflexivity].
Qed.

Definition C14_geqrf_factorization_statement : Prop :=
  forall (V : Type) (vzero : V) (vadd vmul : V -> V -> V)
         (geqrf_f : Z -> Z -> Z -> Z -> Z -> mem V -> mem V -> mem V * mem V * Z)
         (qdec : Z -> Z -> (Z -> Z -> V) -> (Z -> V) -> Z -> Z -> V),
    qdec_ext V qdec -> geqrf_contract V vzero vadd vmul geqrf_f qdec ->
    forall aa tau mA mT, geqrf_dom aa tau = true ->
      let '(mA', mT', r) := geqrf_run V geqrf_f aa tau mA mT in
      let rows := m_n0 aa in let cols := m_n1 aa in
         r = aa
      /\ (forall p, ~ in_mat aa p -> mA' p = mA p)
      /\ (forall p, ~ in_vec tau p -> mT' p = mT p)
      /\ (forall a b, 0 <= a < rows -> 0 <= b < cols ->
            vmat V mA aa a b
            = vsumZ V vzero vadd (Z.min cols rows)
                (fun l => vmul (qdec cols rows (transp V (vmat V mA' aa)) (vvec V mT' tau) b l)
                               (upper_of V vzero (transp V (vmat V mA' aa)) l a))).
Lemma C14_geqrf_factorization_proved : C14_geqrf_factorization_statement.
Proof.
  unfold C14_geqrf_factorization_statement. intros V vzero vadd vmul geqrf_f qdec He Hc aa tau mA mT Hdom.
  exact (geqrf_sem V vzero vadd vmul geqrf_f qdec He Hc aa tau mA mT Hdom).
Qed.

(* ------------------------------------------------------------------------------------------ *)
(* gesvd                                                                                        *)
(* ------------------------------------------------------------------------------------------ *)
Lemma C14_gesvd_marshalling_proved :
  forall aa uu ss vv, gesvd_dom aa uu ss vv = true ->
    forall w lwork, let c := gesvd_mk aa uu ss vv w lwork in
       gesvd_asrt aa uu ss vv = true
    /\ ((lwork = -1 \/ gesvd_minwork (m_n1 aa) (m_n0 aa) <= lwork) -> gesvd_legal c = true)
    /\ gs_m c = m_n1 aa /\ gs_n c = m_n0 aa
    /\ (forall i j, gs_a c + i + j * gs_lda c = maddr aa j i)
    /\ (forall i j, gs_u c + i + j * gs_ldu c = maddr vv j i)
    /\ (forall i j, gs_vt c + i + j * gs_ldvt c = maddr uu j i)
    /\ (forall l, gs_s c + l = vaddr ss l)
    /\ (forall p, in_colmajor (gs_a c) (gs_lda c) (gs_m c) (gs_n c) p <-> in_mat aa p)
    /\ (forall p, in_colmajor (gs_u c) (gs_ldu c) (gs_m c) (gs_m c) p <-> in_mat vv p)
    /\ (forall p, in_colmajor (gs_vt c) (gs_ldvt c) (gs_n c) (gs_n c) p <-> in_mat uu p)
    /\ (forall p, in_run (gs_s c) (Z.min (gs_m c) (gs_n c)) p <-> in_vec ss p).
Proof.
  intros aa uu ss vv Hdom w lwork c. subst c.
  split. { unfold gesvd_dom in Hdom. unfold gesvd_asrt in *. lia. }
  split; [apply gesvd_call_legal; exact Hdom|].
  destruct (gesvd_matrices_seen aa uu vv ss Hdom w lwork) as (Hm & Hn & HA & HU & HVT & HS).
  split; [exact Hm|]. split; [exact Hn|]. split; [exact HA|]. split; [exact HU|]. split; [exact HVT|].
  split; [exact HS|].
  split; [intros p; apply (gesvd_footprints aa uu vv ss Hdom w lwork p)|].
  split; [intros p; apply (gesvd_footprints aa uu vv ss Hdom w lwork p)|].
  split; intros p; apply (gesvd_footprints aa uu vv ss Hdom w lwork p).
Qed.

Definition C14_gesvd_factorization_statement : Prop :=
  forall (V : Type) (vzero : V) (vadd vmul : V -> V -> V) (vle : V -> V -> Prop)
         (gesvd_f : Z -> Z -> Z -> Z -> Z -> Z -> Z -> Z -> Z -> mem V -> mem V -> mem V -> mem V ->
                    mem V * mem V * mem V * mem V * Z),
    (forall x y, vmul x y = vmul y x) -> (forall x y z, vmul x (vmul y z) = vmul (vmul x y) z) ->
    gesvd_contract V vzero vadd vmul vle gesvd_f ->
    forall aa uu ss vv mA mU mS mV, gesvd_dom aa uu ss vv = true ->
      let '(mA', mU', mS', mV') := gesvd_run V gesvd_f aa uu ss vv mA mU mS mV in
      let r := m_n0 aa in let c := m_n1 aa in
         (forall p, ~ in_mat aa p -> mA' p = mA p)
      /\ (forall p, ~ in_mat uu p -> mU' p = mU p)
      /\ (forall p, ~ in_vec ss p -> mS' p = mS p)
      /\ (forall p, ~ in_mat vv p -> mV' p = mV p)
      /\ (forall l, 0 <= l < Z.min r c -> vle vzero (vvec V mS' ss l))
      /\ (forall l, 0 <= l -> l + 1 < Z.min r c -> vle (vvec V mS' ss (l + 1)) (vvec V mS' ss l))
      /\ (forall a b, 0 <= a < r -> 0 <= b < c ->
            vmat V mA aa a b
            = vsumZ V vzero vadd (Z.min r c)
                (fun l => vmul (vmat V mU' uu a l) (vmul (vvec V mS' ss l) (vmat V mV' vv l b)))).
Lemma C14_gesvd_factorization_proved : C14_gesvd_factorization_statement.
Proof.
  unfold C14_gesvd_factorization_statement. intros V vzero vadd vmul vle gesvd_f Hcomm Hassoc Hc aa uu ss vv mA mU mS mV Hdom.
  exact (gesvd_sem V vzero vadd vmul vle gesvd_f Hcomm Hassoc Hc aa uu ss vv mA mU mS mV Hdom).
Qed.

Lemma C14_gesvd_by_value_proved : forall r c, 1 <= r -> 1 <= c ->
  let '(aa, uu, ss, vv) := gesvd_value_operands r c in
  gesvd_dom aa uu ss vv = true /\ m_n0 aa = r /\ m_n1 aa = c.
Proof.
  intros r c Hr Hc. pose proof (gesvd_value_operands_dom r c Hr Hc) as H.
  unfold gesvd_value_operands in *. repeat split; assumption.
Qed.

(* ------------------------------------------------------------------------------------------ *)
(* syev                                                                                         *)
(* ------------------------------------------------------------------------------------------ *)
Lemma C14_syev_marshalling_proved :
  forall uplo a w work, syev_dom a w work = true ->
       syev_asrt a w work = true
    /\ (m_n0 a = 0 -> syev_step_of uplo a w work = SyNoCall)
    /\ (0 < m_n0 a -> exists c, syev_step_of uplo a w work = SyCall c
          /\ syev_legal c = true /\ sy_n c = m_n0 a
          /\ (forall i j, sy_a c + i + j * sy_lda c = if syev_rowbranch a then maddr a j i else maddr a i j)
          /\ (forall i j, ftri (sy_uplo c) i j = if syev_rowbranch a then vtri uplo j i else vtri uplo i j)
          /\ (forall p, in_colmajor (sy_a c) (sy_lda c) (sy_n c) (sy_n c) p <-> in_mat a p)
          /\ (forall p, in_run (sy_w c) (sy_n c) p <-> in_vec w p)
          /\ (forall p, in_run (sy_work c) (sy_lwork c) p <-> in_vec work p))
    /\ (forall info, syev_ret a info = if m_n0 a =? 0 then a else m_block a (m_n0 a - info) (m_n0 a - info))
    /\ (forall n, Z.max 1 (3 * n - 1) <= syev_work_size n).
Proof.
  intros uplo a w work Hdom.
  destruct (syev_call_legal uplo a w work Hdom) as [Hasrt Hstep].
  split; [exact Hasrt|]. split; [|split; [|split]].
  - intros H0. rewrite (syev_step_spec uplo a w work Hdom). rewrite H0. reflexivity.
  - intros Hpos. destruct (syev_step_of uplo a w work) as [|c|] eqn:Hc; [lia| |contradiction].
    exists c. destruct Hstep as (Hl & Hn & _).
    split; [reflexivity|]. split; [exact Hl|]. split; [exact Hn|].
    split; [apply (syev_matrix_seen uplo a w work Hdom c Hc)|].
    split; [apply (syev_triangle uplo a w work Hdom c Hc)|].
    split; [intros p; apply (syev_footprint uplo a w work Hdom c Hc p)|].
    split; intros p; apply (syev_footprint uplo a w work Hdom c Hc p).
  - intros info. reflexivity.
  - apply syev_work_size_ok.
Qed.

Definition C14_syev_factorization_statement : Prop :=
  forall (V : Type) (vzero : V) (vadd vmul : V -> V -> V) (vle : V -> V -> Prop)
         (syev_f : fchar -> Z -> Z -> Z -> Z -> mem V -> mem V -> mem V * mem V * Z),
    syev_contract V vzero vadd vmul vle syev_f ->
    forall uplo a w work mA mW, syev_dom a w work = true -> 0 < m_n0 a ->
      match syev_run V syev_f uplo a w work mA mW with
      | None => False
      | Some (mA', mW', r) =>
          let n := m_n0 a in
             (exists info, 0 <= info <= n /\ r = m_block a (n - info) (n - info))
          /\ (forall p, ~ in_mat a p -> mA' p = mA p)
          /\ (forall p, ~ in_vec w p -> mW' p = mW p)
          /\ (m_n0 r = n ->
                (forall l, 0 <= l -> l + 1 < n -> vle (vvec V mW' w l) (vvec V mW' w (l + 1)))
             /\ (forall i j, 0 <= i < n -> 0 <= j < n ->
                   symv V uplo (vmat V mA a) i j
                   = vsumZ V vzero vadd n
                       (fun l => vmul (eigvec V a (vmat V mA' a) i l)
                                      (vmul (vvec V mW' w l) (eigvec V a (vmat V mA' a) j l)))))
      end.
Lemma C14_syev_factorization_proved : C14_syev_factorization_statement.
Proof.
  unfold C14_syev_factorization_statement. intros V vzero vadd vmul vle syev_f Hc uplo a w work mA mW Hdom Hpos.
  exact (syev_sem V vzero vadd vmul vle syev_f Hc uplo a w work mA mW Hdom Hpos).
Qed.

(* ------------------------------------------------------------------------------------------ *)
(* the views of the property's quantifier are in the domains                                    *)
(* ------------------------------------------------------------------------------------------ *)
Lemma C14_quantified_views_accepted_proved :
     (forall C r0 c0 n t, 0 <= n -> 0 <= c0 -> c0 + n <= C -> 1 <= C ->
        potrf_dom (mk_operand C r0 c0 n n t) = true)
  /\ (forall C r0 c0 nr nc off, 0 <= nr -> 0 <= nc -> 0 <= c0 -> c0 + nc <= C -> 1 <= C ->
        geqrf_dom (root_block C r0 c0 nr nc) (mkvec off 1 (Z.min nc nr)) = true)
  /\ (forall CA ra ca CU ru cu CV rv cv r c off,
        0 <= r -> 0 <= c -> 0 <= ca -> ca + c <= CA -> 1 <= CA -> 0 <= cu -> cu + r <= CU -> 1 <= CU ->
        0 <= cv -> cv + c <= CV -> 1 <= CV ->
        gesvd_dom (root_block CA ra ca r c) (root_block CU ru cu r r) (mkvec off 1 (Z.min r c)) (root_block CV rv cv c c) = true)
  /\ (forall C r0 c0 n t woff koff kn, 0 <= n -> 0 <= c0 -> c0 + n <= C -> 1 <= C -> Z.max 1 (3 * n - 1) <= kn ->
        syev_dom (mk_operand C r0 c0 n n t) (mkvec woff 1 n) (mkvec koff 1 kn) = true).
Proof.
  split; [exact operand_potrf_dom|]. split; [exact operand_geqrf_dom|].
  split; [exact operand_gesvd_dom|exact operand_syev_dom].
Qed.

(* ------------------------------------------------------------------------------------------ *)
(* Examples: the hypotheses are satisfiable                                                     *)
(* ------------------------------------------------------------------------------------------ *)
(* a padded 4x4 block at (1,2) of a 7x8 row-major array, transposed (column-major view), upper *)
Example ex_potrf_padded_transposed :
  let v := mk_operand 8 1 2 4 4 true in
     potrf_dom v = true
  /\ potrf_call_of Upper v = mkpc FU 4 10 8
  /\ potrf_ret v 3 = mkmat 10 1 8 2 2
  /\ potrf_call_of Upper (mk_operand 8 1 2 4 4 false) = mkpc FL 4 10 8
  /\ potrf_ret (mk_operand 8 1 2 4 4 false) 3 = mkmat 10 8 1 2 2.
Proof. vm_compute. repeat split; reflexivity. Qed.

Example ex_gesvd_rect :
  let aa := root_block 9 1 2 3 5 in let uu := root_block 4 0 1 3 3 in
  let vv := root_block 7 1 1 5 5 in let ss := mkvec 2 1 3 in
     gesvd_dom aa uu ss vv = true
  /\ gesvd_mk aa uu ss vv WAlloc 100 = mkgs true true 5 3 11 9 2 8 7 1 4 WAlloc 100.
Proof. vm_compute. split; reflexivity. Qed.

Example ex_syev_colmajor :
  let a := mk_operand 6 0 1 3 3 true in
  syev_dom a (mkvec 0 1 3) (mkvec 0 1 8) = true
  /\ syev_step_of Upper a (mkvec 0 1 3) (mkvec 0 1 8) = SyCall (mksy true FU 3 1 6 0 0 8).
Proof. vm_compute. split; reflexivity. Qed.

(* the potrf contract has models for every value type: "a LAPACK that gives up at the first
   minor" (info = 1, nothing written) satisfies it, so the premise of the factorization theorem is
   not contradictory *)
Example potrf_contract_satisfiable :
  forall (V : Type) (vzero : V) (vadd vmul : V -> V -> V),
    potrf_contract V vzero vadd vmul (fun _ n _ _ m => (m, if n =? 0 then 0 else 1)).
Proof.
  intros V vzero vadd vmul c n a lda m Hlegal. unfold potrf_legal in Hlegal. cbn [pc_n pc_lda] in Hlegal.
  cbv zeta. unfold potrf_order.
  destruct (n =? 0) eqn:E; cbn [Z.eqb]; bprop.
  - subst n. split; [lia|]. split; [reflexivity|]. intros i j Hi. lia.
  - split; [lia|]. split; [reflexivity|]. intros i j Hi. lia.
Qed.

(* the other contracts are satisfiable at least over the one-point value type *)
Example gesvd_contract_satisfiable :
  gesvd_contract unit tt (fun _ _ => tt) (fun _ _ => tt) (fun _ _ => True)
    (fun _ _ _ _ _ _ _ _ _ mA mS mU mVT => (mA, mS, mU, mVT, 0)).
Proof.
  unfold gesvd_contract. intros. repeat split; auto; intros;
    repeat match goal with |- ?x = ?y => destruct x; destruct y; reflexivity end.
Qed.

Example syev_contract_satisfiable :
  syev_contract unit tt (fun _ _ => tt) (fun _ _ => tt) (fun _ _ => True)
    (fun _ _ _ _ _ mA mW => (mA, mW, 0)).
Proof.
  unfold syev_contract. intros. repeat split; auto; try lia; intros;
    repeat match goal with |- ?x = ?y => destruct x; destruct y; reflexivity end.
Qed.

Example geqrf_contract_satisfiable :
  qdec_ext unit (fun _ _ _ _ _ _ => tt) /\
  geqrf_contract unit tt (fun _ _ => tt) (fun _ _ => tt)
    (fun _ _ _ _ _ mA mT => (mA, mT, 0)) (fun _ _ _ _ _ _ => tt).
Proof.
  split; [unfold qdec_ext; reflexivity|].
  unfold geqrf_contract. intros. repeat split; auto; intros;
    repeat match goal with |- ?x = ?y => destruct x; destruct y; reflexivity end.
Qed.

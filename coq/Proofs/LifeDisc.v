(* Structural discipline of every program of the lifecycle machine: the ledger only grows; a run without a pending
   fault never throws, keeps "no pending fault" and records no throw event. *)
From BM Require Import Base.Tactics Model.Life Proofs.LifeBase.
Local Open Scope Z_scope.

Definition ledger_ext (s s' : state) : Prop := exists l, s_ledger s' = l ++ s_ledger s.

Lemma ledger_ext_refl s : ledger_ext s s.
Proof. exists []. reflexivity. Qed.
Lemma ledger_ext_trans s1 s2 s3 : ledger_ext s1 s2 -> ledger_ext s2 s3 -> ledger_ext s1 s3.
Proof. intros [l1 H1] [l2 H2]. exists (l2 ++ l1). rewrite H2, H1, app_assoc. reflexivity. Qed.
Lemma ledger_ext_in s s' e : ledger_ext s s' -> In e (s_ledger s) -> In e (s_ledger s').
Proof. intros [l H] Hin. rewrite H. apply in_or_app. auto. Qed.

Definition quiet (s s' : state) : Prop :=
  s_fault s = None -> s_fault s' = None /\ forall w, In (EvThrow w) (s_ledger s') -> In (EvThrow w) (s_ledger s).

Definition disc {A} (m : M A) : Prop := forall s,
  match m s with
  | Ok _ s' => ledger_ext s s' /\ quiet s s'
  | Threw s' => ledger_ext s s' /\ s_fault s <> None
  | Err _ => True
  end.

Lemma quiet_refl s : quiet s s.
Proof. intros H. auto. Qed.
Lemma quiet_trans s1 s2 s3 : quiet s1 s2 -> quiet s2 s3 -> quiet s1 s3.
Proof. intros H1 H2 Hf. destruct (H1 Hf) as [F1 E1]. destruct (H2 F1) as [F2 E2]. auto. Qed.

Lemma disc_ret {A} (x : A) : disc (ret x).
Proof. intros s. cbn. split; [apply ledger_ext_refl|apply quiet_refl]. Qed.
Lemma disc_fail {A} e : disc (@fail A e).
Proof. intros s. exact I. Qed.

Lemma disc_bind {A B} (m : M A) (f : A -> M B) : disc m -> (forall x, disc (f x)) -> disc (bind m f).
Proof.
  intros Hm Hf s. unfold bind. specialize (Hm s). destruct (m s) as [x s1|s1|e]; auto.
  destruct Hm as [L1 Q1]. specialize (Hf x s1). destruct (f x s1) as [y s2|s2|e]; auto.
  - destruct Hf as [L2 Q2]. split; [eapply ledger_ext_trans; eauto|eapply quiet_trans; eauto].
  - destruct Hf as [L2 N2]. split; [eapply ledger_ext_trans; eauto|]. intros Hn. apply N2. apply (Q1 Hn).
Qed.

Lemma disc_on_throw {A} (m : M A) (c : M unit) : disc m -> disc c -> disc (on_throw m c).
Proof.
  intros Hm Hc s. unfold on_throw. specialize (Hm s). destruct (m s) as [x s1|s1|e]; auto.
  destruct Hm as [L1 N1]. specialize (Hc s1). destruct (c s1) as [[] s2|s2|e]; auto.
  - destruct Hc as [L2 _]. split; auto. eapply ledger_ext_trans; eauto.
  - destruct Hc as [L2 _]. split; auto. eapply ledger_ext_trans; eauto.
Qed.

(* the handler of reextent &&: it runs only after a throw, so it may record the site *)
Lemma disc_on_throw_emit {A} (m : M A) w : disc m -> disc (on_throw m (fun s => Ok tt (emit (EvThrow w) s))).
Proof.
  intros Hm s. unfold on_throw. specialize (Hm s). destruct (m s) as [x s1|s1|e]; auto.
  destruct Hm as [[l L1] N1]. split; auto. exists (EvThrow w :: l). cbn. rewrite L1. reflexivity.
Qed.

(* a step that keeps the ledger and the fault counter *)
Lemma disc_same {A} (m : M A) :
  (forall s, match m s with Ok _ s' => s_ledger s' = s_ledger s /\ s_fault s' = s_fault s | Threw _ => False | Err _ => True end) ->
  disc m.
Proof.
  intros H s. specialize (H s). destruct (m s) as [x s1|s1|e]; auto; [|contradiction].
  destruct H as [E F]. split; [exists []; auto|]. intros Hn. rewrite F, E. auto.
Qed.

Lemma disc_tick w : disc (tick w).
Proof.
  intros s. unfold tick. destruct (s_fault s) as [[|[|k]]|] eqn:E; cbn.
  - split; [exists []; reflexivity|]. intros H; congruence.
  - split; [exists [EvThrow w]; reflexivity|congruence].
  - split; [exists []; reflexivity|]. intros H; congruence.
  - split; [exists []; reflexivity|]. intros _. cbn. auto.
Qed.

Lemma disc_tick_elem cfg w : disc (tick_elem cfg w).
Proof. unfold tick_elem. destruct (c_quiet cfg); [apply disc_ret|apply disc_tick]. Qed.

Lemma disc_get_block b : disc (get_block b).
Proof. apply disc_same. intros s. unfold get_block. destruct (nth_error (s_blocks s) b) as [blk|]; auto. destruct (b_live blk); auto. Qed.
Lemma disc_put_block b blk : disc (put_block b blk).
Proof. apply disc_same. intros s. cbn. auto. Qed.
Lemma disc_get_arr r : disc (get_arr r).
Proof. apply disc_same. intros s. unfold get_arr. destruct (nth_error (s_arrs s) r) as [[a|]|]; auto. Qed.
Lemma disc_slot_free r : disc (slot_free r).
Proof. apply disc_same. intros s. unfold slot_free. destruct (nth_error (s_arrs s) r) as [[a|]|]; auto. Qed.
Lemma disc_set_arr r a : disc (set_arr r a).
Proof. apply disc_same. intros s. cbn. auto. Qed.
Lemma disc_del_arr r : disc (del_arr r).
Proof. apply disc_same. intros s. cbn. auto. Qed.
Lemma disc_add_copies k : disc (fun s => Ok tt (add_copies k s)).
Proof. apply disc_same. intros s. cbn. auto. Qed.

Ltac disc_step :=
  first
    [ apply disc_ret | apply disc_fail | apply disc_tick | apply disc_tick_elem
    | apply disc_get_block | apply disc_put_block | apply disc_get_arr | apply disc_slot_free
    | apply disc_set_arr | apply disc_del_arr | apply disc_add_copies
    | apply disc_bind; [|intros ?]
    | apply disc_on_throw_emit
    | apply disc_on_throw
    | match goal with
      | |- disc (if ?c then _ else _) => destruct c
      | |- disc (match ?x with _ => _ end) => destruct x
      end ].

Lemma disc_set_cell b i c : disc (set_cell b i c).
Proof. unfold set_cell. repeat disc_step. Qed.
Lemma disc_get_cell b i : disc (get_cell b i).
Proof. unfold get_cell. repeat disc_step. Qed.

Lemma disc_alloc a n : disc (alloc a n).
Proof.
  unfold alloc. destruct (n <=? 0); [apply disc_ret|].
  apply disc_bind; [destruct (a =? std_alloc); [apply disc_ret|apply disc_tick]|]. intros _.
  intros s. cbn. split.
  - exists [EvAlloc a (length (s_blocks s)) n]. reflexivity.
  - intros Hn. split; auto. intros w [E|H]; [discriminate|auto].
Qed.

Lemma disc_dealloc cfg a p n : disc (dealloc cfg a p n).
Proof.
  unfold dealloc. destruct (n <=? 0); [apply disc_ret|]. destruct p as [|b]; [apply disc_fail|].
  intros s. destruct (nth_error (s_blocks s) b) as [blk|]; auto.
  destruct (negb (b_live blk)); auto. destruct (negb (b_size blk =? n)); auto.
  destruct (negb (alloc_eq cfg (b_owner blk) a)); auto.
  destruct (negb (c_tdtor cfg) && negb (all_raw (b_cells blk))); auto.
  cbn. split.
  - exists [EvDealloc a b n]. reflexivity.
  - intros Hn. split; auto. intros w [E|H]; [discriminate|auto].
Qed.

Ltac disc_prim :=
  first [ apply disc_set_cell | apply disc_get_cell | apply disc_alloc | apply disc_dealloc | disc_step ].

Lemma disc_construct1 b i v : disc (construct1 b i v).
Proof. unfold construct1. repeat disc_prim. Qed.
Lemma disc_destroy1 b i : disc (destroy1 b i).
Proof. unfold destroy1. repeat disc_prim. Qed.
Lemma disc_read1 cfg b i : disc (read1 cfg b i).
Proof. unfold read1. repeat disc_prim. Qed.
Lemma disc_assign1 cfg b i v : disc (assign1 cfg b i v).
Proof. unfold assign1. repeat disc_prim. Qed.
Lemma disc_mark_moved cfg b i : disc (mark_moved cfg b i).
Proof. unfold mark_moved. repeat disc_prim. Qed.
Lemma disc_read_src cfg x : disc (read_src cfg x).
Proof. destruct x; cbn; [apply disc_ret|apply disc_read1|apply disc_read1]. Qed.
Lemma disc_after_src cfg x : disc (after_src cfg x).
Proof. destruct x; cbn; [apply disc_add_copies|apply disc_add_copies|apply disc_mark_moved]. Qed.

Lemma disc_destroy_range b start n : disc (destroy_range b start n).
Proof. induction n; cbn [destroy_range]; [apply disc_ret|]. apply disc_bind; [apply disc_destroy1|auto]. Qed.

Lemma disc_construct_loop cfg w b start srcs : forall i, disc (construct_loop cfg w b start i srcs).
Proof.
  induction srcs as [|x srcs IH]; intros i; cbn [construct_loop]; [apply disc_ret|].
  apply disc_bind; [apply disc_on_throw; [apply disc_tick_elem|apply disc_destroy_range]|]. intros _.
  apply disc_bind; [apply disc_read_src|]. intros v.
  apply disc_bind; [apply disc_construct1|]. intros _.
  apply disc_bind; [apply disc_after_src|]. intros _. apply IH.
Qed.

Lemma disc_construct_rows cfg w b rowlen fuel : forall srcs i, disc (construct_rows cfg w b i rowlen fuel srcs).
Proof.
  induction fuel as [|fuel IH]; intros srcs i; cbn [construct_rows]; [apply disc_ret|].
  destruct srcs; [apply disc_ret|].
  apply disc_bind; [apply disc_construct_loop|]. intros _. apply IH.
Qed.

Lemma disc_default_construct_n b n : forall i, disc (default_construct_n b i n).
Proof. induction n; intros i; cbn [default_construct_n]; [apply disc_ret|]. apply disc_bind; [apply disc_construct1|auto]. Qed.

Lemma disc_assign_loop cfg w b offs : forall srcs, disc (assign_loop cfg w b offs srcs).
Proof.
  induction offs as [|o offs IH]; intros srcs; cbn [assign_loop]; [apply disc_ret|].
  destruct srcs as [|x srcs]; [apply disc_ret|].
  apply disc_bind; [apply disc_tick_elem|]. intros _.
  apply disc_bind; [apply disc_read_src|]. intros v.
  apply disc_bind; [apply disc_assign1|]. intros _.
  apply disc_bind; [apply disc_after_src|]. intros _. apply IH.
Qed.

Ltac disc_all :=
  repeat first
    [ apply disc_destroy_range | apply disc_construct_loop | apply disc_construct_rows | apply disc_default_construct_n
    | apply disc_assign_loop | apply disc_construct1 | apply disc_assign1 | disc_prim ].

Lemma disc_base_blk a : disc (base_blk a).
Proof. unfold base_blk. destruct (a_base a); [apply disc_fail|apply disc_ret]. Qed.

Lemma disc_release cfg a : disc (release cfg a).
Proof. unfold release. apply disc_bind; [|intros _; apply disc_dealloc]. destruct (c_tdtor cfg || (nel a <=? 0)); [apply disc_ret|]. apply disc_bind; [apply disc_base_blk|intros b; apply disc_destroy_range]. Qed.

Lemma disc_p_clear cfg r : disc (p_clear cfg r).
Proof. unfold p_clear. apply disc_bind; [apply disc_get_arr|]. intros a. apply disc_bind; [apply disc_release|]. intros _. apply disc_set_arr. Qed.
Lemma disc_p_dtor cfg r : disc (p_dtor cfg r).
Proof. unfold p_dtor. apply disc_bind; [apply disc_get_arr|]. intros a. apply disc_bind; [apply disc_release|]. intros _. apply disc_del_arr. Qed.

Lemma disc_p_build cfg a n rowlen srcs : disc (p_build cfg a n rowlen srcs).
Proof.
  unfold p_build. apply disc_bind; [apply disc_alloc|]. intros [|b]; [apply disc_ret|].
  apply disc_bind; [apply disc_construct_rows|]. intros _. apply disc_ret.
Qed.

Lemma disc_install r a p x : disc (install r a p x).
Proof. unfold install. apply disc_set_arr. Qed.

Lemma disc_p_adopt cfg r t : disc (p_adopt cfg r t).
Proof. unfold p_adopt. repeat (apply disc_bind; [first [apply disc_get_arr|apply disc_set_arr]|intros ?]). apply disc_set_arr. Qed.
Lemma disc_p_set_alloc r a : disc (p_set_alloc r a).
Proof. unfold p_set_alloc. apply disc_bind; [apply disc_get_arr|]. intros ?. apply disc_set_arr. Qed.

Lemma disc_assign_all cfg ar srcs : disc (assign_all cfg ar srcs).
Proof. unfold assign_all. destruct (nel ar <=? 0); [apply disc_ret|]. apply disc_bind; [apply disc_base_blk|]. intros b. apply disc_assign_loop. Qed.

Ltac disc_mid :=
  repeat first
    [ apply disc_p_clear | apply disc_p_dtor | apply disc_p_build | apply disc_install | apply disc_p_adopt
    | apply disc_p_set_alloc | apply disc_assign_all | apply disc_release | apply disc_base_blk
    | apply disc_destroy_range | apply disc_construct_loop | apply disc_construct_rows | apply disc_default_construct_n
    | apply disc_assign_loop | apply disc_construct1 | apply disc_assign1 | disc_prim ].

Lemma disc_move_assign cfg tmp r t : disc (move_assign cfg tmp r t).
Proof. unfold move_assign. disc_mid. Qed.

Lemma disc_step_op cfg o : disc (step cfg o).
Proof.
  destruct o; cbn [step]; unfold ctor_from_tmp_moved, value_construct_n; cbv zeta;
    repeat first [ apply disc_on_throw_emit | apply disc_move_assign | disc_mid ].
Qed.

Lemma disc_unwind cfg : disc (unwind cfg).
Proof.
  unfold unwind, unwind1.
  repeat (apply disc_bind; [|intros _]);
    intros s; match goal with |- context[nth_error (s_arrs s) ?t] => destruct (nth_error (s_arrs s) t) as [[a|]|] end;
    try (apply disc_p_dtor); cbn; (split; [apply ledger_ext_refl|apply quiet_refl]).
Qed.

(* ---------------------------------------------------------------------------------------- *)
(* block-level programs never touch the array objects                                        *)
(* ---------------------------------------------------------------------------------------- *)
Definition keeps {A} (m : M A) : Prop := forall s,
  match m s with Ok _ s' | Threw s' => s_arrs s' = s_arrs s | Err _ => True end.

Lemma keeps_ret {A} (x : A) : keeps (ret x).
Proof. intros s. reflexivity. Qed.
Lemma keeps_fail {A} e : keeps (@fail A e).
Proof. intros s. exact I. Qed.
Lemma keeps_bind {A B} (m : M A) (f : A -> M B) : keeps m -> (forall x, keeps (f x)) -> keeps (bind m f).
Proof.
  intros Hm Hf s. unfold bind. specialize (Hm s). destruct (m s) as [x s1|s1|e]; auto.
  specialize (Hf x s1). destruct (f x s1); auto; congruence.
Qed.
Lemma keeps_on_throw {A} (m : M A) (c : M unit) : keeps m -> keeps c -> keeps (on_throw m c).
Proof.
  intros Hm Hc s. unfold on_throw. specialize (Hm s). destruct (m s) as [x s1|s1|e]; auto.
  specialize (Hc s1). destruct (c s1) as [[] s2|s2|e]; auto; congruence.
Qed.
Lemma keeps_tick w : keeps (tick w).
Proof. intros s. unfold tick. destruct (s_fault s) as [[|[|k]]|]; reflexivity. Qed.
Lemma keeps_tick_elem cfg w : keeps (tick_elem cfg w).
Proof. unfold tick_elem. destruct (c_quiet cfg); [apply keeps_ret|apply keeps_tick]. Qed.
Lemma keeps_get_block b : keeps (get_block b).
Proof. intros s. unfold get_block. destruct (nth_error (s_blocks s) b) as [blk|]; auto. destruct (b_live blk); auto. Qed.
Lemma keeps_put_block b blk : keeps (put_block b blk).
Proof. intros s. reflexivity. Qed.
Lemma keeps_add_copies k : keeps (fun s => Ok tt (add_copies k s)).
Proof. intros s. reflexivity. Qed.

Ltac keeps_step :=
  first
    [ apply keeps_ret | apply keeps_fail | apply keeps_tick | apply keeps_tick_elem
    | apply keeps_get_block | apply keeps_put_block | apply keeps_add_copies
    | apply keeps_bind; [|intros ?]
    | apply keeps_on_throw
    | match goal with
      | |- keeps (if ?c then _ else _) => destruct c
      | |- keeps (match ?x with _ => _ end) => destruct x
      end ].

Lemma keeps_set_cell b i c : keeps (set_cell b i c).
Proof. unfold set_cell. repeat keeps_step. Qed.
Lemma keeps_get_cell b i : keeps (get_cell b i).
Proof. unfold get_cell. repeat keeps_step. Qed.
Lemma keeps_alloc a n : keeps (alloc a n).
Proof.
  unfold alloc. destruct (n <=? 0); [apply keeps_ret|].
  apply keeps_bind; [destruct (a =? std_alloc); [apply keeps_ret|apply keeps_tick]|]. intros _ s. reflexivity.
Qed.
Lemma keeps_dealloc cfg a p n : keeps (dealloc cfg a p n).
Proof.
  unfold dealloc. destruct (n <=? 0); [apply keeps_ret|]. destruct p as [|b]; [apply keeps_fail|].
  intros s. destruct (nth_error (s_blocks s) b) as [blk|]; auto.
  destruct (negb (b_live blk)); auto. destruct (negb (b_size blk =? n)); auto.
  destruct (negb (alloc_eq cfg (b_owner blk) a)); auto.
  destruct (negb (c_tdtor cfg) && negb (all_raw (b_cells blk))); auto.
Qed.
Ltac keeps_prim :=
  first [ apply keeps_set_cell | apply keeps_get_cell | apply keeps_alloc | apply keeps_dealloc | keeps_step ].
Lemma keeps_construct1 b i v : keeps (construct1 b i v).
Proof. unfold construct1. repeat keeps_prim. Qed.
Lemma keeps_destroy1 b i : keeps (destroy1 b i).
Proof. unfold destroy1. repeat keeps_prim. Qed.
Lemma keeps_read1 cfg b i : keeps (read1 cfg b i).
Proof. unfold read1. repeat keeps_prim. Qed.
Lemma keeps_assign1 cfg b i v : keeps (assign1 cfg b i v).
Proof. unfold assign1. repeat keeps_prim. Qed.
Lemma keeps_mark_moved cfg b i : keeps (mark_moved cfg b i).
Proof. unfold mark_moved. repeat keeps_prim. Qed.
Lemma keeps_read_src cfg x : keeps (read_src cfg x).
Proof. destruct x; cbn; [apply keeps_ret|apply keeps_read1|apply keeps_read1]. Qed.
Lemma keeps_after_src cfg x : keeps (after_src cfg x).
Proof. destruct x; cbn; [apply keeps_add_copies|apply keeps_add_copies|apply keeps_mark_moved]. Qed.
Lemma keeps_destroy_range b start n : keeps (destroy_range b start n).
Proof. induction n; cbn [destroy_range]; [apply keeps_ret|]. apply keeps_bind; [apply keeps_destroy1|auto]. Qed.
Lemma keeps_construct_loop cfg w b start srcs : forall i, keeps (construct_loop cfg w b start i srcs).
Proof.
  induction srcs as [|x srcs IH]; intros i; cbn [construct_loop]; [apply keeps_ret|].
  apply keeps_bind; [apply keeps_on_throw; [apply keeps_tick_elem|apply keeps_destroy_range]|]. intros _.
  apply keeps_bind; [apply keeps_read_src|]. intros v.
  apply keeps_bind; [apply keeps_construct1|]. intros _.
  apply keeps_bind; [apply keeps_after_src|]. intros _. apply IH.
Qed.
Lemma keeps_construct_rows cfg w b rowlen fuel : forall srcs i, keeps (construct_rows cfg w b i rowlen fuel srcs).
Proof.
  induction fuel as [|fuel IH]; intros srcs i; cbn [construct_rows]; [apply keeps_ret|].
  destruct srcs; [apply keeps_ret|]. apply keeps_bind; [apply keeps_construct_loop|]. intros _. apply IH.
Qed.
Lemma keeps_default_construct_n b n : forall i, keeps (default_construct_n b i n).
Proof. induction n; intros i; cbn [default_construct_n]; [apply keeps_ret|]. apply keeps_bind; [apply keeps_construct1|auto]. Qed.
Lemma keeps_assign_loop cfg w b offs : forall srcs, keeps (assign_loop cfg w b offs srcs).
Proof.
  induction offs as [|o offs IH]; intros srcs; cbn [assign_loop]; [apply keeps_ret|].
  destruct srcs as [|x srcs]; [apply keeps_ret|].
  apply keeps_bind; [apply keeps_tick_elem|]. intros _.
  apply keeps_bind; [apply keeps_read_src|]. intros v.
  apply keeps_bind; [apply keeps_assign1|]. intros _.
  apply keeps_bind; [apply keeps_after_src|]. intros _. apply IH.
Qed.
Lemma keeps_base_blk a : keeps (base_blk a).
Proof. unfold base_blk. destruct (a_base a); [apply keeps_fail|apply keeps_ret]. Qed.
Lemma keeps_release cfg a : keeps (release cfg a).
Proof.
  unfold release. apply keeps_bind; [|intros _; apply keeps_dealloc].
  destruct (c_tdtor cfg || (nel a <=? 0)); [apply keeps_ret|].
  apply keeps_bind; [apply keeps_base_blk|intros b; apply keeps_destroy_range].
Qed.
Lemma keeps_p_build cfg a n rowlen srcs : keeps (p_build cfg a n rowlen srcs).
Proof.
  unfold p_build. apply keeps_bind; [apply keeps_alloc|]. intros [|b]; [apply keeps_ret|].
  apply keeps_bind; [apply keeps_construct_rows|]. intros _. apply keeps_ret.
Qed.
Lemma keeps_assign_all cfg ar srcs : keeps (assign_all cfg ar srcs).
Proof. unfold assign_all. destruct (nel ar <=? 0); [apply keeps_ret|]. apply keeps_bind; [apply keeps_base_blk|]. intros b. apply keeps_assign_loop. Qed.

(* C17 -- the statements Properties_C17.v closes with `exact`, the nested-array instance, the
   instances that the driver runs, and concrete examples showing the premises are satisfiable. *)
From BM Require Import Base.Tactics Model.Layout Model.CodecArray Model.CodecView
  Proofs.CodecArrayProofs Proofs.CodecViewProofs Proofs.CodecBridge.
From Coq Require Import Permutation.
Local Open Scope Z_scope.

(* ---------- arrays of arrays: the element codec of the outer array is the theorem itself ---------- *)
Section Nested.
  Variable value : Type.
  Variable dflt : value.
  Variable okv : value -> Prop.
  Hypothesis okv_dflt : okv dflt.
  Variable token : Type.
  Variable enc_z : Z -> list token.
  Variable dec_z : list token -> option (Z * list token).
  Variable enc : value -> list token.
  Variable dec : value -> list token -> option (value * list token).
  Hypothesis dec_enc_z : forall i r, dec_z (enc_z i ++ r) = Some (i, r).
  Hypothesis dec_enc : forall p v r, okv p -> okv v -> dec p (enc v ++ r) = Some (v, r).
  Variable di : nat.                                  (* static rank of the element arrays *)

  Definition ok_inner (a : carr value) : Prop := wf_arr okv a /\ ca_rank a = di.
  Definition dflt_inner : carr value := ca_make dflt (repeat (0, 0) di).

  Lemma ok_dflt_inner : ok_inner dflt_inner.
  Proof.
    split.
    - apply wf_make; [assumption|]. apply Forall_forall. intros r Hr. apply repeat_spec in Hr.
      subst. unfold cr_wf. cbn. lia.
    - unfold ca_rank, dflt_inner, ca_make. cbn [ca_exts]. rewrite cx_collapse_length. apply repeat_length.
  Qed.

  Lemma inner_dec_enc p v r :
    ok_inner p -> ok_inner v ->
    load_array dflt dec_z dec p (save_array enc_z enc v ++ r) = Some (v, r).
  Proof.
    intros (Hp & Hpr) (Hv & Hvr). eapply roundtrip_array; eauto. congruence.
  Qed.

  Lemma roundtrip_nested (a prior : carr (carr value)) rest :
    wf_arr ok_inner a -> wf_arr ok_inner prior -> ca_rank a = ca_rank prior ->
    load_array dflt_inner dec_z (load_array dflt dec_z dec) prior
      (save_array enc_z (save_array enc_z enc) a ++ rest) = Some (a, rest).
  Proof.
    intros. eapply roundtrip_array with (okv := ok_inner); eauto.
    - apply ok_dflt_inner.
    - apply inner_dec_enc.
  Qed.
End Nested.

(* ---------- the instances the driver runs (tokens = integers) ---------- *)
Definition any_z (_ : Z) : Prop := True.

Lemma tok_dec_enc_z i r : tok_dec_z (tok_enc_z i ++ r) = Some (i, r).
Proof. reflexivity. Qed.
Lemma tok_dec_enc p v r : any_z p -> any_z v -> tok_dec p (tok_enc v ++ r) = Some (v, r).
Proof. reflexivity. Qed.

Lemma roundtrip_flat_run a prior rest :
  wf_arr any_z a -> wf_arr any_z prior -> ca_rank a = ca_rank prior ->
  load_flat prior (save_flat a ++ rest) = Some (a, rest).
Proof.
  intros. unfold load_flat, save_flat.
  eapply roundtrip_array with (okv := any_z); eauto using tok_dec_enc_z, tok_dec_enc. exact I.
Qed.

Lemma roundtrip_nested_run a prior rest :
  wf_arr (ok_inner Z any_z 1) a -> wf_arr (ok_inner Z any_z 1) prior -> ca_rank a = ca_rank prior ->
  load_nested prior (save_nested a ++ rest) = Some (a, rest).
Proof.
  intros. unfold load_nested, save_nested, load_flat, save_flat.
  change nested_dflt with (dflt_inner Z 0 1).
  eapply roundtrip_nested with (okv := any_z); eauto using tok_dec_enc_z, tok_dec_enc. exact I.
Qed.

(* ---------- statements in the form of Properties_C17.v ---------- *)
Section Statements.
  Variable value : Type.
  Variable dflt : value.
  Variable okv : value -> Prop.
  Variable token : Type.
  Variable enc_z : Z -> list token.
  Variable dec_z : list token -> option (Z * list token).
  Variable enc : value -> list token.
  Variable dec : value -> list token -> option (value * list token).

  Definition codec_ok : Prop :=
    okv dflt
    /\ (forall i r, dec_z (enc_z i ++ r) = Some (i, r))
    /\ (forall p v r, okv p -> okv v -> dec p (enc v ++ r) = Some (v, r)).

  Lemma C17_roundtrip_array_proved :
    codec_ok ->
    forall (a prior : carr value) (rest : list token),
      wf_arr okv a -> wf_arr okv prior -> ca_rank a = ca_rank prior ->
      load_array dflt dec_z dec prior (save_array enc_z enc a ++ rest) = Some (a, rest).
  Proof. intros (H1 & H2 & H3) a prior rest. apply roundtrip_array; assumption. Qed.

  Lemma C17_roundtrip_array_req_proved :
    codec_ok ->
    forall (a prior : carr value) (rest : list token),
      wf_arr okv a -> wf_arr okv prior -> ca_rank a = ca_rank prior ->
      exists a', load_array dflt dec_z dec prior (save_array enc_z enc a ++ rest) = Some (a', rest)
              /\ cx_eq (ca_exts a') (ca_exts a) = true
              /\ ca_elems a' = ca_elems a
              /\ wf_arr okv a'.
  Proof. intros (H1 & H2 & H3) a prior rest. apply roundtrip_array_req; assumption. Qed.

  Lemma C17_archive_contents_proved :
    forall a : carr value, wf_arr okv a ->
      save_array enc_z enc a
      = flat_map (fun r => enc_z (fst r) ++ enc_z (snd r)) (ca_exts a) ++ flat_map enc (ca_elems a).
  Proof. intros a H. eapply save_array_tokens. exact H. Qed.

  Lemma C17_roundtrip_nested_proved :
    codec_ok ->
    forall (di : nat) (a prior : carr (carr value)) (rest : list token),
      wf_arr (ok_inner value okv di) a -> wf_arr (ok_inner value okv di) prior -> ca_rank a = ca_rank prior ->
      load_array (dflt_inner value dflt di) dec_z (load_array dflt dec_z dec) prior
        (save_array enc_z (save_array enc_z enc) a ++ rest) = Some (a, rest).
  Proof. intros (H1 & H2 & H3) di a prior rest. apply roundtrip_nested; assumption. Qed.

  Lemma C17_view_roundtrip_frame_proved :
    (forall p v r, okv p -> okv v -> dec p (enc v ++ r) = Some (v, r)) ->
    forall (v w : cview) (s0 s : storage value) (rest : list token),
      cv_sizes v = cv_sizes w ->
      NoDup (cv_addrs w) ->
      (forall a, okv (s0 a)) -> (forall a, okv (s a)) ->
         save_view enc v s0 = flat_map enc (map s0 (cv_addrs v))
      /\ cv_addrs v = map (cv_addr v) (cx_indices (cv_extents v))
      /\ exists s',
           load_view dec w (save_view enc v s0 ++ rest) s = Some (s', rest)
        /\ map s' (cv_addrs w) = map s0 (cv_addrs v)
        /\ (forall a, ~ In a (cv_addrs w) -> s' a = s a)
        /\ (forall a, okv (s' a)).
  Proof.
    intros Hde v w s0 s rest Hsz Hnd H0 Hs.
    destruct (view_roundtrip_frame value okv token enc dec Hde v w s0 s rest) as (Ha & Hb); auto.
    - apply cv_same_sizes_length. assumption.
    - split; [assumption|]. split; [|assumption].
      unfold cv_addrs, cv_addr, cv_extents. apply cv_addrs_indices.
  Qed.
End Statements.

(* the loaded view in the weaker form the library really checks: equal element count *)
Lemma C17_view_roundtrip_count_proved :
  forall (value : Type) (okv : value -> Prop) (token : Type) (enc : value -> list token)
         (dec : value -> list token -> option (value * list token)),
    (forall p v r, okv p -> okv v -> dec p (enc v ++ r) = Some (v, r)) ->
    forall (v w : cview) (s0 s : storage value) (rest : list token),
      length (cv_addrs v) = length (cv_addrs w) -> NoDup (cv_addrs w) ->
      (forall a, okv (s0 a)) -> (forall a, okv (s a)) ->
      exists s',
           load_view dec w (save_view enc v s0 ++ rest) s = Some (s', rest)
        /\ map s' (cv_addrs w) = map s0 (cv_addrs v)
        /\ (forall a, ~ In a (cv_addrs w) -> s' a = s a).
Proof.
  intros value okv token enc dec Hde v w s0 s rest Hl Hn H0 Hs.
  destruct (view_roundtrip_frame value okv token enc dec Hde v w s0 s rest) as (_ & s' & A & B & C & _); auto.
  exists s'. auto.
Qed.

(* views produced from a row-major array by sub-blocks, strides and any permutation of the
   dimensions (rotated, transposed, ...) never overlap themselves *)
Lemma C17_view_injective_proved :
  forall (b : Z) (dims dims' : list (Z * Z)),
    cv_dominant dims -> Permutation dims dims' -> NoDup (cv_addrs (mk_cview b dims')).
Proof. intros. unfold cv_addrs. cbn [cv_base cv_dims]. eapply cv_perm_dominant_nodup; eassumption. Qed.

(* the extents rule used above is the one layout_t(extensions) implements (C01's layout model) *)
Lemma C17_extents_rule_proved :
  forall x : list (Z * Z),
    l_extensions (mk_layout x) = cx_collapse x /\ l_num_elements (mk_layout x) = cx_num x
    /\ cx_normal (cx_collapse x) /\ cx_num (cx_collapse x) = cx_num x.
Proof.
  intros x. split; [apply bridge_extensions|]. split; [apply bridge_num_elements|].
  split; [apply cx_collapse_idem|apply cx_num_collapse].
Qed.

(* ---------- the premises are satisfiable: concrete, non-trivial instances ---------- *)
(* a 2x3 array into a prior 5x1 array, into a prior 3x0 array (reported ([0,0),[0,0))),
   into an equal-shaped array; a 2x0x3 source (reported all-empty outer ranges) *)
Definition ex_a : carr Z := mk_carr [(0,2);(0,3)] [10;11;12;13;14;15].
Definition ex_p1 : carr Z := mk_carr [(0,5);(0,1)] [1;2;3;4;5].
Definition ex_p2 : carr Z := ca_make 0 [(0,3);(0,0)].
Definition ex_p3 : carr Z := mk_carr [(0,2);(0,3)] [0;0;0;0;0;0].
Definition ex_e : carr Z := ca_make 0 [(0,2);(0,0);(0,3)].
Definition ex_p4 : carr Z := mk_carr [(0,1);(0,2);(0,1)] [7;8].

Example ex_codec_ok : codec_ok Z 0 any_z Z tok_enc_z tok_dec_z tok_enc tok_dec.
Proof. split; [exact I|]. split; [exact tok_dec_enc_z|exact tok_dec_enc]. Qed.

Example ex_wf : wf_arr any_z ex_a /\ wf_arr any_z ex_p1 /\ wf_arr any_z ex_p2 /\ wf_arr any_z ex_e.
Proof.
  repeat split; try (repeat constructor; fail); try reflexivity;
    repeat (constructor; try (unfold cr_wf; cbn; lia)).
Qed.

Example ex_roundtrips :
     load_flat ex_p1 (save_flat ex_a ++ [99]) = Some (ex_a, [99])
  /\ load_flat ex_p2 (save_flat ex_a) = Some (ex_a, [])
  /\ load_flat ex_p3 (save_flat ex_a) = Some (ex_a, [])
  /\ load_flat ex_p4 (save_flat ex_e) = Some (ex_e, [])
  /\ ca_exts ex_e = [(0,0);(0,0);(0,3)]
  /\ save_flat ex_a = [0;2;0;3;10;11;12;13;14;15].
Proof. vm_compute. repeat split; reflexivity. Qed.

(* the transposed 2x2 sub-block A({0,2},{1,3}) of a row-major 3x4 array, loaded into the
   strided view B({0,4,2},{0,2}) of a 4x2 array living at offset 2 of its buffer *)
Definition ex_v : cview := cv_recipe 0 [3;4] [CRange 0 2 1; CRange 1 3 1] 1 false.
Definition ex_w : cview := cv_recipe 2 [4;2] [CRange 0 4 2; CRange 0 2 1] 0 false.
Example ex_view :
     cv_addrs ex_v = [1;5;2;6] /\ cv_addrs ex_w = [2;3;6;7]
  /\ save_view_flat ex_v [0;1;2;3;4;5;6;7;8;9;10;11] = [1;5;2;6]
  /\ load_view_flat ex_w [1;5;2;6;77] [0;0;0;0;0;0;0;0;0;0;0;0] = Some ([0;0;1;5;0;0;2;6;0;0;0;0], [77]).
Proof. vm_compute. repeat split; reflexivity. Qed.
Example ex_view_injective : NoDup (cv_addrs ex_v).
Proof.
  apply C17_view_injective_proved with (dims := [(2,4);(2,1)]).
  - cbn. lia.
  - vm_compute. apply perm_swap.
Qed.

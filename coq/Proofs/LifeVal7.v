(* Values: the squares of the assignment operators (operator=(array&&), operator=(array const&), assignment from a view,
   from a range / nested list, assign(extensions, value), converting assignment). *)
From BM Require Import Base.Tactics Model.Life Proofs.LifeBase Proofs.LifeMonad Proofs.LifeInv Proofs.LifeCells
  Proofs.LifeSteps Proofs.LifeCombi Proofs.LifeOps Proofs.LifeOps2 Proofs.LifeDisc Proofs.LifeFacts Proofs.LifeAlloc
  Proofs.LifeVal1 Proofs.LifeVal2 Proofs.LifeVal3 Proofs.LifeVal4 Proofs.LifeVal5 Proofs.LifeVal6.
Local Open Scope Z_scope.

Section Val7.
Variable cfg : config.
Hypothesis rank_pos : (1 <= c_rank cfg)%nat.
Notation Inv := (Inv cfg).
Notation Good := (Good cfg).
Set Default Proof Using "cfg rank_pos".
(* BEGIN-NOTATIONS *)
Notation vget_abs := (LifeVal4.vget_abs cfg rank_pos). Notation slot_ok := (LifeVal4.slot_ok cfg rank_pos). Notation nth_get_slot := (LifeVal4.nth_get_slot cfg rank_pos). Notation abs_arr_blocks_eq := (LifeVal4.abs_arr_blocks_eq cfg rank_pos). Notation abs_arr_realloc := (LifeVal4.abs_arr_realloc cfg rank_pos). Notation abs_empty := (LifeVal4.abs_empty cfg rank_pos). Notation own_empty := (LifeVal4.own_empty cfg rank_pos). Notation avals_built := (LifeVal4.avals_built cfg rank_pos). Notation keeps_blk_eq := (LifeVal4.keeps_blk_eq cfg rank_pos). Notation built_step := (LifeVal4.built_step cfg rank_pos). Notation built_bsame := (LifeVal4.built_bsame cfg rank_pos). Notation build_install_abs := (LifeVal4.build_install_abs cfg rank_pos). Notation map_nth_seq := (LifeVal4.map_nth_seq cfg rank_pos). Notation cells_of_nil := (LifeVal4.cells_of_nil cfg rank_pos). Notation cells_of_length := (LifeVal4.cells_of_length cfg rank_pos). Notation cells_of_vals := (LifeVal4.cells_of_vals cfg rank_pos). Notation cells_of_blk := (LifeVal4.cells_of_blk cfg rank_pos). Notation cells_facts := (LifeVal4.cells_facts cfg rank_pos). Notation sq_CtorDefault := (LifeVal4.sq_CtorDefault cfg rank_pos). Notation dflt_fill := (LifeVal4.dflt_fill cfg rank_pos). Notation sq_CtorSized := (LifeVal4.sq_CtorSized cfg rank_pos). Notation map_src_val_SVal := (LifeVal4.map_src_val_SVal cfg rank_pos). Notation srcs_old_SVal := (LifeVal4.srcs_old_SVal cfg rank_pos). Notation repeat_SVal := (LifeVal4.repeat_SVal cfg rank_pos). Notation sq_CtorFill := (LifeVal4.sq_CtorFill cfg rank_pos). Notation copy_square := (LifeVal4.copy_square cfg rank_pos). Notation sq_CtorCopy := (LifeVal4.sq_CtorCopy cfg rank_pos). Notation sq_CtorCopyAlloc := (LifeVal4.sq_CtorCopyAlloc cfg rank_pos). Notation move_square := (LifeVal4.move_square cfg rank_pos). Notation free_live_ne := (LifeVal4.free_live_ne cfg rank_pos). Notation live_lt_len := (LifeVal4.live_lt_len cfg rank_pos). Notation sq_CtorMove := (LifeVal4.sq_CtorMove cfg rank_pos). Notation bvals_blocks_eq := (LifeVal4.bvals_blocks_eq cfg rank_pos). Notation bsame_blocks_eq := (LifeVal4.bsame_blocks_eq cfg rank_pos). Notation bsame_nil_own := (LifeVal4.bsame_nil_own cfg rank_pos). Notation sq_CtorMoveAlloc := (LifeVal4.sq_CtorMoveAlloc cfg rank_pos). Notation view_facts := (LifeVal4.view_facts cfg rank_pos). Notation sq_CtorView := (LifeVal4.sq_CtorView cfg rank_pos). Notation sq_CtorRange := (LifeVal4.sq_CtorRange cfg rank_pos). Notation sq_CtorConv := (LifeVal4.sq_CtorConv cfg rank_pos). Notation own_with_bx := (LifeVal4.own_with_bx cfg rank_pos). Notation upd_tmp_cancel := (LifeVal4.upd_tmp_cancel cfg rank_pos). Notation sq_CtorIl := (LifeVal4.sq_CtorIl cfg rank_pos).
Notation avals_direct := (LifeVal5.avals_direct cfg rank_pos). Notation frame_own := (LifeVal5.frame_own cfg rank_pos). Notation live_get := (LifeVal5.live_get cfg rank_pos). Notation sq_clear := (LifeVal5.sq_clear cfg rank_pos). Notation sq_Clear := (LifeVal5.sq_Clear cfg rank_pos). Notation sq_AssignIlEmpty := (LifeVal5.sq_AssignIlEmpty cfg rank_pos). Notation sq_Destroy := (LifeVal5.sq_Destroy cfg rank_pos). Notation vset_same_get := (LifeVal5.vset_same_get cfg rank_pos). Notation sq_Swap := (LifeVal5.sq_Swap cfg rank_pos). Notation sq_Reshape := (LifeVal5.sq_Reshape cfg rank_pos). Notation cell_step_bsame := (LifeVal5.cell_step_bsame cfg rank_pos). Notation sq_Write := (LifeVal5.sq_Write cfg rank_pos). Notation assign_all_square := (LifeVal5.assign_all_square cfg rank_pos).
Notation blk_step_bsame := (LifeVal6.blk_step_bsame cfg rank_pos). Notation dflt_after := (LifeVal6.dflt_after cfg rank_pos). Notation p_dtor_empty := (LifeVal6.p_dtor_empty cfg rank_pos). Notation sq_ReextentMove := (LifeVal6.sq_ReextentMove cfg rank_pos). Notation arr_live_inv := (LifeVal6.arr_live_inv cfg rank_pos). Notation own_live_lt := (LifeVal6.own_live_lt cfg rank_pos). Notation cells_live := (LifeVal6.cells_live cfg rank_pos). Notation own_cases := (LifeVal6.own_cases cfg rank_pos). Notation move_assign_eff := (LifeVal6.move_assign_eff cfg rank_pos).
(* END-NOTATIONS *)
Notation val_dom := (val_dom cfg).
Notation pool_ok := (pool_ok cfg).

Lemma disj_slots s r t ar at_ : Inv [] s -> r <> t -> get_slot s r = Some ar -> get_slot s t = Some at_ ->
  forall b, In b (own ar) -> In b (own at_) -> False.
Proof.
  intros I Hne Gr Gt b H1 H2. apply Hne. eapply (inv_disj _ _ _ I); eapply own_owner; eauto.
Qed.

Lemma slots9 s : Inv [] s -> forall q, (q < 9)%nat -> (q < length (s_arrs s))%nat.
Proof. intros I q Hq. rewrite (inv_nslots _ _ _ I). unfold NSLOTS. lia. Qed.

Lemma sq_AssignMove r t s s' : Good s -> pool_ok (abs_state s) -> dom_op cfg (s_arrs s) (OAssignMove r t) ->
  step cfg (OAssignMove r t) s = Ok tt s' -> abs_state s' = vstep cfg (OAssignMove r t) (abs_state s).
Proof.
  intros (I & W & (T1 & T2 & T3)) P ((ar & Lr) & (at_ & Lt)) H.
  destruct (live_get s r ar Lr) as (Gr & Hr & Hr6). destruct (live_get s t at_ Lt) as (Gt & Ht & Ht6).
  destruct Lr as [_ Nr]. destruct Lt as [_ Nt].
  cbn [step] in H. open_get H. assert (a = ar) by congruence. subst a. cbn [vstep]. unfold vset.
  destruct (Nat.eqb_spec r t) as [->|Hne].
  - unfold move_assign in H. rewrite Nat.eqb_refl in H. inv H. auto.
  - destruct (slot_ok s t at_ P Nt) as [Nm _].
    pose proof (move_assign_eff TMP1 r t s s' ar at_ Hne ltac:(unfold TMP1, NP in *; lia) ltac:(unfold TMP1, NP in *; lia)
                  Hr Ht (slots9 s I TMP1 ltac:(unfold TMP1; lia)) Nr Nt T1 (arr_live_inv s t at_ I Gt) (W t at_ Nt) Nm
                  (disj_slots s r t ar at_ I Hne Gr Gt) (fun b Hb => own_lt cfg s r ar b I Gr Hb) H) as (ar' & A & X & B).
    eapply abs_upd2; [exact Hr|exact Ht|exact Hne|exact A| | |].
    + cbn [option_map]. f_equal. rewrite X, (vget_abs s t at_ Nt), abs_arr_alt. auto.
    + cbn [option_map]. rewrite abs_empty. auto.
    + intros q a Hq1 Hq2 Hq. eapply frame_slot with (B := own ar ++ own at_) (R := [r; t]); eauto.
      * intros b Hb. apply in_app_or in Hb. destruct Hb as [Hb|Hb].
        -- exists r. split; [left; auto|]. eapply own_owner; eauto.
        -- exists t. split; [right; left; auto|]. eapply own_owner; eauto.
      * intros [->|[->|[]]]; congruence.
Qed.

(* a temporary array<T,D> (default allocator) then operator=(array&&): operator=(array{other}), assign(first,last) *)
Lemma tmp2_route s s1 s' r ar p x n V :
  Good s -> live (s_arrs s) r ar -> built s s1 p n V -> n = bnumel x -> length V = Z.to_nat n ->
  (install TMP2 default_alloc p x ;;; move_assign cfg TMP1 r TMP2 ;;; p_dtor cfg TMP2) s1 = Ok tt s' ->
  abs_state s' = upd_nth (abs_state s) r (Some (norm_bx x, V)).
Proof.
  intros (I & W & (T1 & T2 & T3)) L Bu Hn Hl H. destruct (live_get s r ar L) as (Gr & Hr & Hr6). destruct L as [_ Nr].
  pose proof (slots9 s I TMP1 ltac:(unfold TMP1; lia)) as L1. pose proof (slots9 s I TMP2 ltac:(unfold TMP2; lia)) as L2.
  assert (Hr1 : r <> TMP1) by (unfold TMP1, NP in *; lia). assert (Hr2 : r <> TMP2) by (unfold TMP2, NP in *; lia).
  assert (H12 : TMP1 <> TMP2) by (unfold TMP1, TMP2; lia).
  pose proof Bu as (A1 & B1 & Hp).
  binv H u s2 E2. destruct u. unfold install in E2. apply set_arr_inv in E2. destruct E2 as [A2 K2]. rewrite A1 in A2.
  set (T := with_bx default_alloc p x) in *.
  binv H u s3 E3. destruct u.
  assert (NT : nel T = n) by (subst T n; apply nel_with_bx).
  assert (OT : forall b, In b (own T) -> b = length (s_blocks s)).
  { intros b Hin. subst T. rewrite own_with_bx in Hin. destruct (bnumel x <=? 0); [destruct Hin|].
    destruct p as [|b0]; [destruct Hin|]. destruct Hin as [<-|[]]. destruct Hp as (_ & Eb & _). auto. }
  assert (LT : arr_live s2 T).
  { intros Hpos. rewrite NT in Hpos. destruct p as [|b]; [destruct Hp; lia|]. destruct Hp as (_ & Eb & Len & Lv & Vs).
    destruct (bvals_blocks_eq s1 s2 K2 b) as [Vb Lb]. exists b. split; [reflexivity|]. split; [rewrite K2; lia|].
    split; [congruence|]. rewrite Vb, Vs, Hl. unfold nnel. rewrite NT. auto. }
  assert (WT : wf_arr T). { unfold wf_arr. subst T. cbn. destruct (mk_lengths x). lia. }
  assert (NmT : normal (arr_bx T)). { subst T. rewrite arr_bx_with. apply norm_bx_idem. }
  assert (Ls : (length (s_blocks s) <= length (s_blocks s2))%nat) by (rewrite K2; destruct B1; auto).
  assert (P1 : (r < length (s_arrs s2))%nat) by (rewrite A2, upd_nth_length; auto).
  assert (P2 : (TMP2 < length (s_arrs s2))%nat) by (rewrite A2, upd_nth_length; auto).
  assert (P3 : (TMP1 < length (s_arrs s2))%nat) by (rewrite A2, upd_nth_length; auto).
  assert (P4 : nth_error (s_arrs s2) r = Some (Some ar)) by (rewrite A2, nth_upd_other; auto).
  assert (P5 : nth_error (s_arrs s2) TMP2 = Some (Some T)) by (rewrite A2, nth_upd_same; auto).
  assert (P6 : nth_error (s_arrs s2) TMP1 = Some None) by (rewrite A2, nth_upd_other; auto).
  assert (P7 : forall b, In b (own ar) -> In b (own T) -> False).
  { intros b H1 H2. apply OT in H2. apply (own_lt cfg s r ar b I Gr) in H1. lia. }
  assert (P8 : forall b, In b (own ar) -> (b < length (s_blocks s2))%nat).
  { intros b H1. apply (own_lt cfg s r ar b I Gr) in H1. lia. }
  pose proof (move_assign_eff TMP1 r TMP2 s2 s3 ar T Hr2 (not_eq_sym Hr1) H12 P1 P2 P3 P4 P5 P6 LT WT NmT P7 P8 E3)
    as (ar' & A3 & X3 & B3).
  apply (p_dtor_empty TMP2 s3 s' (empty_arr cfg (a_alloc T) (a_base T))) in H.
  2:{ unfold get_slot. rewrite A3, nth_upd_same by (rewrite upd_nth_length; auto). auto. }
  2:{ rewrite (nel_empty cfg rank_pos). lia. }
  destruct H as [A4 K4].
  assert (A5 : s_arrs s' = upd_nth (s_arrs s) r (Some ar')).
  { rewrite A4, A3, A2. upd_solve. }
  eapply abs_upd1; [exact Hr|exact A5| |].
  - cbn [option_map]. f_equal. rewrite (abs_arr_blocks_eq s3 s' ar' K4), X3. subst T. rewrite arr_bx_with. f_equal.
    eapply avals_built; [exact Bu|apply keeps_blk_eq; exact K2|rewrite nel_with_bx; auto|reflexivity|exact Hl].
  - intros q a Hq Hnq. eapply frame_own; eauto.
    eapply bsame_blocks_eq; [|exact K4].
    eapply bsame_weaken; [eapply bsame_trans; [eapply bsame_blocks_eq; [exact B1|exact K2]|exact B3]|].
    intros b Hin Hlt. cbn [app] in Hin. apply in_app_or in Hin. destruct Hin as [Hin|Hin]; auto.
    apply OT in Hin. lia.
Qed.

(* array tmp(..., alloc); clear(); [alloc = other.alloc;] adopt tmp *)
Lemma tmp1_route s s1 s2 s3 s4 s5 s' r ar al p x n V :
  Good s -> live (s_arrs s) r ar -> built s s1 p n V -> n = bnumel x -> length V = Z.to_nat n ->
  install TMP1 al p x s1 = Ok tt s2 -> p_clear cfg r s2 = Ok tt s3 ->
  (s4 = s3 \/ exists al2, p_set_alloc r al2 s3 = Ok tt s4) ->
  p_adopt cfg r TMP1 s4 = Ok tt s5 -> p_dtor cfg TMP1 s5 = Ok tt s' ->
  abs_state s' = upd_nth (abs_state s) r (Some (norm_bx x, V)).
Proof.
  intros (I & W & (T1 & T2 & T3)) L Bu Hn Hl E2 E3 E4 E5 H. destruct (live_get s r ar L) as (Gr & Hr & Hr6). destruct L as [_ Nr].
  pose proof (slots9 s I TMP1 ltac:(unfold TMP1; lia)) as L1.
  assert (Hr1 : r <> TMP1) by (unfold TMP1, NP in *; lia).
  pose proof Bu as (A1 & B1 & Hp).
  unfold install in E2. apply set_arr_inv in E2. destruct E2 as [A2 K2]. rewrite A1 in A2.
  set (T := with_bx al p x) in *.
  apply p_clear_inv in E3. destruct E3 as (a & G3 & A3 & L3 & B3).
  assert (a = ar). { unfold get_slot in G3. rewrite A2, nth_upd_other, Nr in G3 by auto. congruence. } subst a.
  assert (M4 : s_blocks s4 = s_blocks s3 /\ exists al', s_arrs s4 = upd_nth (s_arrs s3) r (Some (empty_arr cfg al' (a_base ar)))).
  { destruct E4 as [->|[al2 E4]].
    - split; auto. exists (a_alloc ar). rewrite A3, upd_nth_twice. auto.
    - apply p_set_alloc_inv in E4. destruct E4 as (a & G4 & A4 & K4). split; auto. exists al2.
      assert (a = empty_arr cfg (a_alloc ar) (a_base ar)).
      { unfold get_slot in G4. rewrite A3, nth_upd_same in G4 by (rewrite A2, upd_nth_length; auto). congruence. }
      subst a. exact A4. }
  destruct M4 as (K4 & al' & A4).
  apply p_adopt_inv in E5. destruct E5 as (a5 & t5 & G5 & G5' & A5 & K5).
  assert (a5 = empty_arr cfg al' (a_base ar)).
  { unfold get_slot in G5. rewrite A4, nth_upd_same in G5 by (rewrite A3, A2, !upd_nth_length; auto). congruence. }
  assert (t5 = T).
  { unfold get_slot in G5'. rewrite A4, A3, A2, nth_upd_other, nth_upd_other, nth_upd_same in G5' by auto. congruence. }
  subst a5 t5.
  apply (p_dtor_empty TMP1 s5 s' (empty_arr cfg (a_alloc T) PNull)) in H.
  2:{ unfold get_slot. rewrite A5, nth_upd_same by (rewrite A4, A3, A2, !upd_nth_length; auto). auto. }
  2:{ rewrite (nel_empty cfg rank_pos). lia. }
  destruct H as [A6 K6].
  assert (A7 : s_arrs s' = upd_nth (s_arrs s) r (Some (with_bx al' p x))).
  { rewrite A6, A5, A4, A3, A2. cbn [a_alloc a_base a_exts a_first empty_arr]. unfold with_bx. upd_solve. }
  assert (B7 : bsame (own ar) s s').
  { eapply bsame_blocks_eq; [|exact K6]. eapply bsame_blocks_eq; [|exact K5]. eapply bsame_blocks_eq; [|exact K4].
    eapply (bsame_trans [] (own ar)); [eapply bsame_blocks_eq; [exact B1|exact K2]|exact B3]. }
  eapply abs_upd1; [exact Hr|exact A7| |].
  - cbn [option_map]. f_equal. rewrite abs_arr_alt, arr_bx_with. f_equal.
    eapply avals_built; [exact Bu| |rewrite nel_with_bx; auto|reflexivity|exact Hl].
    destruct p as [|b]; cbn; auto. destruct Hp as (_ & Eb & Len & _).
    destruct (bvals_blocks_eq s5 s' K6 b) as [-> ->]. destruct (bvals_blocks_eq s4 s5 K5 b) as [-> ->].
    destruct (bvals_blocks_eq s3 s4 K4 b) as [-> ->].
    destruct B3 as [_ F3]. destruct (F3 b) as [-> ->]; [rewrite K2; lia| |apply bvals_blocks_eq; auto].
    intros Hin. apply (own_lt cfg s r ar b I Gr) in Hin. lia.
  - intros q a Hq Hnq. eapply frame_own; eauto.
Qed.

End Val7.

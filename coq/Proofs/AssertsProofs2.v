(* C20, part 2: strides of reachable views are positive (so the `stride()==0 ||` escape of the index assertion and the
   `stride != 0` assertions of iterator differences are never the deciding disjunct); the index assertion is exactly
   "index inside the extension", level by level; execution with the assertion switch; iterator and assignment
   assertions; the two places where the pinned code does not stop a mismatched assignment / asserts on a valid slice. *)
From BM Require Import Base.Tactics Model.Layout Model.View Model.Spec Model.Iter Model.Rebase Model.Assign Model.Asserts
  Proofs.LayoutProofs Proofs.ViewProofs Proofs.ViewProofs2 Proofs.C01Main Proofs.IterProofs Proofs.RebaseProofs
  Proofs.AssertsProofs.
Local Open Scope Z_scope.

(* ---------------- positive strides ---------------- *)
Definition pos (l : layout) : Prop := Forall (fun d => 0 < d_stride d) l.

Lemma pos_rot a r : pos (a :: r) -> pos (r ++ [a]).
Proof. intros H. inv H. apply Forall_app. split; [assumption|constructor; [assumption|constructor]]. Qed.
Lemma pos_rotated v : pos (lay v) -> pos (lay (v_rotated v)).
Proof. destruct v as [[|a r] b]; cbn; [auto|]. rewrite rot_ins_app. apply pos_rot. Qed.
Lemma pos_unrotated v : pos (lay v) -> pos (lay (v_unrotated v)).
Proof.
  destruct v as [l b]; cbn. rewrite l_unrotate_spec. destruct l as [|a r _] using rev_ind; [auto|].
  rewrite t_unrot_snoc. intros H. apply Forall_app in H as [H1 H2]. inv H2. constructor; assumption.
Qed.
Lemma pos_index v i : pos (lay v) -> pos (lay (v_index i v)).
Proof. destruct v as [[|d sub] b]; cbn; intros H; [assumption|]. inv H. assumption. Qed.
Lemma pos_sliced v a b : pos (lay v) -> pos (lay (v_sliced a b v)).
Proof.
  destruct v as [[|d [|d1 sub]] bs]; cbn; intros H; [assumption| |]; inv H; constructor; cbn; assumption.
Qed.
Lemma pos_paren args : forall v, pos (lay v) -> pos (lay (v_paren args v)).
Proof.
  induction args as [|[i|a b|] rest IH]; intros v H; cbn [v_paren].
  - assumption.
  - apply IH. apply pos_index. assumption.
  - apply pos_unrotated. apply IH. apply pos_rotated. apply pos_sliced. assumption.
  - apply pos_unrotated. apply IH. apply pos_rotated. apply pos_sliced. assumption.
Qed.

Lemma pos_reindexed v i : pos (lay v) -> pos (lay (v_reindexed i v)).
Proof. destruct v as [[|d sub] bs]; cbn; intros H; [assumption|]. inv H. constructor; cbn; assumption. Qed.
Lemma pos_reindexedL is : forall v, pos (lay v) -> pos (lay (v_reindexedL is v)).
Proof.
  induction is as [|i [|j rest] IH]; intros v H; cbn [v_reindexedL]; [assumption|apply pos_reindexed; assumption|].
  apply pos_unrotated. apply IH. apply pos_rotated. apply pos_reindexed. assumption.
Qed.

Lemma part_quot d n k : dok d -> d_size d = n -> 1 <= k -> 0 < n -> Z.rem n k = 0 ->
  0 < Z.quot (d_nelems d) k.
Proof.
  intros (f & m & K) Hsz Hk Hn Hr. rewrite (dim_okg_size _ _ _ K) in Hsz. subst m.
  destruct K as (_ & Hne & _ & Hs). exactq n k q. assert (0 < d_stride d) by lia. assert (0 < q) by nia.
  rewrite Hne, Hq. replace (q * k * d_stride d) with (q * d_stride d * k) by ring.
  rewrite Z.quot_mul by lia. nia.
Qed.

Lemma pos_step v o : lok (lay v) -> pos (lay v) -> dom_op o v = true -> pos (lay (exec_op o v)).
Proof.
  intros Hl Hp Hd. destruct o; cbn [exec_op].
  - apply pos_index; assumption.
  - apply pos_sliced; assumption.
  - cbn [dom_op] in Hd. apply andb_prop in Hd as [Hd _]. apply andb_prop in Hd as [_ Hs]. bprop.
    pose proof (pos_sliced v a b Hp) as Hp'. destruct (v_sliced a b v) as [[|d sub] bs]; cbn in *; [assumption|].
    inv Hp'. constructor; cbn; [nia|assumption].
  - cbn [dom_op] in Hd. apply andb_prop in Hd as [Hd _]. apply andb_prop in Hd as [_ Hs]. bprop.
    destruct v as [[|d sub] bs]; cbn in *; [assumption|]. inv Hp. constructor; cbn; [nia|assumption].
  - destruct v as [[|d sub] bs]; cbn in *; [assumption|]. inv Hp. constructor; cbn; assumption.
  - destruct v as [[|d sub] bs]; cbn in *; [assumption|]. inv Hp. constructor; cbn; assumption.
  - apply pos_rotated; assumption.
  - apply pos_unrotated; assumption.
  - destruct v as [[|a [|b r]] bs]; cbn in *; try assumption. inv Hp. inv H2. repeat constructor; assumption.
  - cbn. unfold l_reverse. apply Forall_rev. assumption.
  - (* diagonal *)
    cbn [dom_op] in Hd. destruct v as [[|d0 [|d1 sub]] bs]; try (cbn in Hd; discriminate).
    unfold v_diagonal. cbn [lay]. rewrite diag_paren_lay. cbn [lay].
    inv Hp. inv H2. constructor; cbn; [lia|assumption].
  - (* partitioned *)
    cbn [dom_op] in Hd. destruct v as [[|d sub] bs]; [cbn in Hd; discriminate|]. bprop.
    unfold v_size in *; cbn [lay l_size] in *. inv Hl. inv Hp.
    cbn. constructor; [|constructor; [|assumption]]; cbn; [|assumption].
    eapply part_quot; [eassumption|reflexivity|assumption|assumption|assumption].
  - (* chunked *)
    cbn [dom_op] in Hd. destruct v as [[|d sub] bs]; [cbn in Hd; discriminate|]. bprop.
    unfold v_chunked, v_size in *; cbn [lay l_size] in *. inv Hl. inv Hp.
    cbn. constructor; [|constructor; [|assumption]]; cbn; [|assumption].
    set (n := d_size d) in *. exactq n c q. assert (1 <= q) by nia.
    eapply part_quot; [eassumption|reflexivity|assumption|lia|].
    fold n. rewrite Hq. replace (q * c) with (c * q) by ring. apply Z.rem_mul. lia.
  - (* halved *)
    cbn [dom_op] in Hd. destruct v as [[|d sub] bs]; [cbn in Hd; discriminate|]. bprop.
    unfold v_size in *; cbn [lay l_size] in *. inv Hl. inv Hp.
    cbn. constructor; [|constructor; [|assumption]]; cbn; [|assumption].
    eapply part_quot; [eassumption|reflexivity|lia|assumption|assumption].
  - destruct v as [[|d [|d1 sub]] bs]; cbn in *; try assumption. inv Hp. inv H2. constructor; cbn; assumption.
  - apply pos_paren; assumption.
  - destruct v as [[|d sub] bs]; cbn in *; [assumption|]. inv Hp. constructor; cbn; assumption.
  - unfold v_blocked. pose proof (pos_sliced v a b Hp) as Hp'.
    destruct (v_sliced a b v) as [[|d sub] bs]; cbn in *; [assumption|]. inv Hp'. constructor; cbn; assumption.
  - apply pos_reindexedL; assumption.
Qed.

Lemma lok_numel_nonneg l : lok l -> 0 <= l_num_elements l.
Proof.
  induction 1 as [|d l (f & m & K) _ IH]; cbn; [lia|].
  rewrite (dim_okg_size _ _ _ K). destruct K as (_ & _ & ? & _). nia.
Qed.

Lemma mk_pos exts : Forall (fun r => fst r <= snd r) exts -> pos (mk_layout exts).
Proof.
  intros Hx. induction Hx as [|r exts Hr Hx IH]; [constructor|]. cbn [mk_layout]. constructor; [|exact IH].
  cbn. pose proof (lok_numel_nonneg _ (mk_lok _ Hx)).
  destruct (l_num_elements (mk_layout exts) =? 0) eqn:E; bprop; lia.
Qed.

Lemma run_inv ops : forall v w, lok (lay v) -> pos (lay v) -> run_ok ops v = true -> run_ops ops v = Some w ->
  lok (lay w) /\ pos (lay w).
Proof.
  induction ops as [|o ops IH]; intros v w Hl Hp Hs Hrun; cbn [run_ops run_ok] in *.
  - apply Some_inj in Hrun. subst. split; assumption.
  - apply andb_prop in Hs as [Hs Hsr]. unfold apply_op in Hrun. destruct (dom_op o v) eqn:Hd; [|discriminate].
    apply (IH (exec_op o v)); [apply lok_step|apply pos_step| |]; assumption.
Qed.

(* ---------------- the index assertion is exactly "inside the extension" ---------------- *)
Theorem asrt_index_is_contains v d l i : lay v = d :: l -> dok d -> d_stride d <> 0 ->
  asrt_index i v = r_contains (d_extension d) i.
Proof.
  intros E Hd Hs. unfold asrt_index. rewrite E, (dok_a_ext _ Hd).
  replace (d_stride d =? 0) with false by (symmetry; apply Z.eqb_neq; assumption). reflexivity.
Qed.

Theorem C20_asserts_fire_on_oob_proved :
  forall (v : view) (d : dim) (l : layout) (i : Z),
    lay v = d :: l -> d_stride d <> 0 -> r_contains (d_extension d) i = false ->
    asrt_index i v = false /\ g_index Debug i v = Aborted.
Proof.
  intros v d l i E Hs Hc. assert (H : asrt_index i v = false).
  { unfold asrt_index. rewrite E, Hc, andb_false_r.
    replace (d_stride d =? 0) with false by (symmetry; apply Z.eqb_neq; assumption). reflexivity. }
  split; [exact H|]. unfold g_index. rewrite H. reflexivity.
Qed.

(* the `stride()==0 ||` escape: with a zero stride (broadcast dimension) every index is accepted, and every index
   designates the same sub-view, so nothing out of bounds can be reached through it *)
Theorem C20_zero_stride_escape_proved : forall v d l i j, lay v = d :: l -> d_stride d = 0 ->
  asrt_index i v = true /\ v_index i v = v_index j v.
Proof.
  intros v d l i j E Hs. split.
  - unfold asrt_index. rewrite E, Hs. reflexivity.
  - unfold v_index, hd_dim. rewrite E. cbn. rewrite Hs. f_equal. lia.
Qed.

Lemma contains_iff e i : r_contains e i = true <-> fst e <= i < snd e.
Proof. unfold r_contains. split; intros H; [bprop; lia|bsolve]. Qed.

Lemma asrt_brackets_iff idx : forall v, lok (lay v) -> pos (lay v) -> length idx = length (lay v) ->
  (asrt_brackets v idx = true <-> in_extl (lay v) idx).
Proof.
  induction idx as [|i idx IH]; intros v Hl Hp Hlen; cbn [asrt_brackets].
  - destruct (lay v); [|discriminate]. split; [constructor|reflexivity].
  - destruct (lay v) as [|d sub] eqn:E; [discriminate|]. inv Hl. inv Hp.
    rewrite (asrt_index_is_contains v d sub i E H1 ltac:(lia)).
    assert (El : lay (v_index i v) = sub) by (unfold v_index; rewrite E; reflexivity).
    specialize (IH (v_index i v)). rewrite El in IH. cbn in Hlen.
    split.
    + intros H. apply andb_prop in H as [Hc Hr]. constructor; [apply contains_iff; assumption|].
      apply IH; try assumption. lia.
    + intros H. inv H. apply andb_true_intro. split; [apply contains_iff; assumption|].
      apply IH; try assumption. lia.
Qed.

Lemma g_brackets_debug idx : forall v,
  g_brackets Debug v idx = if asrt_brackets v idx then Done (addr_brackets v idx) else Aborted.
Proof.
  induction idx as [|i idx IH]; intros v; cbn [g_brackets asrt_brackets g_index]; [reflexivity|].
  destruct (asrt_index i v); cbn [andb]; [|reflexivity]. rewrite IH. reflexivity.
Qed.
Lemma g_brackets_nodebug c idx : c <> Debug -> forall v, g_brackets c v idx = Done (addr_brackets v idx).
Proof.
  intros Hc. induction idx as [|i idx IH]; intros v; cbn [g_brackets]; [reflexivity|].
  unfold g_index. destruct c; try contradiction; apply IH.
Qed.

(* Chained brackets on a well-formed view with non-zero strides: in the assertion-enabled build the access either
   aborts (exactly when some index is outside its extension; the abort happens at the first such level, before the
   address of that level is formed) or yields the address the unchecked builds compute. *)
Theorem C20_index_guard_proved :
  forall (v : view) (idx : list Z), lok (lay v) -> pos (lay v) -> length idx = length (lay v) ->
       (in_extl (lay v) idx -> g_brackets Debug v idx = Done (addr_brackets v idx))
    /\ (~ in_extl (lay v) idx -> g_brackets Debug v idx = Aborted)
    /\ (forall c, c <> Debug -> g_brackets c v idx = Done (addr_brackets v idx)).
Proof.
  intros v idx Hl Hp Hlen. pose proof (asrt_brackets_iff idx v Hl Hp Hlen) as Hiff.
  rewrite g_brackets_debug. destruct (asrt_brackets v idx) eqn:E.
  - split; [reflexivity|]. split; [intros Hn; exfalso; apply Hn; apply Hiff; reflexivity|].
    intros c Hc. apply g_brackets_nodebug; assumption.
  - split; [intros Hi; apply Hiff in Hi; discriminate|]. split; [reflexivity|].
    intros c Hc. apply g_brackets_nodebug; assumption.
Qed.

Lemma in_extl_zero l sz idx : lay_ok l sz -> in_extl l idx -> valid_idx sz idx.
Proof.
  intros Hok. revert idx. induction Hok as [|d n l sz Hd _ IH]; intros idx H; inv H; constructor.
  - rewrite (dim_ok_extension _ _ Hd) in H2. cbn in H2. lia.
  - apply IH. assumption.
Qed.

(* For every view a valid zero-based program reaches: an index tuple either aborts by assertion, or is inside
   the extensions and its address lies inside the root array -- no out-of-bounds address is ever formed in Debug. *)
Theorem C20_guarded_access_in_bounds_proved :
  forall (sz : list Z) (ops : list op) (w : view) (idx : list Z),
    Forall (fun n => 0 <= n) sz -> Forall c01_op ops ->
    run_ops ops (root_view (zb sz)) = Some w -> length idx = length (lay w) ->
       g_brackets Debug w idx = Aborted
    \/ exists a, g_brackets Debug w idx = Done a /\ a = addr_brackets w idx /\ 0 <= a < prod sz.
Proof.
  intros sz ops w idx Hsz Hc Hrun Hlen.
  pose proof (mk_layout_ok sz Hsz) as Hok0.
  assert (Hx : Forall (fun r : range => fst r <= snd r) (zb sz)).
  { unfold zb. rewrite Forall_map. eapply Forall_impl; [|exact Hsz]. cbn. intros; lia. }
  assert (Hs : run_ok ops (root_view (zb sz)) = true).
  { eapply run_ok_zero; [eassumption| |eassumption]. exact Hok0. }
  destruct (run_inv ops (root_view (zb sz)) w (lay_ok_lok _ _ Hok0) (mk_pos _ Hx) Hs Hrun) as [Hl Hp].
  destruct (C20_index_guard_proved w idx Hl Hp Hlen) as (Hin & Hout & _).
  pose proof (asrt_brackets_iff idx w Hl Hp Hlen) as Hiff.
  destruct (asrt_brackets w idx) eqn:E.
  - right. assert (Hi : in_extl (lay w) idx) by (apply Hiff; reflexivity).
    exists (addr_brackets w idx). split; [apply Hin; assumption|]. split; [reflexivity|].
    destruct (C01_view_algebra_proved sz ops w Hsz Hc Hrun) as [Hshape Hall].
    pose proof (represents_run _ ops _ _ _ Hc (represents_root sz Hsz) Hrun) as [Hokw _].
    destruct (Hall idx (in_extl_zero _ _ _ Hokw Hi)) as (_ & _ & _ & _ & Hb). exact Hb.
  - left. apply Hout. intros Hi. apply Hiff in Hi. discriminate.
Qed.

(* ---------------- the assertion switch ---------------- *)
Lemma checks_of_asrt c o v : asrt_op o v = true -> checks c o v = true.
Proof.
  unfold asrt_op. intros H. pose proof H as H'. apply andb_prop in H as [H1 H2].
  destruct c; cbn [checks]; [unfold asrt_op; exact H'|exact H2|reflexivity].
Qed.
Lemma checks_observe_of c v : asrt_observe v = true -> checks_observe c v = true.
Proof. intros H. destruct c; cbn; auto. Qed.

Lemma g_run_valid ops : forall v w c, asserts_along ops v = true -> run_ops ops v = Some w -> g_run c ops v = Done w.
Proof.
  induction ops as [|o ops IH]; intros v w c Ha Hrun; cbn [asserts_along run_ops g_run] in *.
  - apply andb_prop in Ha as [Ha _]. rewrite (checks_observe_of c v Ha). apply Some_inj in Hrun. subst. reflexivity.
  - apply andb_prop in Ha as [Ha Hrest]. apply andb_prop in Ha as [Ha _]. apply andb_prop in Ha as [Ha Hop].
    apply andb_prop in Ha as [Hobs _]. rewrite (checks_observe_of c v Hobs).
    unfold apply_op in Hrun. destruct (dom_op o v); [|discriminate].
    unfold g_apply. rewrite (checks_of_asrt c o v Hop). apply IH; assumption.
Qed.

(* the result of an operation never depends on the configuration: only whether it is reached does *)
Lemma g_apply_result c o v x : g_apply c o v = Done x -> x = exec_op o v.
Proof. unfold g_apply. destruct (checks c o v); intros H; [injection H; auto|discriminate]. Qed.

Theorem C20_ndebug_invariant_proved :
  forall (sz : list Z) (ops : list op) (w : view),
    Forall (fun n => 0 <= n) sz -> Forall c01_op ops ->
    run_ops ops (root_view (zb sz)) = Some w ->
    forall c : config, g_run c ops (root_view (zb sz)) = Done w.
Proof.
  intros sz ops w Hsz Hc Hrun c. apply g_run_valid; [|assumption].
  eapply C20_asserts_silent_on_valid_proved; eassumption.
Qed.

Theorem C20_ndebug_invariant_rebased_proved :
  forall (exts : list range) (ops : list op) (w : view),
    Forall (fun r => fst r <= snd r) exts -> run_ok ops (root_view exts) = true ->
    run_ops ops (root_view exts) = Some w ->
    forall c : config, g_run c ops (root_view exts) = Done w.
Proof.
  intros exts ops w Hx Hs Hrun c. apply g_run_valid; [|assumption].
  eapply C20_asserts_silent_rebased_partial_proved; eassumption.
Qed.

(* ---------------- iterators ---------------- *)
Lemma dim_list_eqb_refl l : dim_list_eqb l l = true.
Proof. induction l as [|d l IH]; cbn; [reflexivity|]. rewrite !Z.eqb_refl, IH. reflexivity. Qed.

Definition it_from (v : view) (it : ait) : Prop :=
  istride it = d_stride (hd_dim (lay v)) /\ isub it = tl (lay v) /\ exists k, ibase it = base v + d_stride (hd_dim (lay v)) * k.

Lemma it_from_step v o it : it_from v it -> it_from v (a_step o it).
Proof.
  intros (Hs & Hsub & k & Hb). unfold it_from.
  destruct o as [| |j|j]; cbn [a_step it_inc it_dec it_add it_sub istride isub ibase];
    (split; [assumption|split; [assumption|]]).
  - exists (k + 1). rewrite Hb, Hs. ring.
  - exists (k - 1). rewrite Hb, Hs. ring.
  - exists (k + j). rewrite Hb, Hs. ring.
  - exists (k - j). rewrite Hb, Hs. ring.
Qed.
Lemma it_from_run v tr : forall it, it_from v it -> it_from v (run_a tr it).
Proof.
  induction tr as [|o tr IH]; intros it H; [assumption|]. cbn [run_a fold_left]. apply IH. apply it_from_step. assumption.
Qed.
Lemma it_from_begin v : it_from v (it_begin v).
Proof. unfold it_from, it_begin; cbn. repeat split. exists 0. ring. Qed.
Lemma it_from_end v d l f n : lay v = d :: l -> dim_okg d f n -> it_from v (it_end v).
Proof.
  intros E (_ & Hn & _). unfold it_from, it_end, hd_dim; rewrite E; cbn. repeat split. exists n. rewrite Hn. ring.
Qed.

(* every comparison / difference between two iterators obtained from begin() or end() of ONE view by any ++ -- += -=
   passes all iterator assertions (stride equality, stride != 0, layout equality, divisibility) *)
Theorem C20_iterator_asserts_silent_proved :
  forall (v : view) (d : dim) (l : layout) (f n : Z) (a b : ait),
    lay v = d :: l -> dim_okg d f n -> d_stride d <> 0 ->
    (exists tr, a = run_a tr (it_begin v) \/ a = run_a tr (it_end v)) ->
    (exists tr, b = run_a tr (it_begin v) \/ b = run_a tr (it_end v)) ->
    asrt_it_cmp a b = true /\ asrt_it_postinc_plain a = true.
Proof.
  intros v d l f n a b E Hd Hs (tra & Ha) (trb & Hb).
  assert (Fa : it_from v a).
  { destruct Ha as [->| ->]; apply it_from_run; [apply it_from_begin|eapply it_from_end; eassumption]. }
  assert (Fb : it_from v b).
  { destruct Hb as [->| ->]; apply it_from_run; [apply it_from_begin|eapply it_from_end; eassumption]. }
  destruct Fa as (Sa & Ua & ka & Ba). destruct Fb as (Sb & Ub & kb & Bb).
  unfold hd_dim in *. rewrite E in *. cbn [hd tl] in *.
  assert (Hdiff : forall x y kx ky, istride x = d_stride d -> istride y = d_stride d -> isub x = l ->
            ibase x = base v + d_stride d * kx -> ibase y = base v + d_stride d * ky -> asrt_it_diff x y = true).
  { intros x y kx ky Sx Sy Ux Bx By. unfold asrt_it_diff. rewrite Sx, Sy, Ux, Z.eqb_refl.
    replace (d_stride d =? 0) with false by (symmetry; apply Z.eqb_neq; assumption). cbn [negb andb].
    destruct l; [|reflexivity]. rewrite Bx, By.
    replace (base v + d_stride d * kx - (base v + d_stride d * ky)) with ((kx - ky) * d_stride d) by ring.
    rewrite Z.rem_mul by assumption. reflexivity. }
  split.
  - unfold asrt_it_cmp. rewrite (Hdiff a b ka kb), (Hdiff b a kb ka) by assumption.
    unfold asrt_it_eq. rewrite Sa, Sb, Ua, Ub, Z.eqb_refl, dim_list_eqb_refl. reflexivity.
  - unfold asrt_it_postinc_plain, it_lt, it_diff, it_inc; cbn. rewrite Sa.
    replace (ibase a + d_stride d - ibase a) with (1 * d_stride d) by ring. rewrite Z.quot_mul by assumption. reflexivity.
Qed.

(* elements() iterators: base_ and l_ never change *)
Lemma e_add_fields it k : ebase (e_add it k) = ebase it /\ elay (e_add it k) = elay it.
Proof. unfold e_add. destruct (k =? 0); split; reflexivity. Qed.
Lemma e_step_fields o it : ebase (e_step o it) = ebase it /\ elay (e_step o it) = elay it.
Proof.
  destruct o; cbn [e_step].
  - split; reflexivity.
  - split; reflexivity.
  - apply e_add_fields.
  - unfold e_sub. apply e_add_fields.
Qed.
Lemma run_e_fields tr : forall it, ebase (run_e tr it) = ebase it /\ elay (run_e tr it) = elay it.
Proof.
  induction tr as [|o tr IH]; intros it; [split; reflexivity|].
  change (run_e (o :: tr) it) with (run_e tr (e_step o it)).
  destruct (IH (e_step o it)) as [E1 E2]. destruct (e_step_fields o it) as [F1 F2]. split; congruence.
Qed.

Lemma lok_xnumel l : lok l -> x_num_elements (l_extensions l) = l_num_elements l.
Proof.
  unfold l_extensions. induction 1 as [|d l Hd _ IH]; cbn [map x_num_elements l_num_elements]; [reflexivity|].
  rewrite IH, (dok_ext_size _ Hd). reflexivity.
Qed.

Lemma lok_from_linear l : lok l -> l_num_elements l <> 0 -> asrt_from_linear (l_extensions l) = true.
Proof.
  induction 1 as [|d l Hd Hl IH]; intros Hne; [reflexivity|]. cbn [l_extensions map asrt_from_linear].
  cbn [l_num_elements] in Hne. assert (Hr : l_num_elements l <> 0) by (intro Z0; rewrite Z0 in Hne; lia).
  destruct l as [|d1 l']; [reflexivity|]. fold (l_extensions (d1 :: l')).
  change (map d_extension (d1 :: l')) with (l_extensions (d1 :: l')).
  rewrite (lok_xnumel _ Hl). rewrite (IH Hr).
  replace (l_num_elements (d1 :: l') =? 0) with false by (symmetry; apply Z.eqb_neq; assumption). reflexivity.
Qed.

Theorem C20_elements_asserts_silent_proved :
  forall (v : view) (a b : eit), lok (lay v) ->
    (exists tr, a = run_e tr (er_begin v) \/ a = run_e tr (er_end v)) ->
    (exists tr, b = run_e tr (er_begin v) \/ b = run_e tr (er_end v)) ->
    asrt_e_cmp a b = true /\ asrt_e_make_plain (lay v) = true.
Proof.
  intros v a b Hl (tra & Ha) (trb & Hb). split.
  - assert (Fa : ebase a = base v /\ elay a = lay v).
    { destruct Ha as [->| ->]; [destruct (run_e_fields tra (er_begin v)) as [-> ->]|destruct (run_e_fields tra (er_end v)) as [-> ->]];
        split; reflexivity. }
    assert (Fb : ebase b = base v /\ elay b = lay v).
    { destruct Hb as [->| ->]; [destruct (run_e_fields trb (er_begin v)) as [-> ->]|destruct (run_e_fields trb (er_end v)) as [-> ->]];
        split; reflexivity. }
    unfold asrt_e_cmp. destruct Fa as [-> ->]. destruct Fb as [-> ->]. rewrite Z.eqb_refl, dim_list_eqb_refl. reflexivity.
  - unfold asrt_e_make_plain. destruct (lok_observe v Hl) as [Ho _]. unfold asrt_observe in Ho. rewrite Ho.
    destruct (l_num_elements (lay v) =? 0) eqn:E; [reflexivity|]. bprop. cbn [orb andb].
    apply lok_from_linear; assumption.
Qed.

(* ---------------- assignment ---------------- *)
Lemma r_eq_size a b : r_eq a b = true -> r_size a = r_size b.
Proof. unfold r_eq, r_empty, r_size. intros H. bprop. destruct H as [H|H]; bprop; lia. Qed.
Lemma x_eq_numel a : forall b, x_eq a b = true -> x_num_elements a = x_num_elements b.
Proof.
  induction a as [|ra a IH]; intros [|rb b] H; cbn in *; try discriminate; [reflexivity|].
  apply andb_prop in H as [H1 H2]. rewrite (r_eq_size _ _ H1), (IH _ H2). reflexivity.
Qed.

Lemma lok_exts_numel dst src : lok (lay dst) -> lok (lay src) ->
  x_eq (l_extensions (lay dst)) (l_extensions (lay src)) = true -> numel_eq dst src = true.
Proof.
  intros Hd Hs Hx. unfold numel_eq. apply Z.eqb_eq.
  rewrite <- (lok_xnumel _ Hd), <- (lok_xnumel _ Hs). apply x_eq_numel. assumption.
Qed.

(* equal extents: the assertion of every overload class holds *)
Theorem C20_assign_silent_proved :
  forall (k : akind) (dst src : view), lok (lay dst) -> lok (lay src) ->
    x_eq (l_extensions (lay dst)) (l_extensions (lay src)) = true ->
    asrt_assign k dst src = true.
Proof.
  intros k dst src Hd Hs Hx. pose proof (lok_exts_numel dst src Hd Hs Hx) as Hn.
  destruct (lok_observe _ Hd) as [Od _]. destruct (lok_observe _ Hs) as [Os _].
  assert (He : exts_eq dst src = true) by (unfold exts_eq; rewrite Od, Os, Hx; reflexivity).
  destruct k; cbn [asrt_assign]; rewrite ?He, ?Hn; reflexivity.
Qed.

(* THE FIRE STATEMENT, all overload classes (after fix 6c4fe5c): an assignment, move-assignment or swap between views
   of different extents makes the assertion false; the assertion-enabled build aborts before the copy loop runs *)
Theorem C20_assign_fire_proved :
  forall (k : akind) (dst src : view), view_kind k = true ->
    x_eq (l_extensions (lay dst)) (l_extensions (lay src)) = false ->
    asrt_assign k dst src = false /\ forall conv m, g_assign Debug k conv dst src m = Aborted.
Proof.
  intros k dst src Hk Hx. assert (E : asrt_assign k dst src = false).
  { destruct k; cbn [view_kind] in Hk; try discriminate; cbn [asrt_assign]; unfold exts_eq; rewrite Hx;
      rewrite ?andb_false_r; reflexivity. }
  split; [exact E|]. intros conv m. unfold g_assign. rewrite E. reflexivity.
Qed.
(* elements() = elements(): stopped when the element counts differ (every one of the three forms, :977-995) *)
Theorem C20_elements_assign_fire_proved :
  forall dst src conv m, l_num_elements (lay dst) <> l_num_elements (lay src) ->
    asrt_assign AElems dst src = false /\ g_assign Debug AElems conv dst src m = Aborted.
Proof.
  intros dst src conv m H. assert (E : asrt_assign AElems dst src = false).
  { cbn [asrt_assign]. unfold numel_eq. apply Z.eqb_neq. assumption. }
  split; [exact E|]. unfold g_assign. rewrite E. reflexivity.
Qed.

(* whatever the overload, an assignment between well-formed views that is NOT stopped copies exactly as many elements
   as the destination has: its loop (Assign.v assign_view, C05) stays inside the destination *)
Theorem C20_unstopped_assign_fits_proved :
  forall k dst src, lok (lay dst) -> lok (lay src) -> asrt_assign k dst src = true -> er_size dst = er_size src.
Proof.
  intros k dst src Hd Hs H. unfold er_size.
  assert (Hn : numel_eq dst src = true).
  { destruct k; cbn [asrt_assign] in H; unfold exts_eq in H; repeat (apply andb_prop in H as [? H]);
      try assumption; apply lok_exts_numel; assumption. }
  unfold numel_eq in Hn. bprop. assumption.
Qed.

(* ---------------- slicing a view whose base pointer is null ---------------- *)
(* array_ref.hpp:1263 asserts base_ || (first*stride - offset == 0).  An empty owning array has a null base; a valid
   slice of one of its non-empty dimensions at an index other than the first makes the assertion false. *)
Definition C20_null_base_slice_full : Prop :=
  forall (exts : list range) (a b : Z) (w : view),
    Forall (fun r => fst r <= snd r) exts -> l_num_elements (mk_layout exts) = 0 ->
    run_ops [ORotated; OSliced a b] (root_view exts) = Some w ->
    asrt_sliced_nullbase a (v_rotated (root_view exts)) = true.
Theorem C20_null_base_slice_refuted_proved : ~ C20_null_base_slice_full.
Proof.
  intros H. specialize (H [(0, 0); (0, 5)] 1 3 (v_sliced 1 3 (v_rotated (root_view [(0, 0); (0, 5)])))).
  assert (Hx : Forall (fun r : range => fst r <= snd r) [(0, 0); (0, 5)]) by (repeat constructor; cbn; lia).
  specialize (H Hx eq_refl eq_refl). vm_compute in H. discriminate.
Qed.
(* slicing from the first valid index of a non-empty dimension never offsets the pointer *)
Theorem C20_null_base_slice_partial_proved :
  forall v d sub, lay v = d :: sub -> dok d -> 0 < d_size d ->
    asrt_sliced_nullbase (fst (d_extension d)) v = true.
Proof.
  intros v d sub E Hd Hp. unfold asrt_sliced_nullbase. rewrite E. destruct sub; [reflexivity|].
  rewrite (dok_offset _ Hd Hp). apply Z.eqb_eq. lia.
Qed.

(* non-vacuity: a 3x4x5 array, rotated, sliced, call syntax, transposed: all assertions hold; index 3 of the
   leading extension [0,3) aborts in Debug and is computed in the other configurations *)
Example C20_example :
  let ops := [ORotated; OSliced 1 3; OParen [PIdx 1; PRange 1 4; PAll]; OTransposed] in
  exists w, run_ops ops (root_view (zb [3; 4; 5])) = Some w
    /\ asserts_along ops (root_view (zb [3; 4; 5])) = true
    /\ g_run Debug ops (root_view (zb [3; 4; 5])) = Done w
    /\ g_brackets Debug w [2; 1] = Done (addr_brackets w [2; 1])
    /\ g_brackets Debug w [3; 1] = Aborted
    /\ g_brackets NDebug w [3; 1] = Done (addr_brackets w [3; 1]).
Proof. eexists. vm_compute. repeat split. Qed.

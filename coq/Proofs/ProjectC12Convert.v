(* C12, part 3: element_transformed (lazy reads, write-through) and arrays constructed from a view of
   another element type (flat copy in canonical order = element-by-element conversion). *)
From BM Require Import Base.Tactics Model.Layout Model.View Model.Spec Model.ProjectC12
  Proofs.LayoutProofs Proofs.ViewProofs Proofs.ViewProofs2 Proofs.C01Main.
Local Open Scope Z_scope.

(* ---- element_transformed ---- *)
Section Transformed.
  Context {A B C : Type}.
  Variable f : A -> B.

  Lemma transformed_same_view v : v_element_transformed v = v.
  Proof. destruct v; reflexivity. Qed.

  (* the value is f of the source element, for the storage s at the time of the access *)
  Lemma t_read_lazy (s : Z -> A) v idx : t_read f s v idx = f (v_read s v idx).
  Proof. unfold t_read, v_read. rewrite transformed_same_view. reflexivity. Qed.

  (* a reference-returning projection: f reads a sub-object, put replaces it *)
  Variable put : B -> A -> A.
  Hypothesis get_put : forall x a, f (put x a) = x.
  Variable g : A -> C.                                   (* any other part of the element *)
  Hypothesis g_put : forall x a, g (put x a) = g a.

  Lemma t_write_read s v idx x : t_read f (t_write put s v idx x) v idx = x.
  Proof. unfold t_read, t_write, s_upd. rewrite Z.eqb_refl. apply get_put. Qed.

  Lemma t_write_source s v idx x :
    f (v_read (t_write put s v idx x) v idx) = x /\ g (v_read (t_write put s v idx x) v idx) = g (v_read s v idx).
  Proof.
    unfold v_read, t_write, s_upd. rewrite transformed_same_view, Z.eqb_refl. split; [apply get_put|apply g_put].
  Qed.

  Lemma t_write_frame s v idx x k : k <> addr_brackets v idx -> t_write put s v idx x k = s k.
  Proof.
    intros Hk. unfold t_write, s_upd. rewrite transformed_same_view.
    destruct (k =? addr_brackets v idx) eqn:E; bprop; [contradiction|reflexivity].
  Qed.

  Lemma t_write_other s v idx x idx' : addr_brackets v idx' <> addr_brackets v idx ->
    v_read (t_write put s v idx x) v idx' = v_read s v idx'.
  Proof. intros H. unfold v_read. apply t_write_frame. assumption. Qed.
End Transformed.

(* ---- canonical order ---- *)
Definition Z0s {X : Type} (l : list X) : list Z := map (fun _ => 0) l.

Lemma Z0s_zb sz : Z0s (zb sz) = Z0s sz.
Proof. unfold Z0s, zb. apply map_map. Qed.

Lemma x_num_elements_zb sz : x_num_elements (zb sz) = prod sz.
Proof.
  induction sz as [|n sz IH]; [reflexivity|]. cbn [zb map x_num_elements]. fold (zb sz). rewrite IH.
  unfold r_size; cbn. fold (prod sz). lia.
Qed.

(* from_linear 0 of a zero-based extension tuple is the all-zero tuple (0/x = 0 and 0%x = 0; whether or not
   from_linear adds the first index of each extension, which is 0 here) *)
Lemma from_linear_0 sz : x_from_linear (zb sz) 0 = Z0s sz.
Proof.
  assert (Q : forall y, Z.quot 0 y = 0) by reflexivity. assert (R : forall y, Z.rem 0 y = 0) by reflexivity.
  induction sz as [|n sz IH]; [reflexivity|]. destruct sz as [|m sz]; [reflexivity|].
  cbn [zb map] in *. cbn [x_from_linear fst]. rewrite Q, R, ?Z.add_0_r. cbn [Z0s map] in *. f_equal. exact IH.
Qed.

Lemma next_cons r rest i idx' : length idx' = length rest ->
  x_next_canonical (r :: rest) (i :: idx') =
  (let '(c, idx'') := x_next_canonical rest idx' in
   let i1 := if c then i + 1 else i in
   if i1 =? snd r then (true, fst r :: idx'') else (false, i1 :: idx'')).
Proof.
  intros Hl. destruct rest as [|r' rest].
  - destruct idx'; [|discriminate]. cbn.
    destruct (i =? snd r - 1) eqn:E1, (i + 1 =? snd r) eqn:E2; bprop; try reflexivity; lia.
  - destruct idx' as [|i' idx']; [discriminate|]. reflexivity.
Qed.

Lemma rowmajor_zeros sz : rowmajor sz (Z0s sz) = 0.
Proof. induction sz as [|n sz IH]; [reflexivity|]. cbn [Z0s map rowmajor]. fold (Z0s sz). rewrite IH. lia. Qed.

Lemma valid_zeros sz ns : valid_idx sz ns -> valid_idx sz (Z0s sz).
Proof. induction 1; cbn; constructor; [lia|assumption]. Qed.

Lemma prod_pos_valid_zeros sz : Forall (fun n => 0 <= n) sz -> prod sz <> 0 -> valid_idx sz (Z0s sz).
Proof.
  induction 1 as [|n sz Hn _ IH]; cbn [prod fold_right Z0s map]; intros Hp; [constructor|]. fold (prod sz) in Hp.
  assert (n <> 0 /\ prod sz <> 0) as [? ?] by (split; intro E; rewrite E in Hp; lia).
  constructor; [lia|apply IH; assumption].
Qed.

Lemma next_spec sz ns : valid_idx sz ns ->
  let '(c, ns') := x_next_canonical (zb sz) ns in
  if c then rowmajor sz ns = prod sz - 1 /\ ns' = Z0s sz
  else valid_idx sz ns' /\ rowmajor sz ns' = rowmajor sz ns + 1.
Proof.
  induction 1 as [|n i sz ns Hi Hv IH].
  - cbn. split; reflexivity.
  - cbn [zb map]. fold (zb sz). rewrite next_cons.
    2:{ unfold zb. rewrite map_length. apply valid_idx_length. exact Hv. }
    destruct (x_next_canonical (zb sz) ns) as [c ns']. cbn [snd fst].
    cbn [rowmajor prod fold_right]. fold (prod sz).
    destruct c.
    + destruct IH as [Er ->]. destruct (i + 1 =? n) eqn:E; bprop.
      * split; [|reflexivity]. rewrite Er. subst n. ring.
      * split.
        { constructor; [lia|eapply valid_zeros; exact Hv]. }
        { cbn [rowmajor]. fold (prod sz). rewrite rowmajor_zeros, Er. ring. }
    + destruct IH as [Hv' Er]. destruct (i =? n) eqn:E; bprop; [lia|]. split.
      * constructor; assumption.
      * cbn [rowmajor]. fold (prod sz). rewrite Er. ring.
Qed.

Fixpoint iter_next (xs : list range) (k : nat) (ns : list Z) : list Z :=
  match k with O => ns | S k' => iter_next xs k' (snd (x_next_canonical xs ns)) end.

Lemma e_copy_n_length {X} n xs ns (g : list Z -> X) : length (e_copy_n n xs ns g) = n.
Proof. revert ns; induction n; intros; cbn; auto. Qed.

Lemma e_copy_n_nth {X} n : forall xs ns (g : list Z -> X) k, (k < n)%nat ->
  nth_error (e_copy_n n xs ns g) k = Some (g (iter_next xs k ns)).
Proof.
  induction n as [|n IH]; intros xs ns g k Hk; [lia|]. destruct k as [|k]; [reflexivity|].
  cbn [e_copy_n nth_error iter_next]. apply IH. lia.
Qed.

Lemma iter_spec sz k : forall ns, valid_idx sz ns -> rowmajor sz ns + Z.of_nat k < prod sz ->
  valid_idx sz (iter_next (zb sz) k ns) /\ rowmajor sz (iter_next (zb sz) k ns) = rowmajor sz ns + Z.of_nat k.
Proof.
  induction k as [|k IH]; intros ns Hv Hlt; cbn [iter_next].
  - split; [assumption|lia].
  - pose proof (next_spec sz ns Hv) as Hn. destruct (x_next_canonical (zb sz) ns) as [c ns']. cbn [snd].
    destruct c; [lia|]. destruct Hn as [Hv' Er]. destruct (IH ns' Hv') as [Hv'' Er']; [lia|].
    split; [assumption|lia].
Qed.

Lemma rowmajor_inj sz a : valid_idx sz a -> forall b, valid_idx sz b -> rowmajor sz a = rowmajor sz b -> a = b.
Proof.
  induction 1 as [|n i sz a Hi Ha IH]; intros b Hb E; inv Hb; [reflexivity|].
  cbn [rowmajor] in E. fold (prod sz) in E.
  pose proof (rowmajor_bounds _ _ Ha). match goal with H : Forall2 _ sz ?l |- _ => pose proof (rowmajor_bounds _ _ H) end.
  assert (i = y) by nia. subst y. f_equal. apply IH; [assumption|lia].
Qed.

(* ---- facts about the sizes ---- *)
Lemma lay_ok_nonneg l sz : lay_ok l sz -> Forall (fun n => 0 <= n) sz.
Proof. induction 1 as [|d n l sz Hd _ IH]; constructor; [destruct Hd as (_&_&?&_); assumption|assumption]. Qed.

Lemma collapse_id sz : prod sz <> 0 -> collapse sz = sz.
Proof.
  induction sz as [|n sz IH]; [reflexivity|]. cbn [prod fold_right collapse]. fold (prod sz). intros Hp.
  rewrite IH by nia. destruct (prod sz =? 0) eqn:E; bprop; [nia|reflexivity].
Qed.

Lemma l_call_ok l : forall sz idx, lay_ok l sz -> l_call l idx = l_addr l idx.
Proof.
  induction l as [|d l IH]; intros sz idx H; [reflexivity|]. inv H. destruct idx as [|i idx]; [reflexivity|].
  cbn [l_call l_addr]. rewrite (IH _ idx H4). destruct H2 as (Ho & _). lia.
Qed.

Lemma x_inner_nonzero_zb sz : prod sz <> 0 -> x_inner_nonzero (zb sz) = true.
Proof.
  induction sz as [|n sz IH]; [reflexivity|]. destruct sz as [|m sz]; [reflexivity|].
  intros Hp. change (prod (n :: m :: sz)) with (n * prod (m :: sz)) in Hp.
  assert (Hp' : prod (m :: sz) <> 0) by (intro E; rewrite E in Hp; lia).
  change (x_inner_nonzero (zb (n :: m :: sz)))
    with (negb (x_num_elements (zb (m :: sz)) =? 0) && x_inner_nonzero (zb (m :: sz))).
  rewrite IH by assumption. rewrite x_num_elements_zb.
  destruct (prod (m :: sz) =? 0) eqn:E; bprop; [contradiction|reflexivity].
Qed.

(* ---- the converting constructor ---- *)
Section Convert.
  Context {A B : Type}.
  Variable conv : A -> B.
  Variable rd : Z -> A.

  Lemma e_begin_zeros l sz ns0 : lay_ok l sz -> e_begin l = Some ns0 -> ns0 = Z0s sz.
  Proof.
    intros Hok. unfold e_begin. rewrite (lay_ok_extensions _ _ Hok). fold (zb sz).
    destruct (l_num_elements l =? 0).
    - intros E; inv E. apply Z0s_zb.
    - destruct (x_inner_nonzero (zb sz)); [|discriminate]. intros E; inv E. apply from_linear_0.
  Qed.

  (* the flat iterator never divides by zero *)
  Lemma e_begin_defined l sz : lay_ok l sz -> exists ns0, e_begin l = Some ns0.
  Proof.
    intros Hok. unfold e_begin. rewrite (lay_ok_extensions _ _ Hok). fold (zb sz).
    rewrite (lay_ok_num_elements _ _ Hok).
    destruct (prod sz =? 0) eqn:E; bprop; [eauto|]. rewrite x_inner_nonzero_zb by assumption. eauto.
  Qed.

  Theorem convert_construct_spec l sz c : lay_ok l sz -> convert_construct conv rd l = Some c ->
       lay_ok (c_lay c) (collapse sz)
    /\ l_extensions (c_lay c) = zb (collapse sz)
    /\ (prod sz <> 0 -> collapse sz = sz)
    /\ length (c_data c) = Z.to_nat (prod sz)
    /\ forall idx, valid_idx (collapse sz) idx -> c_at c idx = Some (conv (rd (l_addr l idx))).
  Proof.
    intros Hok Hc. unfold convert_construct in Hc.
    destruct (e_begin l) as [ns0|] eqn:Eb; [|discriminate]. inv Hc.
    pose proof (e_begin_zeros _ _ _ Hok Eb) as ->.
    pose proof (lay_ok_nonneg _ _ Hok) as Hnn.
    rewrite (lay_ok_extensions _ _ Hok). fold (zb sz).
    pose proof (mk_layout_ok sz Hnn) as Hnl.
    cbn [c_lay c_data]. rewrite (lay_ok_num_elements _ _ Hnl), prod_collapse.
    split; [exact Hnl|]. split; [apply lay_ok_extensions; exact Hnl|]. split; [apply collapse_id|].
    split; [apply e_copy_n_length|].
    intros idx Hv. unfold c_at; cbn [c_lay c_data].
    pose proof (rowmajor_bounds _ _ Hv) as Hb. rewrite prod_collapse in Hb.
    assert (Hp : prod sz <> 0) by lia.
    rewrite (mk_layout_addr sz idx Hnn Hv).
    rewrite (collapse_id sz Hp) in *.
    rewrite e_copy_n_nth by lia.
    pose proof (prod_pos_valid_zeros sz Hnn Hp) as Hz.
    destruct (iter_spec sz (Z.to_nat (rowmajor sz idx)) (Z0s sz) Hz) as [Hvi Eri].
    { rewrite rowmajor_zeros. lia. }
    rewrite rowmajor_zeros in Eri.
    assert (Ei : iter_next (zb sz) (Z.to_nat (rowmajor sz idx)) (Z0s sz) = idx).
    { apply (rowmajor_inj sz); [assumption|assumption|lia]. }
    rewrite Ei, (l_call_ok _ _ idx Hok). reflexivity.
  Qed.

  Theorem convert_construct_defined l sz : lay_ok l sz -> exists c, convert_construct conv rd l = Some c.
  Proof.
    intros Hok. unfold convert_construct. destruct (e_begin_defined l sz Hok) as [ns0 ->]. eauto.
  Qed.
End Convert.

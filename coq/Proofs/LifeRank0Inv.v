(* Rank 0: every rank-0 entry point preserves the ownership invariant Good of the lifecycle machine (with and without an
   injected fault), and so does every history of them. *)
From BM Require Import Base.Tactics Model.Life Model.LifeRank0 Proofs.LifeBase Proofs.LifeMonad Proofs.LifeInv Proofs.LifeCells
  Proofs.LifeSteps Proofs.LifeCombi Proofs.LifeOps Proofs.LifeOps2 Proofs.LifeOps3 Proofs.LifeDisc Proofs.LifeRank0Cells.
Local Open Scope Z_scope.

Section R0Inv.
Variable cfg : config.
Hypothesis rank_pos : (1 <= c_rank cfg)%nat.   (* only because the lemmas of Proofs/Life*.v carry it; see LifeRank0Main.v *)

Notation Inv := (Inv cfg).
Notation Good := (Good cfg).
Notation GoodT := (GoodT cfg).
Notation live := (live).
Notation free := (free).

(* a rank-0 array object: no extents, hence one element *)
Definition is0 (a : arr) : Prop := a_exts a = [] /\ a_first a = [].
Definition live0 (A : list (option arr)) (r : nat) (a : arr) : Prop := live A r a /\ is0 a.
(* a reference designates an element of a live array object (the element of a rank-0 array, or an element of a buffer) *)
Definition ref_dom (A : list (option arr)) (q : ref0) : Prop :=
  exists a, live A (rf_slot q) a /\ Z.of_nat (rf_idx q) < nel a.

Definition dom_op0 (A : list (option arr)) (o : lop0) : Prop :=
  match o with
  | ZBuf r _ _ | ZCtorValue r _ | ZCtorElem r _ _ | ZCtorSingleton r _ | ZCtorConv r _ _ => free A r
  | ZCtorCopy r s | ZCtorCopyAlloc r s _ | ZCtorMove r s | ZCtorMoveAlloc r s _ => free A r /\ exists as_, live0 A s as_
  | ZCtorRef r _ q | ZCtorMovedRef r _ q => free A r /\ ref_dom A q
  | ZAssignCopy r s | ZAssignMove r s => (exists ar, live0 A r ar) /\ exists as_, live0 A s as_
  | ZAssignElem r _ | ZAssignConv r _ | ZWrite r _ | ZMoveOut r => exists ar, live0 A r ar
  | ZAssignRef r q | ZAssignMovedRef r q => (exists ar, live0 A r ar) /\ ref_dom A q
  | ZSwap r s | ZSwapMember r s => r <> s /\ (exists ar, live0 A r ar) /\ exists as_, live0 A s as_
  | ZDestroy r => exists ar, live A r ar
  | ZRefAssignRef q p | ZRefAssignMoved q p => ref_dom A q /\ ref_dom A p
  | ZRefAssignElem q _ | ZRefWrite q _ => ref_dom A q
  | ZRefSwap q p => ref_dom A q /\ ref_dom A p /\ (rf_slot q <> rf_slot p \/ rf_idx q <> rf_idx p)
  end.

Definition op_ok0 (o : lop0) : Prop :=
  forall A, wf_slots A -> tmps_free A -> dom_op0 A o ->
    triple (fun s => Inv [] s /\ s_arrs s = A) (step0 cfg o) (fun _ s' => Good s') GoodT.

Lemma nel0 a : is0 a -> nel a = 1.
Proof. intros [E _]. unfold nel. rewrite E. reflexivity. Qed.

Lemma get_slot_live s A r a : s_arrs s = A -> live A r a -> get_slot s r = Some a.
Proof. intros HA [_ H]. unfold get_slot. rewrite HA, H. reflexivity. Qed.

(* ---- reading a reference ---- *)
Lemma ref_cell_ok {B} X A q (f : nat * nat -> M B) Q QT :
  ref_dom A q ->
  (forall b a, live A (rf_slot q) a -> a_base a = PBlk b -> Z.of_nat (rf_idx q) < nel a ->
     triple (fun s => Inv X s /\ s_arrs s = A) (f (b, rf_idx q)) Q QT) ->
  triple (fun s => Inv X s /\ s_arrs s = A) (bind (ref_cell q) f) Q QT.
Proof.
  intros (a & La & Hi) Hf s [I HA]. unfold bind, ref_cell. unfold bind at 1.
  pose proof (get_slot_live s A _ a HA La) as Hs.
  unfold get_arr. pose proof La as [Lr Ln]. rewrite HA, Ln.
  destruct (Z.ltb_spec (Z.of_nat (rf_idx q)) (nel a)) as [_|]; [|lia].
  destruct (arr_cell_ok cfg X s _ a _ I Hs Hi) as (b & Hb & Hc).
  unfold bind, base_blk. rewrite Hb. cbn [ret].
  apply (Hf b a La Hb Hi s). split; auto.
Qed.

(* the cell a (block, index) pair read off a live array object designates *)
Lemma cell_of X s A r a b i : Inv X s -> s_arrs s = A -> nth_error A r = Some (Some a) -> a_base a = PBlk b ->
  Z.of_nat i < nel a -> cell_ok cfg s b i.
Proof.
  intros I HA Hn Hb Hi.
  assert (Hs : get_slot s r = Some a) by (unfold get_slot; rewrite HA, Hn; reflexivity).
  destruct (arr_cell_ok cfg X s r a i I Hs Hi) as (b' & Hb' & Hc). congruence.
Qed.

(* ---- the end of a cells-only operation ---- *)
Lemma cells_only_ok {T} A (m : M T) :
  wf_slots A -> tmps_free A ->
  (forall s0, Inv [] s0 -> s_arrs s0 = A ->
     triple (keep cfg s0) m (fun _ s' => keep cfg s0 s') (fun s' => keep cfg s0 s' /\ thrown SAssignElem s')) ->
  triple (fun s => Inv [] s /\ s_arrs s = A) m (fun _ s' => Good s') GoodT.
Proof.
  intros W T' H. eapply triple_conseq; [apply (keep_triple cfg [] A m SAssignElem H)| | |]; auto.
  - intros _ s [I HA]. eapply (Good_intro cfg); eauto.
  - intros s (I & HA & _). eapply (GoodT_left cfg); eauto.
Qed.

Lemma cells_only_ok_pre {T} A (m : M T) (F : state -> Prop) :
  wf_slots A -> tmps_free A ->
  (forall s0, Inv [] s0 -> s_arrs s0 = A -> F s0 ->
     triple (keep cfg s0) m (fun _ s' => keep cfg s0 s') (fun s' => keep cfg s0 s' /\ thrown SAssignElem s')) ->
  triple (fun s => (Inv [] s /\ s_arrs s = A) /\ F s) m (fun _ s' => Good s') GoodT.
Proof.
  intros W T' H s [[I HA] HF]. specialize (H s I HA HF s (st_le_refl cfg [] s)).
  destruct (m s) as [x s'|s'|e]; auto.
  - destruct (keep_Inv cfg [] s s' I H) as [I' E']. apply (Good_intro cfg s' A); auto. congruence.
  - destruct H as [L _]. destruct (keep_Inv cfg [] s s' I L) as [I' E']. apply (GoodT_left cfg s' A); auto. congruence.
Qed.

(* the one cell of a rank-0 array object *)
Lemma arr0_cell X s A r a : Inv X s -> s_arrs s = A -> nth_error A r = Some (Some a) -> is0 a ->
  exists b, a_base a = PBlk b /\ cell_ok cfg s b 0.
Proof.
  intros I HA Hn Z0. eapply arr_cell_ok; eauto.
  - unfold get_slot. rewrite HA, Hn. reflexivity.
  - rewrite (nel0 _ Z0). lia.
Qed.

Lemma one_cell_eq a mk b : is0 a -> a_base a = PBlk b -> one_cell a mk = [mk b 0%nat].
Proof. intros Z0 Hb. unfold one_cell, cells_of, nnel. rewrite Hb, (nel0 _ Z0). reflexivity. Qed.

Lemma assign_all_eq a b srcs : is0 a -> a_base a = PBlk b ->
  assign_all cfg a srcs = assign_loop cfg SAssignElem b [0%nat] srcs.
Proof. intros Z0 Hb. unfold assign_all, nnel, base_blk. rewrite Hb, (nel0 _ Z0). reflexivity. Qed.

(* from "keeps the frame" at one state to the verdict of the operation *)
Lemma keep_finish {T} A (m : M T) s :
  wf_slots A -> Inv [] s -> s_arrs s = A ->
  match m s with Ok _ s' => keep cfg s s' | Threw s' => keep cfg s s' /\ thrown SAssignElem s' | Err _ => False end ->
  match m s with Ok _ s' => Inv [] s' /\ s_arrs s' = A | Threw s' => Inv [] s' /\ s_arrs s' = A /\ thrown SAssignElem s' | Err _ => False end.
Proof.
  intros W I HA H. destruct (m s) as [x s'|s'|e]; auto.
  - destruct (keep_Inv cfg [] s s' I H) as [I' E']. split; auto. congruence.
  - destruct H as [L Th]. destruct (keep_Inv cfg [] s s' I L) as [I' E']. split; auto. split; auto. congruence.
Qed.

Lemma finish_Good {T} A (m : M T) s :
  wf_slots A -> tmps_free A ->
  match m s with Ok _ s' => Inv [] s' /\ s_arrs s' = A | Threw s' => Inv [] s' /\ s_arrs s' = A /\ thrown SAssignElem s' | Err _ => False end ->
  match m s with Ok _ s' => Good s' | Threw s' => GoodT s' | Err _ => False end.
Proof.
  intros W T' H. destruct (m s) as [x s'|s'|e]; auto.
  - destruct H as [I' E']. apply (Good_intro cfg s' A); auto.
  - destruct H as (I' & E' & _). apply (GoodT_left cfg s' A); auto.
Qed.

Lemma one_cell_src_in A s a mk : (mk = SCell \/ mk = SMoveCell) -> live A s a -> Forall (src_in A) (one_cell a mk).
Proof. intros Hmk [_ H]. unfold one_cell. eapply cells_of_src_in; eauto. Qed.

Lemma one_cell_length X s A r a mk : Inv X s -> s_arrs s = A -> live0 A r a -> length (one_cell a mk) = 1%nat.
Proof.
  intros I HA [[_ L] Z0]. destruct (arr0_cell X s A r a I HA L Z0) as (b & Hb & _). rewrite (one_cell_eq a mk b Z0 Hb). reflexivity.
Qed.

(* ---- constructors ---- *)
Lemma ctor0_ok A r al srcs :
  wf_slots A -> tmps_free A -> free A r -> Forall (src_in A) srcs -> length srcs = 1%nat ->
  triple (fun s => Inv [] s /\ s_arrs s = A)
         (p <- p_build cfg al (bnumel X0) 0 srcs ;; install r al p X0) (fun _ s' => Good s') GoodT.
Proof. intros W T D F L. apply (ctor_build_ok cfg rank_pos); auto. Qed.

Lemma ctor0_from_arr_ok A r s as_ al mk :
  wf_slots A -> tmps_free A -> free A r -> live0 A s as_ -> (mk = SCell \/ mk = SMoveCell) ->
  triple (fun s => Inv [] s /\ s_arrs s = A)
         (p <- p_build cfg al (bnumel X0) 0 (one_cell as_ mk) ;; install r al p X0) (fun _ s' => Good s') GoodT.
Proof.
  intros W T D L Hmk.
  apply triple_pure with (F := length (one_cell as_ mk) = 1%nat).
  { intros s0 [I HA]. eapply one_cell_length; eauto. }
  intros Hl. apply ctor0_ok; auto. eapply one_cell_src_in; eauto. apply L.
Qed.

Lemma ok_ZBuf r a vals : op_ok0 (ZBuf r a vals).
Proof.
  intros A W T D. cbn [step0 dom_op0] in *. apply bind_slot_free; [apply D|]. cbv zeta.
  apply (ctor_build_ok cfg rank_pos); auto.
  - apply map_SVal_src_in.
  - intros _. rewrite map_length. unfold bnumel, bx_sizes, numel. cbn. rewrite Z.mul_1_r, Nat2Z.id. reflexivity.
Qed.

Lemma ok_ZCtorValue r a : op_ok0 (ZCtorValue r a).
Proof.
  intros A W T D. cbn [step0 dom_op0] in *.
  exact (ok_CtorSized cfg rank_pos r a X0 A W T D).
Qed.

Lemma ok_ZCtorElem r a v : op_ok0 (ZCtorElem r a v).
Proof.
  intros A W T D. cbn [step0 dom_op0] in *. apply bind_slot_free; [apply D|]. apply ctor0_ok; auto.
  constructor; [exact Logic.I|constructor].
Qed.

Lemma ok_ZCtorSingleton r v : op_ok0 (ZCtorSingleton r v).
Proof.
  intros A W T D. cbn [step0 dom_op0] in *. apply bind_slot_free; [apply D|]. apply ctor0_ok; auto.
  constructor; [exact Logic.I|constructor].
Qed.

Lemma ok_ZCtorConv r a v : op_ok0 (ZCtorConv r a v).
Proof.
  intros A W T D. cbn [step0 dom_op0] in *. apply bind_slot_free; [apply D|]. apply ctor0_ok; auto.
  constructor; [exact Logic.I|constructor].
Qed.

Lemma ok_ZCtorCopy r s : op_ok0 (ZCtorCopy r s).
Proof.
  intros A W T [D (as_ & Ds)]. cbn [step0]. apply bind_slot_free; [apply D|].
  eapply bind_get_arr; [apply Ds|]. eapply ctor0_from_arr_ok; eauto.
Qed.

Lemma ok_ZCtorCopyAlloc r s a : op_ok0 (ZCtorCopyAlloc r s a).
Proof.
  intros A W T [D (as_ & Ds)]. cbn [step0]. apply bind_slot_free; [apply D|].
  eapply bind_get_arr; [apply Ds|]. eapply ctor0_from_arr_ok; eauto.
Qed.

Lemma ok_ZCtorMove r s : op_ok0 (ZCtorMove r s).
Proof.
  intros A W T [D (as_ & Ds)]. cbn [step0]. apply bind_slot_free; [apply D|].
  eapply bind_get_arr; [apply Ds|]. eapply ctor0_from_arr_ok; eauto.
Qed.

Lemma ok_ZCtorMoveAlloc r s a : op_ok0 (ZCtorMoveAlloc r s a).
Proof.
  intros A W T [D (as_ & Ds)]. cbn [step0]. apply bind_slot_free; [apply D|].
  eapply bind_get_arr; [apply Ds|]. eapply ctor0_from_arr_ok; eauto.
Qed.

Lemma ctor0_ref_ok A r a q :
  wf_slots A -> tmps_free A -> free A r -> ref_dom A q ->
  triple (fun s => Inv [] s /\ s_arrs s = A)
         (slot_free r ;;; c <- ref_cell q ;; p <- p_build cfg a (bnumel X0) 0 [SCell (fst c) (snd c)] ;; install r a p X0)
         (fun _ s' => Good s') GoodT.
Proof.
  intros W T D Dq. apply bind_slot_free; [apply D|].
  apply ref_cell_ok; auto. intros b aq Lq Hb Hi. cbn [fst snd].
  apply ctor0_ok; auto. constructor; [|constructor]. cbn. exists (rf_slot q), aq. destruct Lq as [_ Ln]. auto.
Qed.

Lemma ok_ZCtorRef r a q : op_ok0 (ZCtorRef r a q).
Proof. intros A W T [D Dq]. cbn [step0]. apply ctor0_ref_ok; auto. Qed.

Lemma ok_ZCtorMovedRef r a q : op_ok0 (ZCtorMovedRef r a q).
Proof. intros A W T [D Dq]. cbn [step0]. apply ctor0_ref_ok; auto. Qed.


(* ---- assignment of one element into the cell of a rank-0 array ---- *)
Lemma assign0_ok' A r ar0 ar x :
  wf_slots A -> nth_error A r = Some (Some ar0) -> is0 ar0 -> is0 ar -> a_base ar = a_base ar0 ->
  (forall s, Inv [] s -> s_arrs s = A -> src_cell_ok cfg s x) ->
  triple (fun s => Inv [] s /\ s_arrs s = A) (assign_all cfg ar [x])
         (fun _ s' => Inv [] s' /\ s_arrs s' = A) (fun s' => Inv [] s' /\ s_arrs s' = A /\ thrown SAssignElem s').
Proof.
  intros W Hn Z0 Z1 Hbase Hx s [I HA].
  destruct (arr0_cell [] s A r ar0 I HA Hn Z0) as (b & Hb & Hc).
  rewrite (assign_all_eq ar b [x] Z1 ltac:(congruence)).
  apply keep_finish; auto.
  apply (keep_assign_one cfg s SAssignElem b 0 x Hc (Hx s I HA) s). apply st_le_refl.
Qed.

Lemma assign0_ok A r ar x :
  wf_slots A -> nth_error A r = Some (Some ar) -> is0 ar ->
  (forall s, Inv [] s -> s_arrs s = A -> src_cell_ok cfg s x) ->
  triple (fun s => Inv [] s /\ s_arrs s = A) (assign_all cfg ar [x])
         (fun _ s' => Inv [] s' /\ s_arrs s' = A) (fun s' => Inv [] s' /\ s_arrs s' = A /\ thrown SAssignElem s').
Proof. intros W Hn Z0 Hx. apply (assign0_ok' A r ar ar x); auto. Qed.

Lemma to_Good {T} A (m : M T) :
  wf_slots A -> tmps_free A ->
  triple (fun s => Inv [] s /\ s_arrs s = A) m
         (fun _ s' => Inv [] s' /\ s_arrs s' = A) (fun s' => Inv [] s' /\ s_arrs s' = A /\ thrown SAssignElem s') ->
  triple (fun s => Inv [] s /\ s_arrs s = A) m (fun _ s' => Good s') GoodT.
Proof.
  intros W T' H. eapply triple_conseq; [exact H| | |]; auto.
  - intros _ s [I HA]. apply (Good_intro cfg s A); auto.
  - intros s (I & HA & _). apply (GoodT_left cfg s A); auto.
Qed.

Lemma assign0_from_arr_ok' A r ar0 ar t at_ mk :
  wf_slots A -> nth_error A r = Some (Some ar0) -> is0 ar0 -> is0 ar -> a_base ar = a_base ar0 ->
  nth_error A t = Some (Some at_) -> is0 at_ -> (mk = SCell \/ mk = SMoveCell) ->
  triple (fun s => Inv [] s /\ s_arrs s = A) (assign_all cfg ar (one_cell at_ mk))
         (fun _ s' => Inv [] s' /\ s_arrs s' = A) (fun s' => Inv [] s' /\ s_arrs s' = A /\ thrown SAssignElem s').
Proof.
  intros W Hr Zr Zr' Hbase Ht Zt Hmk s [I HA].
  destruct (arr0_cell [] s A t at_ I HA Ht Zt) as (b' & Hb' & Hc').
  rewrite (one_cell_eq at_ mk b' Zt Hb').
  assert (Hc : forall s1, Inv [] s1 -> s_arrs s1 = A -> cell_ok cfg s1 b' 0).
  { intros s1 I1 HA1. eapply (cell_of [] s1 A t at_ b' 0); eauto. rewrite (nel0 _ Zt). lia. }
  apply (assign0_ok' A r ar0 ar (mk b' 0%nat) W Hr Zr Zr' Hbase); auto.
  intros s1 I1 HA1. destruct Hmk as [-> | ->]; cbn; auto.
Qed.

Lemma assign0_from_arr_ok A r ar t at_ mk :
  wf_slots A -> nth_error A r = Some (Some ar) -> is0 ar -> nth_error A t = Some (Some at_) -> is0 at_ ->
  (mk = SCell \/ mk = SMoveCell) ->
  triple (fun s => Inv [] s /\ s_arrs s = A) (assign_all cfg ar (one_cell at_ mk))
         (fun _ s' => Inv [] s' /\ s_arrs s' = A) (fun s' => Inv [] s' /\ s_arrs s' = A /\ thrown SAssignElem s').
Proof. intros W Hr Zr Ht Zt Hmk. apply (assign0_from_arr_ok' A r ar ar t at_ mk); auto. Qed.

Lemma upd_nth_id {T} (l : list T) n x : nth_error l n = Some x -> upd_nth l n x = l.
Proof. revert n; induction l as [|h l IH]; intros [|n] H; cbn in *; try discriminate; [inv H; auto|f_equal; auto]. Qed.

Lemma wf_is0 a : is0 a -> wf_arr a.
Proof. intros [E F]. unfold wf_arr. rewrite E, F. reflexivity. Qed.

(* ---- two array objects exchange allocator and block ---- *)
Lemma swap_store_ok A r t ar at_ :
  nth_error A r = Some (Some ar) -> is0 ar -> nth_error A t = Some (Some at_) -> is0 at_ -> r <> t ->
  triple (fun s => Inv [] s /\ s_arrs s = A) (swap_store r t)
         (fun _ s' => Inv [] s' /\ s_arrs s' = upd_nth (upd_nth A r (Some (mkarr (a_alloc at_) (a_base at_) [] []))) t
                                                        (Some (mkarr (a_alloc ar) (a_base ar) [] [])))
         (fun _ => False).
Proof.
  intros Hr Zr Ht Zt Hne. unfold swap_store. eapply bind_get_arr; [exact Hr|]. eapply bind_get_arr; [exact Ht|].
  intros s [I HA]. unfold bind. rewrite !set_arr_eq.
  destruct Zr as [Er Fr]. destruct Zt as [Et Ft]. rewrite Er, Fr, Et, Ft. split.
  - pose proof (Inv_swap cfg [] s r t ar at_ (a_alloc at_) (a_alloc ar) I) as Sw.
    rewrite Er, Fr, Et, Ft in Sw. apply Sw; auto.
    + unfold get_slot. rewrite HA, Hr. reflexivity.
    + unfold get_slot. rewrite HA, Ht. reflexivity.
    + apply (alloc_eq_refl cfg).
    + apply (alloc_eq_refl cfg).
  - cbn. rewrite HA. reflexivity.
Qed.

(* ---- copy / move assignment under a propagation trait ---- *)
Definition assigned (A : list (option arr)) (r : nat) (al : Z) (s' : state) : Prop :=
  exists ar', (is0 ar' /\ a_alloc ar' = al) /\ Inv [] s' /\ s_arrs s' = upd_nth A r (Some ar').
Lemma assigned_intro A r al s' ar' : Inv [] s' -> s_arrs s' = upd_nth A r (Some ar') -> is0 ar' -> a_alloc ar' = al -> assigned A r al s'.
Proof. intros. exists ar'. auto. Qed.

Lemma assign0_spec A prop mk tmp r t ar at_ :
  wf_slots A -> length A = NSLOTS -> (mk = SCell \/ mk = SMoveCell) ->
  nth_error A r = Some (Some ar) -> is0 ar -> nth_error A t = Some (Some at_) -> is0 at_ -> r <> t ->
  (tmp < NSLOTS)%nat -> nth_error A tmp = Some None -> tmp <> r -> tmp <> t ->
  triple (fun s => Inv [] s /\ s_arrs s = A) (assign0 cfg prop mk tmp r t)
         (fun _ => assigned A r (if prop then a_alloc at_ else a_alloc ar)) GoodT.
Proof.
  intros W Hlen Hmk Hr Zr Ht Zt Hne Htl Htmp Htr Htt. unfold assign0.
  eapply bind_get_arr; [exact Hr|]. eapply bind_get_arr; [exact Ht|].
  assert (Lr : (r < length A)%nat) by (apply nth_error_Some; congruence).
  destruct prop.
  2:{ (* no propagation: the element is assigned *)
    eapply triple_conseq; [apply (assign0_from_arr_ok A r ar t at_ mk W Hr Zr Ht Zt Hmk)| | |]; auto.
    - intros _ s [I HA]. apply (assigned_intro A r _ s ar); auto. rewrite (upd_nth_id A r (Some ar) Hr). auto.
    - intros s (I & HA & _). apply (GoodT_left cfg s A); auto. }
  destruct (alloc_eq cfg (a_alloc ar) (a_alloc at_)) eqn:Eal.
  - (* equal allocators: the allocator is replaced, the block stays *)
    set (ar1 := mkarr (a_alloc at_) (a_base ar) (a_exts ar) (a_first ar)).
    set (A1 := upd_nth A r (Some ar1)).
    assert (Z1 : is0 ar1) by (destruct Zr; split; auto).
    assert (W1 : wf_slots A1) by (apply wf_slots_upd; auto; intros a E; inv E; apply wf_is0; auto).
    eapply triple_bind with (Q := fun _ s => Inv [] s /\ s_arrs s = A1).
    { unfold p_set_alloc. eapply bind_get_arr; [exact Hr|]. intros s [I HA]. rewrite set_arr_eq. split.
      - apply (Inv_retag cfg rank_pos [] s r ar ar1); auto. unfold get_slot. rewrite HA, Hr. reflexivity.
      - cbn. rewrite HA. reflexivity. }
    intros ?.
    assert (H1r : nth_error A1 r = Some (Some ar1)) by (unfold A1; apply nth_upd_same; auto).
    assert (H1t : nth_error A1 t = Some (Some at_)) by (unfold A1; rewrite nth_upd_other; auto).
    eapply triple_conseq; [apply (assign0_from_arr_ok' A1 r ar1 ar t at_ mk W1 H1r Z1 Zr eq_refl H1t Zt Hmk)| | |]; auto.
    + intros _ s [I HA]. apply (assigned_intro A r _ s ar1); auto.
    + intros s (I & HA & _). apply (GoodT_left cfg s A1); auto.
  - (* unequal allocators: a new block under the source's allocator, the old one leaves with the temporary *)
    apply triple_pure with (F := length (one_cell at_ mk) = 1%nat).
    { intros s [I HA]. destruct (arr0_cell [] s A t at_ I HA Ht Zt) as (b & Hb & _). rewrite (one_cell_eq at_ mk b Zt Hb). reflexivity. }
    intros Hl1.
    assert (Fs : Forall (src_in A) (one_cell at_ mk)) by (unfold one_cell; eapply cells_of_src_in; eauto).
    eapply triple_bind.
    { eapply triple_conseq; [apply (p_build_spec cfg rank_pos [] (a_alloc at_) (bnumel X0) 0 (one_cell at_ mk) A Fs (fun _ => Hl1))| | |].
      - intros s H. exact H.
      - intros p s H. exact H.
      - intros s [HA [[I Th]|Th]]; [apply (GoodT_left cfg s A); auto|right; left; auto]. }
    intros p.
    set (tarr := with_bx (a_alloc at_) p X0).
    set (A1 := upd_nth A tmp (Some tarr)).
    assert (Ztm : is0 tarr) by (split; reflexivity).
    assert (Ltmp : (tmp < length A)%nat) by (rewrite Hlen; exact Htl).
    eapply triple_bind with (Q := fun _ s => Inv [] s /\ s_arrs s = A1).
    { apply triple_nothrow. eapply triple_conseq; [apply (install_spec cfg [] tmp (a_alloc at_) X0 A p Htl)| | |]; auto.
      unfold slotA. rewrite Htmp. exact Logic.I. }
    intros ?.
    assert (H1r : nth_error A1 r = Some (Some ar)) by (unfold A1; rewrite nth_upd_other; auto).
    assert (H1m : nth_error A1 tmp = Some (Some tarr)) by (unfold A1; apply nth_upd_same; auto).
    set (ar' := mkarr (a_alloc tarr) (a_base tarr) [] []).
    set (A2 := upd_nth (upd_nth A1 r (Some ar')) tmp (Some (mkarr (a_alloc ar) (a_base ar) [] []))).
    eapply triple_bind with (Q := fun _ s => Inv [] s /\ s_arrs s = A2).
    { apply triple_nothrow. apply (swap_store_ok A1 r tmp ar tarr H1r Zr H1m Ztm). auto. }
    intros ?.
    assert (H2m : nth_error A2 tmp = Some (Some (mkarr (a_alloc ar) (a_base ar) [] []))).
    { unfold A2. apply nth_upd_same. rewrite upd_nth_length. unfold A1. rewrite upd_nth_length. auto. }
    apply triple_nothrow. eapply triple_post; [apply (dtor_ok cfg rank_pos [] A2 tmp _ H2m)|].
    intros _ s [I HA]. apply (assigned_intro A r _ s ar'); [auto| |split; reflexivity|reflexivity].
    rewrite HA. unfold A2, A1. rewrite upd_nth_twice.
    rewrite (upd_nth_comm (upd_nth A tmp (Some tarr)) r tmp) by auto. rewrite upd_nth_twice.
    rewrite (upd_nth_id A tmp None Htmp). reflexivity.
Qed.

Lemma assign0_Good A prop mk r t ar at_ :
  wf_slots A -> tmps_free A -> live0 A r ar -> live0 A t at_ -> r <> t -> (mk = SCell \/ mk = SMoveCell) ->
  triple (fun s => Inv [] s /\ s_arrs s = A) (assign0 cfg prop mk TMP1 r t) (fun _ s' => Good s') GoodT.
Proof.
  intros W T [Dr Zr] [Dt Zt] Hne Hmk.
  apply triple_pure with (F := length A = NSLOTS). { intros s [I HA]. eapply len_A; eauto. } intros Hlen.
  destruct (tmp_ne_user cfg rank_pos r (proj1 Dr)) as (N1 & _ & _). destruct (tmp_ne_user cfg rank_pos t (proj1 Dt)) as (M1 & _ & _).
  pose proof T as (T1 & _ & _).
  eapply triple_post; [apply (assign0_spec A prop mk TMP1 r t ar at_ W Hlen Hmk (proj2 Dr) Zr (proj2 Dt) Zt Hne); auto|].
  - unfold NSLOTS, TMP1. lia.
  - intros _ s (ar' & (Z' & _) & I & HA). apply (Good_intro cfg s _ I HA).
    + apply wf_slots_upd; auto. intros a E; inv E. apply wf_is0; auto.
    + eapply tmps_free_upd; eauto; apply Dr.
Qed.

Lemma ok_ZAssignCopy r t : op_ok0 (ZAssignCopy r t).
Proof.
  intros A W T ((ar & Dr) & (at_ & Dt)). cbn [step0].
  destruct (Nat.eqb_spec r t) as [->|Hne].
  - eapply bind_get_arr; [apply Dr|]. intros s [I HA]. apply (Good_intro cfg s A); auto.
  - eapply assign0_Good; eauto.
Qed.

Lemma ok_ZAssignMove r t : op_ok0 (ZAssignMove r t).
Proof.
  intros A W T ((ar & Dr) & (at_ & Dt)). cbn [step0].
  destruct (Nat.eqb_spec r t) as [->|Hne].
  - eapply bind_get_arr; [apply Dr|]. intros s [I HA]. apply (Good_intro cfg s A); auto.
  - eapply assign0_Good; eauto.
Qed.

Lemma ok_ZAssignElem r v : op_ok0 (ZAssignElem r v).
Proof.
  intros A W T (ar & Dr & Zr). cbn [step0]. eapply bind_get_arr; [apply Dr|].
  apply to_Good; auto. eapply assign0_ok; eauto. - apply Dr. - intros; exact Logic.I.
Qed.

Lemma ok_ZAssignConv r v : op_ok0 (ZAssignConv r v).
Proof.
  intros A W T (ar & Dr & Zr). cbn [step0]. eapply bind_get_arr; [apply Dr|].
  apply to_Good; auto. eapply assign0_ok; eauto. - apply Dr. - intros; exact Logic.I.
Qed.

Lemma assign0_ref_ok A r q :
  wf_slots A -> tmps_free A -> (exists ar, live0 A r ar) -> ref_dom A q ->
  triple (fun s => Inv [] s /\ s_arrs s = A)
         (ar <- get_arr r ;; c <- ref_cell q ;; b <- base_blk ar ;; assign_loop cfg SAssignElem b [0%nat] [SCell (fst c) (snd c)])
         (fun _ s' => Good s') GoodT.
Proof.
  intros W T (ar & Dr & Zr) Dq. eapply bind_get_arr; [apply Dr|].
  apply ref_cell_ok; auto. intros b' aq Lq Hb' Hi. cbn [fst snd].
  apply to_Good; auto. intros s [I HA].
  destruct (arr0_cell [] s A r ar I HA (proj2 Dr) Zr) as (b & Hb & Hc).
  unfold bind at 1. unfold base_blk. rewrite Hb. cbn [ret].
  apply keep_finish; auto.
  apply (keep_assign_one cfg s SAssignElem b 0 (SCell b' (rf_idx q)) Hc); [|apply st_le_refl].
  cbn. eapply (cell_of [] s A _ aq b' _); eauto. apply Lq.
Qed.

Lemma ok_ZAssignRef r q : op_ok0 (ZAssignRef r q).
Proof. intros A W T [Dr Dq]. cbn [step0]. apply assign0_ref_ok; auto. Qed.
Lemma ok_ZAssignMovedRef r q : op_ok0 (ZAssignMovedRef r q).
Proof. intros A W T [Dr Dq]. cbn [step0]. apply assign0_ref_ok; auto. Qed.

Lemma ok_ZWrite r v : op_ok0 (ZWrite r v).
Proof.
  intros A W T (ar & Dr & Zr). cbn [step0]. eapply bind_get_arr; [apply Dr|].
  apply to_Good; auto. intros s [I HA].
  destruct (arr0_cell [] s A r ar I HA (proj2 Dr) Zr) as (b & Hb & Hc).
  unfold bind at 1. unfold base_blk. rewrite Hb. cbn [ret].
  apply keep_finish; auto.
  pose proof (keep_assign cfg s b 0 v (fun _ => False) Hc s (st_le_refl cfg [] s)) as K.
  destruct (assign1 cfg b 0 v s); auto. contradiction.
Qed.

Lemma ok_ZMoveOut r : op_ok0 (ZMoveOut r).
Proof.
  intros A W T (ar & Dr & Zr). cbn [step0]. eapply bind_get_arr; [apply Dr|].
  apply to_Good; auto. intros s [I HA].
  destruct (arr0_cell [] s A r ar I HA (proj2 Dr) Zr) as (b & Hb & Hc).
  unfold bind at 1. unfold base_blk. rewrite Hb. cbn [ret].
  apply keep_finish; auto.
  assert (Tr : triple (keep cfg s) (tick_elem cfg SAssignElem ;;; v <- read1 cfg b 0 ;; mark_moved cfg b 0)
                      (fun _ s' => keep cfg s s') (fun s' => keep cfg s s' /\ thrown SAssignElem s')).
  { eapply triple_bind; [apply keep_tick|]. intros ?.
    eapply triple_bind; [apply keep_read; auto|]. intros v. apply keep_mark; auto. }
  apply (Tr s). apply st_le_refl.
Qed.

Lemma ok_ZDestroy r : op_ok0 (ZDestroy r).
Proof.
  intros A W T (ar & D). cbn [step0]. apply triple_nothrow.
  eapply triple_post; [apply (dtor_ok cfg rank_pos [] A r ar); apply D|].
  intros _ s [I HA]. eapply (Good_intro cfg); eauto.
  - apply wf_slots_upd; auto. intros a E; discriminate.
  - eapply tmps_free_upd; eauto; apply D.
Qed.

Lemma ok_ZSwapMember r t : op_ok0 (ZSwapMember r t).
Proof.
  intros A W T (Hne & (ar & Dr & Zr) & (at_ & Dt & Zt)). cbn [step0].
  eapply bind_get_arr; [apply Dr|]. eapply bind_get_arr; [apply Dt|].
  destruct (Nat.eqb_spec r t) as [->|_]; [contradiction|].
  destruct (c_pocs cfg).
  - apply triple_nothrow. eapply triple_post; [apply (swap_store_ok A r t ar at_ (proj2 Dr) Zr (proj2 Dt) Zt Hne)|].
    intros _ s [I HA]. apply (Good_intro cfg s _ I HA).
    + apply wf_slots_upd; [apply wf_slots_upd; auto|]; intros a E; inv E; apply wf_is0; split; reflexivity.
    + eapply tmps_free_upd; eauto; [apply Dt|]. eapply tmps_free_upd; eauto; apply Dr.
  - apply to_Good; auto. intros s [I HA].
    destruct (arr0_cell [] s A r ar I HA (proj2 Dr) Zr) as (b & Hb & Hc).
    destruct (arr0_cell [] s A t at_ I HA (proj2 Dt) Zt) as (b' & Hb' & Hc').
    unfold bind at 1. unfold base_blk at 1. rewrite Hb. cbn [ret].
    unfold bind at 1. unfold base_blk at 1. rewrite Hb'. cbn [ret].
    apply keep_finish; auto.
    apply (keep_swap_cells cfg s b 0 b' 0 Hc Hc' s). apply st_le_refl.
Qed.

(* ---- through references ---- *)
Lemma ref_assign_ref_ok A q p :
  wf_slots A -> tmps_free A -> ref_dom A q -> ref_dom A p ->
  triple (fun s => Inv [] s /\ s_arrs s = A)
         (c <- ref_cell q ;; d <- ref_cell p ;; assign_loop cfg SAssignElem (fst c) [snd c] [SCell (fst d) (snd d)])
         (fun _ s' => Good s') GoodT.
Proof.
  intros W T Dq Dp. apply ref_cell_ok; auto. intros b aq Lq Hb Hi.
  apply ref_cell_ok; auto. intros b' ap Lp Hb' Hi'. cbn [fst snd].
  apply to_Good; auto. intros s [I HA]. apply keep_finish; auto.
  apply (keep_assign_one cfg s SAssignElem b _ (SCell b' (rf_idx p))); [| |apply st_le_refl].
  - eapply (cell_of [] s A _ aq b _); eauto. apply Lq.
  - cbn. eapply (cell_of [] s A _ ap b' _); eauto. apply Lp.
Qed.

Lemma ok_ZRefAssignRef q p : op_ok0 (ZRefAssignRef q p).
Proof. intros A W T [Dq Dp]. cbn [step0]. apply ref_assign_ref_ok; auto. Qed.
Lemma ok_ZRefAssignMoved q p : op_ok0 (ZRefAssignMoved q p).
Proof. intros A W T [Dq Dp]. cbn [step0]. apply ref_assign_ref_ok; auto. Qed.

Lemma ok_ZRefAssignElem q v : op_ok0 (ZRefAssignElem q v).
Proof.
  intros A W T Dq. cbn [step0]. apply ref_cell_ok; auto. intros b aq Lq Hb Hi. cbn [fst snd].
  apply to_Good; auto. intros s [I HA]. apply keep_finish; auto.
  apply (keep_assign_one cfg s SAssignElem b _ (SVal v)); [|exact Logic.I|apply st_le_refl].
  eapply (cell_of [] s A _ aq b _); eauto. apply Lq.
Qed.

Lemma ok_ZRefWrite q v : op_ok0 (ZRefWrite q v).
Proof.
  intros A W T Dq. cbn [step0]. apply ref_cell_ok; auto. intros b aq Lq Hb Hi. cbn [fst snd].
  apply to_Good; auto. intros s [I HA]. apply keep_finish; auto.
  assert (Hc : cell_ok cfg s b (rf_idx q)) by (eapply (cell_of [] s A _ aq b _); eauto; apply Lq).
  pose proof (keep_assign cfg s b (rf_idx q) v (fun _ => False) Hc s (st_le_refl cfg [] s)) as K.
  destruct (assign1 cfg b (rf_idx q) v s); auto. contradiction.
Qed.

Lemma ok_ZRefSwap q p : op_ok0 (ZRefSwap q p).
Proof.
  intros A W T (Dq & Dp & Hne). cbn [step0]. apply ref_cell_ok; auto. intros b aq Lq Hb Hi.
  apply ref_cell_ok; auto. intros b' ap Lp Hb' Hi'. cbn [fst snd].
  apply to_Good; auto. intros s [I HA].
  assert (Hc : cell_ok cfg s b (rf_idx q)) by (eapply (cell_of [] s A _ aq b _); eauto; apply Lq).
  assert (Hc' : cell_ok cfg s b' (rf_idx p)) by (eapply (cell_of [] s A _ ap b' _); eauto; apply Lp).
  destruct ((b =? b')%nat && (rf_idx q =? rf_idx p)%nat) eqn:E.
  - (* the same cell: excluded, since different slots own different blocks *)
    exfalso. apply andb_prop in E. destruct E as [E1 E2]. apply Nat.eqb_eq in E1. apply Nat.eqb_eq in E2. subst b'.
    destruct Hne as [Hs|Hx]; [|contradiction]. apply Hs.
    assert (Pq : 0 < nel aq) by lia. assert (Pp : 0 < nel ap) by lia.
    eapply (inv_disj _ _ _ I (rf_slot q) (rf_slot p) b).
    + exists aq. split; [eapply get_slot_live; eauto|]. auto.
    + exists ap. split; [eapply get_slot_live; eauto|]. auto.
  - apply keep_finish; auto. apply (keep_swap_cells cfg s b _ b' _ Hc Hc' s). apply st_le_refl.
Qed.


(* ---- using std::swap; swap(a, b): T tmp(std::move(a)); a = std::move(b); b = std::move(tmp); ~tmp ---- *)

Lemma ok_ZSwap r t : op_ok0 (ZSwap r t).
Proof.
  intros A W T (Hne & (ar & Dr & Zr) & (at_ & Dt & Zt)). cbn [step0].
  eapply bind_get_arr; [apply Dr|]. eapply bind_get_arr; [apply Dt|].
  destruct (Nat.eqb_spec r t) as [->|_]; [contradiction|].
  apply triple_pure with (F := length A = NSLOTS). { intros s [I HA]. eapply len_A; eauto. } intros Hlen.
  pose proof T as (T1 & T2 & T3).
  destruct (tmp_ne_user cfg rank_pos r (proj1 Dr)) as (N1 & _ & _). destruct (tmp_ne_user cfg rank_pos t (proj1 Dt)) as (M1 & _ & _).
  assert (L1 : (TMP1 < length A)%nat) by (eapply nth_lt; eauto).
  apply triple_pure with (F := length (one_cell ar SMoveCell) = 1%nat).
  { intros s [I HA]. eapply (one_cell_length [] s A r); eauto. split; auto. } intros Hl1.
  (* the temporary *)
  eapply triple_bind.
  { assert (Fs : Forall (src_in A) (one_cell ar SMoveCell)) by (eapply one_cell_src_in; eauto).
    eapply triple_conseq; [apply (p_build_spec cfg rank_pos [] (a_alloc ar) (bnumel X0) 0 (one_cell ar SMoveCell) A Fs (fun _ => Hl1))| | |].
    - intros s H. exact H.
    - intros p s H. exact H.
    - intros s [HA [[I Th]|Th]]; [eapply (GoodT_left cfg); eauto|right; left; auto]. }
  intros p.
  set (tarr := with_bx (a_alloc ar) p X0).
  set (A1 := upd_nth A TMP1 (Some tarr)).
  eapply triple_bind with (Q := fun _ s => Inv [] s /\ s_arrs s = A1).
  { apply triple_nothrow. eapply triple_conseq; [apply (install_spec cfg [] TMP1 (a_alloc ar) X0 A p)| | |]; auto.
    - unfold NSLOTS, TMP1. lia.
    - unfold slotA. rewrite T1. exact Logic.I. }
  intros ?.
  assert (Zt' : is0 tarr) by (split; reflexivity).
  assert (W1 : wf_slots A1) by (apply wf_slots_upd; auto; intros a E; inv E; apply (wf_with_bx cfg rank_pos)).
  assert (H1r : nth_error A1 r = Some (Some ar)).
  { unfold A1. rewrite nth_upd by auto. destruct (Nat.eqb_spec TMP1 r); [congruence|apply Dr]. }
  assert (H1t : nth_error A1 t = Some (Some at_)).
  { unfold A1. rewrite nth_upd by auto. destruct (Nat.eqb_spec TMP1 t); [congruence|apply Dt]. }
  assert (H1m : nth_error A1 TMP1 = Some (Some tarr)) by (unfold A1; rewrite nth_upd by auto; rewrite Nat.eqb_refl; auto).
  assert (H1f : nth_error A1 TMP2 = Some None).
  { unfold A1. rewrite nth_upd_other; [exact T2|unfold TMP1, TMP2; lia]. }
  assert (L1' : length A1 = NSLOTS) by (unfold A1; rewrite upd_nth_length; auto).
  destruct (tmp_ne_user cfg rank_pos r (proj1 Dr)) as (_ & N2 & _). destruct (tmp_ne_user cfg rank_pos t (proj1 Dt)) as (_ & M2 & _).
  (* a = std::move(b) *)
  eapply triple_bind.
  { apply (assign0_spec A1 (c_pocma cfg) SMoveCell TMP2 r t ar at_ W1 L1' (or_intror eq_refl) H1r Zr H1t Zt Hne); auto.
    unfold NSLOTS, TMP2. lia. }
  intros ?. apply triple_exists. intros ar'. apply triple_assume. intros [Zr' _].
  set (A2 := upd_nth A1 r (Some ar')).
  assert (W2 : wf_slots A2) by (apply wf_slots_upd; auto; intros a E; inv E; apply wf_is0; auto).
  assert (L2 : length A2 = NSLOTS) by (unfold A2; rewrite upd_nth_length; auto).
  assert (H2t : nth_error A2 t = Some (Some at_)) by (unfold A2; rewrite nth_upd_other; auto).
  assert (H2m : nth_error A2 TMP1 = Some (Some tarr)) by (unfold A2; rewrite nth_upd_other; auto).
  assert (H2f : nth_error A2 TMP2 = Some None) by (unfold A2; rewrite nth_upd_other; auto).
  (* b = std::move(tmp) *)
  eapply triple_bind.
  { apply (assign0_spec A2 (c_pocma cfg) SMoveCell TMP2 t TMP1 at_ tarr W2 L2 (or_intror eq_refl) H2t Zt H2m Zt'); auto.
    - unfold NSLOTS, TMP2. lia.
    - unfold TMP1, TMP2. lia. }
  intros ?. apply triple_exists. intros at'. apply triple_assume. intros [Zt'' _].
  set (A3 := upd_nth A2 t (Some at')).
  assert (H3m : nth_error A3 TMP1 = Some (Some tarr)) by (unfold A3; rewrite nth_upd_other; auto).
  (* ~tmp *)
  apply triple_nothrow. eapply triple_post; [apply (dtor_ok cfg rank_pos [] A3 TMP1 tarr H3m)|].
  intros _ s [I HA]. apply (Good_intro cfg s _ I HA).
  - apply wf_slots_upd; [|intros a E; discriminate]. apply wf_slots_upd; auto. intros a E; inv E; apply wf_is0; auto.
  - unfold A3, A2, A1.
    rewrite (upd_nth_comm _ t TMP1) by auto. rewrite (upd_nth_comm _ r TMP1) by auto. rewrite upd_nth_twice.
    rewrite (upd_nth_id A TMP1 None T1).
    eapply tmps_free_upd; eauto; [apply Dt|]. eapply tmps_free_upd; eauto; apply Dr.
Qed.

(* ---- every rank-0 entry point ---- *)
Theorem step0_ok : forall o, op_ok0 o.
Proof.
  destruct o.
  - apply ok_ZBuf. - apply ok_ZCtorValue. - apply ok_ZCtorElem. - apply ok_ZCtorSingleton. - apply ok_ZCtorCopy.
  - apply ok_ZCtorCopyAlloc. - apply ok_ZCtorMove. - apply ok_ZCtorMoveAlloc. - apply ok_ZCtorRef. - apply ok_ZCtorMovedRef.
  - apply ok_ZCtorConv. - apply ok_ZAssignCopy. - apply ok_ZAssignMove. - apply ok_ZAssignElem. - apply ok_ZAssignRef.
  - apply ok_ZAssignMovedRef. - apply ok_ZAssignConv. - apply ok_ZSwap. - apply ok_ZSwapMember. - apply ok_ZWrite.
  - apply ok_ZMoveOut. - apply ok_ZDestroy. - apply ok_ZRefAssignRef. - apply ok_ZRefAssignElem. - apply ok_ZRefAssignMoved.
  - apply ok_ZRefSwap. - apply ok_ZRefWrite.
Qed.

End R0Inv.

(* Rank 0, C10: which allocator and which block every rank-0 array object ends up with after each entry point, for every
   combination of propagate_on_container_{copy_assignment, move_assignment, swap}, is_always_equal and what
   select_on_container_copy_construction returns.

   A rank-0 array always owns exactly one element (C04_rank0_one_constructed_cell), so there is no empty state a moved-from
   object could be left in: the library never detaches a block from a rank-0 array object.
     - move construction allocates under the source's allocator and MOVES THE ELEMENT; the source keeps allocator and block;
     - copy / move assignment without propagation (or with equal allocators) assign the element in place: no block changes hands;
       with propagation and unequal allocators the target is re-housed: a new block from the SOURCE's allocator receives the
       element (copied / moved), the old block is released through the OLD allocator, the source keeps its own block;
     - member swap (and the friend found by unqualified swap(a, b)) exchanges allocator AND block under
       propagate_on_container_swap, and exchanges the two elements otherwise;
     - qualified std::swap(a, b) is the generic algorithm: one move construction and two move assignments.
   In no configuration does a block reach an array object whose allocator did not produce it: that is the history invariant
   (the rank0_safe theorems of LifeRank0Main), whose Good contains "the owner of the block compares equal to the object's allocator", and the
   interpreter answers Err EWrongAlloc to a release through an unequal allocator. *)
From BM Require Import Base.Tactics Model.Life Model.LifeRank0 Proofs.LifeBase Proofs.LifeMonad Proofs.LifeInv Proofs.LifeCells
  Proofs.LifeSteps Proofs.LifeCombi Proofs.LifeOps Proofs.LifeDisc Proofs.LifeFacts Proofs.LifeVal3
  Proofs.LifeRank0Cells Proofs.LifeRank0Inv Proofs.LifeRank0Main Proofs.LifeRank0Sq Proofs.LifeRank0Final.
Local Open Scope Z_scope.

Definition base_of (s : state) (r : nat) : option ptr := option_map a_base (get_slot s r).

(* allocator-extended constructors (and the ones documented to use allocator_type{}): which allocator they are given *)
Definition supplied (o : lop0) : option (nat * Z) :=
  match o with
  | ZBuf r a _ | ZCtorValue r a | ZCtorElem r a _ | ZCtorCopyAlloc r _ a | ZCtorMoveAlloc r _ a
  | ZCtorRef r a _ | ZCtorMovedRef r a _ | ZCtorConv r a _ => Some (r, a)
  | ZCtorSingleton r _ => Some (r, default_alloc)
  | _ => None
  end.

(* entry points that only touch element values *)
Definition elementwise (o : lop0) : Prop :=
  match o with
  | ZAssignElem _ _ | ZAssignConv _ _ | ZAssignRef _ _ | ZAssignMovedRef _ _ | ZWrite _ _ | ZMoveOut _
  | ZRefAssignRef _ _ | ZRefAssignElem _ _ | ZRefAssignMoved _ _ | ZRefSwap _ _ | ZRefWrite _ _ => True
  | _ => False
  end.

Lemma keeps_ok {A} (m : M A) s x s' : keeps m -> m s = Ok x s' -> s_arrs s' = s_arrs s.
Proof. intros K E. specialize (K s). rewrite E in K. exact K. Qed.

Lemma bind_keeps_inv {A B} (m : M A) (f : A -> M B) s y s' : keeps m -> bind m f s = Ok y s' ->
  exists x s1, s_arrs s1 = s_arrs s /\ f x s1 = Ok y s'.
Proof. intros K H. unfold bind in H. specialize (K s). destruct (m s) as [x s1|?|?]; try discriminate. exists x, s1. auto. Qed.

Lemma keeps_get_arr r : keeps (get_arr r).
Proof. intros s. unfold get_arr. destruct (nth_error (s_arrs s) r) as [[a|]|]; cbn; auto. Qed.

Lemma keeps_ref_cell q : keeps (ref_cell q).
Proof.
  unfold ref_cell. apply keeps_bind; [apply keeps_get_arr|]. intros a.
  destruct (Z.of_nat (rf_idx q) <? nel a); [|apply keeps_fail].
  apply keeps_bind; [apply keeps_base_blk|]. intros b. apply keeps_ret.
Qed.

Lemma keeps_swap_cells cfg b i b' i' : keeps (swap_cells cfg b i b' i').
Proof.
  unfold swap_cells.
  repeat first [ apply keeps_tick_elem | apply keeps_read1 | apply keeps_mark_moved | apply keeps_assign1 | apply keeps_bind; [|intros ?] ].
Qed.

Lemma nth_get_slot s r a : nth_error (s_arrs s) r = Some (Some a) -> get_slot s r = Some a.
Proof. intros H. unfold get_slot. rewrite H. reflexivity. Qed.

Lemma get_slot_nth s r a : get_slot s r = Some a -> nth_error (s_arrs s) r = Some (Some a).
Proof. unfold get_slot. destruct (nth_error (s_arrs s) r) as [[a'|]|]; intros H; try discriminate. congruence. Qed.

Lemma get_slot_upd_same s A r o : s_arrs s = upd_nth A r o -> (r < length A)%nat -> get_slot s r = o.
Proof. intros E L. unfold get_slot. rewrite E, nth_upd_same; auto. Qed.

Lemma get_slot_upd_other s s0 r q o : s_arrs s = upd_nth (s_arrs s0) r o -> r <> q -> get_slot s q = get_slot s0 q.
Proof. intros E N. unfold get_slot. rewrite E, nth_upd_other; auto. Qed.

Section R0Alloc.
Variable cfg : config.

(* ---- constructors ---- *)
Lemma build_install_arrs r al n x rowlen srcs s s' :
  (p <- p_build cfg al n rowlen srcs ;; install r al p x) s = Ok tt s' ->
  exists p, s_arrs s' = upd_nth (s_arrs s) r (Some (with_bx al p x)).
Proof.
  intros H. apply bind_keeps_inv in H; [|apply keeps_p_build]. destruct H as (p & s1 & K & H).
  unfold install in H. rewrite set_arr_eq in H. inv H. exists p. cbn. rewrite K. reflexivity.
Qed.

Ltac open_ctor0 H :=
  cbn [step0] in H; unfold bind at 1 in H;
  match type of H with context[slot_free ?r ?s] =>
    let E := fresh "E" in destruct (slot_free r s) as [[] ?s1|?s1|?e] eqn:E; try discriminate;
    apply slot_free_lt in E; destruct E as [-> ?Hl] end.

Theorem ctor_supplied_allocator0 o r a s s' : supplied o = Some (r, a) -> step0 cfg o s = Ok tt s' -> alloc_of s' r = Some a.
Proof.
  destruct o; cbn [supplied]; intros E; inv E; intros H.
  - open_ctor0 H. cbv zeta in H. eapply build_install_alloc; eauto.
  - open_ctor0 H. unfold bind at 1 in H. pose proof (keeps_alloc a (bnumel X0) s) as K.
    destruct (alloc a (bnumel X0) s) as [p s1|s1|e]; try discriminate.
    unfold bind at 1 in H.
    assert (K2 : keeps (match p with PBlk b => if c_tdc cfg then ret tt else value_construct_n b (Z.to_nat (bnumel X0)) | PNull => ret tt end)).
    { destruct p; [apply keeps_ret|]. destruct (c_tdc cfg); [apply keeps_ret|apply keeps_default_construct_n]. }
    specialize (K2 s1).
    match type of H with match ?m with _ => _ end = _ => destruct m as [[] s2|s2|e] end; try discriminate.
    unfold install in H. rewrite set_arr_eq in H. inv H. unfold alloc_of, set_slot.
    rewrite get_slot_set_same by (rewrite K2, K; auto). reflexivity.
  - open_ctor0 H. eapply build_install_alloc; eauto.
  - open_ctor0 H. eapply build_install_alloc; eauto.
  - open_ctor0 H. open_get H. eapply build_install_alloc; eauto.
  - open_ctor0 H. open_get H. eapply build_install_alloc; eauto.
  - open_ctor0 H. apply bind_keeps_inv in H; [|apply keeps_ref_cell]. destruct H as (c & s1 & K & H).
    eapply build_install_alloc; [rewrite K; eauto|eauto].
  - open_ctor0 H. apply bind_keeps_inv in H; [|apply keeps_ref_cell]. destruct H as (c & s1 & K & H).
    eapply build_install_alloc; [rewrite K; eauto|eauto].
  - open_ctor0 H. eapply build_install_alloc; eauto.
Qed.

(* copy construction: select_on_container_copy_construction; the source object is left alone *)
Theorem ctor_copy_allocator0 r t s s' at_ :
  get_slot s t = Some at_ -> step0 cfg (ZCtorCopy r t) s = Ok tt s' ->
  alloc_of s' r = Some (socc cfg (a_alloc at_)) /\ (r <> t -> get_slot s' t = Some at_).
Proof.
  intros Ht H. open_ctor0 H. open_get H. assert (a = at_) by congruence. subst.
  split; [eapply build_install_alloc; eauto|]. intros Hne.
  apply build_install_arrs in H. destruct H as (p & HA). rewrite (get_slot_upd_other s' s r t _ HA Hne). exact Ht.
Qed.

(* move construction: the new object is built under the SOURCE's allocator, and the source keeps its allocator and its block
   (its element is moved from: C04_rank0_move_ctor_transfers) *)
Theorem ctor_move_allocator0 r t s s' at_ :
  get_slot s t = Some at_ -> step0 cfg (ZCtorMove r t) s = Ok tt s' ->
  alloc_of s' r = Some (a_alloc at_) /\ (r <> t -> get_slot s' t = Some at_).
Proof.
  intros Ht H. open_ctor0 H. open_get H. assert (a = at_) by congruence. subst.
  split; [eapply build_install_alloc; eauto|]. intros Hne.
  apply build_install_arrs in H. destruct H as (p & HA). rewrite (get_slot_upd_other s' s r t _ HA Hne). exact Ht.
Qed.

(* ---- assignment ---- *)
(* the target is re-housed exactly when the trait propagates and the two allocators are unequal *)
Definition rehoused (prop : bool) (ar at_ : arr) : bool := prop && negb (alloc_eq cfg (a_alloc ar) (a_alloc at_)).

Lemma assign0_arrs prop mk tmp r t s s' ar at_ :
  nth_error (s_arrs s) r = Some (Some ar) -> nth_error (s_arrs s) t = Some (Some at_) ->
  nth_error (s_arrs s) tmp = Some None -> tmp <> r ->
  assign0 cfg prop mk tmp r t s = Ok tt s' ->
  exists ar', s_arrs s' = upd_nth (s_arrs s) r (Some ar') /\
              a_alloc ar' = (if prop then a_alloc at_ else a_alloc ar) /\ a_exts ar' = a_exts ar /\ a_first ar' = a_first ar /\
              (rehoused prop ar at_ = false -> a_base ar' = a_base ar).
Proof.
  intros Hr Ht Htmp Htr H. unfold assign0 in H. open_get H. open_get H.
  assert (a = ar) by (rewrite (nth_get_slot _ _ _ Hr) in Hg; congruence).
  assert (a0 = at_) by (rewrite (nth_get_slot _ _ _ Ht) in Hg0; congruence). subst a a0. clear Hg Hg0.
  unfold rehoused. destruct prop.
  2:{ exists ar. rewrite (keeps_ok _ _ _ _ (keeps_assign_all cfg ar _) H). rewrite (upd_nth_id _ r (Some ar) Hr). auto. }
  destruct (alloc_eq cfg (a_alloc ar) (a_alloc at_)) eqn:Eal.
  - unfold bind at 1 in H. destruct (p_set_alloc r (a_alloc at_) s) as [[] s1|?|?] eqn:E1; try discriminate.
    apply p_set_alloc_inv in E1. destruct E1 as (ar0 & G0 & HA1 & _).
    assert (ar0 = ar) by (rewrite (nth_get_slot _ _ _ Hr) in G0; congruence). subst ar0.
    exists (mkarr (a_alloc at_) (a_base ar) (a_exts ar) (a_first ar)).
    rewrite (keeps_ok _ _ _ _ (keeps_assign_all cfg ar _) H), HA1. cbn. auto.
  - apply bind_keeps_inv in H; [|apply keeps_p_build]. destruct H as (p & s0 & K0 & H).
    unfold bind at 1 in H. unfold install at 1 in H. rewrite set_arr_eq in H.
    set (tarr := with_bx (a_alloc at_) p X0) in *.
    set (s1 := set_slot s0 tmp (Some tarr)) in *.
    assert (HA1 : s_arrs s1 = upd_nth (s_arrs s) tmp (Some tarr)) by (unfold s1; cbn; rewrite K0; reflexivity).
    assert (Ltmp : (tmp < length (s_arrs s))%nat) by (apply nth_error_Some; congruence).
    assert (H1r : nth_error (s_arrs s1) r = Some (Some ar)) by (rewrite HA1, nth_upd_other; auto).
    assert (H1m : nth_error (s_arrs s1) tmp = Some (Some tarr)) by (rewrite HA1; apply nth_upd_same; auto).
    unfold bind at 1 in H. destruct (swap_store r tmp s1) as [[] s2|?|?] eqn:E3; try discriminate.
    destruct (swap_store_inv r tmp s1 s2 ar tarr H1r H1m E3) as [HA2 _].
    apply p_dtor_inv in H. destruct H as (a' & _ & HA3 & _).
    exists (mkarr (a_alloc tarr) (a_base tarr) (a_exts ar) (a_first ar)).
    split; [|cbn; split; [reflexivity|split; [reflexivity|split; [reflexivity|discriminate]]]].
    rewrite HA3, HA2, HA1. rewrite upd_nth_twice.
    rewrite (upd_nth_comm (upd_nth (s_arrs s) tmp (Some tarr)) r tmp) by auto. rewrite upd_nth_twice.
    rewrite (upd_nth_id (s_arrs s) tmp None Htmp). reflexivity.
Qed.

Lemma tmps_user r : (r < NP)%nat -> r <> TMP1 /\ r <> TMP2.
Proof. unfold NP, TMP1, TMP2. lia. Qed.

(* copy / move assignment: the allocator is replaced exactly when the trait says so; the SOURCE object keeps allocator and block;
   the target keeps its block unless it is re-housed, and is never given the source's block *)
Theorem assign_allocator0 (copy : bool) r t s s' ar at_ :
  Good cfg s -> live0 (s_arrs s) r ar -> live0 (s_arrs s) t at_ -> r <> t ->
  step0 cfg (if copy then ZAssignCopy r t else ZAssignMove r t) s = Ok tt s' ->
  let prop := if copy then c_pocca cfg else c_pocma cfg in
  alloc_of s' r = Some (if prop then a_alloc at_ else a_alloc ar) /\
  get_slot s' t = Some at_ /\
  (rehoused prop ar at_ = false -> base_of s' r = Some (a_base ar)) /\
  base_of s' r <> Some (a_base at_) /\
  (forall q, q <> r -> get_slot s' q = get_slot s q).
Proof.
  intros G [[Lr Nr] Zr] [[Lt Nt] Zt] Hne H prop.
  assert (G' : Good cfg s').
  { destruct copy; (eapply f_operation_keeps_invariant; [exact G| |exact H]); cbn [dom_op0];
      (split; [exists ar|exists at_]; repeat split; auto; apply Zr || apply Zt). }
  pose proof G as (I & W & (T1 & _ & _)). destruct (tmps_user r Lr) as [N1 _].
  assert (H' : assign0 cfg prop (if copy then SCell else SMoveCell) TMP1 r t s = Ok tt s').
  { destruct copy; cbn [step0] in H; destruct (Nat.eqb_spec r t); try contradiction; exact H. }
  destruct (assign0_arrs prop _ TMP1 r t s s' ar at_ Nr Nt T1 ltac:(auto) H') as (ar' & HA & Hal & He & Hf & Hb).
  assert (Lr' : (r < length (s_arrs s))%nat) by (apply nth_error_Some; congruence).
  assert (Gr : get_slot s' r = Some ar') by (eapply get_slot_upd_same; eauto).
  assert (Gt : get_slot s' t = Some at_) by (rewrite (get_slot_upd_other s' s r t _ HA Hne); apply nth_get_slot; exact Nt).
  split; [unfold alloc_of; rewrite Gr; cbn; congruence|]. split; [exact Gt|].
  split; [intros Hh; unfold base_of; rewrite Gr; cbn; f_equal; auto|].
  split; [|intros q Hq; eapply get_slot_upd_other; eauto].
  (* two array objects never hold the same block *)
  unfold base_of. rewrite Gr. cbn. intros Eb. inv Eb.
  assert (Z' : is0 ar') by (destruct Zr; split; congruence).
  destruct (f_one_cell cfg s' t at_ G' Gt Zt) as (b & _ & _ & Hbt & _).
  apply Hne. eapply (f_storage_disjoint cfg s' r t ar' at_ b G' Gr Gt Z' Zt); congruence.
Qed.

(* ---- swap ---- *)
(* a.swap(b) / swap(a, b): under propagate_on_container_swap allocator and block travel together; otherwise neither moves *)
Theorem swap_member_allocators0 r t s s' ar at_ :
  r <> t -> get_slot s r = Some ar -> get_slot s t = Some at_ -> step0 cfg (ZSwapMember r t) s = Ok tt s' ->
  alloc_of s' r = Some (if c_pocs cfg then a_alloc at_ else a_alloc ar) /\
  alloc_of s' t = Some (if c_pocs cfg then a_alloc ar else a_alloc at_) /\
  base_of s' r = Some (if c_pocs cfg then a_base at_ else a_base ar) /\
  base_of s' t = Some (if c_pocs cfg then a_base ar else a_base at_).
Proof.
  intros Hne Hr Ht H. cbn [step0] in H. open_get H. open_get H.
  assert (a = ar) by congruence. assert (a0 = at_) by congruence. subst. clear Hg Hg0.
  destruct (Nat.eqb_spec r t); [congruence|].
  pose proof (get_slot_lt _ _ _ Hr) as Lr. pose proof (get_slot_lt _ _ _ Ht) as Lt.
  destruct (c_pocs cfg).
  - destruct (swap_store_inv r t s s' ar at_ (get_slot_nth _ _ _ Hr) (get_slot_nth _ _ _ Ht) H) as [HA _].
    assert (Gt : get_slot s' t = Some (mkarr (a_alloc ar) (a_base ar) (a_exts at_) (a_first at_))).
    { eapply get_slot_upd_same; eauto. rewrite upd_nth_length. auto. }
    assert (Gr : get_slot s' r = Some (mkarr (a_alloc at_) (a_base at_) (a_exts ar) (a_first ar))).
    { unfold get_slot. rewrite HA, nth_upd_other by auto. rewrite nth_upd_same; auto. }
    unfold alloc_of, base_of. rewrite Gr, Gt. cbn. auto.
  - assert (K : s_arrs s' = s_arrs s).
    { eapply keeps_ok; [|exact H]. apply keeps_bind; [apply keeps_base_blk|]. intros b.
      apply keeps_bind; [apply keeps_base_blk|]. intros b'. apply keeps_swap_cells. }
    unfold alloc_of, base_of, get_slot in *. rewrite K. rewrite Hr, Ht. cbn. auto.
Qed.

(* qualified std::swap(a, b): T tmp(std::move(a)); a = std::move(b); b = std::move(tmp) -- the allocators follow
   propagate_on_container_move_assignment of the two move assignments *)
Theorem swap_std_allocators0 r t s s' ar at_ :
  Good cfg s -> live0 (s_arrs s) r ar -> live0 (s_arrs s) t at_ -> r <> t -> step0 cfg (ZSwap r t) s = Ok tt s' ->
  alloc_of s' r = Some (if c_pocma cfg then a_alloc at_ else a_alloc ar) /\
  alloc_of s' t = Some (if c_pocma cfg then a_alloc ar else a_alloc at_) /\
  (forall q, q <> r -> q <> t -> get_slot s' q = get_slot s q).
Proof.
  intros (I & W & (T1 & T2 & _)) [[Lr Nr] Zr] [[Lt Nt] Zt] Hne H.
  destruct (tmps_user r Lr) as [N1 N2]. destruct (tmps_user t Lt) as [M1 M2].
  cbn [step0] in H. open_get H. open_get H.
  assert (a = ar) by (rewrite (nth_get_slot _ _ _ Nr) in Hg; congruence).
  assert (a0 = at_) by (rewrite (nth_get_slot _ _ _ Nt) in Hg0; congruence). subst a a0. clear Hg Hg0.
  destruct (Nat.eqb_spec r t); [congruence|].
  apply bind_keeps_inv in H; [|apply keeps_p_build]. destruct H as (p & s0 & K0 & H).
  unfold bind at 1 in H. unfold install at 1 in H. rewrite set_arr_eq in H.
  set (tarr := with_bx (a_alloc ar) p X0) in *.
  set (s1 := set_slot s0 TMP1 (Some tarr)) in *.
  assert (HA1 : s_arrs s1 = upd_nth (s_arrs s) TMP1 (Some tarr)) by (unfold s1; cbn; rewrite K0; reflexivity).
  assert (L1 : (TMP1 < length (s_arrs s))%nat) by (apply nth_error_Some; congruence).
  assert (H1r : nth_error (s_arrs s1) r = Some (Some ar)) by (rewrite HA1, nth_upd_other; auto).
  assert (H1t : nth_error (s_arrs s1) t = Some (Some at_)) by (rewrite HA1, nth_upd_other; auto).
  assert (H1m : nth_error (s_arrs s1) TMP1 = Some (Some tarr)) by (rewrite HA1; apply nth_upd_same; auto).
  assert (H1f : nth_error (s_arrs s1) TMP2 = Some None).
  { rewrite HA1, nth_upd_other; [exact T2|unfold TMP1, TMP2; lia]. }
  unfold bind at 1 in H. destruct (assign0 cfg (c_pocma cfg) SMoveCell TMP2 r t s1) as [[] s2|?|?] eqn:E2; try discriminate.
  destruct (assign0_arrs _ _ TMP2 r t s1 s2 ar at_ H1r H1t H1f ltac:(auto) E2) as (ar' & HA2 & Hal2 & _).
  assert (Lr1 : (r < length (s_arrs s1))%nat) by (apply nth_error_Some; congruence).
  assert (H2t : nth_error (s_arrs s2) t = Some (Some at_)) by (rewrite HA2, nth_upd_other; auto).
  assert (H2m : nth_error (s_arrs s2) TMP1 = Some (Some tarr)) by (rewrite HA2, nth_upd_other; auto).
  assert (H2f : nth_error (s_arrs s2) TMP2 = Some None) by (rewrite HA2, nth_upd_other; auto).
  unfold bind at 1 in H. destruct (assign0 cfg (c_pocma cfg) SMoveCell TMP2 t TMP1 s2) as [[] s3|?|?] eqn:E3; try discriminate.
  destruct (assign0_arrs _ _ TMP2 t TMP1 s2 s3 at_ tarr H2t H2m H2f ltac:(auto) E3) as (at' & HA3 & Hal3 & _).
  apply p_dtor_inv in H. destruct H as (a' & _ & HA4 & _).
  assert (HA : s_arrs s' = upd_nth (upd_nth (s_arrs s) r (Some ar')) t (Some at')).
  { rewrite HA4, HA3, HA2, HA1.
    rewrite (upd_nth_comm _ t TMP1) by auto. rewrite (upd_nth_comm _ r TMP1) by auto. rewrite upd_nth_twice.
    rewrite (upd_nth_id (s_arrs s) TMP1 None T1). reflexivity. }
  assert (Lr' : (r < length (s_arrs s))%nat) by (apply nth_error_Some; congruence).
  assert (Lt' : (t < length (s_arrs s))%nat) by (apply nth_error_Some; congruence).
  unfold alloc_of, get_slot. rewrite HA. split; [|split].
  - rewrite nth_upd_other by auto. rewrite nth_upd_same by auto. cbn. congruence.
  - rewrite nth_upd_same by (rewrite upd_nth_length; auto). cbn. rewrite Hal3. reflexivity.
  - intros q Hq Hq'. rewrite !nth_upd_other by auto. reflexivity.
Qed.

(* ---- everything else leaves the array objects (allocator and block of each) alone ---- *)
Theorem elementwise_keeps_objects0 o s s' : elementwise o -> step0 cfg o s = Ok tt s' -> s_arrs s' = s_arrs s.
Proof.
  intros E H. eapply keeps_ok; [|exact H]. clear H.
  destruct o; try contradiction; cbn [step0];
    repeat first
      [ apply keeps_get_arr | apply keeps_ref_cell | apply keeps_swap_cells | apply keeps_base_blk | apply keeps_assign_all
      | apply keeps_assign_loop | apply keeps_assign1 | apply keeps_tick_elem | apply keeps_read1 | apply keeps_mark_moved
      | apply keeps_fail
      | match goal with |- keeps (if ?c then _ else _) => destruct c end
      | apply keeps_bind; [|intros ?] ].
Qed.

(* destruction releases the object's block through the object's allocator (an unequal one is Err EWrongAlloc: excluded by
   rank0_safe) and removes the object *)
Theorem destroy_removes0 r s s' : step0 cfg (ZDestroy r) s = Ok tt s' -> get_slot s' r = None /\ forall q, q <> r -> get_slot s' q = get_slot s q.
Proof.
  intros H. cbn [step0] in H. apply p_dtor_inv in H. destruct H as (a & G & HA & _).
  pose proof (get_slot_lt _ _ _ G) as L. split.
  - eapply get_slot_upd_same; eauto.
  - intros q Hq. eapply get_slot_upd_other; eauto.
Qed.

Lemma rehoused_false prop ar at_ : (prop = false \/ alloc_eq cfg (a_alloc ar) (a_alloc at_) = true) -> rehoused prop ar at_ = false.
Proof. unfold rehoused. intros [-> | ->]; [reflexivity|]. cbn. apply andb_false_r. Qed.

Theorem copy_assign_allocator0 r t s s' ar at_ :
  Good cfg s -> live0 (s_arrs s) r ar -> live0 (s_arrs s) t at_ -> r <> t -> step0 cfg (ZAssignCopy r t) s = Ok tt s' ->
  alloc_of s' r = Some (if c_pocca cfg then a_alloc at_ else a_alloc ar) /\
  get_slot s' t = Some at_ /\
  (c_pocca cfg = false \/ alloc_eq cfg (a_alloc ar) (a_alloc at_) = true -> base_of s' r = Some (a_base ar)) /\
  base_of s' r <> Some (a_base at_) /\
  (forall q, q <> r -> get_slot s' q = get_slot s q).
Proof.
  intros G Dr Dt Hne H. destruct (assign_allocator0 true r t s s' ar at_ G Dr Dt Hne H) as (A & B & C & D & E).
  split; [exact A|]. split; [exact B|]. split; [intros Hh; apply C, rehoused_false, Hh|]. split; [exact D|exact E].
Qed.

Theorem move_assign_allocator0 r t s s' ar at_ :
  Good cfg s -> live0 (s_arrs s) r ar -> live0 (s_arrs s) t at_ -> r <> t -> step0 cfg (ZAssignMove r t) s = Ok tt s' ->
  alloc_of s' r = Some (if c_pocma cfg then a_alloc at_ else a_alloc ar) /\
  get_slot s' t = Some at_ /\
  (c_pocma cfg = false \/ alloc_eq cfg (a_alloc ar) (a_alloc at_) = true -> base_of s' r = Some (a_base ar)) /\
  base_of s' r <> Some (a_base at_) /\
  (forall q, q <> r -> get_slot s' q = get_slot s q).
Proof.
  intros G Dr Dt Hne H. destruct (assign_allocator0 false r t s s' ar at_ G Dr Dt Hne H) as (A & B & C & D & E).
  split; [exact A|]. split; [exact B|]. split; [intros Hh; apply C, rehoused_false, Hh|]. split; [exact D|exact E].
Qed.

(* after every fault-free history: each rank-0 array object sits on a live block produced by an allocator equal to the one
   get_allocator() reports *)
Theorem history_block_owner0 (h : list lop0) : hist_dom0 cfg h (st0 None) ->
  forall r a, get_slot (snd (run_rank0 cfg h (st0 None))) r = Some a -> is0 a ->
    exists b blk, a_base a = PBlk b /\ get_blk (snd (run_rank0 cfg h (st0 None))) b = Some blk /\ b_live blk = true /\
                  alloc_eq cfg (b_owner blk) (a_alloc a) = true.
Proof.
  intros D r a Hg Z0. pose proof (f_history_invariant cfg h D) as Hh.
  destruct (run_rank0 cfg h (st0 None)) as [outs s'] eqn:E. cbn [snd] in *. destruct Hh as [G _].
  destruct (f_one_cell cfg s' r a G Hg Z0) as (b & blk & c & Hb & Hk & Hl & _ & _ & _ & Ho).
  exists b, blk. auto.
Qed.

End R0Alloc.

(* The reference interpreter over values says what the property says about reextent: an element whose index tuple lies in
   both the old and the new extensions keeps its value, every other element is the fill / default value.  (Pure list
   reasoning about Model/Life.v's reext_vals, all_idx, rowmajor; any rank, any extensions, index bases.) *)
From BM Require Import Base.Tactics Model.Life Proofs.LifeBase.
Local Open Scope Z_scope.

Lemma flat_map_const_length {B} (g : nat -> list B) (L : nat) : (forall i, length (g i) = L) ->
  forall k st, length (flat_map g (seq st k)) = (k * L)%nat.
Proof. intros HL. induction k as [|k IH]; intros st; cbn; auto. rewrite app_length, HL, IH. reflexivity. Qed.

Lemma all_idx_length x : length (all_idx x) = fold_right (fun p acc => (Z.to_nat (snd p) * acc)%nat) 1%nat x.
Proof.
  induction x as [|[f n] x IH]; cbn [all_idx fold_right snd]; auto.
  unfold seqn. rewrite (flat_map_const_length _ (length (all_idx x))).
  - rewrite IH. reflexivity.
  - intros i. apply map_length.
Qed.

Lemma in_bx_numel x : forall idx, in_bx x idx = true -> Z.of_nat (length (all_idx x)) = bnumel x /\ 0 < bnumel x.
Proof.
  induction x as [|[f n] x IH]; intros idx H.
  - cbn. split; reflexivity.
  - destruct idx as [|i idx]; [discriminate|]. cbn [in_bx] in H. bprop.
    destruct (IH idx H0) as [E P]. rewrite all_idx_length in *. cbn [fold_right snd].
    change (bnumel ((f, n) :: x)) with (n * bnumel x). rewrite Nat2Z.inj_mul, E, Z2Nat.id by lia. split; nia.
Qed.

Lemma nth_flat_map_const {A B} (g : A -> list B) L : forall (l : list A) k j a,
  (forall a', In a' l -> length (g a') = L) -> nth_error l k = Some a -> (j < L)%nat ->
  nth_error (flat_map g l) (k * L + j) = nth_error (g a) j.
Proof.
  induction l as [|a0 l IH]; intros k j a HL Hk Hj; [destruct k; discriminate|].
  destruct k as [|k]; cbn in Hk |- *.
  - inv Hk. rewrite nth_error_app1; auto. rewrite (HL a (or_introl eq_refl)). exact Hj.
  - rewrite nth_error_app2 by (rewrite (HL a0 (or_introl eq_refl)); lia).
    rewrite (HL a0 (or_introl eq_refl)). replace (L + k * L + j - L)%nat with (k * L + j)%nat by lia.
    apply IH; auto. intros a' Ha'. apply HL. right; auto.
Qed.

(* the rowmajor position of an index tuple inside its extensions designates that tuple in the canonical enumeration *)
Lemma nth_all_idx x : forall idx, in_bx x idx = true ->
  0 <= rowmajor x idx < bnumel x /\ nth_error (all_idx x) (Z.to_nat (rowmajor x idx)) = Some idx.
Proof.
  induction x as [|[f n] x IH]; intros idx H.
  - destruct idx; [|discriminate]. cbn. split; [lia|reflexivity].
  - destruct idx as [|i idx]; [discriminate|]. cbn [in_bx] in H. bprop.
    destruct (IH idx H0) as [[R0 R1] Hn]. destruct (in_bx_numel x idx H0) as [EL PL].
    cbn [rowmajor]. change (bnumel ((f, n) :: x)) with (n * bnumel x). split; [nia|].
    cbn [all_idx].
    set (L := length (all_idx x)) in *.
    assert (HL : Z.of_nat L = bnumel x) by exact EL.
    replace (Z.to_nat ((i - f) * bnumel x + rowmajor x idx)) with (Z.to_nat (i - f) * L + Z.to_nat (rowmajor x idx))%nat by nia.
    rewrite (nth_flat_map_const (fun k => map (cons (f + Z.of_nat k)) (all_idx x)) L (seqn (Z.to_nat n)) (Z.to_nat (i - f)) _ (Z.to_nat (i - f))).
    + rewrite nth_error_map, Hn. cbn. f_equal. f_equal. lia.
    + intros a' _. rewrite map_length. reflexivity.
    + unfold seqn. rewrite nth_error_nth' with (d := 0%nat) by (rewrite seq_length; lia). rewrite seq_nth by lia. reflexivity.
    + lia.
Qed.

(* C06, on the reference interpreter: reextent keeps exactly the common part *)
Theorem reext_vals_spec oldx oldv newx dflt idx :
  in_bx newx idx = true ->
  nth (Z.to_nat (rowmajor newx idx)) (reext_vals oldx oldv newx dflt) dflt =
  if in_bx oldx idx then nth (Z.to_nat (rowmajor oldx idx)) oldv dflt else dflt.
Proof.
  intros H. destruct (nth_all_idx newx idx H) as [_ Hn]. unfold reext_vals.
  apply nth_error_nth. rewrite nth_error_map, Hn. reflexivity.
Qed.

Theorem reext_vals_length oldx oldv newx dflt idx :
  in_bx newx idx = true -> Z.of_nat (length (reext_vals oldx oldv newx dflt)) = bnumel newx.
Proof. intros H. unfold reext_vals. rewrite map_length. apply (in_bx_numel newx idx H). Qed.

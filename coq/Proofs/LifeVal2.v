(* Values: the abstraction of a machine state, normal forms of extensions, and what the building blocks of the array.hpp
   entry points (alloc, p_build, release, clear, destructor, adopt, assign_all) do to it.  Inversion style. *)
From BM Require Import Base.Tactics Model.Life Proofs.LifeBase Proofs.LifeMonad Proofs.LifeInv Proofs.LifeCells
  Proofs.LifeSteps Proofs.LifeCombi Proofs.LifeOps Proofs.LifeDisc Proofs.LifeFacts Proofs.LifeAlloc Proofs.LifeVal1.
Local Open Scope Z_scope.

(* ---- the abstraction, through bvals / blive ---- *)
Definition avals (s : state) (a : arr) : list Z :=
  if nel a <=? 0 then [] else match a_base a with PBlk b => if blive s b then bvals s b else [] | PNull => [] end.

Lemma abs_arr_alt s a : abs_arr s a = (arr_bx a, avals s a).
Proof.
  unfold abs_arr, avals, arr_block, blive, bvals. destruct (nel a <=? 0); auto. destruct (a_base a) as [|b]; auto.
  destruct (nth_error (s_blocks s) b) as [blk|]; auto. destruct (b_live blk); auto.
Qed.

Lemma abs_nth s q : nth_error (abs_state s) q = option_map (option_map (abs_arr s)) (nth_error (s_arrs s) q).
Proof. unfold abs_state. apply nth_error_map. Qed.

Lemma abs_state_length s : length (abs_state s) = length (s_arrs s).
Proof. unfold abs_state. apply map_length. Qed.

Lemma list_ext {A} (l l' : list A) : length l = length l' -> (forall q, nth_error l q = nth_error l' q) -> l = l'.
Proof.
  revert l'; induction l as [|a l IH]; intros [|a' l'] Hl H; cbn in *; try discriminate; auto.
  pose proof (H 0%nat) as H0. cbn in H0. inv H0. f_equal. apply IH; [lia|]. intros q. exact (H (S q)).
Qed.

(* avals of an array only depends on its own block *)
Lemma avals_frame s s' a :
  (0 < nel a -> forall b, a_base a = PBlk b -> bvals s' b = bvals s b /\ blive s' b = blive s b) -> avals s' a = avals s a.
Proof.
  intros H. unfold avals. destruct (Z.leb_spec (nel a) 0); auto. destruct (a_base a) as [|b]; auto.
  destruct (H ltac:(lia) b eq_refl) as [-> ->]. reflexivity.
Qed.

(* ---- normal form of extensions ---- *)
Lemma collapse_idem x : collapse (collapse x) = collapse x.
Proof.
  induction x as [|n r IH]; cbn; auto. rewrite IH.
  change (fold_right Z.mul 1 (collapse r)) with (numel (collapse r)). rewrite numel_collapse.
  change (fold_right Z.mul 1 r) with (numel r). destruct (numel r =? 0); auto.
Qed.

Lemma combine_fst_snd {A B} (l : list A) (l' : list B) : length l = length l' -> map fst (combine l l') = l /\ map snd (combine l l') = l'.
Proof. revert l'; induction l; intros [|b l'] H; cbn in *; try discriminate; auto. destruct (IHl l' ltac:(lia)) as [-> ->]. auto. Qed.

Lemma mk_lengths x : length (mk_firsts x) = length x /\ length (mk_sizes x) = length x.
Proof.
  unfold mk_firsts, mk_sizes, bx_firsts, bx_sizes. rewrite map_length, combine_length, collapse_length, !map_length. lia.
Qed.

Lemma norm_bx_idem x : norm_bx (norm_bx x) = norm_bx x.
Proof.
  destruct (mk_lengths x) as [Lf Ls].
  destruct (combine_fst_snd (mk_firsts x) (mk_sizes x) ltac:(lia)) as [Ef Es].
  assert (Hs : mk_sizes (norm_bx x) = mk_sizes x).
  { unfold mk_sizes at 1. unfold bx_sizes, norm_bx. rewrite Es. unfold mk_sizes. apply collapse_idem. }
  unfold norm_bx at 1. rewrite Hs. f_equal.
  unfold mk_firsts at 1. rewrite Hs. unfold bx_firsts, norm_bx. rewrite Ef.
  unfold mk_firsts. generalize (mk_sizes x) (bx_firsts x). intros sz. induction sz as [|n sz IH]; intros [|f fs]; cbn; auto.
  rewrite IH. destruct (n =? 0) eqn:E; cbn; rewrite ?E; auto.
Qed.

Lemma zeros_combine d : combine (zeros d) (zeros d) = zb (zeros d).
Proof. unfold zeros, zb. induction d; cbn; auto. rewrite IHd. auto. Qed.

Lemma arr_bx_empty cfg al p : arr_bx (empty_arr cfg al p) = zb (zeros (c_rank cfg)).
Proof. unfold arr_bx, empty_arr; cbn. apply zeros_combine. Qed.

Lemma arr_bx_with al p x : arr_bx (with_bx al p x) = norm_bx x.
Proof. reflexivity. Qed.

(* a normal form: empty dimensions start at 0 *)
Definition normal (x : bx) : Prop := norm_bx x = x.

Lemma normal_dims x : normal x -> Forall (fun p => snd p = 0 -> fst p = 0) x.
Proof.
  unfold normal, norm_bx. intros H.
  destruct (mk_lengths x) as [Lf Ls].
  assert (Ef : mk_firsts x = bx_firsts x /\ mk_sizes x = bx_sizes x).
  { destruct (combine_fst_snd (mk_firsts x) (mk_sizes x) ltac:(lia)) as [Ef Es].
    rewrite H in Ef, Es. unfold bx_firsts, bx_sizes. auto. }
  destruct Ef as [Ef Es]. unfold mk_firsts in Ef. rewrite Es in Ef. unfold bx_firsts, bx_sizes in Ef.
  clear - Ef. induction x as [|[f n] x IH]; constructor; cbn in *; inv Ef; auto.
  intros ->. cbn in H0. auto.
Qed.

Lemma bx_eq_eq : forall a b, Forall (fun p => snd p = 0 -> fst p = 0) a -> Forall (fun p => snd p = 0 -> fst p = 0) b ->
  bx_eq a b = true -> a = b.
Proof.
  induction a as [|[fa sa] a IH]; intros [|[fb sb] b] Ha Hb H; cbn in H; try discriminate; auto.
  apply Forall_cons_iff in Ha. destruct Ha as [Za Ha]. apply Forall_cons_iff in Hb. destruct Hb as [Zb Hb].
  apply andb_prop in H. destruct H as [K1 K2]. f_equal; [|apply IH; auto].
  apply orb_prop in K1. destruct K1 as [K1|K1]; apply andb_prop in K1; destruct K1 as [E1 E2]; bprop; cbn in *.
  - subst. rewrite Za, Zb; auto.
  - subst. auto.
Qed.

Lemma bx_eq_numel : forall a b, bx_eq a b = true -> bnumel a = bnumel b.
Proof.
  induction a as [|[fa sa] a IH]; intros [|[fb sb] b] H; cbn in H; try discriminate; auto.
  apply andb_prop in H. destruct H as [H1 H2]. specialize (IH b H2).
  change (bnumel ((fa, sa) :: a)) with (sa * bnumel a). change (bnumel ((fb, sb) :: b)) with (sb * bnumel b).
  apply orb_prop in H1. destruct H1 as [H1|H1]; apply andb_prop in H1; destruct H1 as [E1 E2]; bprop; subst; lia.
Qed.

Lemma bnumel_norm_bx x : bnumel (norm_bx x) = bnumel x.
Proof.
  unfold bnumel, norm_bx. destruct (mk_lengths x) as [Lf Ls].
  destruct (combine_fst_snd (mk_firsts x) (mk_sizes x) ltac:(lia)) as [_ Es]. unfold bx_sizes at 1. rewrite Es.
  unfold mk_sizes. apply numel_collapse.
Qed.

(* C13 -- gemv: the criterion is sound (all sizes, strides and increments), every call site of gemv_n satisfies it
   under its named condition (a non-empty inner dimension), and the condition is needed (refutations). *)
From BM Require Import Base.Tactics Model.BlasC13 Model.BlasC13Ref Model.BlasC13Crit Model.BlasC13Spec Proofs.BlasC13RefProofs Proofs.BlasC13Tac.
Local Open Scope Z_scope.
Local Open Scope bool_scope.

Section Carrier.
  Variable R : Type.
  Variable rzero : R.
  Variables radd rmul : R -> R -> R.
  Variable cj : R -> R.

  Theorem gemv_criterion_sound (alpha beta : R) (m : mat) (x y : vec) (k : gemv_call) (mem : Z -> R) :
    gemv_shapes m x y ->
    gemv_implements_b k m x y = true ->
    gemv_correct_at R rzero radd rmul cj alpha beta m x y k mem.
  Proof.
    intros (Sx & Sy) H. unfold gemv_implements_b in H.
    remember (gemv_legal k) as L eqn:EL.
    repeat (apply andb_prop in H; let H' := fresh "H" in destruct H as [H H']).
    subst L. rename H into Hlegal.
    repeat match goal with
           | X : (_ <? _) = true |- _ => apply Z.ltb_lt in X
           | X : (_ =? _) = true |- _ => apply Z.eqb_eq in X
           end.
    assert (Hl := Hlegal). unfold gemv_legal in Hl.
    repeat (progress rewrite ?andb_true_iff, ?orb_true_iff, ?negb_true_iff, ?Z.leb_le, ?Z.ltb_lt, ?Z.eqb_eq, ?Z.eqb_neq in * ).
    assert (Hm0 : 0 <= v_m k) by lia. assert (Hn0 : 0 <= v_n k) by lia.
    unfold gemv_correct_at. split; [assumption|]. split.
    - intros i Hi.
      assert (Hc : 0 < cols m) by lia.
      assert (Hy : v_py k = vbase y /\ (rows m <= 1 \/ v_incy k = inc y) /\ vconj y = false) by (clear - H0 Hi; intuition lia).
      assert (Hx : v_px k = vbase x /\ (cols m <= 1 \/ v_incx k = inc x) /\ vconj x = false) by (clear - H1 Hi Hc; intuition lia).
      destruct Hy as (Hy1 & Hy2 & Hy3). destruct Hx as (Hx1 & Hx2 & Hx3).
      assert (Ey : vaddr y i = v_py k + i * v_incy k).
      { unfold vaddr. rewrite Hy1. destruct Hy2 as [Hy2|Hy2]; [assert (i = 0) by lia; subst i; lia | rewrite Hy2; reflexivity]. }
      rewrite Ey.
      assert (Hmn : v_m k <> 0 /\ v_n k <> 0).
      { unfold gemv_ylen, gemv_xlen in *. destruct (is_n (v_ta k)); lia. }
      rewrite (gemv_ref_at R rzero radd rmul cj) by lia.
      unfold BlasC13Ref.gemv_cell, BlasC13Ref.gemv_math. f_equal.
      + f_equal.
        match goal with E : gemv_xlen k = cols m |- _ => rewrite E end.
        apply (zsum_ext R rzero radd rmul cj). intros l Hl'.
        match goal with O : op_is _ _ _ _ _ _ = true |- _ => rewrite (op_is_spec R rzero radd rmul cj _ _ _ _ _ _ O) by lia end.
        f_equal. unfold BlasC13Ref.vval, vaddr. rewrite Hx3. cbn [cjif]. f_equal. rewrite Hx1.
        destruct Hx2 as [Hx2|Hx2]; [assert (l = 0) by lia; subst l; lia | rewrite Hx2; reflexivity].
      + f_equal. unfold BlasC13Ref.vval. rewrite Hy3. cbn [cjif]. rewrite Ey. reflexivity.
    - intros p Hp. apply (gemv_ref_other R rzero radd rmul cj); [lia|].
      intros i Hi E. apply Hp.
      assert (Hr : 0 < rows m) by lia.
      assert (Hy : v_py k = vbase y /\ (rows m <= 1 \/ v_incy k = inc y)) by (clear - H0 Hr; intuition lia).
      destruct Hy as (Hy1 & Hy2).
      exists i. split; [lia|]. unfold vaddr. rewrite E, Hy1.
      destruct Hy2 as [Hy2|Hy2]; [assert (i = 0) by lia; subst i; lia | rewrite Hy2; reflexivity].
  Qed.
End Carrier.

Theorem gemv_site_conditions (m : mat) (x y : vec) (k : gemv_call) :
  wf_mat m -> wf_vec x -> wf_vec y -> gemv_shapes m x y -> vconj x = false -> vconj y = false ->
  gemv_n m x y = VCall k ->
  gemv_site_cond k m = true ->
  gemv_implements_b k m x y = true.
Proof.
  unfold wf_mat, wf_vec, gemv_shapes. intros Wm Wx Wy S Cx Cy D C.
  destruct m as [pm m0 m1 rm cm jm], x as [px ix lx jx], y as [py iy ly jy].
  cbn [mconj rows cols s0 s1 mbase vbase inc len vconj] in *. subst jx jy.
  unfold gemv_n in D. cbn [mconj rows cols s0 s1 mbase vbase inc len] in D.
  destruct jm; cbn [negb] in D.
  all: repeat match type of D with
         | (if ?c then _ else _) = _ => let E := fresh "E" in destruct c eqn:E
         end; try discriminate D.
  all: injection D as D; subst k.
  all: unfold gemv_site_cond in C; cbn [v_site rows cols s0 s1] in C; cbn [Z.eqb Pos.eqb orb] in C.
  all: unfold gemv_implements_b, gemv_legal, gemv_ylen, gemv_xlen, op_is, agree;
       cbn [v_site v_ta v_m v_n v_pa v_lda v_px v_incx v_py v_incy mconj rows cols s0 s1 mbase vbase inc len vconj is_n opconj Bool.eqb negb].
  all: repeat match goal with H : _ = true |- _ => c13_hprop H | H : _ = false |- _ => c13_hprop H end.
  all: solve [c13_bgoal].
Qed.

(* ------------------------------------------------------------------------------------------ *)
(* refutations over the carrier Z, memory mem p = p, alpha = 1, beta = 0                        *)
(* ------------------------------------------------------------------------------------------ *)
Definition zid (x : Z) : Z := x.

(* DESIGN 7 item 13 (contiguous n x 1 matrix, lda = 1 < n) is FIXED by 909e657: gemv_site_conditions no longer has a
   condition on the strides.  What remains at all three sites: an empty inner dimension.  y = 1 * M(2 x 0) . x(0) + 0 * y
   must be 0; xGEMV returns at once (m = 0 or n = 0) and leaves y as it was. *)
Ltac refute_gemv m k :=
  let H := fresh "H" in
  intro H;
  specialize (H Z 0 Z.add Z.mul zid 1 0 m (mk_vec 2000000 1 0 false) (mk_vec 3000000 1 2 false) k zid);
  let Rr := fresh "Rr" in
  destruct H as (_ & Rr & _); try reflexivity;
  [ apply wf_matb_spec; reflexivity | split; cbn; lia | split; cbn; lia | split; reflexivity
  | specialize (Rr 0 ltac:(cbn; lia)); vm_compute in Rr; discriminate Rr ].

Theorem gemv_site_501_refuted : ~ gemv_site_full 501.
Proof. refute_gemv (mk_mat 1000000 1 4 2 0 false) (mk_gemv_call 501 TN 2 0 1000000 4 2000000 1 3000000 1). Qed.

Theorem gemv_site_502_refuted : ~ gemv_site_full 502.
Proof. refute_gemv (mk_mat 1000000 4 1 2 0 false) (mk_gemv_call 502 TT 0 2 1000000 4 2000000 1 3000000 1). Qed.

Theorem gemv_site_503_refuted : ~ gemv_site_full 503.
Proof. refute_gemv (mk_mat 1000000 4 1 2 0 true) (mk_gemv_call 503 TC 0 2 1000000 4 2000000 1 3000000 1). Qed.

Theorem gemv_full_refuted : ~ C13_gemv_full.
Proof. intro H. exact (gemv_site_501_refuted (H 501)). Qed.

(* C12, part 6 (follow-up 3): member_cast, reinterpret_array_cast<U>() and reinterpret_array_cast<U>(n) on views with
   ANY index bases (negative, zero, positive), through the repaired layout_t::scale (ProjectC12Based.l_scale_b).
   lay_okg l fn: dimension k has snd fn_k valid indices starting at fst fn_k (IterProofs.dim_okg); lok l: such fn
   exists (RebaseProofs); every view reachable from a root over arbitrary extensions satisfies lok (rebase_run). *)
From BM Require Import Base.Tactics Model.Layout Model.View Model.Spec Model.Iter Model.Rebase Model.Asserts
  Model.ProjectC12Based Model.ProjectC12 Model.ProjectC12Walk
  Proofs.LayoutProofs Proofs.ViewProofs Proofs.ViewProofs2 Proofs.IterProofs Proofs.ElemProofs Proofs.C01Main
  Proofs.RebaseProofs Proofs.ProjectC12Scale Proofs.ProjectC12Main Proofs.ProjectC12ConvertBased Proofs.ProjectC12Walk.
Local Open Scope Z_scope.

(* ---- extensions are determined by (first index, count) ---- *)
Lemma lay_okg_extensions l fn : lay_okg l fn -> l_extensions l = map (fun p => ext_of (fst p) (snd p)) fn.
Proof.
  induction 1 as [|d p l fn Hd _ IH]; [reflexivity|]. cbn [l_extensions map].
  rewrite (dim_okg_extension _ _ _ Hd). f_equal. exact IH.
Qed.
Lemma lay_okg_same_extensions l l' fn : lay_okg l fn -> lay_okg l' fn -> l_extensions l' = l_extensions l.
Proof. intros H H'. rewrite (lay_okg_extensions _ _ H), (lay_okg_extensions _ _ H'). reflexivity. Qed.
Lemma lay_okg_same_sizes l l' fn : lay_okg l fn -> lay_okg l' fn -> l_sizes l' = l_sizes l.
Proof. intros H H'. rewrite (okg_sizes _ _ H), (okg_sizes _ _ H'). reflexivity. Qed.
Lemma lay_okg_length l fn : lay_okg l fn -> length l = length fn.
Proof. induction 1; cbn; congruence. Qed.
Lemma lay_okg_lok l fn : lay_okg l fn -> lok l.
Proof. induction 1 as [|d p l fn Hd _ IH]; constructor; [exists (fst p), (snd p); exact Hd|exact IH]. Qed.
Lemma lay_okg_app l1 l2 f1 f2 : lay_okg l1 f1 -> lay_okg l2 f2 -> lay_okg (l1 ++ l2) (f1 ++ f2).
Proof. apply Forall2_app. Qed.

Lemma dim_okg_unit n : 0 <= n -> dim_okg (mkdim 1 0 n) 0 n.
Proof. intros H. unfold dim_okg; cbn. repeat split; lia. Qed.
Lemma d_extension_unit n : d_extension (mkdim 1 0 n) = (0, n).
Proof.
  unfold d_extension; cbn [d_nelems d_offset d_stride]. destruct (n =? 0) eqn:E.
  - apply Z.eqb_eq in E. subst. reflexivity.
  - rewrite Z.add_0_l, !Z.quot_1_r. reflexivity.
Qed.

(* ---- what the assertions of scale require; they hold on every well-formed layout once the strides divide ---- *)
Theorem C12_scale_assertions_proved :
     (* the two assertions, level by level *)
     (forall num den l, dom_scale_b num den l = true <->
        Forall (fun d => Z.rem (d_stride d * num) den = 0 /\ Z.rem (d_offset d * num) den = 0) l)
     (* on a well-formed layout (any index bases) the offset assertion follows from the stride assertion *)
  /\ (forall num den l, lok l -> dom_scale num den l = true -> dom_scale_b num den l = true)
     (* sizeof(T) a multiple of sizeof(U): both hold, whatever the strides and index bases *)
  /\ (forall szT szU l, lok l -> szU <> 0 -> Z.rem szT szU = 0 -> dom_scale_b szT szU l = true)
     (* the scaled layout is C20's l_scale_fixed and, on zero offsets, the layout of the code before 1b46e17 *)
  /\ (forall num den l, l_scale_b num den l = l_scale_fixed num den l /\ dom_scale_b num den l = asrt_scale_plain num den l)
  /\ (forall num den l, dom_scale_off l = true -> l_scale_b num den l = l_scale num den l)
  /\ (forall num den l sz, lay_ok l sz -> l_scale_b num den l = l_scale num den l).
Proof.
  split; [|split; [|split; [|split; [|split]]]].
  - intros num den l. unfold dom_scale_b. rewrite forallb_forall, Forall_forall. split; intros H d Hd; specialize (H d Hd).
    + bprop. split; assumption.
    + destruct H as [H1 H2]. bsolve.
  - intros num den l Hl H. destruct (lok_okg _ Hl) as [fn Hg]. eapply lay_okg_dom_scale_b; eassumption.
  - intros szT szU l Hl HU Hr. destruct (lok_okg _ Hl) as [fn Hg]. eapply lay_okg_dom_scale_b; [eassumption|].
    apply dom_scale_divides; assumption.
  - intros. split; reflexivity.
  - intros. apply l_scale_b_zero_offsets. assumption.
  - intros. eapply l_scale_b_zero_based. eassumption.
Qed.

(* the code before 1b46e17 (offset left unscaled, assert(offset_ == 0)): its assertion fails on every re-based non-empty
   dimension, and with assertions disabled the unscaled offset shifts the index range *)
Theorem C12_scale_old_code_refuted_proved :
     (forall l sz, lay_ok l sz -> dom_scale_off l = true)
  /\ (forall d l f n, dim_okg d f n -> 0 < n -> f <> 0 -> dom_scale_off (d :: l) = false)
  /\ (exists l, lok l /\ dom_scale 16 8 l = true
                /\ l_extensions l = [(2, 5)] /\ l_extensions (l_scale 16 8 l) = [(1, 4)] /\ l_extensions (l_scale_b 16 8 l) = [(2, 5)]).
Proof.
  split; [exact dom_scale_off_zero_based|]. split.
  - intros d l f n (Ho & _ & _ & Hs) Hn Hf. specialize (Hs Hn). cbn [dom_scale_off forallb].
    replace (d_offset d =? 0) with false; [reflexivity|]. symmetry. apply Z.eqb_neq. nia.
  - exists (mk_layout [(2, 5)]). split; [apply mk_lok; repeat constructor; cbn; lia|]. repeat split.
Qed.

(* ---- member_cast / reinterpret_array_cast<U>() / reinterpret_array_cast<U>(n), any index bases ---- *)
Section CastsBased.
  Variable x : pview.
  Variable fn : list (Z * Z).
  Hypothesis Hok : lay_okg (lay (p_view x)) fn.
  Variable szU : Z.
  Hypothesis HszT : 0 < p_esz x.
  Hypothesis HszU : 0 < szU.
  Hypothesis Hdom : dom_scale (p_esz x) szU (lay (p_view x)) = true.

  Lemma scaled_okg : lay_okg (l_scale_b (p_esz x) szU (lay (p_view x))) fn.
  Proof. apply lay_okg_scale; assumption. Qed.

  Lemma member_cast_okg moff : lay_okg (lay (p_view (p_member_cast szU moff x))) fn.
  Proof. unfold p_member_cast, p_rebase; cbn [p_view lay]. exact scaled_okg. Qed.

  Lemma member_cast_addr_g moff idx : p_addr (p_member_cast szU moff x) idx = p_addr x idx + moff.
  Proof.
    unfold p_member_cast. rewrite p_addr_rebase, p_addr_ptr.
    rewrite (l_addr_scale_g (p_esz x) szU (lay (p_view x)) fn idx ltac:(lia) Hdom Hok). lia.
  Qed.

  Lemma reinterpret_lay_g : lay (p_view (p_reinterpret szU x)) = l_scale_b (p_esz x) szU (lay (p_view x)).
  Proof. unfold p_reinterpret, p_rebase; cbn [p_view lay]. apply l_reinterpret_is_scale. Qed.

  Lemma reinterpret_okg : lay_okg (lay (p_view (p_reinterpret szU x))) fn.
  Proof. rewrite reinterpret_lay_g. exact scaled_okg. Qed.

  Lemma reinterpret_addr_g idx : p_addr (p_reinterpret szU x) idx = p_addr x idx.
  Proof.
    rewrite (p_addr_ptr (p_reinterpret szU x)), reinterpret_lay_g.
    unfold p_reinterpret, p_rebase, p_ptr at 1; cbn [p_view p_org p_esz base].
    rewrite (l_addr_scale_g (p_esz x) szU (lay (p_view x)) fn idx ltac:(lia) Hdom Hok), p_addr_ptr. lia.
  Qed.

  Lemma reinterpret_n_okg n : 0 <= n -> lay_okg (lay (p_view (p_reinterpret_n szU n x))) (fn ++ [(0, n)]).
  Proof.
    intros Hn. destruct (p_reinterpret_n_lay szU n x) as (-> & _).
    apply lay_okg_app; [exact scaled_okg|]. constructor; [apply dim_okg_unit; assumption|constructor].
  Qed.

  Lemma reinterpret_n_extensions n :
    l_extensions (lay (p_view (p_reinterpret_n szU n x))) = l_extensions (lay (p_view x)) ++ [(0, n)].
  Proof.
    destruct (p_reinterpret_n_lay szU n x) as (-> & _). unfold l_extensions. rewrite map_app. cbn [map].
    rewrite d_extension_unit. f_equal. apply (lay_okg_same_extensions _ _ fn Hok scaled_okg).
  Qed.

  Lemma reinterpret_n_addr_g n idx j : length idx = length fn ->
    p_addr (p_reinterpret_n szU n x) (idx ++ [j]) = p_addr x idx + j * szU.
  Proof.
    intros Hl. destruct (p_reinterpret_n_lay szU n x) as (El & Eb & Eo & Ee).
    rewrite (p_addr_ptr (p_reinterpret_n szU n x)). unfold p_ptr at 1. rewrite El, Eb, Eo, Ee.
    rewrite l_addr_app.
    2:{ unfold l_scale_b. rewrite map_length, (lay_okg_length _ _ Hok). symmetry; assumption. }
    cbn [l_addr d_stride d_offset].
    pose proof (l_addr_scale_g (p_esz x) szU (lay (p_view x)) fn idx ltac:(lia) Hdom Hok). rewrite p_addr_ptr. lia.
  Qed.
End CastsBased.

Theorem C12_member_cast_any_base_proved :
  forall (x : pview) (fn : list (Z * Z)) (szU moff : Z),
    lay_okg (lay (p_view x)) fn -> 0 < p_esz x -> 0 < szU ->
    dom_scale (p_esz x) szU (lay (p_view x)) = true ->
    let m := p_member_cast szU moff x in
       dom_scale_b (p_esz x) szU (lay (p_view x)) = true
    /\ lay_okg (lay (p_view m)) fn
    /\ l_extensions (lay (p_view m)) = l_extensions (lay (p_view x))
    /\ l_sizes (lay (p_view m)) = l_sizes (lay (p_view x))
    /\ p_esz m = szU
    /\ forall idx, p_addr_brackets m idx = p_addr_brackets x idx + moff.
Proof.
  intros x fn szU moff Hok HT HU Hd m.
  assert (Hm : lay_okg (lay (p_view m)) fn) by (eapply member_cast_okg; eassumption).
  split; [eapply lay_okg_dom_scale_b; eassumption|]. split; [exact Hm|].
  split; [apply (lay_okg_same_extensions _ _ fn Hok Hm)|]. split; [apply (lay_okg_same_sizes _ _ fn Hok Hm)|].
  split; [reflexivity|]. intros idx. rewrite !p_addr_brackets_eq. eapply member_cast_addr_g; eassumption.
Qed.

Theorem C12_reinterpret_any_base_proved :
  forall (x : pview) (fn : list (Z * Z)) (szU : Z),
    lay_okg (lay (p_view x)) fn -> 0 < p_esz x -> 0 < szU ->
    dom_scale (p_esz x) szU (lay (p_view x)) = true ->
    let m := p_reinterpret szU x in
       dom_scale_b (p_esz x) szU (lay (p_view x)) = true
    /\ lay_okg (lay (p_view m)) fn
    /\ l_extensions (lay (p_view m)) = l_extensions (lay (p_view x))
    /\ l_sizes (lay (p_view m)) = l_sizes (lay (p_view x))
    /\ p_esz m = szU
    /\ forall idx, p_addr_brackets m idx = p_addr_brackets x idx.
Proof.
  intros x fn szU Hok HT HU Hd m.
  assert (Hm : lay_okg (lay (p_view m)) fn) by (eapply reinterpret_okg; eassumption).
  split; [eapply lay_okg_dom_scale_b; eassumption|]. split; [exact Hm|].
  split; [apply (lay_okg_same_extensions _ _ fn Hok Hm)|]. split; [apply (lay_okg_same_sizes _ _ fn Hok Hm)|].
  split; [reflexivity|]. intros idx. rewrite !p_addr_brackets_eq. eapply reinterpret_addr_g; eassumption.
Qed.

Theorem C12_reinterpret_extra_dim_any_base_proved :
  forall (x : pview) (fn : list (Z * Z)) (szU n : Z),
    lay_okg (lay (p_view x)) fn -> 0 < p_esz x -> 0 < szU -> 0 <= n ->
    dom_scale (p_esz x) szU (lay (p_view x)) = true ->
    let m := p_reinterpret_n szU n x in
       dom_scale_b (p_esz x) szU (lay (p_view x)) = true
    /\ lay_okg (lay (p_view m)) (fn ++ [(0, n)])
    /\ l_extensions (lay (p_view m)) = l_extensions (lay (p_view x)) ++ [(0, n)]
    /\ l_sizes (lay (p_view m)) = l_sizes (lay (p_view x)) ++ [n]
    /\ p_esz m = szU
    /\ forall idx j, length idx = length fn ->
            p_addr_brackets m (idx ++ [j]) = p_addr_brackets x idx + j * szU
         /\ (0 <= j < n -> p_esz x = szU * n ->
               p_addr_brackets x idx <= p_addr_brackets m (idx ++ [j])
            /\ p_addr_brackets m (idx ++ [j]) + szU <= p_addr_brackets x idx + p_esz x).
Proof.
  intros x fn szU n Hok HT HU Hn Hd m.
  assert (Hm : lay_okg (lay (p_view m)) (fn ++ [(0, n)])) by (eapply reinterpret_n_okg; eassumption).
  split; [eapply lay_okg_dom_scale_b; eassumption|]. split; [exact Hm|].
  split; [eapply reinterpret_n_extensions; eassumption|].
  split. { rewrite (okg_sizes _ _ Hm), (okg_sizes _ _ Hok), map_app. reflexivity. }
  split. { destruct (p_reinterpret_n_lay szU n x) as (_ & _ & _ & E). exact E. }
  intros idx j Hl. rewrite !p_addr_brackets_eq.
  assert (E : p_addr m (idx ++ [j]) = p_addr x idx + j * szU) by (eapply reinterpret_n_addr_g; eassumption).
  split; [exact E|]. intros Hj HTn. rewrite E. nia.
Qed.

(* ---- every view reachable from a root over arbitrary index extensions ---- *)
Section FromBasedRoot.
  Variables (exts : list range) (ops : list op) (w : view).
  Hypothesis Hex : Forall (fun r => fst r <= snd r) exts.
  Hypothesis Hsafe : run_safe ops (root_view exts) = true.
  Hypothesis Hrun : run_ops ops (root_view exts) = Some w.
  Let sz := map r_size exts.
  Let a := run_spec (twin_ops ops (root_view exts)) (root_spec sz).

  Lemma based_lok : lok (lay w).
  Proof. destruct (rebase_run ops (root_view exts) w (mk_lok exts Hex) Hsafe Hrun) as [_ Hl]. exact Hl. Qed.

  (* the root element that w[idx] is *)
  Lemma based_pos idx : in_extl (lay w) idx ->
    let k := rowmajor (collapse sz) (amap a (vsubz idx (firsts_of w))) in
    addr_brackets w idx = k /\ 0 <= k < prod sz.
  Proof.
    intros Hi k.
    destruct (C12_identity_any_base_proved Z Z (fun t => t) exts ops w Hex Hsafe Hrun) as (_ & _ & _ & _ & H).
    destruct (H (fun t => t) idx Hi) as (_ & E & Hb). unfold v_read in E. split; [exact E|exact Hb].
  Qed.

  Lemma in_extl_length idx : in_extl (lay w) idx -> length idx = length (lay w).
  Proof. intros H. symmetry. eapply Forall2_length. exact H. Qed.
End FromBasedRoot.

Lemma p_embed_addr szT w idx : p_addr_brackets (p_embed szT w) idx = szT * addr_brackets w idx.
Proof. unfold p_addr_brackets, p_embed; cbn. lia. Qed.

Theorem C12_member_cast_from_based_root_proved :
  forall (exts : list range) (ops : list op) (w : view) (szT szU moff : Z),
    Forall (fun r => fst r <= snd r) exts ->
    run_safe ops (root_view exts) = true -> run_ops ops (root_view exts) = Some w ->
    dom_member szT szU moff = true ->
    let sz := map r_size exts in
    let a := run_spec (twin_ops ops (root_view exts)) (root_spec sz) in
    let m := p_member_cast szU moff (p_embed szT w) in
       p_dom_proj false (PMember szU moff) (p_embed szT w) = true
    /\ p_dom_proj true (PMember szU moff) (p_embed szT w) = true
    /\ l_extensions (lay (p_view m)) = l_extensions (lay w)
    /\ forall idx, in_extl (lay w) idx ->
         let k := rowmajor (collapse sz) (amap a (vsubz idx (firsts_of w))) in
            p_addr_brackets m idx = szT * addr_brackets w idx + moff
         /\ p_addr_brackets m idx = szT * k + moff
         /\ 0 <= k < prod sz
         /\ szT * k <= p_addr_brackets m idx /\ p_addr_brackets m idx + szU <= szT * (k + 1).
Proof.
  intros exts ops w szT szU moff Hex Hsafe Hrun Hdm sz a m.
  destruct (dom_member_scale szT szU moff (lay w) Hdm) as (HU & HT & Hrem & Hm0 & Hm1 & Hdom).
  pose proof (based_lok exts ops w Hex Hsafe Hrun) as Hl. destruct (lok_okg _ Hl) as [fn Hg].
  destruct (C12_member_cast_any_base_proved (p_embed szT w) fn szU moff Hg HT HU Hdom) as (Hb & _ & He & _ & _ & Ha).
  cbn [p_embed p_view p_esz] in Hb.
  split. { cbn [p_dom_proj p_embed p_view p_esz]. rewrite Hdm, Hb. reflexivity. }
  split. { cbn [p_dom_proj p_embed p_view p_esz]. rewrite Hdm, Hb. reflexivity. }
  split; [exact He|]. intros idx Hi k.
  destruct (based_pos exts ops w Hex Hsafe Hrun idx Hi) as [E Hk]. fold sz a k in E, Hk.
  fold m in Ha. rewrite (Ha idx), p_embed_addr, E. repeat split; lia.
Qed.

Theorem C12_reinterpret_from_based_root_proved :
  forall (exts : list range) (ops : list op) (w : view) (szT szU : Z),
    Forall (fun r => fst r <= snd r) exts ->
    run_safe ops (root_view exts) = true -> run_ops ops (root_view exts) = Some w ->
    0 < szT -> 0 < szU -> Z.rem szT szU = 0 ->
    let sz := map r_size exts in
    let a := run_spec (twin_ops ops (root_view exts)) (root_spec sz) in
    let m := p_reinterpret szU (p_embed szT w) in
       (forall constref, p_dom_proj constref (PReinterpret szU) (p_embed szT w) = true)
    /\ l_extensions (lay (p_view m)) = l_extensions (lay w)
    /\ forall idx, in_extl (lay w) idx ->
         let k := rowmajor (collapse sz) (amap a (vsubz idx (firsts_of w))) in
            p_addr_brackets m idx = szT * addr_brackets w idx
         /\ p_addr_brackets m idx = szT * k
         /\ 0 <= k < prod sz.
Proof.
  intros exts ops w szT szU Hex Hsafe Hrun HT HU Hrem sz a m.
  assert (Hdom : dom_scale szT szU (lay w) = true) by (apply dom_scale_divides; [lia|assumption]).
  pose proof (based_lok exts ops w Hex Hsafe Hrun) as Hl. destruct (lok_okg _ Hl) as [fn Hg].
  destruct (C12_reinterpret_any_base_proved (p_embed szT w) fn szU Hg HT HU Hdom) as (Hb & _ & He & _ & _ & Ha).
  cbn [p_embed p_view p_esz] in Hb.
  split.
  { intros c. cbn [p_dom_proj p_embed p_view p_esz]. unfold dom_reinterpret. rewrite Hdom, Hb.
    replace (0 <? szU) with true by (symmetry; apply Z.ltb_lt; assumption).
    replace (0 <? szT) with true by (symmetry; apply Z.ltb_lt; assumption).
    destruct (lay w) as [|d [|d' l]]; cbn [andb]; rewrite ?orb_true_r; reflexivity. }
  split; [exact He|]. intros idx Hi k.
  destruct (based_pos exts ops w Hex Hsafe Hrun idx Hi) as [E Hk]. fold sz a k in E, Hk.
  fold m in Ha. rewrite (Ha idx), p_embed_addr, E. repeat split; lia.
Qed.

Theorem C12_reinterpret_extra_dim_from_based_root_proved :
  forall (exts : list range) (ops : list op) (w : view) (szT szU n : Z),
    Forall (fun r => fst r <= snd r) exts ->
    run_safe ops (root_view exts) = true -> run_ops ops (root_view exts) = Some w ->
    dom_reinterpret_n szT szU n = true ->
    let sz := map r_size exts in
    let a := run_spec (twin_ops ops (root_view exts)) (root_spec sz) in
    let m := p_reinterpret_n szU n (p_embed szT w) in
       (forall constref, p_dom_proj constref (PReinterpretN szU n) (p_embed szT w) = true)
    /\ l_extensions (lay (p_view m)) = l_extensions (lay w) ++ [(0, n)]
    /\ forall idx j, in_extl (lay w) idx -> 0 <= j < n ->
         let k := rowmajor (collapse sz) (amap a (vsubz idx (firsts_of w))) in
            p_addr_brackets m (idx ++ [j]) = szT * k + j * szU
         /\ 0 <= k < prod sz
         /\ szT * k <= p_addr_brackets m (idx ++ [j]) /\ p_addr_brackets m (idx ++ [j]) + szU <= szT * (k + 1).
Proof.
  intros exts ops w szT szU n Hex Hsafe Hrun Hdn sz a m.
  assert (H4 : 0 < szU /\ 0 < szT /\ 0 <= n /\ szT = szU * n) by (unfold dom_reinterpret_n in Hdn; bprop; repeat split; assumption).
  destruct H4 as (HU & HT & Hn & HTn).
  assert (Hdom : dom_scale szT szU (lay w) = true).
  { apply dom_scale_divides; [lia|]. rewrite HTn, Z.mul_comm. apply Z.rem_mul. lia. }
  pose proof (based_lok exts ops w Hex Hsafe Hrun) as Hl. destruct (lok_okg _ Hl) as [fn Hg].
  destruct (C12_reinterpret_extra_dim_any_base_proved (p_embed szT w) fn szU n Hg HT HU Hn Hdom) as (Hb & _ & He & _ & _ & Ha).
  cbn [p_embed p_view p_esz] in Hb.
  split. { intros c. cbn [p_dom_proj p_embed p_view p_esz]. rewrite Hdn, Hb. reflexivity. }
  split; [exact He|]. intros idx j Hi Hj k.
  destruct (based_pos exts ops w Hex Hsafe Hrun idx Hi) as [E Hk]. fold sz a k in E, Hk.
  assert (Hlen : length idx = length fn).
  { rewrite (in_extl_length w idx Hi). apply (lay_okg_length _ _ Hg). }
  fold m in Ha. destruct (Ha idx j Hlen) as [E1 _]. rewrite E1, p_embed_addr, E. repeat split; nia.
Qed.

(* the hypotheses are satisfiable: a 16-byte struct array indexed [-2,1) x [3,7), rotated; member at byte 8;
   reinterpret_array_cast<int>(4) of the row-reindexed view *)
Example C12_example_based_member :
  exists v, run_ops [ORotated] (root_view [(-2, 1); (3, 7)]) = Some v
    /\ run_safe [ORotated] (root_view [(-2, 1); (3, 7)]) = true
    /\ let m := p_member_cast 8 8 (p_embed 16 v) in
          l_extensions (lay (p_view m)) = [(3, 7); (-2, 1)]
       /\ p_dom_proj false (PMember 8 8) (p_embed 16 v) = true
       /\ p_addr_brackets m [3; -2] = 8
       /\ p_addr_brackets m [6; 0] = 16 * (2 * 4 + 3) + 8.
Proof. eexists. vm_compute. repeat split. Qed.

Example C12_example_based_reinterpret_n :
  exists v, run_ops [OReindexed 5] (root_view [(-2, 1); (3, 7)]) = Some v
    /\ let m := p_reinterpret_n 4 4 (p_embed 16 v) in
          l_extensions (lay (p_view m)) = [(5, 8); (3, 7); (0, 4)]
       /\ p_addr_brackets m [5; 3; 0] = 0
       /\ p_addr_brackets m [7; 6; 3] = 16 * (2 * 4 + 3) + 12.
Proof. eexists. vm_compute. repeat split. Qed.

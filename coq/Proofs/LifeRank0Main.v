(* Rank 0: every history of rank-0 operations in its documented domain keeps the ownership invariant, with and without an
   injected fault; consequences of the invariant for rank-0 array objects (one constructed cell each, pairwise distinct). *)
From BM Require Import Base.Tactics Model.Life Model.LifeRank0 Proofs.LifeBase Proofs.LifeMonad Proofs.LifeInv Proofs.LifeCells
  Proofs.LifeSteps Proofs.LifeCombi Proofs.LifeOps Proofs.LifeOps2 Proofs.LifeOps3 Proofs.LifeDisc Proofs.LifeMain
  Proofs.LifeFacts Proofs.LifeRank0Cells Proofs.LifeRank0Inv.
Local Open Scope Z_scope.

(* ---- structural discipline: the ledger only grows, a run without a pending fault does not throw ---- *)
Lemma disc_ref_cell q : disc (ref_cell q).
Proof.
  unfold ref_cell. apply disc_bind; [apply disc_get_arr|]. intros a.
  destruct (Z.of_nat (rf_idx q) <? nel a); [|apply disc_fail].
  apply disc_bind; [apply disc_base_blk|]. intros b. apply disc_ret.
Qed.

Lemma disc_swap_cells cfg b i b' i' : disc (swap_cells cfg b i b' i').
Proof.
  unfold swap_cells.
  repeat first [ apply disc_tick_elem | apply disc_read1 | apply disc_mark_moved | apply disc_assign1 | apply disc_bind; [|intros ?] ].
Qed.

Lemma disc_step0 cfg o : disc (step0 cfg o).
Proof.
  destruct o; cbn [step0]; unfold value_construct_n, one_cell; cbv zeta;
    repeat first
      [ apply disc_ref_cell | apply disc_swap_cells | apply disc_fail | apply disc_tick_elem | apply disc_read1 | apply disc_mark_moved
      | match goal with |- disc (if ?c then _ else _) => destruct c end
      | match goal with |- disc (match ?p with PNull => _ | PBlk _ => _ end) => destruct p end
      | disc_mid | apply disc_bind; [|intros ?] ].
Qed.

Section R0Main.
Variable cfg : config.
Hypothesis rank_pos : (1 <= c_rank cfg)%nat.

Notation Inv := (Inv cfg).
Notation Good := (Good cfg).
Notation GoodT := (GoodT cfg).

Fixpoint hist_dom0 (h : list lop0) (s : state) : Prop :=
  match h with
  | [] => True
  | o :: rest => dom_op0 (s_arrs s) o /\ hist_dom0 rest (snd (run_op0 cfg o s))
  end.

Lemma run_op0_good o s : Good s -> dom_op0 (s_arrs s) o ->
  let '(out, s') := run_op0 cfg o s in
  ledger_ext s s' /\ ((Good s' /\ not_err out) \/ bad_thrown s').
Proof.
  intros G D. unfold run_op0.
  pose proof (Good_reset cfg s G) as (I & W & T).
  pose proof (step0_ok cfg rank_pos o (s_arrs (reset_counts s)) W T D (reset_counts s) (conj I eq_refl)) as Tr.
  pose proof (disc_step0 cfg o (reset_counts s)) as Ds.
  destruct (step0 cfg o (reset_counts s)) as [[] s1|s1|e]; try contradiction.
  - destruct Ds as [L _]. split; [exact L|]. left. split; auto. exact Logic.I.
  - destruct Ds as [L _].
    pose proof (disc_unwind cfg s1) as Du.
    destruct Tr as [[I1 W1]|B].
    + pose proof (unwind_ok cfg rank_pos s1 I1 W1) as U. destruct (unwind cfg s1) as [[] s2|s2|e]; try contradiction.
      destruct Du as [L2 _]. split; [eapply ledger_ext_trans; eauto|]. left. split; auto. exact Logic.I.
    + destruct (unwind cfg s1) as [[] s2|s2|e].
      * destruct Du as [L2 _]. split; [eapply ledger_ext_trans; eauto|]. right. eapply bad_ext; eauto.
      * destruct Du as [L2 _]. split; [eapply ledger_ext_trans; eauto|]. right. eapply bad_ext; eauto.
      * split; [exact L|]. right. exact B.
Qed.

Lemma run_op0_ledger o s : ledger_ext s (snd (run_op0 cfg o s)).
Proof.
  unfold run_op0. pose proof (disc_step0 cfg o (reset_counts s)) as Ds.
  destruct (step0 cfg o (reset_counts s)) as [[] s1|s1|e]; cbn.
  - apply Ds. - pose proof (disc_unwind cfg s1) as Du. destruct Ds as [L _].
    destruct (unwind cfg s1) as [[] s2|s2|e]; cbn; auto; destruct Du as [L2 _]; eapply ledger_ext_trans; eauto.
  - apply ledger_ext_refl.
Qed.

Lemma run_rank0_ledger h : forall s, ledger_ext s (snd (run_rank0 cfg h s)).
Proof.
  induction h as [|o h IH]; intros s; cbn; [apply ledger_ext_refl|].
  pose proof (run_op0_ledger o s) as L. destruct (run_op0 cfg o s) as [out s1]. cbn in L.
  destruct out; cbn; auto; specialize (IH s1); destruct (run_rank0 cfg h s1) as [outs s2]; cbn in *; eapply ledger_ext_trans; eauto.
Qed.

(* any history, with or without a pending fault *)
Theorem rank0_safe h : forall s, Good s -> hist_dom0 h s ->
  let '(outs, s') := run_rank0 cfg h s in
  (Good s' /\ Forall not_err outs) \/ bad_thrown s'.
Proof.
  induction h as [|o h IH]; intros s G D; cbn.
  - left. split; auto.
  - destruct D as [Do Dr].
    pose proof (run_op0_good o s G Do) as Ho.
    destruct (run_op0 cfg o s) as [out s1] eqn:E. cbn in Dr. destruct Ho as [L [[G1 Ne]|B]].
    + specialize (IH s1 G1 Dr). destruct out; try contradiction.
      * destruct (run_rank0 cfg h s1) as [outs s2]. destruct IH as [[G2 F]|B2]; [left; split; auto|right; auto].
      * destruct (run_rank0 cfg h s1) as [outs s2]. destruct IH as [[G2 F]|B2]; [left; split; auto|right; auto].
    + pose proof (run_rank0_ledger h s1) as L2.
      destruct out.
      * destruct (run_rank0 cfg h s1) as [outs s2]; cbn in L2. right. eapply bad_ext; [exact L2|exact B].
      * destruct (run_rank0 cfg h s1) as [outs s2]; cbn in L2. right. eapply bad_ext; [exact L2|exact B].
      * right. exact B.
Qed.

Lemma run_op0_quiet o s : s_fault s = None ->
  let '(out, s') := run_op0 cfg o s in quiet s s' /\ (out = OutOk \/ exists e, out = OutErr e).
Proof.
  intros Hf. unfold run_op0. pose proof (disc_step0 cfg o (reset_counts s)) as Ds.
  destruct (step0 cfg o (reset_counts s)) as [[] s1|s1|e].
  - destruct Ds as [_ Q]. split; auto.
  - destruct Ds as [_ N]. exfalso. apply N. exact Hf.
  - split; [apply quiet_refl|]. right. eauto.
Qed.

Lemma run_rank0_quiet h : forall s, s_fault s = None ->
  let '(outs, s') := run_rank0 cfg h s in quiet s s' /\ Forall (fun o => o = OutOk \/ exists e, o = OutErr e) outs.
Proof.
  induction h as [|o h IH]; intros s Hf; cbn; [split; [apply quiet_refl|constructor]|].
  pose proof (run_op0_quiet o s Hf) as Ho. destruct (run_op0 cfg o s) as [out s1]. destruct Ho as [Q Ho].
  destruct (Q Hf) as [Hf1 _]. specialize (IH s1 Hf1).
  destruct out; try (destruct Ho as [Ho|[e Ho]]; discriminate).
  - destruct (run_rank0 cfg h s1) as [outs s2]. destruct IH as [Q2 F]. split; [eapply quiet_trans; eauto|constructor; auto].
  - split; auto.
Qed.

(* fault-free histories *)
Theorem rank0_safe_nofault h : hist_dom0 h (st0 None) ->
  let '(outs, s') := run_rank0 cfg h (st0 None) in Good s' /\ Forall (fun o => o = OutOk) outs.
Proof.
  intros D. pose proof (rank0_safe h (st0 None) (Good_st0 cfg None) D) as S.
  pose proof (run_rank0_quiet h (st0 None) eq_refl) as Q.
  destruct (run_rank0 cfg h (st0 None)) as [outs s']. destruct Q as [Q F]. destruct (Q eq_refl) as [_ Hev].
  destruct S as [[G Ne]|B].
  - split; auto. clear - F Ne. induction outs; constructor; inv F; inv Ne; auto.
    destruct H1 as [|[e ->]]; auto. contradiction.
  - exfalso. destruct B as [B|[B|B]]; apply Hev in B; destruct B.
Qed.

(* single-fault histories: every history, every injection point; the only site where rank-0 code loses a block is the
   element construction of a constructor (the block allocated in the mem-initializer is not released: C09's finding) *)
Theorem rank0_safe_fault h k : hist_dom0 h (st0 (Some k)) ->
  let '(outs, s') := run_rank0 cfg h (st0 (Some k)) in
  (forall w, In (EvThrow w) (s_ledger s') -> ok_site w) -> Good s' /\ Forall not_err outs.
Proof.
  intros D. pose proof (rank0_safe h (st0 (Some k)) (Good_st0 cfg _) D) as S.
  destruct (run_rank0 cfg h (st0 (Some k))) as [outs s']. intros Hs.
  destruct S as [G|[B|[B|B]]]; auto; apply Hs in B; destruct B; discriminate.
Qed.

(* ---- what the invariant says about rank-0 array objects ---- *)
Theorem rank0_one_cell s r a : Good s -> get_slot s r = Some a -> is0 a ->
  exists b blk c, a_base a = PBlk b /\ get_blk s b = Some blk /\ b_live blk = true /\ b_size blk = 1
                  /\ b_cells blk = [c] /\ cell_init cfg c = true /\ alloc_eq cfg (b_owner blk) (a_alloc a) = true.
Proof.
  intros (I & _ & _) Hs Z0. assert (Hp : 0 < nel a) by (rewrite (nel0 _ Z0); lia).
  destruct (inv_arr _ _ _ I r a Hs Hp) as (b & blk & Hb & Hblk & Hlv & Hsz & Hal & Hok).
  destruct (inv_blk _ _ _ I b blk Hblk) as [[_ Hlen] _].
  rewrite (nel0 _ Z0) in Hsz. rewrite Hsz in Hlen. cbn in Hlen.
  destruct (b_cells blk) as [|c [|c' l]] eqn:Ec; try discriminate.
  exists b, blk, c. repeat split; auto. inv Hok. auto.
Qed.

Theorem rank0_storage_disjoint s r r' a a' b : Good s -> get_slot s r = Some a -> get_slot s r' = Some a' ->
  is0 a -> is0 a' -> a_base a = PBlk b -> a_base a' = PBlk b -> r = r'.
Proof.
  intros G Hs Hs' Z0 Z0' Hb Hb'. eapply (storage_disjoint cfg s r r' a a' b); eauto.
  - rewrite (nel0 _ Z0); lia. - rewrite (nel0 _ Z0'); lia.
Qed.

(* a reference never designates storage of another array object: the cell of a reference into slot t belongs to slot t's block *)
Theorem rank0_ref_in_own_block s q c : Good s -> ref_cell q s = Ok c s ->
  exists a, get_slot s (rf_slot q) = Some a /\ a_base a = PBlk (fst c) /\ snd c = rf_idx q /\ Z.of_nat (rf_idx q) < nel a.
Proof.
  intros _ H. unfold ref_cell in H. unfold bind at 1 in H.
  destruct (get_arr (rf_slot q) s) as [a s1|s1|e] eqn:E; try discriminate.
  apply get_arr_inv in E. destruct E as [-> Hg].
  destruct (Z.ltb_spec (Z.of_nat (rf_idx q)) (nel a)); [|discriminate].
  unfold bind, base_blk in H. destruct (a_base a) as [|b] eqn:Eb; [discriminate|]. inv H.
  exists a. cbn. auto.
Qed.

End R0Main.

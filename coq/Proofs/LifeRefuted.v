(* The full fault-safety statement is false of the faithful model at three kinds of sites: concrete witnesses. *)
From BM Require Import Base.Tactics Model.Life Proofs.LifeBase Proofs.LifeMonad Proofs.LifeInv Proofs.LifeCells
  Proofs.LifeSteps Proofs.LifeCombi Proofs.LifeOps Proofs.LifeOps2 Proofs.LifeOps3 Proofs.LifeOps4 Proofs.LifeDisc Proofs.LifeMain.
Local Open Scope Z_scope.

(* C09 at full strength: for every history in its domain and every injection point the invariant holds afterwards *)
Definition C09_full : Prop :=
  forall cfg h k, (1 <= c_rank cfg)%nat -> hist_dom cfg h (st0 (Some k)) ->
    let '(outs, s') := run_life cfg h (st0 (Some k)) in Good cfg s' /\ Forall not_err outs.

Definition cfg1 : config := mkcfg 1 false false false false false false false SoccSame.
Definition cfg2 : config := mkcfg 2 false false false false false false false SoccSame.

Lemma no_owner_if_all_free s b :
  (forall r, get_slot s r = None) -> forall r, ~ owner_of s b r.
Proof. intros H r (a & Ha & _). rewrite H in Ha. discriminate. Qed.

(* array<E,1,A>(5, E{7}): the 3rd element copy throws (events: allocation, copy, copy, copy) *)
Definition h_ctor : list lop := [OCtorFill 0 1 [(0, 5)] 7].

Theorem ctor_leak_refuted : ~ C09_full.
Proof.
  intros H. specialize (H cfg1 h_ctor 4%nat (le_n 1)).
  assert (D : hist_dom cfg1 h_ctor (st0 (Some 4%nat))).
  { cbn. split; auto. split; [unfold NP; lia|reflexivity]. }
  specialize (H D). remember (run_life cfg1 h_ctor (st0 (Some 4%nat))) as R eqn:E. vm_compute in E. subst R.
  destruct H as [(I & _) _].
  destruct (inv_noleak _ _ _ I 0%nat _ eq_refl eq_refl) as [[]|[r Hr]].
  revert Hr. apply no_owner_if_all_free. intros q. unfold get_slot; cbn.
  do 9 (destruct q as [|q]; [reflexivity|]). destruct q; reflexivity.
Qed.

(* a 2x2 array reextent({2,4}, 9): the 2nd fill construction of the new block throws *)
Definition h_reext : list lop := [OCtorFill 0 1 [(0, 2); (0, 2)] 5; OReextent 0 [(0, 2); (0, 4)] (Some 9)].

Theorem reextent_leak_refuted : ~ C09_full.
Proof.
  intros H. specialize (H cfg2 h_reext 7%nat (le_S _ _ (le_n 1))).
  assert (D : hist_dom cfg2 h_reext (st0 (Some 7%nat))).
  { cbn. split; [split; [unfold NP; lia|reflexivity]|]. split; auto.
    eexists. split; [split; [unfold NP; lia|reflexivity]|reflexivity]. }
  specialize (H D). remember (run_life cfg2 h_reext (st0 (Some 7%nat))) as R eqn:E. vm_compute in E. subst R.
  destruct H as [(I & _) _].
  destruct (inv_noleak _ _ _ I 1%nat _ eq_refl eq_refl) as [[]|[r (a & Ha & Hp & Hb)]].
  unfold get_slot in Ha; cbn in Ha.
  destruct r as [|r]; [inv Ha; cbn in Hb; discriminate|].
  do 8 (destruct r as [|r]; [discriminate|]). destruct r; discriminate.
Qed.

(* std::move(a).reextent({3,3}) of a 2x2 array: the allocation throws after the old block was released *)
Definition h_reext_move : list lop := [OCtorFill 0 1 [(0, 2); (0, 2)] 5; OReextentMove 0 [(0, 3); (0, 3)]].

Theorem reextent_move_refuted : ~ C09_full.
Proof.
  intros H. specialize (H cfg2 h_reext_move 6%nat (le_S _ _ (le_n 1))).
  assert (D : hist_dom cfg2 h_reext_move (st0 (Some 6%nat))).
  { cbn. split; [split; [unfold NP; lia|reflexivity]|]. split; auto.
    eexists. split; [unfold NP; lia|reflexivity]. }
  specialize (H D). remember (run_life cfg2 h_reext_move (st0 (Some 6%nat))) as R eqn:E. vm_compute in E. subst R.
  destruct H as [(I & _) _].
  match type of I with Inv _ _ ?st =>
    assert (Hs : get_slot st 0%nat = Some (mkarr 1 (PBlk 0) [3; 3] [0; 0])) by reflexivity end.
  destruct (inv_arr _ _ _ I 0%nat _ Hs) as (b & blk & Hb & Hblk & Hl & _); [vm_compute; reflexivity|].
  cbn in Hb. inv Hb. unfold get_blk in Hblk. cbn in Hblk. inv Hblk. discriminate.
Qed.

(* Reasoning kit for the lifecycle machine: Hoare triples with an exceptional postcondition over the
   error/exception/state monad of Model/Life.v, accessors, and the frame relation st_le. *)
From BM Require Import Base.Tactics Model.Life Proofs.LifeBase.
Local Open Scope Z_scope.

(* {P} m {Q} {QT}: from a state satisfying P, m does not return Err; Q on normal return, QT when it throws *)
Definition triple {A} (P : state -> Prop) (m : M A) (Q : A -> state -> Prop) (QT : state -> Prop) : Prop :=
  forall s, P s -> match m s with Ok x s' => Q x s' | Threw s' => QT s' | Err _ => False end.

Lemma triple_ret {A} (x : A) (Q : A -> state -> Prop) QT : triple (Q x) (ret x) Q QT.
Proof. intros s H. exact H. Qed.

Lemma triple_bind {A B} P (m : M A) Q QT (f : A -> M B) R :
  triple P m Q QT -> (forall x, triple (Q x) (f x) R QT) -> triple P (bind m f) R QT.
Proof.
  intros Hm Hf s HP. unfold bind. specialize (Hm s HP). destruct (m s) as [x s'| s' | e]; auto.
  exact (Hf x s' Hm).
Qed.

Lemma triple_conseq {A} (P P' : state -> Prop) (m : M A) (Q Q' : A -> state -> Prop) (QT QT' : state -> Prop) :
  triple P' m Q' QT' -> (forall s, P s -> P' s) -> (forall x s, Q' x s -> Q x s) -> (forall s, QT' s -> QT s) ->
  triple P m Q QT.
Proof.
  intros H HP HQ HT s Hs. specialize (H s (HP s Hs)). destruct (m s); auto.
Qed.

Lemma triple_pre {A} (P P' : state -> Prop) (m : M A) Q QT :
  triple P' m Q QT -> (forall s, P s -> P' s) -> triple P m Q QT.
Proof. intros H HP. eapply triple_conseq; eauto. Qed.

Lemma triple_post {A} P (m : M A) (Q Q' : A -> state -> Prop) QT :
  triple P m Q' QT -> (forall x s, Q' x s -> Q x s) -> triple P m Q QT.
Proof. intros H HQ. eapply triple_conseq; eauto. Qed.

Lemma triple_fail_pre {A} (m : M A) Q QT : triple (fun _ => False) m Q QT.
Proof. intros s []. Qed.

(* a pure side condition can be pulled out of the precondition *)
Lemma triple_assume {A} (F : Prop) P (m : M A) Q QT :
  (F -> triple P m Q QT) -> triple (fun s => F /\ P s) m Q QT.
Proof. intros H s [HF HP]. exact (H HF s HP). Qed.

Lemma triple_exists {A T} (P : T -> state -> Prop) (m : M A) Q QT :
  (forall t, triple (P t) m Q QT) -> triple (fun s => exists t, P t s) m Q QT.
Proof. intros H s [t Ht]. exact (H t s Ht). Qed.

Lemma triple_on_throw {A} P (m : M A) Q QT QT' (c : M unit) :
  triple P m Q QT' -> triple QT' c (fun _ => QT) QT -> triple P (on_throw m c) Q QT.
Proof.
  intros Hm Hc s HP. unfold on_throw. specialize (Hm s HP). destruct (m s) as [x s'|s'|e]; auto.
  specialize (Hc s' Hm). destruct (c s'); auto.
Qed.

(* ---------------------------------------------------------------------------------------- *)
(* accessors                                                                                *)
(* ---------------------------------------------------------------------------------------- *)
Definition get_slot (s : state) (r : nat) : option arr :=
  match nth_error (s_arrs s) r with Some o => o | None => None end.
Definition get_blk (s : state) (b : nat) : option block := nth_error (s_blocks s) b.

Lemma get_slot_set_same s r a : (r < length (s_arrs s))%nat ->
  get_slot (set_arrs s (upd_nth (s_arrs s) r a)) r = a.
Proof. intros H. unfold get_slot; cbn. rewrite nth_upd_same; auto. Qed.
Lemma get_slot_set_other s r r' a : r <> r' ->
  get_slot (set_arrs s (upd_nth (s_arrs s) r a)) r' = get_slot s r'.
Proof. intros H. unfold get_slot; cbn. rewrite nth_upd_other; auto. Qed.

Lemma get_slot_lt s r a : get_slot s r = Some a -> (r < length (s_arrs s))%nat.
Proof.
  unfold get_slot. destruct (nth_error (s_arrs s) r) eqn:E; [|discriminate].
  intros _. apply nth_error_Some. congruence.
Qed.

Lemma get_blk_lt s b blk : get_blk s b = Some blk -> (b < length (s_blocks s))%nat.
Proof. unfold get_blk. intros H. apply nth_error_Some. congruence. Qed.

(* ---------------------------------------------------------------------------------------- *)
(* simple triples of the micro-steps that only read                                          *)
(* ---------------------------------------------------------------------------------------- *)
Lemma get_arr_spec r a (P : state -> Prop) QT :
  triple (fun s => get_slot s r = Some a /\ P s) (get_arr r) (fun x s => x = a /\ get_slot s r = Some a /\ P s) QT.
Proof.
  intros s [H HP]. unfold get_arr. unfold get_slot in H.
  destruct (nth_error (s_arrs s) r) as [[a'|]|] eqn:E; try discriminate.
  inv H. repeat split; auto. unfold get_slot. rewrite E. reflexivity.
Qed.

Lemma slot_free_spec r (P : state -> Prop) QT :
  triple (fun s => get_slot s r = None /\ (r < length (s_arrs s))%nat /\ P s) (slot_free r) (fun _ s => P s) QT.
Proof.
  intros s (H & Hl & HP). unfold slot_free. unfold get_slot in H.
  destruct (nth_error (s_arrs s) r) as [[a'|]|] eqn:E; try discriminate; auto.
  apply nth_error_None in E. lia.
Qed.

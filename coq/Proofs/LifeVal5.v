(* Values: the commuting squares of clear, destructor, swap, reshape, element write, reextent(move) and whole-array
   assignment in place. *)
From BM Require Import Base.Tactics Model.Life Proofs.LifeBase Proofs.LifeMonad Proofs.LifeInv Proofs.LifeCells
  Proofs.LifeSteps Proofs.LifeCombi Proofs.LifeOps Proofs.LifeOps2 Proofs.LifeDisc Proofs.LifeFacts Proofs.LifeAlloc
  Proofs.LifeVal1 Proofs.LifeVal2 Proofs.LifeVal3 Proofs.LifeVal4.
Local Open Scope Z_scope.

Section Val5.
Variable cfg : config.
Hypothesis rank_pos : (1 <= c_rank cfg)%nat.
Notation Inv := (Inv cfg).
Notation Good := (Good cfg).
Notation val_dom := (val_dom cfg).
Notation pool_ok := (pool_ok cfg).
Set Default Proof Using "cfg rank_pos".
(* BEGIN-NOTATIONS *)
Notation vget_abs := (LifeVal4.vget_abs cfg rank_pos). Notation slot_ok := (LifeVal4.slot_ok cfg rank_pos). Notation nth_get_slot := (LifeVal4.nth_get_slot cfg rank_pos). Notation abs_arr_blocks_eq := (LifeVal4.abs_arr_blocks_eq cfg rank_pos). Notation abs_arr_realloc := (LifeVal4.abs_arr_realloc cfg rank_pos). Notation abs_empty := (LifeVal4.abs_empty cfg rank_pos). Notation own_empty := (LifeVal4.own_empty cfg rank_pos). Notation avals_built := (LifeVal4.avals_built cfg rank_pos). Notation keeps_blk_eq := (LifeVal4.keeps_blk_eq cfg rank_pos). Notation built_step := (LifeVal4.built_step cfg rank_pos). Notation built_bsame := (LifeVal4.built_bsame cfg rank_pos). Notation build_install_abs := (LifeVal4.build_install_abs cfg rank_pos). Notation map_nth_seq := (LifeVal4.map_nth_seq cfg rank_pos). Notation cells_of_nil := (LifeVal4.cells_of_nil cfg rank_pos). Notation cells_of_length := (LifeVal4.cells_of_length cfg rank_pos). Notation cells_of_vals := (LifeVal4.cells_of_vals cfg rank_pos). Notation cells_of_blk := (LifeVal4.cells_of_blk cfg rank_pos). Notation cells_facts := (LifeVal4.cells_facts cfg rank_pos). Notation sq_CtorDefault := (LifeVal4.sq_CtorDefault cfg rank_pos). Notation dflt_fill := (LifeVal4.dflt_fill cfg rank_pos). Notation sq_CtorSized := (LifeVal4.sq_CtorSized cfg rank_pos). Notation map_src_val_SVal := (LifeVal4.map_src_val_SVal cfg rank_pos). Notation srcs_old_SVal := (LifeVal4.srcs_old_SVal cfg rank_pos). Notation repeat_SVal := (LifeVal4.repeat_SVal cfg rank_pos). Notation sq_CtorFill := (LifeVal4.sq_CtorFill cfg rank_pos). Notation copy_square := (LifeVal4.copy_square cfg rank_pos). Notation sq_CtorCopy := (LifeVal4.sq_CtorCopy cfg rank_pos). Notation sq_CtorCopyAlloc := (LifeVal4.sq_CtorCopyAlloc cfg rank_pos). Notation move_square := (LifeVal4.move_square cfg rank_pos). Notation free_live_ne := (LifeVal4.free_live_ne cfg rank_pos). Notation live_lt_len := (LifeVal4.live_lt_len cfg rank_pos). Notation sq_CtorMove := (LifeVal4.sq_CtorMove cfg rank_pos). Notation bvals_blocks_eq := (LifeVal4.bvals_blocks_eq cfg rank_pos). Notation bsame_blocks_eq := (LifeVal4.bsame_blocks_eq cfg rank_pos). Notation bsame_nil_own := (LifeVal4.bsame_nil_own cfg rank_pos). Notation sq_CtorMoveAlloc := (LifeVal4.sq_CtorMoveAlloc cfg rank_pos). Notation view_facts := (LifeVal4.view_facts cfg rank_pos). Notation sq_CtorView := (LifeVal4.sq_CtorView cfg rank_pos). Notation sq_CtorRange := (LifeVal4.sq_CtorRange cfg rank_pos). Notation sq_CtorConv := (LifeVal4.sq_CtorConv cfg rank_pos). Notation own_with_bx := (LifeVal4.own_with_bx cfg rank_pos). Notation upd_tmp_cancel := (LifeVal4.upd_tmp_cancel cfg rank_pos). Notation sq_CtorIl := (LifeVal4.sq_CtorIl cfg rank_pos).
(* END-NOTATIONS *)

Lemma avals_direct s' p n V a :
  match p with PNull => n <= 0 | PBlk b => 0 < n /\ blive s' b = true /\ bvals s' b = V end ->
  nel a = n -> a_base a = p -> length V = Z.to_nat n -> avals s' a = V.
Proof.
  intros Hp Hn Hb Hl. unfold avals. rewrite Hn, Hb. destruct p as [|b].
  - destruct (Z.leb_spec n 0); [|lia]. destruct V; auto. cbn in Hl. lia.
  - destruct Hp as (Hpos & Lv & Vs). destruct (Z.leb_spec n 0); [lia|]. rewrite Lv, Vs. auto.
Qed.

Lemma frame_own s s' r ar q a : Inv [] s -> get_slot s r = Some ar -> bsame (own ar) s s' -> q <> r ->
  nth_error (s_arrs s) q = Some (Some a) -> abs_arr s' a = abs_arr s a.
Proof.
  intros I Hg B Hq Hn. eapply frame_slot with (B := own ar) (R := [r]); eauto.
  - intros b Hb. exists r. split; [left; auto|]. eapply own_owner; eauto.
  - intros [->|[]]. congruence.
Qed.

Lemma live_get s r ar : live (s_arrs s) r ar -> get_slot s r = Some ar /\ (r < length (s_arrs s))%nat /\ (r < NP)%nat.
Proof.
  intros [Hr L]. split; [apply nth_get_slot; auto|]. split; auto. apply nth_error_Some. congruence.
Qed.

Lemma sq_clear r s s' : Good s -> (exists ar, live (s_arrs s) r ar) -> p_clear cfg r s = Ok tt s' ->
  abs_state s' = upd_nth (abs_state s) r (Some (vempty cfg)).
Proof.
  intros (I & W & T) (ar & L) H. destruct (live_get s r ar L) as (Hg & Hr & _).
  apply p_clear_inv in H. destruct H as (a & G & A & Len & B). assert (a = ar) by congruence. subst a.
  eapply abs_upd1; [exact Hr|exact A|cbn; rewrite abs_empty; auto|].
  intros q a Hq Hn. eapply frame_own; eauto.
Qed.

Lemma sq_Clear r s s' : Good s -> dom_op cfg (s_arrs s) (OClear r) ->
  step cfg (OClear r) s = Ok tt s' -> abs_state s' = vstep cfg (OClear r) (abs_state s).
Proof. intros G D H. apply sq_clear; auto. Qed.

Lemma sq_AssignIlEmpty r s s' : Good s -> dom_op cfg (s_arrs s) (OAssignIlEmpty r) ->
  step cfg (OAssignIlEmpty r) s = Ok tt s' -> abs_state s' = vstep cfg (OAssignIlEmpty r) (abs_state s).
Proof. intros G D H. apply sq_clear; auto. Qed.

Lemma sq_Destroy r s s' : Good s -> dom_op cfg (s_arrs s) (ODestroy r) ->
  step cfg (ODestroy r) s = Ok tt s' -> abs_state s' = vstep cfg (ODestroy r) (abs_state s).
Proof.
  intros (I & W & T) (ar & L) H. destruct (live_get s r ar L) as (Hg & Hr & _). cbn [step] in H.
  apply p_dtor_inv in H. destruct H as (a & G & A & Len & B). assert (a = ar) by congruence. subst a.
  cbn [vstep]. unfold vset. eapply abs_upd1; [exact Hr|exact A|reflexivity|].
  intros q a Hq Hn. eapply frame_own; eauto.
Qed.

Lemma vset_same_get s r ar : nth_error (s_arrs s) r = Some (Some ar) ->
  upd_nth (abs_state s) r (Some (vget (abs_state s) r)) = abs_state s.
Proof. intros H. apply upd_nth_same_val. rewrite (vget_abs s r ar H), abs_nth, H. reflexivity. Qed.

Lemma sq_Swap r t s s' : Good s -> dom_op cfg (s_arrs s) (OSwap r t) ->
  step cfg (OSwap r t) s = Ok tt s' -> abs_state s' = vstep cfg (OSwap r t) (abs_state s).
Proof.
  intros (I & W & T) (ar & at_ & Lr & Lt & _) H. destruct (live_get s r ar Lr) as (Gr & Hr & _).
  destruct (live_get s t at_ Lt) as (Gt & Ht & _). cbn [step] in H. open_get H. open_get H.
  assert (a = ar) by congruence. assert (a0 = at_) by congruence. subst a a0. cbn [vstep]. unfold vset.
  destruct Lr as [_ Nr]. destruct Lt as [_ Nt].
  destruct (Nat.eqb_spec r t) as [->|Hne].
  - inv H. rewrite (vset_same_get s' t ar Nr), (vset_same_get s' t ar Nr). auto.
  - unfold bind, set_arr in H. inv H. rewrite (vget_abs s t at_ Nt), (vget_abs s r ar Nr).
    eapply abs_upd2; [exact Hr|exact Ht|exact Hne|reflexivity| | |].
    + reflexivity.
    + reflexivity.
    + intros q a _ _ _. apply abs_arr_blocks_eq. reflexivity.
Qed.

Lemma sq_Reshape r x s s' : Good s -> dom_op cfg (s_arrs s) (OReshape r x) ->
  step cfg (OReshape r x) s = Ok tt s' -> abs_state s' = vstep cfg (OReshape r x) (abs_state s).
Proof.
  intros (I & W & T) (ar & L & Dn) H. destruct (live_get s r ar L) as (Gr & Hr & _). destruct L as [_ Nr].
  cbn [step] in H. open_get H. assert (a = ar) by congruence. subst a.
  destruct (Z.eqb_spec (bnumel x) (nel ar)) as [E|E]; [|discriminate]. inv H.
  cbn [vstep]. unfold vset. rewrite (vget_abs s r ar Nr), abs_arr_alt. cbn [snd].
  eapply abs_upd1; [exact Hr|reflexivity| |].
  - cbn [option_map]. f_equal. rewrite abs_arr_alt, arr_bx_with. f_equal.
    unfold avals. rewrite nel_with_bx, E. reflexivity.
  - intros q a _ _. apply abs_arr_blocks_eq. reflexivity.
Qed.

Lemma cell_step_bsame b i v s s' : cell_step b i v s s' -> bsame [b] s s'.
Proof.
  intros [A L Lv Oth Here In_]. split; [lia|]. intros b' _ Hn. split; auto. apply Oth. intros ->. apply Hn. left; auto.
Qed.

Lemma sq_Write r k v s s' : Good s -> dom_op cfg (s_arrs s) (OWrite r k v) ->
  step cfg (OWrite r k v) s = Ok tt s' -> abs_state s' = vstep cfg (OWrite r k v) (abs_state s).
Proof.
  intros (I & W & T) (ar & L & Dk) H. destruct (live_get s r ar L) as (Gr & Hr & _). destruct L as [_ Nr].
  cbn [step] in H. open_get H. assert (a = ar) by congruence. subst a.
  destruct (Z.ltb_spec (Z.of_nat k) (nel ar)) as [Hk|Hk]; [|discriminate].
  destruct (arr_facts cfg s r ar I Gr ltac:(lia)) as (b & Eb & Lt & Lv & Len & Ow).
  unfold base_blk in H. rewrite Eb in H. cbn in H. apply assign1_inv in H.
  pose proof (cell_step_bsame _ _ _ _ _ H) as B. destruct H as [A L' Lv' Oth Here In_].
  cbn [vstep]. rewrite (vget_abs s r ar Nr), abs_arr_alt. unfold vset.
  eapply abs_upd1 with (a' := Some ar); [exact Hr|rewrite A; symmetry; apply upd_nth_same_val; auto| |].
  - cbn [option_map]. f_equal. rewrite abs_arr_alt. f_equal. unfold avals. rewrite Eb, Lv', Lv.
    destruct (Z.leb_spec (nel ar) 0); [lia|]. exact Here.
  - intros q a Hq Hn. eapply frame_own; eauto. rewrite Ow. exact B.
Qed.

(* whole-array assignment in place *)
Lemma assign_all_square s s0 s' r ar arp ar' srcs V :
  Inv [] s -> get_slot s r = Some ar -> (r < length (s_arrs s))%nat ->
  s_blocks s0 = s_blocks s -> s_arrs s0 = upd_nth (s_arrs s) r (Some ar') ->
  a_base ar' = a_base ar -> nel ar' = nel ar -> a_base arp = a_base ar -> nel arp = nel ar ->
  Forall (fun x => forall b, src_blk x = Some b -> ~ In b (own ar)) srcs ->
  length srcs = nnel ar -> map (src_val s) srcs = V ->
  assign_all cfg arp srcs s0 = Ok tt s' ->
  abs_state s' = upd_nth (abs_state s) r (Some (arr_bx ar', V)).
Proof.
  intros I Gr Hr Bk A0 Eb' En' Ebp Enp Hs Hl HV H.
  destruct (Z.leb_spec (nel ar) 0) as [Hn|Hn].
  - apply assign_all_nil in H; [|lia]. subst s'.
    eapply abs_upd1; [exact Hr|exact A0| |].
    + cbn [option_map]. f_equal. rewrite abs_arr_alt. f_equal. unfold avals. rewrite En'.
      destruct (Z.leb_spec (nel ar) 0); [|lia]. subst V. destruct srcs; auto. cbn in Hl. unfold nnel in Hl. lia.
    + intros q a _ _. apply abs_arr_blocks_eq. auto.
  - destruct (arr_facts cfg s r ar I Gr Hn) as (b & Eb & Lt & Lv & Len & Ow).
    destruct (bvals_blocks_eq s s0 Bk b) as [Vb0 Lb0].
    assert (Hs' : Forall (fun x => src_blk x <> Some b) srcs).
    { eapply Forall_impl; [|exact Hs]. cbn. intros x Hx E. apply (Hx b E). rewrite Ow. left; auto. }
    apply (assign_all_inv cfg arp srcs s0 s' b) in H; auto; try congruence.
    2:{ rewrite Vb0, Len. unfold nnel. congruence. }
    2:{ unfold nnel in *. congruence. }
    destruct H as [A L Lv' Oth Here].
    assert (HV0 : map (src_val s0) srcs = V).
    { rewrite <- HV. apply map_ext. intros x. destruct x; cbn; auto; unfold bvals; rewrite Bk; auto. }
    eapply abs_upd1; [exact Hr|rewrite A; exact A0| |].
    + cbn [option_map]. f_equal. rewrite abs_arr_alt. f_equal. unfold avals. rewrite En', Eb', Eb, Lv', Lb0, Lv.
      destruct (Z.leb_spec (nel ar) 0); [lia|]. rewrite Here. exact HV0.
    + intros q a Hq Hnq. eapply frame_own; eauto. rewrite Ow. split; [rewrite L, Bk; auto|].
      intros b' Hb' Hnin. rewrite Lv', Oth; [apply bvals_blocks_eq; auto|]. intros ->. apply Hnin. left; auto.
Qed.

End Val5.

(* C17 -- the extents rule of Model/CodecArray.v is the one the layout model of C01 computes:
   an array constructed from extensions x (layout_t(x), layout.hpp:735-745) reports
   cx_collapse x as its extensions() and cx_num x as its num_elements(). *)
From BM Require Import Base.Tactics Model.Layout Model.CodecArray.
Local Open Scope Z_scope.

Lemma bridge_x_num x : x_num_elements x = cx_num x.
Proof. induction x; cbn [x_num_elements cx_num]; [reflexivity|]. rewrite IHx. reflexivity. Qed.

Lemma bridge_num_elements x : l_num_elements (mk_layout x) = cx_num x.
Proof.
  induction x as [|r s IH]; [reflexivity|].
  cbn [mk_layout l_num_elements cx_num]. rewrite IH. unfold d_size. cbn [d_nelems d_stride].
  unfold r_size, cr_size.
  destruct ((snd r - fst r) * cx_num s =? 0) eqn:E; bprop; [lia|].
  destruct (cx_num s =? 0) eqn:E2; bprop; [lia|].
  rewrite Z.quot_mul by assumption. reflexivity.
Qed.

Lemma bridge_extensions x : l_extensions (mk_layout x) = cx_collapse x.
Proof.
  induction x as [|r s IH]; [reflexivity|].
  cbn [mk_layout l_extensions map cx_collapse]. fold (l_extensions (mk_layout s)). rewrite IH. f_equal.
  unfold d_extension. cbn [d_nelems d_stride d_offset]. rewrite bridge_num_elements.
  unfold r_size, cr_size.
  destruct ((snd r - fst r) * cx_num s =? 0) eqn:E; bprop; [reflexivity|].
  destruct (cx_num s =? 0) eqn:E2; bprop; [lia|].
  replace (fst r * cx_num s + (snd r - fst r) * cx_num s) with (snd r * cx_num s) by lia.
  rewrite !Z.quot_mul by assumption. destruct r; reflexivity.
Qed.

Lemma bridge_r_eq a b : r_eq a b = cr_eq a b.
Proof. reflexivity. Qed.

Lemma bridge_x_eq a b : x_eq a b = cx_eq a b.
Proof. reflexivity. Qed.

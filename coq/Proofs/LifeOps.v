(* Every array.hpp entry point preserves the ownership invariant (no-fault and faulted runs). *)
From BM Require Import Base.Tactics Model.Life Proofs.LifeBase Proofs.LifeMonad Proofs.LifeInv Proofs.LifeCells
  Proofs.LifeSteps Proofs.LifeCombi.
Local Open Scope Z_scope.

Lemma triple_pure {A} (F : Prop) (P : state -> Prop) (m : M A) Q QT :
  (forall s, P s -> F) -> (F -> triple P m Q QT) -> triple P m Q QT.
Proof. intros H1 H2 s HP. exact (H2 (H1 s HP) s HP). Qed.

Section Ops.
Variable cfg : config.
Hypothesis rank_pos : (1 <= c_rank cfg)%nat.

Notation Inv := (Inv cfg).
Notation cells_ok := (cells_ok cfg).

(* well-formed array objects: as many first indices as sizes *)
Definition wf_arr (a : arr) : Prop := length (a_first a) = length (a_exts a).
Definition wf_slots (A : list (option arr)) : Prop :=
  forall r a, nth_error A r = Some (Some a) -> wf_arr a.
Definition tmps_free (A : list (option arr)) : Prop :=
  nth_error A TMP1 = Some None /\ nth_error A TMP2 = Some None /\ nth_error A TMP3 = Some None.

Definition bad_thrown (s : state) : Prop := thrown SCtorElem s \/ thrown SReextElem s \/ thrown SReextMove s.

(* between operations *)
Definition Good (s : state) : Prop := Inv [] s /\ wf_slots (s_arrs s) /\ tmps_free (s_arrs s).
(* when an operation threw: temporaries may still be alive (they are unwound next), unless the fault fired at one of the
   sites where the code loses track of a block *)
Definition GoodT (s : state) : Prop := (Inv [] s /\ wf_slots (s_arrs s)) \/ bad_thrown s.

Lemma bx_sizes_combine f e : length f = length e -> bx_sizes (combine f e) = e.
Proof. revert e; induction f; destruct e; cbn; intros; try lia; auto. f_equal. apply IHf. lia. Qed.

Lemma bnumel_arr_bx a : wf_arr a -> bnumel (arr_bx a) = nel a.
Proof. intros H. unfold bnumel, arr_bx, nel. rewrite bx_sizes_combine; auto. Qed.

Lemma nel_with_bx al p x : nel (with_bx al p x) = bnumel x.
Proof. unfold nel, with_bx, mk_sizes, bnumel; cbn. apply numel_collapse. Qed.

Lemma collapse_length x : length (collapse x) = length x.
Proof. induction x; cbn; auto. Qed.

Lemma wf_with_bx al p x : wf_arr (with_bx al p x).
Proof.
  unfold wf_arr, with_bx, mk_firsts, mk_sizes; cbn. rewrite map_length, combine_length.
  unfold bx_firsts, bx_sizes. rewrite collapse_length, !map_length. lia.
Qed.

Lemma wf_empty al p : wf_arr (empty_arr cfg al p).
Proof. reflexivity. Qed.

Lemma wf_slots_upd A r o : wf_slots A -> (forall a, o = Some a -> wf_arr a) -> wf_slots (upd_nth A r o).
Proof.
  intros H Ho r' a Hn. destruct (Nat.eq_dec r r') as [<-|Hne].
  - destruct (Nat.lt_ge_cases r (length A)).
    + rewrite nth_upd_same in Hn by auto. inv Hn. auto.
    + assert (nth_error (upd_nth A r o) r = None) by (apply nth_error_None; rewrite upd_nth_length; auto). congruence.
  - rewrite nth_upd_other in Hn by auto. eauto.
Qed.

Lemma alloc_eq_refl a : alloc_eq cfg a a = true.
Proof. unfold alloc_eq. rewrite Z.eqb_refl. apply orb_true_r. Qed.

Definition slotA (A : list (option arr)) (r : nat) : option arr :=
  match nth_error A r with Some o => o | None => None end.

Lemma get_slot_A s A r : s_arrs s = A -> get_slot s r = slotA A r.
Proof. intros <-. reflexivity. Qed.

Lemma slotA_upd A r r' o : (r < length A)%nat -> slotA (upd_nth A r o) r' = if (r =? r')%nat then o else slotA A r'.
Proof.
  intros H. unfold slotA. destruct (r =? r')%nat eqn:E.
  - apply Nat.eqb_eq in E. subst. rewrite nth_upd_same; auto.
  - apply Nat.eqb_neq in E. rewrite nth_upd_other; auto.
Qed.

(* ---- install: the constructed block (or nothing) becomes the value of an array object ---- *)
Lemma install_spec X r al x A p :
  (r < NSLOTS)%nat -> nonowning (slotA A r) ->
  triple (fun s => s_arrs s = A /\
            match p with
            | PNull => bnumel x <= 0 /\ Inv X s
            | PBlk b => 0 < bnumel x /\ Inv (b :: X) s /\ built cfg s b al (bnumel x)
            end)
         (install r al p x)
         (fun _ s' => Inv X s' /\ s_arrs s' = upd_nth A r (Some (with_bx al p x)))
         (fun _ => False).
Proof.
  intros Hr Hn s [HA H]. unfold install. rewrite set_arr_eq. split; [|cbn; rewrite HA; reflexivity].
  destruct p as [|b].
  - destruct H as [Hx I]. apply Inv_set_nonowning; auto.
    + rewrite (get_slot_A _ _ _ HA). exact Hn.
    + unfold nonowning. rewrite nel_with_bx. exact Hx.
  - destruct H as (Hx & I & blk & Hb & Hl & Ho & Hs & Hok).
    eapply Inv_own; eauto.
    + rewrite (get_slot_A _ _ _ HA). exact Hn.
    + rewrite nel_with_bx. exact Hx.
    + rewrite nel_with_bx. exact Hs.
    + cbn. rewrite Ho. apply alloc_eq_refl.
Qed.

(* ---- allocate + construct + install ---- *)
Lemma build_install_spec X r al x rowlen srcs A :
  (r < NSLOTS)%nat -> nonowning (slotA A r) ->
  Forall (src_in A) srcs -> (0 < bnumel x -> length srcs = Z.to_nat (bnumel x)) ->
  triple (fun s => Inv X s /\ s_arrs s = A)
         (p <- p_build cfg al (bnumel x) rowlen srcs ;; install r al p x)
         (fun _ s' => Inv X s' /\ exists p, s_arrs s' = upd_nth A r (Some (with_bx al p x)))
         (fun s' => s_arrs s' = A /\ ((Inv X s' /\ thrown SAlloc s') \/ thrown SCtorElem s')).
Proof.
  intros Hr Hn F Hlen.
  eapply triple_bind; [eapply p_build_spec; eassumption|].
  intros p. eapply triple_conseq; [apply (install_spec X r al x A p Hr Hn)| | |].
  - intros s H. exact H.
  - intros _ s [I HA]. split; auto. exists p; auto.
  - intros s [].
Qed.

(* ---- the documented domain of each operation, relative to the array objects alive ---- *)
Definition live (A : list (option arr)) (r : nat) (a : arr) : Prop := (r < NP)%nat /\ nth_error A r = Some (Some a).
Definition free (A : list (option arr)) (r : nat) : Prop := (r < NP)%nat /\ nth_error A r = Some None.
Definition vsrc_dom (as_ : arr) (v : vsrc) : Prop :=
  Forall (fun o => Z.of_nat o < nel as_) (vs_offs v) /\ (0 < bnumel (vs_exts v) -> length (vs_offs v) = Z.to_nat (bnumel (vs_exts v))).
Definition rows_dom (w : rows) : Prop :=
  0 < bnumel (rows_exts w) -> length (rw_vals w) = Z.to_nat (bnumel (rows_exts w)).

Definition dom_op (A : list (option arr)) (o : lop) : Prop :=
  match o with
  | OCtorDefault r _ | OCtorSized r _ _ | OCtorFill r _ _ _ => free A r
  | OCtorCopy r s | OCtorCopyAlloc r s _ | OCtorMove r s | OCtorMoveAlloc r s _ => free A r /\ exists as_, live A s as_
  | OCtorView r _ s v => free A r /\ exists as_, live A s as_ /\ vsrc_dom as_ v
  | OCtorRange r _ w | OCtorIl r w => free A r /\ rows_dom w
  | OCtorConv r x vals => free A r /\ (0 < bnumel x -> length vals = Z.to_nat (bnumel x))
  | OAssignCopy r s | OAssignMove r s => (exists ar, live A r ar) /\ exists as_, live A s as_
  | OAssignView r s v _ => r <> s /\ (exists ar, live A r ar) /\ exists as_, live A s as_ /\ vsrc_dom as_ v
  | OAssignRange r w => (exists ar, live A r ar) /\ rows_dom w
  | OAssignIlEmpty r | OClear r | ODestroy r => exists ar, live A r ar
  | OAssignFill r _ _ => exists ar, live A r ar
  | OAssignConv r x vals => (exists ar, live A r ar) /\ (0 < bnumel x -> length vals = Z.to_nat (bnumel x))
  | OSwap r s => exists ar as_, live A r ar /\ live A s as_ /\ (c_pocs cfg = true \/ alloc_eq cfg (a_alloc ar) (a_alloc as_) = true)
  | OReextent r x _ => exists ar, live A r ar /\ length x = length (a_exts ar)
  | OReextentMove r _ => exists ar, live A r ar
  | OReshape r x => exists ar, live A r ar /\ bnumel x = nel ar
  | OWrite r k _ => exists ar, live A r ar /\ Z.of_nat k < nel ar
  | OViewAssign r s vr vs =>
      (* views of two different arrays with equal extensions (the assertion of every subarray::operator=) *)
      r <> s /\ (exists ar, live A r ar /\ vsrc_dom ar vr) /\ (exists as_, live A s as_ /\ vsrc_dom as_ vs)
      /\ bx_eq (vs_exts vr) (vs_exts vs) = true
  end.

Lemma live_slot A r a : live A r a -> slotA A r = Some a.
Proof. intros [_ H]. unfold slotA. rewrite H. reflexivity. Qed.
Lemma free_slot A r : free A r -> slotA A r = None.
Proof. intros [_ H]. unfold slotA. rewrite H. reflexivity. Qed.
Lemma live_lt A r a : live A r a -> (r < NSLOTS)%nat.
Proof. intros [H _]. unfold NP, NSLOTS in *. lia. Qed.
Lemma free_lt A r : free A r -> (r < NSLOTS)%nat.
Proof. intros [H _]. unfold NP, NSLOTS in *. lia. Qed.

Lemma tmps_free_upd A r o : (r < NP)%nat -> tmps_free A -> tmps_free (upd_nth A r o).
Proof.
  intros Hr (H1 & H2 & H3). unfold tmps_free, TMP1, TMP2, TMP3, NP in *.
  rewrite !nth_upd_other by lia. auto.
Qed.

Lemma Good_intro s A : Inv [] s -> s_arrs s = A -> wf_slots A -> tmps_free A -> Good s.
Proof. intros I <- W T. split; auto. Qed.

(* cells of a live array object as sources *)
Lemma cells_of_src_in A s mk a :
  (mk = SCell \/ mk = SMoveCell) -> nth_error A s = Some (Some a) -> Forall (src_in A) (cells_of mk a).
Proof.
  intros Hmk Hs. unfold cells_of. destruct (a_base a) as [|b] eqn:Eb; [constructor|].
  apply Forall_forall. intros x Hx. apply in_map_iff in Hx. destruct Hx as (i & <- & Hi).
  apply in_seq in Hi.
  assert (Hlt : Z.of_nat i < nel a) by (unfold nnel in Hi; lia).
  destruct Hmk as [-> | ->]; cbn; exists s, a; auto.
Qed.

Lemma cells_of_length X s A r mk a :
  Inv X s -> s_arrs s = A -> nth_error A r = Some (Some a) -> 0 < nel a -> length (cells_of mk a) = Z.to_nat (nel a).
Proof.
  intros I HA Hr Hp. assert (Hs : get_slot s r = Some a) by (unfold get_slot; rewrite HA, Hr; reflexivity).
  destruct (inv_arr _ _ _ I r a Hs Hp) as (b & blk & Hb & _). unfold cells_of. rewrite Hb.
  rewrite map_length. unfold seqn. rewrite seq_length. reflexivity.
Qed.

(* reading the array objects *)
Lemma slot_free_ok X A r QT : nth_error A r = Some None ->
  triple (fun s => Inv X s /\ s_arrs s = A) (slot_free r) (fun _ s => Inv X s /\ s_arrs s = A) QT.
Proof. intros H s [I HA]. unfold slot_free. rewrite HA, H. auto. Qed.

Lemma get_arr_ok X A r a QT : nth_error A r = Some (Some a) ->
  triple (fun s => Inv X s /\ s_arrs s = A) (get_arr r) (fun x s => x = a /\ Inv X s /\ s_arrs s = A) QT.
Proof. intros H s [I HA]. unfold get_arr. rewrite HA, H. auto. Qed.

(* run a step that reads an array object, then continue with its value *)
Lemma bind_get_arr {B} X A r a (f : arr -> M B) Q QT : nth_error A r = Some (Some a) ->
  triple (fun s => Inv X s /\ s_arrs s = A) (f a) Q QT ->
  triple (fun s => Inv X s /\ s_arrs s = A) (bind (get_arr r) f) Q QT.
Proof.
  intros H T. eapply triple_bind; [apply (get_arr_ok X A r a QT H)|].
  intros x. apply triple_assume with (P := fun s => Inv X s /\ s_arrs s = A). intros ->. exact T.
Qed.

Lemma bind_slot_free {B} X A r (m : M B) Q QT : nth_error A r = Some None ->
  triple (fun s => Inv X s /\ s_arrs s = A) m Q QT ->
  triple (fun s => Inv X s /\ s_arrs s = A) (bind (slot_free r) (fun _ => m)) Q QT.
Proof. intros H T. eapply triple_bind; [apply (slot_free_ok X A r QT H)|]. intros u. exact T. Qed.

Lemma GoodT_alloc s A : wf_slots A -> s_arrs s = A /\ ((Inv [] s /\ thrown SAlloc s) \/ thrown SCtorElem s) -> GoodT s.
Proof. intros W [HA [[I _]|T]]; [left; split; [auto|rewrite HA; auto]|right; left; auto]. Qed.

(* the constructors that allocate, construct and install *)
Lemma ctor_build_ok A r al x rowlen srcs :
  wf_slots A -> tmps_free A -> free A r ->
  Forall (src_in A) srcs -> (0 < bnumel x -> length srcs = Z.to_nat (bnumel x)) ->
  triple (fun s => Inv [] s /\ s_arrs s = A)
         (p <- p_build cfg al (bnumel x) rowlen srcs ;; install r al p x)
         (fun _ s' => Good s') GoodT.
Proof.
  intros W T D F Hlen.
  eapply triple_conseq; [apply (build_install_spec [] r al x rowlen srcs A)| | |]; eauto.
  - eapply free_lt; eauto.
  - rewrite (free_slot _ _ D). exact I.
  - intros _ s [I [p HA]]. eapply Good_intro; eauto.
    + apply wf_slots_upd; auto. intros a E; inv E. apply wf_with_bx.
    + apply tmps_free_upd; auto. apply D.
  - intros s H. eapply GoodT_alloc; eauto.
Qed.

Lemma repeat_src_in A v n : Forall (src_in A) (repeat (SVal v) n).
Proof. apply Forall_forall. intros x Hx. apply repeat_spec in Hx. subst. exact I. Qed.
Lemma map_SVal_src_in A vals : Forall (src_in A) (map SVal vals).
Proof. apply Forall_forall. intros x Hx. apply in_map_iff in Hx. destruct Hx as (v & <- & _). exact I. Qed.

Definition op_ok (o : lop) : Prop :=
  forall A, wf_slots A -> tmps_free A -> dom_op A o ->
    triple (fun s => Inv [] s /\ s_arrs s = A) (step cfg o) (fun _ s' => Good s') GoodT.

Lemma ok_CtorDefault r a : op_ok (OCtorDefault r a).
Proof.
  intros A W T D. cbn [step] in *. apply bind_slot_free; [apply D|].
  intros s [I HA]. rewrite set_arr_eq. eapply Good_intro with (A := upd_nth A r (Some (empty_arr cfg a PNull))).
  - apply Inv_set_nonowning; auto. + eapply free_lt; eauto.
    + rewrite (get_slot_A _ _ _ HA), (free_slot _ _ D). exact Logic.I.
    + unfold nonowning. rewrite nel_empty; auto. lia.
  - cbn. rewrite HA. reflexivity.
  - apply wf_slots_upd; auto. intros a' E; inv E. apply wf_empty.
  - apply tmps_free_upd; auto. apply D.
Qed.

Lemma ok_CtorFill r a x v : op_ok (OCtorFill r a x v).
Proof.
  intros A W T D. cbn [step] in *. apply bind_slot_free; [apply D|].
  apply ctor_build_ok; auto. - apply repeat_src_in. - intros _. apply repeat_length.
Qed.

(* ---- constructors from another array object ---- *)
Lemma ctor_from_arr_ok A r t at_ al mk :
  wf_slots A -> tmps_free A -> free A r -> nth_error A t = Some (Some at_) -> (mk = SCell \/ mk = SMoveCell) ->
  triple (fun s => Inv [] s /\ s_arrs s = A)
         (p <- p_build cfg al (nel at_) 0 (cells_of mk at_) ;; install r al p (arr_bx at_))
         (fun _ s' => Good s') GoodT.
Proof.
  intros W T D Ht Hmk.
  assert (Hwf : wf_arr at_) by (eapply W; eauto).
  rewrite <- (bnumel_arr_bx _ Hwf).
  apply triple_pure with (F := 0 < nel at_ -> length (cells_of mk at_) = Z.to_nat (nel at_)).
  { intros s [I HA] Hp. eapply cells_of_length; eauto. }
  intros Hlen. apply ctor_build_ok; auto.
  - eapply cells_of_src_in; eauto.
  - rewrite (bnumel_arr_bx _ Hwf). exact Hlen.
Qed.

Lemma ok_CtorCopy r t : op_ok (OCtorCopy r t).
Proof.
  intros A W T [D (at_ & Dt)]. cbn [step]. apply bind_slot_free; [apply D|].
  eapply bind_get_arr; [apply Dt|]. cbv zeta. eapply ctor_from_arr_ok; eauto. apply Dt.
Qed.

Lemma ok_CtorCopyAlloc r t a : op_ok (OCtorCopyAlloc r t a).
Proof.
  intros A W T [D (at_ & Dt)]. cbn [step]. apply bind_slot_free; [apply D|].
  eapply bind_get_arr; [apply Dt|]. eapply ctor_from_arr_ok; eauto. apply Dt.
Qed.

Lemma vsrc_src_in A t at_ v : nth_error A t = Some (Some at_) -> vsrc_dom at_ v -> Forall (src_in A) (vsrc_cells at_ v).
Proof.
  intros Ht [Ho _]. unfold vsrc_cells. destruct (a_base at_) as [|b] eqn:Eb; [constructor|].
  apply Forall_forall. intros x Hx. apply in_map_iff in Hx. destruct Hx as (o & <- & Hin).
  cbn. exists t, at_. repeat split; auto. eapply Forall_forall in Ho; eauto.
Qed.

Lemma vsrc_length X s A t at_ v :
  Inv X s -> s_arrs s = A -> nth_error A t = Some (Some at_) -> vsrc_dom at_ v ->
  0 < bnumel (vs_exts v) -> length (vsrc_cells at_ v) = Z.to_nat (bnumel (vs_exts v)).
Proof.
  intros I HA Ht [Ho Hl] Hp. specialize (Hl Hp).
  assert (Hpos : 0 < nel at_).
  { destruct (vs_offs v) as [|o l]; [cbn in Hl; lia|]. inv Ho. lia. }
  assert (Hs : get_slot s t = Some at_) by (unfold get_slot; rewrite HA, Ht; reflexivity).
  destruct (inv_arr _ _ _ I t at_ Hs Hpos) as (b & blk & Hb & _). unfold vsrc_cells. rewrite Hb, map_length. exact Hl.
Qed.

Lemma ok_CtorView r a t v : op_ok (OCtorView r a t v).
Proof.
  intros A W T [D (at_ & Dt & Dv)]. cbn [step]. apply bind_slot_free; [apply D|].
  eapply bind_get_arr; [apply Dt|].
  apply triple_pure with (F := 0 < bnumel (vs_exts v) -> length (vsrc_cells at_ v) = Z.to_nat (bnumel (vs_exts v))).
  { intros s [I HA]. eapply vsrc_length; eauto. apply Dt. }
  intros Hlen. apply ctor_build_ok; auto. eapply vsrc_src_in; eauto. apply Dt.
Qed.

Lemma ok_CtorRange r a w : op_ok (OCtorRange r a w).
Proof.
  intros A W T [D Dw]. cbn [step]. apply bind_slot_free; [apply D|].
  apply ctor_build_ok; auto. - apply map_SVal_src_in. - intros Hp. rewrite map_length. apply Dw; auto.
Qed.

Lemma ok_CtorConv r x vals : op_ok (OCtorConv r x vals).
Proof.
  intros A W T [D Dw]. cbn [step]. apply bind_slot_free; [apply D|].
  apply ctor_build_ok; auto. - apply map_SVal_src_in. - intros Hp. rewrite map_length. apply Dw; auto.
Qed.

Lemma ok_CtorSized r a x : op_ok (OCtorSized r a x).
Proof.
  intros A W T D. cbn [step]. apply bind_slot_free; [apply D|].
  eapply triple_bind.
  { eapply triple_conseq; [apply (alloc_spec cfg rank_pos [] a (bnumel x) A)| | |].
    - auto. - intros p s H; exact H.
    - intros s (I & HA & Th). left. split; auto. rewrite HA; auto. }
  intros p.
  eapply triple_bind with (Q := fun _ s => s_arrs s = A /\
            match p with
            | PNull => bnumel x <= 0 /\ Inv [] s
            | PBlk b => 0 < bnumel x /\ Inv [b] s /\ built cfg s b a (bnumel x)
            end).
  - destruct p as [|b].
    + intros s H. exact H.
    + intros s1 (HA & Hn & I1 & Sh & blk1 & Hb1 & Ho1 & Hs1).
      destruct (c_tdc cfg) eqn:Ht.
      * cbn. split; auto. split; auto. split; auto.
        destruct Sh as (blk & Hb & Hl & _). assert (blk = blk1) by congruence. subst.
        exists blk1. repeat split; auto. apply trivial_cells_ok; auto.
      * assert (Tr := default_construct_n_spec cfg rank_pos [b] s1 b (Z.to_nat (bnumel x)) (or_introl eq_refl) (Z.to_nat (bnumel x)) 0
                        ltac:(lia) s1 (conj (st_le_refl cfg [b] s1) Sh)).
        destruct (default_construct_n b 0 (Z.to_nat (bnumel x)) s1) as [[] s2|s2|e]; try contradiction.
        destruct Tr as [L Sh2]. split; [destruct L as (E & _); congruence|]. split; auto. split.
        -- eapply Inv_st_le; [exact I1|exact L|]. intros b' [<-|[]]. left; left; auto.
        -- cbn in Sh2. destruct (shape_full_ok cfg _ _ _ Sh2) as (blk2 & Hb2 & Hl2 & _ & Hok2).
           destruct L as (_ & _ & _ & HL). destruct (HL b blk1 Hb1) as (blk2' & Hb2' & O & Sz & _).
           assert (blk2' = blk2) by congruence. subst blk2'. exists blk2. repeat split; auto; congruence.
  - intros _. eapply triple_conseq; [apply (install_spec [] r a x A p)| | |].
    + eapply free_lt; eauto.
    + rewrite (free_slot _ _ D). exact I.
    + intros s H; exact H.
    + intros _ s [I HA]. eapply Good_intro; eauto.
      * apply wf_slots_upd; auto. intros a' E; inv E. apply wf_with_bx.
      * apply tmps_free_upd; auto. apply D.
    + intros s [].
Qed.

(* ---- element assignment into the block of an array object, from values or from OTHER array objects ---- *)
Definition src_in_ex (A : list (option arr)) (r : nat) (x : src) : Prop :=
  match x with
  | SVal _ => True
  | SCell b i | SMoveCell b i =>
      exists r' a, r' <> r /\ nth_error A r' = Some (Some a) /\ a_base a = PBlk b /\ Z.of_nat i < nel a
  end.

Lemma src_in_ex_ok X s A r ar b x :
  Inv X s -> s_arrs s = A -> nth_error A r = Some (Some ar) -> 0 < nel ar -> a_base ar = PBlk b ->
  src_in_ex A r x -> src_ok cfg s [b] x.
Proof.
  intros I HA Hr Hp Hb H.
  assert (Hin : src_in A x).
  { destruct x; cbn in *; auto; destruct H as (r' & a & _ & H1 & H2 & H3); exists r', a; auto. }
  pose proof (src_in_ok cfg rank_pos X [] s A x I HA Hin ltac:(intros ? [])) as Hok.
  destruct x as [v|b' i|b' i]; cbn in *; auto.
  all: destruct Hok as [_ Hc]; split; auto; intros [<-|[]];
    destruct H as (r' & a & Hne & H1 & H2 & H3); apply Hne;
    eapply (inv_disj _ _ _ I r' r b); [exists a|exists ar]; repeat split; auto; try lia;
    unfold get_slot; rewrite HA; [rewrite H1|rewrite Hr]; reflexivity.
Qed.

Lemma assign_all_spec X A r ar0 ar srcs :
  nth_error A r = Some (Some ar0) -> a_base ar0 = a_base ar -> nel ar0 = nel ar -> Forall (src_in_ex A r) srcs ->
  triple (fun s => Inv X s /\ s_arrs s = A)
         (assign_all cfg ar srcs)
         (fun _ s' => Inv X s' /\ s_arrs s' = A)
         (fun s' => Inv X s' /\ s_arrs s' = A /\ thrown SAssignElem s').
Proof.
  intros Hr Eb En F s [I HA]. unfold assign_all. destruct (Z.leb_spec (nel ar) 0) as [Hz|Hp]; [cbn; auto|].
  assert (Hs : get_slot s r = Some ar0) by (unfold get_slot; rewrite HA, Hr; reflexivity).
  assert (Hp0 : 0 < nel ar0) by lia.
  destruct (inv_arr _ _ _ I r ar0 Hs Hp0) as (b & blk & Hb & Hblk & Hlv & Hsz & Hal & Hok).
  destruct (inv_blk _ _ _ I b blk Hblk) as [[_ Hlen] _].
  unfold bind at 1. unfold base_blk. rewrite <- Eb, Hb. cbn [ret].
  assert (Fok : Forall (src_ok cfg s [b]) srcs).
  { eapply Forall_impl; [|exact F]. intros x Hx. eapply src_in_ex_ok; eauto. }
  assert (Fo : Forall (fun o => (o < nnel ar)%nat) (seqn (nnel ar))).
  { apply Forall_forall. intros o Ho. apply in_seq in Ho. lia. }
  assert (Ai : allinit cfg s b (nnel ar)).
  { exists blk. repeat split; auto. unfold nnel. rewrite Hlen, Hsz, En. reflexivity. }
  pose proof (assign_loop_spec cfg rank_pos SAssignElem [b] s b (nnel ar) (or_introl eq_refl) (seqn (nnel ar)) srcs Fok Fo s
                (conj (st_le_refl cfg [b] s) Ai)) as Tr.
  destruct (assign_loop cfg SAssignElem b (seqn (nnel ar)) srcs s) as [[] s'|s'|e]; try contradiction.
  - destruct Tr as [L (blk' & Hb' & _ & _ & Hok')]. split.
    + eapply Inv_st_le; [exact I|exact L|]. intros b' [<-|[]]. right. intros blk2 H2. assert (blk2 = blk') by congruence. subst; auto.
    + destruct L as (E & _). congruence.
  - destruct Tr as (L & (blk' & Hb' & _ & _ & Hok') & Th). split; [|split; auto].
    + eapply Inv_st_le; [exact I|exact L|]. intros b' [<-|[]]. right. intros blk2 H2. assert (blk2 = blk') by congruence. subst; auto.
    + destruct L as (E & _). congruence.
Qed.

(* element assignment at given offsets of the block of a live array (assignment through views) *)
Lemma assign_offs_spec X A r ar offs srcs :
  nth_error A r = Some (Some ar) -> Forall (src_in_ex A r) srcs -> Forall (fun o => (o < nnel ar)%nat) offs ->
  triple (fun s => Inv X s /\ s_arrs s = A)
         (if nel ar <=? 0 then ret tt else b <- base_blk ar ;; assign_loop cfg SAssignElem b offs srcs)
         (fun _ s' => Inv X s' /\ s_arrs s' = A)
         (fun s' => Inv X s' /\ s_arrs s' = A /\ thrown SAssignElem s').
Proof.
  intros Hr F Fo s [I HA]. destruct (Z.leb_spec (nel ar) 0) as [Hz|Hp]; [cbn; auto|].
  assert (Hs : get_slot s r = Some ar) by (unfold get_slot; rewrite HA, Hr; reflexivity).
  destruct (inv_arr _ _ _ I r ar Hs Hp) as (b & blk & Hb & Hblk & Hlv & Hsz & Hal & Hok).
  destruct (inv_blk _ _ _ I b blk Hblk) as [[_ Hlen] _].
  unfold bind at 1. unfold base_blk. rewrite Hb. cbn [ret].
  assert (Fok : Forall (src_ok cfg s [b]) srcs).
  { eapply Forall_impl; [|exact F]. intros x Hx. eapply src_in_ex_ok; eauto. }
  assert (Ai : allinit cfg s b (nnel ar)).
  { exists blk. repeat split; auto. unfold nnel. rewrite Hlen, Hsz. reflexivity. }
  pose proof (assign_loop_spec cfg rank_pos SAssignElem [b] s b (nnel ar) (or_introl eq_refl) offs srcs Fok Fo s
                (conj (st_le_refl cfg [b] s) Ai)) as Tr.
  destruct (assign_loop cfg SAssignElem b offs srcs s) as [[] s'|s'|e]; try contradiction.
  - destruct Tr as [L (blk' & Hb' & _ & _ & Hok')]. split.
    + eapply Inv_st_le; [exact I|exact L|]. intros b' [<-|[]]. right. intros blk2 H2. assert (blk2 = blk') by congruence. subst; auto.
    + destruct L as (E & _). congruence.
  - destruct Tr as (L & (blk' & Hb' & _ & _ & Hok') & Th). split; [|split; auto].
    + eapply Inv_st_le; [exact I|exact L|]. intros b' [<-|[]]. right. intros blk2 H2. assert (blk2 = blk') by congruence. subst; auto.
    + destruct L as (E & _). congruence.
Qed.

End Ops.

(* C18: the statements proved, assembled from MpiTypesProofs / MpiSkeletonProofs / MpiLedgerProofs and
   (for views reachable as in C01) ViewProofs2. *)
From BM Require Import Base.Tactics Model.Layout Model.View Model.Spec
  Model.MpiTypes Model.MpiSkeleton Model.MpiLedger Model.MpiRun
  Proofs.LayoutProofs Proofs.ViewProofs2 Proofs.MpiTypesProofs Proofs.MpiSkeletonProofs Proofs.MpiLedgerProofs
  Proofs.C18Injective.
Local Open Scope Z_scope.

(* ---- 1. the message denotes exactly the elements, in canonical order ---- *)
Theorem C18_message_is_elements_proved :
  forall (l : layout) (szs : list Z) (S : Z),
    lay_ok l szs ->          (* a zero-based view with sizes szs: any rank, any sizes >= 0, any strides *)
    l <> [] ->               (* dimensionality >= 1 *)
    let m := message_model l S in
       fst m = l_size l
    /\ message_bytes (fst m) (snd m) = elem_offsets l szs S
    /\ message_bytes (fst m) (snd m) = flat_offsets l S
    /\ (forall idx, In idx (canon_indices szs) <-> valid_idx szs idx)
    /\ NoDup (canon_indices szs)
    /\ length (message_bytes (fst m) (snd m)) = Z.to_nat (l_num_elements l).
Proof.
  intros l szs S Hok Hne m.
  pose proof (message_is_elements_proved l szs S Hok Hne) as Hm. fold m in Hm.
  split; [reflexivity|]. split; [exact Hm|]. split.
  { rewrite Hm. symmetry. apply flat_offsets_canon. assumption. }
  split; [apply in_canon|]. split; [apply NoDup_canon|].
  rewrite Hm. unfold elem_offsets. rewrite map_length, canon_length by (eapply lay_ok_nonneg; eassumption).
  rewrite (lay_ok_num_elements _ _ Hok). reflexivity.
Qed.

(* ---- 2. views reachable as in C01: every entry is an element of the view, inside the root ---- *)
Theorem C18_reachable_view_proved :
  forall (rsz : list Z) (ops : list op) (v : view) (S : Z),
    Forall (fun n => 0 <= n) rsz ->
    Forall c01_op ops ->
    run_ops ops (root_view (zb rsz)) = Some v ->
    lay v <> [] ->
    let a := run_spec ops (root_spec rsz) in
    let m := message_model (lay v) S in
       message_bytes (fst m) (snd m)
       = map (fun idx => S * (addr_brackets v idx - base v)) (canon_indices (asz a))
    /\ (forall idx, In idx (canon_indices (asz a)) ->
          valid_idx (asz a) idx /\ 0 <= addr_brackets v idx < prod rsz).
Proof.
  intros rsz ops v S Hsz Hops Hrun Hne a m.
  pose proof (represents_run _ ops _ _ _ Hops (represents_root rsz Hsz) Hrun) as [Hok Ha].
  fold a in Hok, Ha. split.
  - subst m. rewrite (message_is_elements_proved _ _ S Hok Hne). unfold elem_offsets.
    apply map_ext. intros idx. rewrite addr_brackets_eq. f_equal. lia.
  - intros idx Hin. apply in_canon in Hin. split; [assumption|].
    destruct (Ha idx Hin) as [Hv Er]. rewrite addr_brackets_eq. unfold v_addr in Er. rewrite Er.
    apply rowmajor_bounds in Hv. rewrite prod_collapse in Hv. lia.
Qed.

(* ---- 3. transfer between two views with the same number of elements ---- *)
Lemma nth_map_zseq (f : Z -> Z) n k d : 0 <= k < n -> nth (Z.to_nat k) (map f (zseq n)) d = f k.
Proof.
  intros H. rewrite (nth_indep _ d (f 0)) by (rewrite map_length, zseq_length; lia).
  rewrite map_nth, nth_zseq by lia. f_equal. lia.
Qed.

Theorem C18_transfer_proved :
  forall (V : Type) (lv lw : layout) (szv szw : list Z) (S bv bw : Z) (msrc mdst : Z -> V),
    lay_ok lv szv -> lv <> [] -> lay_ok lw szw -> lw <> [] ->
    l_num_elements lv = l_num_elements lw ->        (* same number of elements, any other layout *)
    NoDup (elem_offsets lw szw S) ->                (* receive entries do not overlap (MPI-3.1 4.1.11) *)
    let mv := message_model lv S in
    let mw := message_model lw S in
    let packed := pack msrc bv (message_bytes (fst mv) (snd mv)) in
    let m' := unpack mdst bw (message_bytes (fst mw) (snd mw)) packed in
       length packed = Z.to_nat (l_num_elements lv)
    /\ (forall k, 0 <= k < l_num_elements lv ->
            nth (Z.to_nat k) packed (msrc (bv + 0))
            = msrc (bv + S * l_call lv (x_from_linear (l_extensions lv) k))
         /\ m' (bw + S * l_call lw (x_from_linear (l_extensions lw) k))
            = msrc (bv + S * l_call lv (x_from_linear (l_extensions lv) k)))
    /\ (forall a, (forall idx, valid_idx szw idx -> a <> bw + S * l_addr lw idx) -> m' a = mdst a).
Proof.
  intros V lv lw szv szw S bv bw msrc mdst Hv Hvne Hw Hwne Hn Hnd mv mw packed m'.
  pose proof (message_is_elements_proved lv szv S Hv Hvne) as Ev. fold mv in Ev.
  pose proof (message_is_elements_proved lw szw S Hw Hwne) as Ew. fold mw in Ew.
  pose proof (flat_offsets_canon lv szv S Hv) as Fv.
  pose proof (flat_offsets_canon lw szw S Hw) as Fw.
  assert (Lv : length (flat_offsets lv S) = Z.to_nat (l_num_elements lv))
    by (unfold flat_offsets; rewrite map_length, zseq_length; reflexivity).
  assert (Lw : length (flat_offsets lw S) = Z.to_nat (l_num_elements lv))
    by (unfold flat_offsets; rewrite map_length, zseq_length, Hn; reflexivity).
  subst packed m'. rewrite Ev, Ew, <- Fv, <- Fw. rewrite <- Fw in Hnd.
  split; [rewrite pack_length; exact Lv|]. split.
  - intros k Hk.
    set (fv := fun k => S * l_call lv (x_from_linear (l_extensions lv) k)).
    set (fw := fun k => S * l_call lw (x_from_linear (l_extensions lw) k)).
    assert (Nv : nth (Z.to_nat k) (flat_offsets lv S) 0 = fv k) by (apply nth_map_zseq; assumption).
    assert (Nw : nth (Z.to_nat k) (flat_offsets lw S) 0 = fw k) by (apply nth_map_zseq; lia).
    split.
    + unfold pack. rewrite (map_nth (fun o => msrc (bv + o))). rewrite Nv. reflexivity.
    + change (S * l_call lw (x_from_linear (l_extensions lw) k)) with (fw k).
      change (S * l_call lv (x_from_linear (l_extensions lv) k)) with (fv k).
      rewrite <- Nw, <- Nv. apply pack_unpack_nth; [assumption|lia|lia].
  - intros a Ha. apply unpack_frame. intros o Ho. rewrite Fw in Ho. unfold elem_offsets in Ho.
    apply in_map_iff in Ho as (idx & <- & Hidx). apply Ha. apply in_canon. assumption.
Qed.

(* the same for two views reachable as in C01: the non-overlap premise is discharged
   (Proofs/C18Injective.v: the documented index maps are injective) *)
Theorem C18_transfer_reachable_proved :
  forall (V : Type) (rsv rsw : list Z) (opsv opsw : list op) (v w : view) (S bv bw : Z) (msrc mdst : Z -> V),
    Forall (fun n => 0 <= n) rsv -> Forall c01_op opsv -> run_ops opsv (root_view (zb rsv)) = Some v -> lay v <> [] ->
    Forall (fun n => 0 <= n) rsw -> Forall c01_op opsw -> run_ops opsw (root_view (zb rsw)) = Some w -> lay w <> [] ->
    l_num_elements (lay v) = l_num_elements (lay w) ->
    S <> 0 ->
    let aw := run_spec opsw (root_spec rsw) in
    let mv := message_model (lay v) S in
    let mw := message_model (lay w) S in
    let packed := pack msrc bv (message_bytes (fst mv) (snd mv)) in
    let m' := unpack mdst bw (message_bytes (fst mw) (snd mw)) packed in
       length packed = Z.to_nat (l_num_elements (lay v))
    /\ (forall k, 0 <= k < l_num_elements (lay v) ->
            nth (Z.to_nat k) packed (msrc (bv + 0))
            = msrc (bv + S * l_call (lay v) (x_from_linear (l_extensions (lay v)) k))
         /\ m' (bw + S * l_call (lay w) (x_from_linear (l_extensions (lay w)) k))
            = msrc (bv + S * l_call (lay v) (x_from_linear (l_extensions (lay v)) k)))
    /\ (forall a, (forall idx, valid_idx (asz aw) idx -> a <> bw + S * l_addr (lay w) idx) -> m' a = mdst a).
Proof.
  intros V rsv rsw opsv opsw v w S bv bw msrc mdst Hsv Hov Hrv Hv Hsw How Hrw Hw Hn HS aw.
  destruct (reachable_entries_distinct rsv opsv v S Hsv Hov Hrv HS) as [Hokv _].
  destruct (reachable_entries_distinct rsw opsw w S Hsw How Hrw HS) as [Hokw Hnd].
  exact (C18_transfer_proved V (lay v) (lay w) _ _ S bv bw msrc mdst Hokv Hv Hokw Hw Hn Hnd).
Qed.

(* ---- 4. the datatype ledger ---- *)
Definition freed_once (tr : list ev) : Prop :=
     ledger_balanced tr = true      (* accepted: constructor arguments live, commit before communication,
                                       free only of live handles; nothing live at the end *)
  /\ NoDup (created tr)
  /\ (forall h, In h (created tr) -> count_free h tr = 1%nat)
  /\ (forall h, ~ In h (created tr) -> count_free h tr = 0%nat)
  /\ (forall pre h c post, tr = pre ++ EvUse h c :: post -> h <> 0 -> In (EvCommit h) pre).

Lemma freed_once_of_balanced tr : ledger_balanced tr = true -> freed_once tr.
Proof.
  intros H. split; [assumption|]. destruct (balanced_freed_once tr H) as (A & B & C).
  repeat split; try assumption. apply use_after_commit. assumption.
Qed.

Theorem C18_types_freed_once_proved :
  forall (l : layout) (S : Z) (uses : nat), l <> [] ->
       freed_once (message_trace l S uses 1)
    /\ freed_once (create_subarray_trace l S uses 1)
    /\ freed_once (aux_trace l S uses 1)
    /\ (forall stride count, freed_once (data_trace stride count uses 1)).
Proof.
  intros l S uses Hne. split; [|split; [|split]].
  - apply freed_once_of_balanced, message_trace_balanced. assumption.
  - apply freed_once_of_balanced, create_subarray_trace_balanced. assumption.
  - apply freed_once_of_balanced, aux_trace_balanced. assumption.
  - intros stride count. apply freed_once_of_balanced, data_trace_balanced.
Qed.

(* ---- 5. the other two entry points ---- *)
Theorem C18_create_subarray_proved :
  forall (l : layout) (szs : list Z) (S : Z), lay_ok l szs -> l <> [] ->
    message_bytes 1 (create_subarray_model l S) = elem_offsets l szs S.
Proof. exact create_subarray_is_elements_proved. Qed.

(* data(It first) describes ONE element; used with a count n it denotes the n elements that are
   CONTIGUOUS in memory from `first`, not the n elements the iterator visits, unless stride = 1 *)
Theorem C18_data_proved :
  forall stride S n, message_bytes n (data_model stride S) = map (fun k => k * S) (zseq n).
Proof. exact data_bytes_proved. Qed.

Definition C18_data_strided_full : Prop :=
  forall stride S n, message_bytes n (data_model stride S) = map (fun k => k * stride * S) (zseq n).

Theorem C18_data_strided_refuted_proved : ~ C18_data_strided_full.
Proof. intros H. specialize (H 2 4 3). vm_compute in H. discriminate. Qed.

Definition data_exclusion (stride n : Z) : Prop := stride = 1 \/ n <= 1.

Theorem C18_data_strided_partial_proved :
  forall stride S n, data_exclusion stride n ->
    message_bytes n (data_model stride S) = map (fun k => k * stride * S) (zseq n).
Proof.
  intros stride S n H. rewrite data_bytes_proved. apply map_ext_in. intros k Hk. apply in_zseq in Hk.
  destruct H as [->|H]; [lia|]. assert (k = 0) by lia. subst. lia.
Qed.

(* ---- non-vacuity: the 3x4x5 array, rotated, sub-block ({1,3},{0,4},{1,3}) of 4-byte elements ---- *)
Example C18_example :
  exists v,
    run_ops [ORotated; OParen [PRange 1 3; PRange 0 4; PRange 1 3]] (root_view (zb [3; 4; 5])) = Some v
    /\ lay_ok (lay v) [2; 4; 2]
    /\ message_model (lay v) 4
       = (2, Resized (HVector 1 1 20 (Resized (HVector 4 1 4 (Resized (HVector 2 1 80 (Base 4)) 0 80)) 0 4)) 0 20)
    /\ message_bytes 2 (snd (message_model (lay v) 4))
       = map (fun idx => 4 * (addr_brackets v idx - base v)) (canon_indices [2; 4; 2])
    /\ NoDup (elem_offsets (lay v) [2; 4; 2] 4)
    /\ ledger_balanced (message_trace (lay v) 4 1 1) = true.
Proof.
  eexists. split; [vm_compute; reflexivity|]. split.
  { repeat constructor; cbn; lia. }
  split; [vm_compute; reflexivity|]. split; [vm_compute; reflexivity|]. split; [|vm_compute; reflexivity].
  vm_compute. repeat (constructor; [cbn; intuition discriminate|]). constructor.
Qed.

From BM Require Import Base.Tactics Model.Layout Model.View Model.Spec Model.Iter Model.Assign Model.AssignFlat.
Local Open Scope Z_scope.

(* both operands gap-free, same extensions, same number of elements, disjoint storage -- and the block copy puts the
   second source element (address 102: index (0,1) of the rotated 3x2 root) where assignment puts address 101's
   neighbour in LOGICAL order: the two differ at position 1 *)
Theorem block_copy_refuted_proved :
  exists (dst src : view) (m : mem) (k : Z),
       v_is_compact dst = true /\ v_is_compact src = true
    /\ l_extensions (lay dst) = l_extensions (lay src)
    /\ er_size dst = er_size src
    /\ (forall i j, 0 <= i < er_size dst -> 0 <= j < er_size src -> e_addr dst i <> e_addr src j)
    /\ 0 <= k < er_size dst
    /\ c_val (flat_copy (Z.to_nat (er_size dst)) (base dst) (base src) m (e_addr dst k))
       <> c_val (assign_view (fun x => x) dst src m (e_addr dst k)).
Proof.
  exists (root_view [(0, 2); (0, 3)]), (mkview (lay (v_rotated (root_view [(0, 3); (0, 2)]))) 100),
         (fun a => mkcell a false), 1.
  repeat split; try reflexivity; try (vm_compute; discriminate).
  intros i j Hi Hj.
  change (er_size (root_view [(0, 2); (0, 3)])) with 6 in Hi.
  change (er_size (mkview (lay (v_rotated (root_view [(0, 3); (0, 2)]))) 100)) with 6 in Hj.
  assert (Hi' : i = 0 \/ i = 1 \/ i = 2 \/ i = 3 \/ i = 4 \/ i = 5) by lia.
  assert (Hj' : j = 0 \/ j = 1 \/ j = 2 \/ j = 3 \/ j = 4 \/ j = 5) by lia.
  destruct Hi' as [->|[->|[->|[->|[->| ->]]]]]; destruct Hj' as [->|[->|[->|[->|[->| ->]]]]]; vm_compute; discriminate.
Qed.

(* when the two layouts ARE equal (and the operands gap-free in canonical order) the block copy is assignment: the
   shortcut is sound exactly under a condition on both layouts, not on compactness *)
Example block_copy_canonical_agrees :
  let dst := root_view [(0, 2); (0, 3)] in let src := mkview (lay dst) 100 in let m : mem := fun a => mkcell a false in
  forallb (fun a => c_val (flat_copy 6 (base dst) (base src) m a) =? c_val (assign_view (fun x => x) dst src m a))
          [0; 1; 2; 3; 4; 5; 6; 99; 100; 105] = true.
Proof. vm_compute. reflexivity. Qed.

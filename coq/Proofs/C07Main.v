(* C07 assembled at the level of views. *)
From BM Require Import Base.Tactics Model.Layout Model.View Model.Spec Model.Compare
  Proofs.LayoutProofs Proofs.CompareProofs.
Local Open Scope Z_scope.

Theorem C07_ne_negation_proved : forall a b m, v_ne a b m = negb (v_eq a b m).
Proof. intros. unfold v_ne, v_eq. rewrite negb_andb. reflexivity. Qed.

Theorem C07_derived_ops_proved : forall a b m,
  v_le a b m = (v_eq a b m || v_lt a b m) /\ v_gt a b m = v_lt b a m /\ v_ge a b m = (v_gt a b m || v_eq a b m).
Proof. intros. repeat split; reflexivity. Qed.

Lemma sizes_nonneg l sz : lay_ok l sz -> Forall (fun d => 0 <= d_size d) l.
Proof. induction 1 as [|d n l sz Hd _ IH]; constructor; [|assumption]. rewrite (dim_ok_size _ _ Hd). apply Hd. Qed.

Lemma lay_ok_nonneg l sz : lay_ok l sz -> Forall (fun n => 0 <= n) sz.
Proof. induction 1 as [|d n l sz Hd _ IH]; constructor; [apply Hd|assumption]. Qed.

Lemma tree_reg v sz m : lay_ok (lay v) sz -> reg sz (v_tree v m).
Proof. intros H. rewrite <- (lay_ok_sizes _ _ H). apply abs_reg. eapply sizes_nonneg; eassumption. Qed.

Lemma x_eq_refl X : x_eq X X = true.
Proof.
  induction X as [|r X IH]; [reflexivity|]. cbn. rewrite IH. unfold r_eq. rewrite !Z.eqb_refl. cbn.
  rewrite orb_true_r. reflexivity.
Qed.
Lemma x_eq_zb_pos s1 : forall s2, Forall (fun n => 0 < n) s1 -> x_eq (zb s1) (zb s2) = true -> s1 = s2.
Proof.
  induction s1 as [|n1 s1 IH]; intros [|n2 s2] Hp H; cbn [zb map x_eq] in H; try discriminate; [reflexivity|].
  inversion Hp as [|? ? Hn Hp']; subst. apply andb_prop in H as [Hr Hx]. f_equal; [|apply IH; assumption].
  unfold r_eq, r_empty in Hr; cbn [fst snd] in Hr. apply orb_prop in Hr as [Hr|Hr]; bprop; lia.
Qed.

(* == : same extents and the same element at every position (nested value equal) *)
Theorem C07_eq_iff_proved : forall a b sza szb m,
  lay_ok (lay a) sza -> lay_ok (lay b) szb ->
  (v_eq a b m = true <->
     x_eq (l_extensions (lay a)) (l_extensions (lay b)) = true /\ flat_t (v_tree a m) = flat_t (v_tree b m))
  /\ (sza = szb -> (flat_t (v_tree a m) = flat_t (v_tree b m) <-> v_tree a m = v_tree b m)).
Proof.
  intros a b sza szb m Ha Hb. split.
  - unfold v_eq. split.
    + intros H. apply andb_prop in H as [Hx Hf]. split; [assumption|apply list_eqb_spec; assumption].
    + intros [Hx Hf]. rewrite Hx. apply list_eqb_spec in Hf. rewrite Hf. reflexivity.
  - intros ->. split; [|intros ->; reflexivity].
    apply (reg_flat_inj szb (lay_ok_nonneg _ _ Hb)); apply tree_reg; assumption.
Qed.

Lemma v_lt_zero_based a b sza szb m : lay_ok (lay a) sza -> lay_ok (lay b) szb ->
  v_lt a b m = lt_depth (length (lay a)) (v_tree a m) (v_tree b m).
Proof.
  intros Ha Hb. unfold v_lt. destruct (lay a) as [|da la] eqn:Ea, (lay b) as [|db lb] eqn:Eb; try reflexivity.
  inversion Ha as [|? ? ? ? Hda _]; subst. inversion Hb as [|? ? ? ? Hdb _]; subst.
  rewrite (dim_ok_extension _ _ Hda), (dim_ok_extension _ _ Hdb). cbn [fst]. reflexivity.
Qed.

(* < is the lexicographic order of the nested values; strict weak (in fact total) order; trichotomy *)
Theorem C07_order_proved : forall a b c sza szb szc m,
  lay_ok (lay a) sza -> lay_ok (lay b) szb -> lay_ok (lay c) szc ->
  length sza = length szb -> length szb = length szc ->
  let D := length sza in
  let ta := v_tree a m in let tb := v_tree b m in let tc := v_tree c m in
     v_lt a b m = lt_depth D ta tb
  /\ v_lt a a m = false
  /\ (v_lt a b m = true -> v_lt b a m = false)
  /\ (v_lt a b m = true -> v_lt b c m = true -> v_lt a c m = true)
  /\ (v_lt a b m = false -> v_lt b a m = false -> ta = tb)
  (* transitivity of incomparability follows: incomparable operands have equal values *)
  /\ (v_lt a b m = false -> v_lt b a m = false -> v_lt b c m = false -> v_lt c b m = false ->
        v_lt a c m = false /\ v_lt c a m = false).
Proof.
  intros a b c sza szb szc m Ha Hb Hc Lab Lbc D ta tb tc.
  pose proof (lay_ok_length _ _ Ha) as La. pose proof (lay_ok_length _ _ Hb) as Lb. pose proof (lay_ok_length _ _ Hc) as Lc.
  assert (Wa : wf D ta) by (unfold D; apply reg_wf, tree_reg; assumption).
  assert (Wb : wf D tb) by (unfold D; rewrite Lab; apply reg_wf, tree_reg; assumption).
  assert (Wc : wf D tc) by (unfold D; rewrite Lab, Lbc; apply reg_wf, tree_reg; assumption).
  pose proof (lt_depth_sto D) as S.
  rewrite !(v_lt_zero_based a b sza szb), !(v_lt_zero_based b a szb sza), !(v_lt_zero_based a a sza sza),
          !(v_lt_zero_based b c szb szc), !(v_lt_zero_based a c sza szc), !(v_lt_zero_based c b szc szb),
          !(v_lt_zero_based c a szc sza) by assumption.
  replace (length (lay a)) with D by (unfold D; lia). replace (length (lay b)) with D by (unfold D; lia).
  replace (length (lay c)) with D by (unfold D; lia). fold ta tb tc.
  split; [reflexivity|]. split; [apply (sto_irr _ _ S); assumption|].
  split; [apply (sto_asym _ _ S); assumption|].
  split; [apply (sto_trans _ _ S); assumption|].
  split; [apply (sto_total _ _ S); assumption|].
  intros H1 H2 H3 H4. pose proof (sto_total _ _ S ta tb Wa Wb H1 H2) as E1.
  pose proof (sto_total _ _ S tb tc Wb Wc H3 H4) as E2. rewrite E1, E2.
  split; apply (sto_irr _ _ S); assumption.
Qed.

Theorem C07_trichotomy_proved : forall a b sza szb m,
  lay_ok (lay a) sza -> lay_ok (lay b) szb -> length sza = length szb ->
  Forall (fun n => 0 < n) sza -> Forall (fun n => 0 < n) szb ->            (* non-empty operands *)
     (v_eq a b m = true <-> v_tree a m = v_tree b m)                         (* consistent with == *)
  /\ (   (v_lt a b m = true  /\ v_eq a b m = false /\ v_lt b a m = false)
      \/ (v_lt a b m = false /\ v_eq a b m = true  /\ v_lt b a m = false)
      \/ (v_lt a b m = false /\ v_eq a b m = false /\ v_lt b a m = true)).
Proof.
  intros a b sza szb m Ha Hb Hl Pa Pb.
  assert (Heq : v_eq a b m = true <-> v_tree a m = v_tree b m).
  { destruct (C07_eq_iff_proved a b sza szb m Ha Hb) as [E1 E2]. split.
    - intros H. apply E1 in H as [Hx Hf]. rewrite (lay_ok_extensions _ _ Ha), (lay_ok_extensions _ _ Hb) in Hx.
      fold (zb sza) in Hx. fold (zb szb) in Hx. pose proof (x_eq_zb_pos _ _ Pa Hx) as Es. apply (E2 Es). exact Hf.
    - intros Et. assert (Es : sza = szb).
      { apply (reg_sizes_unique sza szb (v_tree a m)); try assumption; [apply tree_reg; assumption|].
        rewrite Et. apply tree_reg; assumption. }
      apply E1. split; [|rewrite Et; reflexivity].
      rewrite (lay_ok_extensions _ _ Ha), (lay_ok_extensions _ _ Hb), Es. apply x_eq_refl. }
  split; [exact Heq|].
  destruct (C07_order_proved a b b sza szb szb m Ha Hb Hb Hl eq_refl) as (_ & _ & Hasym & _ & Htot & _).
  destruct (C07_order_proved b a a szb sza sza m Hb Ha Ha (eq_sym Hl) eq_refl) as (_ & Hirr & Hasym' & _).
  destruct (v_lt a b m) eqn:Eab.
  - left. split; [reflexivity|]. split; [|apply Hasym; reflexivity].
    destruct (v_eq a b m) eqn:Ee; [|reflexivity]. pose proof (proj1 Heq eq_refl) as Et.
    destruct (C07_order_proved a b b sza szb szb m Ha Hb Hb Hl eq_refl) as (Hd & _).
    rewrite Hd, Et in Eab.
    assert (W : wf (length sza) (v_tree b m)) by (rewrite Hl; apply reg_wf, tree_reg; assumption).
    rewrite (sto_irr _ _ (lt_depth_sto (length sza)) _ W) in Eab. discriminate.
  - destruct (v_lt b a m) eqn:Eba.
    + right. right. split; [reflexivity|]. split; [|reflexivity].
      destruct (v_eq a b m) eqn:Ee; [|reflexivity]. pose proof (proj1 Heq eq_refl) as Et.
      destruct (C07_order_proved b a a szb sza sza m Hb Ha Ha (eq_sym Hl) eq_refl) as (Hd & _).
      rewrite Hd, Et in Eba.
      assert (W : wf (length szb) (v_tree b m)) by (apply reg_wf, tree_reg; assumption).
      rewrite (sto_irr _ _ (lt_depth_sto (length szb)) _ W) in Eba. discriminate.
    + right. left. split; [reflexivity|]. split; [|reflexivity]. apply Heq. apply Htot; reflexivity.
Qed.

(* a proper prefix along the leading dimension is smaller *)
Theorem C07_prefix_smaller_proved : forall n l x r, Forall (wf n) l -> lt_depth (S n) (Node l) (Node (l ++ x :: r)) = true.
Proof. intros. cbn. apply (lexb_prefix (wf n) (lt_depth n) (lt_depth_sto n)). assumption. Qed.

Example C07_example :
  let m : Z -> Z := fun p => Z.rem p 3 in
  let a := mkview (mk_layout (zb [2; 3])) 0 in
  let b := mkview (l_transpose (mk_layout (zb [3; 2]))) 6 in
  (v_eq a b m, v_lt a b m, v_lt b a m, v_eq a a m) = (false, true, false, true).
Proof. vm_compute. reflexivity. Qed.

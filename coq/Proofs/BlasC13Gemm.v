(* C13 -- gemm: the decidable criterion is sound (all sizes, all strides, every flag combination), and in general
   position (all three sizes >= 2) every call site of the four gemm_n ladders except the listed ones satisfies it. *)
From BM Require Import Base.Tactics Model.BlasC13 Model.BlasC13Ref Model.BlasC13Crit Proofs.BlasC13RefProofs.
Local Open Scope Z_scope.

Lemma out_is_spec k c :
  out_is k c = true ->
  g_m k = rows c /\ g_n k = cols c /\
  forall i j, 0 <= i < rows c -> 0 <= j < cols c -> maddr c i j = g_pc k + i + j * g_ldc k.
Proof.
  unfold out_is. intros H.
  apply andb_prop in H. destruct H as [H H3]. apply andb_prop in H. destruct H as [H1 H2].
  apply Z.eqb_eq in H1. apply Z.eqb_eq in H2. split; [assumption|]. split; [assumption|].
  intros i j Hi Hj.
  apply orb_prop in H3. destruct H3 as [H3|H3]; [apply orb_prop in H3; destruct H3 as [H3|H3]; apply Z.leb_le in H3; lia|].
  apply andb_prop in H3. destruct H3 as [Hp Ha]. apply Z.eqb_eq in Hp.
  pose proof (agree_spec _ _ _ _ _ _ Ha i j Hi Hj). unfold maddr. lia.
Qed.

Lemma out_is_tr_spec k c :
  out_is_tr k c = true ->
  g_m k = cols c /\ g_n k = rows c /\
  forall i j, 0 <= i < rows c -> 0 <= j < cols c -> maddr c i j = g_pc k + j + i * g_ldc k.
Proof.
  unfold out_is_tr. intros H.
  apply andb_prop in H. destruct H as [H H3]. apply andb_prop in H. destruct H as [H1 H2].
  apply Z.eqb_eq in H1. apply Z.eqb_eq in H2. split; [assumption|]. split; [assumption|].
  intros i j Hi Hj.
  apply orb_prop in H3. destruct H3 as [H3|H3]; [apply orb_prop in H3; destruct H3 as [H3|H3]; apply Z.leb_le in H3; lia|].
  apply andb_prop in H3. destruct H3 as [Hp Ha]. apply Z.eqb_eq in Hp.
  pose proof (agree_spec _ _ _ _ _ _ Ha i j Hi Hj). unfold maddr. lia.
Qed.

Section Carrier.
  Variable R : Type.
  Variable rzero : R.
  Variables radd rmul : R -> R -> R.
  Variable cj : R -> R.
  (* the only law of the carrier the gemm statement uses: the branches that compute the transposed product
     (C^T = B^T A^T) multiply the same two cells in the other order *)
  Hypothesis rmul_comm : forall x y, rmul x y = rmul y x.

  Notation gemm_ref := (gemm_ref R rzero radd rmul cj).
  Notation gemm_math := (gemm_math R rzero radd rmul cj).

  Theorem gemm_criterion_sound (alpha beta : R) (a b c : mat) (k : gemm_call) (mem : Z -> R) :
    shapes_conform a b c ->
    gemm_implements_b k a b c = true ->
       gemm_legal k = true
    /\ (forall i j, 0 <= i < rows c -> 0 <= j < cols c ->
          gemm_ref alpha beta k mem (maddr c i j) = gemm_math alpha beta a b c mem i j)
    /\ (forall p, ~ in_mat c p -> gemm_ref alpha beta k mem p = mem p).
  Proof.
    intros (Sb & Sr & Sc) H. unfold gemm_implements_b in H.
    apply andb_prop in H. destruct H as [H Hor]. apply andb_prop in H. destruct H as [H Hcj].
    apply andb_prop in H. destruct H as [Hlegal Hk]. apply Z.eqb_eq in Hk.
    apply negb_true_iff in Hcj.
    split; [assumption|].
    assert (Hl := Hlegal). unfold gemm_legal in Hl.
    assert (Hldc : Z.max 1 (g_m k) <= g_ldc k) by lia.
    apply orb_prop in Hor. destruct Hor as [Hd|Hs].
    - (* the call computes C itself *)
      apply andb_prop in Hd. destruct Hd as [Hd Hb]. apply andb_prop in Hd. destruct Hd as [Ho Ha].
      destruct (out_is_spec _ _ Ho) as (Em & En & Eaddr).
      split.
      + intros i j Hi Hj. rewrite (Eaddr i j Hi Hj).
        rewrite (gemm_ref_at R rzero radd rmul cj) by lia.
        unfold BlasC13Ref.gemm_cell, BlasC13Ref.gemm_math. f_equal.
        * f_equal. rewrite Hk. apply (zsum_ext R rzero radd rmul cj). intros l Hlk.
          rewrite (op_is_spec R rzero radd rmul cj _ _ _ _ _ _ Ha) by lia.
          rewrite (op_is_spec R rzero radd rmul cj _ _ _ _ _ _ Hb) by lia. reflexivity.
        * f_equal. unfold BlasC13Ref.mval. rewrite Hcj. cbn [cjif]. rewrite (Eaddr i j Hi Hj). reflexivity.
      + intros p Hp. apply (gemm_ref_other R rzero radd rmul cj); [lia|].
        intros i j Hi Hj E. apply Hp. exists i, j. split; [lia|]. split; [lia|]. rewrite Eaddr by lia. exact E.
    - (* the call computes the transpose of C: C^T = B^T . A^T *)
      apply andb_prop in Hs. destruct Hs as [Hs Hb]. apply andb_prop in Hs. destruct Hs as [Ho Ha].
      destruct (out_is_tr_spec _ _ Ho) as (Em & En & Eaddr).
      split.
      + intros i j Hi Hj. rewrite (Eaddr i j Hi Hj).
        rewrite (gemm_ref_at R rzero radd rmul cj) by lia.
        unfold BlasC13Ref.gemm_cell, BlasC13Ref.gemm_math. f_equal.
        * f_equal. rewrite Hk. apply (zsum_ext R rzero radd rmul cj). intros l Hlk.
          rewrite (op_is_tr_spec R rzero radd rmul cj _ _ _ _ _ _ Ha) by lia.
          rewrite (op_is_tr_spec R rzero radd rmul cj _ _ _ _ _ _ Hb) by lia. apply rmul_comm.
        * f_equal. unfold BlasC13Ref.mval. rewrite Hcj. cbn [cjif]. rewrite (Eaddr i j Hi Hj). reflexivity.
      + intros p Hp. apply (gemm_ref_other R rzero radd rmul cj); [lia|].
        intros i j Hi Hj E. apply Hp. exists j, i. split; [lia|]. split; [lia|]. rewrite Eaddr by lia. exact E.
  Qed.
End Carrier.

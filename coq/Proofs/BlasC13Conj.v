(* C13 -- conjugated output.  blas::gemm(alpha, a, b, beta, c) with a conjugated view c (gemm.hpp:161) conjugates the
   scalars and all three views and runs the ordinary dispatch on the underlying cells of c.  If the call made for the
   conjugated operands passes the criterion, the LOGICAL contents of c (the conjugates of its cells) become
   alpha * a.b + beta * c.  Uses: conjugation is an involutive ring morphism. *)
From BM Require Import Base.Tactics Model.BlasC13 Model.BlasC13Ref Model.BlasC13Crit Model.BlasC13Spec
  Proofs.BlasC13RefProofs Proofs.BlasC13Gemm.
Local Open Scope Z_scope.

Section Carrier.
  Variable R : Type.
  Variable rzero : R.
  Variables radd rmul : R -> R -> R.
  Variable cj : R -> R.
  Hypothesis rmul_comm : forall x y, rmul x y = rmul y x.
  Hypothesis cj_invol : forall x, cj (cj x) = x.
  Hypothesis cj_add : forall x y, cj (radd x y) = radd (cj x) (cj y).
  Hypothesis cj_mul : forall x y, cj (rmul x y) = rmul (cj x) (cj y).
  Hypothesis cj_zero : cj rzero = rzero.

  Lemma cj_rsum n f : cj (rsum R rzero radd n f) = rsum R rzero radd n (fun l => cj (f l)).
  Proof.
    induction n as [|n IH]; cbn [rsum]; [exact cj_zero|]. rewrite cj_add, IH. reflexivity.
  Qed.

  Lemma mval_conj_mat a mem i j : mval R cj (conj_mat a) mem i j = cj (mval R cj a mem i j).
  Proof.
    unfold mval, conj_mat, maddr. cbn [mconj mbase s0 s1].
    destruct (mconj a); cbn [negb cjif]; [rewrite cj_invol|]; reflexivity.
  Qed.

  Theorem gemm_conj_output_sound (alpha beta : R) (a b c : mat) (k : gemm_call) (mem : Z -> R) :
    shapes_conform a b c -> mconj c = true ->
    gemm_implements_b k (conj_mat a) (conj_mat b) (conj_mat c) = true ->
       gemm_legal k = true
    /\ (forall i j, 0 <= i < rows c -> 0 <= j < cols c ->
          cj (gemm_ref R rzero radd rmul cj (cj alpha) (cj beta) k mem (maddr c i j)) = gemm_math R rzero radd rmul cj alpha beta a b c mem i j)
    /\ (forall p, ~ in_mat c p -> gemm_ref R rzero radd rmul cj (cj alpha) (cj beta) k mem p = mem p).
  Proof.
    intros S Cc H.
    assert (S' : shapes_conform (conj_mat a) (conj_mat b) (conj_mat c)) by exact S.
    destruct (gemm_criterion_sound R rzero radd rmul cj rmul_comm (cj alpha) (cj beta) _ _ _ k mem S' H) as (L & Rr & F).
    split; [exact L|]. split.
    - intros i j Hi Hj.
      change (maddr c i j) with (maddr (conj_mat c) i j).
      rewrite (Rr i j Hi Hj). unfold gemm_math.
      rewrite cj_add, !cj_mul, !cj_invol. f_equal.
      + f_equal. unfold zsum. rewrite cj_rsum. apply (rsum_ext R rzero radd rmul cj). intros l Hl.
        rewrite cj_mul, !mval_conj_mat, !cj_invol. reflexivity.
      + f_equal. rewrite mval_conj_mat, cj_invol. reflexivity.
    - intros p Hp. apply F. intros (i & j & Hi & Hj & E). apply Hp. exists i, j. split; [exact Hi|]. split; [exact Hj|]. exact E.
  Qed.
End Carrier.

(* Basic facts about the list helpers and extents of the lifecycle machine (Model/Life.v). *)
From BM Require Import Base.Tactics Model.Life.
Local Open Scope Z_scope.

Lemma upd_nth_length {A} (l : list A) n x : length (upd_nth l n x) = length l.
Proof. revert n; induction l; destruct n; cbn; auto. Qed.

Lemma nth_upd_same {A} (l : list A) n x : (n < length l)%nat -> nth_error (upd_nth l n x) n = Some x.
Proof. revert n; induction l; destruct n; cbn; intros; try lia; auto. apply IHl; lia. Qed.

Lemma nth_upd_other {A} (l : list A) n m x : n <> m -> nth_error (upd_nth l n x) m = nth_error l m.
Proof. revert n m; induction l; destruct n, m; cbn; intros; try congruence; auto. Qed.

Lemma numel_nonneg x : Forall (fun n => 0 <= n) x -> 0 <= numel x.
Proof. induction 1; cbn; [lia|]. unfold numel in *. cbn. nia. Qed.

Lemma numel_collapse x : numel (collapse x) = numel x.
Proof.
  induction x as [|n r IH]; cbn; auto.
  change (fold_right Z.mul 1 (collapse r)) with (numel (collapse r)). change (fold_right Z.mul 1 r) with (numel r).
  rewrite IH. destruct (numel r =? 0) eqn:E; bprop; [rewrite E; lia | reflexivity].
Qed.

(* The create/commit/free ledger of mpi.hpp's datatype handles (Model/MpiLedger.v):
   1. generic facts about the ledger machine: a trace it accepts from the empty state and that ends
      with no live handle frees every created handle exactly once and frees nothing else;
   2. the traces of skeleton/message, create_subarray and data are accepted and end empty, for every
      layout (induction on the dimension list). *)
From BM Require Import Base.Tactics Model.Layout Model.MpiTypes Model.MpiLedger.
Local Open Scope Z_scope.

(* ---- list helpers ---- *)
Lemma existsb_false {A} (f : A -> bool) l : (forall x, In x l -> f x = false) -> existsb f l = false.
Proof.
  induction l as [|a l IH]; intros H; cbn [existsb]; [reflexivity|].
  rewrite H by (left; reflexivity). apply IH. intros x Hx. apply H. right. assumption.
Qed.

Lemma filter_id {A} (f : A -> bool) l : (forall x, In x l -> f x = true) -> filter f l = l.
Proof.
  induction l as [|a l IH]; intros H; cbn [filter]; [reflexivity|].
  rewrite H by (left; reflexivity). f_equal. apply IH. intros x Hx. apply H. right. assumption.
Qed.

Lemma ledger_run_app s a b :
  ledger_run s (a ++ b) = match ledger_run s a with Some s' => ledger_run s' b | None => None end.
Proof.
  revert s; induction a as [|e a IH]; intros s; cbn [app ledger_run]; [reflexivity|].
  destruct (ledger_step s e); [apply IH|reflexivity].
Qed.

(* ---- liveness after each kind of step ---- *)
Definition live_in (lv : list (handle * bool)) (h : handle) : bool := existsb (fun p => fst p =? h) lv.

Lemma live_in_commit lv h' h :
  live_in (map (fun p => if fst p =? h' then (fst p, true) else p) lv) h = live_in lv h.
Proof.
  induction lv as [|p lv IH]; cbn [map live_in existsb]; [reflexivity|].
  fold (live_in (map (fun p => if fst p =? h' then (fst p, true) else p) lv) h). fold (live_in lv h).
  rewrite IH. destruct (fst p =? h'); reflexivity.
Qed.

Lemma live_in_free lv h' h :
  live_in (filter (fun p => negb (fst p =? h')) lv) h = if h' =? h then false else live_in lv h.
Proof.
  induction lv as [|p lv IH]; cbn [filter live_in existsb].
  - destruct (h' =? h); reflexivity.
  - fold (live_in lv h). destruct (fst p =? h') eqn:E; cbn [negb].
    + fold (live_in (filter (fun p => negb (fst p =? h')) lv) h). rewrite IH.
      destruct (h' =? h) eqn:E2; [reflexivity|]. bprop.
      assert (E3 : (fst p =? h) = false) by (apply Z.eqb_neq; lia). rewrite E3. reflexivity.
    + cbn [existsb]. fold (live_in (filter (fun p => negb (fst p =? h')) lv) h). rewrite IH.
      destruct (h' =? h) eqn:E2; [|reflexivity]. bprop.
      assert (E3 : (fst p =? h) = false) by (apply Z.eqb_neq; lia). rewrite E3. reflexivity.
Qed.

(* ---- 1. generic: accepted + ends empty => freed exactly once ---- *)
Definition lsub (s : lstate) : Prop := forall p, In p (live s) -> In (fst p) (seen s).
Definition live_count (s : lstate) (h : handle) : nat := if is_live s h then 1%nat else 0%nat.
Definition free_delta (e : ev) (h : handle) : nat :=
  match e with EvFree h' => if h' =? h then 1%nat else 0%nat | _ => 0%nat end.
Definition create_delta (e : ev) (h : handle) : nat :=
  match ev_created e with Some n => if Z.eq_dec n h then 1%nat else 0%nat | None => 0%nat end.

Lemma not_seen_not_live s n : lsub s -> was_seen s n = false -> is_live s n = false.
Proof.
  intros Hs Hn. unfold is_live. apply existsb_false. intros p Hp. apply Z.eqb_neq. intros E.
  apply Hs in Hp. subst n. unfold was_seen in Hn.
  assert (existsb (Z.eqb (fst p)) (seen s) = true)
    by (apply existsb_exists; exists (fst p); split; [assumption|apply Z.eqb_refl]).
  congruence.
Qed.

Lemma ls_create_count s n o s' h : ls_create s n o = Some s' -> lsub s ->
  lsub s' /\ (live_count s' h = live_count s h + (if Z.eq_dec n h then 1 else 0))%nat.
Proof.
  unfold ls_create. intros H Hs.
  destruct ((0 <? n) && negb (was_seen s n) && usable_old s o) eqn:C; [|discriminate].
  inv H. bprop. split.
  - intros p [<-|Hp]; cbn [live seen fst]; [left; reflexivity|right; apply Hs; assumption].
  - unfold live_count, is_live. cbn [live existsb fst]. fold (is_live s h).
    destruct (Z.eq_dec n h) as [->|Hne].
    + rewrite Z.eqb_refl. cbn [orb]. rewrite (not_seen_not_live s h Hs); [reflexivity|].
      destruct (was_seen s h); [discriminate|reflexivity].
    + assert (E : (n =? h) = false) by (apply Z.eqb_neq; assumption). rewrite E. cbn [orb].
      destruct (is_live s h); reflexivity.
Qed.

Lemma ledger_step_count s e s' h : ledger_step s e = Some s' -> lsub s ->
  lsub s' /\ (free_delta e h + live_count s' h = live_count s h + create_delta e h)%nat.
Proof.
  intros H Hs. destruct e as [n c b st o|n c b st o|n o lb ex|n o|h'|h'|h' c];
    cbn [ledger_step] in H; unfold free_delta, create_delta; cbn [ev_created].
  - destruct (ls_create_count _ _ _ _ h H Hs) as [A B]. split; [assumption|lia].
  - destruct (ls_create_count _ _ _ _ h H Hs) as [A B]. split; [assumption|lia].
  - destruct (ls_create_count _ _ _ _ h H Hs) as [A B]. split; [assumption|lia].
  - destruct (ls_create_count _ _ _ _ h H Hs) as [A B]. split; [assumption|lia].
  - destruct (is_live s h') eqn:L; [|discriminate]. inv H. split.
    + intros p Hp. cbn [live seen] in *. apply in_map_iff in Hp as (q & <- & Hq).
      destruct (fst q =? h'); cbn [fst]; apply Hs; assumption.
    + unfold live_count, is_live. cbn [live]. fold (live_in (map (fun p => if fst p =? h' then (fst p, true) else p) (live s)) h).
      rewrite live_in_commit. unfold live_in. lia.
  - destruct (is_live s h') eqn:L; [|discriminate]. inv H. split.
    + intros p Hp. cbn [live seen] in *. apply filter_In in Hp as [Hp _]. apply Hs; assumption.
    + unfold live_count, is_live. cbn [live].
      fold (live_in (filter (fun p => negb (fst p =? h')) (live s)) h). rewrite live_in_free.
      destruct (h' =? h) eqn:E.
      * bprop. subst. unfold is_live in L. unfold live_in. rewrite L. reflexivity.
      * unfold live_in. cbv iota. lia.
  - destruct ((h' =? 0) || is_committed s h'); [|discriminate]. inv H. split; [assumption|lia].
Qed.

Lemma count_free_cons e tr h : count_free h (e :: tr) = (free_delta e h + count_free h tr)%nat.
Proof. destruct e; cbn [count_free free_delta]; try reflexivity. destruct (h0 =? h); reflexivity. Qed.

Lemma created_cons e tr h :
  count_occ Z.eq_dec (created (e :: tr)) h = (create_delta e h + count_occ Z.eq_dec (created tr) h)%nat.
Proof.
  unfold create_delta. cbn [created]. destruct (ev_created e) as [n|]; [|reflexivity].
  cbn [count_occ]. destruct (Z.eq_dec n h); reflexivity.
Qed.

Lemma ledger_run_count tr : forall s s' h, ledger_run s tr = Some s' -> lsub s ->
  (count_free h tr + live_count s' h = live_count s h + count_occ Z.eq_dec (created tr) h)%nat.
Proof.
  induction tr as [|e tr IH]; intros s s' h H Hs.
  - cbn in H. inv H. cbn. lia.
  - cbn [ledger_run] in H. destruct (ledger_step s e) as [s1|] eqn:E; [|discriminate].
    destruct (ledger_step_count _ _ _ h E Hs) as [Hs1 Hc].
    specialize (IH _ _ h H Hs1). rewrite count_free_cons, created_cons. lia.
Qed.

Lemma ledger_created_fresh tr : forall s s', ledger_run s tr = Some s' ->
  (forall h, In h (created tr) -> was_seen s h = false) /\ NoDup (created tr).
Proof.
  induction tr as [|e tr IH]; intros s s' H.
  - split; [intros h []|constructor].
  - cbn [ledger_run] in H. destruct (ledger_step s e) as [s1|] eqn:E; [|discriminate].
    destruct (IH _ _ H) as [Hf Hnd]. cbn [created].
    assert (Hcr : forall n o, ls_create s n o = Some s1 ->
              (forall h, In h (n :: created tr) -> was_seen s h = false) /\ NoDup (n :: created tr)).
    { intros n o Hc. unfold ls_create in Hc.
      destruct ((0 <? n) && negb (was_seen s n) && usable_old s o) eqn:C; [|discriminate]. inv Hc. bprop.
      assert (Hn : was_seen s n = false) by (destruct (was_seen s n); [discriminate|reflexivity]).
      assert (Hall : forall h, In h (created tr) -> h <> n /\ was_seen s h = false).
      { intros h Hh. specialize (Hf h Hh). unfold was_seen in Hf. cbn [seen existsb] in Hf.
        apply orb_false_elim in Hf as [Hf1 Hf2]. bprop. split; assumption. }
      split.
      - intros h [<-|Hh]; [assumption|apply Hall; assumption].
      - constructor; [|assumption]. intros Hin. apply Hall in Hin. lia. }
    assert (Hsame : seen s1 = seen s -> ev_created e = None ->
              (forall h, In h (created tr) -> was_seen s h = false) /\ NoDup (created tr)).
    { intros Eseen _. split; [|assumption]. intros h Hh. specialize (Hf h Hh).
      unfold was_seen in *. rewrite Eseen in Hf. assumption. }
    destruct e as [n c b st o|n c b st o|n o lb ex|n o|h'|h'|h' c]; cbn [ledger_step ev_created] in *.
    + apply (Hcr _ _ E).
    + apply (Hcr _ _ E).
    + apply (Hcr _ _ E).
    + apply (Hcr _ _ E).
    + destruct (is_live s h'); [|discriminate]. inv E. apply Hsame; reflexivity.
    + destruct (is_live s h'); [|discriminate]. inv E. apply Hsame; reflexivity.
    + destruct ((h' =? 0) || is_committed s h'); [|discriminate]. inv E. apply Hsame; reflexivity.
Qed.

(* A trace accepted from the empty ledger that ends with no live handle: the created handles are
   pairwise distinct, each is freed exactly once, and nothing else is ever freed. *)
Theorem balanced_freed_once tr : ledger_balanced tr = true ->
  NoDup (created tr) /\
  (forall h, In h (created tr) -> count_free h tr = 1%nat) /\
  (forall h, ~ In h (created tr) -> count_free h tr = 0%nat).
Proof.
  unfold ledger_balanced. intros H.
  destruct (ledger_run ls_init tr) as [s'|] eqn:R; [|discriminate].
  destruct (live s') eqn:L; [|discriminate].
  destruct (ledger_created_fresh _ _ _ R) as [_ Hnd].
  assert (Hc : forall h, count_free h tr = count_occ Z.eq_dec (created tr) h).
  { intros h. pose proof (ledger_run_count tr ls_init s' h R) as Hc.
    assert (Hs : lsub ls_init) by (intros p []).
    specialize (Hc Hs). unfold live_count, is_live in Hc. rewrite L in Hc. cbn in Hc. lia. }
  split; [assumption|]. split; intros h Hh; rewrite Hc.
  - apply NoDup_count_occ'; assumption.
  - apply count_occ_not_In. assumption.
Qed.

(* ---- 2. the traces of mpi.hpp ---- *)
Definition lwf (s : lstate) (next : handle) : Prop :=
  (forall h, In h (seen s) -> 0 < h < next) /\ lsub s.

Lemma fresh_not_seen s next h : lwf s next -> next <= h -> was_seen s h = false.
Proof.
  intros [Hs _] Hh. apply existsb_false. intros x Hx. apply Hs in Hx. apply Z.eqb_neq. lia.
Qed.
Lemma fresh_not_live s next h : lwf s next -> next <= h -> is_live s h = false.
Proof.
  intros [Hs Hl] Hh. apply existsb_false. intros [a b] Hp. apply Hl in Hp. apply Hs in Hp.
  cbn [fst] in *. apply Z.eqb_neq. lia.
Qed.
Lemma fresh_filter s next h : lwf s next -> next <= h ->
  filter (fun p => negb (fst p =? h)) (live s) = live s.
Proof.
  intros [Hs Hl] Hh. apply filter_id. intros [a b] Hp. apply Hl in Hp. apply Hs in Hp.
  cbn [fst] in *. apply negb_true_iff. apply Z.eqb_neq. lia.
Qed.

Lemma run_cons s e s1 tr : ledger_step s e = Some s1 -> ledger_run s (e :: tr) = ledger_run s1 tr.
Proof. intros H. cbn [ledger_run]. rewrite H. reflexivity. Qed.

Lemma step_create s n o : 0 < n -> was_seen s n = false -> usable_old s o = true ->
  ls_create s n o = Some (mkls ((n, false) :: live s) (n :: seen s)).
Proof.
  intros Hn Hs Ho. unfold ls_create. rewrite (proj2 (Z.ltb_lt 0 n) Hn), Hs, Ho. reflexivity.
Qed.

Lemma step_free s h : is_live s h = true ->
  ledger_step s (EvFree h) = Some (mkls (filter (fun p => negb (fst p =? h)) (live s)) (seen s)).
Proof. intros H. cbn [ledger_step]. rewrite H. reflexivity. Qed.

(* hvector n (of o); resized n+1 (of n); free n  -- the body of the skeleton constructor *)
Lemma block3 s n c st o lb ex : lwf s n -> 0 < n -> usable_old s o = true ->
  ledger_run s [EvHVector n c 1 st o; EvResized (n + 1) n lb ex; EvFree n]
  = Some (mkls ((n + 1, false) :: live s) (n + 1 :: n :: seen s)).
Proof.
  intros Hw Hn Ho.
  pose proof (fresh_not_seen s n n Hw (Z.le_refl n)) as Hs1.
  pose proof (fresh_not_seen s n (n + 1) Hw ltac:(lia)) as Hs2.
  pose proof (fresh_filter s n n Hw (Z.le_refl n)) as Hf.
  assert (E2 : (n + 1 =? n) = false) by (apply Z.eqb_neq; lia).
  set (s1 := mkls ((n, false) :: live s) (n :: seen s)).
  set (s2 := mkls ((n + 1, false) :: live s1) (n + 1 :: seen s1)).
  rewrite (run_cons s _ s1) by (apply step_create; assumption).
  rewrite (run_cons s1 _ s2).
  2:{ apply step_create; [lia| |].
      - unfold was_seen, s1. cbn [seen existsb]. rewrite E2. exact Hs2.
      - unfold usable_old, is_live, s1. cbn [live existsb fst]. rewrite Z.eqb_refl. cbn [orb]. apply orb_true_r. }
  assert (L2 : is_live s2 n = true).
  { unfold is_live, s2, s1. cbn [live existsb fst]. rewrite E2, Z.eqb_refl. reflexivity. }
  rewrite (run_cons s2 _ _ _ (step_free s2 n L2)).
  cbn [ledger_run]. unfold s2, s1. cbn [live seen filter fst]. rewrite E2, Z.eqb_refl. cbn [negb]. rewrite Hf. reflexivity.
Qed.

Lemma lwf_block s n lv : lwf s n -> 0 < n -> (forall p, In p lv -> In p (live s)) ->
  lwf (mkls ((n + 1, false) :: lv) (n + 1 :: n :: seen s)) (n + 2).
Proof.
  intros [Hs Hl] Hn Hsub. split.
  - cbn [seen]. intros h [<-|[<-|Hh]]; [lia|lia|]. apply Hs in Hh. lia.
  - intros p. cbn [live seen]. intros [<-|Hp]; [left; reflexivity|]. right. right. apply Hl. apply Hsub. assumption.
Qed.

(* ... followed by the destruction of the sub-skeleton: free o *)
Lemma block_free_ok s n c st o lb ex : lwf s n -> 0 < n -> is_live s o = true ->
  exists s', ledger_run s [EvHVector n c 1 st o; EvResized (n + 1) n lb ex; EvFree n; EvFree o] = Some s'
    /\ live s' = (n + 1, false) :: filter (fun p => negb (fst p =? o)) (live s)
    /\ lwf s' (n + 2).
Proof.
  intros Hw Hn Ho.
  assert (Hon : o < n).
  { destruct (Z_lt_le_dec o n) as [|Hge]; [assumption|]. rewrite (fresh_not_live s n o Hw Hge) in Ho. discriminate. }
  assert (E3 : (n + 1 =? o) = false) by (apply Z.eqb_neq; lia).
  change [EvHVector n c 1 st o; EvResized (n + 1) n lb ex; EvFree n; EvFree o]
    with ([EvHVector n c 1 st o; EvResized (n + 1) n lb ex; EvFree n] ++ [EvFree o]).
  rewrite ledger_run_app, block3; [|assumption|assumption|unfold usable_old; rewrite Ho; apply orb_true_r].
  set (s3 := mkls ((n + 1, false) :: live s) (n + 1 :: n :: seen s)).
  assert (L3 : is_live s3 o = true).
  { unfold is_live, s3. cbn [live existsb fst]. rewrite E3. cbn [orb]. exact Ho. }
  rewrite (run_cons s3 _ _ _ (step_free s3 o L3)).
  cbn [ledger_run]. eexists. split; [reflexivity|]. unfold s3. cbn [live seen filter fst]. rewrite E3. cbn [negb].
  split; [reflexivity|]. apply lwf_block; [assumption|assumption|]. intros p Hp. apply filter_In in Hp. apply Hp.
Qed.

(* the same without a sub-skeleton (D = 1: the old type is the predefined element type) *)
Lemma block_ok s n c st lb ex : lwf s n -> 0 < n ->
  exists s', ledger_run s [EvHVector n c 1 st 0; EvResized (n + 1) n lb ex; EvFree n] = Some s'
    /\ live s' = (n + 1, false) :: live s
    /\ lwf s' (n + 2).
Proof.
  intros Hw Hn. rewrite block3; [|assumption|assumption|reflexivity].
  eexists. split; [reflexivity|]. split; [reflexivity|]. apply lwf_block; [assumption|assumption|]. intros p Hp. assumption.
Qed.

Lemma sk_build_cons d sub sz c next :
  sk_build (d :: sub) sz c next =
  let '(evs, sub_h, next1, sub_frees) :=
    match sub with
    | [] => ([], 0, next, [])
    | _ :: _ => let '(e, h, n) := sk_build sub sz (l_size sub) next in (e, h, n, [EvFree h])
    end in
  (evs ++ [EvHVector next1 c 1 (d_stride d * sz) sub_h;
           EvResized (next1 + 1) next1 0 (d_stride d * sz);
           EvFree next1] ++ sub_frees,
   next1 + 1, next1 + 2).
Proof. reflexivity. Qed.

(* skeleton(lyt, dt, subcount): accepted from any well-formed ledger state; afterwards exactly one
   more handle is live (the result, not committed); every intermediate has been freed *)
Lemma sk_build_ok l : forall sz c next s evs h next',
  l <> [] -> 0 < next -> lwf s next -> sk_build l sz c next = (evs, h, next') ->
  exists s', ledger_run s evs = Some s'
    /\ live s' = (h, false) :: live s
    /\ lwf s' next' /\ next < next' /\ next <= h < next'.
Proof.
  induction l as [|d sub IH]; intros sz c next s evs h next' Hne Hn Hw Hb; [congruence|].
  rewrite sk_build_cons in Hb. destruct sub as [|d0 sub'].
  - inv Hb. cbn [app].
    destruct (block_ok s next c (d_stride d * sz) 0 (d_stride d * sz) Hw Hn) as (s' & Hr & Hl & Hw').
    exists s'. split; [exact Hr|]. split; [exact Hl|]. split; [exact Hw'|]. lia.
  - destruct (sk_build (d0 :: sub') sz (l_size (d0 :: sub')) next) as [[e hs] n1] eqn:Eb.
    inv Hb.
    destruct (IH sz (l_size (d0 :: sub')) next s e hs n1 ltac:(discriminate) Hn Hw Eb)
      as (s1 & Hr1 & Hl1 & Hw1 & Hlt & Hhs).
    assert (Hlive : is_live s1 hs = true).
    { unfold is_live. rewrite Hl1. cbn [existsb fst]. rewrite Z.eqb_refl. reflexivity. }
    destruct (block_free_ok s1 n1 c (d_stride d * sz) hs 0 (d_stride d * sz) Hw1 ltac:(lia) Hlive)
      as (s2 & Hr2 & Hl2 & Hw2).
    exists s2. split; [|split; [|split; [|split]]].
    + rewrite ledger_run_app, Hr1. cbn [app]. exact Hr2.
    + rewrite Hl2, Hl1. cbn [filter fst]. rewrite Z.eqb_refl. cbn [negb].
      rewrite (fresh_filter s next hs Hw) by lia. reflexivity.
    + assumption.
    + lia.
    + lia.
Qed.

Lemma ledger_run_uses s h c n : ((h =? 0) || is_committed s h) = true ->
  ledger_run s (repeat (EvUse h c) n) = Some s.
Proof.
  intros H. induction n as [|n IH]; cbn [repeat ledger_run ledger_step]; [reflexivity|].
  rewrite H. assumption.
Qed.

Lemma lwf_init : lwf ls_init 1.
Proof. split; [intros h []|intros p []]. Qed.

(* commit h; uses; free h   on a state whose only live handle is h *)
Lemma commit_use_free_ok s h c uses : live s = [(h, false)] ->
  exists s', ledger_run s ([EvCommit h] ++ repeat (EvUse h c) uses ++ [EvFree h]) = Some s' /\ live s' = [].
Proof.
  intros Hl. destruct s as [lv sn]. cbn [live] in Hl. subst lv.
  cbn [app ledger_run ledger_step]. unfold is_live. cbn [live existsb fst]. rewrite Z.eqb_refl. cbn [orb map fst].
  rewrite Z.eqb_refl. rewrite ledger_run_app.
  rewrite ledger_run_uses.
  - cbn [ledger_run ledger_step]. unfold is_live. cbn [live existsb fst]. rewrite Z.eqb_refl. cbn [orb filter fst].
    rewrite Z.eqb_refl. cbn [negb]. eexists. split; reflexivity.
  - unfold is_committed. cbn [live existsb fst snd]. rewrite Z.eqb_refl. cbn. apply orb_true_r.
Qed.

Theorem message_trace_balanced : forall l sz uses, l <> [] ->
  ledger_balanced (message_trace l sz uses 1) = true.
Proof.
  intros l sz uses Hne. unfold ledger_balanced, message_trace.
  destruct (sk_build l sz 1 1) as [[evs h] n'] eqn:Eb.
  destruct (sk_build_ok l sz 1 1 ls_init evs h n' Hne ltac:(lia) lwf_init Eb) as (s1 & Hr & Hl & _).
  rewrite ledger_run_app, Hr. cbn [ls_init live] in Hl.
  destruct (commit_use_free_ok s1 h (l_size l) uses Hl) as (s2 & Hr2 & Hl2).
  rewrite Hr2, Hl2. reflexivity.
Qed.

Theorem data_trace_balanced : forall stride count uses, ledger_balanced (data_trace stride count uses 1) = true.
Proof.
  intros stride count uses. unfold ledger_balanced, data_trace.
  cbn [app ledger_run ledger_step]. unfold ls_create, ls_init, usable_old, was_seen. cbn [seen live existsb].
  cbn [Z.ltb Z.compare Z.eqb andb orb negb]. unfold is_live. cbn [live existsb fst Z.eqb Pos.eqb orb map].
  rewrite ledger_run_app. rewrite ledger_run_uses.
  - cbn [ledger_run ledger_step]. unfold is_live. cbn [live existsb fst Z.eqb Pos.eqb orb filter negb]. reflexivity.
  - reflexivity.
Qed.

(* create_subarray: the result is handed out live and uncommitted; the caller's commit/use/free
   (as in mpi.cpp) completes a balanced trace *)
Theorem create_subarray_trace_balanced : forall l sz uses, l <> [] ->
  ledger_balanced (create_subarray_trace l sz uses 1) = true.
Proof.
  intros l sz uses Hne. unfold ledger_balanced, create_subarray_trace, create_subarray_build.
  destruct (sk_build l sz 1 1) as [[evs h] n1] eqn:Eb.
  destruct (sk_build_ok l sz 1 1 ls_init evs h n1 Hne ltac:(lia) lwf_init Eb) as (s1 & Hr & Hl & Hw1 & Hlt & Hh).
  cbn [ls_init live] in Hl.
  rewrite <- app_assoc. rewrite ledger_run_app, Hr.
  (* commit h *)
  change ([EvCommit h; EvHVector n1 (l_size l) 1 (hd_stride_l l * sz) h;
           EvResized (n1 + 1) n1 0 (hd_stride_l l * sz); EvFree n1; EvFree h]
          ++ [EvCommit (n1 + 1)] ++ repeat (EvUse (n1 + 1) 1) uses ++ [EvFree (n1 + 1)])
    with ([EvCommit h] ++ [EvHVector n1 (l_size l) 1 (hd_stride_l l * sz) h;
           EvResized (n1 + 1) n1 0 (hd_stride_l l * sz); EvFree n1; EvFree h]
          ++ ([EvCommit (n1 + 1)] ++ repeat (EvUse (n1 + 1) 1) uses ++ [EvFree (n1 + 1)])).
  rewrite ledger_run_app. cbn [ledger_run ledger_step].
  assert (Hlive : is_live s1 h = true).
  { unfold is_live. rewrite Hl. cbn [existsb fst]. rewrite Z.eqb_refl. reflexivity. }
  rewrite Hlive.
  set (s1c := mkls (map (fun p => if fst p =? h then (fst p, true) else p) (live s1)) (seen s1)).
  assert (Hlc : live s1c = [(h, true)]).
  { subst s1c. cbn [live]. rewrite Hl. cbn [map fst]. rewrite Z.eqb_refl. reflexivity. }
  assert (Hwc : lwf s1c n1).
  { destruct Hw1 as [Hs Hsub]. split; [exact Hs|]. intros p Hp. rewrite Hlc in Hp.
    destruct Hp as [<-|[]]. cbn [fst]. subst s1c. cbn [seen]. apply (Hsub (h, false)). rewrite Hl. left. reflexivity. }
  assert (Hlivec : is_live s1c h = true).
  { unfold is_live. rewrite Hlc. cbn [existsb fst]. rewrite Z.eqb_refl. reflexivity. }
  rewrite ledger_run_app.
  destruct (block_free_ok s1c n1 (l_size l) (hd_stride_l l * sz) h 0 (hd_stride_l l * sz) Hwc ltac:(lia) Hlivec)
    as (s2 & Hr2 & Hl2 & _).
  rewrite Hr2.
  assert (Hl2' : live s2 = [(n1 + 1, false)]).
  { rewrite Hl2, Hlc. cbn [filter fst]. rewrite Z.eqb_refl. reflexivity. }
  destruct (commit_use_free_ok s2 (n1 + 1) 1 uses Hl2') as (s3 & Hr3 & Hl3).
  rewrite Hr3, Hl3. reflexivity.
Qed.

(* ---- create_subarray_aux (dead alternative, mpi.hpp:81-113) ---- *)
Lemma aux_build_cons d sub sz c next :
  aux_build (d :: sub) sz c next =
  let '(evs, sub_h, next1) :=
    match sub with
    | [] => ([EvDup next 0], next, next + 1)
    | _ :: _ => aux_build sub sz (l_size sub) next
    end in
  (evs ++ [EvHVector next1 c 1 (d_stride d * sz) sub_h;
           EvResized (next1 + 1) next1 0 (d_stride d * sz);
           EvFree next1;
           EvFree sub_h],
   next1 + 1, next1 + 2).
Proof. reflexivity. Qed.

Lemma aux_build_ok l : forall sz c next s evs h next',
  l <> [] -> 0 < next -> lwf s next -> aux_build l sz c next = (evs, h, next') ->
  exists s', ledger_run s evs = Some s'
    /\ live s' = (h, false) :: live s
    /\ lwf s' next' /\ next < next' /\ next <= h < next'.
Proof.
  induction l as [|d sub IH]; intros sz c next s evs h next' Hne Hn Hw Hb; [congruence|].
  rewrite aux_build_cons in Hb. destruct sub as [|d0 sub'].
  - inv Hb.
    set (s1 := mkls ((next, false) :: live s) (next :: seen s)).
    assert (Hr1 : ledger_step s (EvDup next 0) = Some s1).
    { cbn [ledger_step]. apply step_create; [assumption|apply (fresh_not_seen s next next Hw); lia|reflexivity]. }
    assert (Hw1 : lwf s1 (next + 1)).
    { destruct Hw as [Hs Hl]. split.
      - unfold s1. cbn [seen]. intros h [<-|Hh]; [lia|]. apply Hs in Hh. lia.
      - intros p. unfold s1. cbn [live seen]. intros [<-|Hp]; [left; reflexivity|right; apply Hl; assumption]. }
    assert (Hlive : is_live s1 next = true).
    { unfold is_live, s1. cbn [live existsb fst]. rewrite Z.eqb_refl. reflexivity. }
    destruct (block_free_ok s1 (next + 1) c (d_stride d * sz) next 0 (d_stride d * sz) Hw1 ltac:(lia) Hlive)
      as (s2 & Hr2 & Hl2 & Hw2).
    exists s2. split; [|split; [|split; [|split]]].
    + cbn [app]. rewrite (run_cons s _ s1 _ Hr1). exact Hr2.
    + rewrite Hl2. unfold s1. cbn [live filter fst]. rewrite Z.eqb_refl. cbn [negb].
      rewrite (fresh_filter s next next Hw) by lia. reflexivity.
    + replace (next + 1 + 2) with (next + 1 + 2) by lia. exact Hw2.
    + lia.
    + lia.
  - destruct (aux_build (d0 :: sub') sz (l_size (d0 :: sub')) next) as [[e hs] n1] eqn:Eb.
    inv Hb.
    destruct (IH sz (l_size (d0 :: sub')) next s e hs n1 ltac:(discriminate) Hn Hw Eb)
      as (s1 & Hr1 & Hl1 & Hw1 & Hlt & Hhs).
    assert (Hlive : is_live s1 hs = true).
    { unfold is_live. rewrite Hl1. cbn [existsb fst]. rewrite Z.eqb_refl. reflexivity. }
    destruct (block_free_ok s1 n1 c (d_stride d * sz) hs 0 (d_stride d * sz) Hw1 ltac:(lia) Hlive)
      as (s2 & Hr2 & Hl2 & Hw2).
    exists s2. split; [|split; [|split; [|split]]].
    + rewrite ledger_run_app, Hr1. exact Hr2.
    + rewrite Hl2, Hl1. cbn [filter fst]. rewrite Z.eqb_refl. cbn [negb].
      rewrite (fresh_filter s next hs Hw) by lia. reflexivity.
    + assumption.
    + lia.
    + lia.
Qed.

Theorem aux_trace_balanced : forall l sz uses, l <> [] ->
  ledger_balanced (aux_trace l sz uses 1) = true.
Proof.
  intros l sz uses Hne. unfold ledger_balanced, aux_trace.
  destruct (aux_build l sz (l_size l) 1) as [[evs h] n'] eqn:Eb.
  destruct (aux_build_ok l sz (l_size l) 1 ls_init evs h n' Hne ltac:(lia) lwf_init Eb) as (s1 & Hr & Hl & _).
  rewrite ledger_run_app, Hr. cbn [ls_init live] in Hl.
  destruct (commit_use_free_ok s1 h 1 uses Hl) as (s2 & Hr2 & Hl2).
  rewrite Hr2, Hl2. reflexivity.
Qed.

(* ---- commit before communication, stated on the trace itself ---- *)
Definition comm_in (lv : list (handle * bool)) (h : handle) : bool :=
  existsb (fun p => (fst p =? h) && snd p) lv.

Lemma comm_in_commit lv h' h :
  comm_in (map (fun p => if fst p =? h' then (fst p, true) else p) lv) h = true ->
  h = h' \/ comm_in lv h = true.
Proof.
  induction lv as [|[a b] lv IH]; cbn [map comm_in existsb fst snd]; [discriminate|].
  intros H. apply orb_prop in H as [H|H].
  - destruct (a =? h') eqn:E; cbn [fst snd] in H.
    + bprop. left. lia.
    + right. rewrite H. reflexivity.
  - destruct (IH H) as [->|H']; [left; reflexivity|right]. unfold comm_in in H'. rewrite H'. apply orb_true_r.
Qed.

Lemma comm_in_free lv h' h :
  comm_in (filter (fun p => negb (fst p =? h')) lv) h = true -> comm_in lv h = true.
Proof.
  induction lv as [|p lv IH]; cbn [filter comm_in existsb]; [discriminate|].
  destruct (negb (fst p =? h')); cbn [existsb].
  - intros H. apply orb_prop in H as [H|H]; [rewrite H; reflexivity|]. unfold comm_in in IH. rewrite (IH H). apply orb_true_r.
  - intros H. unfold comm_in in IH. rewrite (IH H). apply orb_true_r.
Qed.

Lemma committed_needs_commit tr : forall s s' h, ledger_run s tr = Some s' ->
  is_committed s' h = true -> is_committed s h = true \/ In (EvCommit h) tr.
Proof.
  induction tr as [|e tr IH]; intros s s' h H Hc.
  - cbn in H. inv H. left. assumption.
  - cbn [ledger_run] in H. destruct (ledger_step s e) as [s1|] eqn:E; [|discriminate].
    destruct (IH _ _ h H Hc) as [H1|H1]; [|right; right; assumption].
    assert (Hcr : forall n o, ls_create s n o = Some s1 -> is_committed s h = true).
    { intros n o Hx. unfold ls_create in Hx.
      destruct ((0 <? n) && negb (was_seen s n) && usable_old s o); [|discriminate]. inv Hx.
      unfold is_committed in H1. cbn [live existsb fst snd] in H1. rewrite andb_false_r in H1. exact H1. }
    destruct e as [n c b st o|n c b st o|n o lb ex|n o|h'|h'|h' c]; cbn [ledger_step] in E.
    + left. apply (Hcr _ _ E).
    + left. apply (Hcr _ _ E).
    + left. apply (Hcr _ _ E).
    + left. apply (Hcr _ _ E).
    + destruct (is_live s h'); [|discriminate]. inv E. unfold is_committed in H1. cbn [live] in H1.
      destruct (comm_in_commit _ _ _ H1) as [->|H2]; [right; left; reflexivity|left; exact H2].
    + destruct (is_live s h'); [|discriminate]. inv E. unfold is_committed in H1. cbn [live] in H1.
      left. apply (comm_in_free _ _ _ H1).
    + destruct ((h' =? 0) || is_committed s h'); [|discriminate]. inv E. left. assumption.
Qed.

(* in an accepted trace, a created datatype passed to communication was committed earlier *)
Theorem use_after_commit tr : ledger_balanced tr = true ->
  forall pre h c post, tr = pre ++ EvUse h c :: post -> h <> 0 -> In (EvCommit h) pre.
Proof.
  unfold ledger_balanced. intros H pre h c post -> Hh.
  rewrite ledger_run_app in H. destruct (ledger_run ls_init pre) as [s1|] eqn:R; [|discriminate].
  cbn [ledger_run ledger_step] in H.
  destruct ((h =? 0) || is_committed s1 h) eqn:C; [|discriminate].
  apply orb_prop in C as [C|C]; [bprop; contradiction|].
  destruct (committed_needs_commit pre ls_init s1 h R C) as [F|I]; [discriminate|assumption].
Qed.

(* C17 -- lemmas about Model/CodecView.v: a view saves its elements in canonical order and loads
   them into exactly its footprint. *)
From BM Require Import Base.Tactics Model.CodecArray Model.CodecView Proofs.CodecArrayProofs.
From Coq Require Import Permutation.
Local Open Scope Z_scope.

(* ---------- canonical order = lexicographic order of the view's own index tuples ---------- *)
Lemma flat_map_map {A B C} (f : B -> list C) (g : A -> B) l :
  flat_map f (map g l) = flat_map (fun a => f (g a)) l.
Proof. induction l; cbn [map flat_map]; congruence. Qed.

Lemma map_flat_map {A B C} (f : B -> C) (g : A -> list B) l :
  map f (flat_map g l) = flat_map (fun a => map f (g a)) l.
Proof. induction l; cbn [map flat_map]; [reflexivity|]. rewrite map_app. congruence. Qed.

Lemma flat_map_ext' {A B} (f g : A -> list B) l :
  (forall a, In a l -> f a = g a) -> flat_map f l = flat_map g l.
Proof.
  induction l; intros H; cbn [flat_map]; [reflexivity|].
  rewrite H by (left; reflexivity). rewrite IHl; [reflexivity|]. intros. apply H. right. assumption.
Qed.

Lemma cv_addrs_indices b dims :
  cv_addrs_from b dims
  = map (fun idx => b + cv_dot idx dims) (cx_indices (map (fun d => (0, fst d)) dims)).
Proof.
  revert b. induction dims as [|[n st] rest IH]; intros b.
  - cbn. f_equal. lia.
  - cbn [cv_addrs_from map cx_indices fst snd]. unfold cr_size. cbn [fst snd].
    rewrite Z.sub_0_r. rewrite map_flat_map. apply flat_map_ext'. intros i _.
    rewrite IH, map_map. apply map_ext. intros idx. cbn [cv_dot]. lia.
Qed.

Lemma cv_addrs_length b dims :
  Forall (fun d => 0 <= fst d) dims ->
  length (cv_addrs_from b dims) = Z.to_nat (fold_right Z.mul 1 (map fst dims)).
Proof.
  intros H. rewrite cv_addrs_indices, map_length, cx_indices_length.
  - f_equal. clear H. induction dims as [|[n st] rest IH]; [reflexivity|].
    cbn [map cx_num fold_right fst]. rewrite IH. unfold cr_size. cbn [fst snd]. rewrite Z.sub_0_r. reflexivity.
  - unfold cx_wf. rewrite Forall_map. eapply Forall_impl; [|exact H]. intros d Hd. unfold cr_wf. cbn [fst snd] in *. exact Hd.
Qed.

(* equal extents => the same number of elements, visited in the same index order *)
Lemma cv_same_sizes_length v w :
  cv_sizes v = cv_sizes w -> length (cv_addrs v) = length (cv_addrs w).
Proof.
  unfold cv_addrs, cv_sizes. intros H. rewrite !cv_addrs_indices, !map_length.
  f_equal. f_equal.
  revert H. generalize (cv_dims w). induction (cv_dims v) as [|d l IH]; intros [|d' l'] H; cbn [map] in *;
    try discriminate; [reflexivity|].
  injection H as H1 H2. rewrite H1. f_equal. auto.
Qed.

(* ---------- a sufficient condition for a view not to overlap itself ---------- *)
(* sub-blocks and strided sub-blocks of a row-major array, in the array's own dimension order *)
Fixpoint cv_span (dims : list (Z * Z)) : Z :=
  match dims with [] => 0 | (n, st) :: rest => Z.max 0 (n - 1) * st + cv_span rest end.
Fixpoint cv_dominant (dims : list (Z * Z)) : Prop :=
  match dims with
  | [] => True
  | (n, st) :: rest => 0 < st /\ cv_span rest < st /\ cv_dominant rest
  end.

Lemma cv_span_nonneg dims : cv_dominant dims -> 0 <= cv_span dims.
Proof.
  induction dims as [|[n st] rest IH]; cbn [cv_span cv_dominant]; [lia|].
  intros (H1 & H2 & H3). specialize (IH H3). nia.
Qed.

Lemma zseq_in s n i : In i (zseq s n) <-> s <= i < s + Z.of_nat n.
Proof.
  revert s. induction n; intros s; cbn [zseq In]; [lia|].
  rewrite IHn. lia.
Qed.

Lemma zseq_nodup s n : NoDup (zseq s n).
Proof.
  revert s. induction n; intros s; cbn [zseq]; constructor; auto.
  rewrite zseq_in. lia.
Qed.

Lemma cv_addrs_bounds b dims a :
  cv_dominant dims -> In a (cv_addrs_from b dims) -> b <= a <= b + cv_span dims.
Proof.
  revert b. induction dims as [|[n st] rest IH]; intros b Hd Hin.
  - cbn in Hin. destruct Hin as [<-|[]]. cbn. lia.
  - cbn [cv_addrs_from] in Hin. apply in_flat_map in Hin. destruct Hin as (i & Hi & Ha).
    apply zseq_in in Hi. cbn [cv_dominant] in Hd. destruct Hd as (H1 & H2 & H3).
    specialize (IH _ H3 Ha). pose proof (cv_span_nonneg _ H3). cbn [cv_span]. nia.
Qed.

Lemma nodup_app {A} (l1 l2 : list A) :
  NoDup l1 -> NoDup l2 -> (forall x, In x l1 -> ~ In x l2) -> NoDup (l1 ++ l2).
Proof.
  induction 1 as [|a l Hn Hl IH]; intros H2 Hd; cbn [app]; [assumption|].
  constructor.
  - rewrite in_app_iff. intros [H|H]; [contradiction|]. apply (Hd a); [left; reflexivity|assumption].
  - apply IH; [assumption|]. intros x Hx. apply Hd. right. assumption.
Qed.

Lemma nodup_flat_map {A B} (f : A -> list B) l :
  NoDup l -> (forall a, In a l -> NoDup (f a)) ->
  (forall a a' x, In a l -> In a' l -> In x (f a) -> In x (f a') -> a = a') ->
  NoDup (flat_map f l).
Proof.
  induction 1 as [|a l Hn Hl IH]; intros Hf Hd; cbn [flat_map]; [constructor|].
  apply nodup_app.
  - apply Hf. left; reflexivity.
  - apply IH; intros; [apply Hf; right; assumption|]. eapply Hd; eauto; right; assumption.
  - intros x Hx Hx'. apply in_flat_map in Hx'. destruct Hx' as (a' & Ha' & Hx').
    assert (a = a') by (eapply Hd; eauto; [left; reflexivity|right; assumption]). subst. contradiction.
Qed.

Lemma cv_dominant_nodup b dims : cv_dominant dims -> NoDup (cv_addrs_from b dims).
Proof.
  revert b. induction dims as [|[n st] rest IH]; intros b Hd.
  - cbn. constructor; [intros []|constructor].
  - cbn [cv_addrs_from]. cbn [cv_dominant] in Hd. destruct Hd as (H1 & H2 & H3).
    apply nodup_flat_map.
    + apply zseq_nodup.
    + intros. apply IH. assumption.
    + intros i j x _ _ Hi Hj.
      apply cv_addrs_bounds in Hi; [|assumption]. apply cv_addrs_bounds in Hj; [|assumption]. nia.
Qed.

(* ... and it survives rotated()/transposed()/any reordering of the dimensions *)
Lemma perm_flat_map_pointwise {A B} (f g : A -> list B) l :
  (forall a, Permutation (f a) (g a)) -> Permutation (flat_map f l) (flat_map g l).
Proof. intros H. induction l; cbn [flat_map]; [constructor|]. apply Permutation_app; auto. Qed.

Lemma perm_flat_map_swap {A B C} (f : A -> B -> list C) la lb :
  Permutation (flat_map (fun a => flat_map (fun b => f a b) lb) la)
              (flat_map (fun b => flat_map (fun a => f a b) la) lb).
Proof.
  induction la as [|a la IH]; cbn [flat_map].
  - induction lb; cbn [flat_map]; [constructor|assumption].
  - rewrite IH. clear IH. induction lb as [|b lb IH]; cbn [flat_map]; [constructor|].
    rewrite <- IH. rewrite !app_assoc. apply Permutation_app_tail.
    rewrite <- !app_assoc. apply Permutation_app_head. apply Permutation_app_comm.
Qed.

Lemma cv_addrs_perm dims dims' :
  Permutation dims dims' -> forall b, Permutation (cv_addrs_from b dims) (cv_addrs_from b dims').
Proof.
  induction 1 as [|[n st] l l' Hp IH|[n1 s1] [n2 s2] l|l1 l2 l3 H1 IH1 H2 IH2]; intros b.
  - constructor. constructor.
  - cbn [cv_addrs_from]. apply perm_flat_map_pointwise. intros. apply IH.
  - cbn [cv_addrs_from].
    rewrite (perm_flat_map_swap (fun j i => cv_addrs_from (b + j * s2 + i * s1) l)).
    apply perm_flat_map_pointwise. intros i. apply perm_flat_map_pointwise. intros j.
    replace (b + i * s1 + j * s2) with (b + j * s2 + i * s1) by lia. reflexivity.
  - etransitivity; eauto.
Qed.

Lemma cv_perm_dominant_nodup b dims dims' :
  cv_dominant dims -> Permutation dims dims' -> NoDup (cv_addrs_from b dims').
Proof.
  intros Hd Hp. eapply Permutation_NoDup; [apply cv_addrs_perm; eassumption|].
  apply cv_dominant_nodup. assumption.
Qed.

(* ---------- saving and loading ---------- *)
Section ViewProofs.
  Variable value : Type.
  Variable okv : value -> Prop.
  Variable token : Type.
  Variable enc : value -> list token.
  Variable dec : value -> list token -> option (value * list token).
  Hypothesis dec_enc : forall p v r, okv p -> okv v -> dec p (enc v ++ r) = Some (v, r).

  Lemma save_view_spec v (s : storage value) :
    save_view enc v s = flat_map enc (map s (cv_addrs v)).
  Proof. unfold save_view. rewrite flat_map_map. reflexivity. Qed.

  (* writing a list of values at a list of addresses, in order *)
  Fixpoint st_write (s : storage value) (addrs : list Z) (vs : list value) : storage value :=
    match addrs, vs with
    | a :: addrs', v :: vs' => st_write (st_upd s a v) addrs' vs'
    | _, _ => s
    end.

  Lemma st_write_frame addrs : forall vs s a, ~ In a addrs -> st_write s addrs vs a = s a.
  Proof.
    induction addrs as [|a0 addrs IH]; intros [|v vs] s a Hn; cbn [st_write]; try reflexivity.
    rewrite IH by (intros H; apply Hn; right; assumption).
    unfold st_upd. destruct (a =? a0) eqn:E; bprop; [|reflexivity].
    exfalso. apply Hn. left. congruence.
  Qed.

  Lemma st_write_values addrs : forall vs s,
    NoDup addrs -> length addrs = length vs -> map (st_write s addrs vs) addrs = vs.
  Proof.
    induction addrs as [|a0 addrs IH]; intros [|v vs] s Hn Hl; cbn [length] in Hl; try lia; [reflexivity|].
    inv Hn. cbn [st_write map]. rewrite IH by (auto; lia). f_equal.
    rewrite st_write_frame by assumption. unfold st_upd. rewrite Z.eqb_refl. reflexivity.
  Qed.

  Lemma load_addrs_spec addrs : forall vs rest s,
    length addrs = length vs -> Forall okv vs -> (forall a, okv (s a)) ->
    load_addrs dec addrs (flat_map enc vs ++ rest) s = Some (st_write s addrs vs, rest).
  Proof.
    induction addrs as [|a0 addrs IH]; intros [|v vs] rest s Hl Hv Hs; cbn [length] in Hl; try lia; [reflexivity|].
    inv Hv. cbn [load_addrs flat_map st_write]. rewrite <- app_assoc, dec_enc by auto.
    apply IH; [lia|assumption|]. intros a. unfold st_upd. destruct (a =? a0); auto.
  Qed.

  (* C17, second clause *)
  Lemma view_roundtrip_frame v w (s0 s : storage value) rest :
    length (cv_addrs v) = length (cv_addrs w) ->      (* in particular: equal extents *)
    NoDup (cv_addrs w) ->                              (* the receiving view does not overlap itself *)
    (forall a, okv (s0 a)) -> (forall a, okv (s a)) ->
       save_view enc v s0 = flat_map enc (map s0 (cv_addrs v))
    /\ exists s',
         load_view dec w (save_view enc v s0 ++ rest) s = Some (s', rest)
      /\ map s' (cv_addrs w) = map s0 (cv_addrs v)
      /\ (forall a, ~ In a (cv_addrs w) -> s' a = s a)
      /\ (forall a, okv (s' a)).
  Proof.
    intros Hl Hn H0 Hs. split; [apply save_view_spec|].
    exists (st_write s (cv_addrs w) (map s0 (cv_addrs v))).
    assert (Hok : Forall okv (map s0 (cv_addrs v))) by (rewrite Forall_map; apply Forall_forall; auto).
    unfold load_view. rewrite save_view_spec, load_addrs_spec; auto; [|rewrite map_length; lia].
    split; [reflexivity|]. split; [apply st_write_values; [assumption|rewrite map_length; lia]|].
    split; [intros; apply st_write_frame; assumption|].
    intros a. destruct (in_dec Z.eq_dec a (cv_addrs w)) as [Hi|Hi].
    - pose proof (st_write_values (cv_addrs w) (map s0 (cv_addrs v)) s Hn) as Hm.
      rewrite map_length in Hm. specialize (Hm (eq_sym Hl)).
      apply in_map with (f := st_write s (cv_addrs w) (map s0 (cv_addrs v))) in Hi.
      rewrite Hm in Hi. rewrite Forall_forall in Hok. auto.
    - rewrite st_write_frame by assumption. auto.
  Qed.
End ViewProofs.

(* C13 -- syrk / herk site by site: under the named condition of its site (Model/BlasC13L3Crit.v: rk_site_cond) every call
   site of syrk.hpp:17-36 and herk.hpp:121-142 satisfies the criterion rk_implements_b, for all sizes and strides; with
   Proofs/BlasC13RankK.v (criterion sound) this gives legality + result on the selected triangle + frame.  The conditions
   are needed: refutations at the end (vm_compute witnesses over Z, taken from failing cases of the correspondence run). *)
From BM Require Import Base.Tactics Model.BlasC13 Model.BlasC13Ref Model.BlasC13Crit Model.BlasC13L3 Model.BlasC13L3Crit
  Proofs.BlasC13RefProofs Proofs.BlasC13Tac Proofs.BlasC13RankK.
Local Open Scope Z_scope.
Local Open Scope bool_scope.

Ltac rk_unfold :=
  unfold rk_implements_b, rk_legal, rk_trans, op_is, agree, conj_mat, ch_U, ch_L, ch_N, ch_T, ch_C;
  cbn [r_site r_uplo r_trans r_n r_k r_pa r_lda r_pc r_ldc mconj rows cols s0 s1 mbase];
  change (85 =? 85) with true; change (76 =? 85) with false;
  change (78 =? 78) with true; change (84 =? 78) with false; change (67 =? 78) with false;
  cbn [is_n opconj Bool.eqb negb mconj rows cols s0 s1 mbase].

Theorem syrk_site_conditions (upper : bool) (a c : mat) :
  wf_mat a -> wf_mat c -> rows a = rows c -> cols c = rows c -> mconj a = false -> mconj c = false ->
  rk_site_cond (syrk_dispatch upper a c) a c = true ->
  rk_implements_b false upper (syrk_dispatch upper a c) a c = true.
Proof.
  unfold wf_mat. intros Wa Wc Sr Sc Ca Cc C.
  destruct a as [pa a0 a1 ra ca ja], c as [pc c0 c1 rc cc jc].
  cbn [mconj rows cols s0 s1 mbase] in *. subst ja jc.
  unfold syrk_dispatch in *. cbn [mconj rows cols s0 s1 mbase] in *.
  destruct (a0 =? 1) eqn:A0, (c0 =? 1) eqn:C0, upper;
    unfold rk_site_cond in C; cbn [r_site rows cols s0 s1 Z.eqb Pos.eqb orb] in C; rk_unfold;
    repeat match goal with H : _ = true |- _ => c13_hprop H | H : _ = false |- _ => c13_hprop H end;
    solve [c13_bgoal].
Qed.

Theorem herk_site_conditions (upper : bool) (a c : mat) (k : rk_call) :
  wf_mat a -> wf_mat c -> rows a = rows c -> cols c = rows c -> mconj c = false ->
  herk_dispatch upper a c = L3Call k ->
  rk_site_cond k a c = true ->
  rk_implements_b true upper k a c = true.
Proof.
  unfold wf_mat. intros Wa Wc Sr Sc Cc D C.
  destruct a as [pa a0 a1 ra ca ja], c as [pc c0 c1 rc cc jc].
  cbn [mconj rows cols s0 s1 mbase] in *. subst jc.
  unfold herk_dispatch in D. cbn [mconj rows cols s0 s1 mbase] in D.
  destruct ja, (a0 =? 1) eqn:A0, (c0 =? 1) eqn:C0; cbn [andb negb] in D;
    try (destruct (ra =? 1) eqn:R1); try discriminate D; injection D as D; subst k;
    destruct upper;
    unfold rk_site_cond in C; cbn [r_site rows cols s0 s1 Z.eqb Pos.eqb orb] in C; rk_unfold;
    repeat match goal with H : _ = true |- _ => c13_hprop H | H : _ = false |- _ => c13_hprop H end;
    solve [c13_bgoal].
Qed.

(* ------------------------------------------------------------------------------------------ *)
(* the partial statements in the form of the specification, and the refutations                *)
(* ------------------------------------------------------------------------------------------ *)
From BM Require Import Model.BlasC13L3Spec.

Section Carrier.
  Variable R : Type.
  Variable rzero : R.
  Variables radd rmul : R -> R -> R.
  Variable cj re : R -> R.
  Hypothesis rmul_comm : forall x y, rmul x y = rmul y x.
  Hypothesis cj_invol : forall x, cj (cj x) = x.

  Lemma syrk_partial (upper : bool) (alpha beta : R) (a c : mat) (mem : Z -> R) :
    wf_mat a -> wf_mat c -> rows a = rows c -> cols c = rows c -> mconj a = false -> mconj c = false ->
    rk_site_cond (syrk_dispatch upper a c) a c = true ->
    rk_correct_at R rzero radd rmul cj re false upper alpha beta a c (syrk_dispatch upper a c) mem.
  Proof.
    intros Wa Wc Sr Sc Ca Cc C.
    exact (rk_criterion_sound R rzero radd rmul cj re rmul_comm cj_invol false upper alpha beta a c _ mem
             (syrk_site_conditions upper a c Wa Wc Sr Sc Ca Cc C)).
  Qed.

  Lemma herk_partial (upper : bool) (alpha beta : R) (a c : mat) (k : rk_call) (mem : Z -> R) :
    wf_mat a -> wf_mat c -> rows a = rows c -> cols c = rows c -> mconj c = false ->
    herk_dispatch upper a c = L3Call k ->
    rk_site_cond k a c = true ->
    rk_correct_at R rzero radd rmul cj re true upper alpha beta a c k mem.
  Proof.
    intros Wa Wc Sr Sc Cc D C.
    exact (rk_criterion_sound R rzero radd rmul cj re rmul_comm cj_invol true upper alpha beta a c k mem
             (herk_site_conditions upper a c k Wa Wc Sr Sc Cc D C)).
  Qed.
End Carrier.

(* Gaussian integers: the carrier of the witnesses (conjugation matters for herk) *)
Definition G := (Z * Z)%type.
Definition gadd (x y : G) : G := (fst x + fst y, snd x + snd y).
Definition gmul (x y : G) : G := (fst x * fst y - snd x * snd y, fst x * snd y + snd x * fst y).
Definition gcj (x : G) : G := (fst x, - snd x).
Definition gre (x : G) : G := (fst x, 0).
Definition gmem (p : Z) : G := (p mod 7 + 1, p mod 5 - 2).
Lemma gmul_comm x y : gmul x y = gmul y x.
Proof. destruct x, y. unfold gmul. cbn [fst snd]. f_equal; ring. Qed.
Lemma gcj_invol x : gcj (gcj x) = x.
Proof. destruct x. unfold gcj. cbn [fst snd]. f_equal. ring. Qed.

(* syrk.hpp:24: a 2 x 1 column-major a (k must be 1) -- the call passes k = size(a) = 2 and reads a second column *)
Theorem syrk_site_601_refuted : ~ syrk_site_full 601.
Proof.
  intro H.
  specialize (H G (0, 0) gadd gmul gcj gre gmul_comm gcj_invol true (1, 0) (0, 0)
                (mk_mat 1000000 1 2 2 1 false) (mk_mat 3000000 1 2 2 2 false) gmem).
  destruct H as (_ & Rr & _); try reflexivity; try (apply wf_matb_spec; reflexivity).
  specialize (Rr 0 0 ltac:(cbn; lia) ltac:(cbn; lia) eq_refl). vm_compute in Rr. discriminate Rr.
Qed.

(* syrk.hpp:26: c with both strides different from 1 (every second column of a padded array) is not rejected *)
Theorem syrk_site_602_refuted : ~ syrk_site_full 602.
Proof.
  intro H.
  specialize (H G (0, 0) gadd gmul gcj gre gmul_comm gcj_invol true (1, 0) (0, 0)
                (mk_mat 1000000 1 2 2 2 false) (mk_mat 3000000 4 2 2 2 false) gmem).
  destruct H as (_ & Rr & _); try reflexivity; try (apply wf_matb_spec; reflexivity).
  specialize (Rr 0 1 ltac:(cbn; lia) ltac:(cbn; lia) eq_refl). vm_compute in Rr. discriminate Rr.
Qed.

(* herk.hpp:130: a conjugated, row-major a and c, n = 2: the conjugate of the wanted off-diagonal element is stored *)
Theorem herk_site_704_refuted : ~ herk_site_full 704.
Proof.
  intro H.
  specialize (H G (0, 0) gadd gmul gcj gre gmul_comm gcj_invol true (1, 0) (0, 0)
                (mk_mat 1000000 2 1 2 2 true) (mk_mat 3000000 2 1 2 2 false)
                (mk_rk_call 704 ch_L ch_C 2 2 1000000 2 3000000 2) gmem).
  destruct H as (_ & Rr & _); try reflexivity; try (apply wf_matb_spec; reflexivity).
  specialize (Rr 0 1 ltac:(cbn; lia) ltac:(cbn; lia) eq_refl). vm_compute in Rr. discriminate Rr.
Qed.

(* herk.hpp:134 (the branch the repository's tests use, row-major a and c): column-strided a is not rejected *)
Theorem herk_site_711_refuted : ~ herk_site_full 711.
Proof.
  intro H.
  specialize (H G (0, 0) gadd gmul gcj gre gmul_comm gcj_invol true (1, 0) (0, 0)
                (mk_mat 1000000 4 2 2 2 false) (mk_mat 3000000 2 1 2 2 false)
                (mk_rk_call 711 ch_L ch_C 2 2 1000000 4 3000000 2) gmem).
  destruct H as (_ & Rr & _); try reflexivity; try (apply wf_matb_spec; reflexivity).
  specialize (Rr 0 1 ltac:(cbn; lia) ltac:(cbn; lia) eq_refl). vm_compute in Rr. discriminate Rr.
Qed.

(* Block-level and slot-level steps of the lifecycle machine: how allocation, release, and updates of the array
   objects move blocks between "held by the operation" and "owned by an array object" under the invariant. *)
From BM Require Import Base.Tactics Model.Life Proofs.LifeBase Proofs.LifeMonad Proofs.LifeInv Proofs.LifeCells.
Local Open Scope Z_scope.

Section Steps.
Variable cfg : config.

Notation cinit := (cinit cfg).
Notation cells_ok := (cells_ok cfg).
Notation st_le := (st_le cfg).
Notation Inv := (Inv cfg).
Notation arr_ok := (arr_ok cfg).
Notation src_ok := (src_ok cfg).

(* the invariant looks at the array objects and the block table only *)
Lemma Inv_ext X s s' : s_arrs s' = s_arrs s -> s_blocks s' = s_blocks s -> Inv X s -> Inv X s'.
Proof.
  intros A Bk I.
  assert (Hs : forall r, get_slot s' r = get_slot s r) by (intro; unfold get_slot; rewrite A; auto).
  assert (Hb : forall b, get_blk s' b = get_blk s b) by (intro; unfold get_blk; rewrite Bk; auto).
  assert (Ho : forall b r, owner_of s' b r <-> owner_of s b r) by (intros; unfold owner_of; rewrite Hs; tauto).
  constructor.
  - rewrite A; apply I.
  - intros b blk H. rewrite Hb in H. eapply inv_blk; eauto.
  - intros r a H. rewrite Hs in H. intros Hn. destruct (inv_arr _ _ _ I r a H Hn) as (b & blk & ?). exists b, blk. rewrite Hb. auto.
  - intros r r' b H1 H2. apply Ho in H1. apply Ho in H2. eapply inv_disj; eauto.
  - intros b blk H Hl. rewrite Hb in H. destruct (inv_noleak _ _ _ I b blk H Hl) as [|[r Hr]]; auto.
    right; exists r; apply Ho; auto.
  - intros b HX. destruct (inv_held _ _ _ I b HX) as [(blk & H1 & H2) Hno]. split.
    + exists blk. rewrite Hb. auto.
    + intros r Hr. apply Ho in Hr. eapply Hno; eauto.
  - apply I.
Qed.

Definition set_slot (s : state) (r : nat) (o : option arr) : state := set_arrs s (upd_nth (s_arrs s) r o).
Definition nonowning (o : option arr) : Prop := match o with None => True | Some a => nel a <= 0 end.

Lemma get_slot_set_slot s r r' o : (r < length (s_arrs s))%nat ->
  get_slot (set_slot s r o) r' = if (r =? r')%nat then o else get_slot s r'.
Proof.
  intros H. destruct (r =? r')%nat eqn:E.
  - apply Nat.eqb_eq in E. subst. apply get_slot_set_same; auto.
  - apply Nat.eqb_neq in E. apply get_slot_set_other; auto.
Qed.

Lemma owner_of_nonowning s b r o : get_slot s r = o -> nonowning o -> ~ owner_of s b r.
Proof. intros H Hn (a & Ha & Hp & _). rewrite Ha in H. subst o. cbn in Hn. lia. Qed.

(* (S4) a non-owning array object is replaced by another non-owning one (or removed / created) *)
Lemma Inv_set_nonowning X s r o' :
  Inv X s -> (r < NSLOTS)%nat -> nonowning (get_slot s r) -> nonowning o' -> Inv X (set_slot s r o').
Proof.
  intros I Hr Hn Hn'. assert (Hl : (r < length (s_arrs s))%nat) by (rewrite (inv_nslots _ _ _ I); auto).
  assert (Ho : forall b r', owner_of (set_slot s r o') b r' <-> owner_of s b r').
  { intros b r'. unfold owner_of. rewrite get_slot_set_slot by auto. destruct (r =? r')%nat eqn:E.
    - apply Nat.eqb_eq in E. subst r'. split.
      + intros (a & Ha & Hp & _). subst o'. cbn in Hn'. lia.
      + intros (a & Ha & Hp & _). rewrite Ha in Hn. cbn in Hn. lia.
    - tauto. }
  constructor.
  - cbn. rewrite upd_nth_length. apply I.
  - intros b blk H. eapply inv_blk; eauto.
  - intros r' a H. rewrite get_slot_set_slot in H by auto. destruct (r =? r')%nat.
    + subst o'. intros Hp. cbn in Hn'. lia.
    + intros Hp. destruct (inv_arr _ _ _ I r' a H Hp) as (b & blk & ?). exists b, blk. auto.
  - intros r1 r2 b H1 H2. apply Ho in H1. apply Ho in H2. eapply inv_disj; eauto.
  - intros b blk H Hlv. destruct (inv_noleak _ _ _ I b blk H Hlv) as [|[r' Hr']]; auto. right; exists r'; apply Ho; auto.
  - intros b HX. destruct (inv_held _ _ _ I b HX) as [Hex Hno]. split; auto.
    intros r' Hr'. apply Ho in Hr'. eapply Hno; eauto.
  - apply I.
Qed.

(* (S1) an owning array object gives its block up to the operation *)
Lemma Inv_unown X s r a b o' :
  Inv X s -> get_slot s r = Some a -> 0 < nel a -> a_base a = PBlk b -> nonowning o' ->
  Inv (b :: X) (set_slot s r o').
Proof.
  intros I Hs Hp Hb Hn'. assert (Hl := get_slot_lt _ _ _ Hs).
  assert (Hown : owner_of s b r) by (exists a; auto).
  assert (Ho : forall b' r', owner_of (set_slot s r o') b' r' <-> (owner_of s b' r' /\ r' <> r)).
  { intros b' r'. unfold owner_of. rewrite get_slot_set_slot by auto. destruct (r =? r')%nat eqn:E.
    - apply Nat.eqb_eq in E. subst r'. split.
      + intros (a' & Ha & Hp' & _). subst o'. cbn in Hn'. lia.
      + intros [_ Hne]. congruence.
    - apply Nat.eqb_neq in E. split; [intros H; split; auto|intros [H _]; auto]. }
  destruct (inv_arr _ _ _ I r a Hs Hp) as (b0 & blk & Hb0 & Hblk & Hlv & _). assert (b0 = b) by congruence. subst b0.
  constructor.
  - cbn. rewrite upd_nth_length. apply I.
  - intros b' blk' H. eapply inv_blk; eauto.
  - intros r' a' H. rewrite get_slot_set_slot in H by auto. destruct (r =? r')%nat.
    + subst o'. intros Hp'. cbn in Hn'. lia.
    + intros Hp'. destruct (inv_arr _ _ _ I r' a' H Hp') as (b' & blk' & ?). exists b', blk'. auto.
  - intros r1 r2 b' H1 H2. apply Ho in H1. apply Ho in H2. destruct H1, H2. eapply inv_disj; eauto.
  - intros b' blk' H Hlv'. destruct (inv_noleak _ _ _ I b' blk' H Hlv') as [|[r' Hr']]; [left; right; auto|].
    destruct (Nat.eq_dec r' r) as [->|Hne].
    + left. left. destruct Hr' as (a' & Ha' & _ & Hb'). congruence.
    + right. exists r'. apply Ho. auto.
  - intros b' [<-|HX].
    + split; [exists blk; auto|]. intros r' Hr'. apply Ho in Hr'. destruct Hr' as [Hr' Hne].
      apply Hne. eapply inv_disj; eauto.
    + destruct (inv_held _ _ _ I b' HX) as [Hex Hno]. split; auto.
      intros r' Hr'. apply Ho in Hr'. destruct Hr'. eapply Hno; eauto.
  - constructor; [|apply I]. intros HX. destruct (inv_held _ _ _ I b HX) as [_ Hno]. eapply Hno; eauto.
Qed.

(* (S3) a non-owning array object (or a free slot) takes a held block *)
Lemma Inv_own X s r a' b blk :
  Inv (b :: X) s -> (r < NSLOTS)%nat -> nonowning (get_slot s r) ->
  0 < nel a' -> a_base a' = PBlk b -> get_blk s b = Some blk -> b_size blk = nel a' ->
  alloc_eq cfg (b_owner blk) (a_alloc a') = true -> cells_ok (b_cells blk) ->
  Inv X (set_slot s r (Some a')).
Proof.
  intros I Hr Hn Hp Hb Hblk Hsz Hal Hok.
  assert (Hl : (r < length (s_arrs s))%nat) by (rewrite (inv_nslots _ _ _ I); auto).
  destruct (inv_held _ _ _ I b (or_introl eq_refl)) as [(blk0 & Hblk0 & Hlv) Hno].
  assert (blk0 = blk) by congruence. subst blk0.
  assert (Ho : forall b' r', owner_of (set_slot s r (Some a')) b' r' <-> ((r' = r /\ b' = b) \/ (r' <> r /\ owner_of s b' r'))).
  { intros b' r'. unfold owner_of. rewrite get_slot_set_slot by auto. destruct (r =? r')%nat eqn:E.
    - apply Nat.eqb_eq in E. subst r'. split.
      + intros (a0 & Ha & _ & Hb0). inv Ha. left. split; auto. congruence.
      + intros [[_ ->]|[Hne _]]; [exists a'; auto|congruence].
    - apply Nat.eqb_neq in E. split; [intros H; right; split; auto|intros [[-> _]|[_ H]]; [congruence|auto]]. }
  pose proof (inv_nodup _ _ _ I) as Hnd. apply NoDup_cons_iff in Hnd. destruct Hnd as [Hnin Hnd].
  constructor.
  - cbn. rewrite upd_nth_length. apply I.
  - intros b' blk' H. eapply inv_blk; eauto.
  - intros r' a0 H. rewrite get_slot_set_slot in H by auto. destruct (r =? r')%nat.
    + inv H. intros _. exists b, blk. repeat split; auto.
    + intros Hp'. destruct (inv_arr _ _ _ I r' a0 H Hp') as (b' & blk' & ?). exists b', blk'. auto.
  - intros r1 r2 b' H1 H2. apply Ho in H1. apply Ho in H2.
    destruct H1 as [[E1 E1']|[N1 O1]], H2 as [[E2 E2']|[N2 O2]].
    + congruence.
    + exfalso. rewrite E1' in O2. eapply Hno; eauto.
    + exfalso. rewrite E2' in O1. eapply Hno; eauto.
    + eapply inv_disj; eauto.
  - intros b' blk' H Hlv'. destruct (inv_noleak _ _ _ I b' blk' H Hlv') as [[<-|HX]|[r' Hr']]; auto.
    + right. exists r. apply Ho. auto.
    + right. exists r'. apply Ho. right. split; auto. intros ->.
      eapply (owner_of_nonowning s b' r); eauto.
  - intros b' HX. destruct (inv_held _ _ _ I b' (or_intror HX)) as [Hex Hno']. split; auto.
    intros r' Hr'. apply Ho in Hr'. destruct Hr' as [[_ E]|[_ Hr']]; [subst b'; contradiction|]. eapply Hno'; eauto.
  - auto.
Qed.

(* (S2) a held block whose cells are all destroyed goes back to its allocator *)
Definition kill_blk (s : state) (b : nat) (blk : block) : state :=
  upd_blk s b (mkblock (b_owner blk) (b_size blk) (b_cells blk) false).

Lemma Inv_free_held X s b blk :
  Inv (b :: X) s -> get_blk s b = Some blk -> (c_tdtor cfg = false -> all_raw (b_cells blk) = true) ->
  Inv X (kill_blk s b blk).
Proof.
  intros I Hblk Hraw. assert (Hlt := get_blk_lt _ _ _ Hblk).
  destruct (inv_held _ _ _ I b (or_introl eq_refl)) as [_ Hno].
  assert (Hg : forall b', get_blk (kill_blk s b blk) b' =
                          if (b =? b')%nat then Some (mkblock (b_owner blk) (b_size blk) (b_cells blk) false) else get_blk s b').
  { intros b'. unfold kill_blk. destruct (b =? b')%nat eqn:E.
    - apply Nat.eqb_eq in E; subst. apply get_blk_upd_same; auto.
    - apply Nat.eqb_neq in E. apply get_blk_upd_other; auto. }
  assert (Ho : forall b' r, owner_of (kill_blk s b blk) b' r <-> owner_of s b' r) by (intros; unfold owner_of, get_slot; cbn; tauto).
  pose proof (inv_nodup _ _ _ I) as Hnd. apply NoDup_cons_iff in Hnd. destruct Hnd as [Hnin Hnd].
  constructor.
  - apply I.
  - intros b' blk' H. rewrite Hg in H. destruct (b =? b')%nat eqn:E.
    + inv H. destruct (inv_blk _ _ _ I b blk Hblk) as [[W1 W2] _]. split; [split; auto|]. intros _ Ht; cbn. auto.
    + eapply inv_blk; eauto.
  - intros r a H Hp. assert (H' : get_slot s r = Some a) by exact H.
    destruct (inv_arr _ _ _ I r a H' Hp) as (b' & blk' & Hb' & Hk' & Hrest). exists b', blk'. split; auto. split; auto.
    rewrite Hg. destruct (b =? b')%nat eqn:E; auto. apply Nat.eqb_eq in E. subst b'.
    exfalso. apply (Hno r). exists a. auto.
  - intros r1 r2 b' H1 H2. apply Ho in H1. apply Ho in H2. eapply inv_disj; eauto.
  - intros b' blk' H Hlv. rewrite Hg in H. destruct (b =? b')%nat eqn:E.
    + inv H. discriminate.
    + apply Nat.eqb_neq in E. destruct (inv_noleak _ _ _ I b' blk' H Hlv) as [[<-|HX]|[r Hr]]; auto; [congruence|].
      right. exists r. apply Ho; auto.
  - intros b' HX. destruct (inv_held _ _ _ I b' (or_intror HX)) as [(blk' & Hk' & Hlv') Hno']. split.
    + exists blk'. rewrite Hg. destruct (b =? b')%nat eqn:E; auto. apply Nat.eqb_eq in E. subst. contradiction.
    + intros r Hr. apply Ho in Hr. eapply Hno'; eauto.
  - auto.
Qed.

(* a fresh block appended to the table is held by the operation *)
Definition push_blk (s : state) (blk : block) : state := set_blocks s (s_blocks s ++ [blk]).

Lemma Inv_push X s a n :
  Inv X s -> 0 < n -> Inv (length (s_blocks s) :: X) (push_blk s (mkblock a n (repeat Raw (Z.to_nat n)) true)).
Proof.
  intros I Hn. set (nb := length (s_blocks s)). set (blk := mkblock a n (repeat Raw (Z.to_nat n)) true).
  assert (Hg : forall b, get_blk (push_blk s blk) b = if (b =? nb)%nat then Some blk else get_blk s b).
  { intros b. unfold get_blk, push_blk; cbn. destruct (b =? nb)%nat eqn:E.
    - apply Nat.eqb_eq in E. subst b. unfold nb. rewrite nth_error_app2 by lia. rewrite Nat.sub_diag. reflexivity.
    - apply Nat.eqb_neq in E. destruct (Nat.lt_ge_cases b nb).
      + rewrite nth_error_app1 by auto. reflexivity.
      + rewrite (proj2 (nth_error_None _ _)); [|rewrite app_length; cbn; unfold nb in *; lia].
        symmetry. apply nth_error_None. unfold nb in *; lia. }
  assert (Hold : forall b blk', get_blk s b = Some blk' -> (b =? nb)%nat = false).
  { intros b blk' H. apply Nat.eqb_neq. apply get_blk_lt in H. unfold nb; lia. }
  assert (Ho : forall b r, owner_of (push_blk s blk) b r <-> owner_of s b r) by (intros; unfold owner_of, get_slot; cbn; tauto).
  assert (Hnown : forall r, ~ owner_of s nb r).
  { intros r (a0 & Ha & Hp & Hb). destruct (inv_arr _ _ _ I r a0 Ha Hp) as (b' & blk' & Hb' & Hk' & _).
    assert (b' = nb) by congruence. subst b'. apply get_blk_lt in Hk'. unfold nb in Hk'. lia. }
  constructor.
  - apply I.
  - intros b blk' H. rewrite Hg in H. destruct (b =? nb)%nat.
    + inv H. split; [split; cbn; auto; rewrite repeat_length; auto|]. intros Hd; discriminate.
    + eapply inv_blk; eauto.
  - intros r a0 H Hp. assert (H' : get_slot s r = Some a0) by exact H.
    destruct (inv_arr _ _ _ I r a0 H' Hp) as (b' & blk' & Hb' & Hk' & Hrest). exists b', blk'. split; auto. split; auto.
    rewrite Hg, (Hold _ _ Hk'). auto.
  - intros r1 r2 b H1 H2. apply Ho in H1. apply Ho in H2. eapply inv_disj; eauto.
  - intros b blk' H Hlv. rewrite Hg in H. destruct (b =? nb)%nat eqn:E.
    + apply Nat.eqb_eq in E. left; left; auto.
    + destruct (inv_noleak _ _ _ I b blk' H Hlv) as [HX|[r Hr]]; [left; right; auto|right; exists r; apply Ho; auto].
  - intros b [<-|HX].
    + split; [exists blk; rewrite Hg, Nat.eqb_refl; auto|]. intros r Hr. apply Ho in Hr. eapply Hnown; eauto.
    + destruct (inv_held _ _ _ I b HX) as [(blk' & Hk' & Hlv') Hno]. split.
      * exists blk'. rewrite Hg, (Hold _ _ Hk'). auto.
      * intros r Hr. apply Ho in Hr. eapply Hno; eauto.
  - constructor; [|apply I]. intros HX. destruct (inv_held _ _ _ I nb HX) as [(blk' & Hk' & _) _].
    apply get_blk_lt in Hk'. unfold nb in Hk'. lia.
Qed.

Lemma alloc_eq_sym a b : alloc_eq cfg a b = alloc_eq cfg b a.
Proof. unfold alloc_eq. rewrite (Z.eqb_sym a b). reflexivity. Qed.
Lemma alloc_eq_trans a b c : alloc_eq cfg a b = true -> alloc_eq cfg b c = true -> alloc_eq cfg a c = true.
Proof.
  unfold alloc_eq. destruct (c_ae cfg); cbn; auto. intros H1 H2. apply Z.eqb_eq in H1. apply Z.eqb_eq in H2.
  apply Z.eqb_eq. congruence.
Qed.

Lemma upd_nth_comm {T} (l : list T) r r' o o' : r <> r' ->
  upd_nth (upd_nth l r o) r' o' = upd_nth (upd_nth l r' o') r o.
Proof.
  revert r r'. induction l as [|a l IH]; intros [|r] [|r'] H; cbn; try congruence; auto.
  f_equal. apply IH. congruence.
Qed.

Lemma set_slot_comm s r r' o o' : r <> r' -> set_slot (set_slot s r o) r' o' = set_slot (set_slot s r' o') r o.
Proof. intros H. unfold set_slot; cbn. rewrite upd_nth_comm by auto. reflexivity. Qed.

(* the block (if any) of the array object in slot t moves to the array object in slot r, slot t stops claiming it *)
Lemma Inv_move X s r t at_ al' et :
  Inv X s -> get_slot s t = Some at_ -> r <> t -> (r < NSLOTS)%nat -> nonowning (get_slot s r) ->
  alloc_eq cfg (a_alloc at_) al' = true -> nonowning et ->
  Inv X (set_slot (set_slot s r (Some (mkarr al' (a_base at_) (a_exts at_) (a_first at_)))) t et).
Proof.
  intros I Ht Hne Hr Hn Hal Het.
  assert (Htl := get_slot_lt _ _ _ Ht).
  assert (Hrl : (r < length (s_arrs s))%nat) by (rewrite (inv_nslots _ _ _ I); auto).
  rewrite set_slot_comm by auto.
  set (a' := mkarr al' (a_base at_) (a_exts at_) (a_first at_)).
  assert (Hnel : nel a' = nel at_) by reflexivity.
  destruct (Z.leb_spec (nel at_) 0) as [Hz|Hp].
  - assert (I1 : Inv X (set_slot s t et)).
    { apply Inv_set_nonowning; auto. rewrite (inv_nslots _ _ _ I) in Htl; auto. rewrite Ht. exact Hz. }
    apply Inv_set_nonowning; auto.
    rewrite get_slot_set_slot by auto. destruct (t =? r)%nat eqn:E; [apply Nat.eqb_eq in E; congruence|auto].
  - destruct (inv_arr _ _ _ I t at_ Ht Hp) as (b & blk & Hb & Hblk & Hlv & Hsz & Ho & Hok).
    eapply Inv_own with (b := b) (blk := blk); auto.
    + apply (Inv_unown X s t at_ b et I Ht Hp Hb Het).
    + rewrite get_slot_set_slot by auto. destruct (t =? r)%nat eqn:E; [apply Nat.eqb_eq in E; congruence|auto].
    + cbn. eapply alloc_eq_trans; eauto.
Qed.

(* exchange of the values of two array objects (with or without their allocators) *)
Lemma Inv_swap X s r t ar at_ alr alt :
  Inv X s -> get_slot s r = Some ar -> get_slot s t = Some at_ -> r <> t ->
  alloc_eq cfg (a_alloc at_) alr = true -> alloc_eq cfg (a_alloc ar) alt = true ->
  Inv X (set_slot (set_slot s r (Some (mkarr alr (a_base at_) (a_exts at_) (a_first at_))))
                  t (Some (mkarr alt (a_base ar) (a_exts ar) (a_first ar)))).
Proof.
  intros I Hr Ht Hne Hal1 Hal2.
  assert (Hrl := get_slot_lt _ _ _ Hr). assert (Htl := get_slot_lt _ _ _ Ht).
  assert (Hrn : (r < NSLOTS)%nat) by (rewrite <- (inv_nslots _ _ _ I); auto).
  assert (Htn : (t < NSLOTS)%nat) by (rewrite <- (inv_nslots _ _ _ I); auto).
  set (ar' := mkarr alr (a_base at_) (a_exts at_) (a_first at_)).
  set (at' := mkarr alt (a_base ar) (a_exts ar) (a_first ar)).
  set (s' := set_slot (set_slot s r (Some ar')) t (Some at')).
  assert (Hg : forall q, get_slot s' q = if (t =? q)%nat then Some at' else if (r =? q)%nat then Some ar' else get_slot s q).
  { intros q. unfold s'. rewrite get_slot_set_slot by (cbn; rewrite upd_nth_length; auto).
    destruct (t =? q)%nat; auto. apply get_slot_set_slot; auto. }
  (* the owner of a block after the exchange *)
  assert (Ho : forall b q, owner_of s' b q <-> owner_of s b (if (q =? r)%nat then t else if (q =? t)%nat then r else q)).
  { intros b q. unfold owner_of. rewrite Hg.
    destruct (Nat.eq_dec q t) as [->|Hqt].
    - rewrite Nat.eqb_refl. destruct (t =? r)%nat eqn:E; [apply Nat.eqb_eq in E; congruence|].
      split.
      + intros (a & Ha & Hp & Hb). inv Ha. exists ar. auto.
      + intros (a & Ha & Hp & Hb). assert (a = ar) by congruence. subst. exists at'. auto.
    - assert ((t =? q)%nat = false) by (apply Nat.eqb_neq; auto). rewrite H.
      assert ((q =? t)%nat = false) by (apply Nat.eqb_neq; auto). rewrite H0.
      destruct (Nat.eq_dec q r) as [->|Hqr].
      + rewrite Nat.eqb_refl. split.
        * intros (a & Ha & Hp & Hb). inv Ha. exists at_. auto.
        * intros (a & Ha & Hp & Hb). assert (a = at_) by congruence. subst. exists ar'. auto.
      + assert ((r =? q)%nat = false) by (apply Nat.eqb_neq; auto). rewrite H1.
        assert ((q =? r)%nat = false) by (apply Nat.eqb_neq; auto). rewrite H2. tauto. }
  constructor.
  - unfold s'; cbn. rewrite !upd_nth_length. apply I.
  - intros b blk H. eapply inv_blk; eauto.
  - intros q a Hq. rewrite Hg in Hq. destruct (t =? q)%nat eqn:E1; [|destruct (r =? q)%nat eqn:E2].
    + inv Hq. intros Hp. destruct (inv_arr _ _ _ I r ar Hr Hp) as (b & blk & Hb & Hblk & Hlv & Hsz & Hoo & Hok).
      exists b, blk. repeat split; auto. cbn. eapply alloc_eq_trans; eauto.
    + inv Hq. intros Hp. destruct (inv_arr _ _ _ I t at_ Ht Hp) as (b & blk & Hb & Hblk & Hlv & Hsz & Hoo & Hok).
      exists b, blk. repeat split; auto. cbn. eapply alloc_eq_trans; eauto.
    + intros Hp. destruct (inv_arr _ _ _ I q a Hq Hp) as (b & blk & ?). exists b, blk. auto.
  - intros q1 q2 b H1 H2. apply Ho in H1. apply Ho in H2. pose proof (inv_disj _ _ _ I _ _ _ H1 H2) as E.
    destruct (q1 =? r)%nat eqn:A1, (q2 =? r)%nat eqn:A2, (q1 =? t)%nat eqn:B1, (q2 =? t)%nat eqn:B2;
      repeat match goal with H : (_ =? _)%nat = true |- _ => apply Nat.eqb_eq in H | H : (_ =? _)%nat = false |- _ => apply Nat.eqb_neq in H end;
      subst; try congruence.
  - intros b blk H Hlv. destruct (inv_noleak _ _ _ I b blk H Hlv) as [|[q Hq]]; auto. right.
    exists (if (q =? r)%nat then t else if (q =? t)%nat then r else q). apply Ho.
    destruct (q =? r)%nat eqn:A1.
    + apply Nat.eqb_eq in A1. subst q. destruct (t =? r)%nat eqn:E; [apply Nat.eqb_eq in E; congruence|]. rewrite Nat.eqb_refl. auto.
    + destruct (q =? t)%nat eqn:B1.
      * apply Nat.eqb_eq in B1. subst q. rewrite Nat.eqb_refl. auto.
      * rewrite A1, B1. auto.
  - intros b HX. destruct (inv_held _ _ _ I b HX) as [Hex Hno]. split; auto.
    intros q Hq. apply Ho in Hq. eapply Hno; eauto.
  - apply I.
Qed.

End Steps.

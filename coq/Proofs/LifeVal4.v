(* Values: the commuting squares of the constructors.
   step_abs_X : Good s -> dom -> step cfg X s = Ok tt s' -> abs_state s' = vstep cfg X (abs_state s). *)
From BM Require Import Base.Tactics Model.Life Proofs.LifeBase Proofs.LifeMonad Proofs.LifeInv Proofs.LifeCells
  Proofs.LifeSteps Proofs.LifeCombi Proofs.LifeOps Proofs.LifeOps2 Proofs.LifeDisc Proofs.LifeFacts Proofs.LifeAlloc
  Proofs.LifeVal1 Proofs.LifeVal2 Proofs.LifeVal3.
Local Open Scope Z_scope.

(* what the value theorem needs beyond dom_op: every extensions argument has D = c_rank cfg dimensions (one executable
   per configuration, D is a template argument there), and the lists of values / offsets have exactly the announced
   length *)
Definition val_dom (cfg : config) (o : lop) : Prop :=
  match o with
  | OCtorSized _ _ x | OCtorFill _ _ x _ | OAssignFill _ x _ | OReshape _ x | OReextentMove _ x =>
      length x = c_rank cfg
  | OReextent _ x _ => length x = c_rank cfg /\ Forall (fun p => 0 <= snd p) x
  | OCtorView _ _ _ v | OAssignView _ _ v _ =>
      length (vs_exts v) = c_rank cfg /\ length (vs_offs v) = Z.to_nat (bnumel (vs_exts v))
  | OCtorRange _ _ w | OCtorIl _ w | OAssignRange _ w =>
      S (length (rw_ie w)) = c_rank cfg /\ length (rw_vals w) = Z.to_nat (bnumel (rows_exts w))
  | OCtorConv _ x vals | OAssignConv _ x vals => length x = c_rank cfg /\ length vals = Z.to_nat (bnumel x)
  | _ => True
  end.

(* every array of the pool reports normal extensions of D dimensions *)
Definition pool_ok (cfg : config) (P : vpool) : Prop :=
  forall q v, nth_error P q = Some (Some v) -> normal (fst v) /\ length (fst v) = c_rank cfg.

Section Val4.
Variable cfg : config.
Hypothesis rank_pos : (1 <= c_rank cfg)%nat.
Notation Inv := (Inv cfg).
Notation Good := (Good cfg).
Set Default Proof Using "cfg rank_pos".
Notation built := (built).
Notation val_dom := (val_dom cfg).
Notation pool_ok := (pool_ok cfg).

Lemma vget_abs s t a : nth_error (s_arrs s) t = Some (Some a) -> vget (abs_state s) t = abs_arr s a.
Proof. intros H. unfold vget. rewrite abs_nth, H. reflexivity. Qed.

Lemma slot_ok s q a : pool_ok (abs_state s) -> nth_error (s_arrs s) q = Some (Some a) -> normal (arr_bx a) /\ length (arr_bx a) = c_rank cfg.
Proof. intros P H. apply (P q (abs_arr s a)). rewrite abs_nth, H. reflexivity. Qed.

Lemma nth_get_slot s q a : nth_error (s_arrs s) q = Some (Some a) -> get_slot s q = Some a.
Proof. intros H. unfold get_slot. rewrite H. auto. Qed.

Lemma abs_arr_blocks_eq s s' a : s_blocks s' = s_blocks s -> abs_arr s' a = abs_arr s a.
Proof. intros E. unfold abs_arr, arr_block. rewrite E. auto. Qed.

Lemma abs_arr_realloc s al a : abs_arr s (mkarr al (a_base a) (a_exts a) (a_first a)) = abs_arr s a.
Proof. reflexivity. Qed.

Lemma abs_empty s al p : abs_arr s (empty_arr cfg al p) = vempty cfg.
Proof.
  rewrite abs_arr_alt, arr_bx_empty. unfold vempty. f_equal. unfold avals. rewrite (nel_empty cfg rank_pos); auto.
Qed.

Lemma own_empty al p : own (empty_arr cfg al p) = [].
Proof. unfold own. rewrite (nel_empty cfg rank_pos); auto. Qed.

(* the value of an array object sitting on a freshly built block *)
Definition keeps_blk (s1 s' : state) (p : ptr) : Prop :=
  match p with PBlk b => bvals s' b = bvals s1 b /\ blive s' b = blive s1 b | PNull => True end.

Lemma avals_built s0 s1 s' p n V a : built s0 s1 p n V -> keeps_blk s1 s' p ->
  nel a = n -> a_base a = p -> length V = Z.to_nat n -> avals s' a = V.
Proof.
  intros (_ & _ & Hp) K Hn Hb Hl. unfold avals. rewrite Hn, Hb. destruct p as [|b].
  - destruct Hp as [Hle _]. destruct (Z.leb_spec n 0); [|lia]. destruct V; auto. cbn in Hl. lia.
  - destruct Hp as (Hpos & _ & _ & Lv & Vs). destruct K as [K1 K2]. destruct (Z.leb_spec n 0); [lia|].
    rewrite K2, Lv, K1. auto.
Qed.

Lemma keeps_blk_eq s1 s' p : s_blocks s' = s_blocks s1 -> keeps_blk s1 s' p.
Proof. intros E. destruct p; cbn; auto. unfold bvals, blive. rewrite E. auto. Qed.

Lemma built_step s0 s1 s2 b n V V' : built s0 s1 (PBlk b) n V -> blk_step b s1 s2 V' -> built s0 s2 (PBlk b) n V'.
Proof.
  intros (A & [Bl Bf] & (Hn & Eb & Len & Lv & Vs)) [A2 L2 Lv2 Oth Here]. split; [congruence|]. split.
  - split; [lia|]. intros b' Hb' _. destruct (Bf b' Hb' (fun f => f)) as [V1 L1]. rewrite Oth by lia. rewrite Lv2. auto.
  - repeat split; auto; try lia. rewrite Lv2. auto.
Qed.

Lemma built_bsame s0 s1 p n V : built s0 s1 p n V -> bsame [] s0 s1.
Proof. intros (_ & B & _). exact B. Qed.

(* allocate-and-fill followed by the installation of the new array object in a free slot *)
Lemma build_install_abs s s1 s' r al p x n V :
  Inv [] s -> built s s1 p n V -> n = bnumel x -> length V = Z.to_nat n -> (r < length (s_arrs s))%nat ->
  install r al p x s1 = Ok tt s' ->
  abs_state s' = upd_nth (abs_state s) r (Some (norm_bx x, V)).
Proof.
  intros I Bu Hn Hl Hr H. unfold install in H. apply set_arr_inv in H. destruct H as [HA HB].
  pose proof Bu as (A1 & B1 & _). rewrite A1 in HA.
  apply abs_upd1 with (a' := Some (with_bx al p x)); [exact Hr|exact HA| |].
  - cbn. f_equal. rewrite abs_arr_alt, arr_bx_with. f_equal.
    eapply avals_built; eauto; [apply keeps_blk_eq; auto|rewrite nel_with_bx; auto].
  - intros q a _ Hq. rewrite (abs_arr_blocks_eq s1 s') by auto.
    eapply frame_slot with (B := []) (R := []); eauto. intros b [].
Qed.

(* the cells of an array as sources *)
Lemma map_nth_seq {A} (l : list A) d : map (fun i => nth i l d) (seq 0 (length l)) = l.
Proof.
  induction l as [|a l IH]; cbn; auto. f_equal. rewrite <- seq_shift, map_map. exact IH.
Qed.

Lemma cells_of_nil mk a : nel a <= 0 -> cells_of mk a = [].
Proof. intros H. unfold cells_of, nnel. destruct (a_base a); auto. replace (Z.to_nat (nel a)) with 0%nat by lia. auto. Qed.

Lemma cells_of_length mk a : (0 < nel a -> exists b, a_base a = PBlk b) -> length (cells_of mk a) = nnel a.
Proof.
  intros H. destruct (Z.leb_spec (nel a) 0) as [Hn|Hn].
  - rewrite cells_of_nil by auto. unfold nnel. cbn. lia.
  - destruct (H Hn) as [b Eb]. unfold cells_of. rewrite Eb, map_length. unfold seqn. apply seq_length.
Qed.

Lemma cells_of_vals s mk a b : (mk = SCell \/ mk = SMoveCell) -> a_base a = PBlk b -> length (bvals s b) = nnel a ->
  map (src_val s) (cells_of mk a) = bvals s b.
Proof.
  intros Hm Eb Hl. unfold cells_of. rewrite Eb, map_map, <- Hl. unfold seqn.
  destruct Hm as [-> | ->]; cbn; apply map_nth_seq.
Qed.

Lemma cells_of_blk mk a b : (mk = SCell \/ mk = SMoveCell) -> a_base a = PBlk b ->
  Forall (fun x => src_blk x = Some b) (cells_of mk a).
Proof.
  intros Hm Eb. unfold cells_of. rewrite Eb. apply Forall_forall. intros x Hx. apply in_map_iff in Hx.
  destruct Hx as (i & <- & _). destruct Hm as [-> | ->]; auto.
Qed.

(* facts about the cells of a live array under the invariant *)
Lemma cells_facts s t a mk : Inv [] s -> get_slot s t = Some a -> (mk = SCell \/ mk = SMoveCell) ->
  srcs_old s (cells_of mk a) /\ length (cells_of mk a) = Z.to_nat (nel a) /\
  map (src_val s) (cells_of mk a) = avals s a /\
  Forall (fun x => forall b, src_blk x = Some b -> In b (own a)) (cells_of mk a).
Proof.
  intros I Hg Hm. destruct (Z.leb_spec (nel a) 0) as [Hn|Hn].
  - rewrite cells_of_nil by auto. split; [constructor|]. split; [cbn; lia|]. split; [|constructor].
    unfold avals. destruct (Z.leb_spec (nel a) 0); auto; lia.
  - destruct (arr_facts cfg s t a I Hg Hn) as (b & Eb & Lt & Lv & Len & Ow).
    pose proof (cells_of_blk mk a b Hm Eb) as Fb. split; [|split; [|split]].
    + eapply Forall_impl; [|exact Fb]. cbn. intros x Hx b' Hb'. congruence.
    + rewrite cells_of_length; eauto.
    + rewrite (cells_of_vals s mk a b Hm Eb Len). unfold avals. rewrite Eb, Lv.
      destruct (Z.leb_spec (nel a) 0); auto; lia.
    + eapply Forall_impl; [|exact Fb]. cbn. intros x Hx b' Hb'. rewrite Ow. left. congruence.
Qed.

(* ---- the squares ---- *)
Lemma sq_CtorDefault r a s s' : Good s -> dom_op cfg (s_arrs s) (OCtorDefault r a) ->
  step cfg (OCtorDefault r a) s = Ok tt s' -> abs_state s' = vstep cfg (OCtorDefault r a) (abs_state s).
Proof.
  intros (I & W & T) D H. open_ctor H. inv H. cbn [vstep]. unfold vset.
  apply abs_upd1 with (a' := Some (empty_arr cfg a PNull)); [exact Hl|reflexivity|cbn; rewrite abs_empty; auto|].
  intros q a0 _ _. apply abs_arr_blocks_eq. reflexivity.
Qed.

Lemma dflt_fill b s1 s2 n : c_tdc cfg = false -> length (bvals s1 b) = n ->
  default_construct_n b 0 n s1 = Ok tt s2 -> blk_step b s1 s2 (repeat (dflt_val cfg) n).
Proof.
  intros Ht Hl H. apply default_construct_vals in H. unfold dflt_val. rewrite Ht.
  rewrite put_at_all in H; auto. rewrite repeat_length. auto.
Qed.

Lemma sq_CtorSized r a x s s' : Good s -> dom_op cfg (s_arrs s) (OCtorSized r a x) ->
  step cfg (OCtorSized r a x) s = Ok tt s' -> abs_state s' = vstep cfg (OCtorSized r a x) (abs_state s).
Proof.
  intros (I & W & T) D H. open_ctor H. binv H p s1 E. apply alloc_built in E.
  binv H u s2 E2. destruct u. cbn [vstep]. unfold vset.
  assert (Bu : built s s2 p (bnumel x) (repeat (dflt_val cfg) (Z.to_nat (bnumel x)))).
  { destruct p as [|b]; [inv E2; destruct E as (A & B & C); split; auto|].
    unfold dflt_val. destruct (c_tdc cfg) eqn:Ht; [inv E2; exact E|].
    eapply built_step; [exact E|]. apply default_construct_vals in E2.
    destruct E as (_ & _ & (_ & _ & _ & _ & Vs)). rewrite Vs in E2.
    rewrite put_at_all in E2; [exact E2|rewrite !repeat_length; auto]. }
  eapply build_install_abs; eauto. apply repeat_length.
Qed.

Lemma map_src_val_SVal s vals : map (src_val s) (map SVal vals) = vals.
Proof. rewrite map_map. cbn. apply map_id. Qed.

Lemma srcs_old_SVal s vals : srcs_old s (map SVal vals).
Proof. apply Forall_forall. intros x Hx. apply in_map_iff in Hx. destruct Hx as (v & <- & _). cbn. discriminate. Qed.

Lemma repeat_SVal v n : repeat (SVal v) n = map SVal (repeat v n).
Proof. induction n; cbn; auto. f_equal; auto. Qed.

Lemma sq_CtorFill r a x v s s' : Good s -> dom_op cfg (s_arrs s) (OCtorFill r a x v) ->
  step cfg (OCtorFill r a x v) s = Ok tt s' -> abs_state s' = vstep cfg (OCtorFill r a x v) (abs_state s).
Proof.
  intros (I & W & T) D H. open_ctor H. binv H p s1 E. rewrite repeat_SVal in E.
  apply p_build_built in E; [|apply srcs_old_SVal|rewrite map_length, repeat_length; auto].
  rewrite map_src_val_SVal in E. cbn [vstep]. unfold vset.
  eapply build_install_abs; eauto. apply repeat_length.
Qed.

Lemma copy_square mk r t al s s' as_ : (mk = SCell \/ mk = SMoveCell) ->
  Inv [] s -> wf_slots (s_arrs s) -> pool_ok (abs_state s) -> (r < length (s_arrs s))%nat ->
  nth_error (s_arrs s) t = Some (Some as_) ->
  (p <- p_build cfg al (nel as_) 0 (cells_of mk as_) ;; install r al p (arr_bx as_)) s = Ok tt s' ->
  abs_state s' = upd_nth (abs_state s) r (Some (vget (abs_state s) t)).
Proof.
  intros Hm I W P Hr Ht H. binv H p s1 E.
  destruct (cells_facts s t as_ mk I (nth_get_slot _ _ _ Ht) Hm) as (So & Sl & Sv & _).
  apply p_build_built in E; auto. rewrite Sv in E.
  pose proof (bnumel_arr_bx cfg rank_pos as_ (W t as_ Ht)) as Wa.
  destruct (slot_ok s t as_ P Ht) as [Nm _]. unfold normal in Nm.
  rewrite (vget_abs s t as_ Ht), abs_arr_alt. rewrite <- Nm.
  eapply build_install_abs; eauto. rewrite <- Sv, map_length. exact Sl.
Qed.

Lemma sq_CtorCopy r t s s' : Good s -> pool_ok (abs_state s) -> dom_op cfg (s_arrs s) (OCtorCopy r t) ->
  step cfg (OCtorCopy r t) s = Ok tt s' -> abs_state s' = vstep cfg (OCtorCopy r t) (abs_state s).
Proof.
  intros (I & W & T) P (Df & as_ & Dl) H. open_ctor H. open_get H. cbv zeta in H.
  destruct Dl as [_ Dl]. cbn [vstep]. unfold vset.
  apply nth_get_slot in Dl as Dg. assert (a = as_) by congruence. subst a.
  eapply copy_square with (mk := SCell); eauto.
Qed.

Lemma sq_CtorCopyAlloc r t al s s' : Good s -> pool_ok (abs_state s) -> dom_op cfg (s_arrs s) (OCtorCopyAlloc r t al) ->
  step cfg (OCtorCopyAlloc r t al) s = Ok tt s' -> abs_state s' = vstep cfg (OCtorCopyAlloc r t al) (abs_state s).
Proof.
  intros (I & W & T) P (Df & as_ & Dl) H. open_ctor H. open_get H.
  destruct Dl as [_ Dl]. cbn [vstep]. unfold vset.
  apply nth_get_slot in Dl as Dg. assert (a = as_) by congruence. subst a.
  eapply copy_square with (mk := SCell); eauto.
Qed.

(* the source of a move is left empty, the target takes over its block *)
Lemma move_square r t al s s' as_ p0 :
  Inv [] s -> (r < length (s_arrs s))%nat -> (t < length (s_arrs s))%nat -> r <> t ->
  nth_error (s_arrs s) t = Some (Some as_) -> s_blocks s' = s_blocks s ->
  s_arrs s' = upd_nth (upd_nth (s_arrs s) r (Some (mkarr al (a_base as_) (a_exts as_) (a_first as_)))) t
                      (Some (empty_arr cfg (a_alloc as_) p0)) ->
  abs_state s' = upd_nth (upd_nth (abs_state s) r (Some (vget (abs_state s) t))) t (Some (vempty cfg)).
Proof.
  intros I Hr Ht Hne Hs HB HA.
  eapply abs_upd2; [exact Hr|exact Ht|exact Hne|exact HA| | |].
  - cbn. f_equal. rewrite (vget_abs s t as_ Hs), abs_arr_realloc. apply abs_arr_blocks_eq; auto.
  - cbn. rewrite abs_empty. auto.
  - intros q a _ _ _. apply abs_arr_blocks_eq; auto.
Qed.

Lemma free_live_ne A r t a : free A r -> live A t a -> r <> t.
Proof. intros [_ F] [_ L] ->. congruence. Qed.

Lemma live_lt_len s t a : Inv [] s -> live (s_arrs s) t a -> (t < length (s_arrs s))%nat.
Proof. intros I [_ L]. apply nth_error_Some. congruence. Qed.

Lemma sq_CtorMove r t s s' : Good s -> dom_op cfg (s_arrs s) (OCtorMove r t) ->
  step cfg (OCtorMove r t) s = Ok tt s' -> abs_state s' = vstep cfg (OCtorMove r t) (abs_state s).
Proof.
  intros (I & W & T) (Df & as_ & Dl) H. pose proof (free_live_ne _ _ _ _ Df Dl) as Hne.
  pose proof (live_lt_len s t as_ I Dl) as Ht. open_ctor H. open_get H.
  destruct Dl as [_ Dl]. apply nth_get_slot in Dl as Dg. assert (a = as_) by congruence. subst a.
  unfold bind, set_arr in H. inv H. cbn [vstep]. unfold vset.
  eapply move_square; eauto; reflexivity.
Qed.

Lemma bvals_blocks_eq s s' : s_blocks s' = s_blocks s -> forall b, bvals s' b = bvals s b /\ blive s' b = blive s b.
Proof. intros E b. unfold bvals, blive. rewrite E. auto. Qed.

Lemma bsame_blocks_eq B s s1 s2 : bsame B s s1 -> s_blocks s2 = s_blocks s1 -> bsame B s s2.
Proof. intros [L F] E. split; [rewrite E; auto|]. intros b Hb Hn. unfold bvals, blive. rewrite E. apply F; auto. Qed.

Lemma bsame_nil_own s s1 s2 a t : Inv [] s -> get_slot s t = Some a -> bsame [] s s1 -> bsame (own a) s1 s2 -> bsame (own a) s s2.
Proof. intros I Hg B1 B2. exact (bsame_trans [] (own a) s s1 s2 B1 B2). Qed.

Lemma sq_CtorMoveAlloc r t al s s' : Good s -> pool_ok (abs_state s) -> dom_op cfg (s_arrs s) (OCtorMoveAlloc r t al) ->
  step cfg (OCtorMoveAlloc r t al) s = Ok tt s' -> abs_state s' = vstep cfg (OCtorMoveAlloc r t al) (abs_state s).
Proof.
  intros (I & W & T) P (Df & as_ & Dl) H. pose proof (free_live_ne _ _ _ _ Df Dl) as Hne.
  pose proof (live_lt_len s t as_ I Dl) as Ht. open_ctor H. open_get H.
  destruct Dl as [_ Dl]. apply nth_get_slot in Dl as Dg. assert (a = as_) by congruence. subst a.
  cbn [vstep]. unfold vset. destruct (alloc_eq cfg al (a_alloc as_)).
  - unfold bind, set_arr in H. inv H. eapply move_square; eauto; reflexivity.
  - binv H p s1 E.
    destruct (cells_facts s t as_ SMoveCell I Dg (or_intror eq_refl)) as (So & Sl & Sv & _).
    apply p_build_built in E; auto. rewrite Sv in E. pose proof E as (A1 & B1 & Hp).
    binv H u s2 E2. destruct u. apply p_clear_inv in E2. destruct E2 as (a0 & G0 & A2 & L2 & B2).
    assert (a0 = as_) by (unfold get_slot in *; rewrite A1 in G0; congruence). subst a0.
    unfold install in H. apply set_arr_inv in H. destruct H as [A3 B3].
    rewrite A2, A1 in A3. rewrite upd_nth_comm by auto.
    assert (Bs : bsame (own as_) s s') by (eapply bsame_blocks_eq; [exact (bsame_trans [] _ _ _ _ B1 B2)|exact B3]).
    eapply abs_upd2; [exact Ht|exact Hl|auto|exact A3| | |].
    + cbn. rewrite abs_empty. auto.
    + cbn. f_equal. rewrite (vget_abs s t as_ Dl), !abs_arr_alt, arr_bx_with.
      destruct (slot_ok s t as_ P Dl) as [Nm _]. unfold normal in Nm. rewrite Nm. f_equal.
      eapply avals_built; [exact E| | | | ].
      * destruct p as [|b]; cbn; auto. destruct Hp as (Hn & Eb & Len & _).
        destruct B2 as [_ F2]. unfold bvals, blive. rewrite B3. apply F2; [lia|].
        intros Hin. apply (own_lt cfg s t as_ b I Dg) in Hin. lia.
      * rewrite nel_with_bx. apply (bnumel_arr_bx cfg rank_pos as_ (W t as_ Dl)).
      * reflexivity.
      * rewrite <- Sv, map_length. exact Sl.
    + intros q a Hq1 Hq2 Hq. eapply frame_slot with (B := own as_) (R := [t]); eauto.
      * intros b Hb. exists t. split; [left; auto|]. eapply own_owner; eauto.
      * intros [->|[]]. congruence.
Qed.

(* the elements of a view of a live array, as sources *)
Lemma view_facts s t as_ v : Inv [] s -> get_slot s t = Some as_ ->
  Forall (fun o => Z.of_nat o < nel as_) (vs_offs v) ->
  srcs_old s (vsrc_cells as_ v) /\ length (vsrc_cells as_ v) = length (vs_offs v) /\
  map (src_val s) (vsrc_cells as_ v) = at_offs (avals s as_) (vs_offs v) /\
  Forall (fun x => forall b, src_blk x = Some b -> In b (own as_)) (vsrc_cells as_ v).
Proof.
  intros I Hg Ho. destruct (Z.leb_spec (nel as_) 0) as [Hn|Hn].
  - assert (vs_offs v = []) as E0.
    { destruct (vs_offs v) as [|o l]; auto. apply Forall_cons_iff in Ho. destruct Ho as [Ho _]. lia. }
    unfold vsrc_cells. rewrite E0. destruct (a_base as_); cbn; repeat split; auto; constructor.
  - destruct (arr_facts cfg s t as_ I Hg Hn) as (b & Eb & Lt & Lv & Len & Ow).
    unfold vsrc_cells. rewrite Eb. split; [|split; [|split]].
    + apply Forall_forall. intros x Hx. apply in_map_iff in Hx. destruct Hx as (o & <- & _). cbn. intros b' E'. congruence.
    + apply map_length.
    + rewrite map_map. unfold at_offs, avals. rewrite Eb, Lv. destruct (Z.leb_spec (nel as_) 0); [lia|].
      apply map_ext_in. intros o Hin. cbn. apply nth_indep. rewrite Forall_forall in Ho. specialize (Ho o Hin).
      rewrite Len. unfold nnel. lia.
    + apply Forall_forall. intros x Hx. apply in_map_iff in Hx. destruct Hx as (o & <- & _). cbn. intros b' E'.
      rewrite Ow. left. congruence.
Qed.

Lemma sq_CtorView r al t v s s' : Good s -> dom_op cfg (s_arrs s) (OCtorView r al t v) -> val_dom (OCtorView r al t v) ->
  step cfg (OCtorView r al t v) s = Ok tt s' -> abs_state s' = vstep cfg (OCtorView r al t v) (abs_state s).
Proof.
  intros (I & W & T) (Df & as_ & Dl & Dv) [_ Vd] H. open_ctor H. open_get H.
  destruct Dl as [_ Dl]. apply nth_get_slot in Dl as Dg. assert (a = as_) by congruence. subst a.
  destruct Dv as [Dv _]. destruct (view_facts s t as_ v I Dg Dv) as (So & Sl & Sv & _).
  binv H p s1 E. apply p_build_built in E; auto; [|congruence]. rewrite Sv in E.
  cbn [vstep]. unfold vset. rewrite (vget_abs s t as_ Dl), abs_arr_alt. cbn [snd].
  eapply build_install_abs; eauto. unfold at_offs. rewrite map_length. auto.
Qed.

Lemma sq_CtorRange r al w s s' : Good s -> dom_op cfg (s_arrs s) (OCtorRange r al w) -> val_dom (OCtorRange r al w) ->
  step cfg (OCtorRange r al w) s = Ok tt s' -> abs_state s' = vstep cfg (OCtorRange r al w) (abs_state s).
Proof.
  intros (I & W & T) (Df & Dw) [_ Vd] H. open_ctor H. binv H p s1 E.
  apply p_build_built in E; [|apply srcs_old_SVal|rewrite map_length; auto].
  rewrite map_src_val_SVal in E. cbn [vstep]. unfold vset.
  eapply build_install_abs; eauto.
Qed.

Lemma sq_CtorConv r x vals s s' : Good s -> dom_op cfg (s_arrs s) (OCtorConv r x vals) -> val_dom (OCtorConv r x vals) ->
  step cfg (OCtorConv r x vals) s = Ok tt s' -> abs_state s' = vstep cfg (OCtorConv r x vals) (abs_state s).
Proof.
  intros (I & W & T) (Df & Dw) [_ Vd] H. open_ctor H. binv H p s1 E.
  apply p_build_built in E; [|apply srcs_old_SVal|rewrite map_length; auto].
  rewrite map_src_val_SVal in E. cbn [vstep]. unfold vset.
  eapply build_install_abs; eauto.
Qed.

Lemma own_with_bx al p x : own (with_bx al p x) = if bnumel x <=? 0 then [] else match p with PBlk b => [b] | PNull => [] end.
Proof. unfold own. rewrite nel_with_bx. reflexivity. Qed.

Lemma upd_tmp_cancel (A : list (option arr)) r t x y : r <> t -> nth_error A t = Some None ->
  upd_nth (upd_nth (upd_nth A t x) r y) t None = upd_nth A r y.
Proof.
  intros Hne Ht. rewrite (upd_nth_comm (upd_nth A t x) r t) by auto. rewrite upd_nth_twice.
  rewrite (upd_nth_same_val A t None Ht). reflexivity.
Qed.

Lemma sq_CtorIl r w s s' : Good s -> dom_op cfg (s_arrs s) (OCtorIl r w) -> val_dom (OCtorIl r w) ->
  step cfg (OCtorIl r w) s = Ok tt s' -> abs_state s' = vstep cfg (OCtorIl r w) (abs_state s).
Proof.
  intros (I & W & T) (Df & Dw) [_ Vd] H. pose proof Df as [Hr6 _]. open_ctor H. cbn [vstep]. unfold vset.
  destruct (rw_k w =? 0).
  { inv H. apply abs_upd1 with (a' := Some (empty_arr cfg default_alloc PNull)); [exact Hl|reflexivity|cbn; rewrite abs_empty; auto|].
    intros q a0 _ _. apply abs_arr_blocks_eq. reflexivity. }
  set (x := rows_exts w) in *. set (n := bnumel x) in *.
  pose proof (inv_nslots _ _ _ I) as NS. destruct T as (_ & _ & T3).
  binv H p s1 E. apply p_build_built in E; [|apply srcs_old_SVal|rewrite map_length; auto].
  rewrite map_src_val_SVal in E. pose proof E as (A1 & B1 & Hp).
  binv H u s2 E2. destruct u. unfold install in E2. apply set_arr_inv in E2. destruct E2 as [A2 Bk2].
  set (tmp := with_bx std_alloc p x) in *.
  binv H u s3 E3. destruct u. unfold ctor_from_tmp_moved in E3. open_get E3.
  assert (a = tmp).
  { unfold get_slot in Hg. rewrite A2, nth_upd_same in Hg by (rewrite A1, NS; unfold TMP3, NSLOTS; lia). congruence. }
  subst a. binv E3 p2 s2' E4. unfold install in E3. apply set_arr_inv in E3. destruct E3 as [A3 Bk3].
  assert (Nt : nel tmp = n) by apply nel_with_bx.
  assert (Vt : (0 < n -> exists b, p = PBlk b /\ b = length (s_blocks s) /\ bvals s2 b = rw_vals w /\
                            length (s_blocks s2) = S (length (s_blocks s)))).
  { intros Hn. destruct p as [|b]; [destruct Hp; lia|]. destruct Hp as (_ & Eb & Len & _ & Vs).
    exists b. unfold bvals. rewrite Bk2. auto. }
  apply p_build_built in E4.
  2:{ destruct (Z.leb_spec n 0) as [Hn|Hn]; [rewrite cells_of_nil by (rewrite Nt; lia); constructor|].
      destruct (Vt Hn) as (b & -> & Eb & Vs & Len).
      eapply Forall_impl; [|apply (cells_of_blk SMoveCell tmp b (or_intror eq_refl) eq_refl)].
      cbn. intros y Hy b' Hb'. assert (b' = b) by congruence. lia. }
  2:{ rewrite cells_of_length; auto. intros Hn. rewrite Nt in Hn. destruct (Vt Hn) as (b & -> & _). exists b. auto. }
  assert (V2 : map (src_val s2) (cells_of SMoveCell tmp) = rw_vals w).
  { destruct (Z.leb_spec n 0) as [Hn|Hn].
    - rewrite cells_of_nil by (rewrite Nt; lia). destruct (rw_vals w); auto. cbn [length] in Vd. lia.
    - destruct (Vt Hn) as (b & Ep & Eb & Vs & Len). rewrite <- Vs. apply cells_of_vals.
      + right; auto.
      + subst tmp. rewrite Ep. reflexivity.
      + rewrite Vs, Vd. unfold nnel. rewrite Nt. auto. }
  rewrite V2, Nt in E4. pose proof E4 as (A4 & B4 & Hp2).
  apply p_dtor_inv in H. destruct H as (a & G5 & A5 & L5 & B5).
  assert (a = tmp).
  { unfold get_slot in G5. rewrite A3, nth_upd_other in G5 by (unfold TMP3, NP in *; lia).
    rewrite A4, A2, nth_upd_same in G5 by (rewrite A1, NS; unfold TMP3, NSLOTS; lia). congruence. }
  subst a. rewrite A3, A4, A2, A1 in A5. rewrite upd_tmp_cancel in A5; auto; [|unfold TMP3, NP in *; lia].
  assert (O5 : forall b, In b (own tmp) -> b = length (s_blocks s)).
  { intros b Hin. subst tmp. rewrite own_with_bx in Hin. destruct (bnumel x <=? 0); [destruct Hin|].
    destruct p as [|b0]; [destruct Hin|]. destruct Hin as [<-|[]]. destruct Hp as (_ & Eb & _). auto. }
  assert (L2 : (length (s_blocks s) <= length (s_blocks s2))%nat).
  { rewrite Bk2. destruct B1; auto. }
  eapply abs_upd1; [exact Hl|exact A5| |].
  - cbn [option_map]. f_equal. rewrite abs_arr_alt, arr_bx_with. subst tmp. rewrite arr_bx_with, norm_bx_idem. f_equal.
    eapply avals_built; [exact E4| |rewrite nel_with_bx, bnumel_norm_bx; reflexivity|reflexivity|exact Vd].
    destruct p2 as [|b2]; cbn; auto. destruct Hp2 as (Hn2 & Eb2 & Len2 & _).
    destruct (Vt Hn2) as (b0 & _ & _ & _ & Len0).
    destruct (bvals_blocks_eq s2' s3 Bk3 b2) as [<- <-].
    destruct B5 as [_ F5]. apply F5; [rewrite Bk3; lia|]. intros Hin. apply O5 in Hin. lia.
  - intros q a _ Hq. eapply frame_slot with (B := []) (R := []); eauto; [|intros b []].
    assert (B13 : bsame [] s s3).
    { eapply bsame_blocks_eq; [|exact Bk3]. change (@nil nat) with (@nil nat ++ @nil nat).
      eapply bsame_trans; [|exact B4]. eapply bsame_blocks_eq; [exact B1|exact Bk2]. }
    eapply bsame_weaken; [exact (bsame_trans _ _ _ _ _ B13 B5)|].
    intros b Hin Hlt. cbn in Hin. apply O5 in Hin. lia.
Qed.

End Val4.

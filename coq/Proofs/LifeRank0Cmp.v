(* Rank 0, C07: every relational operator reads the two elements and answers as the same relation on the two abstract
   values, whatever the operands are (array, reference into a buffer, reference to an array's element, element value). *)
From BM Require Import Base.Tactics Model.Life Model.LifeRank0 Proofs.LifeBase Proofs.LifeMonad Proofs.LifeInv Proofs.LifeCells
  Proofs.LifeSteps Proofs.LifeCombi Proofs.LifeOps Proofs.LifeFacts Proofs.LifeVal1 Proofs.LifeVal2 Proofs.LifeVal3
  Proofs.LifeRank0Cells Proofs.LifeRank0Inv Proofs.LifeRank0Val Proofs.LifeRank0Sq.
Local Open Scope Z_scope.

Definition oval (P : vpool) (x : operand) : Z := match x with OpRef q => rval P q | OpVal v => v end.
Definition operand_dom (A : list (option arr)) (x : operand) : Prop :=
  match x with OpRef q => ref_dom A q | OpVal _ => True end.

Section R0Cmp.
Variable cfg : config.
Hypothesis rank_pos : (1 <= c_rank cfg)%nat.
Notation Good := (Good cfg).

Lemma read_operand_spec x s : Good s -> operand_dom (s_arrs s) x -> read_operand cfg x s = Ok (oval (abs_state s) x) s.
Proof.
  intros (I & W & T) D. destruct x as [q|v]; [|reflexivity]. cbn [read_operand oval operand_dom] in *.
  destruct D as (a & [Lr Ln] & Hi).
  assert (Hs : get_slot s (rf_slot q) = Some a) by (unfold get_slot; rewrite Ln; reflexivity).
  destruct (arr_cell_ok cfg [] s _ a _ I Hs Hi) as (b & Hb & (blk & c & Hblk & Hlv & Hc & Hci)).
  assert (E : ref_cell q s = Ok (b, rf_idx q) s).
  { unfold ref_cell, bind, get_arr. rewrite Ln. destruct (Z.ltb_spec (Z.of_nat (rf_idx q)) (nel a)); [|lia].
    unfold base_blk. rewrite Hb. reflexivity. }
  unfold bind. rewrite E. cbn [fst snd].
  destruct (read1_ok cfg s b (rf_idx q) blk c Hblk Hlv Hc Hci) as [v Ev]. rewrite Ev.
  apply read1_inv in Ev. destruct Ev as [_ ->].
  destruct (ref_vals cfg rank_pos s q a b I Ln Hb Hi) as (_ & _ & Hr). rewrite Hr. reflexivity.
Qed.

(* the comparison never changes the state and answers rel0 on the two values *)
Theorem cmp0_spec o l r s : Good s -> operand_dom (s_arrs s) l -> operand_dom (s_arrs s) r ->
  cmp0 cfg o l r s = Ok (rel0 o (oval (abs_state s) l) (oval (abs_state s) r)) s.
Proof.
  intros G Dl Dr. unfold cmp0, bind. rewrite (read_operand_spec l s G Dl), (read_operand_spec r s G Dr). reflexivity.
Qed.

End R0Cmp.

(* ---- the relations themselves (the element order is the order of Z) ---- *)
Lemma rel0_eq_iff x y : rel0 CEq x y = true <-> x = y.
Proof. cbn. rewrite Z.eqb_eq. split; auto. Qed.
Lemma rel0_ne_negation x y : rel0 CNe x y = negb (rel0 CEq x y).
Proof. reflexivity. Qed.
Lemma rel0_lt_is_lt x y : rel0 CLt x y = (x <? y).
Proof. cbn. unfold lex1. destruct (x <? y); auto. destruct (y <? x); auto. Qed.
Lemma rel0_derived x y :
  rel0 CLe x y = (rel0 CLt x y || rel0 CEq x y) /\ rel0 CGt x y = rel0 CLt y x /\ rel0 CGe x y = rel0 CLe y x.
Proof.
  rewrite !rel0_lt_is_lt. cbn. repeat split.
  destruct (Z.leb_spec x y), (Z.ltb_spec x y), (Z.eqb_spec y x); auto; lia.
Qed.
Lemma rel0_lt_irrefl x : rel0 CLt x x = false.
Proof. rewrite rel0_lt_is_lt. apply Z.ltb_irrefl. Qed.
Lemma rel0_lt_trans x y z : rel0 CLt x y = true -> rel0 CLt y z = true -> rel0 CLt x z = true.
Proof. rewrite !rel0_lt_is_lt, !Z.ltb_lt. lia. Qed.
Lemma rel0_incomparable_trans x y z :
  rel0 CLt x y = false -> rel0 CLt y x = false -> rel0 CLt y z = false -> rel0 CLt z y = false ->
  rel0 CLt x z = false /\ rel0 CLt z x = false.
Proof. rewrite !rel0_lt_is_lt, !Z.ltb_ge. intros. split; lia. Qed.
(* exactly one of a < b, a == b, b < a *)
Lemma rel0_trichotomy x y :
  (rel0 CLt x y = true /\ rel0 CEq x y = false /\ rel0 CLt y x = false) \/
  (rel0 CLt x y = false /\ rel0 CEq x y = true /\ rel0 CLt y x = false) \/
  (rel0 CLt x y = false /\ rel0 CEq x y = false /\ rel0 CLt y x = true).
Proof.
  rewrite !rel0_lt_is_lt. cbn. destruct (Z.ltb_spec x y), (Z.eqb_spec y x), (Z.ltb_spec y x); try lia; auto.
Qed.
Lemma rel0_eq_sym x y : rel0 CEq x y = rel0 CEq y x.
Proof. cbn. apply Z.eqb_sym. Qed.

(* C01, continued: composite operations (sliced with stride, chunked, call syntax, diagonal),
   the four access paths, and the induction over operation sequences. *)
From BM Require Import Base.Tactics Model.Layout Model.View Model.Spec
  Proofs.LayoutProofs Proofs.ViewProofs.
Local Open Scope Z_scope.

Lemma step_ok_comp v v1 v2 sz sz1 sz2 f1 f2 :
  step_ok v v1 sz sz1 f1 -> step_ok v1 v2 sz1 sz2 f2 -> step_ok v v2 sz sz2 (fun i => f1 (f2 i)).
Proof.
  intros [H1 A1] [H2 A2]. split; [exact H2|]. intros idx Hv.
  destruct (A2 idx Hv) as [Hv1 E2]. destruct (A1 _ Hv1) as [Hv0 E1]. split; [exact Hv0|congruence].
Qed.

Lemma step_ok_ext v v' sz sz' sz'' f g :
  step_ok v v' sz sz' f -> sz' = sz'' -> (forall idx, valid_idx sz' idx -> f idx = g idx) ->
  step_ok v v' sz sz'' g.
Proof.
  intros [H1 A1] <- Hfg. split; [exact H1|]. intros idx Hv. rewrite <- (Hfg idx Hv). auto.
Qed.

Lemma step_ok_id v sz : lay_ok (lay v) sz -> step_ok v v sz sz (fun i => i).
Proof. intros H. split; [exact H|]. auto. Qed.

Lemma rank_pos_sz v sz : lay_ok (lay v) sz -> 1 <= Z.of_nat (v_rank v) ->
  exists d l n sz', lay v = d :: l /\ sz = n :: sz'.
Proof.
  unfold v_rank. intros H Hr. destruct (lay v) as [|d l]; [cbn in Hr; lia|]. inv H. repeat eexists.
Qed.

(* ---- sliced(a, b, s) = sliced(a, b).strided(s) ---- *)
Lemma step_slicedS v sz a b s : lay_ok (lay v) sz -> dom_op (OSlicedS a b s) v = true ->
  step_ok v (exec_op (OSlicedS a b s) v) sz (spec_sz (OSlicedS a b s) sz) (spec_map (OSlicedS a b s) sz).
Proof.
  intros Hok Hd. cbn [exec_op].
  assert (Hd1 : dom_op (OSliced a b) v = true).
  { cbn [dom_op] in *. bprop. bsolve. }
  pose proof (step_sliced v sz Hok a b Hd1) as S1.
  assert (Hd2 : dom_op (OStrided s) (v_sliced a b v) = true).
  { destruct S1 as [Hok1 _]. cbn [dom_op] in *. bprop.
    destruct (rank_pos_sz _ _ Hok H) as (d0 & l0 & n & sz' & E0 & ->).
    cbn [spec_sz] in Hok1.
    destruct (lay (v_sliced a b v)) as [|d l] eqn:E; [inv Hok1|].
    destruct (v_extension_ok d l (b - a) sz' _ E Hok1) as [_ Hs].
    unfold v_rank. rewrite E, Hs. cbn [length]. bsolve. }
  pose proof (step_strided _ _ (proj1 S1) s Hd2) as S2.
  eapply step_ok_ext; [eapply step_ok_comp; [exact S1|exact S2]| |].
  - destruct sz; reflexivity.
  - intros idx _. destruct sz; reflexivity.
Qed.

(* ---- chunked(c) = partitioned(size / c) ---- *)
Lemma step_chunked v sz c : lay_ok (lay v) sz -> dom_op (OChunked c) v = true ->
  step_ok v (v_chunked c v) sz (spec_sz (OChunked c) sz) (spec_map (OChunked c) sz).
Proof.
  intros Hok Hd. unfold v_chunked.
  destruct (lay v) as [|d l] eqn:E.
  { cbn [dom_op] in Hd. unfold v_rank in Hd. rewrite E in Hd. cbn in Hd. discriminate. }
  destruct sz as [|n sz]; [inv Hok|].
  destruct (v_extension_ok d l n sz v E Hok) as [_ Hs].
  cbn [dom_op] in Hd. rewrite Hs in *. bprop.
  cbn [spec_sz spec_map hdz hd].
  exactq n c q.
  assert (Hq1 : 1 <= q) by nia.
  assert (Hnq : Z.quot n q = c) by (rewrite Hq, Z.mul_comm; apply Z.quot_mul; lia).
  assert (Hd' : dom_op (OPartitioned q) v = true).
  { cbn [dom_op]. rewrite Hs.
    assert (Z.rem n q = 0) by (rewrite Hq, Z.mul_comm; apply Z.rem_mul; lia).
    bsolve. }
  rewrite <- E in Hok.
  eapply step_ok_ext; [exact (step_partitioned v _ Hok q Hd')| |].
  - cbn [spec_sz]. rewrite Hnq. reflexivity.
  - intros idx _. cbn [spec_map hdz hd]. rewrite Hnq. reflexivity.
Qed.

(* ---- call syntax: the rotate / recurse / unrotate dance ---- *)
Fixpoint dance_sz (args : list parg) (sz : list Z) : list Z :=
  match args with
  | [] => sz
  | PIdx _ :: rest => dance_sz rest (tl sz)
  | PRange a b :: rest => t_unrot (dance_sz rest (t_rot ((b - a) :: tl sz)))
  | PAll :: rest => t_unrot (dance_sz rest (t_rot sz))
  end.
Fixpoint dance_map (args : list parg) (idx : list Z) : list Z :=
  match args with
  | [] => idx
  | PIdx i :: rest => i :: dance_map rest idx
  | PRange a _ :: rest => let j := t_unrot (dance_map rest (t_rot idx)) in (a + hdz j) :: tl j
  | PAll :: rest => t_unrot (dance_map rest (t_rot idx))
  end.

Lemma all_range_ok v d l n sz : lay v = d :: l -> lay_ok (d :: l) (n :: sz) -> all_range v = (0, n).
Proof.
  intros E H. destruct (v_extension_ok _ _ _ _ _ E H) as [He _].
  assert (0 <= n) by (inv H; match goal with H : dim_ok _ _ |- _ => destruct H as (_&_&?&_) end; lia).
  unfold all_range, r_inter, r_size. rewrite He. cbn [fst snd]. f_equal; lia.
Qed.

Lemma step_paren args : forall v sz, lay_ok (lay v) sz -> dom_paren args v = true ->
  step_ok v (v_paren args v) sz (dance_sz args sz) (dance_map args).
Proof.
  induction args as [|[i|a b|] rest IH]; intros v sz Hok Hd; cbn [v_paren dance_sz dance_map dom_paren] in *.
  - apply step_ok_id; assumption.
  - bprop.
    assert (Hd1 : dom_op (OIndex i) v = true) by (cbn [dom_op]; bsolve).
    pose proof (step_index v sz Hok i Hd1) as S1.
    assert (Hsz : spec_sz (OIndex i) sz = tl sz) by (destruct sz; reflexivity).
    rewrite Hsz in S1.
    eapply step_ok_ext; [eapply step_ok_comp; [exact S1|apply IH; [exact (proj1 S1)|assumption]]|reflexivity|].
    intros idx _. reflexivity.
  - bprop.
    assert (Hd1 : dom_op (OSliced a b) v = true) by (cbn [dom_op]; bsolve).
    pose proof (step_sliced v sz Hok a b Hd1) as S1.
    assert (Hsz : spec_sz (OSliced a b) sz = (b - a) :: tl sz).
    { destruct (rank_pos_sz _ _ Hok H) as (d0 & l0 & n & sz' & E0 & ->). reflexivity. }
    rewrite Hsz in S1.
    pose proof (step_rotated _ _ (proj1 S1)) as S2.
    pose proof (IH _ _ (proj1 S2) H0) as S3.
    pose proof (step_unrotated _ _ (proj1 S3)) as S4.
    eapply step_ok_ext;
      [eapply step_ok_comp; [eapply step_ok_comp; [eapply step_ok_comp; [exact S1|exact S2]|exact S3]|exact S4]
      |reflexivity|].
    intros idx _. cbn [spec_map]. reflexivity.
  - bprop.
    destruct (lay v) as [|d l] eqn:E; [unfold v_rank in H; rewrite E in H; cbn in H; lia|].
    destruct sz as [|n sz]; [inv Hok|].
    rewrite (all_range_ok _ _ _ _ _ E Hok) in *. cbn [fst snd] in *.
    rewrite <- E in Hok.
    assert (Hn : 0 <= n).
    { rewrite E in Hok. inv Hok. match goal with H : dim_ok _ _ |- _ => destruct H as (_&_&?&_) end. lia. }
    assert (Hd1 : dom_op (OSliced 0 n) v = true).
    { cbn [dom_op]. rewrite E in Hok.
      destruct (v_extension_ok _ _ _ _ _ E Hok) as [He _]. rewrite He.
      unfold in_slice; cbn [fst snd]. bsolve. }
    pose proof (step_sliced v _ Hok 0 n Hd1) as S1. cbn [spec_sz] in S1.
    rewrite Z.sub_0_r in S1.
    pose proof (step_rotated _ _ (proj1 S1)) as S2.
    pose proof (IH _ _ (proj1 S2) H0) as S3.
    pose proof (step_unrotated _ _ (proj1 S3)) as S4.
    eapply step_ok_ext;
      [eapply step_ok_comp; [eapply step_ok_comp; [eapply step_ok_comp; [exact S1|exact S2]|exact S3]|exact S4]
      |reflexivity|].
    intros idx Hv. cbn [spec_map].
    (* the sliced(0, n) step maps k to 0 + k *)
    destruct (t_unrot (dance_map rest (t_rot idx))) as [|k j] eqn:Ej.
    + exfalso.
      destruct S4 as [_ A4]. destruct (A4 idx Hv) as [Hv3 _].
      destruct S3 as [_ A3]. destruct (A3 _ Hv3) as [Hv2 _].
      destruct S2 as [_ A2]. destruct (A2 _ Hv2) as [Hv1 _].
      cbn [spec_map] in Hv1. rewrite Ej in Hv1. inv Hv1.
    + reflexivity.
Qed.

(* positional reading of the dance: A(i, {a,b}, _)[k][l] = A[i][a+k][l] *)
Fixpoint cnt_keep (args : list parg) : nat :=
  match args with
  | [] => 0
  | PIdx _ :: rest => cnt_keep rest
  | _ :: rest => S (cnt_keep rest)
  end.

Lemma dance_sz_positional args : forall sz extra, (length args <= length sz)%nat ->
  dance_sz args (sz ++ extra) = spec_paren_sz args sz ++ extra.
Proof.
  induction args as [|[i|a b|] rest IH]; intros sz extra Hl; cbn [dance_sz spec_paren_sz].
  - reflexivity.
  - destruct sz as [|n sz]; cbn in Hl; [lia|]. cbn [app tl]. apply IH. lia.
  - destruct sz as [|n sz]; cbn in Hl; [lia|]. cbn [app tl t_rot].
    rewrite <- app_assoc. rewrite IH by lia. rewrite app_assoc. apply t_unrot_snoc.
  - destruct sz as [|n sz]; cbn in Hl; [lia|]. cbn [app tl t_rot].
    rewrite <- app_assoc. rewrite IH by lia. rewrite app_assoc. apply t_unrot_snoc.
Qed.

Lemma dance_map_positional args : forall idx extra, (cnt_keep args <= length idx)%nat ->
  dance_map args (idx ++ extra) = spec_paren_map args idx ++ extra.
Proof.
  induction args as [|[i|a b|] rest IH]; intros idx extra Hl; cbn [dance_map spec_paren_map cnt_keep] in *.
  - reflexivity.
  - cbn [app]. f_equal. apply IH. assumption.
  - destruct idx as [|k idx]; cbn in Hl; [lia|]. cbn [app t_rot hdz hd tl].
    rewrite <- app_assoc. rewrite IH by lia. rewrite app_assoc, t_unrot_snoc. reflexivity.
  - destruct idx as [|k idx]; cbn in Hl; [lia|]. cbn [app t_rot hdz hd tl].
    rewrite <- app_assoc. rewrite IH by lia. rewrite app_assoc, t_unrot_snoc. reflexivity.
Qed.

Lemma spec_paren_sz_length args : forall sz, (length args <= length sz)%nat ->
  (cnt_keep args <= length (spec_paren_sz args sz))%nat.
Proof.
  induction args as [|[i|a b|] rest IH]; intros sz Hl; cbn [cnt_keep spec_paren_sz].
  - lia.
  - destruct sz; cbn in Hl; [lia|]. apply IH. lia.
  - destruct sz; cbn in Hl; [lia|]. cbn. specialize (IH sz). lia.
  - destruct sz; cbn in Hl; [lia|]. cbn. specialize (IH sz). lia.
Qed.

Lemma step_paren_positional v sz args : lay_ok (lay v) sz -> dom_op (OParen args) v = true ->
  step_ok v (v_paren args v) sz (spec_sz (OParen args) sz) (spec_map (OParen args) sz).
Proof.
  intros Hok Hd. cbn [dom_op] in Hd. bprop. unfold v_rank in H.
  rewrite (lay_ok_length _ _ Hok) in H.
  assert (Hl : (length args <= length sz)%nat) by lia.
  eapply step_ok_ext; [exact (step_paren args v sz Hok H0)| |].
  - cbn [spec_sz]. rewrite <- (app_nil_r sz) at 1. rewrite dance_sz_positional by assumption.
    apply app_nil_r.
  - intros idx Hv. cbn [spec_map]. rewrite <- (app_nil_r idx) at 1.
    rewrite dance_map_positional; [apply app_nil_r|].
    rewrite (valid_idx_length _ _ Hv).
    rewrite <- (app_nil_r sz) at 1. rewrite dance_sz_positional, app_nil_r by assumption.
    apply spec_paren_sz_length. assumption.
Qed.

(* ---- diagonal ---- *)
Lemma app_snoc_is_cons {A} (l : list A) a : exists x m, l ++ [a] = x :: m.
Proof. destruct l; cbn; eauto. Qed.

Lemma v_sliced_cons2 a b d e sub bs :
  v_sliced a b (mkview (d :: e :: sub) bs) =
  mkview (mkdim (d_stride d) (d_offset d) (d_stride d * (b - a)) :: e :: sub)
         (bs + (a * d_stride d - d_offset d)).
Proof. reflexivity. Qed.

Lemma diag_paren_lay d0 d1 l bs sq :
  lay (v_paren [PRange 0 sq; PRange 0 sq] (mkview (d0 :: d1 :: l) bs)) =
  mkdim (d_stride d0) (d_offset d0) (d_stride d0 * (sq - 0))
  :: mkdim (d_stride d1) (d_offset d1) (d_stride d1 * (sq - 0)) :: l.
Proof.
  cbn [v_paren]. rewrite v_sliced_cons2.
  unfold v_rotated at 2. cbn [lay base]. rewrite l_rotate_cons. cbn [app].
  destruct (app_snoc_is_cons l (mkdim (d_stride d0) (d_offset d0) (d_stride d0 * (sq - 0))))
    as (x & m & Em).
  rewrite Em. rewrite v_sliced_cons2. rewrite <- Em.
  unfold v_rotated, v_unrotated. cbn [lay base].
  rewrite l_rotate_cons. rewrite l_unrotate_snoc.
  change (?a :: l ++ [?b]) with ((a :: l) ++ [b]). rewrite l_unrotate_snoc. reflexivity.
Qed.

Lemma step_diagonal v sz : lay_ok (lay v) sz -> dom_op ODiagonal v = true ->
  step_ok v (v_diagonal v) sz (spec_sz ODiagonal sz) (spec_map ODiagonal sz).
Proof.
  intros Hok Hd. cbn [dom_op] in Hd. unfold v_rank in Hd.
  destruct v as [[|d0 [|d1 l]] bs]; cbn [lay length] in *; try (bprop; lia).
  unfold v_diagonal. cbn [lay]. rewrite diag_paren_lay. cbn [base].
  inv Hok. match goal with H : Forall2 _ (d1 :: l) _ |- _ => inv H end. dok.
  rewrite ?Hsz, ?Hsz0. cbn [spec_sz]. split.
  - constructor; [|assumption]. unfold dim_ok; cbn [d_stride d_offset d_nelems].
    repeat split; try lia; try nia.
  - intros idx Hv. inv Hv. cbn [spec_map hdz hd]. split.
    + constructor; [lia|constructor; [lia|assumption]].
    + unfold v_addr; cbn [lay base l_addr d_stride d_offset]. lia.
Qed.

(* ---- all C01 operations ---- *)
Definition c01_op (o : op) : Prop :=
  match o with OReindexed _ | OBlocked _ _ | OReindexedL _ => False | _ => True end.

Lemma step_op v sz o : c01_op o -> lay_ok (lay v) sz -> dom_op o v = true ->
  step_ok v (exec_op o v) sz (spec_sz o sz) (spec_map o sz).
Proof.
  intros Hc Hok Hd. destruct o; cbn [exec_op]; try contradiction.
  - apply step_index; assumption.
  - apply step_sliced; assumption.
  - apply step_slicedS; assumption.
  - apply step_strided; assumption.
  - apply step_dropped; assumption.
  - apply step_taked; assumption.
  - apply step_rotated; assumption.
  - apply step_unrotated; assumption.
  - apply step_transposed; assumption.
  - apply step_reversed; assumption.
  - apply step_diagonal; assumption.
  - apply step_partitioned; assumption.
  - apply step_chunked; assumption.
  - apply step_halved; assumption.
  - apply step_flatted; assumption.
  - apply step_paren_positional; assumption.
Qed.

(* ---- the four access paths ---- *)
Lemma addr_brackets_eq idx : forall v, addr_brackets v idx = base v + l_addr (lay v) idx.
Proof.
  unfold addr_brackets. induction idx as [|i idx IH]; intros v; cbn [fold_left].
  - rewrite l_addr_nil_r. lia.
  - rewrite IH. unfold v_index. cbn [lay base]. destruct (lay v) as [|d l]; cbn.
    + destruct idx; cbn; lia.
    + lia.
Qed.

Lemma addr_paren_eq idx : forall v, addr_paren v idx = addr_brackets v idx.
Proof.
  unfold addr_paren, addr_brackets. induction idx as [|i idx IH]; intros v; cbn; [reflexivity|apply IH].
Qed.

Lemma fold_add_shift l : forall b, fold_left Z.add l b = b + fold_left Z.add l 0.
Proof.
  induction l as [|x l IH]; intros b; cbn; [lia|]. rewrite IH. rewrite (IH x). lia.
Qed.

Lemma addr_cursor_eq l : forall sz idx b, lay_ok l sz -> valid_idx sz idx ->
  addr_cursor (mkview l b) idx = b + l_addr l idx.
Proof.
  unfold addr_cursor. cbn [lay base].
  induction l as [|d l IH]; intros sz idx b Hok Hv.
  - inv Hok. inv Hv. cbn. lia.
  - inv Hok. inv Hv. cbn [l_strides map combine fst snd fold_left l_addr].
    specialize (IH _ _ (b + y0 * d_stride d) H3 H5). unfold l_strides in IH. rewrite IH.
    destruct H1 as (Ho & _). lia.
Qed.

(* ---- induction over operation sequences ---- *)
Definition represents (rsz : list Z) (v : view) (a : aview) : Prop :=
  lay_ok (lay v) (asz a) /\
  forall idx, valid_idx (asz a) idx ->
    valid_idx rsz (amap a idx) /\ v_addr v idx = rowmajor rsz (amap a idx).

Lemma represents_root sz : Forall (fun n => 0 <= n) sz ->
  represents (collapse sz) (root_view (zb sz)) (root_spec sz).
Proof.
  intros H. split; cbn [root_view root_spec lay asz amap].
  - apply mk_layout_ok; assumption.
  - intros idx Hv. split; [assumption|]. unfold v_addr, root_view; cbn [lay base].
    rewrite mk_layout_addr by assumption. lia.
Qed.

Lemma represents_step rsz v a o : c01_op o -> represents rsz v a -> dom_op o v = true ->
  represents rsz (exec_op o v) (spec_op o a).
Proof.
  intros Hc [Hok Ha] Hd. destruct (step_op v (asz a) o Hc Hok Hd) as [Hok' Hs].
  split; cbn [spec_op asz amap]; [exact Hok'|].
  intros idx Hv. destruct (Hs idx Hv) as [Hv0 E]. destruct (Ha _ Hv0) as [Hr Er].
  split; [exact Hr|congruence].
Qed.

Lemma represents_run rsz ops : forall v a w, Forall c01_op ops -> represents rsz v a ->
  run_ops ops v = Some w -> represents rsz w (run_spec ops a).
Proof.
  induction ops as [|o ops IH]; intros v a w Hc Hr Hrun; cbn [run_ops run_spec] in *.
  - inv Hrun. assumption.
  - inv Hc. unfold apply_op in Hrun. destruct (dom_op o v) eqn:Hd; [|discriminate].
    eapply IH; [assumption| |exact Hrun]. apply represents_step; assumption.
Qed.

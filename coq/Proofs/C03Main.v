(* C03 assembled: every program over the proxy-reference primitives computes, on the storage behind a range of
   rows, what it computes on a list of independent values; nothing outside the range changes.  Then the
   hypothesis rows_ok is discharged for begin()/end() and elements() of views. *)
From BM Require Import Base.Tactics Model.Layout Model.View Model.Spec Model.Iter Model.Assign Model.Compare Model.C03Prog
  Proofs.LayoutProofs Proofs.ViewProofs Proofs.ViewProofs2 Proofs.IterProofs Proofs.ElemProofs Proofs.AssignProofs Proofs.C05Main
  Proofs.CompareProofs Proofs.C07Main Proofs.C02Main Proofs.C03Flat Proofs.C03Prims.
Local Open Scope Z_scope.

(* positions inside the range, values of the rows' shape (what the assertions of operator= require) *)
Fixpoint prog_ok {A : Type} (n : Z) (sz : list Z) (pr : prog A) : Prop :=
  match pr with
  | Ret _ => True
  | Read p k => 0 <= p < n /\ forall x, reg sz x -> prog_ok n sz (k x)
  | Take p k => 0 <= p < n /\ forall x, reg sz x -> prog_ok n sz (k x)
  | Write p x k => 0 <= p < n /\ reg sz x /\ prog_ok n sz k
  | Copy p q k => 0 <= p < n /\ 0 <= q < n /\ prog_ok n sz k
  | Move p q k => 0 <= p < n /\ 0 <= q < n /\ prog_ok n sz k
  | Swap p q k => 0 <= p < n /\ 0 <= q < n /\ prog_ok n sz k
  | Less p q k => 0 <= p < n /\ 0 <= q < n /\ forall b, prog_ok n sz (k b)
  | LessV p x k => 0 <= p < n /\ reg sz x /\ forall b, prog_ok n sz (k b)
  | VLess x p k => 0 <= p < n /\ reg sz x /\ forall b, prog_ok n sz (k b)
  | Eq p q k => 0 <= p < n /\ 0 <= q < n /\ forall b, prog_ok n sz (k b)
  | EqV p x k => 0 <= p < n /\ reg sz x /\ forall b, prog_ok n sz (k b)
  end.

Section Main.
  Variables (row : Z -> view) (n : Z) (sz : list Z).
  Hypothesis HR : rows_ok row n sz.

  Lemma rd_row m p : 0 <= p < n -> rd (row p) m = rdp row m p.
  Proof. intros Hp. apply (rd_rd0 _ sz); [apply (proj1 HR); assumption|apply HR]. Qed.

  Lemma abs_rows_map m : abs_rows row n m = map (rdp row m) (iota (Z.to_nat n)).
  Proof. unfold abs_rows. apply map_iota_ext. intros k Hk. apply rd_row. lia. Qed.

  Lemma abs_vget m p : 0 <= p < n -> vget (abs_rows row n m) p = rdp row m p.
  Proof. intros Hp. rewrite abs_rows_map. apply vget_map. lia. Qed.

  Lemma abs_step (m' : mem) (g : Z -> value) :
    (forall r, 0 <= r < n -> rdp row m' r = g r) -> abs_rows row n m' = map g (iota (Z.to_nat n)).
  Proof. intros H. rewrite abs_rows_map. apply map_iota_ext. intros k Hk. apply H. lia. Qed.

  Theorem C03_simulation : forall A (pr : prog A), prog_ok n sz pr -> forall m,
    let rv := run_on_view row pr m in
    let rl := run_on_values (length sz) pr (abs_rows row n m) in
       snd rv = snd rl
    /\ abs_rows row n (fst rv) = fst rl
    /\ (forall a, outside_rows row n sz a -> fst rv a = m a).
  Proof.
    intros A pr. induction pr as [a|p k IH|p k IH|p x k IH|p q k IH|p q k IH|p q k IH|p q k IH|p x k IH|x p k IH|p q k IH|p x k IH];
      intros Hok m; cbn [prog_ok] in Hok; cbn [run_on_view run_on_values]; cbn zeta.
    - repeat split; reflexivity.
    - (* Read *) destruct Hok as [Hp Hk]. rewrite (abs_vget m p Hp), (rd_row m p Hp). apply IH. apply Hk. apply rd_reg. apply (proj1 HR). assumption.
    - (* Take *) destruct Hok as [Hp Hk]. rewrite (abs_vget m p Hp), (rd_row m p Hp). unfold rdp.
      destruct (take_spec row n sz HR p m Hp) as [Hv Hf]. cbn zeta in Hv, Hf.
      assert (E : abs_rows row n (do_take (row p) m) = abs_rows row n m).
      { rewrite (abs_step (do_take (row p) m) (rdp row m)) by exact Hv. symmetry. apply abs_rows_map. }
      destruct (IH (rd0 (row p) m) (Hk _ (rd_reg _ _ _ (proj1 HR p Hp))) (do_take (row p) m)) as (H1 & H2 & H3). cbn zeta in H1, H2, H3.
      rewrite E in H1, H2. split; [exact H1|]. split; [exact H2|]. intros a Ha. rewrite H3 by assumption. apply Hf. assumption.
    - (* Write *) destruct Hok as (Hp & Hx & Hk).
      destruct (write_spec row n sz HR p x m Hp Hx) as [Hv Hf]. cbn zeta in Hv, Hf.
      assert (E : abs_rows row n (do_write (row p) x m) = vset (abs_rows row n m) p x).
      { rewrite (abs_step _ _ Hv), abs_rows_map. symmetry. apply vset_map. lia. }
      destruct (IH Hk (do_write (row p) x m)) as (H1 & H2 & H3). cbn zeta in H1, H2, H3.
      rewrite E in H1, H2. split; [exact H1|]. split; [exact H2|]. intros a Ha. rewrite H3 by assumption. apply Hf. assumption.
    - (* Copy *) destruct Hok as (Hp & Hq & Hk).
      destruct (copy_spec_rows row n sz HR p q m Hp Hq) as [Hv Hf]. cbn zeta in Hv, Hf.
      assert (E : abs_rows row n (do_copy (row p) (row q) m) = vset (abs_rows row n m) p (vget (abs_rows row n m) q)).
      { rewrite (abs_step _ _ Hv), (abs_vget m q Hq), abs_rows_map. symmetry. apply vset_map. lia. }
      destruct (IH Hk (do_copy (row p) (row q) m)) as (H1 & H2 & H3). cbn zeta in H1, H2, H3.
      rewrite E in H1, H2. split; [exact H1|]. split; [exact H2|]. intros a Ha. rewrite H3 by assumption. apply Hf. assumption.
    - (* Move *) destruct Hok as (Hp & Hq & Hk).
      destruct (move_spec_rows row n sz HR p q m Hp Hq) as [Hv Hf]. cbn zeta in Hv, Hf.
      assert (E : abs_rows row n (do_move (row p) (row q) m) = vset (abs_rows row n m) p (vget (abs_rows row n m) q)).
      { rewrite (abs_step _ _ Hv), (abs_vget m q Hq), abs_rows_map. symmetry. apply vset_map. lia. }
      destruct (IH Hk (do_move (row p) (row q) m)) as (H1 & H2 & H3). cbn zeta in H1, H2, H3.
      rewrite E in H1, H2. split; [exact H1|]. split; [exact H2|]. intros a Ha. rewrite H3 by assumption. apply Hf. assumption.
    - (* Swap *) destruct Hok as (Hp & Hq & Hk).
      destruct (swap_spec_rows row n sz HR p q m Hp Hq) as [Hv Hf]. cbn zeta in Hv, Hf.
      assert (E : abs_rows row n (do_swap (row p) (row q) m)
                  = vset (vset (abs_rows row n m) p (vget (abs_rows row n m) q)) q (vget (abs_rows row n m) p)).
      { rewrite (abs_step _ _ Hv), (abs_vget m q Hq), (abs_vget m p Hp), abs_rows_map.
        rewrite vset_map by lia. rewrite vset_map by lia. apply map_iota_ext. intros r Hr.
        destruct (r =? p) eqn:E1, (r =? q) eqn:E2; bprop; subst; reflexivity. }
      destruct (IH Hk (do_swap (row p) (row q) m)) as (H1 & H2 & H3). cbn zeta in H1, H2, H3.
      rewrite E in H1, H2. split; [exact H1|]. split; [exact H2|]. intros a Ha. rewrite H3 by assumption. apply Hf. assumption.
    - (* Less *) destruct Hok as (Hp & Hq & Hk).
      rewrite (abs_vget m p Hp), (abs_vget m q Hq), (less_spec row n sz HR p q m Hp Hq). apply IH. apply Hk.
    - (* LessV *) destruct Hok as (Hp & Hx & Hk).
      rewrite (abs_vget m p Hp), (lessv_spec row n sz HR p x m Hp). apply IH. apply Hk.
    - (* VLess *) destruct Hok as (Hp & Hx & Hk).
      rewrite (abs_vget m p Hp), (vless_spec row n sz HR p x m Hp). apply IH. apply Hk.
    - (* Eq *) destruct Hok as (Hp & Hq & Hk).
      rewrite (abs_vget m p Hp), (abs_vget m q Hq), (eq_spec row n sz HR p q m Hp Hq). apply IH. apply Hk.
    - (* EqV *) destruct Hok as (Hp & Hx & Hk).
      rewrite (abs_vget m p Hp), (eqv_spec row n sz HR p x m Hp Hx). apply IH. apply Hk.
  Qed.
End Main.

Theorem C03_representation_independence_proved :
  forall (row : Z -> view) (n : Z) (sz : list Z), rows_ok row n sz ->
  forall (A : Type) (pr : prog A), prog_ok n sz pr ->
  forall (m : mem),
    let rv := run_on_view row pr m in
    let rl := run_on_values (length sz) pr (abs_rows row n m) in
       snd rv = snd rl                                              (* same results / returned positions *)
    /\ abs_rows row n (fst rv) = fst rl                             (* same effect on the viewed values *)
    /\ (forall a, outside_rows row n sz a -> fst rv a = m a).       (* every other cell untouched *)
Proof. intros row n sz HR A pr Hok m. apply C03_simulation; assumption. Qed.

(* ================= discharging rows_ok ================= *)
(* a zero-based view whose valid index tuples designate distinct cells *)
Definition inj_view (v : view) (sz : list Z) : Prop :=
  forall idx idx', valid_idx sz idx -> valid_idx sz idx' -> v_addr v idx = v_addr v idx' -> idx = idx'.

Lemma prod_pos_all sz : Forall (fun k => 0 <= k) sz -> 0 < prod sz -> Forall (fun k => 0 < k) sz.
Proof.
  induction 1 as [|k sz Hk Hsz IH]; intros Hp; [constructor|]. pose proof (prod_nonneg sz Hsz) as Hn.
  unfold prod in *. cbn in Hp.
  assert (0 < k /\ 0 < fold_right Z.mul 1 sz) by nia. constructor; [lia|]. apply IH. lia.
Qed.

Lemma xpos_zb sz : Forall (fun k => 0 < k) sz -> xpos (zb sz).
Proof. unfold xpos, zb. intros H. rewrite Forall_map. eapply Forall_impl; [|exact H]. cbn. intros; lia. Qed.

(* the k-th index tuple in canonical order is valid, and distinct positions give distinct tuples *)
Lemma canon_valid w sz k : lay_ok (lay w) sz -> 0 <= k < prod sz ->
  e_addr w k = v_addr w (x_from_linear (zb sz) k) /\ valid_idx sz (x_from_linear (zb sz) k)
  /\ x_to_linear (zb sz) (x_from_linear (zb sz) k) = k.
Proof.
  intros H Hk. pose proof (prod_pos_all sz (lay_ok_nonneg _ _ H) ltac:(lia)) as Hpos.
  pose proof (xpos_zb sz Hpos) as HX. split.
  - unfold e_addr, er_at, v_addr. rewrite l_call_addr, (lay_ok_extensions _ _ H). reflexivity.
  - split; [apply in_ext_zb; apply FL_in; [assumption|rewrite numel_zb_prod; lia]|].
    apply TL_FL; [assumption|rewrite numel_zb_prod; lia].
Qed.

Lemma e_addr_rank0 b k : e_addr (mkview [] b) k = b.
Proof. unfold e_addr, er_at. cbn. lia. Qed.

(* elements() of an injective view *)
Lemma elems_rows_ok v sz : lay_ok (lay v) sz -> inj_view v sz -> rows_ok (elems_of v) (prod sz) [].
Proof.
  intros H Hi. split; [|split; [|reflexivity]].
  - intros p _. constructor.
  - intros p q j k Hp Hq Hj Hk E. cbn in Hj, Hk. assert (j = 0) by lia. assert (k = 0) by lia. subst j k.
    split; [|reflexivity]. unfold elems_of in E. rewrite !e_addr_rank0 in E.
    destruct (canon_valid v sz p H Hp) as (Ep & Vp & Tp). destruct (canon_valid v sz q H Hq) as (Eq' & Vq & Tq).
    rename E into Eaddr. rewrite Ep, Eq' in Eaddr.
    apply (Hi _ _ Vp Vq) in Eaddr. rewrite <- Tp, <- Tq, Eaddr. reflexivity.
Qed.

Lemma elems_outside v sz a : lay_ok (lay v) sz ->
  outside_rows (elems_of v) (prod sz) [] a <-> (forall k, 0 <= k < prod sz -> a <> e_addr v k).
Proof.
  intros H. unfold outside_rows. split.
  - intros Ho k Hk. specialize (Ho k 0 Hk ltac:(cbn; lia)). unfold elems_of in Ho. rewrite e_addr_rank0 in Ho. exact Ho.
  - intros Ho p k Hp Hk. unfold elems_of. rewrite e_addr_rank0. apply Ho. exact Hp.
Qed.

(* begin()/end() of an injective view: row p is the sub-view at index p (C02), its cells are v's cells (p, idx) *)
Lemma rows_of_eq v d l n : lay v = d :: l -> dim_ok d n -> forall p, rows_of v p = v_index p v.
Proof.
  intros El Hd p. unfold rows_of. rewrite (it_deref_index v d l 0 n El (proj1 (dim_ok_g d n) Hd) p). reflexivity.
Qed.

Lemma row_cell v d l n sz p k : lay v = d :: l -> lay_ok (d :: l) (n :: sz) -> 0 <= k < prod sz ->
  e_addr (rows_of v p) k = v_addr v (p :: x_from_linear (zb sz) k).
Proof.
  intros El Hok Hk. inversion Hok as [|? ? ? ? Hd Hl]; subst.
  assert (Hrow : lay_ok (lay (rows_of v p)) sz).
  { rewrite (rows_of_eq v d l n El Hd). unfold v_index. rewrite El. exact Hl. }
  destruct (canon_valid _ sz k Hrow Hk) as (-> & _ & _).
  rewrite (rows_of_eq v d l n El Hd). unfold v_addr, v_index, hd_dim. rewrite El. cbn. lia.
Qed.

Lemma view_rows_ok v n sz : lay_ok (lay v) (n :: sz) -> inj_view v (n :: sz) -> collapse sz = sz -> rows_ok (rows_of v) n sz.
Proof.
  intros Hok Hi Hcol. destruct (lay v) as [|d l] eqn:El; [inv Hok|].
  inversion Hok as [|? ? ? ? Hd Hl]; subst. split; [|split; [|exact Hcol]].
  - intros p _. rewrite (rows_of_eq v d l n El Hd). unfold v_index. rewrite El. exact Hl.
  - intros p q j k Hp Hq Hj Hk E.
    rewrite (row_cell v d l n sz p j El Hok Hj), (row_cell v d l n sz q k El Hok Hk) in E.
    assert (Hrow : lay_ok (lay (rows_of v 0)) sz).
    { rewrite (rows_of_eq v d l n El Hd). unfold v_index. rewrite El. exact Hl. }
    destruct (canon_valid _ sz j Hrow Hj) as (_ & Vj & Tj). destruct (canon_valid _ sz k Hrow Hk) as (_ & Vk & Tk).
    apply Hi in E; [|constructor; [lia|assumption]|constructor; [lia|assumption]].
    inv E. split; [reflexivity|]. rewrite <- Tj, <- Tk, H1. reflexivity.
Qed.

(* two disjoint ranges of the same row shape, side by side *)
Lemma cat_rows_ok ra na rb nb sz : 0 <= na -> 0 <= nb -> rows_ok ra na sz -> rows_ok rb nb sz ->
  (forall p q j k, 0 <= p < na -> 0 <= q < nb -> 0 <= j < prod sz -> 0 <= k < prod sz -> e_addr (ra p) j <> e_addr (rb q) k) ->
  rows_ok (cat_rows ra na rb) (na + nb) sz.
Proof.
  intros Hna Hnb (Ha1 & Ha2 & Hcol) (Hb1 & Hb2 & _) Hx. unfold cat_rows. split; [|split; [|exact Hcol]].
  - intros p Hp. destruct (p <? na) eqn:E; bprop; [apply Ha1|apply Hb1]; lia.
  - intros p q j k Hp Hq Hj Hk E. destruct (p <? na) eqn:E1, (q <? na) eqn:E2; bprop.
    + apply Ha2; try assumption; lia.
    + exfalso. apply (Hx p (q - na) j k); try assumption; lia.
    + exfalso. apply (Hx q (p - na) k j); try assumption; try lia.
    + destruct (Hb2 (p - na) (q - na) j k) as [? ?]; try assumption; try lia.
Qed.

(* ---- injectivity of the views the property names: a row-major array and what the view operations make of it ---- *)
Lemma rowmajor_inj sz : forall idx idx', valid_idx sz idx -> valid_idx sz idx' -> rowmajor sz idx = rowmajor sz idx' -> idx = idx'.
Proof.
  induction sz as [|k sz IH]; intros idx idx' H H' E; inv H; inv H'; [reflexivity|].
  cbn [rowmajor] in E. fold (prod sz) in E.
  pose proof (rowmajor_bounds sz _ H4) as B. pose proof (rowmajor_bounds sz _ H5) as B'.
  assert (y = y0) by nia. subst y0. f_equal. apply IH; try assumption. lia.
Qed.

(* any view whose addresses are the row-major positions of an injective index map *)
Lemma represents_inj rsz v a : represents rsz v a ->
  (forall idx idx', valid_idx (asz a) idx -> valid_idx (asz a) idx' -> amap a idx = amap a idx' -> idx = idx') ->
  inj_view v (asz a).
Proof.
  intros [Hok Ha] Hinj idx idx' H H' E. destruct (Ha _ H) as [V1 E1]. destruct (Ha _ H') as [V2 E2].
  rewrite E1, E2 in E. apply Hinj; try assumption. apply (rowmajor_inj rsz); assumption.
Qed.

(* operations whose documented index map is injective on valid tuples by plain arithmetic: rows, columns
   (transposed / rotated / unrotated / reversed), sub-blocks (sliced / dropped / taked / index), strided *)
Definition c03_op (o : op) : Prop :=
  match o with
  | OIndex _ | OSliced _ _ | OSlicedS _ _ _ | OStrided _ | ODropped _ | OTaked _
  | ORotated | OUnrotated | OTransposed | OReversed => True
  | _ => False
  end.
Lemma c03_c01 o : c03_op o -> c01_op o.
Proof. destruct o; cbn; tauto. Qed.

Lemma hd_tl_eq (a b : list Z) : length a = length b -> hdz a = hdz b -> tl a = tl b -> (a = b \/ (a = [] /\ b = [])).
Proof. destruct a, b; cbn; intros; try discriminate; [right; split; reflexivity|left; unfold hdz in *; cbn in *; congruence]. Qed.

Lemma t_unrot_inj {A} (a b : list A) : t_unrot a = t_unrot b -> a = b.
Proof.
  unfold t_unrot. intros E. rewrite <- (rev_involutive a), <- (rev_involutive b).
  destruct (rev a) as [|x ra], (rev b) as [|y rb]; try discriminate; [reflexivity|].
  inv E. apply (f_equal (@rev A)) in H1. rewrite !rev_involutive in H1. subst. reflexivity.
Qed.
Lemma t_rot_inj {A} (a b : list A) : t_rot a = t_rot b -> a = b.
Proof.
  unfold t_rot. destruct a as [|x a], b as [|y b]; intros E; try reflexivity.
  - destruct b; discriminate.
  - destruct a; discriminate.
  - apply app_inj_tail in E. destruct E; subst. reflexivity.
Qed.
Lemma t_transpose_inj {A} (a b : list A) : length a = length b -> t_transpose a = t_transpose b -> a = b.
Proof.
  unfold t_transpose. destruct a as [|x [|x' a]], b as [|y [|y' b]]; cbn; intros L E; try discriminate; try assumption.
  inv E. reflexivity.
Qed.

Lemma spec_map_inj o sz idx idx' : c03_op o -> length idx = length idx' ->
  (match o with OSlicedS _ _ s | OStrided s => 1 <= s | _ => True end) ->
  spec_map o sz idx = spec_map o sz idx' -> idx = idx'.
Proof.
  intros Hc L Hs E. destruct o; cbn [c03_op] in Hc; try contradiction; cbn [spec_map] in E.
  - inv E. reflexivity.
  - inv E. destruct (hd_tl_eq idx idx' L ltac:(lia) H1) as [?|[-> ->]]; [assumption|reflexivity].
  - inv E. destruct (hd_tl_eq idx idx' L ltac:(nia) H1) as [?|[-> ->]]; [assumption|reflexivity].
  - inv E. destruct (hd_tl_eq idx idx' L ltac:(nia) H1) as [?|[-> ->]]; [assumption|reflexivity].
  - inv E. destruct (hd_tl_eq idx idx' L ltac:(lia) H1) as [?|[-> ->]]; [assumption|reflexivity].
  - assumption.
  - apply t_unrot_inj. assumption.
  - apply t_rot_inj. assumption.
  - apply t_transpose_inj; assumption.
  - apply (f_equal (@rev Z)) in E. rewrite !rev_involutive in E. assumption.
Qed.

Lemma dom_stride_pos o v : dom_op o v = true -> match o with OSlicedS _ _ s | OStrided s => 1 <= s | _ => True end.
Proof. destruct o; cbn [dom_op]; intros H; try exact I; bprop; assumption. Qed.

(* every view obtained from a row-major array by these operations is injective *)
Theorem C03_reachable_injective_proved :
  forall (sz : list Z) (ops : list op) (v : view),
    Forall (fun k => 0 <= k) sz -> Forall c03_op ops -> run_ops ops (root_view (zb sz)) = Some v ->
    let a := run_spec ops (root_spec sz) in lay_ok (lay v) (asz a) /\ inj_view v (asz a).
Proof.
  intros sz ops v Hsz Hops Hrun a.
  assert (Hc1 : Forall c01_op ops) by (eapply Forall_impl; [|exact Hops]; apply c03_c01).
  pose proof (represents_run _ ops _ _ _ Hc1 (represents_root sz Hsz) Hrun) as Hrep. fold a in Hrep.
  split; [apply Hrep|]. apply (represents_inj _ _ _ Hrep). unfold a. clear Hrep a Hc1.
  (* generalise over the starting view *)
  assert (G : forall ops v0 a0 w, Forall c03_op ops -> represents (collapse sz) v0 a0 -> run_ops ops v0 = Some w ->
              (forall idx idx', valid_idx (asz a0) idx -> valid_idx (asz a0) idx' -> amap a0 idx = amap a0 idx' -> idx = idx') ->
              forall idx idx', valid_idx (asz (run_spec ops a0)) idx -> valid_idx (asz (run_spec ops a0)) idx' ->
                amap (run_spec ops a0) idx = amap (run_spec ops a0) idx' -> idx = idx').
  { clear ops v Hops Hrun. induction ops as [|o ops IH]; intros v0 a0 w Hc Hrep Hrun Hinj; cbn [run_spec run_ops] in *; [exact Hinj|].
    inv Hc. unfold apply_op in Hrun. destruct (dom_op o v0) eqn:Hd; [|discriminate].
    pose proof (represents_step _ _ _ o (c03_c01 _ H1) Hrep Hd) as Hrep'.
    apply (IH (exec_op o v0) (spec_op o a0) w H2 Hrep' Hrun).
    intros idx idx' V V' E. cbn [spec_op amap asz] in *.
    destruct Hrep as [Hok0 _]. destruct (step_op v0 (asz a0) o (c03_c01 _ H1) Hok0 Hd) as [_ Hs].
    destruct (Hs idx V) as [W _]. destruct (Hs idx' V') as [W' _].
    apply Hinj in E; try assumption.
    apply (spec_map_inj o (asz a0)); try assumption.
    - rewrite (valid_idx_length _ _ V), (valid_idx_length _ _ V'). reflexivity.
    - apply (dom_stride_pos o v0 Hd). }
  apply (G ops (root_view (zb sz)) (root_spec sz) v Hops (represents_root sz Hsz) Hrun).
  intros idx idx' _ _ E. exact E.
Qed.

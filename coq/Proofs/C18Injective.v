(* Distinct index tuples of a view reachable as in C01 designate distinct elements: the documented
   index map of every view operation is injective on valid tuples, row-major positions are injective,
   hence the entries of the MPI message of such a view never overlap (the premise MPI-3.1 4.1.11 puts
   on receive datatypes, discharged here for every reachable view). *)
From BM Require Import Base.Tactics Model.Layout Model.View Model.Spec Model.MpiTypes Model.MpiSkeleton
  Proofs.LayoutProofs Proofs.ViewProofs Proofs.ViewProofs2 Proofs.MpiTypesProofs Proofs.MpiSkeletonProofs.
Local Open Scope Z_scope.

Definition inj_on (sz : list Z) (f : list Z -> list Z) : Prop :=
  forall i j, valid_idx sz i -> valid_idx sz j -> f i = f j -> i = j.

Lemma valid_cons_inv n r i :
  valid_idx (n :: r) i -> exists i0 i', i = i0 :: i' /\ 0 <= i0 < n /\ valid_idx r i'.
Proof. intros H. inversion H; subst. eauto. Qed.

Lemma valid_nil_inv i : valid_idx [] i -> i = [].
Proof. intros H. inversion H. reflexivity. Qed.

Ltac vcons H i0 i' :=
  let A := fresh "Hb" in let B := fresh "Hv" in
  apply valid_cons_inv in H as (i0 & i' & -> & A & B).

Lemma inj_on_nil f : inj_on [] f.
Proof. intros i j Hi Hj _. apply valid_nil_inv in Hi, Hj. congruence. Qed.

(* ---- building blocks ---- *)
Lemma inj_head n r (g : Z -> Z) :
  (forall x y, 0 <= x < n -> 0 <= y < n -> g x = g y -> x = y) ->
  inj_on (n :: r) (fun idx => g (hdz idx) :: tl idx).
Proof.
  intros Hg i j Hi Hj E. vcons Hi i0 i'. vcons Hj j0 j'. cbn [hdz hd tl] in E.
  injection E as E0 E1. subst. f_equal. apply Hg; assumption.
Qed.

Lemma mixed_radix_inj q a b c d : 0 <= b < q -> 0 <= d < q -> a * q + b = c * q + d -> a = c /\ b = d.
Proof.
  intros Hb Hd E. assert (a = c).
  { destruct (Z.lt_trichotomy a c) as [H|[H|H]]; [|assumption|]; exfalso; nia. }
  subst. split; [reflexivity|lia].
Qed.

Lemma inj_split2 n0 q r :
  inj_on (n0 :: q :: r) (fun idx => (hdz idx * q + hdz (tl idx)) :: tl (tl idx)).
Proof.
  intros i j Hi Hj E. vcons Hi i0 i'. vcons Hj j0 j'. vcons Hv i1 i''. vcons Hv0 j1 j''.
  cbn [hdz hd tl] in E. injection E as E0 E1. subst.
  destruct (mixed_radix_inj q i0 i1 j0 j1) as [-> ->]; try assumption. reflexivity.
Qed.

Lemma rev_inj {A} (a b : list A) : rev a = rev b -> a = b.
Proof. intros H. rewrite <- (rev_involutive a), <- (rev_involutive b), H. reflexivity. Qed.

Lemma t_unrot_inj {A} (a b : list A) : t_unrot a = t_unrot b -> a = b.
Proof.
  unfold t_unrot. intros H. apply rev_inj.
  destruct (rev a) as [|x r], (rev b) as [|y q]; try discriminate; [reflexivity|].
  injection H as -> H. apply rev_inj in H. subst. reflexivity.
Qed.

Lemma t_rot_inj {A} (a b : list A) : t_rot a = t_rot b -> a = b.
Proof.
  destruct a as [|x r], b as [|y q]; cbn [t_rot]; intros H; try reflexivity.
  - destruct q; discriminate.
  - destruct r; discriminate.
  - apply app_inj_tail in H as [-> ->]. reflexivity.
Qed.

Lemma t_transpose_inj {A} (a b : list A) : t_transpose a = t_transpose b -> a = b.
Proof.
  intros H. assert (Hi : forall l : list A, t_transpose (t_transpose l) = l)
    by (intros [|x [|y l]]; reflexivity).
  rewrite <- (Hi a), <- (Hi b), H. reflexivity.
Qed.

Lemma inj_paren args : forall sz, inj_on (spec_paren_sz args sz) (spec_paren_map args).
Proof.
  induction args as [|p args IH]; intros sz; cbn [spec_paren_sz spec_paren_map].
  - intros i j _ _ E. exact E.
  - destruct sz as [|n sz'].
    + assert (E0 : spec_paren_sz (p :: args) [] = []) by (destruct p; reflexivity).
      cbn [spec_paren_sz] in E0. rewrite E0. apply inj_on_nil.
    + destruct p as [k|a b|].
      * intros i j Hi Hj E. injection E as E. apply (IH sz'); assumption.
      * intros i j Hi Hj E. vcons Hi i0 i'. vcons Hj j0 j'. cbn [hdz hd tl] in E.
        injection E as E0 E1. f_equal; [lia|]. apply (IH sz'); assumption.
      * intros i j Hi Hj E. vcons Hi i0 i'. vcons Hj j0 j'. cbn [hdz hd tl] in E.
        injection E as E0 E1. f_equal; [assumption|]. apply (IH sz'); assumption.
Qed.

Lemma spec_sz_nil o : spec_sz o [] = [].
Proof. destruct o; try reflexivity. destruct args as [|[]]; reflexivity. Qed.

(* ---- every C01 operation ---- *)
Lemma spec_map_inj v sz o : lay_ok (lay v) sz -> dom_op o v = true ->
  inj_on (spec_sz o sz) (spec_map o sz).
Proof.
  intros Hok Hd. destruct sz as [|n r]; [rewrite spec_sz_nil; apply inj_on_nil|].
  destruct o as [k|a b|a b s|s|k|k| | | | | |k|c| | |args|k|a b|is]; cbn [spec_sz spec_map].
  - (* index *) intros i j _ _ E. injection E as E. exact E.
  - (* sliced *) apply (inj_head _ _ (fun x => a + x)). intros; lia.
  - (* sliced with stride *)
    unfold dom_op in Hd. bprop.
    apply (inj_head _ _ (fun x => a + x * s)). intros x y _ _ E. nia.
  - (* strided *)
    unfold dom_op in Hd. bprop.
    apply (inj_head _ _ (fun x => x * s)). intros x y _ _ E. nia.
  - (* dropped *) apply (inj_head _ _ (fun x => x + k)). intros; lia.
  - (* taked *) intros i j _ _ E. exact E.
  - (* rotated *) intros i j _ _ E. apply t_unrot_inj. exact E.
  - (* unrotated *) intros i j _ _ E. apply t_rot_inj. exact E.
  - (* transposed *) intros i j _ _ E. apply t_transpose_inj. exact E.
  - (* reversed *) intros i j _ _ E. apply rev_inj. exact E.
  - (* diagonal *) intros i j _ _ E. injection E as _ E. exact E.
  - (* partitioned *) cbn [hdz hd]. apply inj_split2.
  - (* chunked *) apply inj_split2.
  - (* halved *) cbn [hdz hd]. apply inj_split2.
  - (* flatted *)
    intros i j Hi Hj E. injection E as Eq Er Et.
    assert (Hh : hdz i = hdz j).
    { pose proof (Z.quot_rem' (hdz i) (hdz r)) as Qi.
      pose proof (Z.quot_rem' (hdz j) (hdz r)) as Qj.
      rewrite Eq, Er in Qi. etransitivity; [exact Qi|symmetry; exact Qj]. }
    destruct r as [|n1 r'].
    + vcons Hi i0 i'. vcons Hj j0 j'. cbn [hdz hd tl] in *. congruence.
    + vcons Hi i0 i'. vcons Hj j0 j'. cbn [hdz hd tl] in *. congruence.
  - (* call syntax *) apply inj_paren.
  - (* reindexed *) intros i j _ _ E. exact E.
  - (* blocked *) apply (inj_head _ _ (fun x => a + x)). intros; lia.
  - (* reindexed(i, j, ...) *) intros i j _ _ E. exact E.
Qed.

(* ---- row-major positions ---- *)
Lemma rowmajor_inj sz : forall i j, valid_idx sz i -> valid_idx sz j -> rowmajor sz i = rowmajor sz j -> i = j.
Proof.
  induction sz as [|n sz IH]; intros i j Hi Hj E.
  - apply valid_nil_inv in Hi, Hj. congruence.
  - vcons Hi i0 i'. vcons Hj j0 j'. cbn [rowmajor] in E. fold (prod sz) in E.
    pose proof (rowmajor_bounds _ _ Hv) as B1. pose proof (rowmajor_bounds _ _ Hv0) as B2.
    destruct (mixed_radix_inj (prod sz) i0 (rowmajor sz i') j0 (rowmajor sz j')) as [-> E']; try assumption.
    f_equal. apply IH; assumption.
Qed.

(* ---- induction over operation sequences ---- *)
Definition represents_inj (rsz : list Z) (v : view) (a : aview) : Prop :=
  represents rsz v a /\ inj_on (asz a) (amap a).

Lemma represents_inj_root sz : Forall (fun n => 0 <= n) sz ->
  represents_inj (collapse sz) (root_view (zb sz)) (root_spec sz).
Proof. intros H. split; [apply represents_root; assumption|]. intros i j _ _ E. exact E. Qed.

Lemma represents_inj_step rsz v a o : c01_op o -> represents_inj rsz v a -> dom_op o v = true ->
  represents_inj rsz (exec_op o v) (spec_op o a).
Proof.
  intros Hc [Hr Hi] Hd. split; [apply represents_step; assumption|].
  destruct Hr as [Hok _]. destruct (step_op v (asz a) o Hc Hok Hd) as [_ Hs].
  pose proof (spec_map_inj v (asz a) o Hok Hd) as Hm.
  intros i j Hvi Hvj E. cbn [spec_op asz amap] in *.
  apply Hm; try assumption. apply Hi; [apply (Hs i Hvi)|apply (Hs j Hvj)|exact E].
Qed.

Lemma represents_inj_run rsz ops : forall v a w, Forall c01_op ops -> represents_inj rsz v a ->
  run_ops ops v = Some w -> represents_inj rsz w (run_spec ops a).
Proof.
  induction ops as [|o ops IH]; intros v a w Hc Hr Hrun; cbn [run_ops run_spec] in *.
  - inv Hrun. assumption.
  - inv Hc. unfold apply_op in Hrun. destruct (dom_op o v) eqn:Hd; [|discriminate].
    eapply IH; [assumption| |exact Hrun]. apply represents_inj_step; assumption.
Qed.

Lemma NoDup_map_inj_in {A B} (f : A -> B) l :
  NoDup l -> (forall x y, In x l -> In y l -> f x = f y -> x = y) -> NoDup (map f l).
Proof.
  induction 1 as [|a l Ha Hl IH]; intros Hf; cbn [map]; constructor.
  - intros Hin. apply in_map_iff in Hin as (y & E & Hy).
    assert (y = a) by (apply Hf; [right; assumption|left; reflexivity|assumption]). subst. contradiction.
  - apply IH. intros x y Hx Hy. apply Hf; right; assumption.
Qed.

(* the entries of the message of a reachable view are pairwise distinct *)
Theorem reachable_entries_distinct :
  forall (rsz : list Z) (ops : list op) (v : view) (S : Z),
    Forall (fun n => 0 <= n) rsz -> Forall c01_op ops ->
    run_ops ops (root_view (zb rsz)) = Some v -> S <> 0 ->
    lay_ok (lay v) (asz (run_spec ops (root_spec rsz)))
    /\ NoDup (elem_offsets (lay v) (asz (run_spec ops (root_spec rsz))) S).
Proof.
  intros rsz ops v S Hsz Hops Hrun HS.
  destruct (represents_inj_run _ ops _ _ _ Hops (represents_inj_root rsz Hsz) Hrun) as [[Hok Ha] Hinj].
  split; [assumption|]. unfold elem_offsets. apply NoDup_map_inj_in; [apply NoDup_canon|].
  intros i j Hi Hj E. apply in_canon in Hi, Hj.
  assert (El : l_addr (lay v) i = l_addr (lay v) j) by nia.
  destruct (Ha i Hi) as [Vi Ei]. destruct (Ha j Hj) as [Vj Ej]. unfold v_addr in Ei, Ej.
  apply Hinj; try assumption. apply (rowmajor_inj (collapse rsz)); try assumption. lia.
Qed.

(* C13: the syrk / herk / trsm dispatch regenerated from the source text (Model/BlasC13L3Gen.v) computes, for every argument,
   what the hand transcription the theorems speak about (Model/BlasC13L3.v) computes.  The two are written differently
   (`flip(c_side) == filling::upper` vs its value, an `if constexpr` chain vs a match), hence pointwise equalities. *)
From BM Require Import Base.Tactics Model.BlasC13 Model.BlasC13L3 Model.BlasC13L3Gen.
Local Open Scope Z_scope.

Lemma syrk_dispatch_gen_eq upper a c : syrk_dispatch_gen upper a c = L3Call (syrk_dispatch upper a c).
Proof.
  unfold syrk_dispatch_gen, syrk_dispatch.
  destruct (s0 a =? 1), (s0 c =? 1), upper; reflexivity.
Qed.

Lemma herk_dispatch_gen_eq upper a c : herk_dispatch_gen upper a c = herk_dispatch upper a c.
Proof.
  unfold herk_dispatch_gen, herk_dispatch.
  destruct (mconj a), (s0 a =? 1), (s0 c =? 1), (rows a =? 1), upper; reflexivity.
Qed.

Lemma trsm_dispatch_gen_eq left lower unit a b : trsm_dispatch_gen left lower unit a b = trsm_dispatch left lower unit a b.
Proof.
  unfold trsm_dispatch_gen, trsm_dispatch, side_char, fill_char, diag_char.
  destruct (mconj a), (mconj b), (s0 a =? 1), (s1 a =? 1), (s0 b =? 1), (s1 b =? 1), left, lower, unit; reflexivity.
Qed.

Lemma level3_dispatch_regenerated :
     (forall upper a c, syrk_dispatch_gen upper a c = L3Call (syrk_dispatch upper a c))
  /\ (forall upper a c, herk_dispatch_gen upper a c = herk_dispatch upper a c)
  /\ (forall left lower unit a b, trsm_dispatch_gen left lower unit a b = trsm_dispatch left lower unit a b).
Proof. split; [exact syrk_dispatch_gen_eq|]. split; [exact herk_dispatch_gen_eq | exact trsm_dispatch_gen_eq]. Qed.

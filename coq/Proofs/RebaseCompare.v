(* C19, equality and ordering: comparing two re-based views whose index bases agree gives the answers of
   comparing their zero-based twins (norm): the nested value of a view does not depend on its index
   bases, the extension test of == only sees the sizes, and the leading-index test of < is neutral. *)
From BM Require Import Base.Tactics Model.Layout Model.View Model.Spec Model.Iter Model.Rebase Model.Compare
  Proofs.LayoutProofs Proofs.ViewProofs Proofs.ViewProofs2 Proofs.IterProofs Proofs.RebaseProofs.
Local Open Scope Z_scope.

Lemma abs_norm l : lok l -> forall b m, abs_l (map norm_d l) b m = abs_l l b m.
Proof.
  induction l as [|d l IH]; intros Hl b m; [reflexivity|].
  inversion Hl as [|d' l' Hd Hl']; subst.
  cbn [map abs_l]. rewrite size_norm. f_equal.
  destruct (Z_le_gt_dec (d_size d) 0) as [Hz|Hp].
  - assert (Z.to_nat (d_size d) = 0%nat) as -> by lia. reflexivity.
  - apply map_ext. intros i. rewrite (IH Hl').
    rewrite (ext_norm d Hd). cbn [fst]. rewrite (dok_offset d Hd) by lia.
    change (d_stride (norm_d d)) with (d_stride d). change (d_offset (norm_d d)) with 0.
    f_equal. ring.
Qed.

Lemma vtree_norm v m : lok (lay v) -> v_tree (norm v) m = v_tree v m.
Proof. intros H. unfold v_tree, norm; cbn. apply abs_norm; assumption. Qed.

Lemma req_norm da db : dok da -> dok db -> fst (d_extension da) = fst (d_extension db) ->
  r_eq (d_extension (norm_d da)) (d_extension (norm_d db)) = r_eq (d_extension da) (d_extension db).
Proof.
  intros Ha Hb Hf. rewrite (ext_norm _ Ha), (ext_norm _ Hb).
  destruct Ha as (fa & na & Ha), Hb as (fb & nb & Hb).
  rewrite (dim_okg_extension _ _ _ Ha), (dim_okg_extension _ _ _ Hb) in *.
  rewrite (dim_okg_size _ _ _ Ha), (dim_okg_size _ _ _ Hb).
  destruct Ha as (_ & _ & Hna & _), Hb as (_ & _ & Hnb & _).
  unfold ext_of, r_eq, r_empty in *.
  destruct (na =? 0) eqn:Ea; destruct (nb =? 0) eqn:Eb; cbn [fst snd] in *; bprop; subst;
    apply eq_true_iff_eq; rewrite ?orb_true_iff, ?andb_true_iff, ?Z.eqb_eq; lia.
Qed.

Lemma xeq_norm la lb : lok la -> lok lb ->
  map (fun d => fst (d_extension d)) la = map (fun d => fst (d_extension d)) lb ->
  x_eq (l_extensions (map norm_d la)) (l_extensions (map norm_d lb)) = x_eq (l_extensions la) (l_extensions lb).
Proof.
  revert lb. induction la as [|da la IH]; intros [|db lb] Ha Hb Hf; cbn in Hf; try discriminate; [reflexivity|].
  inversion Ha as [|? ? Hda Hla]; inversion Hb as [|? ? Hdb Hlb]; subst. injection Hf as Hf0 Hf1.
  unfold l_extensions in *. cbn [map x_eq]. rewrite (req_norm da db Hda Hdb Hf0). f_equal. apply IH; assumption.
Qed.

Lemma firsts_of_map v : firsts_of v = map (fun d => fst (d_extension d)) (lay v).
Proof. unfold firsts_of, l_extensions. rewrite map_map. reflexivity. Qed.

Theorem C19_compare_transparent_proved :
  forall (a b : view) (m : Z -> Z),
    lok (lay a) -> lok (lay b) -> firsts_of a = firsts_of b ->
       v_eq a b m = v_eq (norm a) (norm b) m
    /\ v_ne a b m = v_ne (norm a) (norm b) m
    /\ v_lt a b m = v_lt (norm a) (norm b) m
    /\ v_le a b m = v_le (norm a) (norm b) m
    /\ v_gt a b m = v_gt (norm a) (norm b) m
    /\ v_ge a b m = v_ge (norm a) (norm b) m.
Proof.
  intros a b m Ha Hb Hf. rewrite !firsts_of_map in Hf.
  assert (Hf' : map (fun d => fst (d_extension d)) (lay b) = map (fun d => fst (d_extension d)) (lay a)) by (symmetry; exact Hf).
  assert (Heq : forall x y, lok (lay x) -> lok (lay y) ->
             map (fun d => fst (d_extension d)) (lay x) = map (fun d => fst (d_extension d)) (lay y) ->
             v_eq x y m = v_eq (norm x) (norm y) m).
  { intros x y Hx Hy Hxy. unfold v_eq. rewrite !vtree_norm by assumption.
    change (lay (norm x)) with (map norm_d (lay x)). change (lay (norm y)) with (map norm_d (lay y)).
    rewrite xeq_norm by assumption. reflexivity. }
  assert (Hne : v_ne a b m = v_ne (norm a) (norm b) m).
  { unfold v_ne. rewrite !vtree_norm by assumption.
    change (lay (norm a)) with (map norm_d (lay a)). change (lay (norm b)) with (map norm_d (lay b)).
    rewrite xeq_norm by assumption. reflexivity. }
  assert (Hlt : forall x y, lok (lay x) -> lok (lay y) ->
             map (fun d => fst (d_extension d)) (lay x) = map (fun d => fst (d_extension d)) (lay y) ->
             v_lt x y m = v_lt (norm x) (norm y) m).
  { intros x y Hx Hy Hxy. unfold v_lt. rewrite !vtree_norm by assumption.
    change (lay (norm x)) with (map norm_d (lay x)). change (lay (norm y)) with (map norm_d (lay y)).
    rewrite map_length.
    destruct (lay x) as [|dx lx] eqn:Ex; destruct (lay y) as [|dy ly] eqn:Ey; cbn [map] in *; try discriminate; try reflexivity.
    injection Hxy as H0 _. inversion Hx as [|? ? Hdx _]; inversion Hy as [|? ? Hdy _]; subst.
    rewrite (ext_norm _ Hdx), (ext_norm _ Hdy). cbn [fst]. rewrite H0, !Z.ltb_irrefl. reflexivity. }
  unfold v_le, v_gt, v_ge.
  rewrite <- (Heq a b Ha Hb Hf), <- (Hlt a b Ha Hb Hf), <- (Hlt b a Hb Ha Hf'), <- Hne.
  repeat split; reflexivity.
Qed.

(* the same for any two views reached by programs from roots built over explicit index extensions *)
Theorem C19_compare_transparent_reachable_proved :
  forall (xa xb : list range) (opsa opsb : list op) (a b : view) (m : Z -> Z),
    Forall (fun r => fst r <= snd r) xa -> Forall (fun r => fst r <= snd r) xb ->
    run_safe opsa (root_view xa) = true -> run_ops opsa (root_view xa) = Some a ->
    run_safe opsb (root_view xb) = true -> run_ops opsb (root_view xb) = Some b ->
    firsts_of a = firsts_of b ->
       v_eq a b m = v_eq (norm a) (norm b) m /\ v_ne a b m = v_ne (norm a) (norm b) m
    /\ v_lt a b m = v_lt (norm a) (norm b) m /\ v_le a b m = v_le (norm a) (norm b) m
    /\ v_gt a b m = v_gt (norm a) (norm b) m /\ v_ge a b m = v_ge (norm a) (norm b) m.
Proof.
  intros xa xb opsa opsb a b m Hxa Hxb Hsa Hra Hsb Hrb Hf.
  apply C19_compare_transparent_proved; [| |exact Hf].
  - exact (proj2 (rebase_run opsa (root_view xa) a (mk_lok xa Hxa) Hsa Hra)).
  - exact (proj2 (rebase_run opsb (root_view xb) b (mk_lok xb Hxb) Hsb Hrb)).
Qed.

(* non-vacuity: a re-based 2x2 root indexed [1,3)x[-2,0) and its transpose re-indexed to the same extensions *)
Example compare_transparent_applies :
  let xa := [(1, 3); (-2, 0)] in
  let a := root_view xa in
  exists b, run_ops [OTransposed; OReindexed 1; ORotated; OReindexed (-2); ORotated] (root_view xa) = Some b /\ run_safe [OTransposed; OReindexed 1; ORotated; OReindexed (-2); ORotated] (root_view xa) = true
            /\ firsts_of a = firsts_of b /\ v_eq a b (fun p => p) = false /\ v_lt a b (fun p => p) = true.
Proof. eexists. repeat split; vm_compute; reflexivity. Qed.

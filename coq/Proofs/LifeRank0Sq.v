(* Rank 0, values: one commuting square per rank-0 entry point.
   sq : Good s -> dom_op0 (s_arrs s) o -> step0 cfg o s = Ok tt s' -> abs_state s' = vstep0 cfg o (abs_state s). *)
From BM Require Import Base.Tactics Model.Life Model.LifeRank0 Proofs.LifeBase Proofs.LifeMonad Proofs.LifeInv Proofs.LifeCells
  Proofs.LifeSteps Proofs.LifeCombi Proofs.LifeOps Proofs.LifeOps2 Proofs.LifeOps3 Proofs.LifeDisc Proofs.LifeFacts
  Proofs.LifeVal1 Proofs.LifeVal2 Proofs.LifeVal3 Proofs.LifeVal4 Proofs.LifeVal5
  Proofs.LifeRank0Cells Proofs.LifeRank0Inv Proofs.LifeRank0Val.
Local Open Scope Z_scope.

Lemma nth_upd_gen {T} (l : list T) (n m : nat) (x : T) : (n < length l)%nat ->
  nth_error (upd_nth l n x) m = if (n =? m)%nat then Some x else nth_error l m.
Proof.
  intros H. destruct (Nat.eqb_spec n m) as [<-|Hne]; [apply nth_upd_same; auto|apply nth_upd_other; auto].
Qed.

Section R0Sq.
Variable cfg : config.
Hypothesis rank_pos : (1 <= c_rank cfg)%nat.

Notation Inv := (Inv cfg).
Notation Good := (Good cfg).

Lemma nth_slot s q a : nth_error (s_arrs s) q = Some (Some a) -> get_slot s q = Some a.
Proof. intros H. unfold get_slot. rewrite H. auto. Qed.

Lemma arr_bx0 a : is0 a -> arr_bx a = X0.
Proof. intros [E F]. unfold arr_bx. rewrite E, F. reflexivity. Qed.

(* what the invariant says about the VALUE of a rank-0 array object *)
Lemma arr0_vals s r a : Inv [] s -> nth_error (s_arrs s) r = Some (Some a) -> is0 a ->
  exists b v, a_base a = PBlk b /\ bvals s b = [v] /\ sole_owner s r a b /\ vget (abs_state s) r = (X0, [v]).
Proof.
  intros I Hn Z0. assert (Hp : 0 < nel a) by (rewrite (nel0 _ Z0); lia).
  destruct (arr_facts cfg s r a I (nth_slot _ _ _ Hn) Hp) as (b & Eb & Lt & Lv & Len & Ow).
  unfold nnel in Len. rewrite (nel0 _ Z0) in Len. cbn in Len.
  destruct (bvals s b) as [|v [|v' l]] eqn:Ev; try discriminate.
  exists b, v. split; auto. split; auto. split; [apply (sole_owner_Inv cfg); auto|].
  rewrite (vget_abs cfg rank_pos s r a Hn), abs_arr_alt, (arr_bx0 _ Z0). f_equal.
  unfold avals. destruct (Z.leb_spec (nel a) 0); [lia|]. rewrite Eb, Lv. auto.
Qed.

(* the value a reference designates *)
Lemma ref_vals s q a b : Inv [] s -> nth_error (s_arrs s) (rf_slot q) = Some (Some a) -> a_base a = PBlk b ->
  Z.of_nat (rf_idx q) < nel a ->
  sole_owner s (rf_slot q) a b /\ (rf_idx q < length (bvals s b))%nat /\ rval (abs_state s) q = nth (rf_idx q) (bvals s b) pat.
Proof.
  intros I Hn Hb Hi. assert (Hp : 0 < nel a) by lia.
  pose proof (sole_owner_Inv cfg s _ a b I Hn Hp Hb) as So.
  destruct (arr_facts cfg s _ a I (nth_slot _ _ _ Hn) Hp) as (b0 & Eb & Lt & Lv & Len & Ow).
  assert (b0 = b) by congruence. subst b0. unfold nnel in Len.
  split; auto. split; [lia|].
  rewrite <- absf_bvals. destruct q as [t k]. cbn [rf_slot rf_idx] in *.
  rewrite (rval_absf s (bvals s) t a b k So). apply nth_indep. lia.
Qed.

(* reading a reference never changes the state *)
Lemma ref_cell_inv q s c s1 : ref_cell q s = Ok c s1 ->
  s1 = s /\ exists a, nth_error (s_arrs s) (rf_slot q) = Some (Some a) /\ a_base a = PBlk (fst c) /\ snd c = rf_idx q
                      /\ Z.of_nat (rf_idx q) < nel a.
Proof.
  intros H. unfold ref_cell in H. unfold bind at 1 in H.
  destruct (get_arr (rf_slot q) s) as [a s0|s0|e] eqn:E; try discriminate.
  apply get_arr_inv in E. destruct E as [-> Hg].
  destruct (Z.ltb_spec (Z.of_nat (rf_idx q)) (nel a)); [|discriminate].
  assert (Hn : nth_error (s_arrs s) (rf_slot q) = Some (Some a)).
  { unfold get_slot in Hg. destruct (nth_error (s_arrs s) (rf_slot q)) as [[a'|]|]; try discriminate. congruence. }
  unfold bind, base_blk in H. destruct (a_base a) as [|b] eqn:Eb; [discriminate|]. unfold ret in H.
  assert (Hc : c = (b, rf_idx q)) by congruence. assert (Hs : s1 = s) by congruence. subst c s1.
  split; auto. exists a. cbn. repeat split; auto.
Qed.

Ltac open_ref H c :=
  unfold bind at 1 in H;
  match type of H with context[ref_cell ?q ?s] =>
    let E := fresh "E" in destruct (ref_cell q s) as [c ?s1|?s1|?e] eqn:E; try discriminate;
    apply ref_cell_inv in E; destruct E as [-> (?aq & ?Hnq & ?Hbq & ?Hkq & ?Hiq)] end.

(* ---- constructors ---- *)
Lemma ctor0_sq s s' r al srcs : Inv [] s -> (r < length (s_arrs s))%nat -> srcs_old s srcs -> length srcs = 1%nat ->
  (p <- p_build cfg al (bnumel X0) 0 srcs ;; install r al p X0) s = Ok tt s' ->
  abs_state s' = upd_nth (abs_state s) r (Some (X0, map (src_val s) srcs)).
Proof.
  intros I Hr So Hl H. binv H p s1 E.
  apply p_build_built in E; auto.
  change (Some (X0, map (src_val s) srcs)) with (Some (norm_bx X0, map (src_val s) srcs)).
  eapply (build_install_abs cfg rank_pos); eauto. rewrite map_length. exact Hl.
Qed.

Lemma free_lt_len s r : Inv [] s -> free (s_arrs s) r -> (r < length (s_arrs s))%nat.
Proof. intros I [_ F]. apply nth_error_Some. congruence. Qed.

Lemma srcs_old_cell s t a b k : Inv [] s -> nth_error (s_arrs s) t = Some (Some a) -> a_base a = PBlk b -> 0 < nel a ->
  forall mk, (mk = SCell \/ mk = SMoveCell) -> srcs_old s [mk b k].
Proof.
  intros I Hn Hb Hp mk Hmk. destruct (arr_facts cfg s t a I (nth_slot _ _ _ Hn) Hp) as (b0 & Eb & Lt & _).
  assert (b0 = b) by congruence. subst b0. constructor; [|constructor].
  intros b' Hb'. destruct Hmk as [-> | ->]; cbn in Hb'; inv Hb'; auto.
Qed.

Lemma sq_ZBuf r a vals s s' : Good s -> dom_op0 (s_arrs s) (ZBuf r a vals) ->
  step0 cfg (ZBuf r a vals) s = Ok tt s' -> abs_state s' = vstep0 cfg (ZBuf r a vals) (abs_state s).
Proof.
  intros (I & W & T) D H. cbn [step0 dom_op0] in *. open_ctor H. cbv zeta in H. binv H p s1 E.
  apply p_build_built in E; [|apply (srcs_old_SVal cfg rank_pos)|].
  2:{ rewrite map_length. unfold bnumel, bx_sizes, numel. cbn. rewrite Z.mul_1_r, Nat2Z.id. reflexivity. }
  rewrite (map_src_val_SVal cfg rank_pos) in E. cbn [vstep0]. unfold vset.
  eapply (build_install_abs cfg rank_pos); eauto.
  unfold bnumel, bx_sizes, numel. cbn. rewrite Z.mul_1_r, Nat2Z.id. reflexivity.
Qed.

Lemma sq_ZCtorValue r a s s' : Good s -> dom_op0 (s_arrs s) (ZCtorValue r a) ->
  step0 cfg (ZCtorValue r a) s = Ok tt s' -> abs_state s' = vstep0 cfg (ZCtorValue r a) (abs_state s).
Proof.
  intros G D H. exact (sq_CtorSized cfg rank_pos r a X0 s s' G D H).
Qed.

Lemma sq_val_ctor r al v s s' : Good s -> free (s_arrs s) r ->
  (slot_free r ;;; p <- p_build cfg al (bnumel X0) 0 [SVal v] ;; install r al p X0) s = Ok tt s' ->
  abs_state s' = vset (abs_state s) r (v0 v).
Proof.
  intros (I & W & T) D H. unfold bind at 1 in H.
  destruct (slot_free r s) as [[] s1|s1|e] eqn:E; try discriminate. apply slot_free_lt in E. destruct E as [-> Hl].
  apply ctor0_sq in H; auto. constructor; [|constructor]. intros b Hb. discriminate.
Qed.

Lemma sq_ZCtorElem r a v s s' : Good s -> dom_op0 (s_arrs s) (ZCtorElem r a v) ->
  step0 cfg (ZCtorElem r a v) s = Ok tt s' -> abs_state s' = vstep0 cfg (ZCtorElem r a v) (abs_state s).
Proof. intros G D H. cbn [step0 dom_op0 vstep0] in *. eapply sq_val_ctor; eauto. Qed.
Lemma sq_ZCtorSingleton r v s s' : Good s -> dom_op0 (s_arrs s) (ZCtorSingleton r v) ->
  step0 cfg (ZCtorSingleton r v) s = Ok tt s' -> abs_state s' = vstep0 cfg (ZCtorSingleton r v) (abs_state s).
Proof. intros G D H. cbn [step0 dom_op0 vstep0] in *. eapply sq_val_ctor; eauto. Qed.
Lemma sq_ZCtorConv r a v s s' : Good s -> dom_op0 (s_arrs s) (ZCtorConv r a v) ->
  step0 cfg (ZCtorConv r a v) s = Ok tt s' -> abs_state s' = vstep0 cfg (ZCtorConv r a v) (abs_state s).
Proof. intros G D H. cbn [step0 dom_op0 vstep0] in *. eapply sq_val_ctor; eauto. Qed.

(* copy and move construction from a rank-0 array: the new object gets the source's value *)
Lemma sq_arr_ctor mk r t al s s' as_ : (mk = SCell \/ mk = SMoveCell) -> Good s -> free (s_arrs s) r -> live0 (s_arrs s) t as_ ->
  (p <- p_build cfg al (bnumel X0) 0 (one_cell as_ mk) ;; install r al p X0) s = Ok tt s' ->
  abs_state s' = vset (abs_state s) r (Some (vget (abs_state s) t)).
Proof.
  intros Hmk (I & W & T) D [[_ Lt] Z0] H.
  destruct (arr0_vals s t as_ I Lt Z0) as (b & v & Hb & Hv & So & Hg).
  rewrite (one_cell_eq as_ mk b Z0 Hb) in H.
  apply ctor0_sq in H; auto.
  - rewrite H, Hg. unfold vset. f_equal. f_equal. f_equal. cbn [map]. f_equal.
    destruct Hmk as [-> | ->]; cbn; rewrite Hv; reflexivity.
  - eapply free_lt_len; eauto.
  - eapply srcs_old_cell; eauto. rewrite (nel0 _ Z0). lia.
Qed.

Ltac open_arr_ctor H D :=
  destruct D as [?Df (?as_ & ?Ds)]; cbn [step0 vstep0] in *;
  unfold bind at 1 in H;
  match type of H with context[slot_free ?r ?s] =>
    let E := fresh "E" in destruct (slot_free r s) as [[] ?s1|?s1|?e] eqn:E; try discriminate;
    apply slot_free_lt in E; destruct E as [-> ?Hl] end;
  open_get H.

Lemma get_live0 s t a as_ : get_slot s t = Some a -> live0 (s_arrs s) t as_ -> a = as_.
Proof. intros Hg [[_ L] _]. unfold get_slot in Hg. rewrite L in Hg. congruence. Qed.

Lemma sq_ZCtorCopy r t s s' : Good s -> dom_op0 (s_arrs s) (ZCtorCopy r t) ->
  step0 cfg (ZCtorCopy r t) s = Ok tt s' -> abs_state s' = vstep0 cfg (ZCtorCopy r t) (abs_state s).
Proof.
  intros G D H. open_arr_ctor H D. rewrite (get_live0 _ _ _ _ Hg Ds) in *. eapply sq_arr_ctor with (mk := SCell); eauto.
Qed.
Lemma sq_ZCtorCopyAlloc r t a s s' : Good s -> dom_op0 (s_arrs s) (ZCtorCopyAlloc r t a) ->
  step0 cfg (ZCtorCopyAlloc r t a) s = Ok tt s' -> abs_state s' = vstep0 cfg (ZCtorCopyAlloc r t a) (abs_state s).
Proof.
  intros G D H. open_arr_ctor H D. rewrite (get_live0 _ _ _ _ Hg Ds) in *. eapply sq_arr_ctor with (mk := SCell); eauto.
Qed.
Lemma sq_ZCtorMove r t s s' : Good s -> dom_op0 (s_arrs s) (ZCtorMove r t) ->
  step0 cfg (ZCtorMove r t) s = Ok tt s' -> abs_state s' = vstep0 cfg (ZCtorMove r t) (abs_state s).
Proof.
  intros G D H. open_arr_ctor H D. rewrite (get_live0 _ _ _ _ Hg Ds) in *. eapply sq_arr_ctor with (mk := SMoveCell); eauto.
Qed.
Lemma sq_ZCtorMoveAlloc r t a s s' : Good s -> dom_op0 (s_arrs s) (ZCtorMoveAlloc r t a) ->
  step0 cfg (ZCtorMoveAlloc r t a) s = Ok tt s' -> abs_state s' = vstep0 cfg (ZCtorMoveAlloc r t a) (abs_state s).
Proof.
  intros G D H. open_arr_ctor H D. rewrite (get_live0 _ _ _ _ Hg Ds) in *. eapply sq_arr_ctor with (mk := SMoveCell); eauto.
Qed.

Lemma sq_ref_ctor r al q s s' : Good s -> free (s_arrs s) r -> ref_dom (s_arrs s) q ->
  (slot_free r ;;; c <- ref_cell q ;; p <- p_build cfg al (bnumel X0) 0 [SCell (fst c) (snd c)] ;; install r al p X0) s = Ok tt s' ->
  abs_state s' = vset (abs_state s) r (v0 (rval (abs_state s) q)).
Proof.
  intros (I & W & T) D Dq H. unfold bind at 1 in H.
  destruct (slot_free r s) as [[] s1|s1|e] eqn:E; try discriminate. apply slot_free_lt in E. destruct E as [-> Hl].
  open_ref H c. destruct c as [b k]. cbn [fst snd] in *. subst k.
  destruct (ref_vals s q aq b I Hnq Hbq Hiq) as (So & Hlt & Hr).
  apply ctor0_sq in H; auto.
  - rewrite H, Hr. reflexivity.
  - eapply srcs_old_cell with (mk := SCell); eauto. lia.
Qed.

Lemma sq_ZCtorRef r a q s s' : Good s -> dom_op0 (s_arrs s) (ZCtorRef r a q) ->
  step0 cfg (ZCtorRef r a q) s = Ok tt s' -> abs_state s' = vstep0 cfg (ZCtorRef r a q) (abs_state s).
Proof. intros G [D Dq] H. cbn [step0 vstep0] in *. eapply sq_ref_ctor; eauto. Qed.
Lemma sq_ZCtorMovedRef r a q s s' : Good s -> dom_op0 (s_arrs s) (ZCtorMovedRef r a q) ->
  step0 cfg (ZCtorMovedRef r a q) s = Ok tt s' -> abs_state s' = vstep0 cfg (ZCtorMovedRef r a q) (abs_state s).
Proof. intros G [D Dq] H. cbn [step0 vstep0] in *. eapply sq_ref_ctor; eauto. Qed.

(* ---- one cell written ---- *)
Lemma sq_put s s' t at_ b k v : Inv [] s -> nth_error (s_arrs s) t = Some (Some at_) -> a_base at_ = PBlk b ->
  Z.of_nat k < nel at_ -> mem_same s s' -> (forall b', bvals s' b' = wr (bvals s) b k v b') ->
  abs_state s' = vput (abs_state s) (mkref0 t k) v.
Proof.
  intros I Hn Hb Hk M V. assert (Hp : 0 < nel at_) by lia.
  rewrite (abs_of_cells s s' _ M V), <- (absf_bvals s). apply absf_put with (at_ := at_). apply (sole_owner_Inv cfg); auto.
Qed.

Lemma vput0 P r c v : (r < length P)%nat -> vget P r = (X0, [c]) -> vput P (mkref0 r 0) v = vset P r (v0 v).
Proof. intros Hr Hg. unfold vput. cbn [rf_slot rf_idx]. rewrite Hg. reflexivity. Qed.

Lemma slot_lt s r a : nth_error (s_arrs s) r = Some (Some a) -> (r < length (abs_state s))%nat.
Proof. intros H. rewrite abs_state_length. apply nth_error_Some. congruence. Qed.

(* assignment of one value into a rank-0 array *)
Lemma sq_assign_one s s' r ar b x v : Inv [] s -> nth_error (s_arrs s) r = Some (Some ar) -> is0 ar -> a_base ar = PBlk b ->
  src_val s x = v ->
  assign_loop cfg SAssignElem b [0%nat] [x] s = Ok tt s' -> abs_state s' = vset (abs_state s) r (v0 v).
Proof.
  intros I Hn Z0 Hb Hv H. apply assign_one_inv in H. destruct H as (M & V & _). rewrite Hv in V.
  destruct (arr0_vals s r ar I Hn Z0) as (b0 & c & Hb0 & _ & _ & Hg).
  rewrite (sq_put s s' r ar b 0 v I Hn Hb ltac:(rewrite (nel0 _ Z0); lia) M V).
  eapply vput0; eauto. eapply slot_lt; eauto.
Qed.

Lemma live0_nth A r a : live0 A r a -> nth_error A r = Some (Some a) /\ is0 a.
Proof. intros [[_ L] Z0]. auto. Qed.

Lemma sq_assign_all s s' r ar x v : Inv [] s -> nth_error (s_arrs s) r = Some (Some ar) -> is0 ar ->
  src_val s x = v -> assign_all cfg ar [x] s = Ok tt s' -> abs_state s' = vset (abs_state s) r (v0 v).
Proof.
  intros I Hn Z0 Hv H. destruct (arr0_vals s r ar I Hn Z0) as (b & c & Hb & _ & _ & _).
  rewrite (assign_all_eq cfg ar b [x] Z0 Hb) in H. eapply sq_assign_one; eauto.
Qed.

Lemma sq_assign_from_arr mk s s' r ar t at_ : (mk = SCell \/ mk = SMoveCell) -> Inv [] s ->
  nth_error (s_arrs s) r = Some (Some ar) -> is0 ar -> nth_error (s_arrs s) t = Some (Some at_) -> is0 at_ ->
  assign_all cfg ar (one_cell at_ mk) s = Ok tt s' -> abs_state s' = vset (abs_state s) r (Some (vget (abs_state s) t)).
Proof.
  intros Hmk I Hr Zr Ht Zt H.
  destruct (arr0_vals s t at_ I Ht Zt) as (b' & v & Hb' & Hv & _ & Hg).
  rewrite (one_cell_eq at_ mk b' Zt Hb') in H. rewrite Hg.
  eapply sq_assign_all; eauto. destruct Hmk as [-> | ->]; cbn; rewrite Hv; reflexivity.
Qed.

Lemma vset_self P r : nth_error P r = Some (Some (vget P r)) -> vset P r (Some (vget P r)) = P.
Proof. intros H. unfold vset. apply upd_nth_same_val. exact H. Qed.

Lemma nth_abs_slot s r a : nth_error (s_arrs s) r = Some (Some a) -> nth_error (abs_state s) r = Some (Some (vget (abs_state s) r)).
Proof. intros H. rewrite (vget_abs cfg rank_pos s r a H), abs_nth, H. reflexivity. Qed.

Lemma triple_at {T} (P : state -> Prop) (m : M T) Q QT s x s' : triple P m Q QT -> P s -> m s = Ok x s' -> Q x s'.
Proof. intros Tr HP E. specialize (Tr s HP). rewrite E in Tr. exact Tr. Qed.

Lemma dtor_abs s s' r a : Inv [] s -> nth_error (s_arrs s) r = Some (Some a) -> p_dtor cfg r s = Ok tt s' ->
  abs_state s' = vset (abs_state s) r None.
Proof.
  intros I Hn H. apply p_dtor_inv in H. destruct H as (a' & G & A & Len & B).
  assert (a' = a) by (rewrite (nth_slot _ _ _ Hn) in G; congruence). subst a'.
  unfold vset. eapply abs_upd1; [apply nth_error_Some; congruence|exact A|reflexivity|].
  intros q a0 Hq Hn0. eapply (frame_own cfg rank_pos); eauto.
Qed.


(* ---- two array objects exchange allocator and block: the two pool entries are exchanged ---- *)
Lemma swap_store_inv r t s s' ar at_ : nth_error (s_arrs s) r = Some (Some ar) -> nth_error (s_arrs s) t = Some (Some at_) ->
  swap_store r t s = Ok tt s' ->
  s_arrs s' = upd_nth (upd_nth (s_arrs s) r (Some (mkarr (a_alloc at_) (a_base at_) (a_exts ar) (a_first ar)))) t
                      (Some (mkarr (a_alloc ar) (a_base ar) (a_exts at_) (a_first at_))) /\ s_blocks s' = s_blocks s.
Proof.
  intros Hr Ht H. unfold swap_store in H. open_get H. open_get H.
  assert (a = ar) by (unfold get_slot in Hg; rewrite Hr in Hg; congruence).
  assert (a0 = at_) by (unfold get_slot in Hg0; rewrite Ht in Hg0; congruence). subst a a0.
  unfold bind in H. rewrite !set_arr_eq in H. inv H. split; reflexivity.
Qed.

Lemma swap_store_abs r t s s' ar at_ : nth_error (s_arrs s) r = Some (Some ar) -> is0 ar ->
  nth_error (s_arrs s) t = Some (Some at_) -> is0 at_ -> r <> t -> swap_store r t s = Ok tt s' ->
  abs_state s' = vset (vset (abs_state s) r (Some (vget (abs_state s) t))) t (Some (vget (abs_state s) r)).
Proof.
  intros Hr Zr Ht Zt Hne H. destruct (swap_store_inv r t s s' ar at_ Hr Ht H) as [HA HB].
  destruct Zr as [Er Fr]. destruct Zt as [Et Ft].
  unfold vset. eapply abs_upd2; eauto.
  - apply nth_error_Some. congruence.
  - apply nth_error_Some. congruence.
  - cbn [option_map]. f_equal. replace (a_exts ar) with (a_exts at_) by congruence. replace (a_first ar) with (a_first at_) by congruence.
    rewrite (abs_arr_realloc cfg rank_pos).
    rewrite (abs_arr_blocks_eq cfg rank_pos s s' at_ HB). symmetry. apply (vget_abs cfg rank_pos). exact Ht.
  - cbn [option_map]. f_equal. replace (a_exts at_) with (a_exts ar) by congruence. replace (a_first at_) with (a_first ar) by congruence.
    rewrite (abs_arr_realloc cfg rank_pos).
    rewrite (abs_arr_blocks_eq cfg rank_pos s s' ar HB). symmetry. apply (vget_abs cfg rank_pos). exact Hr.
  - intros q a _ _ _. apply (abs_arr_blocks_eq cfg rank_pos). exact HB.
Qed.

(* ---- copy / move assignment under a propagation trait: whichever way the allocators go, the value of the source arrives ---- *)
Lemma assign0_abs prop mk tmp r t s s' ar at_ : (mk = SCell \/ mk = SMoveCell) -> Inv [] s -> wf_slots (s_arrs s) ->
  length (s_arrs s) = NSLOTS ->
  nth_error (s_arrs s) r = Some (Some ar) -> is0 ar -> nth_error (s_arrs s) t = Some (Some at_) -> is0 at_ -> r <> t ->
  (tmp < NSLOTS)%nat -> nth_error (s_arrs s) tmp = Some None -> tmp <> r -> tmp <> t ->
  assign0 cfg prop mk tmp r t s = Ok tt s' ->
  abs_state s' = vset (abs_state s) r (Some (vget (abs_state s) t)).
Proof.
  intros Hmk I W Hlen Hr Zr Ht Zt Hne Htl Htmp Htr Htt H. unfold assign0 in H. open_get H. open_get H.
  assert (a = ar) by (unfold get_slot in Hg; rewrite Hr in Hg; congruence).
  assert (a0 = at_) by (unfold get_slot in Hg0; rewrite Ht in Hg0; congruence). subst a a0. clear Hg Hg0.
  destruct prop; [|eapply sq_assign_from_arr; eauto].
  destruct (alloc_eq cfg (a_alloc ar) (a_alloc at_)) eqn:Eal.
  - (* the allocator is replaced, the block stays *)
    unfold bind at 1 in H. destruct (p_set_alloc r (a_alloc at_) s) as [[] s1|?|?] eqn:E1; try discriminate.
    pose proof E1 as E1'. apply p_set_alloc_inv in E1'. destruct E1' as (ar0 & G0 & HA1 & HB1).
    assert (ar0 = ar) by (unfold get_slot in G0; rewrite Hr in G0; congruence). subst ar0.
    set (ar1 := mkarr (a_alloc at_) (a_base ar) (a_exts ar) (a_first ar)) in *.
    assert (Lr : (r < length (s_arrs s))%nat) by (apply nth_error_Some; congruence).
    assert (I1 : Inv [] s1).
    { unfold p_set_alloc in E1. open_get E1.
      assert (a = ar) by (unfold get_slot in Hg; rewrite Hr in Hg; congruence). subst a.
      rewrite set_arr_eq in E1. inv E1. apply (Inv_retag cfg rank_pos [] s r ar ar1); auto. }
    assert (Abs1 : abs_state s1 = abs_state s).
    { rewrite (abs_upd1 s s1 r (Some ar1) (Some (vget (abs_state s) r)) Lr HA1).
      - apply upd_nth_same_val. eapply nth_abs_slot; eauto.
      - cbn [option_map]. f_equal. unfold ar1. rewrite (abs_arr_realloc cfg rank_pos), (abs_arr_blocks_eq cfg rank_pos s s1 ar HB1).
        symmetry. apply (vget_abs cfg rank_pos). exact Hr.
      - intros q a _ _. apply (abs_arr_blocks_eq cfg rank_pos). exact HB1. }
    assert (H1r : nth_error (s_arrs s1) r = Some (Some ar1)) by (rewrite HA1; apply nth_upd_same; auto).
    assert (H1t : nth_error (s_arrs s1) t = Some (Some at_)) by (rewrite HA1, nth_upd_other; auto).
    change (assign_all cfg ar (cells_of mk at_)) with (assign_all cfg ar1 (one_cell at_ mk)) in H.
    rewrite <- Abs1. eapply sq_assign_from_arr; eauto.
  - (* a new block under the source's allocator; the old one leaves with the temporary *)
    set (A := s_arrs s) in *.
    destruct (arr0_vals s r ar I Hr Zr) as (br & cr & Hbr & Hvr & _ & Gr).
    destruct (arr0_vals s t at_ I Ht Zt) as (bt & ct & Hbt & Hvt & _ & Gt).
    assert (Ltmp : (tmp < length A)%nat) by (rewrite Hlen; exact Htl).
    binv H p s0 E1. unfold bind at 1 in H. destruct (install tmp (a_alloc at_) p X0 s0) as [[] s1|?|?] eqn:E2; try discriminate.
    assert (Ec : (p <- p_build cfg (a_alloc at_) (bnumel X0) 0 (one_cell at_ mk) ;; install tmp (a_alloc at_) p X0) s = Ok tt s1).
    { unfold bind. unfold one_cell. rewrite E1. exact E2. }
    assert (Fs : Forall (src_in A) (one_cell at_ mk)) by (unfold one_cell; eapply cells_of_src_in; eauto).
    assert (Hl1 : length (one_cell at_ mk) = 1%nat) by (rewrite (one_cell_eq at_ mk bt Zt Hbt); reflexivity).
    pose proof (triple_at _ _ _ _ s tt s1
                  (build_install_spec cfg rank_pos [] tmp (a_alloc at_) X0 0 (one_cell at_ mk) A
                     Htl ltac:(unfold slotA; rewrite Htmp; exact Logic.I) Fs (fun _ => Hl1))
                  (conj I eq_refl) Ec) as (I1 & p1 & HA1).
    set (tarr := with_bx (a_alloc at_) p1 X0) in *.
    assert (Ztm : is0 tarr) by (split; reflexivity).
    assert (H1r : nth_error (s_arrs s1) r = Some (Some ar)) by (rewrite HA1, nth_upd_other; auto).
    assert (H1m : nth_error (s_arrs s1) tmp = Some (Some tarr)) by (rewrite HA1; apply nth_upd_same; auto).
    assert (Abs1 : abs_state s1 = upd_nth (abs_state s) tmp (Some (X0, [ct]))).
    { rewrite (one_cell_eq at_ mk bt Zt Hbt) in Ec. rewrite (ctor0_sq s s1 tmp (a_alloc at_) [mk bt 0%nat] I Ltmp); auto.
      - cbn [map]. f_equal. f_equal. f_equal. destruct Hmk as [-> | ->]; cbn [src_val]; rewrite Hvt; reflexivity.
      - eapply (srcs_old_cell s t at_ bt 0 I Ht Hbt); auto. rewrite (nel0 _ Zt). lia. }
    unfold bind at 1 in H. destruct (swap_store r tmp s1) as [[] s2|?|?] eqn:E3; try discriminate.
    pose proof (swap_store_abs r tmp s1 s2 ar tarr H1r Zr H1m Ztm ltac:(auto) E3) as Abs2.
    pose proof (triple_at _ _ _ _ s1 tt s2 (swap_store_ok cfg (s_arrs s1) r tmp ar tarr H1r Zr H1m Ztm ltac:(auto))
                  (conj I1 eq_refl) E3) as (I2 & HA2).
    assert (H2m : nth_error (s_arrs s2) tmp = Some (Some (mkarr (a_alloc ar) (a_base ar) [] []))).
    { rewrite HA2. apply nth_upd_same. rewrite upd_nth_length, HA1, upd_nth_length. auto. }
    rewrite (dtor_abs s2 s' tmp _ I2 H2m H), Abs2, Abs1.
    set (P := abs_state s) in *.
    assert (LP : length P = NSLOTS) by (unfold P; rewrite abs_state_length; exact Hlen).
    assert (PT : nth_error P tmp = Some None) by (unfold P; rewrite abs_nth; fold A; rewrite Htmp; reflexivity).
    assert (Lr : (r < length P)%nat) by (unfold P; eapply slot_lt; eauto).
    assert (LT : (tmp < length P)%nat) by (rewrite LP; auto).
    unfold vset, vget. unfold vget in Gt.
    apply list_ext; [rewrite !upd_nth_length; auto|]. intros q.
    repeat (rewrite nth_upd_gen by (rewrite ?upd_nth_length; auto)).
    destruct (Nat.eqb_spec tmp q) as [<-|HqT].
    + destruct (Nat.eqb_spec r tmp); [congruence|]. auto.
    + destruct (Nat.eqb_spec r q) as [<-|Hqr]; auto.
      f_equal. f_equal. rewrite Nat.eqb_refl.
      destruct (nth_error P t) as [[vt|]|] eqn:Et; cbn in *; subst; auto.
Qed.

Lemma assign0_user_abs prop mk r t s s' ar at_ : (mk = SCell \/ mk = SMoveCell) -> Good s ->
  live0 (s_arrs s) r ar -> live0 (s_arrs s) t at_ -> r <> t ->
  assign0 cfg prop mk TMP1 r t s = Ok tt s' -> abs_state s' = vset (abs_state s) r (Some (vget (abs_state s) t)).
Proof.
  intros Hmk (I & W & T) Dr Dt Hne H.
  destruct (live0_nth _ _ _ Dr) as [Nr Zr]. destruct (live0_nth _ _ _ Dt) as [Nt Zt].
  destruct (tmp_ne_user cfg rank_pos r (proj1 (proj1 Dr))) as (N1 & _ & _).
  destruct (tmp_ne_user cfg rank_pos t (proj1 (proj1 Dt))) as (M1 & _ & _).
  pose proof T as (T1 & _ & _).
  eapply (assign0_abs prop mk TMP1 r t s s' ar at_); eauto.
  - eapply len_A; eauto.
  - unfold NSLOTS, TMP1. lia.
Qed.

Lemma sq_ZAssignCopy r t s s' : Good s -> dom_op0 (s_arrs s) (ZAssignCopy r t) ->
  step0 cfg (ZAssignCopy r t) s = Ok tt s' -> abs_state s' = vstep0 cfg (ZAssignCopy r t) (abs_state s).
Proof.
  intros G ((ar & Dr) & (at_ & Dt)) H. cbn [step0 vstep0] in *.
  destruct (live0_nth _ _ _ Dr) as [Nr Zr].
  destruct (Nat.eqb_spec r t) as [->|Hne].
  - open_get H. inv H. symmetry. apply vset_self. eapply nth_abs_slot; eauto.
  - eapply assign0_user_abs with (mk := SCell); eauto.
Qed.

Lemma upd_nth_one (c v : Z) : upd_nth [c] 0 v = [v].
Proof. reflexivity. Qed.

Lemma sq_ZAssignMove r t s s' : Good s -> dom_op0 (s_arrs s) (ZAssignMove r t) ->
  step0 cfg (ZAssignMove r t) s = Ok tt s' -> abs_state s' = vstep0 cfg (ZAssignMove r t) (abs_state s).
Proof.
  intros G ((ar & Dr) & (at_ & Dt)) H. cbn [step0 vstep0] in *.
  destruct (live0_nth _ _ _ Dr) as [Nr Zr].
  destruct (Nat.eqb_spec r t) as [->|Hne].
  - open_get H. inv H. symmetry. apply vset_self. eapply nth_abs_slot; eauto.
  - eapply assign0_user_abs with (mk := SMoveCell); eauto.
Qed.

Lemma sq_ZAssignElem r v s s' : Good s -> dom_op0 (s_arrs s) (ZAssignElem r v) ->
  step0 cfg (ZAssignElem r v) s = Ok tt s' -> abs_state s' = vstep0 cfg (ZAssignElem r v) (abs_state s).
Proof.
  intros (I & W & T) (ar & Dr) H. cbn [step0 vstep0] in *. destruct (live0_nth _ _ _ Dr) as [Nr Zr].
  open_get H. rewrite (get_live0 _ _ _ _ Hg Dr) in *. eapply sq_assign_all; eauto. reflexivity.
Qed.
Lemma sq_ZAssignConv r v s s' : Good s -> dom_op0 (s_arrs s) (ZAssignConv r v) ->
  step0 cfg (ZAssignConv r v) s = Ok tt s' -> abs_state s' = vstep0 cfg (ZAssignConv r v) (abs_state s).
Proof.
  intros (I & W & T) (ar & Dr) H. cbn [step0 vstep0] in *. destruct (live0_nth _ _ _ Dr) as [Nr Zr].
  open_get H. rewrite (get_live0 _ _ _ _ Hg Dr) in *. eapply sq_assign_all; eauto. reflexivity.
Qed.

Lemma sq_assign_ref r q s s' : Good s -> (exists ar, live0 (s_arrs s) r ar) -> ref_dom (s_arrs s) q ->
  (ar <- get_arr r ;; c <- ref_cell q ;; b <- base_blk ar ;; assign_loop cfg SAssignElem b [0%nat] [SCell (fst c) (snd c)]) s = Ok tt s' ->
  abs_state s' = vset (abs_state s) r (v0 (rval (abs_state s) q)).
Proof.
  intros (I & W & T) (ar & Dr) Dq H. destruct (live0_nth _ _ _ Dr) as [Nr Zr].
  open_get H. rewrite (get_live0 _ _ _ _ Hg Dr) in *. open_ref H c. destruct c as [b' k]. cbn [fst snd] in *. subst k.
  destruct (arr0_vals s r ar I Nr Zr) as (b & c & Hb & _ & _ & _).
  unfold bind at 1 in H. unfold base_blk in H. rewrite Hb in H. cbn [ret] in H.
  destruct (ref_vals s q aq b' I Hnq Hbq Hiq) as (So & Hlt & Hr).
  eapply sq_assign_one; eauto. cbn [src_val]. symmetry. exact Hr.
Qed.

Lemma sq_ZAssignRef r q s s' : Good s -> dom_op0 (s_arrs s) (ZAssignRef r q) ->
  step0 cfg (ZAssignRef r q) s = Ok tt s' -> abs_state s' = vstep0 cfg (ZAssignRef r q) (abs_state s).
Proof. intros G [Dr Dq] H. cbn [step0 vstep0] in *. eapply sq_assign_ref; eauto. Qed.
Lemma sq_ZAssignMovedRef r q s s' : Good s -> dom_op0 (s_arrs s) (ZAssignMovedRef r q) ->
  step0 cfg (ZAssignMovedRef r q) s = Ok tt s' -> abs_state s' = vstep0 cfg (ZAssignMovedRef r q) (abs_state s).
Proof. intros G [Dr Dq] H. cbn [step0 vstep0] in *. eapply sq_assign_ref; eauto. Qed.

Lemma sq_ZWrite r v s s' : Good s -> dom_op0 (s_arrs s) (ZWrite r v) ->
  step0 cfg (ZWrite r v) s = Ok tt s' -> abs_state s' = vstep0 cfg (ZWrite r v) (abs_state s).
Proof.
  intros (I & W & T) (ar & Dr) H. cbn [step0 vstep0] in *. destruct (live0_nth _ _ _ Dr) as [Nr Zr].
  open_get H. rewrite (get_live0 _ _ _ _ Hg Dr) in *.
  destruct (arr0_vals s r ar I Nr Zr) as (b & c & Hb & _ & _ & Hgv).
  unfold bind at 1 in H. unfold base_blk in H. rewrite Hb in H. cbn [ret] in H.
  apply assign1_mem in H. destruct H as (M & V & _).
  rewrite (sq_put s s' r ar b 0 v I Nr Hb ltac:(rewrite (nel0 _ Zr); lia) M V).
  eapply vput0; eauto. eapply slot_lt; eauto.
Qed.

Lemma sq_ZMoveOut r s s' : Good s -> dom_op0 (s_arrs s) (ZMoveOut r) ->
  step0 cfg (ZMoveOut r) s = Ok tt s' -> abs_state s' = vstep0 cfg (ZMoveOut r) (abs_state s).
Proof.
  intros (I & W & T) (ar & Dr) H. cbn [step0 vstep0] in *. destruct (live0_nth _ _ _ Dr) as [Nr Zr].
  open_get H. rewrite (get_live0 _ _ _ _ Hg Dr) in *.
  destruct (arr0_vals s r ar I Nr Zr) as (b & c & Hb & _ & _ & _).
  unfold bind at 1 in H. unfold base_blk in H. rewrite Hb in H. cbn [ret] in H.
  unfold bind at 1 in H. destruct (tick_elem cfg SAssignElem s) as [[] s1|?|?] eqn:E1; try discriminate.
  apply tick_elem_mem in E1. destruct E1 as [M1 V1].
  unfold bind at 1 in H. destruct (read1 cfg b 0 s1) as [v s1'|?|?] eqn:E2; try discriminate.
  apply read1_val in E2. destruct E2 as [-> _].
  apply mark_moved_mem in H. destruct H as [M2 V2].
  rewrite (abs_of_cells s s' (bvals s)); [apply absf_bvals|eapply mem_same_trans; eauto|].
  intros b'. rewrite V2, V1. reflexivity.
Qed.

Lemma sq_ZDestroy r s s' : Good s -> dom_op0 (s_arrs s) (ZDestroy r) ->
  step0 cfg (ZDestroy r) s = Ok tt s' -> abs_state s' = vstep0 cfg (ZDestroy r) (abs_state s).
Proof. intros G D H. exact (sq_Destroy cfg rank_pos r s s' G D H). Qed.

(* ---- through references ---- *)
Lemma sq_ref_assign q p s s' : Good s -> ref_dom (s_arrs s) q -> ref_dom (s_arrs s) p ->
  (c <- ref_cell q ;; d <- ref_cell p ;; assign_loop cfg SAssignElem (fst c) [snd c] [SCell (fst d) (snd d)]) s = Ok tt s' ->
  abs_state s' = vput (abs_state s) q (rval (abs_state s) p).
Proof.
  intros (I & W & T) Dq Dp H. open_ref H c. open_ref H d.
  destruct c as [b k]. destruct d as [b' k']. cbn [fst snd] in *. subst k k'.
  destruct (ref_vals s p aq0 b' I Hnq0 Hbq0 Hiq0) as (So' & Hlt' & Hr').
  apply assign_one_inv in H. destruct H as (M & V & _). cbn [src_val] in V. rewrite <- Hr' in V.
  destruct q as [t k]. cbn [rf_slot rf_idx] in *. eapply sq_put; eauto.
Qed.

Lemma sq_ZRefAssignRef q p s s' : Good s -> dom_op0 (s_arrs s) (ZRefAssignRef q p) ->
  step0 cfg (ZRefAssignRef q p) s = Ok tt s' -> abs_state s' = vstep0 cfg (ZRefAssignRef q p) (abs_state s).
Proof. intros G [Dq Dp] H. cbn [step0 vstep0] in *. eapply sq_ref_assign; eauto. Qed.
Lemma sq_ZRefAssignMoved q p s s' : Good s -> dom_op0 (s_arrs s) (ZRefAssignMoved q p) ->
  step0 cfg (ZRefAssignMoved q p) s = Ok tt s' -> abs_state s' = vstep0 cfg (ZRefAssignMoved q p) (abs_state s).
Proof. intros G [Dq Dp] H. cbn [step0 vstep0] in *. eapply sq_ref_assign; eauto. Qed.

Lemma sq_ZRefAssignElem q v s s' : Good s -> dom_op0 (s_arrs s) (ZRefAssignElem q v) ->
  step0 cfg (ZRefAssignElem q v) s = Ok tt s' -> abs_state s' = vstep0 cfg (ZRefAssignElem q v) (abs_state s).
Proof.
  intros (I & W & T) Dq H. cbn [step0 vstep0 dom_op0] in *. open_ref H c. destruct c as [b k]. cbn [fst snd] in *. subst k.
  apply assign_one_inv in H. destruct H as (M & V & _). cbn [src_val] in V.
  destruct q as [t k]. cbn [rf_slot rf_idx] in *. eapply sq_put; eauto.
Qed.

Lemma sq_ZRefWrite q v s s' : Good s -> dom_op0 (s_arrs s) (ZRefWrite q v) ->
  step0 cfg (ZRefWrite q v) s = Ok tt s' -> abs_state s' = vstep0 cfg (ZRefWrite q v) (abs_state s).
Proof.
  intros (I & W & T) Dq H. cbn [step0 vstep0 dom_op0] in *. open_ref H c. destruct c as [b k]. cbn [fst snd] in *. subst k.
  apply assign1_mem in H. destruct H as (M & V & _).
  destruct q as [t k]. cbn [rf_slot rf_idx] in *. eapply sq_put; eauto.
Qed.

(* two cells exchanged *)
Lemma sq_swap_cells s s' q p aq ap b b' : Inv [] s ->
  nth_error (s_arrs s) (rf_slot q) = Some (Some aq) -> a_base aq = PBlk b -> Z.of_nat (rf_idx q) < nel aq ->
  nth_error (s_arrs s) (rf_slot p) = Some (Some ap) -> a_base ap = PBlk b' -> Z.of_nat (rf_idx p) < nel ap ->
  swap_cells cfg b (rf_idx q) b' (rf_idx p) s = Ok tt s' ->
  abs_state s' = vput (vput (abs_state s) q (rval (abs_state s) p)) p (rval (abs_state s) q).
Proof.
  intros I Hnq Hbq Hiq Hnp Hbp Hip H.
  destruct (ref_vals s q aq b I Hnq Hbq Hiq) as (Soq & Hltq & Hrq).
  destruct (ref_vals s p ap b' I Hnp Hbp Hip) as (Sop & Hltp & Hrp).
  apply swap_cells_inv in H. destruct H as (M & V & _ & _). rewrite <- Hrq, <- Hrp in V.
  rewrite (abs_of_cells s s' _ M V).
  destruct q as [t k]. destruct p as [t' k']. cbn [rf_slot rf_idx] in *.
  rewrite (absf_put s _ t' ap b' k' _ Sop). rewrite (absf_put s _ t aq b k _ Soq). rewrite absf_bvals. reflexivity.
Qed.

Lemma sq_ZRefSwap q p s s' : Good s -> dom_op0 (s_arrs s) (ZRefSwap q p) ->
  step0 cfg (ZRefSwap q p) s = Ok tt s' -> abs_state s' = vstep0 cfg (ZRefSwap q p) (abs_state s).
Proof.
  intros (I & W & T) (Dq & Dp & Hne) H. cbn [step0 vstep0] in *. open_ref H c. open_ref H d.
  destruct c as [b k]. destruct d as [b' k']. cbn [fst snd] in *. subst k k'.
  destruct ((b =? b')%nat && (rf_idx q =? rf_idx p)%nat); [discriminate|].
  eapply sq_swap_cells; eauto.
Qed.

(* swapping two rank-0 arrays = exchanging the two pool entries *)
Lemma vput_swap0 P r t cr ct : r <> t -> (r < length P)%nat -> (t < length P)%nat ->
  vget P r = (X0, [cr]) -> vget P t = (X0, [ct]) ->
  vput (vput P (mkref0 r 0) ct) (mkref0 t 0) cr = vset (vset P r (v0 ct)) t (v0 cr).
Proof.
  intros Hne Hr Ht Gr Gt. rewrite (vput0 P r cr ct Hr Gr).
  assert (Gt' : vget (vset P r (v0 ct)) t = (X0, [ct])).
  { unfold vset, vget. rewrite nth_upd_other by auto. exact Gt. }
  rewrite (vput0 _ t ct cr); [|unfold vset; rewrite upd_nth_length; auto|exact Gt'].
  reflexivity.
Qed.

Lemma sq_ZSwapMember r t s s' : Good s -> dom_op0 (s_arrs s) (ZSwapMember r t) ->
  step0 cfg (ZSwapMember r t) s = Ok tt s' -> abs_state s' = vstep0 cfg (ZSwapMember r t) (abs_state s).
Proof.
  intros (I & W & T) (Hne & (ar & Dr) & (at_ & Dt)) H. cbn [step0 vstep0] in *.
  destruct (live0_nth _ _ _ Dr) as [Nr Zr]. destruct (live0_nth _ _ _ Dt) as [Nt Zt].
  open_get H. open_get H. rewrite (get_live0 _ _ _ _ Hg Dr), (get_live0 _ _ _ _ Hg0 Dt) in *.
  destruct (Nat.eqb_spec r t) as [->|_]; [contradiction|].
  destruct (c_pocs cfg).
  { eapply swap_store_abs; eauto. }
  destruct (arr0_vals s r ar I Nr Zr) as (b & cr & Hb & Hv & _ & Gr).
  destruct (arr0_vals s t at_ I Nt Zt) as (b' & ct & Hb' & Hv' & _ & Gt).
  unfold bind at 1 in H. unfold base_blk at 1 in H. rewrite Hb in H. cbn [ret] in H.
  unfold bind at 1 in H. unfold base_blk at 1 in H. rewrite Hb' in H. cbn [ret] in H.
  pose proof (sq_swap_cells s s' (mkref0 r 0) (mkref0 t 0) ar at_ b b' I Nr Hb ltac:(rewrite (nel0 _ Zr); cbn; lia)
                Nt Hb' ltac:(rewrite (nel0 _ Zt); cbn; lia) H) as E.
  rewrite E. unfold rval. cbn [rf_slot rf_idx]. rewrite Gr, Gt. cbn [snd nth].
  apply (vput_swap0 (abs_state s) r t cr ct); auto; eapply slot_lt; eauto.
Qed.


(* ---- using std::swap; swap(a, b) ---- *)
Lemma sq_ZSwap r t s s' : Good s -> dom_op0 (s_arrs s) (ZSwap r t) ->
  step0 cfg (ZSwap r t) s = Ok tt s' -> abs_state s' = vstep0 cfg (ZSwap r t) (abs_state s).
Proof.
  intros (I & W & T) (Hne & (ar & Dr) & (at_ & Dt)) H. cbn [step0 vstep0] in *.
  destruct (live0_nth _ _ _ Dr) as [Nr Zr]. destruct (live0_nth _ _ _ Dt) as [Nt Zt].
  open_get H. open_get H. pose proof (get_live0 _ _ _ _ Hg Dr). pose proof (get_live0 _ _ _ _ Hg0 Dt). subst a a0. clear Hg Hg0.
  destruct (Nat.eqb_spec r t) as [->|_]; [contradiction|].
  set (A := s_arrs s) in *.
  assert (Hlen : length A = NSLOTS) by (eapply len_A; eauto).
  pose proof T as (T1 & T2 & T3).
  destruct (tmp_ne_user cfg rank_pos r (proj1 (proj1 Dr))) as (N1 & _ & _).
  destruct (tmp_ne_user cfg rank_pos t (proj1 (proj1 Dt))) as (M1 & _ & _).
  assert (L1 : (TMP1 < length A)%nat) by (eapply nth_lt; eauto).
  destruct (arr0_vals s r ar I Nr Zr) as (br & cr & Hbr & Hvr & _ & Gr).
  destruct (arr0_vals s t at_ I Nt Zt) as (bt & ct & Hbt & Hvt & _ & Gt).
  (* T tmp(std::move(a)) *)
  binv H p s0 E1. unfold bind at 1 in H. destruct (install TMP1 (a_alloc ar) p X0 s0) as [[] s1|?|?] eqn:E2; try discriminate.
  assert (Ec : (p <- p_build cfg (a_alloc ar) (bnumel X0) 0 (one_cell ar SMoveCell) ;; install TMP1 (a_alloc ar) p X0) s = Ok tt s1).
  { unfold bind. rewrite E1. exact E2. }
  assert (Fs : Forall (src_in A) (one_cell ar SMoveCell)) by (eapply one_cell_src_in; eauto; apply Dr).
  assert (Hl1 : length (one_cell ar SMoveCell) = 1%nat) by (eapply (one_cell_length cfg rank_pos [] s A r); eauto).
  pose proof (triple_at _ _ _ _ s tt s1
                (build_install_spec cfg rank_pos [] TMP1 (a_alloc ar) X0 0 (one_cell ar SMoveCell) A
                   ltac:(unfold NSLOTS, TMP1; lia) ltac:(unfold slotA; rewrite T1; exact Logic.I) Fs (fun _ => Hl1))
                (conj I eq_refl) Ec) as (I1 & p1 & HA1).
  set (tarr := with_bx (a_alloc ar) p1 X0) in *.
  assert (Zt' : is0 tarr) by (split; reflexivity).
  assert (W1 : wf_slots (s_arrs s1)) by (rewrite HA1; apply wf_slots_upd; auto; intros a E; inv E; apply (wf_with_bx cfg rank_pos)).
  assert (H1r : nth_error (s_arrs s1) r = Some (Some ar)).
  { rewrite HA1, nth_upd by auto. destruct (Nat.eqb_spec TMP1 r); [congruence|exact Nr]. }
  assert (H1t : nth_error (s_arrs s1) t = Some (Some at_)).
  { rewrite HA1, nth_upd by auto. destruct (Nat.eqb_spec TMP1 t); [congruence|exact Nt]. }
  assert (H1m : nth_error (s_arrs s1) TMP1 = Some (Some tarr)) by (rewrite HA1, nth_upd by auto; rewrite Nat.eqb_refl; auto).
  assert (Abs1 : abs_state s1 = upd_nth (abs_state s) TMP1 (Some (X0, [cr]))).
  { rewrite (one_cell_eq ar SMoveCell br Zr Hbr) in Ec. rewrite (ctor0_sq s s1 TMP1 (a_alloc ar) [SMoveCell br 0%nat] I L1); auto.
    - cbn [map src_val]. rewrite Hvr. reflexivity.
    - eapply (srcs_old_cell s r ar br 0 I Nr Hbr); auto. rewrite (nel0 _ Zr). lia. }
  pose proof T as (_ & T2' & _).
  destruct (tmp_ne_user cfg rank_pos r (proj1 (proj1 Dr))) as (_ & N2 & _).
  destruct (tmp_ne_user cfg rank_pos t (proj1 (proj1 Dt))) as (_ & M2 & _).
  assert (L1' : length (s_arrs s1) = NSLOTS) by (rewrite HA1, upd_nth_length; auto).
  assert (H1f : nth_error (s_arrs s1) TMP2 = Some None).
  { rewrite HA1, nth_upd_other; [exact T2|unfold TMP1, TMP2; lia]. }
  assert (LT2 : (TMP2 < NSLOTS)%nat) by (unfold NSLOTS, TMP2; lia).
  assert (NT12 : TMP2 <> TMP1) by (unfold TMP1, TMP2; lia).
  (* a = std::move(b) *)
  unfold bind at 1 in H. destruct (assign0 cfg (c_pocma cfg) SMoveCell TMP2 r t s1) as [[] s2|?|?] eqn:E3; try discriminate.
  pose proof (triple_at _ _ _ _ s1 tt s2
                (assign0_spec cfg rank_pos (s_arrs s1) (c_pocma cfg) SMoveCell TMP2 r t ar at_ W1 L1' (or_intror eq_refl) H1r Zr H1t Zt
                   ltac:(auto) LT2 H1f ltac:(auto) ltac:(auto))
                (conj I1 eq_refl) E3) as (ar' & (Zr' & _) & I2 & HA2).
  pose proof (assign0_abs (c_pocma cfg) SMoveCell TMP2 r t s1 s2 ar at_ (or_intror eq_refl) I1 W1 L1' H1r Zr H1t Zt
                ltac:(auto) LT2 H1f ltac:(auto) ltac:(auto) E3) as Abs2.
  (* b = std::move(tmp) *)
  assert (W2 : wf_slots (s_arrs s2)) by (rewrite HA2; apply wf_slots_upd; auto; intros a E; inv E; apply wf_is0; auto).
  assert (L2 : length (s_arrs s2) = NSLOTS) by (rewrite HA2, upd_nth_length; auto).
  assert (H2t : nth_error (s_arrs s2) t = Some (Some at_)) by (rewrite HA2, nth_upd_other; auto).
  assert (H2m : nth_error (s_arrs s2) TMP1 = Some (Some tarr)) by (rewrite HA2, nth_upd_other; auto).
  assert (H2f : nth_error (s_arrs s2) TMP2 = Some None) by (rewrite HA2, nth_upd_other; auto).
  unfold bind at 1 in H. destruct (assign0 cfg (c_pocma cfg) SMoveCell TMP2 t TMP1 s2) as [[] s3|?|?] eqn:E5; try discriminate.
  pose proof (triple_at _ _ _ _ s2 tt s3
                (assign0_spec cfg rank_pos (s_arrs s2) (c_pocma cfg) SMoveCell TMP2 t TMP1 at_ tarr W2 L2 (or_intror eq_refl) H2t Zt H2m Zt'
                   ltac:(auto) LT2 H2f ltac:(auto) NT12)
                (conj I2 eq_refl) E5) as (at' & (Zt'' & _) & I3 & HA3).
  pose proof (assign0_abs (c_pocma cfg) SMoveCell TMP2 t TMP1 s2 s3 at_ tarr (or_intror eq_refl) I2 W2 L2 H2t Zt H2m Zt'
                ltac:(auto) LT2 H2f ltac:(auto) NT12 E5) as Abs3.
  (* ~tmp *)
  assert (H3m : nth_error (s_arrs s3) TMP1 = Some (Some tarr)) by (rewrite HA3, nth_upd_other; auto).
  rewrite (dtor_abs s3 s' TMP1 tarr I3 H3m H), Abs3, Abs2, Abs1.
  (* list bookkeeping: the pool entry of the temporary comes and goes *)
  set (P := abs_state s) in *.
  assert (LP : length P = NSLOTS) by (unfold P; rewrite abs_state_length; exact Hlen).
  assert (PT : nth_error P TMP1 = Some None) by (unfold P; rewrite abs_nth; fold A; rewrite T1; reflexivity).
  unfold vset, vget.
  assert (Lr : (r < length P)%nat) by (rewrite LP; destruct Dr as [[Hr _] _]; unfold NP, NSLOTS in *; lia).
  assert (Lt : (t < length P)%nat) by (rewrite LP; destruct Dt as [[Ht _] _]; unfold NP, NSLOTS in *; lia).
  assert (LT : (TMP1 < length P)%nat) by (rewrite LP; unfold NSLOTS, TMP1; lia).
  unfold vget in Gr, Gt.
  apply list_ext; [rewrite !upd_nth_length; auto|]. intros q.
  repeat (rewrite nth_upd_gen by (rewrite ?upd_nth_length; auto)).
  destruct (Nat.eqb_spec TMP1 q) as [<-|HqT].
  - destruct (Nat.eqb_spec t TMP1); [congruence|]. destruct (Nat.eqb_spec r TMP1); [congruence|]. auto.
  - destruct (Nat.eqb_spec t q) as [<-|Hqt].
    + f_equal. f_equal.
      repeat (rewrite nth_upd_gen by (rewrite ?upd_nth_length; auto)).
      rewrite Nat.eqb_refl. destruct (Nat.eqb_spec r TMP1); [congruence|].
      destruct (Nat.eqb_spec r t); [congruence|]. 
      destruct (nth_error P r) as [[vr|]|] eqn:Er; cbn in *; subst; auto.
    + destruct (Nat.eqb_spec r q) as [<-|Hqr]; auto.
      f_equal. f_equal.
      repeat (rewrite nth_upd_gen by (rewrite ?upd_nth_length; auto)).
      destruct (Nat.eqb_spec TMP1 t); [congruence|]. reflexivity.
Qed.

End R0Sq.

(* Operations that rearrange array objects: moves, swap, clear, destruction, reshape, element write,
   and the move assignment program shared by the assignment operators. *)
From BM Require Import Base.Tactics Model.Life Proofs.LifeBase Proofs.LifeMonad Proofs.LifeInv Proofs.LifeCells
  Proofs.LifeSteps Proofs.LifeCombi Proofs.LifeOps.
Local Open Scope Z_scope.

Section Ops2.
Variable cfg : config.
Hypothesis rank_pos : (1 <= c_rank cfg)%nat.

Notation Inv := (Inv cfg).
Notation Good := (Good cfg).
Notation GoodT := (GoodT cfg).
Notation op_ok := (op_ok cfg).

Lemma no_held : forall (b : nat) (a' n : Z), In (b, a', n) (@nil (nat * Z * Z)) -> In b (@nil nat).
Proof. intros ? ? ? []. Qed.

Lemma clear_ok X A r a :
  nth_error A r = Some (Some a) ->
  triple (fun s => Inv X s /\ s_arrs s = A) (p_clear cfg r)
         (fun _ s' => Inv X s' /\ s_arrs s' = upd_nth A r (Some (empty_arr cfg (a_alloc a) (a_base a)))) (fun _ => False).
Proof.
  intros Hr. eapply triple_conseq; [apply (p_clear_spec cfg rank_pos X r a A [])| | |].
  - intros ? ? ? [].
  - intros s [I HA]. split; auto. split; auto. split; [unfold get_slot; rewrite HA, Hr; reflexivity|intros ? ? ? []].
  - intros _ s (I & HA & _). auto.
  - auto.
Qed.

Lemma dtor_ok X A r a :
  nth_error A r = Some (Some a) ->
  triple (fun s => Inv X s /\ s_arrs s = A) (p_dtor cfg r)
         (fun _ s' => Inv X s' /\ s_arrs s' = upd_nth A r None) (fun _ => False).
Proof.
  intros Hr. eapply triple_conseq; [apply (p_dtor_spec cfg rank_pos X r a A [])| | |].
  - intros ? ? ? [].
  - intros s [I HA]. split; auto. split; auto. split; [unfold get_slot; rewrite HA, Hr; reflexivity|intros ? ? ? []].
  - intros _ s (I & HA & _). auto.
  - auto.
Qed.

Lemma len_A X s A : Inv X s -> s_arrs s = A -> length A = NSLOTS.
Proof. intros I <-. apply I. Qed.

Lemma live_lt_len A r a : length A = NSLOTS -> live A r a -> (r < length A)%nat.
Proof. intros -> H. eapply live_lt; eauto. Qed.

(* weakening of "never throws" *)
Lemma triple_nothrow {T} (P : state -> Prop) (m : M T) Q QT :
  triple P m Q (fun _ => False) -> triple P m Q QT.
Proof. intros H. eapply triple_conseq; eauto. intros s []. Qed.

Lemma ok_Clear r : op_ok (OClear r).
Proof.
  intros A W T (ar & D). cbn [step]. apply triple_nothrow.
  eapply triple_post; [apply (clear_ok [] A r ar); apply D|].
  intros _ s [I HA]. eapply (Good_intro cfg); eauto.
  - apply wf_slots_upd; auto. intros a E; inv E. apply wf_empty.
  - eapply tmps_free_upd; eauto; apply D.
Qed.

Lemma ok_AssignIlEmpty r : op_ok (OAssignIlEmpty r).
Proof. exact (ok_Clear r). Qed.

Lemma ok_Destroy r : op_ok (ODestroy r).
Proof.
  intros A W T (ar & D). cbn [step]. apply triple_nothrow.
  eapply triple_post; [apply (dtor_ok [] A r ar); apply D|].
  intros _ s [I HA]. eapply (Good_intro cfg); eauto.
  - apply wf_slots_upd; auto. intros a E; discriminate.
  - eapply tmps_free_upd; eauto; apply D.
Qed.

(* an array object changes its extensions (same element count) or its allocator (to an equal one), keeping its block *)
Lemma Inv_retag X s r ar ar' :
  Inv X s -> get_slot s r = Some ar -> nel ar' = nel ar -> a_base ar' = a_base ar ->
  alloc_eq cfg (a_alloc ar) (a_alloc ar') = true ->
  Inv X (set_slot s r (Some ar')).
Proof.
  intros I Hs Hn Hb Hal.
  assert (Hrl := get_slot_lt _ _ _ Hs).
  assert (Hr : (r < NSLOTS)%nat) by (rewrite <- (inv_nslots _ _ _ I); auto).
  destruct (Z.leb_spec (nel ar) 0) as [Hz|Hp].
  - apply Inv_set_nonowning; auto. + rewrite Hs. exact Hz. + unfold nonowning. lia.
  - destruct (inv_arr _ _ _ I r ar Hs Hp) as (b & blk & Hbb & Hblk & Hlv & Hsz & Ho & Hok).
    rewrite <- (set_slot_twice s r None (Some ar')).
    eapply Inv_own with (b := b) (blk := blk); auto.
    + apply (Inv_unown cfg X s r ar b None I Hs Hp Hbb). exact Logic.I.
    + rewrite get_slot_set_slot by auto. rewrite Nat.eqb_refl. exact Logic.I.
    + lia.
    + congruence.
    + congruence.
    + eapply alloc_eq_trans; eauto.
Qed.

Lemma free_live_ne A r t at_ : free A r -> live A t at_ -> r <> t.
Proof. intros [_ H1] [_ H2] ->. congruence. Qed.

Lemma ok_CtorMove r t : op_ok (OCtorMove r t).
Proof.
  intros A W T [D (at_ & Dt)]. cbn [step]. apply bind_slot_free; [apply D|]. eapply bind_get_arr; [apply Dt|].
  intros s [I HA]. unfold bind. rewrite !set_arr_eq.
  assert (Hne : r <> t) by (eapply free_live_ne; eauto).
  assert (Hlen := len_A _ _ _ I HA).
  eapply (Good_intro cfg) with (A := upd_nth (upd_nth A r (Some (mkarr (a_alloc at_) (a_base at_) (a_exts at_) (a_first at_)))) t
                                       (Some (empty_arr cfg (a_alloc at_) PNull))).
  - apply Inv_move; auto.
    + unfold get_slot. rewrite HA. destruct Dt as [_ ->]. reflexivity.
    + eapply free_lt; eauto.
    + rewrite (get_slot_A _ _ _ HA), (free_slot _ _ D). exact Logic.I.
    + apply alloc_eq_refl.
    + unfold nonowning. rewrite nel_empty; auto. lia.
  - cbn. rewrite HA. reflexivity.
  - apply wf_slots_upd; [apply wf_slots_upd; auto|].
    + intros a E; inv E. apply (W t at_). apply Dt.
    + intros a E; inv E. apply wf_empty.
  - eapply tmps_free_upd; eauto; [apply Dt|]. eapply tmps_free_upd; eauto; apply D.
Qed.

Lemma ok_Swap r t : op_ok (OSwap r t).
Proof.
  intros A W T (ar & at_ & Dr & Dt & Dal). cbn [step]. eapply bind_get_arr; [apply Dr|]. eapply bind_get_arr; [apply Dt|].
  destruct (Nat.eqb_spec r t) as [->|Hne].
  - intros s [I HA]. cbn. split; auto. rewrite HA. auto.
  - intros s [I HA]. unfold bind. rewrite !set_arr_eq.
    eapply (Good_intro cfg) with (A := upd_nth (upd_nth A r (Some (mkarr (if c_pocs cfg then a_alloc at_ else a_alloc ar) (a_base at_) (a_exts at_) (a_first at_)))) t
                                       (Some (mkarr (if c_pocs cfg then a_alloc ar else a_alloc at_) (a_base ar) (a_exts ar) (a_first ar)))).
    + apply Inv_swap; auto.
      * unfold get_slot. rewrite HA. destruct Dr as [_ ->]. reflexivity.
      * unfold get_slot. rewrite HA. destruct Dt as [_ ->]. reflexivity.
      * destruct (c_pocs cfg); [apply alloc_eq_refl|]. destruct Dal as [|Dal]; [discriminate|]. rewrite alloc_eq_sym. exact Dal.
      * destruct (c_pocs cfg); [apply alloc_eq_refl|]. destruct Dal as [|Dal]; [discriminate|]. exact Dal.
    + cbn. rewrite HA. reflexivity.
    + apply wf_slots_upd; [apply wf_slots_upd; auto|].
      * intros a E; inv E. apply (W t at_). apply Dt.
      * intros a E; inv E. apply (W r ar). apply Dr.
    + eapply tmps_free_upd; eauto; [apply Dt|]. eapply tmps_free_upd; eauto; apply Dr.
Qed.

Lemma ok_Reshape r x : op_ok (OReshape r x).
Proof.
  intros A W T (ar & Dr & Dn). cbn [step]. eapply bind_get_arr; [apply Dr|].
  rewrite Dn, Z.eqb_refl. intros s [I HA]. rewrite set_arr_eq.
  eapply (Good_intro cfg) with (A := upd_nth A r (Some (with_bx (a_alloc ar) (a_base ar) x))).
  - eapply Inv_retag with (ar := ar); auto.
    + unfold get_slot. rewrite HA. destruct Dr as [_ ->]. reflexivity.
    + rewrite nel_with_bx. exact Dn.
    + apply alloc_eq_refl.
  - cbn. rewrite HA. reflexivity.
  - apply wf_slots_upd; auto. intros a E; inv E. apply (wf_with_bx cfg); auto.
  - eapply tmps_free_upd; eauto; apply Dr.
Qed.

Lemma ok_Write r k v : op_ok (OWrite r k v).
Proof.
  intros A W T (ar & Dr & Dk). cbn [step]. eapply bind_get_arr; [apply Dr|].
  destruct (Z.ltb_spec (Z.of_nat k) (nel ar)) as [_|]; [|lia].
  intros s [I HA].
  assert (Hs : get_slot s r = Some ar) by (unfold get_slot; rewrite HA; destruct Dr as [_ ->]; reflexivity).
  assert (Hp : 0 < nel ar) by lia.
  destruct (inv_arr _ _ _ I r ar Hs Hp) as (b & blk & Hb & Hblk & Hlv & Hsz & Hal & Hok).
  destruct (inv_blk _ _ _ I b blk Hblk) as [[_ Hlen] _].
  unfold bind, base_blk. rewrite Hb. cbn [ret].
  assert (Ai : allinit cfg s b (nnel ar)).
  { exists blk. repeat split; auto. unfold nnel. rewrite Hlen, Hsz. reflexivity. }
  destruct (assign1_spec cfg rank_pos [b] s s b (nnel ar) k v (or_introl eq_refl) (st_le_refl cfg [b] s) Ai) as (s' & E & L & (blk' & Hb' & _ & _ & Hok')).
  { unfold nnel. lia. }
  rewrite E. eapply (Good_intro cfg) with (A := A); auto.
  - eapply Inv_st_le; [exact I|exact L|]. intros b' [<-|[]]. right. intros blk2 H2. assert (blk2 = blk') by congruence. subst; auto.
  - destruct L as (EA & _). congruence.
Qed.

(* ---- lookups in updated pools ---- *)
Lemma nth_upd A (r q : nat) (o : option arr) : (r < length A)%nat ->
  nth_error (upd_nth A r o) q = if (r =? q)%nat then Some o else nth_error A q.
Proof.
  intros H. destruct (Nat.eqb_spec r q) as [<-|Hne]; [apply nth_upd_same; auto|apply nth_upd_other; auto].
Qed.

Definition same_except (A A' : list (option arr)) (L : list nat) : Prop :=
  length A' = length A /\ forall q, ~ In q L -> nth_error A' q = nth_error A q.

Lemma wf_slots_same A A' L : wf_slots A -> same_except A A' L ->
  (forall q a, In q L -> nth_error A' q = Some (Some a) -> wf_arr a) -> wf_slots A'.
Proof.
  intros W [_ H] HL q a Hq. destruct (in_dec Nat.eq_dec q L) as [Hin|Hnin]; [eapply HL; eauto|].
  rewrite H in Hq by auto. eapply W; eauto.
Qed.

Lemma tmps_free_same A A' L : tmps_free A -> same_except A A' L -> (forall q, In q L -> (q < NP)%nat) -> tmps_free A'.
Proof.
  intros (H1 & H2 & H3) [_ H] HL. unfold tmps_free.
  rewrite !H; auto; intros Hin; apply HL in Hin; unfold NP, TMP1, TMP2, TMP3 in *; lia.
Qed.

(* p_adopt: r takes the block of t (t a temporary built with r's allocator), t is left empty *)
Lemma adopt_ok X A r t ar at_ :
  length A = NSLOTS -> nth_error A r = Some (Some ar) -> nth_error A t = Some (Some at_) -> r <> t ->
  nel ar <= 0 -> alloc_eq cfg (a_alloc at_) (a_alloc ar) = true ->
  triple (fun s => Inv X s /\ s_arrs s = A) (p_adopt cfg r t)
         (fun _ s' => Inv X s' /\
            s_arrs s' = upd_nth (upd_nth A r (Some (mkarr (a_alloc ar) (a_base at_) (a_exts at_) (a_first at_)))) t
                                (Some (empty_arr cfg (a_alloc at_) PNull)))
         (fun _ => False).
Proof.
  intros Hlen Hr Ht Hne Hz Hal. unfold p_adopt. eapply bind_get_arr; [exact Hr|]. eapply bind_get_arr; [exact Ht|].
  intros s [I HA]. unfold bind. rewrite !set_arr_eq. split; [|cbn; rewrite HA; reflexivity].
  apply Inv_move; auto.
  - unfold get_slot. rewrite HA, Ht. reflexivity.
  - rewrite <- Hlen. apply nth_error_Some. congruence.
  - unfold get_slot. rewrite HA, Hr. exact Hz.
  - unfold nonowning. rewrite nel_empty; auto. lia.
Qed.

Lemma nth_lt {T} (l : list T) n x : nth_error l n = Some x -> (n < length l)%nat.
Proof. intros H. apply nth_error_Some. congruence. Qed.

(* ---- array::operator=(array&&) as a program over two array objects and a scratch slot ---- *)
Lemma move_assign_ok A tmp r t ar at_ :
  length A = NSLOTS -> wf_slots A ->
  nth_error A r = Some (Some ar) -> nth_error A t = Some (Some at_) -> nth_error A tmp = Some None ->
  tmp <> r -> tmp <> t ->
  triple (fun s => Inv [] s /\ s_arrs s = A) (move_assign cfg tmp r t)
    (fun _ s' => Inv [] s' /\ exists A', s_arrs s' = A' /\ same_except A A' [r; t] /\
                  (forall q a, (q = r \/ q = t) -> nth_error A' q = Some (Some a) -> wf_arr a) /\
                  (exists a, nth_error A' r = Some (Some a)) /\ (exists a, nth_error A' t = Some (Some a)))
    (fun s' => (Inv [] s' /\ s_arrs s' = A) \/ bad_thrown s').
Proof.
  intros Hlen W Hr Ht Htmp Htr Htt. unfold move_assign.
  assert (Lr := nth_lt _ _ _ Hr). assert (Lt := nth_lt _ _ _ Ht). assert (Ltmp := nth_lt _ _ _ Htmp).
  assert (Wt : wf_arr at_) by (eapply W; eauto).
  destruct (Nat.eqb_spec r t) as [->|Hne].
  { intros s [I HA]. cbn. split; auto. exists A. split; auto. split; [split; auto|]. split; [|split; eauto].
    intros q a _ Hq. eapply W; eauto. }
  eapply bind_get_arr; [exact Hr|]. eapply bind_get_arr; [exact Ht|].
  destruct (negb (c_pocma cfg) && negb (c_ae cfg) && negb (a_alloc ar =? a_alloc at_)) eqn:Econd.
  - (* unequal, non-propagating: the elements are moved into storage of r's allocator *)
    rewrite <- (bnumel_arr_bx cfg rank_pos _ Wt).
    apply triple_pure with (F := 0 < nel at_ -> length (cells_of SMoveCell at_) = Z.to_nat (nel at_)).
    { intros s [I HA] Hp. eapply cells_of_length; eauto. }
    intros Hcl.
    set (tarr := fun p => with_bx (a_alloc ar) p (arr_bx at_)).
    eapply triple_bind.
    { eapply triple_conseq; [apply (p_build_spec cfg rank_pos [] (a_alloc ar) (bnumel (arr_bx at_)) 0 (cells_of SMoveCell at_) A)| | |].
      - eapply cells_of_src_in; eauto.
      - rewrite (bnumel_arr_bx cfg rank_pos _ Wt). exact Hcl.
      - auto.
      - intros p s H. exact H.
      - intros s [HA [[I Th]|Th]]; [left; auto|right; left; auto]. }
    intros p.
    set (A1 := upd_nth A tmp (Some (tarr p))).
    eapply triple_bind with (Q := fun _ s => Inv [] s /\ s_arrs s = A1).
    { apply triple_nothrow. eapply triple_conseq; [apply (install_spec cfg [] tmp (a_alloc ar) (arr_bx at_) A p)| | |]; auto.
      - rewrite <- Hlen. exact Ltmp.
      - unfold slotA. rewrite Htmp. exact I. }
    intros _.
    assert (H1t : nth_error A1 t = Some (Some at_)) by (unfold A1; rewrite nth_upd by auto; destruct (Nat.eqb_spec tmp t); [congruence|auto]).
    set (A2 := upd_nth A1 t (Some (empty_arr cfg (a_alloc at_) (a_base at_)))).
    eapply triple_bind with (Q := fun _ s => Inv [] s /\ s_arrs s = A2).
    { apply triple_nothrow. apply (clear_ok [] A1 t at_ H1t). }
    intros _.
    assert (L1 : length A1 = length A) by (unfold A1; apply upd_nth_length).
    assert (L2 : length A2 = length A) by (unfold A2; rewrite upd_nth_length; auto).
    assert (H2r : nth_error A2 r = Some (Some ar)).
    { unfold A2. rewrite nth_upd by lia. destruct (Nat.eqb_spec t r); [congruence|].
      unfold A1. rewrite nth_upd by auto. destruct (Nat.eqb_spec tmp r); [congruence|auto]. }
    set (er := empty_arr cfg (a_alloc ar) (a_base ar)).
    set (A3 := upd_nth A2 r (Some er)).
    eapply triple_bind with (Q := fun _ s => Inv [] s /\ s_arrs s = A3).
    { apply triple_nothrow. apply (clear_ok [] A2 r ar H2r). }
    intros _.
    assert (L3 : length A3 = length A) by (unfold A3; rewrite upd_nth_length; auto).
    assert (H3r : nth_error A3 r = Some (Some er)) by (unfold A3; rewrite nth_upd by lia; rewrite Nat.eqb_refl; auto).
    assert (H3tmp : nth_error A3 tmp = Some (Some (tarr p))).
    { unfold A3. rewrite nth_upd by lia. destruct (Nat.eqb_spec r tmp); [congruence|].
      unfold A2. rewrite nth_upd by lia. destruct (Nat.eqb_spec t tmp); [congruence|].
      unfold A1. rewrite nth_upd by auto. rewrite Nat.eqb_refl. auto. }
    set (rnew := mkarr (a_alloc er) (a_base (tarr p)) (a_exts (tarr p)) (a_first (tarr p))).
    set (A4 := upd_nth (upd_nth A3 r (Some rnew)) tmp (Some (empty_arr cfg (a_alloc (tarr p)) PNull))).
    eapply triple_bind with (Q := fun _ s => Inv [] s /\ s_arrs s = A4).
    { apply triple_nothrow. apply (adopt_ok [] A3 r tmp er (tarr p)); auto; try lia.
      - unfold er. rewrite nel_empty; auto. lia.
      - apply alloc_eq_refl. }
    intros _.
    assert (L4 : length A4 = length A) by (unfold A4; rewrite !upd_nth_length; auto).
    assert (H4tmp : nth_error A4 tmp = Some (Some (empty_arr cfg (a_alloc (tarr p)) PNull))).
    { unfold A4. rewrite nth_upd by (rewrite upd_nth_length; lia). rewrite Nat.eqb_refl. auto. }
    eapply triple_conseq; [apply (dtor_ok [] A4 tmp _ H4tmp)| | |]; auto; [|intros s []].
    intros _ s [I HA]. split; auto. exists (upd_nth A4 tmp None). split; auto.
    assert (Hlook : forall q, nth_error (upd_nth A4 tmp None) q =
                      if (tmp =? q)%nat then Some None else if (r =? q)%nat then Some (Some rnew)
                      else if (t =? q)%nat then Some (Some (empty_arr cfg (a_alloc at_) (a_base at_))) else nth_error A q).
    { intros q. rewrite nth_upd by lia. destruct (Nat.eqb_spec tmp q); auto.
      unfold A4. rewrite nth_upd by (rewrite upd_nth_length; lia). destruct (Nat.eqb_spec tmp q); [congruence|].
      rewrite nth_upd by lia. destruct (Nat.eqb_spec r q); auto.
      unfold A3. rewrite nth_upd by lia. destruct (Nat.eqb_spec r q); [congruence|].
      unfold A2. rewrite nth_upd by lia. destruct (Nat.eqb_spec t q); auto.
      unfold A1. rewrite nth_upd by lia. destruct (Nat.eqb_spec tmp q); [congruence|auto]. }
    split; [split; [rewrite upd_nth_length; auto|]|split; [|split]].
    + intros q Hq. rewrite Hlook. destruct (Nat.eqb_spec tmp q) as [<-|]; [auto|].
      destruct (Nat.eqb_spec r q); [exfalso; apply Hq; left; auto|]. destruct (Nat.eqb_spec t q); [exfalso; apply Hq; right; left; auto|auto].
    + intros q a Hq Hn. rewrite Hlook in Hn. destruct (Nat.eqb_spec tmp q); [discriminate|].
      destruct (Nat.eqb_spec r q); [inv Hn; apply (wf_with_bx cfg); auto|].
      destruct (Nat.eqb_spec t q); [inv Hn; apply wf_empty|]. destruct Hq; congruence.
    + exists rnew. rewrite Hlook. destruct (Nat.eqb_spec tmp r); [congruence|]. rewrite Nat.eqb_refl. auto.
    + eexists. rewrite Hlook. destruct (Nat.eqb_spec tmp t); [congruence|]. destruct (Nat.eqb_spec r t); [congruence|].
      rewrite Nat.eqb_refl. reflexivity.
  - (* the block is adopted *)
    set (er := empty_arr cfg (a_alloc ar) (a_base ar)).
    set (A1 := upd_nth A r (Some er)).
    eapply triple_bind with (Q := fun _ s => Inv [] s /\ s_arrs s = A1).
    { apply triple_nothrow. apply (clear_ok [] A r ar Hr). }
    intros _.
    assert (H1r : nth_error A1 r = Some (Some er)) by (unfold A1; rewrite nth_upd by auto; rewrite Nat.eqb_refl; auto).
    assert (H1t : nth_error A1 t = Some (Some at_)) by (unfold A1; rewrite nth_upd by auto; destruct (Nat.eqb_spec r t); [congruence|auto]).
    eapply bind_get_arr; [exact H1r|].
    set (al' := if c_pocma cfg then a_alloc at_ else a_alloc er).
    set (rnew := mkarr al' (a_base at_) (a_exts at_) (a_first at_)).
    set (et := empty_arr cfg (a_alloc at_) (a_base at_)).
    intros s [I HA]. unfold bind. rewrite !set_arr_eq.
    assert (Hal : alloc_eq cfg (a_alloc at_) al' = true).
    { unfold al'. destruct (c_pocma cfg) eqn:Ep; [apply alloc_eq_refl|]. cbn in Econd.
      unfold alloc_eq. destruct (c_ae cfg); cbn in *; auto.
      apply negb_false_iff in Econd. rewrite Z.eqb_sym. exact Econd. }
    split.
    + apply Inv_move; auto.
      * unfold get_slot. rewrite HA, H1t. reflexivity.
      * rewrite <- Hlen. exact Lr.
      * unfold get_slot. rewrite HA, H1r. unfold nonowning, er. rewrite nel_empty; auto. lia.
      * unfold nonowning, et. rewrite nel_empty; auto. lia.
    + exists (upd_nth (upd_nth A1 r (Some rnew)) t (Some et)). split; [cbn; rewrite HA; reflexivity|].
      assert (Hlook : forall q, nth_error (upd_nth (upd_nth A1 r (Some rnew)) t (Some et)) q =
                        if (t =? q)%nat then Some (Some et) else if (r =? q)%nat then Some (Some rnew) else nth_error A q).
      { intros q. rewrite nth_upd by (rewrite upd_nth_length; unfold A1; rewrite upd_nth_length; auto).
        destruct (Nat.eqb_spec t q); auto. rewrite nth_upd by (unfold A1; rewrite upd_nth_length; auto).
        destruct (Nat.eqb_spec r q); auto. unfold A1. rewrite nth_upd by auto. destruct (Nat.eqb_spec r q); [congruence|auto]. }
      split; [split; [rewrite !upd_nth_length; unfold A1; rewrite upd_nth_length; auto|]|split; [|split]].
      * intros q Hq. rewrite Hlook. destruct (Nat.eqb_spec t q); [exfalso; apply Hq; right; left; auto|].
        destruct (Nat.eqb_spec r q); [exfalso; apply Hq; left; auto|auto].
      * intros q a Hq Hn. rewrite Hlook in Hn. destruct (Nat.eqb_spec t q); [inv Hn; apply wf_empty|].
        destruct (Nat.eqb_spec r q); [inv Hn; exact Wt|]. destruct Hq; congruence.
      * exists rnew. rewrite Hlook. destruct (Nat.eqb_spec t r); [congruence|]. rewrite Nat.eqb_refl. auto.
      * exists et. rewrite Hlook. rewrite Nat.eqb_refl. auto.
Qed.

End Ops2.

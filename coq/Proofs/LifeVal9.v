(* Values: reextent.  Pure part: the element transfer of array::reextent (one assignment per index tuple of the
   intersection of the old and the new extensions, at the row-major offsets of the two layouts) produces exactly
   reext_vals.  Machine part: the commuting square of OReextent. *)
From BM Require Import Base.Tactics Model.Life Proofs.LifeBase Proofs.LifeMonad Proofs.LifeInv Proofs.LifeCells
  Proofs.LifeSteps Proofs.LifeCombi Proofs.LifeOps Proofs.LifeOps2 Proofs.LifeOffsets Proofs.LifeRefSpec Proofs.LifeDisc
  Proofs.LifeFacts Proofs.LifeAlloc
  Proofs.LifeVal1 Proofs.LifeVal2 Proofs.LifeVal3 Proofs.LifeVal4 Proofs.LifeVal5 Proofs.LifeVal6 Proofs.LifeVal7 Proofs.LifeVal8.
Local Open Scope Z_scope.

(* ---- writes at given positions ---- *)
Lemma nth_upd_nth_other {A} (l : list A) i j x d : i <> j -> nth j (upd_nth l i x) d = nth j l d.
Proof. revert i j; induction l as [|a l IH]; intros [|i] [|j] H; cbn; auto; try congruence. Qed.

Lemma nth_upd_nth_same {A} (l : list A) i x d : (i < length l)%nat -> nth i (upd_nth l i x) d = x.
Proof. revert i; induction l as [|a l IH]; intros [|i] H; cbn in *; try lia; auto. apply IH. lia. Qed.

Lemma put_list_other : forall offs vs l k dd, ~ In k offs -> nth k (put_list l offs vs) dd = nth k l dd.
Proof.
  induction offs as [|o offs IH]; intros [|v vs] l k dd Hn; cbn; auto.
  rewrite IH by (intro; apply Hn; right; auto). apply nth_upd_nth_other. intros ->. apply Hn. left; auto.
Qed.

Lemma put_list_hit {A} (f : A -> nat) (g : A -> Z) : forall I l a dd,
  In a I -> (forall a', In a' I -> f a' = f a -> g a' = g a) -> (f a < length l)%nat ->
  nth (f a) (put_list l (map f I) (map g I)) dd = g a.
Proof.
  induction I as [|a0 I IH]; intros l a dd Hin Hg Hl; [destruct Hin|]. cbn [map put_list].
  destruct (in_dec Nat.eq_dec (f a) (map f I)) as [Hi|Hi].
  - apply in_map_iff in Hi. destruct Hi as (a' & Ef & Hi'). rewrite <- Ef. rewrite <- (Hg a' (or_intror Hi') Ef).
    apply IH; auto.
    + intros a'' Hi'' E''. rewrite (Hg a'' (or_intror Hi'')) by congruence. symmetry. apply Hg; auto. right; auto.
    + rewrite upd_nth_length. congruence.
  - rewrite put_list_other by auto. destruct Hin as [->|Hin].
    + apply nth_upd_nth_same. auto.
    + exfalso. apply Hi. apply in_map. auto.
Qed.

(* ---- index tuples ---- *)
Lemma flat_map_nil {A B} (l : list A) : flat_map (fun _ : A => @nil B) l = [].
Proof. induction l; cbn; auto. Qed.

Lemma all_idx_nil x : bnumel x <= 0 -> all_idx x = [].
Proof.
  induction x as [|[f n] x IH]; intros H.
  - unfold bnumel, numel in H. cbn in H. lia.
  - rewrite bnumel_cons in H. cbn [all_idx]. destruct (Z.leb_spec n 0) as [Hn|Hn].
    + replace (Z.to_nat n) with 0%nat by lia. reflexivity.
    + rewrite IH by nia. cbn [map]. apply flat_map_nil.
Qed.

Lemma nth_error_seq st m i : (i < m)%nat -> nth_error (seq st m) i = Some (st + i)%nat.
Proof. intros H. rewrite (nth_error_nth' _ 0%nat) by (rewrite seq_length; auto). rewrite seq_nth; auto. Qed.

Lemma all_idx_at x : forall k, (k < length (all_idx x))%nat ->
  exists idx, nth_error (all_idx x) k = Some idx /\ in_bx x idx = true /\ Z.to_nat (rowmajor x idx) = k.
Proof.
  induction x as [|[f n] x IH]; intros k Hk.
  - cbn in Hk. assert (k = 0%nat) by lia. subst k. exists []. cbn. auto.
  - cbn [all_idx] in *. set (L := length (all_idx x)) in *.
    set (g := fun i : nat => map (cons (f + Z.of_nat i)) (all_idx x)) in *.
    assert (HL : forall i, length (g i) = L) by (intros i; unfold g; apply map_length).
    unfold seqn in *. rewrite (flat_map_const_length g L HL) in Hk.
    assert (Lpos : (0 < L)%nat) by (destruct L; lia).
    assert (Hi : (k / L < Z.to_nat n)%nat) by (apply Nat.div_lt_upper_bound; lia).
    assert (Hj : (k mod L < L)%nat) by (apply Nat.mod_upper_bound; lia).
    assert (Ek : k = (k / L * L + k mod L)%nat) by (rewrite Nat.mul_comm; apply Nat.div_mod; lia).
    destruct (IH (k mod L)%nat Hj) as (idx' & N' & In' & Rm').
    exists ((f + Z.of_nat (k / L)) :: idx'). split; [|split].
    + rewrite Ek at 1. rewrite (nth_flat_map_const g L (seq 0 (Z.to_nat n)) (k / L) (k mod L) (k / L)%nat); auto.
      * unfold g. rewrite nth_error_map, N'. reflexivity.
      * apply nth_error_seq; auto.
    + cbn [in_bx]. rewrite In'. apply andb_true_intro. split; auto. apply andb_true_intro.
      split; [apply Z.leb_le; lia|apply Z.ltb_lt; lia].
    + cbn [rowmajor]. destruct (in_bx_numel x idx' In') as [EL _]. destruct (nth_all_idx x idx' In') as [[R0 _] _].
      rewrite <- EL. fold L. replace (f + Z.of_nat (k / L) - f) with (Z.of_nat (k / L)) by lia.
      rewrite Z2Nat.inj_add by nia. rewrite Z2Nat.inj_mul by lia. rewrite !Nat2Z.id, Rm'. lia.
Qed.

Lemma all_idx_in x idx : In idx (all_idx x) -> in_bx x idx = true.
Proof.
  intros H. apply In_nth_error in H. destruct H as [k Hk].
  assert (Hlt : (k < length (all_idx x))%nat) by (apply nth_error_Some; congruence).
  destruct (all_idx_at x k Hlt) as (idx0 & N0 & I0 & _). congruence.
Qed.

Lemma in_all_idx x idx : in_bx x idx = true -> In idx (all_idx x).
Proof. intros H. destruct (nth_all_idx x idx H) as [_ N]. eapply nth_error_In; eauto. Qed.

Lemma rowmajor_inj x a b : in_bx x a = true -> in_bx x b = true ->
  Z.to_nat (rowmajor x a) = Z.to_nat (rowmajor x b) -> a = b.
Proof.
  intros Ha Hb E. destruct (nth_all_idx x a Ha) as [_ Na]. destruct (nth_all_idx x b Hb) as [_ Nb]. congruence.
Qed.

Lemma in_bx_inter : forall a b idx, length a = length b -> in_bx (bx_inter a b) idx = in_bx a idx && in_bx b idx.
Proof.
  induction a as [|[fa sa] a IH]; intros [|[fb sb] b] idx Hl; try discriminate.
  - destruct idx; reflexivity.
  - rewrite bx_inter_cons. destruct idx as [|i idx]; [reflexivity|]. cbn [in_bx]. rewrite IH by (cbn in Hl; lia).
    set (A := in_bx a idx). set (B := in_bx b idx).
    assert (E : (Z.min (Z.max fa fb) (Z.min (fa + sa) (fb + sb)) <=? i) &&
                (i <? Z.min (Z.max fa fb) (Z.min (fa + sa) (fb + sb)) + (Z.min (fa + sa) (fb + sb) - Z.min (Z.max fa fb) (Z.min (fa + sa) (fb + sb))))
                = ((fa <=? i) && (i <? fa + sa)) && ((fb <=? i) && (i <? fb + sb))).
    { destruct (Z.leb_spec fa i), (Z.ltb_spec i (fa + sa)), (Z.leb_spec fb i), (Z.ltb_spec i (fb + sb)); cbn;
        try (apply andb_true_intro; split; [apply Z.leb_le|apply Z.ltb_lt]; lia);
        try (apply andb_false_iff; destruct (Z.leb_spec (Z.min (Z.max fa fb) (Z.min (fa + sa) (fb + sb))) i); [right; apply Z.ltb_ge; lia|left; reflexivity]). }
    rewrite E. destruct ((fa <=? i) && (i <? fa + sa)), ((fb <=? i) && (i <? fb + sb)), A, B; reflexivity.
Qed.

Lemma bx_inter_length a b : length a = length b -> length (bx_inter a b) = length a.
Proof. intros H. unfold bx_inter. rewrite map_length, combine_length. lia. Qed.

Lemma block_offsets_rowmajor : forall X is, length is = length X ->
  block_offsets (bx_sizes X) (bx_firsts X) is = map (rowmajor X) (all_idx is).
Proof.
  induction X as [|[f0 n0] X IH]; intros [|[i0 n] is] Hl; try discriminate; [reflexivity|].
  cbn [bx_sizes bx_firsts map fst snd block_offsets all_idx]. fold (bx_sizes X). fold (bx_firsts X).
  rewrite IH by (cbn in Hl; lia). unfold seqn. generalize (seq 0 (Z.to_nat n)). intros l.
  induction l as [|j l IHl]; cbn [flat_map map]; auto. rewrite map_app, IHl. f_equal.
  rewrite !map_map. apply map_ext. intros idx. cbn [rowmajor]. reflexivity.
Qed.

Lemma all_idx_len_nonneg x : Forall (fun p => 0 <= snd p) x -> length (all_idx x) = Z.to_nat (bnumel x).
Proof.
  intros H. rewrite all_idx_length. induction H as [|[f n] x Hn Hx IH]; [reflexivity|].
  cbn [fold_right snd] in *. rewrite IH, bnumel_cons. rewrite Z2Nat.inj_mul; auto.
  clear - Hx. induction Hx as [|[f n] x Hn Hx IH]; [unfold bnumel, numel; cbn; lia|]. rewrite bnumel_cons. cbn in Hn. nia.
Qed.

(* the element transfer of reextent *)
Lemma reext_pure e nx oldv d :
  length e = length nx -> Forall (fun p => 0 <= snd p) nx -> 0 < bnumel nx ->
  (0 < bnumel e -> length oldv = Z.to_nat (bnumel e)) ->
  (if bnumel (bx_inter e nx) <=? 0 then repeat d (Z.to_nat (bnumel nx))
   else put_list (repeat d (Z.to_nat (bnumel nx)))
          (map Z.to_nat (block_offsets (bx_sizes nx) (bx_firsts nx) (bx_inter e nx)))
          (map (fun o => nth (Z.to_nat o) oldv pat) (block_offsets (bx_sizes e) (bx_firsts e) (bx_inter e nx))))
  = reext_vals e oldv nx d.
Proof.
  intros Hl Hnn Hpos Hov. set (is := bx_inter e nx). set (N := Z.to_nat (bnumel nx)).
  assert (Lis : length is = length e) by (apply bx_inter_length; auto).
  assert (LN : length (all_idx nx) = N) by (apply all_idx_len_nonneg; auto).
  rewrite (block_offsets_rowmajor nx is) by congruence. rewrite (block_offsets_rowmajor e is) by congruence.
  rewrite !map_map.
  set (f := fun idx => Z.to_nat (rowmajor nx idx)). set (g := fun idx => nth (Z.to_nat (rowmajor e idx)) oldv pat).
  assert (Iis : forall idx, In idx (all_idx is) <-> in_bx e idx = true /\ in_bx nx idx = true).
  { intros idx. split.
    - intros H. apply all_idx_in in H. unfold is in H. rewrite in_bx_inter in H by auto. apply andb_prop in H. auto.
    - intros [H1 H2]. apply in_all_idx. unfold is. rewrite in_bx_inter by auto. rewrite H1, H2. auto. }
  apply nth_ext with (d := d) (d' := d).
  { unfold reext_vals. rewrite map_length, LN. destruct (bnumel is <=? 0); [apply repeat_length|].
    rewrite put_list_length. apply repeat_length. }
  intros k Hk.
  assert (HkN : (k < N)%nat).
  { destruct (bnumel is <=? 0); [rewrite repeat_length in Hk; auto|]. rewrite put_list_length, repeat_length in Hk. auto. }
  destruct (all_idx_at nx k ltac:(lia)) as (idx & Nk & Ik & Rk).
  unfold reext_vals. rewrite (nth_error_nth _ _ d (map_nth_error _ _ _ Nk)).
  destruct (in_bx e idx) eqn:Ie.
  - (* a common index tuple: the old value *)
    assert (Hin : In idx (all_idx is)) by (apply Iis; auto).
    assert (Pis : 0 < bnumel is).
    { apply all_idx_in in Hin. apply (in_bx_numel is idx Hin). }
    destruct (Z.leb_spec (bnumel is) 0); [lia|].
    rewrite <- Rk. change (Z.to_nat (rowmajor nx idx)) with (f idx).
    rewrite (put_list_hit f g (all_idx is) _ idx d Hin).
    + unfold g. apply nth_indep. destruct (nth_all_idx e idx Ie) as [[R0 R1] _]. rewrite Hov by lia. lia.
    + intros a' Ha' Ef. apply Iis in Ha'. destruct Ha' as [_ Ha']. rewrite (rowmajor_inj nx a' idx Ha' Ik Ef). auto.
    + rewrite repeat_length. unfold f. rewrite Rk. auto.
  - (* not in the old extensions: the fill value *)
    assert (Hd : nth k (repeat d N) d = d) by (apply nth_repeat).
    destruct (bnumel is <=? 0); [exact Hd|].
    rewrite put_list_other; [exact Hd|]. intros Hin. apply in_map_iff in Hin. destruct Hin as (a' & Ef & Ha').
    apply Iis in Ha'. destruct Ha' as [Ha1 Ha2]. unfold f in Ef. rewrite <- Rk in Ef.
    rewrite (rowmajor_inj nx a' idx Ha2 Ik Ef) in Ha1. congruence.
Qed.

Lemma collapse_nonneg l : Forall (fun n => 0 <= n) l -> Forall (fun n => 0 <= n) (collapse l).
Proof. induction 1 as [|n l Hn Hl IH]; cbn; constructor; auto. destruct (_ =? 0); lia. Qed.

Lemma norm_bx_nonneg x : Forall (fun p => 0 <= snd p) x -> Forall (fun p => 0 <= snd p) (norm_bx x).
Proof.
  intros H. apply Forall_map with (f := snd) (P := fun n => 0 <= n).
  destruct (mk_lengths x) as [Lf Ls]. destruct (combine_fst_snd (mk_firsts x) (mk_sizes x) ltac:(lia)) as [_ Es].
  unfold norm_bx. rewrite Es. unfold mk_sizes. apply collapse_nonneg. apply Forall_map. exact H.
Qed.

Section Val9.
Variable cfg : config.
Hypothesis rank_pos : (1 <= c_rank cfg)%nat.
Notation Inv := (Inv cfg).
Notation Good := (Good cfg).
Set Default Proof Using "cfg rank_pos".
(* BEGIN-NOTATIONS *)
Notation vget_abs := (LifeVal4.vget_abs cfg rank_pos). Notation slot_ok := (LifeVal4.slot_ok cfg rank_pos). Notation nth_get_slot := (LifeVal4.nth_get_slot cfg rank_pos). Notation abs_arr_blocks_eq := (LifeVal4.abs_arr_blocks_eq cfg rank_pos). Notation abs_arr_realloc := (LifeVal4.abs_arr_realloc cfg rank_pos). Notation abs_empty := (LifeVal4.abs_empty cfg rank_pos). Notation own_empty := (LifeVal4.own_empty cfg rank_pos). Notation avals_built := (LifeVal4.avals_built cfg rank_pos). Notation keeps_blk_eq := (LifeVal4.keeps_blk_eq cfg rank_pos). Notation built_step := (LifeVal4.built_step cfg rank_pos). Notation built_bsame := (LifeVal4.built_bsame cfg rank_pos). Notation build_install_abs := (LifeVal4.build_install_abs cfg rank_pos). Notation map_nth_seq := (LifeVal4.map_nth_seq cfg rank_pos). Notation cells_of_nil := (LifeVal4.cells_of_nil cfg rank_pos). Notation cells_of_length := (LifeVal4.cells_of_length cfg rank_pos). Notation cells_of_vals := (LifeVal4.cells_of_vals cfg rank_pos). Notation cells_of_blk := (LifeVal4.cells_of_blk cfg rank_pos). Notation cells_facts := (LifeVal4.cells_facts cfg rank_pos). Notation sq_CtorDefault := (LifeVal4.sq_CtorDefault cfg rank_pos). Notation dflt_fill := (LifeVal4.dflt_fill cfg rank_pos). Notation sq_CtorSized := (LifeVal4.sq_CtorSized cfg rank_pos). Notation map_src_val_SVal := (LifeVal4.map_src_val_SVal cfg rank_pos). Notation srcs_old_SVal := (LifeVal4.srcs_old_SVal cfg rank_pos). Notation repeat_SVal := (LifeVal4.repeat_SVal cfg rank_pos). Notation sq_CtorFill := (LifeVal4.sq_CtorFill cfg rank_pos). Notation copy_square := (LifeVal4.copy_square cfg rank_pos). Notation sq_CtorCopy := (LifeVal4.sq_CtorCopy cfg rank_pos). Notation sq_CtorCopyAlloc := (LifeVal4.sq_CtorCopyAlloc cfg rank_pos). Notation move_square := (LifeVal4.move_square cfg rank_pos). Notation free_live_ne := (LifeVal4.free_live_ne cfg rank_pos). Notation live_lt_len := (LifeVal4.live_lt_len cfg rank_pos). Notation sq_CtorMove := (LifeVal4.sq_CtorMove cfg rank_pos). Notation bvals_blocks_eq := (LifeVal4.bvals_blocks_eq cfg rank_pos). Notation bsame_blocks_eq := (LifeVal4.bsame_blocks_eq cfg rank_pos). Notation bsame_nil_own := (LifeVal4.bsame_nil_own cfg rank_pos). Notation sq_CtorMoveAlloc := (LifeVal4.sq_CtorMoveAlloc cfg rank_pos). Notation view_facts := (LifeVal4.view_facts cfg rank_pos). Notation sq_CtorView := (LifeVal4.sq_CtorView cfg rank_pos). Notation sq_CtorRange := (LifeVal4.sq_CtorRange cfg rank_pos). Notation sq_CtorConv := (LifeVal4.sq_CtorConv cfg rank_pos). Notation own_with_bx := (LifeVal4.own_with_bx cfg rank_pos). Notation upd_tmp_cancel := (LifeVal4.upd_tmp_cancel cfg rank_pos). Notation sq_CtorIl := (LifeVal4.sq_CtorIl cfg rank_pos).
Notation avals_direct := (LifeVal5.avals_direct cfg rank_pos). Notation frame_own := (LifeVal5.frame_own cfg rank_pos). Notation live_get := (LifeVal5.live_get cfg rank_pos). Notation sq_clear := (LifeVal5.sq_clear cfg rank_pos). Notation sq_Clear := (LifeVal5.sq_Clear cfg rank_pos). Notation sq_AssignIlEmpty := (LifeVal5.sq_AssignIlEmpty cfg rank_pos). Notation sq_Destroy := (LifeVal5.sq_Destroy cfg rank_pos). Notation vset_same_get := (LifeVal5.vset_same_get cfg rank_pos). Notation sq_Swap := (LifeVal5.sq_Swap cfg rank_pos). Notation sq_Reshape := (LifeVal5.sq_Reshape cfg rank_pos). Notation cell_step_bsame := (LifeVal5.cell_step_bsame cfg rank_pos). Notation sq_Write := (LifeVal5.sq_Write cfg rank_pos). Notation assign_all_square := (LifeVal5.assign_all_square cfg rank_pos).
Notation blk_step_bsame := (LifeVal6.blk_step_bsame cfg rank_pos). Notation dflt_after := (LifeVal6.dflt_after cfg rank_pos). Notation p_dtor_empty := (LifeVal6.p_dtor_empty cfg rank_pos). Notation sq_ReextentMove := (LifeVal6.sq_ReextentMove cfg rank_pos). Notation arr_live_inv := (LifeVal6.arr_live_inv cfg rank_pos). Notation own_live_lt := (LifeVal6.own_live_lt cfg rank_pos). Notation cells_live := (LifeVal6.cells_live cfg rank_pos). Notation own_cases := (LifeVal6.own_cases cfg rank_pos). Notation move_assign_eff := (LifeVal6.move_assign_eff cfg rank_pos).
Notation disj_slots := (LifeVal7.disj_slots cfg rank_pos). Notation slots9 := (LifeVal7.slots9 cfg rank_pos). Notation sq_AssignMove := (LifeVal7.sq_AssignMove cfg rank_pos). Notation tmp2_route := (LifeVal7.tmp2_route cfg rank_pos). Notation tmp1_route := (LifeVal7.tmp1_route cfg rank_pos).
Notation nel_bx := (LifeVal8.nel_bx cfg rank_pos). Notation bx_eq_normal := (LifeVal8.bx_eq_normal cfg rank_pos). Notation sq_AssignCopy := (LifeVal8.sq_AssignCopy cfg rank_pos). Notation sq_AssignView := (LifeVal8.sq_AssignView cfg rank_pos). Notation bx_sizes_arr := (LifeVal8.bx_sizes_arr cfg rank_pos). Notation bx_sizes_zb := (LifeVal8.bx_sizes_zb cfg rank_pos). Notation tl_combine := (LifeVal8.tl_combine cfg rank_pos). Notation same_shape_numel := (LifeVal8.same_shape_numel cfg rank_pos). Notation sq_AssignRange := (LifeVal8.sq_AssignRange cfg rank_pos). Notation sq_AssignFill := (LifeVal8.sq_AssignFill cfg rank_pos). Notation sq_AssignConv := (LifeVal8.sq_AssignConv cfg rank_pos).
(* END-NOTATIONS *)
Notation val_dom := (val_dom cfg).
Notation pool_ok := (pool_ok cfg).

Lemma blk_step_trans b s1 s2 s3 V V' : blk_step b s1 s2 V -> blk_step b s2 s3 V' -> blk_step b s1 s3 V'.
Proof.
  intros [A1 L1 Lv1 O1 H1] [A2 L2 Lv2 O2 H2]. constructor.
  - congruence.
  - congruence.
  - intros b'. rewrite Lv2. auto.
  - intros b' Hb. rewrite O2, O1; auto.
  - auto.
Qed.

Lemma sq_Reextent r x fillv s s' : Good s -> pool_ok (abs_state s) -> dom_op cfg (s_arrs s) (OReextent r x fillv) ->
  val_dom (OReextent r x fillv) ->
  step cfg (OReextent r x fillv) s = Ok tt s' -> abs_state s' = vstep cfg (OReextent r x fillv) (abs_state s).
Proof.
  intros G P (ar & Lr & Dl) [Vl Vn] H. pose proof G as (I & W & T).
  destruct (live_get s r ar Lr) as (Gr & Hr & Hr6). pose proof Lr as [_ Nr].
  cbn [step] in H. open_get H. assert (a = ar) by congruence. subst a.
  cbn [vstep]. rewrite (vget_abs s r ar Nr), abs_arr_alt. destruct (bx_eq x (arr_bx ar)) eqn:Eq; [inv H; auto|].
  unfold vset. cbv zeta in H.
  set (e := arr_bx ar) in *. set (nx := norm_bx x) in *. set (n := bnumel x) in *. set (N := Z.to_nat n) in *.
  set (d := match fillv with Some v => v | None => dflt_val cfg end).
  set (is := bx_inter e nx) in *. set (oldv := avals s ar).
  pose proof (W r ar Nr) as Wf. destruct (bx_sizes_arr ar Wf) as [Es El].
  destruct (combine_sizes (a_first ar) (a_exts ar) Wf) as [_ Ef]. fold (arr_bx ar) in Ef. fold e in Es, El, Ef.
  assert (Lnx : length e = length nx).
  { rewrite El. unfold nx, norm_bx. destruct (mk_lengths x). rewrite combine_length. lia. }
  assert (Nnx : Forall (fun p => 0 <= snd p) nx) by (apply norm_bx_nonneg; auto).
  assert (Bnx : bnumel nx = n) by apply bnumel_norm_bx.
  assert (Hov : 0 < bnumel e -> length oldv = Z.to_nat (bnumel e)).
  { intros Hp. unfold e in Hp. rewrite (nel_bx ar Wf) in Hp.
    destruct (arr_facts cfg s r ar I Gr Hp) as (bo & Ebo & Lto & Lvo & Leno & _).
    unfold oldv, avals, e. rewrite Ebo, Lvo, (nel_bx ar Wf). destruct (Z.leb_spec (nel ar) 0); [lia|]. exact Leno. }
  binv H p s1 E1. apply alloc_built in E1. pose proof E1 as (A1 & B1 & Hp).
  binv H u s3 E3. destruct u.
  binv H u s4 E4. destruct u. apply release_inv in E4. destruct E4 as (A4 & L4 & B4).
  apply set_arr_inv in H. destruct H as [A5 K5].
  assert (M : s_arrs s3 = s_arrs s1 /\ length (s_blocks s3) = length (s_blocks s1) /\
              match p with
              | PNull => s3 = s1
              | PBlk b => blk_step b s1 s3 (reext_vals e oldv nx d)
              end).
  { destruct p as [|b]; [inv E3; auto|]. destruct Hp as (Hn & Eb & Len & Lv & Vs).
    binv E3 u s2 E2. destruct u.
    assert (F2 : blk_step b s1 s2 (repeat d N)).
    { destruct fillv as [v|].
      - rewrite repeat_SVal in E2. apply construct_loop_vals in E2.
        + rewrite map_src_val_SVal, Vs in E2. rewrite put_at_all in E2; auto. rewrite !repeat_length. auto.
        + apply Forall_forall. intros y Hy. apply in_map_iff in Hy. destruct Hy as (z & <- & _). cbn. discriminate.
      - apply dflt_after; auto. }
    pose proof (reext_pure e nx oldv d Lnx Nnx ltac:(lia) Hov) as RP. fold is in RP. rewrite Bnx in RP. fold N in RP.
    assert (F3 : blk_step b s2 s3 (reext_vals e oldv nx d)).
    { destruct (Z.leb_spec (bnumel is) 0) as [Hi|Hi].
      - inv E3. rewrite <- RP. destruct F2 as [A2 L2 Lv2 O2 H2]. rewrite <- H2. apply blk_step_refl.
      - destruct (inter_pos e nx Lnx Hi) as [Pe _]. unfold e in Pe. rewrite (nel_bx ar Wf) in Pe.
        destruct (arr_facts cfg s r ar I Gr Pe) as (bo & Ebo & Lto & Lvo & Leno & _).
        unfold base_blk in E3. rewrite Ebo in E3. cbn [bind ret] in E3. unfold bind, ret in E3.
        apply assign_loop_vals in E3.
        2:{ apply Forall_forall. intros y Hy. apply in_map_iff in Hy. destruct Hy as (z & <- & _). cbn. intros E'.
            assert (bo = b) by congruence. lia. }
        destruct F2 as [A2 L2 Lv2 O2 H2]. rewrite H2 in E3. rewrite <- RP. rewrite Es, Ef.
        replace (map (src_val s2) (map (fun o : Z => SCell bo (Z.to_nat o)) (block_offsets (a_exts ar) (a_first ar) is)))
          with (map (fun o : Z => nth (Z.to_nat o) oldv pat) (block_offsets (a_exts ar) (a_first ar) is)) in E3; [exact E3|].
        rewrite map_map. apply map_ext. intros o. cbn [src_val]. f_equal.
        rewrite O2 by lia. destruct B1 as [_ F1]. destruct (F1 bo Lto (fun f => f)) as [-> _].
        unfold oldv, avals. rewrite Ebo, Lvo. destruct (Z.leb_spec (nel ar) 0); [lia|]. reflexivity. }
    pose proof (blk_step_trans _ _ _ _ _ _ F2 F3) as F. destruct F as [A L _ _ _]. split; auto. split; auto.
    eapply blk_step_trans; eauto. }
  destruct M as (A3 & L3 & M).
  assert (A6 : s_arrs s' = upd_nth (s_arrs s) r (Some (with_bx (a_alloc ar) p x))) by congruence.
  assert (B6 : bsame (own ar) s s').
  { eapply bsame_blocks_eq; [|exact K5].
    assert (B13 : bsame [] s s3).
    { destruct p as [|b]; [subst s3; exact B1|]. destruct Hp as (Hn & Eb & Len & _).
      eapply bsame_weaken; [exact (bsame_trans _ _ _ _ _ B1 (blk_step_bsame _ _ _ _ M))|].
      intros b' Hin Hlt. cbn in Hin. destruct Hin as [<-|[]]. lia. }
    exact (bsame_trans _ _ _ _ _ B13 B4). }
  eapply abs_upd1; [exact Hr|exact A6| |].
  - cbn [option_map]. f_equal. rewrite abs_arr_alt, arr_bx_with. f_equal.
    eapply avals_direct with (p := p) (n := n); [|apply nel_with_bx|reflexivity|].
    + destruct p as [|b]; [destruct Hp; auto|]. destruct Hp as (Hn & Eb & Len & Lv & _). split; auto.
      destruct M as [_ _ Lv3 _ Here3].
      destruct (bvals_blocks_eq s4 s' K5 b) as [-> ->]. destruct B4 as [_ F4].
      destruct (F4 b) as [-> ->]; [lia| |].
      { intros Hin. apply (own_lt cfg s r ar b I Gr) in Hin. lia. }
      rewrite Lv3. auto.
    + unfold reext_vals. rewrite map_length. destruct (Z.leb_spec n 0) as [Hn|Hn].
      * rewrite all_idx_nil by lia. cbn. lia.
      * rewrite all_idx_len_nonneg by auto. rewrite Bnx. auto.
  - intros q a Hq Hnq. eapply frame_own; eauto.
Qed.

End Val9.

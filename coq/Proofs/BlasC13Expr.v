(* C13 -- the expression layer (Model/BlasC13Expr.v): decorations compose, the scalars of nested rescalings multiply,
   `=` overwrites and `+=` accumulates, `-=` negates, and every statement changes only the elements of the view it
   assigns.  All sizes, strides, bases, scalars and expression trees; the carrier is abstract (the ring laws that are
   used are the hypotheses of the Section and appear as premises of the theorems in Properties_C13.v). *)
From BM Require Import Base.Tactics Model.BlasC13 Model.BlasC13Ref Model.BlasC13Crit Model.BlasC13Spec Model.BlasC13L1 Model.BlasC13L1Ref
  Model.BlasC13L3 Model.BlasC13L3Crit Model.BlasC13TrsmRef Model.BlasC13Expr
  Proofs.BlasC13RefProofs Proofs.BlasC13Gemm Proofs.BlasC13GemmSites Proofs.BlasC13Gemv Proofs.BlasC13L1 Proofs.BlasC13L1Marsh Proofs.BlasC13Trsm Proofs.BlasC13RankK.
Local Open Scope Z_scope.
Local Open Scope bool_scope.

(* ------------------------------------------------------------------------------------------ *)
(* shapes, well-formedness and cells of decorated views (no carrier involved)                  *)
(* ------------------------------------------------------------------------------------------ *)
Lemma decos_mat_cons cplx d ds a : decos_mat cplx (d :: ds) a = decos_mat cplx ds (deco_mat cplx d a).
Proof. reflexivity. Qed.

Lemma wf_mat_rot a : wf_mat a -> wf_mat (rot_mat a).
Proof. unfold wf_mat, rot_mat. cbn [rows cols s0 s1]. intuition lia. Qed.
Lemma wf_mat_cnj cplx a : wf_mat a -> wf_mat (cnj_mat cplx a).
Proof. unfold cnj_mat, conj_mat. destruct cplx; [|exact (fun H => H)]. unfold wf_mat. cbn [rows cols s0 s1]. exact (fun H => H). Qed.
Lemma wf_mat_deco cplx d a : wf_mat a -> wf_mat (deco_mat cplx d a).
Proof. intro W. destruct d; cbn [deco_mat]; auto using wf_mat_rot, wf_mat_cnj. Qed.
Lemma wf_mat_decos cplx ds : forall a, wf_mat a -> wf_mat (decos_mat cplx ds a).
Proof. induction ds as [|d ds IH]; intros a W; [exact W|]. rewrite decos_mat_cons. apply IH, wf_mat_deco, W. Qed.

Lemma in_mat_rot a p : in_mat (rot_mat a) p <-> in_mat a p.
Proof.
  unfold in_mat, rot_mat, maddr. cbn [rows cols s0 s1 mbase].
  split; intros (i & j & Hi & Hj & E); exists j, i; (split; [lia|]); (split; [lia|]); lia.
Qed.
Lemma in_mat_cnj cplx a p : in_mat (cnj_mat cplx a) p <-> in_mat a p.
Proof. unfold cnj_mat. destruct cplx; [|tauto]. unfold in_mat, conj_mat, maddr. cbn [rows cols s0 s1 mbase]. tauto. Qed.
Lemma in_mat_deco cplx d a p : in_mat (deco_mat cplx d a) p <-> in_mat a p.
Proof.
  destruct d; cbn [deco_mat]; [tauto | apply in_mat_rot | apply in_mat_cnj |].
  rewrite in_mat_rot. apply in_mat_cnj.
Qed.
(* the decorated view has exactly the cells of the view it decorates *)
Lemma in_mat_decos cplx ds : forall a p, in_mat (decos_mat cplx ds a) p <-> in_mat a p.
Proof.
  induction ds as [|d ds IH]; intros a p; [tauto|]. rewrite decos_mat_cons, IH. apply in_mat_deco.
Qed.

(* shape and conjugation flag of a decorated view: only the parities of the decorations matter *)
Lemma decos_fold_tr ds : forall b, fold_left (fun b d => xorb b (deco_tr d)) ds b = xorb b (decos_tr ds).
Proof.
  unfold decos_tr. induction ds as [|d ds IH]; intro b; cbn [fold_left]; [destruct b; reflexivity|].
  rewrite (IH (xorb b (deco_tr d))), (IH (xorb false (deco_tr d))).
  generalize (fold_left (fun b0 d0 => xorb b0 (deco_tr d0)) ds false). intro X.
  destruct b, (deco_tr d), X; reflexivity.
Qed.
Lemma decos_fold_cj ds : forall b, fold_left (fun b d => xorb b (deco_cj d)) ds b = xorb b (decos_cj ds).
Proof.
  unfold decos_cj. induction ds as [|d ds IH]; intro b; cbn [fold_left]; [destruct b; reflexivity|].
  rewrite (IH (xorb b (deco_cj d))), (IH (xorb false (deco_cj d))).
  generalize (fold_left (fun b0 d0 => xorb b0 (deco_cj d0)) ds false). intro X.
  destruct b, (deco_cj d), X; reflexivity.
Qed.
Lemma decos_tr_cons d ds : decos_tr (d :: ds) = xorb (deco_tr d) (decos_tr ds).
Proof. unfold decos_tr at 1. cbn [fold_left]. rewrite decos_fold_tr. destruct (deco_tr d); reflexivity. Qed.
Lemma decos_cj_cons d ds : decos_cj (d :: ds) = xorb (deco_cj d) (decos_cj ds).
Proof. unfold decos_cj at 1. cbn [fold_left]. rewrite decos_fold_cj. destruct (deco_cj d); reflexivity. Qed.

Lemma decos_mat_shape cplx ds : forall a,
  rows (decos_mat cplx ds a) = (if decos_tr ds then cols a else rows a)
  /\ cols (decos_mat cplx ds a) = (if decos_tr ds then rows a else cols a)
  /\ s0 (decos_mat cplx ds a) = (if decos_tr ds then s1 a else s0 a)
  /\ s1 (decos_mat cplx ds a) = (if decos_tr ds then s0 a else s1 a)
  /\ mbase (decos_mat cplx ds a) = mbase a
  /\ mconj (decos_mat cplx ds a) = xorb (mconj a) (cplx && decos_cj ds).
Proof.
  induction ds as [|d ds IH]; intro a.
  - cbn. destruct (mconj a), cplx; repeat split; reflexivity.
  - rewrite decos_mat_cons, decos_tr_cons, decos_cj_cons.
    destruct (IH (deco_mat cplx d a)) as (E1 & E2 & E3 & E4 & E5 & E6).
    rewrite E1, E2, E3, E4, E5, E6.
    destruct d, cplx, (decos_tr ds), (decos_cj ds), (mconj a) eqn:Ca;
      cbn [deco_mat rot_mat cnj_mat conj_mat deco_tr deco_cj xorb andb negb rows cols s0 s1 mbase mconj]; rewrite ?Ca; repeat split; reflexivity.
Qed.

Lemma decos_vec_shape cplx ds : forall x,
  len (decos_vec cplx ds x) = len x /\ vbase (decos_vec cplx ds x) = vbase x /\ inc (decos_vec cplx ds x) = inc x
  /\ (cplx = false -> vconj (decos_vec cplx ds x) = vconj x).
Proof.
  induction ds as [|d ds IH]; intro x; [repeat split; reflexivity|].
  change (decos_vec cplx (d :: ds) x) with (decos_vec cplx ds (deco_vec cplx d x)).
  destruct (IH (deco_vec cplx d x)) as (E1 & E2 & E3 & E4). rewrite E1, E2, E3.
  assert (S : len (deco_vec cplx d x) = len x /\ vbase (deco_vec cplx d x) = vbase x /\ inc (deco_vec cplx d x) = inc x).
  { destruct d; cbn [deco_vec]; unfold cnj_vec; destruct cplx; cbn [len vbase inc]; repeat split; reflexivity. }
  destruct S as (S1 & S2 & S3). split; [exact S1|]. split; [exact S2|]. split; [exact S3|].
  intro Ec. rewrite (E4 Ec). rewrite Ec. destruct d; reflexivity.
Qed.

Lemma mval_rot (R : Type) (cj : R -> R) a mem i j : mval R cj (rot_mat a) mem i j = mval R cj a mem j i.
Proof. unfold mval, rot_mat, maddr. cbn [mconj mbase s0 s1]. f_equal. f_equal. lia. Qed.

Section Carrier.
  Variable R : Type.
  Variables rzero rone : R.
  Variables radd rmul : R -> R -> R.
  Variables rneg cj : R -> R.
  Variable cplx : bool.
  (* the laws of the carrier that the expression layer relies on *)
  Hypothesis rmul_comm : forall x y, rmul x y = rmul y x.
  Hypothesis rmul_assoc : forall x y z, rmul (rmul x y) z = rmul x (rmul y z).
  Hypothesis rmul_1_l : forall x, rmul rone x = x.
  Hypothesis rmul_0_l : forall x, rmul rzero x = rzero.
  Hypothesis radd_0_r : forall x, radd x rzero = x.
  Hypothesis radd_comm : forall x y, radd x y = radd y x.
  Hypothesis rneg_mul_l : forall x y, rmul (rneg x) y = rneg (rmul x y).
  Hypothesis cj_invol : forall x, cj (cj x) = x.
  (* conj() is the identity on arrays of real elements (numeric.hpp:291-295): there the conjugation of the carrier is trivial *)
  Hypothesis cj_real : cplx = false -> forall x, cj x = x.

  Notation mval := (mval R cj).
  Notation vval := (vval R cj).
  Notation zsum := (zsum R rzero radd).
  Notation deco_den := (deco_den R cj).
  Notation decos_den := (decos_den R cj).
  Notation operand_den := (operand_den R cj).
  Notation gden := (gden R rzero radd rmul cj cplx).
  Notation geval := (geval R rone rmul cplx).
  Notation gcompile := (gcompile R rzero rone rmul cplx).
  Notation gstmt_den := (gstmt_den R rzero radd rmul cj cplx).

  (* -------------------------------------------------------------------------------------- *)
  (* decorations compose                                                                      *)
  (* -------------------------------------------------------------------------------------- *)
  Lemma decos_den_cons d ds f : decos_den (d :: ds) f = decos_den ds (deco_den d f).
  Proof using. reflexivity. Qed.

  Lemma decos_den_ext ds : forall f g, (forall i j, f i j = g i j) -> forall i j, decos_den ds f i j = decos_den ds g i j.
  Proof using.
    induction ds as [|d ds IH]; intros f g E i j; [apply E|].
    rewrite !decos_den_cons. apply IH. intros i' j'. destruct d; cbn [BlasC13Expr.deco_den]; rewrite ?E; reflexivity.
  Qed.

  Lemma mval_cnj a mem i j : mval (cnj_mat cplx a) mem i j = cj (mval a mem i j).
  Proof using cj_invol cj_real.
    unfold cnj_mat. destruct cplx eqn:Ec.
    - unfold BlasC13Ref.mval, conj_mat, maddr. cbn [mconj mbase s0 s1].
      destruct (mconj a); cbn [negb cjif]; [rewrite cj_invol|]; reflexivity.
    - symmetry. apply cj_real. reflexivity.
  Qed.
  Lemma deco_mat_val d a mem i j : mval (deco_mat cplx d a) mem i j = deco_den d (mval a mem) i j.
  Proof using cj_invol cj_real.
    destruct d; cbn [deco_mat BlasC13Expr.deco_den]; [reflexivity | apply mval_rot | apply mval_cnj |].
    rewrite mval_rot. apply mval_cnj.
  Qed.

  (* the logical contents of a view decorated by ANY sequence of T / J / H / N (also ~ and unary * of blas::operators)
     are what the sequence says of the contents of the undecorated view *)
  Theorem decos_mat_val ds : forall a mem i j, mval (decos_mat cplx ds a) mem i j = decos_den ds (mval a mem) i j.
  Proof using cj_invol cj_real.
    induction ds as [|d ds IH]; intros a mem i j; [reflexivity|].
    rewrite decos_mat_cons, decos_den_cons, IH. apply decos_den_ext. intros i' j'. apply deco_mat_val.
  Qed.

  (* ... which is: conjugate iff an odd number of J/H, transpose iff an odd number of T/H *)
  Lemma decos_den_closed ds : forall f i j,
    decos_den ds f i j = cjif R cj (decos_cj ds) (if decos_tr ds then f j i else f i j).
  Proof using cj_invol.
    induction ds as [|d ds IH]; intros f i j; [reflexivity|].
    rewrite decos_den_cons, IH, decos_tr_cons, decos_cj_cons.
    destruct d, (decos_tr ds), (decos_cj ds); cbn [BlasC13Expr.deco_den deco_tr deco_cj xorb cjif]; rewrite ?cj_invol; reflexivity.
  Qed.

  Theorem decorations_compose (o : operand) (mem : Z -> R) (i j : Z) :
    let a := op_view o in let ds := op_decos o in
       mval (resolve cplx o) mem i j = operand_den o mem i j
    /\ operand_den o mem i j = cjif R cj (decos_cj ds) (if decos_tr ds then mval a mem j i else mval a mem i j)
    /\ rows (resolve cplx o) = (if decos_tr ds then cols a else rows a)
    /\ cols (resolve cplx o) = (if decos_tr ds then rows a else cols a)
    /\ (wf_mat a -> wf_mat (resolve cplx o))
    /\ (forall p, in_mat (resolve cplx o) p <-> in_mat a p).
  Proof using cj_invol cj_real.
    cbv zeta. unfold resolve, BlasC13Expr.operand_den.
    destruct (decos_mat_shape cplx (op_decos o) (op_view o)) as (E1 & E2 & _).
    split; [apply decos_mat_val|]. split; [apply decos_den_closed|]. split; [exact E1|]. split; [exact E2|].
    split; [apply wf_mat_decos | apply in_mat_decos].
  Qed.

  (* vectors *)
  Notation vdecos_den := (vdecos_den R cj).
  Notation voperand_den := (voperand_den R cj).
  Lemma vdecos_den_ext ds : forall f g, (forall i, f i = g i) -> forall i, vdecos_den ds f i = vdecos_den ds g i.
  Proof using.
    induction ds as [|d ds IH]; intros f g E i; [apply E|].
    change (vdecos_den (d :: ds) f i) with (vdecos_den ds (vdeco_den R cj d f) i).
    change (vdecos_den (d :: ds) g i) with (vdecos_den ds (vdeco_den R cj d g) i).
    apply IH. intro i'. destruct d; cbn [vdeco_den]; rewrite ?E; reflexivity.
  Qed.
  Lemma vval_cnj x mem i : vval (cnj_vec cplx x) mem i = cj (vval x mem i).
  Proof using cj_invol cj_real.
    unfold cnj_vec. destruct cplx eqn:Ec.
    - unfold BlasC13Ref.vval, vaddr. cbn [vconj vbase inc]. destruct (vconj x); cbn [negb cjif]; [rewrite cj_invol|]; reflexivity.
    - symmetry. apply cj_real. reflexivity.
  Qed.
  Lemma decos_vec_val ds : forall x mem i, vval (decos_vec cplx ds x) mem i = vdecos_den ds (vval x mem) i.
  Proof using cj_invol cj_real.
    induction ds as [|d ds IH]; intros x mem i; [reflexivity|].
    change (decos_vec cplx (d :: ds) x) with (decos_vec cplx ds (deco_vec cplx d x)).
    change (vdecos_den (d :: ds) (vval x mem) i) with (vdecos_den ds (vdeco_den R cj d (vval x mem)) i).
    rewrite IH. apply vdecos_den_ext. intro i'. destruct d; cbn [deco_vec vdeco_den]; try reflexivity; apply vval_cnj.
  Qed.

  (* -------------------------------------------------------------------------------------- *)
  (* gemm_range: scales multiply                                                               *)
  (* -------------------------------------------------------------------------------------- *)
  Notation prod_den := (prod_den R rzero radd rmul).

  Lemma prod_den_resolved (a b : operand) mem i j :
    zsum (cols (resolve cplx a)) (fun l => rmul (mval (resolve cplx a) mem i l) (mval (resolve cplx b) mem l j))
    = prod_den (cols (resolve cplx a)) (operand_den a mem) (operand_den b mem) i j.
  Proof using cj_invol cj_real.
    unfold BlasC13Expr.prod_den. apply (zsum_ext R rzero radd rmul cj). intros l _.
    unfold resolve, BlasC13Expr.operand_den. rewrite !decos_mat_val. reflexivity.
  Qed.

  (* whatever tree of rescalings was written, the scalar stored in the range times the product of the two (decorated)
     operand views is the value of the expression *)
  Lemma geval_den (e : BlasC13Expr.gexpr R) (mem : Z -> R) (i j : Z) :
    let r := geval e in
    rmul (gr_scale R r) (zsum (cols (gr_a R r)) (fun l => rmul (mval (gr_a R r) mem i l) (mval (gr_b R r) mem l j))) = gden e mem i j.
  Proof using rmul_assoc rmul_1_l cj_invol cj_real.
    cbv zeta. induction e as [s a b|a b|f e IH]; cbn [BlasC13Expr.geval BlasC13Expr.gden gr_scale gr_a gr_b].
    - rewrite prod_den_resolved. reflexivity.
    - rewrite prod_den_resolved. apply rmul_1_l.
    - rewrite rmul_assoc, IH. reflexivity.
  Qed.

  Lemma consume_beta_math (cs : consume) (X c : R) :
    radd X (rmul (consume_beta R rzero rone cs) c) = match cs with CsAssign => X | CsPlusAssign => radd c X end.
  Proof using rmul_1_l rmul_0_l radd_0_r radd_comm.
    destruct cs; cbn [consume_beta].
    - rewrite rmul_0_l. apply radd_0_r.
    - rewrite rmul_1_l. apply radd_comm.
  Qed.

  (* THE gemm statement theorem.  st is  target (= | +=) tree-of-rescalings-of (gemm(s, a, b) | a * b)  with decorated
     operands; if the statement reaches xGEMM with a call that passes the (proved) criterion for the resolved views, then
     the call is legal, the reference routine -- run with the scalars the expression layer computed -- leaves in every
     element of the output view the value of the expression (overwriting for =, adding to the old element for +=), and
     no cell outside the output view changes. *)
  Theorem gemm_expr_sound (debug : bool) (st : gstmt R) (alpha beta : R) (a b c : mat) (k : gemm_call) (mem : Z -> R) :
    gcompile debug st = GpCall R alpha beta a b c (FBlas false k) ->
    shapes_conform a b c ->
    gemm_implements_b k a b c = true ->
       gemm_legal k = true
    /\ (forall i j, 0 <= i < rows c -> 0 <= j < cols c ->
          gemm_ref R rzero radd rmul cj alpha beta k mem (maddr c i j) = gstmt_den (gs_consume R st) (gs_expr R st) c mem i j)
    /\ (forall p, ~ in_mat c p -> gemm_ref R rzero radd rmul cj alpha beta k mem p = mem p).
  Proof using rmul_comm rmul_assoc rmul_1_l rmul_0_l radd_0_r radd_comm cj_invol cj_real.
    intros C S H.
    unfold BlasC13Expr.gcompile in C. destruct (gstmt_out R rone rmul cplx st) as [c'|]; [|discriminate C].
    inversion C; subst alpha beta a b c'; clear C.
    destruct (gemm_criterion_sound R rzero radd rmul cj rmul_comm
                (gr_scale R (geval (gs_expr R st))) (consume_beta R rzero rone (gs_consume R st)) _ _ _ k mem S H) as (L & Rr & F).
    split; [exact L|]. split; [|exact F].
    intros i j Hi Hj. rewrite (Rr i j Hi Hj). unfold gemm_math.
    rewrite consume_beta_math, geval_den.
    unfold BlasC13Expr.gstmt_den. destruct (gs_consume R st); reflexivity.
  Qed.

  (* the same at every call site of gemm_n that has a named condition: no criterion to evaluate *)
  Lemma gemm_lazy_call debug a b c cf k : gemm_lazy debug a b c = FBlas cf k -> gemm_n a b c = OCall k /\ cf = false.
  Proof using.
    unfold gemm_lazy. destruct (debug && negb (gemm_asserts a b c)); [discriminate|].
    destruct (gemm_n a b c) as [|k'| |]; try discriminate; [|destruct debug; discriminate].
    destruct (core_gemm_check debug k'); try discriminate. intro E. inversion E. split; reflexivity.
  Qed.

  Theorem gemm_expr_partial (debug : bool) (st : gstmt R) (alpha beta : R) (a b c : mat) (k : gemm_call) (mem : Z -> R) :
    gcompile debug st = GpCall R alpha beta a b c (FBlas false k) ->
    wf_mat a -> wf_mat b -> wf_mat c -> shapes_conform a b c -> mconj c = false ->
    gemm_site_cond k a b c = true ->
       gemm_legal k = true
    /\ (forall i j, 0 <= i < rows c -> 0 <= j < cols c ->
          gemm_ref R rzero radd rmul cj alpha beta k mem (maddr c i j) = gstmt_den (gs_consume R st) (gs_expr R st) c mem i j)
    /\ (forall p, ~ in_mat c p -> gemm_ref R rzero radd rmul cj alpha beta k mem p = mem p).
  Proof using rmul_comm rmul_assoc rmul_1_l rmul_0_l radd_0_r radd_comm cj_invol cj_real.
    intros C Wa Wb Wc S Cc SC. apply (gemm_expr_sound debug st alpha beta a b c k mem C S).
    assert (D : gemm_n a b c = OCall k).
    { unfold BlasC13Expr.gcompile in C. destruct (gstmt_out R rone rmul cplx st); [|discriminate C].
      inversion C; subst. match goal with E : gemm_lazy _ _ _ _ = FBlas false k |- _ => exact (proj1 (gemm_lazy_call _ _ _ _ _ _ E)) end. }
    exact (gemm_site_conditions a b c k Wa Wb Wc S Cc D SC).
  Qed.

  (* the scalar and the operands that reach xGEMM, spelled out (what the correspondence check compares with the interposed call) *)
  Lemma gemm_scales_multiply (f : R) (e : BlasC13Expr.gexpr R) :
    gr_scale R (geval (GxScale R f e)) = rmul f (gr_scale R (geval e))
    /\ gr_a R (geval (GxScale R f e)) = gr_a R (geval e) /\ gr_b R (geval (GxScale R f e)) = gr_b R (geval e).
  Proof using. repeat split; reflexivity. Qed.

  (* -------------------------------------------------------------------------------------- *)
  (* gemv_range                                                                                *)
  (* -------------------------------------------------------------------------------------- *)
  Notation vden := (vden R rzero radd rmul cj cplx).
  Notation veval := (veval R rone cplx).
  Notation vcompile := (vcompile R rzero rone cplx).

  Lemma veval_den (e : vexpr R) (mem : Z -> R) (i : Z) :
    let r := veval e in
    rmul (vr_scale R r) (zsum (cols (vr_m R r)) (fun l => rmul (mval (vr_m R r) mem i l) (vval (vr_x R r) mem l))) = vden e mem i.
  Proof using rmul_1_l cj_invol cj_real.
    cbv zeta.
    assert (P : forall e, zsum (cols (vr_m R (veval e))) (fun l => rmul (mval (vr_m R (veval e)) mem i l) (vval (vr_x R (veval e)) mem l))
                          = vprod_den R rzero radd rmul cj cplx e mem i).
    { intro e'. unfold vprod_den. destruct e'; cbn [BlasC13Expr.veval vr_m vr_x vexpr_m vexpr_x];
        apply (zsum_ext R rzero radd rmul cj); intros l _; unfold resolve, BlasC13Expr.operand_den; rewrite decos_mat_val; reflexivity. }
    rewrite P. destruct e; cbn [BlasC13Expr.veval BlasC13Expr.vden vr_scale]; [reflexivity | reflexivity | apply rmul_1_l].
  Qed.

  Theorem gemv_expr_sound (debug : bool) (st : vstmt R) (alpha beta : R) (m : mat) (x y : vec) (k : gemv_call) (mem : Z -> R) :
    vcompile debug st = VpCall R alpha beta m x y (GBlas k) ->
    gemv_shapes m x y ->
    gemv_implements_b k m x y = true ->
       gemv_legal k = true
    /\ (forall i, 0 <= i < rows m ->
          gemv_ref R rzero radd rmul cj alpha beta k mem (vaddr y i) = vstmt_den R rzero radd rmul cj cplx (vs_consume R st) (vs_expr R st) y mem i)
    /\ (forall p, ~ in_vec y p -> gemv_ref R rzero radd rmul cj alpha beta k mem p = mem p).
  Proof using rmul_1_l rmul_0_l radd_0_r radd_comm cj_invol cj_real.
    intros C S H. unfold BlasC13Expr.vcompile in C. inversion C; subst alpha beta m x y; clear C.
    destruct (gemv_criterion_sound R rzero radd rmul cj (vr_scale R (veval (vs_expr R st))) (consume_beta R rzero rone (vs_consume R st))
                _ _ _ k mem S H) as (L & Rr & F).
    split; [exact L|]. split; [|exact F].
    intros i Hi. rewrite (Rr i Hi). unfold gemv_math.
    rewrite consume_beta_math, veval_den.
    unfold BlasC13Expr.vstmt_den. destruct (vs_consume R st); reflexivity.
  Qed.

  (* -------------------------------------------------------------------------------------- *)
  (* axpy_range / scaled / plain: += adds, -= subtracts, *= multiplies the stored scalar       *)
  (* -------------------------------------------------------------------------------------- *)
  Notation aden := (aden R rmul).
  Notation aexpr_scale := (aexpr_scale R rone rmul).

  Lemma aexpr_den (e : aexpr R) (mem : Z -> R) (l : Z) :
    rmul (aexpr_scale e) (xval R (aexpr_vec R e) mem l) = aden e mem l.
  Proof using rmul_comm rmul_assoc rmul_1_l.
    induction e as [a x|e IH s|a x|x]; cbn [BlasC13Expr.aexpr_scale aexpr_vec BlasC13Expr.aden]; try reflexivity.
    - rewrite <- IH. rewrite !rmul_assoc. f_equal. apply rmul_comm.
    - apply rmul_1_l.
  Qed.

  Theorem axpy_expr_sound (sg : asign) (e : aexpr R) (y : vec) (mem : Z -> R) :
    wf_vec (aexpr_vec R e) -> wf_vec y -> len (aexpr_vec R e) = len y ->
       (forall l, 0 <= l < len y ->
          axpy_ref R radd rmul (astmt_alpha R rone rmul rneg sg e) (astmt_call R y e) mem (vaddr y l) = astmt_den R radd rmul rneg sg e y mem l)
    /\ (forall p, ~ in_vec y p -> axpy_ref R radd rmul (astmt_alpha R rone rmul rneg sg e) (astmt_call R y e) mem p = mem p).
  Proof using rmul_comm rmul_assoc rmul_1_l radd_comm rneg_mul_l.
    intros Wx Wy Hlen.
    destruct (axpy_marshalling R radd rmul (astmt_alpha R rone rmul rneg sg e) (aexpr_vec R e) y mem Wx Wy Hlen) as (A & F).
    split; [|exact F].
    intros l Hl. unfold astmt_call. rewrite (A l Hl). unfold astmt_alpha, astmt_den.
    destruct sg.
    - rewrite aexpr_den. apply radd_comm.
    - rewrite rneg_mul_l, aexpr_den. apply radd_comm.
  Qed.

  (* -------------------------------------------------------------------------------------- *)
  (* dot_ref: value, unary +, (x, y), f * dot                                                  *)
  (* -------------------------------------------------------------------------------------- *)
  Theorem dot_expr_sound (et : etype) (e : dexpr R) (c : dot_call) (mem : Z -> R) (stored : R) :
    cplx = is_complex_et et ->
    vconj (vo_view (dexpr_x R e)) = false -> vconj (vo_view (dexpr_y R e)) = false ->
    len (vo_view (dexpr_y R e)) = len (vo_view (dexpr_x R e)) ->
    dexpr_call R cplx et e = Some c ->
    (d_routine c = DViaGemv -> 0 < len (vo_view (dexpr_x R e))) ->
    dot_ref R rzero radd rmul cj c mem = Some stored ->
    dexpr_post R rmul e stored = dden R rzero radd rmul cj e mem.
  Proof using rmul_comm cj_invol cj_real.
    intros Ec Cx Cy Hlen D Hne Hs. unfold dexpr_call, vresolve in D.
    destruct (decos_vec_shape cplx (vo_decos (dexpr_x R e)) (vo_view (dexpr_x R e))) as (Lx & _ & _ & Rx).
    destruct (decos_vec_shape cplx (vo_decos (dexpr_y R e)) (vo_view (dexpr_y R e))) as (Ly & _ & _ & Ry).
    pose proof (dot_selection_correct R rzero radd rmul cj rmul_comm et
                  (decos_vec cplx (vo_decos (dexpr_x R e)) (vo_view (dexpr_x R e)))
                  (decos_vec cplx (vo_decos (dexpr_y R e)) (vo_view (dexpr_y R e))) c mem) as T.
    assert (T1 : len (decos_vec cplx (vo_decos (dexpr_y R e)) (vo_view (dexpr_y R e)))
                 = len (decos_vec cplx (vo_decos (dexpr_x R e)) (vo_view (dexpr_x R e)))) by (rewrite Lx, Ly; exact Hlen).
    assert (T2 : is_complex_et et = false ->
                 vconj (decos_vec cplx (vo_decos (dexpr_x R e)) (vo_view (dexpr_x R e))) = false
                 /\ vconj (decos_vec cplx (vo_decos (dexpr_y R e)) (vo_view (dexpr_y R e))) = false).
    { intro E0. rewrite <- Ec in E0. rewrite (Rx E0), (Ry E0). split; assumption. }
    assert (T3 : d_routine c = DViaGemv -> 0 < len (decos_vec cplx (vo_decos (dexpr_x R e)) (vo_view (dexpr_x R e)))) by (rewrite Lx; exact Hne).
    specialize (T T1 T2 D T3). clear T1 T2 T3.
    rewrite T in Hs. inversion Hs; subst stored; clear Hs T.
    unfold dot_math. rewrite Lx.
    induction e as [x y|f e IH]; cbn [dexpr_post BlasC13Expr.dden dexpr_x dexpr_y] in *.
    - apply (zsum_ext R rzero radd rmul cj). intros l _. unfold BlasC13Expr.voperand_den. rewrite !decos_vec_val. reflexivity.
    - f_equal. apply IH; assumption.
  Qed.
End Carrier.

(* ------------------------------------------------------------------------------------------ *)
(* trsm spellings: the arguments that reach trsm(side, fill, diag, alpha, a, b)                *)
(* ------------------------------------------------------------------------------------------ *)
Section Trsm.
  Variable R : Type.
  Variables rzero rone : R.
  Variables radd rmul : R -> R -> R.
  Variable cj : R -> R.
  Hypothesis rmul_comm : forall x y, rmul x y = rmul y x.
  Hypothesis cj_invol : forall x, cj (cj x) = x.
  Hypothesis cj_mul : forall x y, cj (rmul x y) = rmul (cj x) (cj y).
  Hypothesis cj_add : forall x y, cj (radd x y) = radd (cj x) (cj y).
  Hypothesis cj_zero : cj rzero = rzero.
  Hypothesis cj_one : cj rone = rone.

  (* every spelling -- trsm(side, fill, alpha, a, b), trsm(side, alpha, U(a) | L(a), b), b /= U(a), b |= L(a), ... -- solves
     the system its reading names: the triangle is the one the wrapper U / L selects, the diagonal is the stored one,
     the side is right for /= and left for |=, and the right-hand side is scaled by alpha (by 1 for the operators) *)
  Theorem trsm_stmt_sound (debug : bool) (st : tstmt R) (a b : mat) (k : trsm_call) (mem mem' : Z -> R) :
    let g := tstmt_args rone st in
    tstmt_model rone debug st a b = L3Call k ->
    trsm_implements_b (ta_left g) (ta_lower g) (ta_unit g) k a b = true ->
    trsm_post R rzero rone radd rmul cj (if t_conj_alpha k then cj (ta_alpha g) else ta_alpha g) k mem mem' ->
       trsm_legal k = true
    /\ trsm_math R rzero rone radd rmul cj (ta_left g) (ta_lower g) (ta_unit g) (ta_alpha g) a b mem mem'
    /\ (forall p, ~ in_mat b p -> mem' p = mem p).
  Proof.
    cbv zeta. intros _ H P.
    exact (trsm_criterion_sound R rzero rone radd rmul cj rmul_comm cj_invol cj_add cj_mul cj_zero cj_one _ _ _ _ a b k mem mem' H P).
  Qed.

  Lemma tstmt_args_spec (st : tstmt R) :
    match st with
    | TsFull lf lw un al => tstmt_args rone st = mk_trsm_args lf lw un al
    | TsNonUnit lf lw al => tstmt_args rone st = mk_trsm_args lf lw false al
    | TsTri lf al t => tstmt_args rone st = mk_trsm_args lf (tri_lower t) false al
    | TsDivEq t => tstmt_args rone st = mk_trsm_args false (tri_lower t) false rone
    | TsOrEq t => tstmt_args rone st = mk_trsm_args true (tri_lower t) false rone
    end.
  Proof. destruct st; reflexivity. Qed.
End Trsm.

(* ------------------------------------------------------------------------------------------ *)
(* herk / syrk spellings                                                                       *)
(* ------------------------------------------------------------------------------------------ *)
Section RankK.
  Variable R : Type.
  Variables rzero rone : R.
  Variables radd rmul : R -> R -> R.
  Variable cj re : R -> R.
  Hypothesis rmul_comm : forall x y, rmul x y = rmul y x.
  Hypothesis cj_invol : forall x, cj (cj x) = x.
  Hypothesis rmul_0_l : forall x, rmul rzero x = rzero.
  Hypothesis radd_0_r : forall x, radd x rzero = x.

  Notation rk_ref := (rk_ref R rzero radd rmul cj re).
  Notation rk_math := (rk_math R rzero radd rmul cj re).
  Notation mval := (mval R cj).

  (* the value every element of c gets from a pass with beta = 0: it does not depend on the old contents of c *)
  Definition rk_value (herm : bool) (alpha : R) (a : mat) (mem : Z -> R) (i j : Z) : R :=
    let v := rmul alpha (zsum R rzero radd (cols a) (fun l => rmul (mval a mem i l) (cjif R cj herm (mval a mem j l)))) in
    if herm && (i =? j) then re v else v.

  Lemma rk_math_beta0 herm alpha a c mem i j : rk_math herm alpha rzero a c mem i j = rk_value herm alpha a mem i j.
  Proof using rmul_0_l radd_0_r. unfold BlasC13L3Crit.rk_math, rk_value. cbv zeta. rewrite rmul_0_l, radd_0_r. reflexivity. Qed.

  Lemma rk_value_ext herm alpha a mem mem' i j :
    0 <= i < rows a -> 0 <= j < rows a ->
    (forall p, in_mat a p -> mem' p = mem p) -> rk_value herm alpha a mem' i j = rk_value herm alpha a mem i j.
  Proof using.
    clear rmul_comm cj_invol rmul_0_l radd_0_r.
    intros Hi Hj E. unfold rk_value. cbv zeta.
    assert (S : zsum R rzero radd (cols a) (fun l => rmul (mval a mem' i l) (cjif R cj herm (mval a mem' j l)))
                = zsum R rzero radd (cols a) (fun l => rmul (mval a mem i l) (cjif R cj herm (mval a mem j l)))).
    { apply (zsum_ext R rzero radd rmul cj). intros l Hl. unfold BlasC13Ref.mval.
      rewrite (E (maddr a i l)) by (exists i, l; repeat split; lia).
      rewrite (E (maddr a j l)) by (exists j, l; repeat split; lia). reflexivity. }
    rewrite S. reflexivity.
  Qed.

  (* one pass with beta = 0: herk(fill, alpha, a, c), syrk(fill, alpha, a, c) *)
  Theorem rk_nobeta_sound (herm upper : bool) (alpha : R) (a c : mat) (k : rk_call) (mem : Z -> R) :
    hstmt_passes rzero rone (HkNoBeta upper alpha) = [(upper, alpha, rzero)] ->
    rk_implements_b herm upper k a c = true ->
       rk_legal k = true
    /\ (forall i j, 0 <= i < rows c -> 0 <= j < rows c -> in_triangle upper i j = true ->
          rk_ref herm alpha rzero k mem (maddr c i j) = rk_value herm alpha a mem i j)
    /\ (forall p, ~ triangle_cell upper c p -> rk_ref herm alpha rzero k mem p = mem p).
  Proof.
    intros _ H.
    destruct (rk_criterion_sound R rzero radd rmul cj re rmul_comm cj_invol herm upper alpha rzero a c k mem H) as (L & Rr & F).
    split; [exact L|]. split; [|exact F].
    intros i j Hi Hj T. rewrite (Rr i j Hi Hj T). apply rk_math_beta0.
  Qed.

  (* two passes, upper then lower, both with beta = 0 (herk(alpha, a, c), herk(a, c), herk(alpha, a), herk(a)): when both
     calls pass the criterion and no cell of a is a cell of c, EVERY element of c ends up with alpha * (a.a^H)(i,j)
     computed from the ORIGINAL a, and no cell outside c changes *)
  Theorem rk_both_sound (herm : bool) (alpha : R) (a c : mat) (k1 k2 : rk_call) (mem : Z -> R) :
    hstmt_passes rzero rone (HkBoth alpha) = [(true, alpha, rzero); (false, alpha, rzero)] ->
    wf_mat c -> (s0 c = 1 \/ s1 c = 1) ->
    (forall p, in_mat a p -> ~ in_mat c p) ->
    rk_implements_b herm true k1 a c = true ->
    rk_implements_b herm false k2 a c = true ->
    let mem1 := rk_ref herm alpha rzero k1 mem in
    let mem2 := rk_ref herm alpha rzero k2 mem1 in
       (forall i j, 0 <= i < rows c -> 0 <= j < rows c -> mem2 (maddr c i j) = rk_value herm alpha a mem i j)
    /\ (forall p, ~ in_mat c p -> mem2 p = mem p).
  Proof.
    intros _ Wc Uc Dis H1 H2. cbv zeta.
    destruct (rk_criterion_sound R rzero radd rmul cj re rmul_comm cj_invol herm true alpha rzero a c k1 mem H1) as (_ & R1 & F1).
    destruct (rk_criterion_sound R rzero radd rmul cj re rmul_comm cj_invol herm false alpha rzero a c k2
                (rk_ref herm alpha rzero k1 mem) H2) as (_ & R2 & F2).
    assert (Sq : cols c = rows c /\ rows a = rows c).
    { unfold rk_implements_b in H1. cbv zeta in H1.
      repeat (apply andb_prop in H1; let X := fresh "X" in destruct H1 as [H1 X]).
      repeat match goal with X : (_ =? _) = true |- _ => apply Z.eqb_eq in X end. lia. }
    destruct Sq as (Sq & Ra).
    assert (Tin : forall up p, triangle_cell up c p -> in_mat c p).
    { intros up p (i & j & Hi & Hj & _ & E). exists i, j. split; [lia|]. split; [lia|]. exact E. }
    assert (A1 : forall p, in_mat a p -> rk_ref herm alpha rzero k1 mem p = mem p).
    { intros p Hp. apply F1. intro T. exact (Dis p Hp (Tin _ _ T)). }
    split.
    - intros i j Hi Hj.
      destruct (in_triangle false i j) eqn:Tl.
      + rewrite (R2 i j Hi Hj Tl), rk_math_beta0. apply rk_value_ext; [lia|lia|exact A1].
      + assert (Tu : in_triangle true i j = true) by (unfold in_triangle in *; lia).
        rewrite F2.
        * rewrite (R1 i j Hi Hj Tu). apply rk_math_beta0.
        * intros (i' & j' & Hi' & Hj' & T' & E).
          destruct (wf_mat_injective c Wc Uc i j i' j' ltac:(lia) ltac:(lia) ltac:(lia) ltac:(lia) E) as (-> & ->).
          rewrite T' in Tl. discriminate Tl.
    - intros p Hp. rewrite F2 by (intro T; exact (Hp (Tin _ _ T))). apply F1. intro T. exact (Hp (Tin _ _ T)).
  Qed.
End RankK.

(* ------------------------------------------------------------------------------------------ *)
(* level-1 operator spellings: the same call as the named routine                              *)
(* ------------------------------------------------------------------------------------------ *)
Theorem l1stmt_sound (R : Type) (rmul : R -> R -> R) (st : l1stmt R) (mem : Z -> R) :
  match st with
  | L1ScalRange a x | L1ScalOp x a | L1ScalIt a x =>
      wf_vec x ->
         (forall l, 0 <= l < len x -> scal_ref R rmul a (l1stmt_call st) mem (vaddr x l) = rmul a (xval R x mem l))
      /\ (forall p, ~ in_vec x p -> scal_ref R rmul a (l1stmt_call st) mem p = mem p)
  | L1CopyShift y x | L1CopyAssign y x =>
      wf_vec x -> wf_vec y -> len x = len y ->
         (forall l, 0 <= l < len y -> copy_ref R (l1stmt_call st) mem (vaddr y l) = xval R x mem l)
      /\ (forall p, ~ in_vec y p -> copy_ref R (l1stmt_call st) mem p = mem p)
  end.
Proof.
  destruct st; cbn [l1stmt_call]; first [exact (scal_marshalling R rmul _ _ mem) | exact (copy_marshalling R _ _ mem)].
Qed.

(* the hypotheses of the expression theorems are satisfiable by a non-trivial instance: over the Gaussian integers,
   c += 2 * ((1+i) * gemm(3, a, H(H(T(b)))))  with padded operands reaches site 115 with the scalar 6+6i *)
Example gemm_expr_instance :
  let a := mk_operand [] (mk_mat 1000008 7 1 2 3 false) in
  let b := mk_operand [DcT; DcH; DcH] (mk_mat 2000005 6 1 4 3 false) in
  let c := mk_operand [] (mk_mat 3000006 5 1 2 4 false) in
  let e := GxScale gI (2, 0) (GxScale gI (1, 1) (GxGemm gI (3, 0) a b)) in
  let st := mk_gstmt gI (GtView c) CsPlusAssign e in
  exists k, gcompile gI (0, 0) (1, 0) gI_mul true true st
            = GpCall gI (6, 6) (1, 0) (op_view a) (mk_mat 2000005 1 6 3 4 false) (op_view c) (FBlas false k)
            /\ g_site k = 115 /\ gemm_implements_b k (op_view a) (mk_mat 2000005 1 6 3 4 false) (op_view c) = true.
Proof. cbv zeta. eexists. split; [vm_compute; reflexivity|]. split; vm_compute; reflexivity. Qed.

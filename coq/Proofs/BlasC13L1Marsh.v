(* C13 -- level 1 marshalling theorems: for every pair of strided vector views (any length incl. 0 and 1, any positive
   increments, any base) the call the adaptor builds makes the reference routine compute the mathematical result on the
   logical contents and write only the elements of the output view; iamax returns the 0-based index of the first
   element of largest |re|+|im| (BLAS is 1-based; -1 for an empty vector). *)
From BM Require Import Base.Tactics Model.BlasC13 Model.BlasC13Ref Model.BlasC13L1 Model.BlasC13L1Ref Proofs.BlasC13RefProofs.
Local Open Scope Z_scope.

Lemma strided_update_at {R : Type} (n p inc : Z) (f : Z -> R) (mem : Z -> R) (l : Z) :
  0 < inc -> 0 <= l < n -> strided_update n p inc f mem (p + l * inc) = f l.
Proof.
  intros Hinc Hl. unfold strided_update. cbv zeta.
  replace (p + l * inc - p) with (l * inc) by lia.
  rewrite Z.div_mul by lia. rewrite Z.mod_mul by lia.
  assert (0 <= l * inc) by (apply Z.mul_nonneg_nonneg; lia).
  replace ((0 <=? l * inc) && (0 =? 0) && (l <? n)) with true by (symmetry; lia).
  reflexivity.
Qed.

Lemma strided_update_other {R : Type} (n p inc : Z) (f : Z -> R) (mem : Z -> R) (q : Z) :
  0 < inc -> (forall l, 0 <= l < n -> q <> p + l * inc) -> strided_update n p inc f mem q = mem q.
Proof.
  intros Hinc H. unfold strided_update. cbv zeta.
  destruct ((0 <=? q - p) && ((q - p) mod inc =? 0) && ((q - p) / inc <? n)) eqn:E; [|reflexivity].
  exfalso. apply andb_prop in E. destruct E as [E E3]. apply andb_prop in E. destruct E as [E1 E2].
  apply Z.leb_le in E1. apply Z.eqb_eq in E2. apply Z.ltb_lt in E3.
  pose proof (Z.div_pos (q - p) inc E1 ltac:(lia)) as Hd.
  pose proof (Z.div_mod (q - p) inc ltac:(lia)) as Hdm.
  apply (H ((q - p) / inc)); [lia|]. rewrite (Z.mul_comm inc) in Hdm. lia.
Qed.

  Theorem axpy_marshalling (R : Type) (radd rmul : R -> R -> R) (alpha : R) (x y : vec) (mem : Z -> R) :
    wf_vec x -> wf_vec y -> len x = len y ->
       (forall l, 0 <= l < len y ->
          axpy_ref R radd rmul alpha (axpy_call x y) mem (vaddr y l) = radd (rmul alpha (xval R x mem l)) (xval R y mem l))
    /\ (forall p, ~ in_vec y p -> axpy_ref R radd rmul alpha (axpy_call x y) mem p = mem p).
  Proof.
    intros (_ & Hx) (_ & Hy) Hlen. unfold axpy_ref, axpy_call, BlasC13L1Ref.xval, vaddr, l1_cell. cbn [l_n l_px l_incx l_py l_incy].
    split.
    - intros l Hl. rewrite strided_update_at by lia. reflexivity.
    - intros p Hp. apply strided_update_other; [lia|]. intros l Hl E. apply Hp. exists l. split; [lia|]. exact E.
  Qed.

  (* y += a*x  and  y -= a*x  (blas::operators): the same call with the scalar a resp. -a *)
  Theorem axpy_operator_marshalling (R : Type) (radd rmul : R -> R -> R) (rneg : R -> R) (minus : bool) (alpha : R) (x y : vec) (mem : Z -> R) :
    wf_vec x -> wf_vec y -> len x = len y ->
       (forall l, 0 <= l < len y ->
          axpy_ref R radd rmul (axpy_op_scalar R rneg minus alpha) (axpy_call x y) mem (vaddr y l)
          = radd (rmul (if minus then rneg alpha else alpha) (xval R x mem l)) (xval R y mem l))
    /\ (forall p, ~ in_vec y p -> axpy_ref R radd rmul (axpy_op_scalar R rneg minus alpha) (axpy_call x y) mem p = mem p).
  Proof. intros Wx Wy Hlen. exact (axpy_marshalling R radd rmul (axpy_op_scalar R rneg minus alpha) x y mem Wx Wy Hlen). Qed.

  (* blas::scal(alpha, x) and x *= alpha *)
  Theorem scal_marshalling (R : Type) (rmul : R -> R -> R) (alpha : R) (x : vec) (mem : Z -> R) :
    wf_vec x ->
       (forall l, 0 <= l < len x -> scal_ref R rmul alpha (scal_call x) mem (vaddr x l) = rmul alpha (xval R x mem l))
    /\ (forall p, ~ in_vec x p -> scal_ref R rmul alpha (scal_call x) mem p = mem p).
  Proof.
    intros (_ & Hx). unfold scal_ref, scal_call, l1_x, BlasC13L1Ref.xval, vaddr, l1_cell. cbn [l_n l_px l_incx l_py l_incy].
    split.
    - intros l Hl. rewrite strided_update_at by lia. reflexivity.
    - intros p Hp. apply strided_update_other; [lia|]. intros l Hl E. apply Hp. exists l. split; [lia|]. exact E.
  Qed.

  Theorem copy_marshalling (R : Type) (x y : vec) (mem : Z -> R) :
    wf_vec x -> wf_vec y -> len x = len y ->
       (forall l, 0 <= l < len y -> copy_ref R (copy_call x y) mem (vaddr y l) = xval R x mem l)
    /\ (forall p, ~ in_vec y p -> copy_ref R (copy_call x y) mem p = mem p).
  Proof.
    intros (_ & Hx) (_ & Hy) Hlen. unfold copy_ref, copy_call, BlasC13L1Ref.xval, vaddr, l1_cell. cbn [l_n l_px l_incx l_py l_incy].
    split.
    - intros l Hl. rewrite strided_update_at by lia. reflexivity.
    - intros p Hp. apply strided_update_other; [lia|]. intros l Hl E. apply Hp. exists l. split; [lia|]. exact E.
  Qed.

  Theorem swap_marshalling (R : Type) (x y : vec) (mem : Z -> R) :
    wf_vec x -> wf_vec y -> len x = len y -> vec_disjoint x y ->
       (forall l, 0 <= l < len x -> swap_ref R (swap_call x y) mem (vaddr x l) = xval R y mem l)
    /\ (forall l, 0 <= l < len y -> swap_ref R (swap_call x y) mem (vaddr y l) = xval R x mem l)
    /\ (forall p, ~ in_vec x p -> ~ in_vec y p -> swap_ref R (swap_call x y) mem p = mem p).
  Proof.
    intros (_ & Hx) (_ & Hy) Hlen Hdis. unfold swap_ref, swap_call, BlasC13L1Ref.xval, vaddr, l1_cell. cbn [l_n l_px l_incx l_py l_incy].
    split; [|split].
    - intros l Hl. rewrite strided_update_at by lia. reflexivity.
    - intros l Hl. rewrite strided_update_other.
      + rewrite strided_update_at by lia. reflexivity.
      + lia.
      + intros l' Hl' E. apply (Hdis l' l); [lia|lia|]. unfold vaddr. lia.
    - intros p Hpx Hpy. rewrite strided_update_other.
      + apply strided_update_other; [lia|]. intros l Hl E. apply Hpy. exists l. split; [lia|]. exact E.
      + lia.
      + intros l Hl E. apply Hpx. exists l. split; [lia|]. exact E.
  Qed.

  (* ---- reductions ---- *)
  Theorem asum_marshalling (R Sc : Type) (szero : Sc) (sadd : Sc -> Sc -> Sc) (abs1 : R -> Sc) (x : vec) (mem : Z -> R) :
    wf_vec x -> asum_ref R Sc szero sadd abs1 (red_call x) mem = asum_math R Sc szero sadd abs1 x mem.
  Proof.
    intros (Hn & Hx). unfold asum_ref, asum_math, red_call, l1_x, BlasC13L1Ref.xval, vaddr, l1_cell. cbn [l_n l_px l_incx].
    destruct ((len x <? 1) || (inc x <=? 0)) eqn:E; [|reflexivity].
    assert (len x = 0) by lia. rewrite H. reflexivity.
  Qed.

  (* nrm2 of an empty vector: reference BLAS returns 0 without taking a root; the mathematical definition is root(0) *)
  Theorem nrm2_marshalling (R Sc : Type) (szero : Sc) (sadd : Sc -> Sc -> Sc) (sq : R -> Sc) (root : Sc -> Sc) (x : vec) (mem : Z -> R) :
    wf_vec x -> root szero = szero ->
    nrm2_ref R Sc szero sadd sq root (red_call x) mem = nrm2_math R Sc szero sadd sq root x mem.
  Proof.
    intros (Hn & Hx) Hroot. unfold nrm2_ref, nrm2_math, red_call, l1_x, BlasC13L1Ref.xval, vaddr, l1_cell. cbn [l_n l_px l_incx].
    destruct ((len x <? 1) || (inc x <=? 0)) eqn:E; [|reflexivity].
    assert (len x = 0) by lia. rewrite H. cbn. symmetry. exact Hroot.
  Qed.

Section Order.
  Variables R Sc : Type.
  Variable abs1 : R -> Sc.
  Variable sltb : Sc -> Sc -> bool.
  (* the strict order the reference routine compares with *)
  Hypothesis sltb_asym : forall a b, sltb a b = true -> sltb b a = false.
  Hypothesis sle_trans : forall a b c, sltb a b = false -> sltb b c = false -> sltb a c = false.
  Hypothesis sle_lt : forall a b c, sltb b a = false -> sltb b c = true -> sltb a c = true.

  Lemma sltb_irrefl a : sltb a a = false.
  Proof. destruct (sltb a a) eqn:E; [|reflexivity]. rewrite <- E. exact (sltb_asym a a E). Qed.

  Lemma amax_scan_spec (v : Z -> Sc) (k : nat) :
    (1 <= k)%nat ->
    let r := amax_scan Sc sltb v k in
       0 <= r < Z.of_nat k
    /\ (forall l, 0 <= l < Z.of_nat k -> sltb (v r) (v l) = false)
    /\ (forall l, 0 <= l < r -> sltb (v l) (v r) = true).
  Proof.
    induction k as [|k IH]; [lia|]. intros _. cbv zeta.
    destruct k as [|k'].
    - cbn. split; [lia|]. split; [|intros; lia]. intros l Hl. assert (l = 0) by lia. subst l. apply sltb_irrefl.
    - specialize (IH ltac:(lia)). cbv zeta in IH. destruct IH as (Hr & Hmax & Hfirst).
      change (amax_scan Sc sltb v (S (S k'))) with
        (let best := amax_scan Sc sltb v (S k') in
         if (0 <? Z.of_nat (S k')) && sltb (v best) (v (Z.of_nat (S k'))) then Z.of_nat (S k') else best).
      cbv zeta. set (best := amax_scan Sc sltb v (S k')) in *. set (kk := Z.of_nat (S k')) in *.
      assert (Hkk : Z.of_nat (S (S k')) = kk + 1) by (unfold kk; lia).
      assert (Hpos : (0 <? kk) = true) by (unfold kk; lia). rewrite Hpos. cbn [andb].
      destruct (sltb (v best) (v kk)) eqn:E.
      + split; [lia|]. split.
        * intros l Hl. destruct (Z.eq_dec l kk) as [->|Hne]; [apply sltb_irrefl|].
          apply (sle_trans (v kk) (v best) (v l)); [apply sltb_asym; exact E | apply Hmax; lia].
        * intros l Hl. apply (sle_lt (v l) (v best) (v kk)); [apply Hmax; lia | exact E].
      + split; [lia|]. split.
        * intros l Hl. destruct (Z.eq_dec l kk) as [->|Hne]; [exact E | apply Hmax; lia].
        * exact Hfirst.
  Qed.

  Theorem iamax_marshalling (x : vec) (mem : Z -> R) :
    wf_vec x -> 0 < len x ->
    is_first_amax R Sc abs1 sltb x mem (iamax_model R Sc abs1 sltb x mem).
  Proof.
    intros (Hn & Hx) Hpos. unfold iamax_model, iamax_ref, red_call, l1_x. cbn [l_n l_px l_incx].
    replace ((len x <? 1) || (inc x <=? 0)) with false by (symmetry; lia).
    set (v := fun l => abs1 (mem (l1_cell (vbase x) (inc x) l))).
    pose proof (amax_scan_spec v (Z.to_nat (len x)) ltac:(lia)) as Hs. cbv zeta in Hs.
    replace (1 + amax_scan Sc sltb v (Z.to_nat (len x)) - 1) with (amax_scan Sc sltb v (Z.to_nat (len x))) by lia.
    destruct Hs as (Hr & Hmax & Hfirst). rewrite Z2Nat.id in * by lia.
    unfold is_first_amax, BlasC13L1Ref.xval, vaddr. unfold v, l1_cell in *.
    split; [exact Hr|]. split; [exact Hmax | exact Hfirst].
  Qed.

  (* an empty vector: BLAS returns 0, the adaptor returns -1 *)
  Theorem iamax_empty (x : vec) (mem : Z -> R) : len x = 0 -> iamax_model R Sc abs1 sltb x mem = -1.
  Proof. intros H. unfold iamax_model, iamax_ref, red_call, l1_x. cbn [l_n l_px l_incx]. rewrite H. reflexivity. Qed.
End Order.

(* C05: the element-wise loops write exactly the destination cells, in canonical order, and nothing else. *)
From BM Require Import Base.Tactics Model.Layout Model.View Model.Spec Model.Iter Model.Assign
  Proofs.LayoutProofs Proofs.IterProofs Proofs.ElemProofs.
Local Open Scope Z_scope.

Definition loopn (step : mem -> Z -> mem) (n : nat) (m : mem) : mem := fold_left step (iota n) m.
Lemma loopn_S step n m : loopn step (S n) m = step (loopn step n m) (Z.of_nat n).
Proof. unfold loopn. cbn [iota]. rewrite fold_left_app. reflexivity. Qed.
Lemma loop_loopn step n m : loop step n m = loopn step (Z.to_nat n) m.
Proof. reflexivity. Qed.

Lemma upd_same m a c : upd m a c a = c.
Proof. unfold upd. rewrite Z.eqb_refl. reflexivity. Qed.
Lemma upd_other m a c p : p <> a -> upd m a c p = m p.
Proof. unfold upd. intros H. replace (p =? a) with false by (symmetry; apply Z.eqb_neq; assumption). reflexivity. Qed.

Definition inj_upto (D : Z -> Z) (n : nat) : Prop :=
  forall j k, 0 <= j < Z.of_nat n -> 0 <= k < Z.of_nat n -> D j = D k -> j = k.
Definition disj_upto (D S : Z -> Z) (n : nat) : Prop :=
  forall j k, 0 <= j < Z.of_nat n -> 0 <= k < Z.of_nat n -> D j <> S k.
Definition outside (D : Z -> Z) (n : nat) (p : Z) : Prop := forall k, 0 <= k < Z.of_nat n -> p <> D k.

Lemma inj_upto_S D n : inj_upto D (S n) -> inj_upto D n.
Proof. intros H j k Hj Hk. apply H; lia. Qed.
Lemma disj_upto_S D S' n : disj_upto D S' (S n) -> disj_upto D S' n.
Proof. intros H j k Hj Hk. apply H; lia. Qed.

Section Loops.
  Variables (D S : Z -> Z) (conv : Z -> Z).

  Lemma copy_spec n : forall m, inj_upto D n -> disj_upto D S n ->
    let m' := loopn (copy1 conv D S) n m in
       (forall k, 0 <= k < Z.of_nat n -> m' (D k) = mkcell (conv (c_val (m (S k)))) false)
    /\ (forall p, outside D n p -> m' p = m p).
  Proof.
    induction n as [|n IH]; intros m Hi Hd; cbn zeta.
    - split; [intros; lia|reflexivity].
    - rewrite loopn_S. destruct (IH m (inj_upto_S _ _ Hi) (disj_upto_S _ _ _ Hd)) as [Hw Hf]. cbn zeta in Hw, Hf.
      split.
      + unfold copy1 at 1. intros k Hk. destruct (Z.eq_dec k (Z.of_nat n)) as [->|Hne].
        * rewrite upd_same. rewrite Hf; [reflexivity|]. intros j Hj E. apply (Hd j (Z.of_nat n)); [lia|lia|congruence].
        * rewrite upd_other by (intro E; apply Hne; apply Hi; [lia|lia|exact E]). apply Hw. lia.
      + unfold copy1 at 1. intros p Hp. rewrite upd_other by (apply Hp; lia). apply Hf. intros k Hk. apply Hp. lia.
  Qed.

  Lemma fill_spec x n : forall m,
    let m' := loopn (fill1 x D) n m in
       (forall k, 0 <= k < Z.of_nat n -> m' (D k) = mkcell x false)
    /\ (forall p, outside D n p -> m' p = m p).
  Proof.
    induction n as [|n IH]; intros m; cbn zeta.
    - split; [intros; lia|reflexivity].
    - rewrite loopn_S. destruct (IH m) as [Hw Hf]. cbn zeta in Hw, Hf. split.
      + unfold fill1 at 1. intros k Hk. destruct (Z.eq_dec (D k) (D (Z.of_nat n))) as [E|Hne].
        * rewrite E, upd_same. reflexivity.
        * rewrite upd_other by assumption. apply Hw.
          destruct (Z.eq_dec k (Z.of_nat n)) as [->|]; [contradiction|lia].
      + unfold fill1 at 1. intros p Hp. rewrite upd_other by (apply Hp; lia). apply Hf. intros k Hk. apply Hp. lia.
  Qed.

  Lemma put_spec vals n : forall m, inj_upto D n ->
    let m' := loopn (put1 vals D) n m in
       (forall k, 0 <= k < Z.of_nat n -> m' (D k) = mkcell (nth (Z.to_nat k) vals 0) false)
    /\ (forall p, outside D n p -> m' p = m p).
  Proof.
    induction n as [|n IH]; intros m Hi; cbn zeta.
    - split; [intros; lia|reflexivity].
    - rewrite loopn_S. destruct (IH m (inj_upto_S _ _ Hi)) as [Hw Hf]. cbn zeta in Hw, Hf. split.
      + unfold put1 at 1. intros k Hk. destruct (Z.eq_dec k (Z.of_nat n)) as [->|Hne].
        * rewrite upd_same. reflexivity.
        * rewrite upd_other by (intro E; apply Hne; apply Hi; [lia|lia|exact E]). apply Hw. lia.
      + unfold put1 at 1. intros p Hp. rewrite upd_other by (apply Hp; lia). apply Hf. intros k Hk. apply Hp. lia.
  Qed.

  Lemma move_spec n : forall m, inj_upto D n -> inj_upto S n -> disj_upto D S n ->
    let m' := loopn (move1 D S) n m in
       (forall k, 0 <= k < Z.of_nat n -> m' (D k) = mkcell (c_val (m (S k))) false
                                       /\ m' (S k) = mkcell (c_val (m (S k))) true)
    /\ (forall p, outside D n p -> outside S n p -> m' p = m p).
  Proof.
    induction n as [|n IH]; intros m Hi Hs Hd; cbn zeta.
    - split; [intros; lia|reflexivity].
    - rewrite loopn_S.
      destruct (IH m (inj_upto_S _ _ Hi) (inj_upto_S _ _ Hs) (disj_upto_S _ _ _ Hd)) as [Hw Hf]. cbn zeta in Hw, Hf.
      assert (Hsn : loopn (move1 D S) n m (S (Z.of_nat n)) = m (S (Z.of_nat n))).
      { apply Hf; intros j Hj E.
        - apply (Hd j (Z.of_nat n)); [lia|lia|congruence].
        - assert (j = Z.of_nat n) by (apply Hs; [lia|lia|congruence]). lia. }
      split.
      + unfold move1 at 1 3. rewrite Hsn. intros k Hk. destruct (Z.eq_dec k (Z.of_nat n)) as [->|Hne].
        * split; [rewrite upd_same; reflexivity|].
          rewrite upd_other by (intro E; apply (Hd (Z.of_nat n) (Z.of_nat n)); [lia|lia|congruence]).
          rewrite upd_same. reflexivity.
        * assert (Hk' : 0 <= k < Z.of_nat n) by lia. destruct (Hw k Hk') as [Hwd Hws]. split.
          -- rewrite upd_other by (intro E; apply Hne; apply Hi; [lia|lia|exact E]).
             rewrite upd_other by (apply (Hd k (Z.of_nat n)); lia). exact Hwd.
          -- rewrite upd_other by (intro E; apply (Hd (Z.of_nat n) k); [lia|lia|congruence]).
             rewrite upd_other by (intro E; apply Hne; apply Hs; [lia|lia|exact E]). exact Hws.
      + unfold move1 at 1. intros p Hp Hp'. rewrite upd_other by (apply Hp; lia). rewrite upd_other by (apply Hp'; lia).
        apply Hf; intros k Hk; [apply Hp|apply Hp']; lia.
  Qed.

  Lemma swap_spec n : forall m, inj_upto D n -> inj_upto S n -> disj_upto D S n ->
    let m' := loopn (swap1 D S) n m in
       (forall k, 0 <= k < Z.of_nat n -> m' (D k) = m (S k) /\ m' (S k) = m (D k))
    /\ (forall p, outside D n p -> outside S n p -> m' p = m p).
  Proof.
    induction n as [|n IH]; intros m Hi Hs Hd; cbn zeta.
    - split; [intros; lia|reflexivity].
    - rewrite loopn_S.
      destruct (IH m (inj_upto_S _ _ Hi) (inj_upto_S _ _ Hs) (disj_upto_S _ _ _ Hd)) as [Hw Hf]. cbn zeta in Hw, Hf.
      assert (Hsn : loopn (swap1 D S) n m (S (Z.of_nat n)) = m (S (Z.of_nat n))).
      { apply Hf; intros j Hj E.
        - apply (Hd j (Z.of_nat n)); [lia|lia|congruence].
        - assert (j = Z.of_nat n) by (apply Hs; [lia|lia|congruence]). lia. }
      assert (Hdn : loopn (swap1 D S) n m (D (Z.of_nat n)) = m (D (Z.of_nat n))).
      { apply Hf; intros j Hj E.
        - assert (j = Z.of_nat n) by (apply Hi; [lia|lia|congruence]). lia.
        - apply (Hd (Z.of_nat n) j); [lia|lia|congruence]. }
      split.
      + unfold swap1 at 1 3. rewrite Hsn, Hdn. intros k Hk. destruct (Z.eq_dec k (Z.of_nat n)) as [->|Hne].
        * split; [|rewrite upd_same; reflexivity].
          rewrite upd_other by (apply (Hd (Z.of_nat n) (Z.of_nat n)); lia). rewrite upd_same. reflexivity.
        * assert (Hk' : 0 <= k < Z.of_nat n) by lia. destruct (Hw k Hk') as [Hwd Hws]. split.
          -- rewrite upd_other by (apply (Hd k (Z.of_nat n)); lia).
             rewrite upd_other by (intro E; apply Hne; apply Hi; [lia|lia|exact E]). exact Hwd.
          -- rewrite upd_other by (intro E; apply Hne; apply Hs; [lia|lia|exact E]).
             rewrite upd_other by (intro E; apply (Hd (Z.of_nat n) k); [lia|lia|congruence]). exact Hws.
      + unfold swap1 at 1. intros p Hp Hp'. rewrite upd_other by (apply Hp'; lia). rewrite upd_other by (apply Hp; lia).
        apply Hf; intros k Hk; [apply Hp|apply Hp']; lia.
  Qed.
End Loops.

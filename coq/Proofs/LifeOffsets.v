(* Offsets of an index block inside row-major arrays (reextent's transfer of the common elements). *)
From BM Require Import Base.Tactics Model.Life Proofs.LifeBase.
Local Open Scope Z_scope.

(* every non-empty dimension of the block lies inside the extensions (f, e) *)
Fixpoint inside (e f : list Z) (is : bx) : Prop :=
  match e, f, is with
  | e0 :: e', f0 :: f', (i0, n) :: is' => 0 <= n /\ (n = 0 \/ (f0 <= i0 /\ i0 + n <= f0 + e0)) /\ inside e' f' is'
  | [], [], [] => True
  | _, _, _ => False
  end.

Lemma block_offsets_bound e : forall f is, inside e f is ->
  Forall (fun o => 0 <= o < numel e) (block_offsets e f is).
Proof.
  induction e as [|e0 e' IH]; intros f is H.
  - destruct f, is; cbn in *; try contradiction. constructor; [cbn; lia|constructor].
  - destruct f as [|f0 f']; [destruct is as [|[] ?]; cbn in H; contradiction|].
    destruct is as [|[i0 n] is']; [cbn in H; contradiction|].
    cbn in H. destruct H as (Hn & Hin & H').
    cbn [block_offsets]. apply Forall_forall. intros o Ho. apply in_flat_map in Ho. destruct Ho as (j & Hj & Ho).
    apply in_map_iff in Ho. destruct Ho as (o' & <- & Ho').
    apply in_seq in Hj. specialize (IH f' is' H'). eapply Forall_forall in IH; [|exact Ho'].
    change (numel (e0 :: e')) with (e0 * numel e').
    destruct Hin as [->|[H1 H2]]; [cbn in Hj; lia|].
    assert (0 <= i0 + Z.of_nat j - f0 < e0) by lia. nia.
Qed.

Lemma inter_inside_l : forall a b, length a = length b ->
  inside (bx_sizes a) (bx_firsts a) (bx_inter a b).
Proof.
  induction a as [|[fa sa] a IH]; intros [|[fb sb] b] Hl; cbn in *; try discriminate; auto.
  split; [lia|]. split; [|apply IH; lia].
  destruct (Z.eq_dec (Z.min (fa + sa) (fb + sb) - Z.min (Z.max fa fb) (Z.min (fa + sa) (fb + sb))) 0); [left; auto|right; lia].
Qed.

Lemma inter_inside_r : forall a b, length a = length b ->
  inside (bx_sizes b) (bx_firsts b) (bx_inter a b).
Proof.
  induction a as [|[fa sa] a IH]; intros [|[fb sb] b] Hl; cbn in *; try discriminate; auto.
  split; [lia|]. split; [|apply IH; lia].
  destruct (Z.eq_dec (Z.min (fa + sa) (fb + sb) - Z.min (Z.max fa fb) (Z.min (fa + sa) (fb + sb))) 0); [left; auto|right; lia].
Qed.

Lemma combine_sizes f e : length f = length e -> bx_sizes (combine f e) = e /\ bx_firsts (combine f e) = f.
Proof.
  revert e; induction f as [|a f IH]; destruct e; cbn; intros H; try discriminate; auto.
  destruct (IH e ltac:(lia)) as [H1 H2]. unfold bx_sizes, bx_firsts in *. rewrite H1, H2. auto.
Qed.

(* a non-empty intersection means both extensions are non-empty *)
Lemma bnumel_cons f n x : bnumel ((f, n) :: x) = n * bnumel x.
Proof. reflexivity. Qed.
Lemma bx_inter_cons fa sa a fb sb b :
  bx_inter ((fa, sa) :: a) ((fb, sb) :: b) =
  (Z.min (Z.max fa fb) (Z.min (fa + sa) (fb + sb)), Z.min (fa + sa) (fb + sb) - Z.min (Z.max fa fb) (Z.min (fa + sa) (fb + sb)))
  :: bx_inter a b.
Proof. reflexivity. Qed.

Lemma inter_nonneg : forall a b, length a = length b -> 0 <= bnumel (bx_inter a b).
Proof.
  induction a as [|[fa sa] a IH]; intros [|[fb sb] b] Hl; try discriminate.
  rewrite bx_inter_cons, bnumel_cons. apply Z.mul_nonneg_nonneg; [lia|]. apply IH. cbn in Hl. lia.
Qed.

Lemma inter_pos : forall a b, length a = length b -> 0 < bnumel (bx_inter a b) -> 0 < bnumel a /\ 0 < bnumel b.
Proof.
  induction a as [|[fa sa] a IH]; intros [|[fb sb] b] Hl; try discriminate.
  { unfold bnumel, numel; cbn. lia. }
  rewrite bx_inter_cons, !bnumel_cons. intros H.
  assert (Hl' : length a = length b) by (cbn in Hl; lia).
  pose proof (inter_nonneg a b Hl') as Hnn.
  set (n := Z.min (fa + sa) (fb + sb) - Z.min (Z.max fa fb) (Z.min (fa + sa) (fb + sb))) in *.
  assert (Hn : 0 <= n) by (unfold n; lia).
  assert (0 < n /\ 0 < bnumel (bx_inter a b)) as [Hn' Hr] by nia.
  destruct (IH b Hl' Hr) as [Ha Hb].
  assert (0 < sa /\ 0 < sb) by (unfold n in Hn'; lia). nia.
Qed.

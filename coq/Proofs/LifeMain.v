(* Histories: every history of array.hpp entry points in its documented domain keeps the ownership invariant,
   with and without an injected fault. *)
From BM Require Import Base.Tactics Model.Life Proofs.LifeBase Proofs.LifeMonad Proofs.LifeInv Proofs.LifeCells
  Proofs.LifeSteps Proofs.LifeCombi Proofs.LifeOps Proofs.LifeOps2 Proofs.LifeOps3 Proofs.LifeOps4 Proofs.LifeDisc.
Local Open Scope Z_scope.

Section Main.
Variable cfg : config.
Hypothesis rank_pos : (1 <= c_rank cfg)%nat.

Notation Inv := (Inv cfg).
Notation Good := (Good cfg).
Notation GoodT := (GoodT cfg).

Theorem step_ok : forall o, op_ok cfg o.
Proof.
  destruct o.
  - apply ok_CtorDefault; auto. - apply ok_CtorSized; auto. - apply ok_CtorFill; auto. - apply ok_CtorCopy; auto.
  - apply ok_CtorCopyAlloc; auto. - apply ok_CtorMove; auto. - apply ok_CtorMoveAlloc; auto. - apply ok_CtorView; auto.
  - apply ok_CtorRange; auto. - apply ok_CtorIl; auto. - apply ok_CtorConv; auto. - apply ok_AssignCopy; auto.
  - apply ok_AssignMove; auto. - apply ok_AssignView; auto. - apply ok_AssignRange; auto. - apply ok_AssignIlEmpty; auto.
  - apply ok_AssignFill; auto. - apply ok_AssignConv; auto. - apply ok_Swap; auto. - apply ok_Clear; auto.
  - apply ok_Reextent; auto. - apply ok_ReextentMove; auto. - apply ok_Reshape; auto. - apply ok_Write; auto.
  - apply ok_Destroy; auto. - apply ok_ViewAssign; auto.
Qed.

(* histories in the documented domain *)
Fixpoint hist_dom (h : list lop) (s : state) : Prop :=
  match h with
  | [] => True
  | o :: rest => dom_op cfg (s_arrs s) o /\ hist_dom rest (snd (run_op cfg o s))
  end.

Definition not_err (o : outcome) : Prop := match o with OutErr _ => False | _ => True end.

Lemma Good_reset s : Good s -> Good (reset_counts s).
Proof. intros (I & W & T). split; [eapply Inv_ext; [| |exact I]; reflexivity|]. split; auto. Qed.

Lemma bad_ext s s' : ledger_ext s s' -> bad_thrown s -> bad_thrown s'.
Proof.
  intros L [H|[H|H]]; [left|right; left|right; right]; unfold thrown in *; eapply ledger_ext_in; eauto.
Qed.

(* unwinding of the temporaries after an exception *)
Lemma unwind1_ok t s : (t = TMP1 \/ t = TMP2 \/ t = TMP3) -> Inv [] s -> wf_slots (s_arrs s) ->
  match unwind1 cfg t s with
  | Ok _ s' => Inv [] s' /\ wf_slots (s_arrs s') /\ nth_error (s_arrs s') t = Some None
               /\ (forall q, q <> t -> nth_error (s_arrs s') q = nth_error (s_arrs s) q)
  | _ => False
  end.
Proof.
  intros Ht I W. unfold unwind1.
  assert (Hlt : (t < length (s_arrs s))%nat).
  { rewrite (inv_nslots _ _ _ I). unfold NSLOTS, TMP1, TMP2, TMP3 in *. destruct Ht as [->|[->| ->]]; lia. }
  destruct (nth_error (s_arrs s) t) as [[a|]|] eqn:E.
  - pose proof (dtor_ok cfg rank_pos [] (s_arrs s) t a E s (conj I eq_refl)) as Tr.
    destruct (p_dtor cfg t s) as [[] s'|s'|e]; try contradiction. destruct Tr as [I' HA]. split; auto.
    rewrite HA. split; [apply wf_slots_upd; auto; intros ? ?; discriminate|]. split.
    + apply nth_upd_same; auto.
    + intros q Hq. apply nth_upd_other; auto.
  - auto.
  - apply nth_error_None in E. lia.
Qed.

Lemma unwind_ok s : Inv [] s -> wf_slots (s_arrs s) ->
  match unwind cfg s with Ok _ s' => Good s' | _ => False end.
Proof.
  intros I W. unfold unwind, bind.
  pose proof (unwind1_ok TMP1 s (or_introl eq_refl) I W) as H1.
  destruct (unwind1 cfg TMP1 s) as [[] s1|s1|e]; try contradiction. destruct H1 as (I1 & W1 & N1 & F1).
  pose proof (unwind1_ok TMP2 s1 (or_intror (or_introl eq_refl)) I1 W1) as H2.
  destruct (unwind1 cfg TMP2 s1) as [[] s2|s2|e]; try contradiction. destruct H2 as (I2 & W2 & N2 & F2).
  pose proof (unwind1_ok TMP3 s2 (or_intror (or_intror eq_refl)) I2 W2) as H3.
  destruct (unwind1 cfg TMP3 s2) as [[] s3|s3|e]; try contradiction. destruct H3 as (I3 & W3 & N3 & F3).
  split; auto. split; auto. unfold tmps_free. split; [|split]; auto.
  - rewrite F3, F2 by (unfold TMP1, TMP2, TMP3; lia). auto.
  - rewrite F3 by (unfold TMP2, TMP3; lia). auto.
Qed.

(* one operation, caught by the caller *)
Lemma run_op_good o s : Good s -> dom_op cfg (s_arrs s) o ->
  let '(out, s') := run_op cfg o s in
  ledger_ext s s' /\ ((Good s' /\ not_err out) \/ bad_thrown s').
Proof.
  intros G D. unfold run_op.
  pose proof (Good_reset s G) as (I & W & T).
  pose proof (step_ok o (s_arrs (reset_counts s)) W T D (reset_counts s) (conj I eq_refl)) as Tr.
  pose proof (disc_step_op cfg o (reset_counts s)) as Ds.
  destruct (step cfg o (reset_counts s)) as [[] s1|s1|e]; try contradiction.
  - destruct Ds as [L _]. split; [exact L|]. left. split; auto. exact Logic.I.
  - destruct Ds as [L _].
    pose proof (disc_unwind cfg s1) as Du.
    destruct Tr as [[I1 W1]|B].
    + pose proof (unwind_ok s1 I1 W1) as U. destruct (unwind cfg s1) as [[] s2|s2|e]; try contradiction.
      destruct Du as [L2 _]. split; [eapply ledger_ext_trans; eauto|]. left. split; auto. exact Logic.I.
    + destruct (unwind cfg s1) as [[] s2|s2|e].
      * destruct Du as [L2 _]. split; [eapply ledger_ext_trans; eauto|]. right. eapply bad_ext; eauto.
      * destruct Du as [L2 _]. split; [eapply ledger_ext_trans; eauto|]. right. eapply bad_ext; eauto.
      * split; [exact L|]. right. exact B.
Qed.

Lemma run_op_ledger o s : ledger_ext s (snd (run_op cfg o s)).
Proof.
  unfold run_op. pose proof (disc_step_op cfg o (reset_counts s)) as Ds.
  destruct (step cfg o (reset_counts s)) as [[] s1|s1|e]; cbn.
  - apply Ds. - pose proof (disc_unwind cfg s1) as Du. destruct Ds as [L _].
    destruct (unwind cfg s1) as [[] s2|s2|e]; cbn; auto; destruct Du as [L2 _]; eapply ledger_ext_trans; eauto.
  - apply ledger_ext_refl.
Qed.

Lemma run_life_ledger h : forall s, ledger_ext s (snd (run_life cfg h s)).
Proof.
  induction h as [|o h IH]; intros s; cbn; [apply ledger_ext_refl|].
  pose proof (run_op_ledger o s) as L. destruct (run_op cfg o s) as [out s1]. cbn in L.
  destruct out; cbn; auto; specialize (IH s1); destruct (run_life cfg h s1) as [outs s2]; cbn in *; eapply ledger_ext_trans; eauto.
Qed.

(* the main invariant theorem: any history, with or without a pending fault *)
Theorem life_safe h : forall s, Good s -> hist_dom h s ->
  let '(outs, s') := run_life cfg h s in
  (Good s' /\ Forall not_err outs) \/ bad_thrown s'.
Proof.
  induction h as [|o h IH]; intros s G D; cbn.
  - left. split; auto.
  - destruct D as [Do Dr].
    pose proof (run_op_good o s G Do) as Ho.
    destruct (run_op cfg o s) as [out s1] eqn:E. cbn in Dr. destruct Ho as [L [[G1 Ne]|B]].
    + specialize (IH s1 G1 Dr). destruct out; try contradiction.
      * destruct (run_life cfg h s1) as [outs s2]. destruct IH as [[G2 F]|B2]; [left; split; auto|right; auto].
      * destruct (run_life cfg h s1) as [outs s2]. destruct IH as [[G2 F]|B2]; [left; split; auto|right; auto].
    + pose proof (run_life_ledger h s1) as L2.
      destruct out.
      * destruct (run_life cfg h s1) as [outs s2]; cbn in L2. right. eapply bad_ext; [exact L2|exact B].
      * destruct (run_life cfg h s1) as [outs s2]; cbn in L2. right. eapply bad_ext; [exact L2|exact B].
      * right. exact B.
Qed.

(* without a pending fault nothing throws *)
Lemma run_op_quiet o s : s_fault s = None ->
  let '(out, s') := run_op cfg o s in quiet s s' /\ (out = OutOk \/ exists e, out = OutErr e).
Proof.
  intros Hf. unfold run_op. pose proof (disc_step_op cfg o (reset_counts s)) as Ds.
  destruct (step cfg o (reset_counts s)) as [[] s1|s1|e].
  - destruct Ds as [_ Q]. split; auto.
  - destruct Ds as [_ N]. exfalso. apply N. exact Hf.
  - split; [apply quiet_refl|]. right. eauto.
Qed.

Lemma run_life_quiet h : forall s, s_fault s = None ->
  let '(outs, s') := run_life cfg h s in quiet s s' /\ Forall (fun o => o = OutOk \/ exists e, o = OutErr e) outs.
Proof.
  induction h as [|o h IH]; intros s Hf; cbn; [split; [apply quiet_refl|constructor]|].
  pose proof (run_op_quiet o s Hf) as Ho. destruct (run_op cfg o s) as [out s1]. destruct Ho as [Q Ho].
  destruct (Q Hf) as [Hf1 _]. specialize (IH s1 Hf1).
  destruct out; try (destruct Ho as [Ho|[e Ho]]; discriminate).
  - destruct (run_life cfg h s1) as [outs s2]. destruct IH as [Q2 F]. split; [eapply quiet_trans; eauto|constructor; auto].
  - split; auto.
Qed.

Lemma Good_st0 f : Good (st0 f).
Proof.
  split; [|split].
  - constructor; cbn.
    + reflexivity.
    + intros b blk H. unfold get_blk in H; cbn in H. destruct b; discriminate.
    + intros r a H Hp. unfold get_slot in H; cbn in H. do 9 (destruct r as [|r]; [discriminate|]). destruct r; discriminate.
    + intros r r' b (a & H & _). unfold get_slot in H; cbn in H. do 9 (destruct r as [|r]; [discriminate|]). destruct r; discriminate.
    + intros b blk H. unfold get_blk in H; cbn in H. destruct b; discriminate.
    + intros b [].
    + constructor.
  - intros r a H. cbn in H. do 9 (destruct r as [|r]; [discriminate|]). destruct r; discriminate.
  - unfold tmps_free; cbn. auto.
Qed.

(* fault-free histories *)
Theorem life_safe_nofault h : hist_dom h (st0 None) ->
  let '(outs, s') := run_life cfg h (st0 None) in Good s' /\ Forall (fun o => o = OutOk) outs.
Proof.
  intros D. pose proof (life_safe h (st0 None) (Good_st0 None) D) as S.
  pose proof (run_life_quiet h (st0 None) eq_refl) as Q.
  destruct (run_life cfg h (st0 None)) as [outs s']. destruct Q as [Q F]. destruct (Q eq_refl) as [_ Hev].
  destruct S as [[G Ne]|B].
  - split; auto. clear - F Ne. induction outs; constructor; inv F; inv Ne; auto.
    destruct H1 as [|[e ->]]; auto. contradiction.
  - exfalso. destruct B as [B|[B|B]]; apply Hev in B; destruct B.
Qed.

(* single-fault histories: every history, every injection point *)
Definition ok_site (w : site) : Prop := w = SAlloc \/ w = SAssignElem.

Theorem life_safe_fault h k : hist_dom h (st0 (Some k)) ->
  let '(outs, s') := run_life cfg h (st0 (Some k)) in
  (forall w, In (EvThrow w) (s_ledger s') -> ok_site w) -> Good s' /\ Forall not_err outs.
Proof.
  intros D. pose proof (life_safe h (st0 (Some k)) (Good_st0 _) D) as S.
  destruct (run_life cfg h (st0 (Some k))) as [outs s']. intros Hs.
  destruct S as [G|[B|[B|B]]]; auto; apply Hs in B; destruct B; discriminate.
Qed.

End Main.

(* Lemmas about L1 (Layout.v) for zero-based views: the representation invariant dim_ok and
   how the permutations act on it and on addresses. *)
From BM Require Import Base.Tactics Model.Layout Model.View Model.Spec.
Local Open Scope Z_scope.

(* A dimension of a zero-based view with n valid indices. *)
Definition dim_ok (d : dim) (n : Z) : Prop :=
  d_offset d = 0 /\ d_nelems d = n * d_stride d /\ 0 <= n /\ (0 < n -> 0 < d_stride d).
Definition lay_ok (l : layout) (sz : list Z) : Prop := Forall2 dim_ok l sz.

Lemma dim_ok_size d n : dim_ok d n -> d_size d = n.
Proof.
  unfold dim_ok, d_size. intros (Ho & Hn & H0 & Hs).
  destruct (d_nelems d =? 0) eqn:E; bprop.
  - destruct (Z.eq_dec n 0) as [->|Hne]; [reflexivity|]. assert (0 < d_stride d) by lia. nia.
  - assert (n <> 0) by (intro; subst; lia). assert (0 < d_stride d) by lia.
    rewrite Hn. apply Z.quot_mul. lia.
Qed.

Lemma dim_ok_extension d n : dim_ok d n -> d_extension d = (0, n).
Proof.
  intros H. pose proof (dim_ok_size _ _ H) as Hsz. unfold d_size in Hsz.
  destruct H as (Ho & Hn & H0 & Hs). unfold d_extension. revert Hsz.
  destruct (d_nelems d =? 0) eqn:E; intros Hsz.
  - subst n. reflexivity.
  - rewrite Ho. rewrite Z.add_0_l, Hsz. reflexivity.
Qed.

Lemma lay_ok_sizes l sz : lay_ok l sz -> l_sizes l = sz.
Proof. induction 1; cbn; [reflexivity|]. f_equal; auto using dim_ok_size. Qed.

Lemma lay_ok_extensions l sz : lay_ok l sz -> l_extensions l = map (fun n => (0, n)) sz.
Proof. induction 1; cbn; [reflexivity|]. f_equal; auto using dim_ok_extension. Qed.

Lemma lay_ok_num_elements l sz : lay_ok l sz -> l_num_elements l = prod sz.
Proof.
  induction 1 as [|d n l sz Hd _ IH]; cbn; [reflexivity|].
  rewrite (dim_ok_size _ _ Hd), IH. reflexivity.
Qed.

Lemma lay_ok_length l sz : lay_ok l sz -> length l = length sz.
Proof. induction 1; cbn; auto. Qed.

Lemma valid_idx_length sz idx : valid_idx sz idx -> length idx = length sz.
Proof. induction 1; cbn; auto. Qed.

Lemma valid_idxb_spec sz idx : valid_idxb sz idx = true <-> valid_idx sz idx.
Proof.
  revert idx; induction sz as [|n sz IH]; intros [|i idx]; cbn; split; intros H;
    try discriminate; try constructor; try (now inversion H).
  - bprop. lia.
  - bprop. apply IH; assumption.
  - inv H. rewrite (proj2 (IH idx)) by assumption. lia.
Qed.

(* ---- addresses ---- *)
Lemma l_addr_app l1 l2 i1 i2 :
  length l1 = length i1 -> l_addr (l1 ++ l2) (i1 ++ i2) = l_addr l1 i1 + l_addr l2 i2.
Proof.
  revert i1; induction l1 as [|d l1 IH]; intros [|i i1] H; cbn in *; try discriminate.
  - destruct l2, i2; reflexivity.
  - rewrite IH by lia. lia.
Qed.

Lemma l_addr_nil_r l : l_addr l [] = 0.
Proof. destruct l; reflexivity. Qed.

(* ---- rotations ---- *)
Lemma rot_ins_app a r : rot_ins a r = r ++ [a].
Proof. induction r as [|b r IH]; cbn; [reflexivity|]. now rewrite IH. Qed.

Lemma l_rotate_cons a r : l_rotate (a :: r) = r ++ [a].
Proof. apply rot_ins_app. Qed.

Lemma l_unrotate_snoc r a : l_unrotate (r ++ [a]) = a :: r.
Proof.
  induction r as [|b r IH]; cbn; [reflexivity|]. rewrite IH. reflexivity.
Qed.

Lemma l_unrotate_rotate l : l_unrotate (l_rotate l) = l.
Proof. destruct l as [|a r]; [reflexivity|]. rewrite l_rotate_cons. apply l_unrotate_snoc. Qed.

Lemma t_unrot_snoc {A} (r : list A) a : t_unrot (r ++ [a]) = a :: r.
Proof. unfold t_unrot. rewrite rev_app_distr. cbn. now rewrite rev_involutive. Qed.

Lemma t_rot_cons {A} (a : A) r : t_rot (a :: r) = r ++ [a].
Proof. reflexivity. Qed.

Lemma Forall2_snoc {A B} (R : A -> B -> Prop) l l' a b :
  Forall2 R l l' -> R a b -> Forall2 R (l ++ [a]) (l' ++ [b]).
Proof. intros. apply Forall2_app; auto. Qed.

Lemma Forall2_snoc_inv {A B} (R : A -> B -> Prop) l x l' :
  Forall2 R (l ++ [x]) l' -> exists m y, l' = m ++ [y] /\ Forall2 R l m /\ R x y.
Proof.
  intros H. apply Forall2_app_inv_l in H as (m & m2 & Hm & H2 & ->).
  inv H2. match goal with H : Forall2 _ [] _ |- _ => inv H end. eauto.
Qed.

Lemma Forall2_snoc_inv_r {A B} (R : A -> B -> Prop) l l' y :
  Forall2 R l (l' ++ [y]) -> exists m x, l = m ++ [x] /\ Forall2 R m l' /\ R x y.
Proof.
  intros H. apply Forall2_app_inv_r in H as (m & m2 & Hm & H2 & ->).
  inv H2. match goal with H : Forall2 _ _ [] |- _ => inv H end. eauto.
Qed.

Lemma Forall2_rev {A B} (R : A -> B -> Prop) l l' :
  Forall2 R l l' -> Forall2 R (rev l) (rev l').
Proof. induction 1; cbn; [constructor|]. apply Forall2_snoc; auto. Qed.

Lemma l_addr_rev l idx : length l = length idx -> l_addr (rev l) (rev idx) = l_addr l idx.
Proof.
  revert idx; induction l as [|d l IH]; intros [|i idx] H; cbn in *; try discriminate; [reflexivity|].
  rewrite l_addr_app by (rewrite !rev_length; lia). rewrite IH by lia. cbn. lia.
Qed.

(* ---- the root array ---- *)
Lemma prod_collapse sz : prod (collapse sz) = prod sz.
Proof.
  induction sz as [|n r IH]; [reflexivity|]. cbn [collapse prod fold_right] in *.
  fold (prod (collapse r)). fold (prod r). rewrite IH.
  destruct (prod r =? 0) eqn:E; bprop; [rewrite E; lia|reflexivity].
Qed.

Definition zb (sz : list Z) : list range := map (fun n => (0, n)) sz.

Lemma mk_layout_ok sz : Forall (fun n => 0 <= n) sz -> lay_ok (mk_layout (zb sz)) (collapse sz).
Proof.
  induction 1 as [|n r Hn Hr IH]; cbn [zb map mk_layout collapse]; [constructor|].
  fold (zb r). constructor; [|exact IH].
  rewrite (lay_ok_num_elements _ _ IH), prod_collapse.
  unfold dim_ok, r_size; cbn.
  destruct (prod r =? 0) eqn:E; bprop.
  - rewrite E. repeat split; lia.
  - assert (0 <= prod r).
    { clear -Hr. induction Hr; cbn; [lia|]. fold (prod l). nia. }
    repeat split; lia.
Qed.

Lemma mk_layout_addr sz idx :
  Forall (fun n => 0 <= n) sz -> valid_idx (collapse sz) idx ->
  l_addr (mk_layout (zb sz)) idx = rowmajor (collapse sz) idx.
Proof.
  intros Hsz; revert idx; induction Hsz as [|n r Hn Hr IH]; intros idx Hv.
  - inv Hv. reflexivity.
  - cbn [zb map mk_layout collapse] in *. fold (zb r) in *. inv Hv.
    cbn [l_addr rowmajor d_stride d_offset]. rewrite IH by assumption.
    fold (prod (collapse r)). rewrite prod_collapse.
    rewrite (lay_ok_num_elements _ _ (mk_layout_ok _ Hr)), prod_collapse. cbn [fst].
    destruct (prod r =? 0) eqn:E; bprop; lia.
Qed.

Lemma rowmajor_bounds sz idx : valid_idx sz idx -> 0 <= rowmajor sz idx < prod sz.
Proof.
  induction 1 as [|n i sz idx Hi _ IH]; cbn; [lia|]. fold (prod sz). nia.
Qed.

(* C20, lifecycle part: for every fault-free history in the documented domain of Model/Life.v (hist_dom) no transcribed
   assertion of the array.hpp entry points is false.  Uses the ownership invariant Good of Proofs/LifeOps.v (an array with
   elements has a non-null base) and the one-step preservation run_op_good of Proofs/LifeMain.v, read-only. *)
From BM Require Import Base.Tactics Model.Life Model.AssertsLife Proofs.LifeBase Proofs.LifeMonad Proofs.LifeInv
  Proofs.LifeOps Proofs.LifeOps4 Proofs.LifeDisc Proofs.LifeMain.
Local Open Scope Z_scope.

(* ---------------- strides of layout_t(extensions) are never 0 ---------------- *)
Lemma stride_ok_always e : stride_ok e = true.
Proof.
  unfold stride_ok, lead_stride. destruct (numel (tl e) =? 0) eqn:E; [reflexivity|]. rewrite E. reflexivity.
Qed.

(* ---------------- the intersection block lies inside both operands ---------------- *)
Lemma asrt_block_inter_l : forall a b, asrt_block a (bx_inter a b) = true.
Proof.
  induction a as [|[fa sa] a IH]; intros [|[fb sb] b]; try reflexivity.
  unfold bx_inter. cbn [combine map asrt_block]. fold (bx_inter a b). rewrite IH, andb_true_r.
  set (f := Z.max fa fb). set (l := Z.min (fa + sa) (fb + sb)).
  destruct (l - Z.min f l =? 0) eqn:E; [reflexivity|]. bprop. cbn [orb].
  apply andb_true_intro; split; apply andb_true_intro; split; bsolve; unfold f, l in *; lia.
Qed.
Lemma asrt_block_inter_r : forall a b, asrt_block b (bx_inter a b) = true.
Proof.
  induction a as [|[fa sa] a IH]; intros [|[fb sb] b]; try reflexivity.
  unfold bx_inter. cbn [combine map asrt_block]. fold (bx_inter a b). rewrite IH, andb_true_r.
  set (f := Z.max fa fb). set (l := Z.min (fa + sa) (fb + sb)).
  destruct (l - Z.min f l =? 0) eqn:E; [reflexivity|]. bprop. cbn [orb].
  apply andb_true_intro; split; apply andb_true_intro; split; bsolve; unfold f, l in *; lia.
Qed.

(* a non-empty intersection: every dimension of the left operand it covers is non-empty *)
Lemma inter_pos_l : forall a b, length a = length b -> 0 < bnumel (bx_inter a b) -> 0 < bnumel a.
Proof.
  unfold bnumel. induction a as [|[fa sa] a IH]; intros [|[fb sb] b] Hl H; cbn in Hl; try discriminate; [cbn; lia|].
  unfold bx_inter in H. cbn [combine map bx_sizes snd numel fold_right] in *. fold (bx_inter a b) in H.
  fold (numel (bx_sizes (bx_inter a b))) in H. fold (numel (bx_sizes a)).
  set (n := Z.min (fa + sa) (fb + sb) - Z.min (Z.max fa fb) (Z.min (fa + sa) (fb + sb))) in *.
  assert (Hn : 0 <= n) by (unfold n; lia).
  assert (Hr : 0 < numel (bx_sizes (bx_inter a b))).
  { change (numel (bx_sizes (bx_inter a b))) with (fold_right Z.mul 1 (map snd (bx_inter a b))). nia. }
  assert (Hn' : 0 < n) by nia.
  specialize (IH b ltac:(lia) Hr). change (numel (bx_sizes a)) with (fold_right Z.mul 1 (map snd a)) in IH.
  assert (0 < sa) by (unfold n in Hn'; lia). nia.
Qed.

Lemma bx_sizes_combine f e : length f = length e -> bx_sizes (combine f e) = e.
Proof.
  revert e; induction f as [|x f IH]; intros [|y e] H; cbn in *; try discriminate; [reflexivity|].
  f_equal. apply IH. lia.
Qed.

Lemma numel_mk_sizes x : numel (mk_sizes x) = bnumel x.
Proof. unfold mk_sizes, bnumel. apply numel_collapse. Qed.

(* ---------------- a view with elements reports extensions that layout_t(extensions) reproduces ---------------- *)
Lemma collapse_nonzero e : numel e <> 0 -> collapse e = e.
Proof.
  induction e as [|n e IH]; intros H; [reflexivity|]. cbn [collapse numel fold_right] in *. fold (numel e) in *.
  assert (He : numel e <> 0) by (intro Z0; rewrite Z0 in H; lia).
  rewrite (IH He). replace (numel e =? 0) with false by (symmetry; apply Z.eqb_neq; assumption). reflexivity.
Qed.

Lemma bx_eq_refl x : bx_eq x x = true.
Proof. induction x as [|[f s] x IH]; [reflexivity|]. cbn [bx_eq]. rewrite !Z.eqb_refl, IH, orb_true_r. reflexivity. Qed.

Lemma numel_nonzero_all e : numel e <> 0 -> Forall (fun n => n <> 0) e.
Proof.
  induction e as [|n e IH]; intros H; constructor; cbn [numel fold_right] in H; fold (numel e) in H.
  - intro Z0; subst; lia.
  - apply IH. intro Z0; rewrite Z0 in H; lia.
Qed.

Definition zero_first (p : Z * Z) : Z := if snd p =? 0 then 0 else fst p.
Lemma mk_firsts_unfold x : mk_firsts x = map zero_first (combine (bx_firsts x) (mk_sizes x)).
Proof. reflexivity. Qed.

Lemma combine_firsts_sizes x : combine (bx_firsts x) (bx_sizes x) = x.
Proof. induction x as [|[f s] x IH]; cbn; [reflexivity|]. f_equal. exact IH. Qed.

Lemma zero_first_nonzero : forall F S, Forall (fun n => n <> 0) S -> length F = length S ->
  map zero_first (combine F S) = F.
Proof.
  induction F as [|f F IH]; intros [|n S] H Hl; cbn in *; try discriminate; [reflexivity|]. inv H.
  unfold zero_first at 1. cbn. replace (n =? 0) with false by (symmetry; apply Z.eqb_neq; assumption).
  f_equal. apply IH; [assumption|lia].
Qed.

Lemma norm_bx_nonempty x : bnumel x <> 0 -> norm_bx x = x.
Proof.
  intros H. unfold bnumel in H. unfold norm_bx. rewrite mk_firsts_unfold. unfold mk_sizes.
  rewrite (collapse_nonzero _ H).
  rewrite zero_first_nonzero; [apply combine_firsts_sizes|apply numel_nonzero_all; assumption|].
  unfold bx_firsts, bx_sizes. rewrite !map_length. reflexivity.
Qed.

(* ---------------- layout_t(extensions) of what an array already reports changes nothing ---------------- *)
Lemma collapse_idem e : collapse (collapse e) = collapse e.
Proof.
  induction e as [|n e IH]; [reflexivity|]. cbn [collapse]. rewrite IH, numel_collapse.
  destruct (numel e =? 0); reflexivity.
Qed.
Lemma mk_sizes_length x : length (mk_sizes x) = length x.
Proof. unfold mk_sizes, bx_sizes. rewrite collapse_length, map_length. reflexivity. Qed.
Lemma mk_firsts_length x : length (mk_firsts x) = length x.
Proof.
  rewrite mk_firsts_unfold, map_length, combine_length, mk_sizes_length. unfold bx_firsts. rewrite map_length. lia.
Qed.
Lemma bx_firsts_combine f e : length f = length e -> bx_firsts (combine f e) = f.
Proof.
  revert e; induction f as [|x f IH]; intros [|y e] H; cbn in *; try discriminate; [reflexivity|].
  f_equal. apply IH. lia.
Qed.
Lemma bx_sizes_norm x : bx_sizes (norm_bx x) = mk_sizes x.
Proof. unfold norm_bx. apply bx_sizes_combine. rewrite mk_firsts_length, mk_sizes_length. reflexivity. Qed.
Lemma bx_firsts_norm x : bx_firsts (norm_bx x) = mk_firsts x.
Proof. unfold norm_bx. apply bx_firsts_combine. rewrite mk_firsts_length, mk_sizes_length. reflexivity. Qed.
Lemma zero_first_idem : forall F S, map zero_first (combine (map zero_first (combine F S)) S) = map zero_first (combine F S).
Proof.
  induction F as [|f F IH]; intros [|n S]; cbn; try reflexivity. rewrite IH. f_equal.
  unfold zero_first; cbn. destruct (n =? 0); reflexivity.
Qed.
Lemma norm_bx_idem x : norm_bx (norm_bx x) = norm_bx x.
Proof.
  unfold norm_bx at 1. rewrite mk_firsts_unfold. unfold mk_sizes at 1 2. rewrite bx_sizes_norm, bx_firsts_norm.
  unfold mk_sizes at 1 2. rewrite collapse_idem. fold (mk_sizes x).
  rewrite mk_firsts_unfold, zero_first_idem. reflexivity.
Qed.
Lemma bnumel_norm x : bnumel (norm_bx x) = bnumel x.
Proof. unfold bnumel at 1. rewrite bx_sizes_norm. apply numel_mk_sizes. Qed.

Lemma inter_pos_r : forall a b, length a = length b -> 0 < bnumel (bx_inter a b) -> 0 < bnumel b.
Proof.
  unfold bnumel. induction a as [|[fa sa] a IH]; intros [|[fb sb] b] Hl H; cbn in Hl; try discriminate; [cbn; lia|].
  unfold bx_inter in H. cbn [combine map bx_sizes snd numel fold_right] in *. fold (bx_inter a b) in H.
  fold (numel (bx_sizes (bx_inter a b))) in H. fold (numel (bx_sizes b)).
  set (n := Z.min (fa + sa) (fb + sb) - Z.min (Z.max fa fb) (Z.min (fa + sa) (fb + sb))) in *.
  assert (Hn : 0 <= n) by (unfold n; lia).
  assert (Hr : 0 < numel (bx_sizes (bx_inter a b))).
  { change (numel (bx_sizes (bx_inter a b))) with (fold_right Z.mul 1 (map snd (bx_inter a b))). nia. }
  assert (Hn' : 0 < n) by nia.
  specialize (IH b ltac:(lia) Hr). change (numel (bx_sizes b)) with (fold_right Z.mul 1 (map snd b)) in IH.
  assert (0 < sb) by (unfold n in Hn'; lia). nia.
Qed.

(* ---------------- every operation in its documented domain, on a Good state ---------------- *)
Section Ops.
Variable cfg : config.
Hypothesis rank_pos : (1 <= c_rank cfg)%nat.

Lemma slot_of_live A r a : live A r a -> slot_of A r = Some a.
Proof. intros [_ H]. unfold slot_of. rewrite H. reflexivity. Qed.

Lemma asrt_reshape_ok ar x : bnumel x = nel ar -> asrt_reshape ar x = true.
Proof. intros H. unfold asrt_reshape. rewrite numel_mk_sizes, H, Z.eqb_refl, stride_ok_always. reflexivity. Qed.

Lemma asrt_assign_view_ok ar v mut : asrt_assign_view ar v mut = true.
Proof.
  unfold asrt_assign_view. destruct (bx_eq (arr_bx ar) (vs_exts v)) eqn:E; [reflexivity|].
  destruct (mut && (nel ar =? bnumel (vs_exts v))) eqn:E2; [|apply stride_ok_always].
  apply andb_prop in E2 as [_ E2]. bprop. rewrite asrt_reshape_ok by (symmetry; assumption). cbn [andb].
  destruct (nel ar =? 0) eqn:E3; [reflexivity|]. bprop. cbn [orb].
  rewrite norm_bx_nonempty by (rewrite <- E2; assumption). apply bx_eq_refl.
Qed.

Lemma asrt_assign_conv_ok ar x : asrt_assign_conv ar x = true.
Proof.
  unfold asrt_assign_conv. destruct (bx_eq (arr_bx ar) (norm_bx x)) eqn:E; [reflexivity|].
  destruct (nel ar =? bnumel x) eqn:E2; [|apply stride_ok_always]. bprop.
  rewrite asrt_reshape_ok by (rewrite bnumel_norm; symmetry; assumption).
  rewrite norm_bx_idem. apply bx_eq_refl.
Qed.

Lemma asrt_assign_copy_ok ar as_ : asrt_assign_copy cfg ar as_ = true.
Proof.
  unfold asrt_assign_copy.
  destruct (bx_eq (arr_bx ar) (arr_bx as_) && (negb (c_pocca cfg) || alloc_eq cfg (a_alloc ar) (a_alloc as_))) eqn:E;
    [apply andb_prop in E as [E _]; exact E|apply stride_ok_always].
Qed.

Lemma asrt_reextent_ok s r ar x : Good cfg s -> get_slot s r = Some ar -> length x = length (a_exts ar) ->
  asrt_reextent ar x = true.
Proof.
  intros (I & W & _) Hr Hl. unfold asrt_reextent.
  destruct (bx_eq x (arr_bx ar)); [reflexivity|].
  destruct (bnumel (bx_inter (arr_bx ar) (norm_bx x)) <=? 0) eqn:E; [reflexivity|]. bprop.
  assert (Hw : wf_arr ar).
  { unfold get_slot in Hr. destruct (nth_error (s_arrs s) r) as [o|] eqn:En; [|discriminate]. subst o. exact (W _ _ En). }
  assert (Hlen : length (arr_bx ar) = length (norm_bx x)).
  { unfold arr_bx. rewrite combine_length. unfold norm_bx. rewrite combine_length, mk_firsts_length, mk_sizes_length. unfold wf_arr in Hw. lia. }
  rewrite asrt_block_inter_r, asrt_block_inter_l. cbn [andb].
  pose proof (inter_pos_r _ _ Hlen E) as Pn. rewrite bnumel_norm in Pn.
  replace (0 <? bnumel x) with true by (symmetry; apply Z.ltb_lt; assumption). cbn [orb andb].
  pose proof (inter_pos_l _ _ Hlen E) as Pa.
  assert (Hnel : 0 < nel ar).
  { unfold bnumel, arr_bx in Pa. rewrite bx_sizes_combine in Pa by exact Hw. exact Pa. }
  pose proof (inv_arr cfg [] s I r ar Hr) as Ha. unfold arr_ok in Ha. destruct (Ha Hnel) as (b & blk & Hb & _).
  unfold base_nonnull. rewrite Hb. cbn [orb andb]. apply Z.eqb_refl.
Qed.

Lemma asrt_lop_ok s o : Good cfg s -> dom_op cfg (s_arrs s) o -> asrt_lop cfg (s_arrs s) o = true.
Proof.
  intros G D. destruct o; cbn [asrt_lop dom_op] in *;
    repeat match goal with
           | |- context [match slot_of ?A ?q with _ => _ end] => let E := fresh "Es" in destruct (slot_of A q) eqn:E
           end;
    rewrite ?stride_ok_always, ?asrt_assign_view_ok, ?asrt_assign_conv_ok, ?asrt_assign_copy_ok, ?orb_true_r; try reflexivity.
  - (* reextent *)
    destruct D as (ar & Hlive & Hlen). rewrite (slot_of_live _ _ _ Hlive) in Es. injection Es as <-.
    eapply asrt_reextent_ok; [exact G| |exact Hlen].
    unfold get_slot. destruct Hlive as [_ ->]. reflexivity.
  - (* reshape *)
    destruct D as (ar & Hlive & Hn). rewrite (slot_of_live _ _ _ Hlive) in Es. injection Es as <-.
    apply asrt_reshape_ok. exact Hn.
  - (* view = view: equal extensions are part of the documented domain *)
    destruct D as (_ & _ & _ & Hx). exact Hx.
Qed.

(* ---------------- histories ---------------- *)
Definition no_throw (s : state) : Prop := s_fault s = None /\ forall w, ~ In (EvThrow w) (s_ledger s).

Lemma life_asserts_ok h : forall s, Good cfg s -> no_throw s -> hist_dom cfg h s -> life_asserts cfg h s = true.
Proof.
  induction h as [|o h IH]; intros s G [Hf Hnt] D; cbn [life_asserts hist_dom] in *; [reflexivity|].
  destruct D as [Do Dr]. rewrite (asrt_lop_ok s o G Do). cbn [andb].
  pose proof (run_op_good cfg rank_pos o s G Do) as Ho.
  pose proof (run_op_quiet cfg o s Hf) as Hq.
  destruct (run_op cfg o s) as [out s1]. cbn [snd] in *.
  destruct Hq as [Q _]. destruct (Q Hf) as [Hf1 Hsub].
  assert (Hnt1 : forall w, ~ In (EvThrow w) (s_ledger s1)) by (intros w Hin; exact (Hnt w (Hsub w Hin))).
  destruct Ho as [_ [[G1 _]|B]].
  - apply IH; [exact G1|split; assumption|exact Dr].
  - exfalso. destruct B as [B|[B|B]]; exact (Hnt1 _ B).
Qed.
End Ops.

Theorem C20_lifecycle_asserts_silent_proved :
  forall cfg, (1 <= c_rank cfg)%nat -> forall (h : list lop), hist_dom cfg h (st0 None) ->
    life_asserts cfg h (st0 None) = true.
Proof.
  intros cfg Hr h D. apply life_asserts_ok; [exact Hr|apply Good_st0|split; [reflexivity|intros w []]|exact D].
Qed.

(* non-vacuity: the re-based reextent of DESIGN 7 item 19 and the zero-inner-extent reextent of item 24, a reshape and an
   assignment from a mutable view of equal element count, all in the documented domain *)
Example C20_lifecycle_example :
  let cfg := mkcfg 2 false false false false false false false SoccSame in
  let h := [OCtorFill 0 0 [(1, 3); (2, 3)] 7; OReextent 0 [(2, 4); (2, 3)] (Some 0); OReextent 0 [(0, 4); (0, 0)] (Some 1);
            OCtorFill 1 0 [(0, 2); (0, 3)] 5; OReshape 1 [(0, 3); (0, 2)];
            OCtorFill 2 0 [(0, 6); (0, 1)] 1; OAssignView 2 1 (mkvsrc [(0, 2); (0, 3)] [0; 2; 4; 1; 3; 5]%nat) true] in
  life_asserts cfg h (st0 None) = true /\ Forall (fun o => o = OutOk) (fst (run_life cfg h (st0 None))).
Proof. vm_compute. split; [reflexivity|repeat constructor]. Qed.

(* Rank 0: the operations that MOVE (move construction, move assignment, both swaps, moving the element out, swap through
   references) copy no element: the machine's copy counter is untouched by every program whose element sources are all
   SMoveCell.  (Structural, like Proofs/LifeDisc.v.) *)
From BM Require Import Base.Tactics Model.Life Model.LifeRank0 Proofs.LifeBase.
Local Open Scope Z_scope.

Definition ncp {A} (m : M A) : Prop := forall s,
  match m s with Ok _ s' | Threw s' => s_copies s' = s_copies s | Err _ => True end.

Lemma ncp_ret {A} (x : A) : ncp (ret x).
Proof. intros s. reflexivity. Qed.
Lemma ncp_fail {A} e : ncp (@fail A e).
Proof. intros s. exact I. Qed.
Lemma ncp_bind {A B} (m : M A) (f : A -> M B) : ncp m -> (forall x, ncp (f x)) -> ncp (bind m f).
Proof.
  intros Hm Hf s. unfold bind. specialize (Hm s). destruct (m s) as [x s1|s1|e]; auto.
  specialize (Hf x s1). destruct (f x s1); auto; congruence.
Qed.
Lemma ncp_on_throw {A} (m : M A) (c : M unit) : ncp m -> ncp c -> ncp (on_throw m c).
Proof.
  intros Hm Hc s. unfold on_throw. specialize (Hm s). destruct (m s) as [x s1|s1|e]; auto.
  specialize (Hc s1). destruct (c s1) as [[] s2|s2|e]; auto; congruence.
Qed.
Lemma ncp_tick w : ncp (tick w).
Proof. intros s. unfold tick. destruct (s_fault s) as [[|[|k]]|]; reflexivity. Qed.
Lemma ncp_tick_elem cfg w : ncp (tick_elem cfg w).
Proof. unfold tick_elem. destruct (c_quiet cfg); [apply ncp_ret|apply ncp_tick]. Qed.
Lemma ncp_get_block b : ncp (get_block b).
Proof. intros s. unfold get_block. destruct (nth_error (s_blocks s) b) as [blk|]; auto. destruct (b_live blk); auto. Qed.
Lemma ncp_put_block b blk : ncp (put_block b blk).
Proof. intros s. reflexivity. Qed.
Lemma ncp_get_arr r : ncp (get_arr r).
Proof. intros s. unfold get_arr. destruct (nth_error (s_arrs s) r) as [[a|]|]; auto. Qed.
Lemma ncp_slot_free r : ncp (slot_free r).
Proof. intros s. unfold slot_free. destruct (nth_error (s_arrs s) r) as [[a|]|]; auto. Qed.
Lemma ncp_set_arr r a : ncp (set_arr r a).
Proof. intros s. reflexivity. Qed.
Lemma ncp_del_arr r : ncp (del_arr r).
Proof. intros s. reflexivity. Qed.

Ltac ncp_step :=
  first
    [ apply ncp_ret | apply ncp_fail | apply ncp_tick | apply ncp_tick_elem
    | apply ncp_get_block | apply ncp_put_block | apply ncp_get_arr | apply ncp_slot_free | apply ncp_set_arr | apply ncp_del_arr
    | (apply ncp_bind; [|intros ?])
    | apply ncp_on_throw
    | match goal with
      | |- ncp (if ?c then _ else _) => destruct c
      | |- ncp (match ?x with _ => _ end) => destruct x
      end ].

Lemma ncp_set_cell b i c : ncp (set_cell b i c).
Proof. unfold set_cell. repeat ncp_step. Qed.
Lemma ncp_get_cell b i : ncp (get_cell b i).
Proof. unfold get_cell. repeat ncp_step. Qed.
Lemma ncp_alloc a n : ncp (alloc a n).
Proof.
  unfold alloc. destruct (n <=? 0); [apply ncp_ret|].
  apply ncp_bind; [destruct (a =? std_alloc); [apply ncp_ret|apply ncp_tick]|]. intros _ s. reflexivity.
Qed.
Lemma ncp_dealloc cfg a p n : ncp (dealloc cfg a p n).
Proof.
  unfold dealloc. destruct (n <=? 0); [apply ncp_ret|]. destruct p as [|b]; [apply ncp_fail|].
  intros s. destruct (nth_error (s_blocks s) b) as [blk|]; auto.
  destruct (negb (b_live blk)); auto. destruct (negb (b_size blk =? n)); auto.
  destruct (negb (alloc_eq cfg (b_owner blk) a)); auto.
  destruct (negb (c_tdtor cfg) && negb (all_raw (b_cells blk))); auto.
Qed.
Ltac ncp_prim :=
  first [ apply ncp_set_cell | apply ncp_get_cell | apply ncp_alloc | apply ncp_dealloc | ncp_step ].
Lemma ncp_construct1 b i v : ncp (construct1 b i v).
Proof. unfold construct1. repeat ncp_prim. Qed.
Lemma ncp_destroy1 b i : ncp (destroy1 b i).
Proof. unfold destroy1. repeat ncp_prim. Qed.
Lemma ncp_read1 cfg b i : ncp (read1 cfg b i).
Proof. unfold read1. repeat ncp_prim. Qed.
Lemma ncp_assign1 cfg b i v : ncp (assign1 cfg b i v).
Proof. unfold assign1. repeat ncp_prim. Qed.
Lemma ncp_mark_moved cfg b i : ncp (mark_moved cfg b i).
Proof. unfold mark_moved. repeat ncp_prim. Qed.

Definition is_move (x : src) : Prop := match x with SMoveCell _ _ => True | _ => False end.

Lemma ncp_read_src cfg x : ncp (read_src cfg x).
Proof. destruct x; cbn; [apply ncp_ret|apply ncp_read1|apply ncp_read1]. Qed.
Lemma ncp_after_src cfg x : is_move x -> ncp (after_src cfg x).
Proof. destruct x; cbn; intros H; try contradiction. apply ncp_mark_moved. Qed.
Lemma ncp_destroy_range b start n : ncp (destroy_range b start n).
Proof. induction n; cbn [destroy_range]; [apply ncp_ret|]. apply ncp_bind; [apply ncp_destroy1|auto]. Qed.
Lemma ncp_construct_loop cfg w b start srcs : Forall is_move srcs -> forall i, ncp (construct_loop cfg w b start i srcs).
Proof.
  induction 1 as [|x srcs Hx Hs IH]; intros i; cbn [construct_loop]; [apply ncp_ret|].
  apply ncp_bind; [apply ncp_on_throw; [apply ncp_tick_elem|apply ncp_destroy_range]|]. intros _.
  apply ncp_bind; [apply ncp_read_src|]. intros v.
  apply ncp_bind; [apply ncp_construct1|]. intros _.
  apply ncp_bind; [apply ncp_after_src; auto|]. intros _. apply IH.
Qed.
Lemma firstn_Forall {A} (P : A -> Prop) l n : Forall P l -> Forall P (firstn n l).
Proof. intros H. revert n. induction H; intros [|n]; cbn; constructor; auto. Qed.
Lemma skipn_Forall {A} (P : A -> Prop) l n : Forall P l -> Forall P (skipn n l).
Proof. intros H. revert n. induction H; intros [|n]; cbn; auto. Qed.
Lemma ncp_construct_rows cfg w b rowlen fuel : forall srcs i, Forall is_move srcs -> ncp (construct_rows cfg w b i rowlen fuel srcs).
Proof.
  induction fuel as [|fuel IH]; intros srcs i F; cbn [construct_rows]; [apply ncp_ret|].
  destruct srcs as [|x rest] eqn:E; [apply ncp_ret|]. rewrite <- E in *. cbv zeta.
  apply ncp_bind.
  - apply ncp_construct_loop. destruct (rowlen =? 0)%nat; [exact F|apply firstn_Forall; exact F].
  - intros _. apply IH. destruct (rowlen =? 0)%nat; [constructor|apply skipn_Forall; exact F].
Qed.
Lemma ncp_assign_loop cfg w b offs : forall srcs, Forall is_move srcs -> ncp (assign_loop cfg w b offs srcs).
Proof.
  induction offs as [|o offs IH]; intros srcs F; cbn [assign_loop]; [apply ncp_ret|].
  destruct srcs as [|x srcs]; [apply ncp_ret|]. apply Forall_cons_iff in F. destruct F as [Hx Hs].
  apply ncp_bind; [apply ncp_tick_elem|]. intros _.
  apply ncp_bind; [apply ncp_read_src|]. intros v.
  apply ncp_bind; [apply ncp_assign1|]. intros _.
  apply ncp_bind; [apply ncp_after_src; auto|]. intros _. apply IH; auto.
Qed.
Lemma ncp_base_blk a : ncp (base_blk a).
Proof. unfold base_blk. destruct (a_base a); [apply ncp_fail|apply ncp_ret]. Qed.
Lemma ncp_release cfg a : ncp (release cfg a).
Proof.
  unfold release. apply ncp_bind; [|intros _; apply ncp_dealloc].
  destruct (c_tdtor cfg || (nel a <=? 0)); [apply ncp_ret|].
  apply ncp_bind; [apply ncp_base_blk|intros b; apply ncp_destroy_range].
Qed.
Lemma ncp_p_dtor cfg r : ncp (p_dtor cfg r).
Proof. unfold p_dtor. apply ncp_bind; [apply ncp_get_arr|]. intros a. apply ncp_bind; [apply ncp_release|]. intros _. apply ncp_del_arr. Qed.
Lemma ncp_p_build cfg a n rowlen srcs : Forall is_move srcs -> ncp (p_build cfg a n rowlen srcs).
Proof.
  intros F. unfold p_build. apply ncp_bind; [apply ncp_alloc|]. intros [|b]; [apply ncp_ret|].
  apply ncp_bind; [apply ncp_construct_rows; auto|]. intros _. apply ncp_ret.
Qed.
Lemma ncp_install r a p x : ncp (install r a p x).
Proof. unfold install. apply ncp_set_arr. Qed.
Lemma ncp_assign_all cfg ar srcs : Forall is_move srcs -> ncp (assign_all cfg ar srcs).
Proof.
  intros F. unfold assign_all. destruct (nel ar <=? 0); [apply ncp_ret|]. apply ncp_bind; [apply ncp_base_blk|]. intros b.
  apply ncp_assign_loop; auto.
Qed.
Lemma one_cell_move a : Forall is_move (one_cell a SMoveCell).
Proof.
  unfold one_cell, cells_of. destruct (a_base a); [constructor|]. apply Forall_forall. intros x Hx.
  apply in_map_iff in Hx. destruct Hx as (i & <- & _). exact I.
Qed.
Lemma ncp_ref_cell q : ncp (ref_cell q).
Proof.
  unfold ref_cell. apply ncp_bind; [apply ncp_get_arr|]. intros a. destruct (Z.of_nat (rf_idx q) <? nel a); [|apply ncp_fail].
  apply ncp_bind; [apply ncp_base_blk|]. intros b. apply ncp_ret.
Qed.
Lemma ncp_swap_cells cfg b i b' i' : ncp (swap_cells cfg b i b' i').
Proof.
  unfold swap_cells.
  repeat first [ apply ncp_tick_elem | apply ncp_read1 | apply ncp_mark_moved | apply ncp_assign1 | (apply ncp_bind; [|intros ?]) ].
Qed.

(* the moving entry points *)
Definition moving (o : lop0) : Prop :=
  match o with
  | ZCtorMove _ _ | ZCtorMoveAlloc _ _ _ | ZAssignMove _ _ | ZSwap _ _ | ZSwapMember _ _ | ZMoveOut _ | ZRefSwap _ _ => True
  | _ => False
  end.

Theorem moving_ncp cfg o : moving o -> ncp (step0 cfg o).
Proof.
  destruct o; cbn [moving step0]; intros H; try contradiction; cbv zeta;
    repeat first
      [ apply ncp_ref_cell | apply ncp_swap_cells | apply ncp_p_dtor | apply ncp_install
      | (apply ncp_p_build; apply one_cell_move) | (apply ncp_assign_all; apply one_cell_move)
      | apply ncp_base_blk | apply ncp_tick_elem | apply ncp_read1 | apply ncp_assign1 | apply ncp_mark_moved
      | ncp_step ].
Qed.

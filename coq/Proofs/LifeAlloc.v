(* C10: which allocator copy assignment and move assignment leave in the target (propagation follows the traits). *)
From BM Require Import Base.Tactics Model.Life Proofs.LifeBase Proofs.LifeMonad Proofs.LifeInv Proofs.LifeCells
  Proofs.LifeSteps Proofs.LifeCombi Proofs.LifeDisc Proofs.LifeFacts.
Local Open Scope Z_scope.

Section Alloc.
Variable cfg : config.

(* effect of the slot-level steps on the array objects *)
Lemma p_clear_arrs r s s' : p_clear cfg r s = Ok tt s' ->
  exists a, get_slot s r = Some a /\ s_arrs s' = upd_nth (s_arrs s) r (Some (empty_arr cfg (a_alloc a) (a_base a))).
Proof.
  unfold p_clear. unfold bind at 1. destruct (get_arr r s) as [a s1|s1|e] eqn:E; try discriminate.
  apply get_arr_inv in E. destruct E as [-> Hg]. unfold bind at 1.
  pose proof (keeps_release cfg a s) as K. destruct (release cfg a s) as [[] s2|s2|e]; try discriminate.
  rewrite set_arr_eq. intros H. inv H. exists a. split; auto. cbn. rewrite K. reflexivity.
Qed.

Lemma p_dtor_arrs r s s' : p_dtor cfg r s = Ok tt s' -> s_arrs s' = upd_nth (s_arrs s) r None.
Proof.
  unfold p_dtor. unfold bind at 1. destruct (get_arr r s) as [a s1|s1|e] eqn:E; try discriminate.
  apply get_arr_inv in E. destruct E as [-> Hg]. unfold bind at 1.
  pose proof (keeps_release cfg a s) as K. destruct (release cfg a s) as [[] s2|s2|e]; try discriminate.
  rewrite del_arr_eq. intros H. inv H. cbn. rewrite K. reflexivity.
Qed.

Lemma p_adopt_arrs r t s s' : p_adopt cfg r t s = Ok tt s' ->
  exists ar at_, get_slot s r = Some ar /\ get_slot s t = Some at_ /\
    s_arrs s' = upd_nth (upd_nth (s_arrs s) r (Some (mkarr (a_alloc ar) (a_base at_) (a_exts at_) (a_first at_)))) t
                        (Some (empty_arr cfg (a_alloc at_) PNull)).
Proof.
  unfold p_adopt. unfold bind at 1. destruct (get_arr r s) as [ar s1|s1|e] eqn:E; try discriminate.
  apply get_arr_inv in E. destruct E as [-> Hr]. unfold bind at 1.
  destruct (get_arr t s) as [at_ s1|s1|e] eqn:E; try discriminate.
  apply get_arr_inv in E. destruct E as [-> Ht]. unfold bind. rewrite !set_arr_eq. intros H. inv H.
  exists ar, at_. auto.
Qed.

Definition allocA (A : list (option arr)) (r : nat) : option Z :=
  match nth_error A r with Some (Some a) => Some (a_alloc a) | _ => None end.
Lemma alloc_of_A s r : alloc_of s r = allocA (s_arrs s) r.
Proof. unfold alloc_of, allocA, get_slot. destruct (nth_error (s_arrs s) r) as [[a|]|]; reflexivity. Qed.

Lemma allocA_upd A r q o : (r < length A)%nat ->
  allocA (upd_nth A r o) q = if (r =? q)%nat then option_map a_alloc o else allocA A q.
Proof.
  intros H. unfold allocA. destruct (Nat.eqb_spec r q) as [<-|Hne].
  - rewrite nth_upd_same by auto. destruct o; reflexivity.
  - rewrite nth_upd_other by auto. reflexivity.
Qed.

Lemma get_slot_nth s r a : get_slot s r = Some a -> nth_error (s_arrs s) r = Some (Some a).
Proof. unfold get_slot. destruct (nth_error (s_arrs s) r) as [[a0|]|]; try discriminate. congruence. Qed.

(* operator=(array&&): the allocator is replaced exactly when propagate_on_container_move_assignment says so *)
Theorem move_assign_allocator tmp r t s s' ar at_ :
  r <> t -> tmp <> r -> tmp <> t -> (tmp < length (s_arrs s))%nat ->
  get_slot s r = Some ar -> get_slot s t = Some at_ ->
  move_assign cfg tmp r t s = Ok tt s' ->
  alloc_of s' r = Some (if c_pocma cfg then a_alloc at_ else a_alloc ar) /\ alloc_of s' t = Some (a_alloc at_).
Proof.
  intros Hne Htr Htt Ltmp Hr Ht. unfold move_assign.
  destruct (Nat.eqb_spec r t); [congruence|].
  pose proof (get_slot_lt _ _ _ Hr) as Lr. pose proof (get_slot_lt _ _ _ Ht) as Lt.
  unfold bind at 1. unfold get_arr at 1. rewrite (get_slot_nth _ _ _ Hr).
  unfold bind at 1. unfold get_arr at 1. rewrite (get_slot_nth _ _ _ Ht).
  destruct (negb (c_pocma cfg) && negb (c_ae cfg) && negb (a_alloc ar =? a_alloc at_)) eqn:Ec.
  - (* element-wise *)
    assert (Ep : c_pocma cfg = false) by (destruct (c_pocma cfg); [discriminate|reflexivity]).
    unfold bind at 1. pose proof (keeps_p_build cfg (a_alloc ar) (nel at_) 0 (cells_of SMoveCell at_) s) as K.
    destruct (p_build cfg (a_alloc ar) (nel at_) 0 (cells_of SMoveCell at_) s) as [p s1|s1|e]; try discriminate.
    unfold bind at 1. unfold install. rewrite set_arr_eq.
    set (s2 := set_slot s1 tmp (Some (with_bx (a_alloc ar) p (arr_bx at_)))).
    unfold bind at 1. destruct (p_clear cfg t s2) as [[] s3|s3|e] eqn:E3; try discriminate.
    apply p_clear_arrs in E3. destruct E3 as (a3 & G3 & A3).
    unfold bind at 1. destruct (p_clear cfg r s3) as [[] s4|s4|e] eqn:E4; try discriminate.
    apply p_clear_arrs in E4. destruct E4 as (a4 & G4 & A4).
    unfold bind at 1. destruct (p_adopt cfg r tmp s4) as [[] s5|s5|e] eqn:E5; try discriminate.
    apply p_adopt_arrs in E5. destruct E5 as (a5 & t5 & G5 & G5' & A5).
    intros E6. apply p_dtor_arrs in E6.
    assert (L2 : length (s_arrs s2) = length (s_arrs s)) by (unfold s2; cbn; rewrite upd_nth_length; congruence).
    assert (L3 : length (s_arrs s3) = length (s_arrs s)) by (rewrite A3, upd_nth_length; auto).
    assert (L4 : length (s_arrs s4) = length (s_arrs s)) by (rewrite A4, upd_nth_length; auto).
    (* what the slots held along the way *)
    assert (Ha3 : a3 = at_).
    { unfold s2, get_slot in G3. cbn in G3. rewrite nth_upd_other in G3 by auto. rewrite K, (get_slot_nth _ _ _ Ht) in G3. congruence. }
    assert (Ha4 : a4 = ar).
    { unfold get_slot in G4. rewrite A3 in G4. rewrite nth_upd_other in G4 by auto.
      unfold s2 in G4. cbn in G4. rewrite nth_upd_other in G4 by auto. rewrite K, (get_slot_nth _ _ _ Hr) in G4. congruence. }
    assert (Ha5 : a_alloc a5 = a_alloc ar).
    { unfold get_slot in G5. rewrite A4 in G5. rewrite nth_upd_same in G5 by lia. inv G5. subst. reflexivity. }
    subst a3 a4. rewrite !alloc_of_A, E6, A5, A4, A3. rewrite Ep.
    rewrite !allocA_upd by (rewrite ?upd_nth_length; lia).
    destruct (Nat.eqb_spec tmp r); [congruence|]. destruct (Nat.eqb_spec tmp t); [congruence|].
    rewrite Nat.eqb_refl. destruct (Nat.eqb_spec r t); [congruence|]. rewrite Nat.eqb_refl. cbn. rewrite Ha5. auto.
  - (* the block is adopted *)
    unfold bind at 1. destruct (p_clear cfg r s) as [[] s1|s1|e] eqn:E1; try discriminate.
    apply p_clear_arrs in E1. destruct E1 as (a1 & G1 & A1). assert (a1 = ar) by congruence. subst a1.
    assert (L1 : length (s_arrs s1) = length (s_arrs s)) by (rewrite A1, upd_nth_length; auto).
    unfold bind at 1. unfold get_arr at 1. rewrite A1, nth_upd_same by auto.
    unfold bind. rewrite !set_arr_eq. intros E. inv E.
    rewrite !alloc_of_A. unfold set_slot; cbn. rewrite !allocA_upd by (rewrite ?upd_nth_length; lia).
    destruct (Nat.eqb_spec t r); [congruence|]. rewrite !Nat.eqb_refl. cbn. destruct (c_pocma cfg); auto.
Qed.

Theorem assign_move_allocator r t s s' ar at_ :
  r <> t -> (r < NP)%nat -> (t < NP)%nat -> length (s_arrs s) = NSLOTS ->
  get_slot s r = Some ar -> get_slot s t = Some at_ ->
  step cfg (OAssignMove r t) s = Ok tt s' ->
  alloc_of s' r = Some (if c_pocma cfg then a_alloc at_ else a_alloc ar) /\ alloc_of s' t = Some (a_alloc at_).
Proof.
  intros Hne Hr Ht Hlen Gr Gt. cbn [step]. unfold bind at 1. unfold get_arr at 1. rewrite (get_slot_nth _ _ _ Gr).
  apply move_assign_allocator; auto; unfold NP, NSLOTS, TMP1 in *; lia.
Qed.

Lemma p_set_alloc_arrs r a s s' : p_set_alloc r a s = Ok tt s' ->
  exists ar, get_slot s r = Some ar /\ s_arrs s' = upd_nth (s_arrs s) r (Some (mkarr a (a_base ar) (a_exts ar) (a_first ar))).
Proof.
  unfold p_set_alloc. unfold bind at 1. destruct (get_arr r s) as [ar s1|s1|e] eqn:E; try discriminate.
  apply get_arr_inv in E. destruct E as [-> Hr]. rewrite set_arr_eq. intros H. inv H. exists ar. auto.
Qed.

(* operator=(array const&): the allocator is replaced exactly when propagate_on_container_copy_assignment says so *)
Theorem assign_copy_allocator r t s s' ar at_ :
  r <> t -> (r < NP)%nat -> length (s_arrs s) = NSLOTS ->
  get_slot s r = Some ar -> get_slot s t = Some at_ ->
  step cfg (OAssignCopy r t) s = Ok tt s' ->
  alloc_of s' r = Some (if c_pocca cfg then a_alloc at_ else a_alloc ar).
Proof.
  intros Hne Hr Hlen Gr Gt. cbn [step]. destruct (Nat.eqb_spec r t); [congruence|].
  pose proof (get_slot_lt _ _ _ Gr) as Lr.
  assert (N1 : TMP1 <> r) by (unfold NP, TMP1 in *; lia).
  assert (L1 : (TMP1 < length (s_arrs s))%nat) by (rewrite Hlen; unfold NSLOTS, TMP1; lia).
  unfold bind at 1. unfold get_arr at 1. rewrite (get_slot_nth _ _ _ Gr).
  unfold bind at 1. unfold get_arr at 1. rewrite (get_slot_nth _ _ _ Gt). cbv zeta.
  destruct (bx_eq (arr_bx ar) (arr_bx at_) && (negb (c_pocca cfg) || alloc_eq cfg (a_alloc ar) (a_alloc at_))).
  - (* storage kept *)
    unfold bind at 1.
    destruct (c_pocca cfg) eqn:Ep.
    + destruct (p_set_alloc r (a_alloc at_) s) as [[] s1|s1|e] eqn:E1; try discriminate.
      apply p_set_alloc_arrs in E1. destruct E1 as (a1 & G1 & A1).
      pose proof (keeps_assign_all cfg ar (cells_of SCell at_) s1) as K.
      destruct (assign_all cfg ar (cells_of SCell at_) s1) as [[] s2|s2|e]; try discriminate. intros H. inv H.
      rewrite alloc_of_A, K, A1, allocA_upd by auto. rewrite Nat.eqb_refl. reflexivity.
    + cbn [ret]. pose proof (keeps_assign_all cfg ar (cells_of SCell at_) s) as K.
      destruct (assign_all cfg ar (cells_of SCell at_) s) as [[] s2|s2|e]; try discriminate. intros H. inv H.
      rewrite alloc_of_A, K. unfold allocA. rewrite (get_slot_nth _ _ _ Gr). reflexivity.
  - (* new value built in TMP1, then adopted *)
    set (a' := if c_pocca cfg then a_alloc at_ else a_alloc ar).
    unfold bind at 1. pose proof (keeps_p_build cfg a' (nel at_) 0 (cells_of SCell at_) s) as K.
    destruct (p_build cfg a' (nel at_) 0 (cells_of SCell at_) s) as [p s1|s1|e]; try discriminate.
    unfold bind at 1. unfold install. rewrite set_arr_eq.
    set (s2 := set_slot s1 TMP1 (Some (with_bx a' p (arr_bx at_)))).
    assert (L2 : length (s_arrs s2) = length (s_arrs s)) by (unfold s2; cbn; rewrite upd_nth_length; congruence).
    unfold bind at 1. destruct (p_clear cfg r s2) as [[] s3|s3|e] eqn:E3; try discriminate.
    apply p_clear_arrs in E3. destruct E3 as (a3 & G3 & A3).
    assert (Ha3 : a3 = ar).
    { unfold s2, get_slot in G3. cbn in G3. rewrite nth_upd_other in G3 by auto. rewrite K, (get_slot_nth _ _ _ Gr) in G3. congruence. }
    subst a3.
    assert (L3 : length (s_arrs s3) = length (s_arrs s)) by (rewrite A3, upd_nth_length; auto).
    unfold bind at 1.
    assert (Hmid : forall s4, (if c_pocca cfg then p_set_alloc r (a_alloc at_) else ret tt) s3 = Ok tt s4 ->
                     length (s_arrs s4) = length (s_arrs s) /\ allocA (s_arrs s4) r = Some a' /\
                     exists er, nth_error (s_arrs s4) r = Some (Some er)).
    { intros s4. unfold a'. destruct (c_pocca cfg).
      - intros E4. apply p_set_alloc_arrs in E4. destruct E4 as (a4 & G4 & A4). rewrite A4. split; [rewrite upd_nth_length; auto|].
        split; [rewrite allocA_upd by lia; rewrite Nat.eqb_refl; reflexivity|]. eexists. apply nth_upd_same. lia.
      - intros E4. inv E4. split; auto. rewrite A3. split; [rewrite allocA_upd by lia; rewrite Nat.eqb_refl; reflexivity|].
        eexists. apply nth_upd_same. lia. }
    destruct ((if c_pocca cfg then p_set_alloc r (a_alloc at_) else ret tt) s3) as [[] s4|s4|e] eqn:E4; try discriminate.
    destruct (Hmid s4 eq_refl) as (L4 & Al4 & er & Ger).
    unfold bind at 1. destruct (p_adopt cfg r TMP1 s4) as [[] s5|s5|e] eqn:E5; try discriminate.
    apply p_adopt_arrs in E5. destruct E5 as (a5 & t5 & G5 & G5' & A5).
    intros E6. apply p_dtor_arrs in E6.
    assert (Ha5 : a_alloc a5 = a').
    { unfold allocA in Al4. apply get_slot_nth in G5. rewrite G5 in Al4. congruence. }
    rewrite alloc_of_A, E6, A5. rewrite !allocA_upd by (rewrite ?upd_nth_length; lia).
    destruct (Nat.eqb_spec TMP1 r); [congruence|]. rewrite Nat.eqb_refl. cbn. rewrite Ha5. reflexivity.
Qed.

(* array(array&&, alloc) uses the supplied allocator, whether it adopts the block or moves the elements *)
Theorem ctor_move_alloc_allocator r t a s s' :
  r <> t -> step cfg (OCtorMoveAlloc r t a) s = Ok tt s' -> alloc_of s' r = Some a.
Proof.
  intros Hne H. cbn [step] in H. unfold bind at 1 in H.
  destruct (slot_free r s) as [[] s1|s1|e] eqn:E; try discriminate. apply slot_free_lt in E. destruct E as [-> Lr].
  unfold bind at 1 in H. destruct (get_arr t s) as [at_ s1|s1|e] eqn:E; try discriminate.
  apply get_arr_inv in E. destruct E as [-> Gt]. pose proof (get_slot_lt _ _ _ Gt) as Lt.
  destruct (alloc_eq cfg a (a_alloc at_)).
  - unfold bind in H. rewrite !set_arr_eq in H. inv H. rewrite alloc_of_A. unfold set_slot; cbn.
    rewrite !allocA_upd by (rewrite ?upd_nth_length; lia). destruct (Nat.eqb_spec t r); [congruence|]. rewrite Nat.eqb_refl. reflexivity.
  - unfold bind at 1 in H. pose proof (keeps_p_build cfg a (nel at_) 0 (cells_of SMoveCell at_) s) as K.
    destruct (p_build cfg a (nel at_) 0 (cells_of SMoveCell at_) s) as [p s1|s1|e]; try discriminate.
    unfold bind at 1 in H. destruct (p_clear cfg t s1) as [[] s2|s2|e] eqn:E2; try discriminate.
    apply p_clear_arrs in E2. destruct E2 as (a2 & G2 & A2).
    unfold install in H. rewrite set_arr_eq in H. inv H. rewrite alloc_of_A. unfold set_slot; cbn.
    rewrite allocA_upd by (rewrite A2, upd_nth_length, K; auto). rewrite Nat.eqb_refl. reflexivity.
Qed.

End Alloc.

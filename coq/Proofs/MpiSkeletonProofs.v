(* The datatype built by mpi.hpp's skeleton denotes exactly the view's elements in canonical order.
   Induction on the dimension list -- the same recursion the template performs. *)
From BM Require Import Base.Tactics Model.Layout Model.View Model.Spec Model.MpiTypes Model.MpiSkeleton
  Proofs.LayoutProofs Proofs.MpiTypesProofs.
From Coq Require Import FinFun.
Local Open Scope Z_scope.

(* ---- canonical enumeration of index tuples ---- *)
Lemma in_canon szs : forall idx, In idx (canon_indices szs) <-> valid_idx szs idx.
Proof.
  induction szs as [|n r IH]; intros idx; cbn [canon_indices].
  - split.
    + intros [<-|[]]. constructor.
    + intros H. inv H. left. reflexivity.
  - rewrite in_flat_map. split.
    + intros (i & Hi & Hin). apply in_map_iff in Hin as (t & <- & Ht). apply in_zseq in Hi.
      constructor; [lia|]. apply IH. assumption.
    + intros H. inversion H as [|n' i r' t Hi Ht]; subst. exists i. split.
      * apply in_zseq. lia.
      * apply in_map. apply IH. assumption.
Qed.

Lemma NoDup_canon szs : NoDup (canon_indices szs).
Proof.
  induction szs as [|n r IH]; cbn [canon_indices].
  - constructor; [intros []|constructor].
  - apply NoDup_flat_map.
    + apply NoDup_zseq.
    + intros i _. apply Injective_map_NoDup; [|assumption]. intros a b E. congruence.
    + intros a b x _ _ Ha Hb. apply in_map_iff in Ha as (ta & <- & _).
      apply in_map_iff in Hb as (tb & E & _). congruence.
Qed.

Lemma prod_nonneg szs : Forall (fun n => 0 <= n) szs -> 0 <= prod szs.
Proof. induction 1 as [|n r Hn _ IH]; cbn; [lia|]. fold (prod r). nia. Qed.

Lemma canon_length szs : Forall (fun n => 0 <= n) szs ->
  length (canon_indices szs) = Z.to_nat (prod szs).
Proof.
  induction 1 as [|n r Hn Hr IH]; [reflexivity|]. cbn [canon_indices prod fold_right]. fold (prod r).
  rewrite (flat_map_length_const _ _ (Z.to_nat (prod r))).
  - rewrite zseq_length. pose proof (prod_nonneg _ Hr). rewrite Z2Nat.inj_mul by lia. reflexivity.
  - intros a _. rewrite map_length. assumption.
Qed.

Lemma x_num_elements_zb r : x_num_elements (zb r) = prod r.
Proof.
  induction r as [|n r IH]; [reflexivity|]. cbn [zb map x_num_elements prod fold_right].
  fold (zb r). fold (prod r). rewrite IH. unfold r_size. cbn [fst snd]. lia.
Qed.

(* one unfolding step of from_linear on zero-based extents.  Stated and proved so that it holds both
   for the pinned code (from_linear zero-based) and after the re-basing fix (from_linear adds the first
   index of each dimension, which is 0 here). *)
Lemma x_from_linear_zb1 n k : x_from_linear (zb [n]) k = [k].
Proof. cbn [zb map x_from_linear fst snd]. f_equal; lia. Qed.

Lemma x_from_linear_zb2 n m r k :
  x_from_linear (zb (n :: m :: r)) k =
  Z.quot k (prod (m :: r)) :: x_from_linear (zb (m :: r)) (Z.rem k (prod (m :: r))).
Proof.
  rewrite <- (x_num_elements_zb (m :: r)).
  change (zb (n :: m :: r)) with ((0, n) :: (0, m) :: zb r).
  change (zb (m :: r)) with ((0, m) :: zb r).
  cbn [x_from_linear fst snd]. f_equal; lia.
Qed.

Lemma canon_cons n r :
  canon_indices (n :: r) = flat_map (fun i => map (cons i) (canon_indices r)) (zseq n).
Proof. reflexivity. Qed.

(* extensions_t::from_linear (layout.hpp:176-217) enumerates the index tuples in canonical order *)
Lemma from_linear_canon szs : Forall (fun n => 0 <= n) szs ->
  map (x_from_linear (zb szs)) (zseq (prod szs)) = canon_indices szs.
Proof.
  induction 1 as [|n r Hn Hr IH]; [reflexivity|].
  destruct r as [|m r'].
  - cbn [prod fold_right zb map canon_indices]. rewrite Z.mul_1_r.
    transitivity (map (fun i => [i]) (zseq n)).
    + apply map_ext. intros k. apply (x_from_linear_zb1 n k).
    + symmetry. apply (flat_map_singleton (fun i => [i])).
  - set (P := prod (m :: r')) in *.
    assert (HP : 0 <= P) by (apply prod_nonneg; assumption).
    change (prod (n :: m :: r')) with (n * P).
    rewrite zseq_mul by assumption. rewrite map_flat_map.
    rewrite (canon_cons n (m :: r')). apply flat_map_ext_in'. intros i Hi. apply in_zseq in Hi.
    rewrite <- IH. rewrite !map_map. apply map_ext_in. intros j Hj. apply in_zseq in Hj.
    rewrite x_from_linear_zb2. fold P.
    assert (Eq : Z.quot (i * P + j) P = i) by (symmetry; apply Z.quot_unique with (r := j); nia).
    assert (Er : Z.rem (i * P + j) P = j) by (symmetry; apply Z.rem_unique with (q := i); nia).
    rewrite Eq, Er. reflexivity.
Qed.

Lemma lay_ok_nonneg l szs : lay_ok l szs -> Forall (fun n => 0 <= n) szs.
Proof. induction 1 as [|d n l szs Hd _ IH]; constructor; [|assumption]. destruct Hd as (_ & _ & H & _). exact H. Qed.

(* at the pinned commit flat iteration adds the offsets that indexing subtracts (after the re-basing fix it
   subtracts them too); zero-based views have none, so the two agree either way *)
Lemma l_call_addr l szs : lay_ok l szs -> forall idx, l_call l idx = l_addr l idx.
Proof.
  induction 1 as [|d n l szs Hd _ IH]; intros [|i idx]; cbn [l_call l_addr];
    first [reflexivity | rewrite IH; destruct Hd as (Ho & _); lia].
Qed.

(* elements() as the library computes it = the view's own addresses at the canonical index tuples *)
Lemma flat_offsets_canon l szs S : lay_ok l szs -> flat_offsets l S = elem_offsets l szs S.
Proof.
  intros Hok. unfold flat_offsets, elem_offsets.
  rewrite (lay_ok_extensions _ _ Hok), (lay_ok_num_elements _ _ Hok). fold (zb szs).
  rewrite <- (from_linear_canon szs) by (eapply lay_ok_nonneg; eassumption).
  rewrite map_map. apply map_ext. intros k. rewrite (l_call_addr _ _ Hok). reflexivity.
Qed.

(* ---- the type map of the skeleton ---- *)
Definition sub_typemap (sub : layout) (S : Z) : list Z :=
  match sub with [] => [0] | _ :: _ => typemap (skeleton_type sub S (l_size sub)) end.

Lemma typemap_skeleton_cons d sub S c :
  typemap (skeleton_type (d :: sub) S c) =
  flat_map (fun i => map (Z.add (i * (d_stride d * S))) (sub_typemap sub S)) (zseq c).
Proof.
  cbn [skeleton_type typemap]. rewrite hv_map_blocklen1.
  destruct sub as [|d0 sub']; reflexivity.
Qed.

(* level d of the type is the concatenation over j < size_d of level d+1 shifted by j*stride_d*S:
   the canonical-order recursion *)
Lemma typemap_full l szs S : lay_ok l szs -> l <> [] ->
  typemap (skeleton_type l S (l_size l)) = elem_offsets l szs S.
Proof.
  induction 1 as [|d n sub r Hd Hsub IH]; intros Hne; [congruence|].
  rewrite typemap_skeleton_cons. cbn [l_size]. rewrite (dim_ok_size _ _ Hd).
  assert (Hs : sub_typemap sub S = elem_offsets sub r S).
  { destruct sub as [|d0 sub'].
    - inv Hsub. unfold elem_offsets. cbn [canon_indices map l_addr sub_typemap]. f_equal. lia.
    - unfold sub_typemap. apply IH. discriminate. }
  rewrite Hs. unfold elem_offsets. cbn [canon_indices]. rewrite map_flat_map.
  apply flat_map_ext. intros i. rewrite !map_map. apply map_ext. intros idx.
  cbn [l_addr]. destruct Hd as (Ho & _). rewrite Ho. ring.
Qed.

(* count copies of the top-level type (one row each, resized to the leading stride) = all rows *)
Lemma message_bytes_skeleton d sub S n :
  message_bytes n (skeleton_type (d :: sub) S 1) = typemap (skeleton_type (d :: sub) S n).
Proof.
  unfold message_bytes. rewrite !typemap_skeleton_cons.
  assert (E : dt_extent (skeleton_type (d :: sub) S 1) = d_stride d * S)
    by (cbn [skeleton_type]; apply dt_extent_resized).
  rewrite E. apply flat_map_ext. intros c. rewrite zseq_1. cbn [flat_map]. rewrite app_nil_r, map_map.
  apply map_ext. intros a. lia.
Qed.

Theorem message_is_elements_proved : forall (l : layout) (szs : list Z) (S : Z),
  lay_ok l szs -> l <> [] ->
  let m := message_model l S in
  message_bytes (fst m) (snd m) = elem_offsets l szs S.
Proof.
  intros l szs S Hok Hne m. subst m. unfold message_model, skeleton_count. cbn [fst snd].
  destruct l as [|d sub]; [congruence|].
  rewrite message_bytes_skeleton. apply typemap_full; assumption.
Qed.

(* create_subarray with count 1 denotes the same elements (mpi.hpp:186-206, used by mpi.cpp) *)
Theorem create_subarray_is_elements_proved : forall (l : layout) (szs : list Z) (S : Z),
  lay_ok l szs -> l <> [] ->
  message_bytes 1 (create_subarray_model l S) = elem_offsets l szs S.
Proof.
  intros l szs S Hok Hne. destruct l as [|d sub]; [congruence|].
  rewrite <- (message_is_elements_proved _ _ S Hok Hne).
  unfold message_model, skeleton_count, create_subarray_model, message_bytes. cbn [fst snd hd_stride typemap].
  rewrite zseq_1. cbn [flat_map]. rewrite app_nil_r.
  rewrite hv_map_blocklen1.
  assert (E : dt_extent (skeleton_type (d :: sub) S 1) = d_stride d * S)
    by (cbn [skeleton_type]; apply dt_extent_resized).
  rewrite E, map_flat_map. apply flat_map_ext. intros c. rewrite map_map. apply map_ext. intros a. lia.
Qed.

(* the dead alternative create_subarray_aux builds a type with the same type map (Dup instead of the
   bare element type at the innermost level) *)
Lemma typemap_aux_eq l S : forall c,
  typemap (create_subarray_aux_model l S c) = typemap (skeleton_type l S c).
Proof.
  induction l as [|d sub IH]; intros c; [reflexivity|].
  cbn [create_subarray_aux_model skeleton_type typemap]. rewrite !hv_map_blocklen1.
  destruct sub as [|d0 sub']; [reflexivity|]. rewrite IH. reflexivity.
Qed.

(* data(It): one element at `first`; with a count n it denotes n CONTIGUOUS elements whatever the
   iterator's stride is (the extent of vector(1,1,stride) is the extent of one element) *)
Theorem data_bytes_proved : forall stride S n, message_bytes n (data_model stride S) = map (fun k => k * S) (zseq n).
Proof.
  intros stride S n. unfold message_bytes, data_model. cbn [typemap]. unfold hv_map.
  rewrite zseq_1. cbn [flat_map map app].
  assert (E : dt_extent (Vector 1 1 stride (Base S)) = S).
  { unfold dt_extent, dt_ub, dt_lb. cbn [dt_bounds hv_bounds fst snd]. cbn. lia. }
  rewrite E. rewrite (flat_map_singleton (fun c => c * S + (0 * (stride * dt_extent (Base S)) + 0 * dt_extent (Base S) + 0))).
  apply map_ext. intros k. lia.
Qed.

(* ---- every displacement and bound is a multiple of the element size: the alignment padding
   epsilon of MPI-3.1 4.1.7 is zero for these types ---- *)
Lemma skeleton_bounds_aligned l S c : l <> [] ->
  dt_lb (skeleton_type l S c) = 0 /\ exists q, dt_extent (skeleton_type l S c) = q * S.
Proof.
  destruct l as [|d sub]; [congruence|]. intros _. cbn [skeleton_type]. split; [reflexivity|].
  rewrite dt_extent_resized. exists (d_stride d). reflexivity.
Qed.

Lemma skeleton_typemap_aligned l szs S : lay_ok l szs -> l <> [] ->
  forall b, In b (typemap (skeleton_type l S (l_size l))) -> exists q, b = q * S.
Proof.
  intros Hok Hne b Hb. rewrite (typemap_full _ _ _ Hok Hne) in Hb. unfold elem_offsets in Hb.
  apply in_map_iff in Hb as (idx & <- & _). exists (l_addr l idx). ring.
Qed.

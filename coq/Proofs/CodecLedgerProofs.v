(* C17 -- loading keeps the allocator ledger of C08: afterwards the array owns exactly one cell and
   one live element per element of the archived array, whatever it owned before. *)
From BM Require Import Base.Tactics Model.CodecArray Proofs.CodecArrayProofs.
Local Open Scope Z_scope.

Lemma load_ledger pexts x :
  cx_normal pexts -> cx_normal x ->
  ev_run (cx_num pexts, cx_num pexts) (load_events pexts x) = (cx_num x, cx_num x).
Proof.
  intros Hp Hx. unfold load_events.
  destruct (cx_eq pexts x) eqn:E; cbn [negb].
  - apply cx_eq_normal in E; auto. subst. reflexivity.
  - destruct (cx_eq x pexts) eqn:E0.
    + apply cx_eq_normal in E0; auto. subst. rewrite cx_eq_refl in E. discriminate.
    + destruct (cx_num pexts =? 0) eqn:En; destruct (cx_num x =? 0) eqn:Ex; bprop;
        cbn [app ev_run fold_left ev_step fst snd]; f_equal; lia.
Qed.

(* no block is returned that was not owned: every EvDealloc is the receiving array's own block,
   and no zero-size block is requested or returned *)
Lemma load_events_dealloc pexts x n :
  In (EvDealloc n) (load_events pexts x) -> n = cx_num pexts /\ n <> 0.
Proof.
  unfold load_events. destruct (negb (cx_eq pexts x)); [|intros []].
  destruct (cx_eq x pexts); [intros []|].
  destruct (cx_num pexts =? 0) eqn:En; bprop;
    destruct (cx_num x =? 0); cbn [app In]; intros H;
    repeat (destruct H as [H|H]; try discriminate; try (injection H as <-; split; [reflexivity|assumption])); try contradiction.
Qed.

Lemma load_events_alloc pexts x n :
  In (EvAlloc n) (load_events pexts x) -> n = cx_num x /\ n <> 0.
Proof.
  unfold load_events. destruct (negb (cx_eq pexts x)); [|intros []].
  destruct (cx_eq x pexts); [intros []|].
  destruct (cx_num pexts =? 0); destruct (cx_num x =? 0) eqn:Ex; bprop; cbn [app In]; intros H;
    repeat (destruct H as [H|H]; try discriminate; try (injection H as <-; split; [reflexivity|assumption])); try contradiction.
Qed.

(* C13: the dispatch definitions regenerated from the source text (Model/BlasC13Gen.v) are the
   hand transcription the theorems and the correspondence driver use (Model/BlasC13.v).
   If a ladder of gemm.hpp / gemv.hpp changes, exactly the lemma of that ladder stops checking. *)
From BM Require Import Base.Tactics Model.BlasC13 Model.BlasC13Gen.

Lemma gemm_nn_gen_eq : gemm_nn_gen = gemm_nn.  Proof. reflexivity. Qed.
Lemma gemm_nj_gen_eq : gemm_nj_gen = gemm_nj.  Proof. reflexivity. Qed.
Lemma gemm_jn_gen_eq : gemm_jn_gen = gemm_jn.  Proof. reflexivity. Qed.
Lemma gemm_jj_gen_eq : gemm_jj_gen = gemm_jj.  Proof. reflexivity. Qed.
Lemma gemm_nn_asserts_gen_eq : gemm_nn_asserts_gen = gemm_asserts.  Proof. reflexivity. Qed.
Lemma gemm_nj_asserts_gen_eq : gemm_nj_asserts_gen = gemm_asserts.  Proof. reflexivity. Qed.
Lemma gemm_jn_asserts_gen_eq : gemm_jn_asserts_gen = gemm_asserts.  Proof. reflexivity. Qed.
Lemma gemm_jj_asserts_gen_eq : gemm_jj_asserts_gen = gemm_asserts.  Proof. reflexivity. Qed.
Lemma gemv_gen_eq : gemv_gen = gemv_n.  Proof. reflexivity. Qed.
Lemma gemv_asserts_gen_eq : gemv_asserts_gen = gemv_asserts.  Proof. reflexivity. Qed.

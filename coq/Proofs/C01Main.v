(* C01: the statement proved, assembled from ViewProofs / ViewProofs2. *)
From BM Require Import Base.Tactics Model.Layout Model.View Model.Spec
  Proofs.LayoutProofs Proofs.ViewProofs Proofs.ViewProofs2.
Local Open Scope Z_scope.

Fixpoint dot (a b : list Z) : Z :=
  match a, b with x :: a', y :: b' => x * y + dot a' b' | _, _ => 0 end.
Fixpoint vsub (a b : list Z) : list Z :=
  match a, b with x :: a', y :: b' => (x - y) :: vsub a' b' | _, _ => [] end.

(* strides() are the address increments of unit index steps: addresses are affine in the index
   tuple with coefficients strides() *)
Lemma strides_affine l : forall idx idx', length idx = length l -> length idx' = length l ->
  l_addr l idx' - l_addr l idx = dot (l_strides l) (vsub idx' idx).
Proof.
  induction l as [|d l IH]; intros [|i idx] [|i' idx'] H H'; cbn in *; try discriminate; [reflexivity|].
  specialize (IH idx idx'). unfold l_strides in IH. rewrite <- IH by lia. lia.
Qed.

Lemma lay_ok_is_empty d l n sz : lay_ok (d :: l) (n :: sz) -> l_is_empty (d :: l) = (n =? 0).
Proof.
  intros H. inv H. destruct H3 as (_ & Hn & H0 & Hs). cbn [l_is_empty].
  destruct (n =? 0) eqn:E; bprop.
  - subst. apply Z.eqb_eq. lia.
  - apply Z.eqb_neq. assert (0 < d_stride d) by lia. nia.
Qed.

Definition shape_agrees (v : view) (sz : list Z) : Prop :=
     l_sizes (lay v) = sz
  /\ l_extensions (lay v) = zb sz
  /\ l_num_elements (lay v) = prod sz
  /\ (forall n r, sz = n :: r -> v_size v = n /\ l_is_empty (lay v) = (n =? 0))
  /\ (forall idx idx', length idx = length sz -> length idx' = length sz ->
        v_addr v idx' - v_addr v idx = dot (l_strides (lay v)) (vsub idx' idx)).

Lemma shape_agrees_of_ok v sz : lay_ok (lay v) sz -> shape_agrees v sz.
Proof.
  intros H. unfold shape_agrees.
  split; [apply lay_ok_sizes; assumption|].
  split; [apply lay_ok_extensions; assumption|].
  split; [apply lay_ok_num_elements; assumption|].
  split.
  - intros n r ->. destruct (lay v) as [|d l] eqn:E; [inv H|].
    split; [|apply (lay_ok_is_empty _ _ _ _ H)].
    unfold v_size. rewrite E. cbn. inv H. apply dim_ok_size; assumption.
  - intros idx idx' Hl Hl'. unfold v_addr.
    rewrite <- (lay_ok_length _ _ H) in Hl, Hl'.
    pose proof (strides_affine (lay v) idx idx' Hl Hl'). lia.
Qed.

Theorem C01_view_algebra_proved :
  forall (sz : list Z) (ops : list op) (v : view),
    Forall (fun n => 0 <= n) sz ->           (* any dimensionality, any extents incl. 0 and 1 *)
    Forall c01_op ops ->                     (* any finite sequence of the view-forming operations *)
    run_ops ops (root_view (zb sz)) = Some v ->   (* each inside its documented domain *)
    let a := run_spec ops (root_spec sz) in  (* composition of the documented index mappings *)
       shape_agrees v (asz a)
    /\ forall idx, valid_idx (asz a) idx ->
            valid_idx (collapse sz) (amap a idx)
         /\ addr_brackets v idx = rowmajor (collapse sz) (amap a idx)
         /\ addr_paren    v idx = addr_brackets v idx
         /\ addr_cursor   v idx = addr_brackets v idx
         /\ 0 <= addr_brackets v idx < prod sz.
Proof.
  intros sz ops v Hsz Hops Hrun a.
  pose proof (represents_run _ ops _ _ _ Hops (represents_root sz Hsz) Hrun) as [Hok Ha].
  fold a in Hok, Ha.
  split; [apply shape_agrees_of_ok; assumption|].
  intros idx Hv. destruct (Ha idx Hv) as [Hr Er].
  rewrite addr_paren_eq, addr_brackets_eq.
  assert (Ec : addr_cursor v idx = base v + l_addr (lay v) idx).
  { destruct v as [l b]. eapply addr_cursor_eq; eassumption. }
  rewrite Ec. unfold v_addr in Er.
  repeat split; try assumption; try reflexivity.
  - rewrite Er. apply rowmajor_bounds in Hr. lia.
  - rewrite Er. apply rowmajor_bounds in Hr. rewrite prod_collapse in Hr. lia.
Qed.

(* A broadcasted view designates its source at every index of the added leading dimension,
   whatever value the (uninitialised) nelems of that dimension happens to hold. *)
Theorem C01_broadcast_proved : forall u v i, v_index i (v_broadcasted u v) = v.
Proof.
  intros u [l b] i. unfold v_index, v_broadcasted. cbn. f_equal. lia.
Qed.

(* non-vacuity: a 3x4x5 array, rotated, sliced, indexed, through call syntax with a range *)
Example C01_example :
  exists v, run_ops [ORotated; OSliced 1 3; OParen [PIdx 1; PRange 1 4; PAll]; OTransposed]
                    (root_view (zb [3; 4; 5])) = Some v
    /\ l_sizes (lay v) = [3; 3]
    /\ addr_brackets v [2; 1] = rowmajor [3; 4; 5] [2; 2; 2].
Proof. eexists. vm_compute. repeat split. Qed.

(* C15: what the adaptor computes, relative to FFTW's documented behaviour.
   The ring of "complex numbers", the twiddle factor, the executor of FFTW plans and what is assumed
   about them are Section variables / hypotheses: they appear as premises of the closed theorems. *)
From Coq Require Import Permutation Ring.
From BM Require Import Base.Tactics Model.Layout Model.View Model.Spec Model.FftwPlan Model.FftwDft
  Proofs.FftwPlanProofs Proofs.FftwViewProofs.
Local Open Scope Z_scope.

(* ---------- mask plumbing (no ring needed) ---------- *)
Lemma valid_idx_select (m : list bool) : forall ns idx,
  valid_idx ns idx -> valid_idx (select m ns) (select m idx).
Proof.
  unfold valid_idx. induction m as [|b m IH]; intros ns idx H.
  - destruct ns, idx; constructor.
  - inv H; cbn; [constructor|]. destruct b; [constructor; auto|]; apply IH; auto.
Qed.

Lemma dotp_split (w : list bool) : forall idx str,
  length idx = length w -> length str = length w ->
  dotp idx str = dotp (select (map negb w) idx) (select (map negb w) str)
               + dotp (select w idx) (select w str).
Proof.
  induction w as [|b w IH]; intros idx str Hi Hs; destruct idx, str; try discriminate; cbn; auto.
  rewrite (IH idx str) by (cbn in *; lia). destruct b; cbn; lia.
Qed.

Lemma select_length_neg {A} (w : list bool) : forall (l : list A), length l = length w ->
  length (select (map negb w) l) = count_occ bool_dec w false.
Proof.
  induction w as [|b w IH]; intros l H; destruct l; try discriminate; cbn; auto.
  destruct b; cbn; rewrite IH by (cbn in H; lia); reflexivity.
Qed.

Lemma dotp_merge (w : list bool) : forall b t str,
  length b = count_occ bool_dec w false -> length t = count_occ bool_dec w true ->
  length str = length w ->
  dotp (merge w b t) str = dotp b (select (map negb w) str) + dotp t (select w str).
Proof.
  induction w as [|x w IH]; intros b t str Hb Ht Hs.
  - destruct b, t; try discriminate. reflexivity.
  - destruct str as [|s str]; try discriminate. destruct x; cbn in *.
    + destruct t as [|t0 t]; try discriminate. cbn in *. rewrite IH by lia. lia.
    + destruct b as [|b0 b]; try discriminate. cbn in *. rewrite IH by lia. lia.
Qed.

Lemma merge_select (w : list bool) : forall idx, length idx = length w ->
  merge w (select (map negb w) idx) (select w idx) = idx.
Proof.
  induction w as [|x w IH]; intros idx H; destruct idx; try discriminate; auto.
  destruct x; cbn; rewrite IH by (cbn in H; lia); reflexivity.
Qed.

Lemma map_eq_Forall {A B} (f g : A -> B) (l : list A) : map f l = map g l -> Forall (fun x => f x = g x) l.
Proof. induction l; cbn; intros H; constructor; inv H; auto. Qed.

Lemma forallb_Forall_pos (f : iodim -> Z) (l : list iodim) :
  Forall (fun n => 0 < n) (map f l) -> forallb (fun d => 0 <? f d) l = true.
Proof. induction l; cbn; intros H; auto. inv H. rewrite IHl by auto. bsolve. Qed.
Lemma forallb_Forall_nonneg (f : iodim -> Z) (l : list iodim) :
  Forall (fun n => 0 <= n) (map f l) -> forallb (fun d => 0 <=? f d) l = true.
Proof. induction l; cbn; intros H; auto. inv H. rewrite IHl by auto. bsolve. Qed.

Lemma Forall_select {A} (P : A -> Prop) (m : list bool) : forall l, Forall P l -> Forall P (select m l).
Proof.
  induction m as [|b m IH]; intros l H; destruct l; cbn; auto. inv H. destruct b; auto.
Qed.

Lemma NoDup_map_shift (k : Z) (l : list Z) : NoDup (map (fun x => k + x) l) -> NoDup l.
Proof. apply NoDup_map_inv. Qed.

Lemma fftw_plan_dft_fields which bi li bo lo s d h g :
  g = plan_ctor which bi li bo lo s ->
  plan_of which (l_sizes li) (l_strides li) (l_strides lo) = (d, h) ->
  g_dims g = d /\ g_hdims g = h /\ g_in g = bi /\ g_out g = bo /\ g_sign g = s
  /\ Z.testbit (g_flags g) 4 = true
  /\ planning_preserves_arrays (g_flags g) = true /\ planning_needs_wisdom (g_flags g) = false.
Proof. intros -> E. unfold plan_ctor, fftw_plan_dft. rewrite E. cbn. auto 10. Qed.

(* The planner flags of every plan the adaptor creates, whatever the mask, the pointers, the layouts (hence
   every size), the sign and the flags argument: FFTW_ESTIMATE | FFTW_PRESERVE_INPUT.  So planning leaves the
   arrays alone, an out-of-place execution preserves its input, and the plan is not wisdom-only. *)
Theorem C15_planner_flags_proved :
  forall which bi li bo lo s flags,
    let g := fftw_plan_dft which bi li bo lo s flags in
       g_flags g = Z.lor FFTW_ESTIMATE FFTW_PRESERVE_INPUT
    /\ planning_preserves_arrays (g_flags g) = true
    /\ Z.testbit (g_flags g) 4 = true
    /\ planning_needs_wisdom (g_flags g) = false.
Proof.
  intros. subst g. unfold fftw_plan_dft.
  destruct (plan_of which (l_sizes li) (l_strides li) (l_strides lo)) as [d h]. cbn. auto.
Qed.

Section DFT.
  Variable C : Type.
  Variables (c0 c1 : C) (cadd cmul csub : C -> C -> C) (copp : C -> C).
  Hypothesis Cring : ring_theory c0 c1 cadd cmul csub copp eq.
  Add Ring CR : Cring.
  Variable tw : Z -> Z -> Z -> C.

  Notation "x +c y" := (cadd x y) (at level 50, left associativity).
  Notation "x *c y" := (cmul x y) (at level 40, left associativity).
  Notation Csum := (csum C c0 cadd).
  Notation Zc := (zc C c0 c1 cadd).
  Notation Nc := (nc C c0 c1 cadd).
  Notation Mdft := (mdft C c0 cadd cmul tw).
  Notation DftN := (dftN C c0 cadd cmul tw).
  Notation ScaleN := (scaleN C c0 c1 cadd cmul).

  (* ---------- finite sums ---------- *)
  Fixpoint lsum (f : Z -> C) (l : list Z) : C :=
    match l with [] => c0 | k :: l' => f k +c lsum f l' end.
  Lemma csum_lsum f n : Csum f n = lsum f (zrange n).
  Proof. unfold csum. induction (zrange n); cbn; auto. rewrite IHl. reflexivity. Qed.

  Lemma lsum_ext f g l : (forall k, In k l -> f k = g k) -> lsum f l = lsum g l.
  Proof. induction l; cbn; intros H; auto. rewrite H, IHl; auto. Qed.
  Lemma lsum_add f g l : lsum (fun k => f k +c g k) l = lsum f l +c lsum g l.
  Proof. induction l; cbn; [ring|]. rewrite IHl. ring. Qed.
  Lemma lsum_scal c f l : lsum (fun k => c *c f k) l = c *c lsum f l.
  Proof. induction l; cbn; [ring|]. rewrite IHl. ring. Qed.
  Lemma lsum_zero l : lsum (fun _ => c0) l = c0.
  Proof. induction l; cbn; auto. rewrite IHl. ring. Qed.
  Lemma lsum_swap (f : Z -> Z -> C) la lb :
    lsum (fun j => lsum (fun k => f j k) lb) la = lsum (fun k => lsum (fun j => f j k) la) lb.
  Proof.
    induction la as [|a la IH]; cbn.
    - rewrite lsum_zero. reflexivity.
    - rewrite IH, <- lsum_add. reflexivity.
  Qed.
  Lemma lsum_delta_out a f i l : ~ In i l ->
    lsum (fun j => (if j =? i then a else c0) *c f j) l = c0.
  Proof.
    induction l as [|k l IH]; cbn; intros H; auto.
    destruct (Z.eqb_spec k i); [exfalso; auto|]. rewrite IH by auto. ring.
  Qed.
  Lemma lsum_delta a f i l : NoDup l -> In i l ->
    lsum (fun j => (if j =? i then a else c0) *c f j) l = a *c f i.
  Proof.
    induction l as [|k l IH]; cbn; intros Hnd Hin; [contradiction|]. inv Hnd.
    destruct (Z.eqb_spec k i).
    - subst. rewrite lsum_delta_out by auto. ring.
    - destruct Hin; [contradiction|]. rewrite IH by auto. ring.
  Qed.

  Lemma csum_ext f g n : (forall k, 0 <= k < n -> f k = g k) -> Csum f n = Csum g n.
  Proof. intros H. rewrite !csum_lsum. apply lsum_ext. intros k Hk. apply H, In_zrange, Hk. Qed.
  Lemma csum_scal c f n : Csum (fun k => c *c f k) n = c *c Csum f n.
  Proof. rewrite !csum_lsum. apply lsum_scal. Qed.
  Lemma csum_swap (f : Z -> Z -> C) n m :
    Csum (fun j => Csum (fun k => f j k) m) n = Csum (fun k => Csum (fun j => f j k) n) m.
  Proof. rewrite csum_lsum. erewrite lsum_ext; [|intros; apply csum_lsum]. rewrite lsum_swap.
         rewrite csum_lsum. apply lsum_ext. intros. rewrite csum_lsum. reflexivity. Qed.
  Lemma csum_delta a f i n : 0 <= i < n ->
    Csum (fun j => (if j =? i then a else c0) *c f j) n = a *c f i.
  Proof. intros H. rewrite csum_lsum. apply lsum_delta; [apply NoDup_zrange | apply In_zrange, H]. Qed.

  (* ---------- the natural numbers inside C ---------- *)
  Lemma nc_add a b : Nc (a + b) = Nc a +c Nc b.
  Proof. induction a; cbn; [ring|]. rewrite IHa. ring. Qed.
  Lemma nc_mul a b : Nc (a * b) = Nc a *c Nc b.
  Proof. induction a; cbn; [ring|]. rewrite nc_add, IHa. ring. Qed.
  Lemma zc_mul a b : 0 <= a -> 0 <= b -> Zc (a * b) = Zc a *c Zc b.
  Proof. intros. unfold zc. rewrite Z2Nat.inj_mul by lia. apply nc_mul. Qed.
  Lemma zc_1 : Zc 1 = c1.
  Proof. unfold zc. change (Z.to_nat 1) with 1%nat. cbn. ring. Qed.
  Lemma npoints_nonneg which : forall ns, Forall (fun n => 0 <= n) ns -> 0 <= npoints which ns.
  Proof.
    induction which as [|b w IH]; intros ns H; cbn; [lia|].
    destruct ns; [destruct b; lia|]. inv H. destruct b; auto. apply Z.mul_nonneg_nonneg; auto.
  Qed.
  Lemma scaleN_npoints which : forall ns, Forall (fun n => 0 <= n) ns ->
    ScaleN which ns = Zc (npoints which ns).
  Proof.
    induction which as [|b w IH]; intros ns H.
    - cbn [scaleN npoints]. rewrite zc_1. reflexivity.
    - destruct ns as [|n ns]; cbn [scaleN npoints]; [destruct b; rewrite zc_1; reflexivity|]. inv H.
      destruct b; rewrite IH by auto; auto.
      rewrite zc_mul; auto. apply npoints_nonneg; auto.
  Qed.

  (* ---------- the multi-dimensional DFT: extensionality, linearity, split by the mask ---------- *)
  Lemma mdft_ext s ns : forall x y k, length k = length ns ->
    (forall t, valid_idx ns t -> x t = y t) -> Mdft s ns x k = Mdft s ns y k.
  Proof.
    induction ns as [|n ns IH]; intros x y k Hk H; destruct k; try discriminate; cbn.
    - apply H. constructor.
    - apply csum_ext. intros j Hj. f_equal. apply IH; [cbn in Hk; lia|].
      intros t Ht. apply H. constructor; auto.
  Qed.

  Lemma dftN_ext s which : forall ns x y idx,
    length ns = length which -> valid_idx ns idx ->
    (forall t, valid_idx ns t -> x t = y t) -> DftN s which ns x idx = DftN s which ns y idx.
  Proof.
    induction which as [|b w IH]; intros ns x y idx Hl Hv H.
    - destruct ns; try discriminate. cbn. apply H. constructor.
    - destruct ns as [|n ns]; try discriminate. inv Hv. destruct b; cbn.
      + apply csum_ext. intros j Hj. f_equal. apply IH; auto.
        intros t Ht. apply H. constructor; auto.
      + apply IH; auto. intros t Ht. apply H. constructor; auto.
  Qed.

  Lemma dftN_linear s which : forall ns (c : Z -> C) (x : Z -> list Z -> C) m idx,
    DftN s which ns (fun r => Csum (fun j => c j *c x j r) m) idx
    = Csum (fun j => c j *c DftN s which ns (x j) idx) m.
  Proof.
    induction which as [|b w IH]; intros ns c x m idx; [reflexivity|].
    destruct ns as [|n ns]; [destruct b; reflexivity|].
    destruct idx as [|i idx]; [destruct b; reflexivity|].
    destruct b; cbn.
    - erewrite csum_ext.
      2:{ intros k _. rewrite (IH ns c (fun j r => x j (k :: r)) m idx). rewrite <- csum_scal. reflexivity. }
      rewrite csum_swap. apply csum_ext. intros j _.
      rewrite <- csum_scal. apply csum_ext. intros k _. ring.
    - apply (IH ns c (fun j r => x j (i :: r)) m idx).
  Qed.

  Lemma dftN_mdft s which : forall ns x idx,
    length ns = length which -> length idx = length which ->
    DftN s which ns x idx
    = Mdft s (select which ns) (fun t => x (merge which (select (map negb which) idx) t)) (select which idx).
  Proof.
    induction which as [|b w IH]; intros ns x idx Hn Hi.
    - destruct ns, idx; try discriminate. reflexivity.
    - destruct ns as [|n ns], idx as [|i idx]; try discriminate. destruct b; cbn.
      + apply csum_ext. intros j _. f_equal.
        rewrite (IH ns (fun r => x (j :: r)) idx) by (cbn in *; lia). reflexivity.
      + rewrite (IH ns (fun r => x (i :: r)) idx) by (cbn in *; lia). reflexivity.
  Qed.

  (* ---------- forward followed by backward, on index functions ---------- *)
  (* DFT inversion in one dimension, for one size n: sum_k w^(-s k l) w^(s j k) = n [j = l].
     Only the transformed sizes need it. *)
  Definition tw_orthogonal_at (s n : Z) : Prop :=
    forall j l, 0 <= j < n -> 0 <= l < n ->
      Csum (fun k => tw (- s) n (k * l) *c tw s n (j * k)) n = if j =? l then Zc n else c0.

  Lemma dftN_forward_backward s which : forall ns x idx,
    Forall (tw_orthogonal_at s) (select which ns) ->
    length ns = length which -> valid_idx ns idx ->
    DftN (- s) which ns (DftN s which ns x) idx = ScaleN which ns *c x idx.
  Proof.
    induction which as [|b w IH]; intros ns x idx Horth Hl Hv.
    - destruct ns; try discriminate. inv Hv. cbn. ring.
    - destruct ns as [|n ns]; try discriminate. inv Hv. rename y into i, l' into idx.
      assert (Hl' : length ns = length w) by (cbn in Hl; lia).
      destruct b.
      + cbn [select] in Horth. inv Horth. rename H2 into Hn, H4 into Horth'.
        cbn [dftN scaleN].
        erewrite csum_ext.
        2:{ intros k Hk.
            rewrite (dftN_linear (- s) w ns (fun j => tw s n (j * k))
                       (fun j => DftN s w ns (fun r => x (j :: r))) n idx).
            erewrite csum_ext.
            2:{ intros j Hj. rewrite (IH ns (fun r => x (j :: r)) idx Horth' Hl' H3). reflexivity. }
            rewrite <- csum_scal. reflexivity. }
        rewrite csum_swap.
        erewrite csum_ext.
        2:{ intros j Hj.
            erewrite csum_ext.
            2:{ intros k Hk.
                replace (tw (- s) n (k * i) *c (tw s n (j * k) *c (ScaleN w ns *c x (j :: idx))))
                  with ((ScaleN w ns *c x (j :: idx)) *c (tw (- s) n (k * i) *c tw s n (j * k))) by ring.
                reflexivity. }
            rewrite csum_scal, (Hn j i Hj H1).
            replace ((ScaleN w ns *c x (j :: idx)) *c (if j =? i then Zc n else c0))
              with ((if j =? i then Zc n else c0) *c (ScaleN w ns *c x (j :: idx)))
              by (destruct (j =? i); ring).
            reflexivity. }
        rewrite (csum_delta (Zc n) (fun j => ScaleN w ns *c x (j :: idx)) i n H1). ring.
      + cbn [dftN scaleN]. cbn [select] in Horth. apply (IH ns (fun r => x (i :: r)) idx Horth Hl' H3).
  Qed.

  (* ---------- FFTW as an oracle ---------- *)
  Variable fftw_exec : guru_call -> Z -> Z -> mem C -> mem C.
  Variable fftw_plan_effect : guru_call -> mem C -> mem C.
  Notation Dft_mem := (dft_mem C fftw_exec fftw_plan_effect).
  Notation Plan_mem := (plan_mem C fftw_exec fftw_plan_effect).
  Notation Fft_range_mem := (fft_range_mem C fftw_exec fftw_plan_effect).

  (* FFTW's documented behaviour at PLANNING time (manual 4.3.2, see planning_preserves_arrays in
     Model/FftwPlan.v): with FFTW_ESTIMATE (or FFTW_WISDOM_ONLY) among the flags, creating the plan does
     not write to the arrays -- for any transform size.  Nothing is assumed for other flag sets (measuring
     planners overwrite both arrays). *)
  Definition plan_contract : Prop :=
    forall g m, planning_preserves_arrays (g_flags g) = true -> fftw_plan_effect g m = m.

  (* FFTW's documented domain for fftw_plan_guru64_dft + fftw_execute_dft (manual 4.5, 4.6):
     the plan is executed on the arrays it was created for; a valid sign; positive transform sizes, non-negative vector sizes (else the plan is NULL);
     every output location is written by one cell only; and either the arrays are distinct (no input
     location is an output location) and FFTW_PRESERVE_INPUT was requested, or the transform is
     in place: same pointer and is = os in every dimension. *)
  Definition guru_pre (g : guru_call) (pin pout : Z) : Prop :=
    let cells := guru_cells (g_dims g) (g_hdims g) in
       guru_kosher g = true
    /\ (pin = g_in g /\ pout = g_out g)            (* executed on the arrays it was planned for *)
    /\ (g_sign g = -1 \/ g_sign g = 1)
    /\ NoDup (map c_out cells)
    /\ (   (Z.testbit (g_flags g) 4 = true /\
            forall c c', In c cells -> In c' cells -> pin + c_in c <> pout + c_out c')
        \/ (pin = pout /\ Forall (fun d => io_is d = io_os d) (g_dims g ++ g_hdims g))).

  (* What FFTW documents the execution computes: for every vector (batch) cell, the unnormalised
     multi-dimensional DFT (mdft, FFTW manual 4.8) of the input cell, with the plan's sign, read
     from memory as it was before the call; nothing else is modified (this includes: the input of
     an out-of-place transform is preserved). *)
  Definition guru_post (g : guru_call) (pin pout : Z) (m m' : mem C) : Prop :=
    let dims := g_dims g in let hdims := g_hdims g in
       (forall b t, valid_idx (map io_n hdims) b -> valid_idx (map io_n dims) t ->
           m' (pout + c_out (guru_cell dims hdims b t))
           = Mdft (g_sign g) (map io_n dims) (fun t' => m (pin + c_in (guru_cell dims hdims b t'))) t)
    /\ (forall a, ~ In a (map (fun c => pout + c_out c) (guru_cells dims hdims)) -> m' a = m a).

  Definition guru_contract : Prop :=
    forall g pin pout m, guru_pre g pin pout -> guru_post g pin pout m (fftw_exec g pin pout m).

  (* the domain of the property, for one (input view, output view, mask, sign) *)
  Definition c15_domain (which : list bool) (vin vout : view) (s : Z) : Prop :=
       length which = length (lay vin) /\ length (lay vout) = length (lay vin)
    /\ zero_based (lay vin) /\ zero_based (lay vout)
    /\ l_sizes (lay vout) = l_sizes (lay vin)                       (* equal extents *)
    /\ Forall (fun n => 0 <= n) (l_sizes (lay vin))
    /\ (s = -1 \/ s = 1)
    /\ NoDup (footprint vout)                                        (* the output view has no self-overlap *)
    /\ (   (forall a b, In a (footprint vin) -> In b (footprint vout) -> a <> b)      (* out of place *)
        \/ (base vout = base vin /\ l_strides (lay vout) = l_strides (lay vin))).    (* in place *)

  (* the exclusion: no transformed dimension is empty (FFTW returns a NULL plan for those) *)
  Definition no_empty_transform (which : list bool) (v : view) : Prop :=
    Forall (fun n => 0 < n) (select which (l_sizes (lay v))).

  Definition c15_result (which : list bool) (vin vout : view) (s : Z) (m : mem C) (r : option (mem C)) : Prop :=
    exists m', r = Some m'
      /\ (forall idx, valid_idx (l_sizes (lay vout)) idx ->
             m' (v_addr vout idx) = DftN s which (l_sizes (lay vin)) (view_read C m vin) idx)
      /\ (forall a, ~ In a (footprint vout) -> m' a = m a).

  Lemma plan_of_inplace which ns is : length ns = length which -> length is = length which ->
    let '(d, h) := plan_of which ns is is in Forall (fun x => io_is x = io_os x) (d ++ h).
  Proof.
    intros Hn Hi. pose proof (plan_of_sizes which ns is is Hn Hi Hi) as S.
    destruct (plan_of which ns is is) as [d h]. destruct S as (_ & B & D & _ & F & G).
    apply Forall_app. split; apply map_eq_Forall; congruence.
  Qed.

  (* explicit plan objects: FFTW's own domain applies (the constructor asserts a non-NULL plan) *)
  Theorem C15_plan_object_proved :
    guru_contract -> plan_contract ->
    forall which vin vout s m,
      c15_domain which vin vout s -> no_empty_transform which vin ->
      c15_result which vin vout s m (Plan_mem which vin vout s m).
  Proof.
    intros Hc Hp which vin vout s m (Hw & Hl & Zi & Zo & Hs & Hnn & Hsg & Hnd & Hio) Hne.
    pose proof (C15_plan_denotes_view_dft_proved which vin vout Hw Hl Zi Zo) as P.
    pose proof (C15_output_frame_proved which vin vout s Hw Hl Zi Zo Hs) as F. cbv zeta in F.
    remember (plan_ctor which (base vin) (lay vin) (base vout) (lay vout) s) as g eqn:Eg.
    destruct F as (Fo & Fi & _).
    pose proof (plan_of_sizes which (l_sizes (lay vin)) (l_strides (lay vin)) (l_strides (lay vout))) as S.
    rewrite l_sizes_length, !l_strides_length in S.
    specialize (S (eq_sym Hw) (eq_sym Hw) (eq_trans Hl (eq_sym Hw))).
    pose proof (plan_of_inplace which (l_sizes (lay vin)) (l_strides (lay vin))) as Pin.
    rewrite l_sizes_length, l_strides_length in Pin. specialize (Pin (eq_sym Hw) (eq_sym Hw)).
    destruct (plan_of which (l_sizes (lay vin)) (l_strides (lay vin)) (l_strides (lay vout))) as [d h] eqn:Epl.
    destruct (fftw_plan_dft_fields _ _ _ _ _ _ d h g Eg Epl) as (Ed & Eh & Egi & Ego & Egs & Egf & Egp & Egw).
    destruct P as (P & _).
    destruct S as (Sn & Sis & Sos & Shn & Shis & Shos).
    unfold plan_out_addresses, plan_in_addresses in Fo, Fi. rewrite Ed, Eh in Fo, Fi.
    rewrite Ego in Fo. rewrite Egi in Fi.
    (* the plan is accepted *)
    assert (Hk : guru_kosher g = true).
    { unfold guru_kosher. rewrite Ed, Eh. apply andb_true_intro. split.
      - apply forallb_Forall_pos. rewrite Sn. exact Hne.
      - apply forallb_Forall_nonneg. rewrite Shn. apply Forall_select. exact Hnn. }
    (* FFTW's precondition *)
    assert (Hpre : guru_pre g (base vin) (base vout)).
    { unfold guru_pre. rewrite Ed, Eh, Egs. split; [exact Hk|split; [split; congruence|split; [exact Hsg|split]]].
      - apply (NoDup_map_shift (base vout)). rewrite map_map.
        eapply Permutation_NoDup; [apply Permutation_sym; exact Fo|exact Hnd].
      - destruct Hio as [Hdis|(Hb & Hst)].
        + left. split; [exact Egf|]. intros c c' Hc1 Hc2. apply Hdis.
          * apply (Permutation_in _ Fi). apply (in_map (fun c => base vin + c_in c)). exact Hc1.
          * apply (Permutation_in _ Fo). apply (in_map (fun c => base vout + c_out c)). exact Hc2.
        + right. split; [symmetry; exact Hb|]. rewrite Hst in Epl. rewrite Epl in Pin. exact Pin. }
    specialize (Hc g (base vin) (base vout) m Hpre).
    unfold guru_post in Hc. rewrite Ed, Eh, Egs in Hc. destruct Hc as (Hval & Hfr).
    unfold c15_result, plan_mem, fe_plan_execute. rewrite <- Eg. cbn [run_events].
    unfold plan_nonnull. rewrite Hk, Egw. cbn [negb andb]. rewrite (Hp g m Egp).
    eexists. split; [reflexivity|split].
    - intros idx Hv.
      assert (Hli : length idx = length which).
      { rewrite (valid_idx_length _ _ Hv), l_sizes_length. lia. }
      rewrite Hs in Hv.
      set (b := select (map negb which) idx). set (t := select which idx).
      assert (Hvb : valid_idx (map io_n h) b) by (rewrite Shn; apply valid_idx_select; exact Hv).
      assert (Hvt : valid_idx (map io_n d) t) by (rewrite Sn; apply valid_idx_select; exact Hv).
      specialize (Hval b t Hvb Hvt).
      assert (Eo : v_addr vout idx = base vout + c_out (guru_cell d h b t)).
      { unfold guru_cell, c_out. cbn [snd]. rewrite Sos, Shos.
        pose proof (v_addr_zero_based vout idx Zo) as A.
        rewrite (dotp_split which idx (l_strides (lay vout))) in A
          by (rewrite ?l_strides_length; lia). fold b t in A. lia. }
      rewrite Eo, Hval.
      rewrite (dftN_mdft s which (l_sizes (lay vin)) (view_read C m vin) idx)
        by (rewrite ?l_sizes_length; lia).
      fold b t. rewrite Sn. apply mdft_ext.
      { subst t. rewrite <- Sn, map_length. rewrite <- (map_length io_n d), Sn.
        rewrite !select_length_count; rewrite ?l_sizes_length; auto. }
      intros t' Ht'. unfold view_read. f_equal.
      unfold guru_cell, c_in. cbn [snd fst]. rewrite Sis, Shis.
      pose proof (v_addr_zero_based vin (merge which b t') Zi) as A.
      rewrite (dotp_merge which b t' (l_strides (lay vin))) in A.
      + lia.
      + subst b. apply select_length_neg. exact Hli.
      + rewrite (valid_idx_length _ _ Ht'). apply select_length_count. rewrite l_sizes_length. auto.
      + rewrite l_strides_length. auto.
    - intros a Ha. apply Hfr. intros Hin. apply Ha. apply (Permutation_in _ Fo). exact Hin.
  Qed.

  (* fftw::dft and every front end built on it: no exclusion -- an empty view is a no-op *)
  Theorem C15_equals_direct_dft_proved :
    guru_contract -> plan_contract ->
    forall which vin vout s m,
      c15_domain which vin vout s ->
      c15_result which vin vout s m (Dft_mem which vin vout s m).
  Proof.
    intros Hc Hp which vin vout s m D. pose proof D as (Hw & Hl & Zi & Zo & Hs & Hnn & _).
    unfold dft_mem. pose proof (fe_dft_call which vin vout s) as E.
    destruct (l_num_elements (lay vin) =? 0) eqn:En; rewrite E.
    - apply Z.eqb_eq in En. cbn [run_events]. exists m. split; [reflexivity|split; [|reflexivity]].
      intros idx Hv. exfalso. rewrite Hs in Hv. exact (num_elements_zero_no_idx _ Hnn En idx Hv).
    - apply Z.eqb_neq in En. apply (C15_plan_object_proved Hc Hp which vin vout s m D).
      unfold no_empty_transform. apply Forall_select. apply num_elements_nonzero_pos; assumption.
  Qed.

  (* the lazy range form  out = multi::fft::dft(which, in, dir)  computes the same thing *)
  Theorem C15_lazy_range_equals_direct_dft_proved :
    guru_contract -> plan_contract ->
    forall which vin vout s m,
      c15_domain which vin vout s ->
      iter_pair_okb (l_size (lay vin)) vin = true -> iter_pair_okb (l_size (lay vin)) vout = true ->
      c15_result which vin vout s m (Fft_range_mem which vin vout s m).
  Proof.
    intros Hc Hp which vin vout s m D Hi Ho. unfold fft_range_mem.
    rewrite (C15_lazy_range_proved which vin vout s Hi Ho).
    apply (C15_equals_direct_dft_proved Hc Hp which vin vout s m D).
  Qed.

  (* "A distinct input is left unchanged." *)
  Corollary C15_input_unchanged_proved :
    guru_contract -> plan_contract ->
    forall which vin vout s m,
      c15_domain which vin vout s ->
      (forall a b, In a (footprint vin) -> In b (footprint vout) -> a <> b) ->
      exists m', Dft_mem which vin vout s m = Some m' /\
        forall idx, valid_idx (l_sizes (lay vin)) idx -> m' (v_addr vin idx) = m (v_addr vin idx).
  Proof.
    intros Hc Hp which vin vout s m Hd Hdis.
    destruct (C15_equals_direct_dft_proved Hc Hp which vin vout s m Hd) as (m' & E & _ & Hfr).
    exists m'. split; [exact E|]. intros idx Hv. apply Hfr. intros Hin.
    apply (Hdis (v_addr vin idx) (v_addr vin idx)); auto.
    unfold footprint. apply in_map. apply In_tuples. exact Hv.
  Qed.

  (* "Forward followed by backward multiplies every element by the number of transformed points":
     forward from vin into vout, then the opposite sign from vout into v3. *)
  Theorem C15_forward_backward_proved :
    guru_contract -> plan_contract ->
    forall which vin vout v3 s m,
      c15_domain which vin vout s -> c15_domain which vout v3 (- s) ->
      Forall (tw_orthogonal_at s) (select which (l_sizes (lay vin))) ->
      exists m1 m2, Dft_mem which vin vout s m = Some m1 /\ Dft_mem which vout v3 (- s) m1 = Some m2 /\
        forall idx, valid_idx (l_sizes (lay vin)) idx ->
          m2 (v_addr v3 idx) = Zc (npoints which (l_sizes (lay vin))) *c m (v_addr vin idx).
  Proof.
    intros Hc Hp which vin vout v3 s m D1 D2 Ho.
    pose proof D1 as (Hw & Hl & _ & _ & Hs & Hnn & _). pose proof D2 as (_ & _ & _ & _ & Hs3 & _).
    destruct (C15_equals_direct_dft_proved Hc Hp which vin vout s m D1) as (m1 & E1 & V1 & _).
    destruct (C15_equals_direct_dft_proved Hc Hp which vout v3 (- s) m1 D2) as (m2 & E2 & V2 & _).
    exists m1, m2. split; [exact E1|split; [exact E2|]]. intros idx Hv.
    rewrite V2 by (rewrite Hs3, Hs; exact Hv). rewrite Hs.
    rewrite (dftN_ext (- s) which (l_sizes (lay vin)) (view_read C m1 vout)
               (DftN s which (l_sizes (lay vin)) (view_read C m vin)) idx).
    - rewrite (dftN_forward_backward s which _ _ _ Ho) by (rewrite ?l_sizes_length; auto).
      rewrite scaleN_npoints by auto. reflexivity.
    - rewrite l_sizes_length. auto.
    - exact Hv.
    - intros t Ht. unfold view_read at 1. apply V1. rewrite Hs. exact Ht.
  Qed.

  (* The exclusion that remains, and only for explicit plan objects: with an empty transformed dimension
     FFTW returns a NULL plan; plan's constructor asserts on it (fftw.hpp:318, :415) -- the precondition of
     that lower-level interface -- and execute would dereference it.  Witness: a 1-D view of extent 0. *)
  Lemma C15_empty_witness_domain :
    let v := mkview [mkdim 1 0 0] 0 in c15_domain [true] v v (-1).
  Proof.
    cbn. unfold c15_domain, zero_based, footprint. cbn.
    repeat split; auto; try (repeat constructor; cbn; lia).
  Qed.

  Theorem C15_plan_object_needs_nonempty_transform_proved :
    exists which v, c15_domain which v v (-1) /\ ~ no_empty_transform which v
                    /\ forall m, Plan_mem which v v (-1) m = None.
  Proof.
    exists [true], (mkview [mkdim 1 0 0] 0). split; [exact C15_empty_witness_domain|split].
    - unfold no_empty_transform. cbn. intro H. inv H. lia.
    - intros m. reflexivity.
  Qed.

  (* ... while fftw::dft on the same witness returns, leaving memory as it was *)
  Example C15_dft_empty_witness m : Dft_mem [true] (mkview [mkdim 1 0 0] 0) (mkview [mkdim 1 0 0] 0) (-1) m = Some m.
  Proof. reflexivity. Qed.

End DFT.

(* ---------- the contract can be met: a reference executor ---------- *)
Lemma NoDup_map_inj {A B} (f : A -> B) (l : list A) x y :
  NoDup (map f l) -> In x l -> In y l -> f x = f y -> x = y.
Proof.
  induction l as [|a l IH]; cbn; intros Hnd Hx Hy E; [contradiction|]. inv Hnd.
  destruct Hx as [->|Hx], Hy as [->|Hy]; auto.
  - exfalso. apply H1. rewrite E. apply in_map. exact Hy.
  - exfalso. apply H1. rewrite <- E. apply in_map. exact Hx.
Qed.

Lemma In_guru_cells dims hdims b t :
  valid_idx (map io_n hdims) b -> valid_idx (map io_n dims) t ->
  In (guru_cell dims hdims b t) (guru_cells dims hdims).
Proof.
  intros Hb Ht. unfold guru_cells. apply in_flat_map. exists b. split; [apply In_tuples; exact Hb|].
  apply in_map. apply In_tuples. exact Ht.
Qed.

Section RefExec.
  Variable C : Type.
  Variables (c0 : C) (cadd cmul : C -> C -> C).
  Variable tw : Z -> Z -> Z -> C.

  Theorem ref_exec_meets_contract : guru_contract C c0 cadd cmul tw (ref_exec C c0 cadd cmul tw).
  Proof.
    intros g pin pout m (Hk & _ & Hsg & Hnd & _). unfold guru_post, ref_exec. split.
    - intros b t Hb Ht.
      pose proof (In_guru_cells (g_dims g) (g_hdims g) b t Hb Ht) as Hin.
      destruct (find _ _) as [c|] eqn:Ef.
      + apply find_some in Ef. destruct Ef as (Hc & E). apply Z.eqb_eq in E.
        assert (c = guru_cell (g_dims g) (g_hdims g) b t).
        { eapply NoDup_map_inj; [exact Hnd|exact Hc|exact Hin|]. lia. }
        subst c. reflexivity.
      + exfalso. pose proof (find_none _ _ Ef _ Hin) as E. cbn beta in E.
        apply Z.eqb_neq in E. apply E. reflexivity.
    - intros a Ha. destruct (find _ _) as [c|] eqn:Ef; [|reflexivity].
      apply find_some in Ef. destruct Ef as (Hc & E). apply Z.eqb_eq in E.
      exfalso. apply Ha. rewrite E. apply (in_map (fun c => pout + c_out c)). exact Hc.
  Qed.
End RefExec.

(* ---------- non-vacuity: a concrete, non-trivial instance of the domain ---------- *)
Example C15_domain_example :
  (* input: a 3x4x5 array at offset 0, rotated (sizes 4,5,3);
     output: the block [1,5) of a 6x5x3 array placed at offset 100; mask (T,F,T), forward *)
  let vin := v_rotated (root_view [(0,3);(0,4);(0,5)]) in
  let vout := v_sliced 1 5 (mkview (mk_layout [(0,6);(0,5);(0,3)]) 100) in
  c15_domain [true;false;true] vin vout (-1) /\ no_empty_transform [true;false;true] vin.
Proof.
  cbv zeta. unfold c15_domain, no_empty_transform, zero_based.
  split; [|vm_compute; repeat constructor].
  split; [reflexivity|]. split; [reflexivity|].
  split; [vm_compute; repeat constructor|]. split; [vm_compute; repeat constructor|].
  split; [reflexivity|]. split; [vm_compute; repeat constructor; discriminate|].
  split; [left; reflexivity|]. split.
  - apply (NoDup_map_inv (fun x => x)). rewrite map_id.
    match goal with |- NoDup ?l => let l' := eval vm_compute in l in change (NoDup l') end.
    repeat (constructor; [cbn; intuition lia|]). constructor.
  - left. intros a b Ha Hb.
    match type of Ha with In _ ?l =>
      assert (Fa : forallb (fun a => a <? 60) l = true) by (vm_compute; reflexivity) end.
    match type of Hb with In _ ?l =>
      assert (Fb : forallb (fun b => 100 <=? b) l = true) by (vm_compute; reflexivity) end.
    rewrite forallb_forall in Fa, Fb. apply Fa in Ha. apply Fb in Hb. lia.
Qed.

(* non-vacuity of the inversion hypothesis: over the ring Z, with w = -1 (the second root of unity),
   sizes 1 and 2 satisfy it for both signs *)
Definition tw_pm (s n k : Z) : Z := if Z.even k then 1 else -1.
Example tw_pm_orthogonal_at_2 s : tw_orthogonal_at Z 0 1 Z.add Z.mul tw_pm s 2.
Proof.
  intros j l Hj Hl.
  assert (Ej : j = 0 \/ j = 1) by lia. assert (El : l = 0 \/ l = 1) by lia.
  destruct Ej as [-> | ->], El as [-> | ->]; vm_compute; reflexivity.
Qed.
Example tw_pm_orthogonal_at_1 s : tw_orthogonal_at Z 0 1 Z.add Z.mul tw_pm s 1.
Proof.
  intros j l Hj Hl. assert (j = 0) by lia. assert (l = 0) by lia. subst. vm_compute. reflexivity.
Qed.
